package control

// C04 monitor: decisions of the matcher built from the OPTIMISED rule program
// must equal the reference interpreter on the rule list AS WRITTEN, for the
// traffic pipeline (this file) and the two DNS pipelines (c04_dns_*).

import (
	"fmt"
	"net/netip"
	"os"
	"path/filepath"
	"strings"
	"testing"

	"github.com/daeuniverse/dae/common/assets"
	"github.com/daeuniverse/dae/component/routing"
	"github.com/daeuniverse/dae/pkg/config_parser"
	"github.com/daeuniverse/dae/pkg/geodata"
	vk "github.com/daeuniverse/dae/verifkit"
	"google.golang.org/protobuf/proto"
)

func verifC04GeoModel() *vk.GeoModel {
	return &vk.GeoModel{
		Site: map[string]map[string][]vk.GeoSiteItem{
			"geosite.dat": {
				"cn": {
					{Kind: "suffix", Val: "example.com", Attrs: []string{"cn"}},
					{Kind: "full", Val: "www.example.org"},
					{Kind: "keyword", Val: "ple.c", Attrs: []string{"ads"}},
					{Kind: "regex", Val: `^a[0-9]\.`},
				},
				"ads": {
					{Kind: "suffix", Val: "b.example.com", Attrs: []string{"ads"}},
					{Kind: "full", Val: "example.com", Attrs: []string{"ads", "cn"}},
				},
				"empty": {},
			},
			"extra.dat": {
				"tag": {{Kind: "suffix", Val: "org"}, {Kind: "full", Val: "ex-ample_1.com", Attrs: []string{"ads"}}},
			},
		},
		IP: map[string]map[string][]string{
			"geoip.dat": {
				"private": {"10.0.0.0/8", "192.168.0.0/24", "fd00::/8"},
				"cn":      {"10.1.0.0/16", "2001:db8::/32", "10.1.2.3/32"},
			},
			"extraip.dat": {
				"tag": {"128.0.0.0/1", "::/1"},
			},
		},
	}
}

func verifWriteGeoFiles(dir string, g *vk.GeoModel) error {
	if err := os.MkdirAll(dir, 0o755); err != nil {
		return err
	}
	kind := map[string]geodata.Domain_Type{"full": geodata.Domain_Full, "suffix": geodata.Domain_RootDomain, "keyword": geodata.Domain_Plain, "regex": geodata.Domain_Regex}
	for file, codes := range g.Site {
		var list geodata.GeoSiteList
		for code, items := range codes {
			gs := &geodata.GeoSite{CountryCode: strings.ToUpper(code)}
			for _, it := range items {
				d := &geodata.Domain{Type: kind[it.Kind], Value: it.Val}
				for _, a := range it.Attrs {
					d.Attribute = append(d.Attribute, &geodata.Domain_Attribute{Key: a, TypedValue: &geodata.Domain_Attribute_BoolValue{BoolValue: true}})
				}
				gs.Domain = append(gs.Domain, d)
			}
			list.Entry = append(list.Entry, gs)
		}
		b, err := proto.Marshal(&list)
		if err != nil {
			return err
		}
		if err := os.WriteFile(filepath.Join(dir, file), b, 0o644); err != nil {
			return err
		}
	}
	for file, codes := range g.IP {
		var list geodata.GeoIPList
		for code, pfs := range codes {
			gi := &geodata.GeoIP{CountryCode: strings.ToUpper(code)}
			for _, s := range pfs {
				pf := netip.MustParsePrefix(s)
				gi.Cidr = append(gi.Cidr, &geodata.CIDR{Ip: pf.Addr().AsSlice(), Prefix: uint32(pf.Bits())})
			}
			list.Entry = append(list.Entry, gi)
		}
		b, err := proto.Marshal(&list)
		if err != nil {
			return err
		}
		if err := os.WriteFile(filepath.Join(dir, file), b, 0o644); err != nil {
			return err
		}
	}
	return nil
}

func verifRulesText(rules []*config_parser.RoutingRule) string {
	var sb strings.Builder
	for _, r := range rules {
		sb.WriteString(r.String(false, false, false))
		sb.WriteByte('\n')
	}
	return sb.String()
}

func TestVerifC04(t *testing.T) {
	m := vk.NewMonitor("C04", os.Getenv("VERIF_PART"), "exploration",
		"rule lists biased to adjacent rules sharing function name, negation and outbound, repeated/overlapping values, aliases and geodata references (files written by the monitor); "+
			"each optimiser pipeline's compiled matcher vs the reference interpreter on the list as written; distinct = (pipeline, which optimisers changed the rule text, shape of the deciding rule); non-trivial = the optimiser pipeline changed the rule list")
	m.SetFloor(200)
	m.Assume("reference interpreter verifkit.RefRoute; geodata reference expansion is defined by the model the monitor itself wrote into the .dat files",
		"traffic pipeline assembled with the same optimiser list and order as control_plane.go (the call site itself needs a datapath)")
	r := vk.NewRand(0xC04)
	geo := verifC04GeoModel()
	vk.Geo = geo
	defer func() { vk.Geo = nil }()
	dir := filepath.Join(vk.BuildDir(), "run", "C04", fmt.Sprintf("assets-%d", os.Getpid()))
	if err := verifWriteGeoFiles(dir, geo); err != nil {
		m.Inconclusive("cannot write geodata files: %v", err)
		m.Done(t)
		return
	}
	defer os.RemoveAll(dir)
	os.Unsetenv("DAE_LOCATION_ASSET")
	log := verifQuietLog()
	dat := func() routing.RulesOptimizer {
		return &routing.DatReaderOptimizer{Logger: log, LocationFinder: assets.NewLocationFinder([]string{dir})}
	}
	pipelines := []verifPipeline{
		{"alias+dat", func() []routing.RulesOptimizer { return []routing.RulesOptimizer{&routing.AliasOptimizer{}, dat()} }},
		{"alias+dat+merge", func() []routing.RulesOptimizer {
			return []routing.RulesOptimizer{&routing.AliasOptimizer{}, dat(), &routing.MergeAndSortRulesOptimizer{}}
		}},
		{"alias+dat+dedup", func() []routing.RulesOptimizer {
			return []routing.RulesOptimizer{&routing.AliasOptimizer{}, dat(), &routing.DeduplicateParamsOptimizer{}}
		}},
		{"production", func() []routing.RulesOptimizer {
			return []routing.RulesOptimizer{&routing.AliasOptimizer{}, dat(), &routing.MergeAndSortRulesOptimizer{}, &routing.DeduplicateParamsOptimizer{}}
		}},
	}
	gen := &vk.RGen{R: r, Groups: verifGroups, NeighbourBias: 0.6, V6Slash0: true, GeoRefs: true, MaxRules: 10, BadKeyword: true, SharedPrefix: true}
	nprog := vk.Scale(1500, 40000)
	npkt := vk.Scale(80, 120)
	for i := 0; i < nprog && m.Violations() < 5; i++ {
		p := gen.Gen()
		if p.SharedPrefixTwin {
			m.Count("programs_with_two_conditions_sharing_their_first_written_values", 1)
		}
		pkts := vk.ProbePackets(p, r, npkt)
		rules, fb, err := verifParseRouting(p.Text())
		if err != nil {
			m.Violation("frontend-error", err.Error(), map[string]any{"text": p.Text()})
			continue
		}
		if p.HasEmptyExpansion() {
			// must be rejected cleanly by every pipeline (empty parameter lists are not supported)
			m.Count("empty_expansion_programs", 1)
			for _, pl := range pipelines {
				if _, err := verifBuildMatcher(rules, fb, pl.opts()...); err == nil {
					min := verifMinimize(p, func(q *vk.RProg) bool {
						if !q.HasEmptyExpansion() {
							return false
						}
						rs, f2, e := verifParseRouting(q.Text())
						if e != nil {
							return false
						}
						_, e = verifBuildMatcher(rs, f2, pl.opts()...)
						return e == nil
					})
					m.Violation("empty-expansion-compiled/"+pl.name, "a condition whose geodata references expand to nothing was compiled (the condition is silently dropped) instead of being rejected",
						map[string]any{"pipeline": pl.name, "written": min.Text(), "original": p.Text()})
				} else if strings.Contains(err.Error(), "PANIC") {
					m.Violation("empty-expansion-panic/"+pl.name, err.Error(), map[string]any{"pipeline": pl.name, "written": p.Text()})
				} else {
					m.Count("empty_expansion_rejected", 1)
				}
			}
			continue
		}
		// which optimisers change the list (for coverage accounting)
		changed := ""
		cur := routing.DeepCloneRules(rules)
		for _, st := range []struct {
			n string
			o routing.RulesOptimizer
		}{{"A", &routing.AliasOptimizer{}}, {"D", dat()}, {"M", &routing.MergeAndSortRulesOptimizer{}}, {"U", &routing.DeduplicateParamsOptimizer{}}} {
			before := verifRulesText(cur)
			nr, err := routing.ApplyRulesOptimizers(cur, st.o)
			if err != nil {
				m.Violation("optimizer-error/"+st.n, err.Error(), map[string]any{"text": p.Text()})
				break
			}
			if verifRulesText(nr) != before {
				changed += st.n
				m.Count("changed_by_"+st.n, 1)
			}
			if len(nr) < len(cur) {
				m.Count("rules_merged", int64(len(cur)-len(nr)))
			}
			cur = nr
		}
		for _, pl := range pipelines {
			on := func(k vk.RPkt, ref vk.RDecision) {
				m.Eval(1)
				if changed != "" {
					shape := "fallback"
					if ref.Rule >= 0 {
						shape = p.Rules[ref.Rule].ShapeSig()
					}
					m.Distinct(pl.name + "|" + changed + "|" + shape)
				}
			}
			b, err := verifBuildMatcher(rules, fb, pl.opts()...)
			if p.HasBadKeyword() {
				// a keyword the automaton cannot hold: refusing the program is fine; a program
				// that is accepted is judged like any other (the value matches no lower-case name)
				m.Count("bad_keyword_program_builds", 1)
				if err != nil && strings.Contains(err.Error(), "char out of range") {
					m.Count("bad_keyword_program_refused", 1)
					continue
				}
				m.Count("bad_keyword_program_accepted", 1)
			}
			if err != nil {
				m.Violation("build-error/"+pl.name, err.Error(), map[string]any{"text": p.Text(), "pipeline": pl.name})
				continue
			}
			for j := range pkts {
				ref := vk.RefRoute(p, pkts[j])
				d, rerr := verifRoute(b, pkts[j])
				on(pkts[j], ref)
				if rerr == nil && verifSameDecision(ref, d) {
					continue
				}
				pkt := pkts[j]
				min := verifMinimize(p, func(q *vk.RProg) bool {
					rs, f2, e := verifParseRouting(q.Text())
					if e != nil {
						return false
					}
					b2, e := verifBuildMatcher(rs, f2, pl.opts()...)
					if e != nil {
						return false
					}
					d2, e2 := verifRoute(b2, pkt)
					return e2 != nil || !verifSameDecision(vk.RefRoute(q, pkt), d2)
				})
				rs, f2, _ := verifParseRouting(min.Text())
				opt, _ := routing.ApplyRulesOptimizers(rs, pl.opts()...)
				_ = f2
				m.Violation("meaning-changed/"+pl.name+"/"+verifProgShape(min),
					fmt.Sprintf("optimised program decides differently from the rules as written: ref=%+v got=%+v err=%v", vk.RefRoute(min, pkt), d, rerr),
					map[string]any{"pipeline": pl.name, "written": min.Text(), "optimised": verifRulesText(opt), "packet": pkt.String(), "original": p.Text()})
				break
			}
		}
		if m.WantSample() && changed != "" {
			opt, _ := routing.ApplyRulesOptimizers(rules, pipelines[3].opts()...)
			m.Sample(map[string]any{"written": p.Text(), "optimised_production": verifRulesText(opt), "changed_by": changed})
		}
	}
	m.Require("changed_by_A", "changed_by_D", "changed_by_M", "changed_by_U", "rules_merged", "empty_expansion_rejected", "bad_keyword_program_builds", "programs_with_two_conditions_sharing_their_first_written_values")
	verifC04DnsPipelines(m, r)
	m.Done(t)
}
