package control

// Shared glue between dae's Go-side encoders and kernsim (tproxy.c run
// natively): loads a compiled routing program into the C-side maps using
// exactly the bytes the Go side would hand to cilium/ebpf.

import (
	"encoding/binary"
	"fmt"
	"unsafe"

	"github.com/daeuniverse/dae/common"
	"github.com/daeuniverse/dae/common/consts"
	"github.com/daeuniverse/dae/component/outbound/dialer"
	vk "github.com/daeuniverse/dae/verifkit"
)

func verifRaw[T any](v *T) []byte {
	return unsafe.Slice((*byte)(unsafe.Pointer(v)), unsafe.Sizeof(*v))
}

func verifU32(v uint32) []byte {
	var b [4]byte
	binary.NativeEndian.PutUint32(b[:], v)
	return b[:]
}

// verifLoadProgram installs snap into kernsim the way buildRoutingKernspace
// would: reserves ring slots with the REAL reserveLpmRingSlots, rewrites the
// indices with the REAL rewriteKernRulesWithRingLpmIndex, encodes prefixes with
// the REAL cidrToBpfLpmKey. Returns the ring start index.
func verifLoadProgram(k *vk.KS, snap *routingKernspaceSnapshot) (allocStart uint32, err error) {
	k.Sync() // drain commands queued by the caller: only this function's updates are judged below
	lpmCount := uint32(len(snap.simulatedLpmTries))
	allocStart, err = reserveLpmRingSlots(lpmCount)
	if err != nil {
		return 0, err
	}
	kernRules, err := rewriteKernRulesWithRingLpmIndex(snap.rules, allocStart, lpmCount)
	if err != nil {
		return 0, err
	}
	for i, prefixes := range snap.simulatedLpmTries {
		ents := make([]vk.LpmEnt, 0, len(prefixes))
		for _, p := range prefixes {
			key := cidrToBpfLpmKey(p)
			raw := verifRaw(&key)
			var e vk.LpmEnt
			e.PrefixLen = binary.NativeEndian.Uint32(raw[:4])
			copy(e.Data[:], raw[4:])
			ents = append(ents, e)
		}
		slot := (allocStart + uint32(i)) % uint32(consts.MaxMatchSetLen)
		rc, ks := k.LpmSet(slot, ents)
		if rc != 0 {
			return 0, fmt.Errorf("LpmSet slot %d rc=%d", slot, rc)
		}
		if uintptr(ks) != unsafe.Sizeof(_bpfLpmKey{}) {
			return 0, fmt.Errorf("lpm key size: C=%d Go=%d", ks, unsafe.Sizeof(_bpfLpmKey{}))
		}
	}
	for i := range kernRules {
		k.QMapUpdate("routing_map", verifU32(uint32(i)), verifRaw(&kernRules[i]), 0)
	}
	k.QMapUpdate("routing_meta_map", verifU32(0), verifU32(uint32(len(kernRules))), 0)
	for i, r := range k.Sync() {
		if r.Rc != 0 {
			return 0, fmt.Errorf("routing_map update %d rc=%d (size mismatch between bpfMatchSet and struct match_set?)", i, r.Rc)
		}
	}
	return allocStart, k.Dead()
}

// verifDomainKey is the domain_routing_map key the Go side computes for an address.
func verifDomainKey(addr16 [16]byte) []byte {
	key := common.Ipv6ByteSliceToUint32Array(addr16[:])
	return verifRaw(&key)
}

func verifDomainVal(bitmap []uint32) []byte {
	var v bpfDomainRouting
	copy(v.Bitmap[:], bitmap)
	return append([]byte(nil), verifRaw(&v)...)
}

func verifAddr16(a [16]byte, is4 bool, v4 [4]byte) [16]byte {
	if is4 {
		var r [16]byte
		r[10], r[11] = 0xff, 0xff
		copy(r[12:], v4[:])
		return r
	}
	return a
}

// verifRouteReq builds the arguments of route() the way do_tproxy_lan_ingress /
// do_tproxy_wan_egress_* build them from a frame.
func verifRouteReq(p vk.RPkt, wan bool) vk.RouteReq {
	var r vk.RouteReq
	if p.L4 == "tcp" {
		r.Flag[0] = uint32(consts.L4ProtoType_TCP)
	} else {
		r.Flag[0] = uint32(consts.L4ProtoType_UDP)
	}
	if p.Dst.Addr().Is4() {
		r.Flag[1] = uint32(consts.IpVersion_4)
	} else {
		r.Flag[1] = uint32(consts.IpVersion_6)
	}
	if wan {
		pn := verifPname(p.Pname)
		for i := 0; i < 4; i++ {
			r.Flag[2+i] = binary.NativeEndian.Uint32(pn[i*4:])
		}
		r.Flag[7] = 1
	}
	r.Flag[6] = uint32(p.Dscp)
	binary.BigEndian.PutUint16(r.L4[0:], p.Src.Port())
	binary.BigEndian.PutUint16(r.L4[2:], p.Dst.Port())
	r.Saddr = verifAs16(p.Src.Addr().As16())
	r.Daddr = verifAs16(p.Dst.Addr().As16())
	copy(r.Mac[10:], p.Mac[:])
	return r
}

func verifAs16(a [16]byte) [16]byte { return a }

const (
	c03ActOK       = 0
	c03ActShot     = 2
	c03ActPipe     = 3
	c03ActRedirect = 7
	c03Dae0Ifindex = 77
	c03DaePid      = 4321
)

func c03NetworkType(udp bool, v6 bool) *dialer.NetworkType {
	nt := &dialer.NetworkType{L4Proto: consts.L4ProtoStr_TCP, IpVersion: consts.IpVersionStr_4}
	if udp {
		nt.L4Proto = consts.L4ProtoStr_UDP
		nt.UdpHealthDomain = dialer.UdpHealthDomainData
	}
	if v6 {
		nt.IpVersion = consts.IpVersionStr_6
	}
	return nt
}
