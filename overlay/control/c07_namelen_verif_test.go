package control

// C07 monitor, level 1n / 2n: BOUNDARY-LENGTH NAMES in the dns section and in the questions.
//
// A domain name has at most 253 characters in presentation form (255 octets on the wire), a label
// at most 63. The programs here are written with qname patterns whose length sits on those
// boundaries - 1, 2, 63 (one maximal label), 64..127 (two labels), 252 and 253 characters (the
// longest legal name in several label splits: 63+63+63+61, 61+63+63+63, 3+63+63+63+57, eight
// labels of 30/31, 126 labels, a one-character top label) - as full, suffix (with and without the
// leading dot), keyword and regex patterns, in request rules (upstream / asis / reject), response
// rules, negated, and combined with qtype conditions. The questions are exactly the maximal names,
// their 252-character neighbours (one character shorter at either end), same-length neighbours
// that differ in one character, sub-names of the maximal names (which maximal suffix patterns
// must not hit and shorter suffix patterns must) and the short names, in lower / upper / mixed
// case, with and without the trailing dot. Names longer than 253 characters are never asked and
// never written as a pattern that could hit (outside the property).
//
// Oracle: verifkit.RefDnsRequest / RefDnsResponse / RefDnsWalk, the documented first-match walk;
// pattern matching in the reference is plain string comparison on the lower-cased name without the
// trailing dot and has no length limit of its own.

import (
	"fmt"
	"math/rand/v2"
	"regexp"
	"strings"

	vk "github.com/daeuniverse/dae/verifkit"
)

const verifC07NAlnum = "abcdefghijklmnopqrstuvwxyz0123456789"

func verifC07NLabel(rr *rand.Rand, n int) string {
	b := make([]byte, n)
	for i := range b {
		if i > 0 && i < n-1 && rr.IntN(9) == 0 {
			b[i] = '-'
			continue
		}
		b[i] = verifC07NAlnum[rr.IntN(len(verifC07NAlnum))]
	}
	return string(b)
}

func verifC07NName(rr *rand.Rand, lens []int) []string {
	var ls []string
	for _, n := range lens {
		ls = append(ls, verifC07NLabel(rr, n))
	}
	return ls
}

// label splits of a 253-character name; the first label has at least 3 characters
var verifC07NSplits = func() [][]int {
	many := []int{3}
	for i := 0; i < 125; i++ {
		many = append(many, 1)
	}
	return [][]int{
		{63, 63, 63, 61},
		{61, 63, 63, 63},
		{63, 61, 63, 63},
		{3, 63, 63, 63, 57},
		{31, 31, 31, 31, 31, 31, 30, 30},
		many,
		{63, 63, 63, 59, 1},
	}
}()

func verifC07NClass(n int) string {
	switch {
	case n <= 2:
		return fmt.Sprint(n)
	case n < 63:
		return "3-62"
	case n == 63:
		return "63"
	case n <= 127:
		return "64-127"
	case n < 252:
		return "128-251"
	case n == 252:
		return "252"
	case n == 253:
		return "253"
	}
	return "over"
}

type verifC07NPat struct {
	kind, val string
	cls       string // length class of the name the pattern is written for
}

type verifC07NCombo struct {
	kind, cls string
	reject    bool
}

var (
	verifC07NKinds   = []string{"full", "suffix", "keyword", "regex"}
	verifC07NClasses = []string{"253", "252", "63", "64-127", "1", "2", "128-251"}
	verifC07NCombos  = func() (out []verifC07NCombo) {
		for _, rj := range []bool{true, false} {
			for _, cl := range verifC07NClasses {
				for _, kd := range verifC07NKinds {
					out = append(out, verifC07NCombo{kd, cl, rj})
				}
			}
		}
		return
	}()
)

// verifC07NameLen runs one boundary-length program.
func verifC07NameLen(m *vk.Monitor, rr *rand.Rand, k int) {
	split := verifC07NSplits[(k+k/len(verifC07NCombos))%len(verifC07NSplits)]
	labels := verifC07NName(rr, split)
	B := strings.Join(labels, ".")
	if len(B) != 253 {
		m.Inconclusive("level 1n generator produced a base name of %d characters", len(B))
		return
	}
	lead := byte('z')
	if B[0] == 'z' {
		lead = 'y'
	}
	N252 := B[1:]              // one character shorter at the front
	X253 := string(lead) + N252 // same length, first character differs
	T251 := B[2:]
	AT253 := "a." + T251 // another maximal name, T251 is a proper sub-name of it
	tail1 := strings.Join(labels[1:], ".")
	top := labels[len(labels)-1]
	l0 := labels[0]
	y252 := ""
	if len(top) >= 2 {
		y252 = B[:252] // one character shorter at the end
	}
	l62, l63a, l63b := verifC07NLabel(rr, 62), verifC07NLabel(rr, 63), verifC07NLabel(rr, 63)
	M64, M65, M127 := l62+".y", l63a+".y", l63a+"."+l63b
	mid := B[7:200]

	var pats []verifC07NPat
	add := func(kind, val string, forLen int) {
		pats = append(pats, verifC07NPat{kind, val, verifC07NClass(forLen)})
	}
	for _, n := range []string{B, N252, X253, AT253, T251, tail1, l0, l63a, M64, M65, M127, "a", "ab", y252} {
		if n == "" {
			continue
		}
		add("full", n, len(n))
		add("suffix", n, len(n))
	}
	add("suffix", "."+T251, 252)    // hit by the maximal name a.<T251> only
	add("suffix", "."+tail1, len(tail1)+1)
	add("suffix", top, len(top))
	add("suffix", "."+top, len(top)+1)
	add("suffix", "y", 1)
	add("suffix", ".y", 2)
	add("suffix", "."+N252, 253) // could only be hit by a name of 254 characters: never
	add("full", strings.ToUpper(M65), len(M65)) // outside the matcher's alphabet: hits nothing (names are compared lower-cased)
	for _, n := range []string{B, N252, T251, mid, l0, labels[1], l63a, M64, "ab"} {
		add("keyword", n, len(n))
	}
	if len(labels[1]) > 12 {
		add("keyword", labels[1][2:12], 10)
	}
	add("keyword", string(B[0])+B[1:2], 2)
	add("keyword", "y", 1)
	for _, n := range []string{B, N252, AT253, M64, M127, l0, "ab", "a"} {
		add("regex", "^"+regexp.QuoteMeta(n)+"$", len(n))
	}
	add("regex", regexp.QuoteMeta(N252)+"$", 252) // hits the 252 name and both 253 names ending in it
	add("regex", "^.{253}$", 253)
	add("regex", "^.{252}$", 252)
	add("regex", "^[^.]{63}$", 63)
	add("regex", `^[^.]{63}\.[^.]+$`, 65)
	add("regex", "^.$", 1)
	add("regex", "^..$", 2)
	add("regex", "^.{128,251}$", 200)
	add("regex", "^.{254,}$", 253) // never
	bucket := map[string][]verifC07NPat{}
	for _, p := range pats {
		bucket[p.kind+"|"+p.cls] = append(bucket[p.kind+"|"+p.cls], p)
	}
	pcls := map[string]string{}
	for _, p := range pats {
		pcls[p.kind+"|"+p.val] = p.cls
	}

	// ---- program ----
	p := &vk.DProg{}
	nu := 2 + rr.IntN(3)
	tags := []string{"asis"}
	for i := 0; i < nu; i++ {
		tag := fmt.Sprintf("u%d", i)
		host := fmt.Sprintf("10.9.2.%d", i+1)
		p.Upstreams = append(p.Upstreams, vk.DUp{Tag: tag, Host: host, Link: []string{"udp", "tcp"}[rr.IntN(2)] + "://" + host + ":53"})
		tags = append(tags, tag)
	}
	// rule 0 is the focus rule of the program: one (pattern kind, length class, rule kind) combination
	// in turn, no negation, no further condition; rule 1 takes the combination half a cycle away
	mkRules := func(n int, outs []string, off int, resp bool) []vk.DRule {
		var rules []vk.DRule
		for j := 0; j < n; j++ {
			cb := verifC07NCombos[(k+off+j*(len(verifC07NCombos)/2+1))%len(verifC07NCombos)]
			focus := j == 0 || (j == 1 && rr.IntN(2) == 0)
			c := vk.RCond{Func: "qname", Not: !focus && rr.IntN(6) == 0}
			if bs := bucket[cb.kind+"|"+cb.cls]; len(bs) > 0 && (focus || rr.IntN(2) == 0) {
				pt := bs[rr.IntN(len(bs))]
				c.Params = append(c.Params, vk.RParam{Key: pt.kind, Val: pt.val})
			}
			for len(c.Params) == 0 || (!focus && len(c.Params) < 3 && rr.IntN(3) == 0) {
				pt := pats[rr.IntN(len(pats))]
				c.Params = append(c.Params, vk.RParam{Key: pt.kind, Val: pt.val})
			}
			rl := vk.DRule{Conds: []vk.RCond{c}, Out: outs[rr.IntN(len(outs))]}
			if focus {
				if cb.reject {
					rl.Out = "reject"
				} else if !resp {
					rl.Out = tags[rr.IntN(len(tags))]
				}
				rules = append(rules, rl)
				continue
			}
			switch rr.IntN(5) {
			case 0:
				rl.Conds = append(rl.Conds, vk.RCond{Func: "qtype", Not: rr.IntN(4) == 0, Params: []vk.RParam{{Val: []string{"a", "aaaa", "AAAA", "28", "https"}[rr.IntN(5)]}}})
			case 1:
				rl.Conds = append([]vk.RCond{{Func: "qtype", Params: []vk.RParam{{Val: "a"}, {Val: []string{"aaaa", "65"}[rr.IntN(2)]}}}}, rl.Conds...)
			case 2:
				if resp {
					rl.Conds = append(rl.Conds, vk.RCond{Func: "upstream", Not: rr.IntN(2) == 0, Params: []vk.RParam{{Val: tags[1+rr.IntN(nu)]}}})
				}
			}
			rules = append(rules, rl)
		}
		return rules
	}
	reqOuts := append([]string{"asis", "reject", "reject", "reject"}, tags[1:]...)
	respOuts := append([]string{"accept", "reject", "reject", "reject"}, tags[1:]...)
	p.Req = mkRules(2+rr.IntN(4), reqOuts, 0, false)
	p.Resp = mkRules(1+rr.IntN(4), respOuts, 9, true)
	// a fallback no rule targets, as far as possible: a missed hit then shows
	used := map[string]bool{}
	for _, rl := range p.Req {
		used[rl.Out] = true
	}
	p.ReqFallback = tags[rr.IntN(len(tags))]
	for _, tg := range tags {
		if !used[tg] {
			p.ReqFallback = tg
			break
		}
	}
	p.RespFallback = "accept"
	if rr.IntN(5) == 0 {
		p.RespFallback = "reject"
	}

	b, err := verifC07Build(p)
	if err != nil {
		m.Violation("build-error/boundary-length-names", "well-formed generated dns section (no name longer than 253 characters) rejected or crashed: "+err.Error(), map[string]any{"text": p.Text(), "error": err.Error()})
		return
	}
	m.Count("l1n_programs", 1)
	m.Count(fmt.Sprintf("l1n_programs_split_%d_labels", len(split)), 1)

	// ---- questions ----
	base := []string{B, B, N252, X253, AT253, "b." + T251, T251, tail1, top, l0, "x." + l0, M64, M65, M127, "x." + M127, "a", "ab", "b.a", "y", l63a, l63b + ".ab"}
	if y252 != "" {
		base = append(base, y252)
	}
	if len(tail1)+2 <= 253 {
		base = append(base, "x."+tail1)
	}
	var qs []vk.DQuestion
	for i, n := range base {
		if len(n) > 253 {
			continue
		}
		cs := rr.IntN(4)
		if i < 2 {
			cs = i // the maximal name at least once in lower and once in upper case
		}
		switch cs {
		case 1:
			n = strings.ToUpper(n)
		case 2:
			n = verifC07NCaseMix(n, rr)
		}
		if rr.IntN(3) != 0 {
			n += "."
		}
		qs = append(qs, vk.DQuestion{Name: n, Qtype: []uint16{1, 1, 28, 28, 65, 16}[rr.IntN(6)]})
	}

	qsig := func(q vk.DQuestion) string {
		bare := strings.TrimSuffix(q.Name, ".")
		cs := "mixed"
		switch bare {
		case strings.ToLower(bare):
			cs = "lower"
		case strings.ToUpper(bare):
			cs = "upper"
		}
		dot := "bare"
		if strings.HasSuffix(q.Name, ".") {
			dot = "dot"
		}
		return verifC07NClass(len(bare)) + "_" + cs + "_" + dot
	}
	// which (kind, class) pattern of the deciding rule hit
	deciding := func(rules []vk.DRule, ri int, q vk.DQuestion) (string, bool) {
		if ri < 0 {
			return "", false
		}
		withQtype := false
		for _, c := range rules[ri].Conds {
			if c.Func == "qtype" {
				withQtype = true
			}
		}
		for _, c := range rules[ri].Conds {
			if c.Func != "qname" {
				continue
			}
			if c.Not {
				return "negated", withQtype
			}
			for _, pa := range c.Params {
				if vk.DomainPatternHit(pa.Key, pa.Val, q.Name) {
					return pa.Key + "_p" + pcls[pa.Key+"|"+pa.Val], withQtype
				}
			}
		}
		return "", withQtype
	}

	// ---- level 1n: request ----
	for _, q := range qs {
		ref, ri := vk.RefDnsRequest(p, q)
		got := verifC07ReqSelect(b, p, q)
		m.Eval(1)
		qs_ := qsig(q)
		m.Count("l1n_question_"+qs_, 1)
		rk := "request"
		if ref == "reject" {
			rk = "request-reject"
		}
		d, wq := deciding(p.Req, ri, q)
		if d != "" {
			m.Count("l1n_"+rk+"_decided_by_"+d, 1)
			if wq {
				m.Count("l1n_request_decided_by_qname_and_qtype_rule", 1)
			}
			m.Distinct("L1N|" + rk + "|" + d + "|" + qs_)
		} else if ri < 0 {
			m.Count("l1n_request_fallback_q"+verifC07NClass(len(strings.TrimSuffix(q.Name, "."))), 1)
		}
		if got == ref {
			continue
		}
		qq := q
		min := verifC07Minimize(p, func(c *vk.DProg) bool {
			c.Resp, c.RespFallback = nil, "accept"
			b2, e := verifC07Build(c)
			if e != nil {
				return false
			}
			r2, _ := vk.RefDnsRequest(c, qq)
			return verifC07ReqSelect(b2, c, qq) != r2
		})
		mref, mri := vk.RefDnsRequest(min, q)
		mgot := "?"
		if b2, e := verifC07Build(min); e == nil {
			mgot = verifC07ReqSelect(b2, min, q)
		}
		md, _ := deciding(min.Req, mri, q)
		m.Violation("request-mismatch/boundary-length-names/"+md+"/"+verifC07Shape(min.Req),
			fmt.Sprintf("RequestSelect != first-match reference for a question name of %d characters, type %d: ref=%s got=%s", len(strings.TrimSuffix(q.Name, ".")), q.Qtype, mref, mgot),
			map[string]any{"minimized_text": min.Text(), "qname": q.Name, "qname_length_without_trailing_dot": len(strings.TrimSuffix(q.Name, ".")), "qtype": q.Qtype, "reference": mref, "got": mgot,
				"original_text": p.Text(), "original_reference": ref, "original_got": got})
		return
	}

	// ---- level 1n: response ----
	for _, q := range qs {
		rrs := vk.DProbeAnswer(p, q, rr)
		from := tags[rr.IntN(len(tags))]
		ips := vk.AnswerIPs(rrs)
		ref, ri := vk.RefDnsResponse(p, q, ips, from)
		got := verifC07RespSelect(b, p, q, rrs, from)
		m.Eval(1)
		d, wq := deciding(p.Resp, ri, q)
		if d != "" {
			m.Count("l1n_response_decided_by_"+d, 1)
			if wq {
				m.Count("l1n_response_decided_by_qname_and_qtype_rule", 1)
			}
			m.Distinct("L1N|response|" + d + "|" + qsig(q))
		}
		if got == ref {
			continue
		}
		qq, rr2, ff := q, rrs, from
		min := verifC07Minimize(p, func(c *vk.DProg) bool {
			c.Req, c.ReqFallback = nil, "asis"
			b2, e := verifC07Build(c)
			if e != nil {
				return false
			}
			r2, _ := vk.RefDnsResponse(c, qq, vk.AnswerIPs(rr2), ff)
			return verifC07RespSelect(b2, c, qq, rr2, ff) != r2
		})
		mref, mri := vk.RefDnsResponse(min, q, ips, from)
		mgot := "?"
		if b2, e := verifC07Build(min); e == nil {
			mgot = verifC07RespSelect(b2, min, q, rrs, from)
		}
		md, _ := deciding(min.Resp, mri, q)
		m.Violation("response-mismatch/boundary-length-names/"+md+"/"+verifC07Shape(min.Resp),
			fmt.Sprintf("ResponseSelect != first-match reference for a question name of %d characters, type %d, answers %v from %s: ref=%s got=%s", len(strings.TrimSuffix(q.Name, ".")), q.Qtype, verifC07WantStrings(rrs), from, mref, mgot),
			map[string]any{"minimized_text": min.Text(), "qname": q.Name, "qname_length_without_trailing_dot": len(strings.TrimSuffix(q.Name, ".")), "qtype": q.Qtype, "answers": verifC07WantStrings(rrs), "from_upstream": from,
				"reference": mref, "got": mgot, "original_text": p.Text(), "original_reference": ref, "original_got": got})
		return
	}

	// ---- level 2n: the controller flow for the fully qualified boundary questions ----
	if k%2 == 0 {
		var fq []vk.DQuestion
		for _, q := range qs {
			if !strings.HasSuffix(q.Name, ".") {
				continue
			}
			n := len(q.Name) - 1
			if n >= 252 || n == 63 || len(fq) < 3 {
				fq = append(fq, q)
				m.Count("l2n_flow_question_"+verifC07NClass(n), 1)
				if w, _ := vk.RefDnsRequest(p, q); w == "reject" {
					m.Count("l2n_flow_question_"+verifC07NClass(n)+"_request_reject", 1)
				}
			}
			if len(fq) == 8 {
				break
			}
		}
		verifC07Flow(m, rr, p, b, fq, tags, len(fq)+4)
	}
}

func verifC07NCaseMix(s string, r *rand.Rand) string {
	b := []byte(s)
	for i := range b {
		if b[i] >= 'a' && b[i] <= 'z' && r.IntN(2) == 0 {
			b[i] -= 32
		}
	}
	return string(b)
}

var verifC07NRequired = func() []string {
	out := []string{"l1n_programs", "l1n_programs_split_4_labels", "l1n_programs_split_5_labels", "l1n_programs_split_8_labels", "l1n_programs_split_126_labels",
		"l1n_request_decided_by_qname_and_qtype_rule", "l1n_response_decided_by_qname_and_qtype_rule",
		"l1n_request_decided_by_negated", "l1n_response_decided_by_negated",
		"l1n_request_fallback_q253", "l1n_request_fallback_q252",
		"l2n_flow_question_253", "l2n_flow_question_252", "l2n_flow_question_253_request_reject", "l2n_flow_question_252_request_reject"}
	for _, cs := range []string{"lower", "upper", "mixed"} {
		for _, dot := range []string{"dot", "bare"} {
			for _, cl := range []string{"1", "2", "63", "64-127", "252", "253"} {
				if cl == "1" && cs == "mixed" {
					continue
				}
				out = append(out, "l1n_question_"+cl+"_"+cs+"_"+dot)
			}
		}
	}
	for _, rk := range []string{"request", "request-reject", "response"} {
		for _, kind := range verifC07NKinds {
			for _, cl := range []string{"1", "2", "63", "64-127", "252", "253"} {
				out = append(out, "l1n_"+rk+"_decided_by_"+kind+"_p"+cl)
			}
		}
	}
	return out
}()
