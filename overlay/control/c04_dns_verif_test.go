package control

import (
	"fmt"
	"math/rand/v2"

	vk "github.com/daeuniverse/dae/verifkit"
)

// verifC04DnsPipelines: the DNS request and DNS response rule programs are
// compiled by dns.New through their PRODUCTION optimiser pipelines
// (component/dns/dns.go); the compiled matchers must decide every question /
// answer like the reference interpreter on the rule lists as written. The
// build/select helpers are the C07 monitor's (linked into this build).
func verifC04DnsPipelines(m *vk.Monitor, r *rand.Rand) {
	gen := &vk.DGen{R: r, Internal: true, LongReq: 8}
	nprog := vk.Scale(500, 15000)
	nq := vk.Scale(30, 50)
	for i := 0; i < nprog && m.Violations() < 5; i++ {
		p := gen.Gen()
		b, err := verifC07Build(p)
		if err != nil {
			m.Violation("dns-build-error", "well-formed generated dns section rejected or crashed: "+err.Error(), map[string]any{"text": p.Text()})
			continue
		}
		tags := []string{"asis"}
		for _, u := range p.Upstreams {
			tags = append(tags, u.Tag)
		}
		for _, q := range vk.DProbeQuestions(p, r, nq) {
			m.Eval(1)
			ref, ri := vk.RefDnsRequest(p, q)
			if ri > 0 || len(p.Req) > 1 {
				m.Distinct(fmt.Sprintf("dns-request|%s|%v", verifC07Shape(p.Req[:min(len(p.Req), 2)]), ri))
				m.Count("dns_request_pipeline_decisions", 1)
			}
			if got := verifC07ReqSelect(b, p, q); got != ref {
				m.Violation("meaning-changed/dns-request/"+verifC07Shape(p.Req), fmt.Sprintf("optimised DNS request program decides %q type %d as %s, rules as written say %s", q.Name, q.Qtype, got, ref),
					map[string]any{"text": p.Text(), "qname": q.Name, "qtype": q.Qtype})
				break
			}
			if q.Name == "" {
				continue
			}
			rrs := vk.DProbeAnswer(p, q, r)
			from := tags[r.IntN(len(tags))]
			m.Eval(1)
			rref, rri := vk.RefDnsResponse(p, q, vk.AnswerIPs(rrs), from)
			if rri > 0 || len(p.Resp) > 1 {
				m.Distinct(fmt.Sprintf("dns-response|%s|%v", verifC07Shape(p.Resp[:min(len(p.Resp), 2)]), rri))
				m.Count("dns_response_pipeline_decisions", 1)
			}
			if got := verifC07RespSelect(b, p, q, rrs, from); got != rref {
				m.Violation("meaning-changed/dns-response/"+verifC07Shape(p.Resp), fmt.Sprintf("optimised DNS response program decides answer to %q type %d from %s as %s, rules as written say %s", q.Name, q.Qtype, from, got, rref),
					map[string]any{"text": p.Text(), "qname": q.Name, "qtype": q.Qtype, "from": from, "answer": fmt.Sprint(rrs)})
				break
			}
		}
	}
	m.Require("dns_request_pipeline_decisions", "dns_response_pipeline_decisions")
}
