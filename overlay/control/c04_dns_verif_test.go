package control

import (
	"math/rand/v2"

	vk "github.com/daeuniverse/dae/verifkit"
)

// verifC04DnsPipelines: DNS request/response optimiser pipelines (filled in
// once the DNS reference interpreter is available).
func verifC04DnsPipelines(m *vk.Monitor, r *rand.Rand) {
	m.Count("dns_pipelines_pending", 1)
}
