package control

// C10 monitor, part "tracker": the address table against the owners themselves, for histories the
// cache cannot produce inside one generation but the statement quantifies over ("differing bitmaps,
// including zero bitmaps"): the same owner key synced again with another bitmap (zero included) over
// the same, overlapping or disjoint addresses, owners without addresses, owners sharing addresses,
// removals in any order. Driver: domainRoutingTracker.syncOwner (DomainRoutingMap == nil, so the
// batches it would hand to the kernel are only reported). Table: the fold of the observed batches
// (updates, then deletes). Oracle after every step: table[addr] = OR of the non-zero bitmaps of the
// owners whose latest snapshot lists addr; no entry where that OR is empty.

import (
	"fmt"
	"net/netip"
	"sort"
	"strings"
	"testing"

	"github.com/daeuniverse/dae/common"
	vk "github.com/daeuniverse/dae/verifkit"
)

func TestVerifC10Tracker(t *testing.T) {
	m := vk.NewMonitor("C10", "tracker", "exploration",
		"one evaluation = one syncOwner step of a generated history (2-5 owner keys, pool of 6 addresses v4/v6, bitmaps drawn from zero / one bit / several bits / a bit in the last word; "+
			"step kinds: first sync, re-sync with another bitmap over the same addresses, re-sync to zero bitmap, re-sync over other addresses, owner without addresses, removal by empty snapshot); "+
			"after every step the table folded from the reported batches is compared with the OR over the owners' latest snapshots. "+
			"distinct = (step kind, previous bitmap zero or not, new bitmap zero or not, address relation old/new, address shared with another owner or not)")
	m.SetFloor(vk.Scale(40, 60))
	m.Assume("DomainRoutingMap == nil: the table is the fold of the batches syncOwner reports through the verif observer (updates first, then deletes), as in part main",
		"owners are driven directly at the tracker; which cache operation leads to which syncOwner call is the business of parts main and seam")
	var kernel map[[4]uint32]bpfDomainRouting
	obs := func(upd [][4]uint32, vals []bpfDomainRouting, del [][4]uint32) {
		for i, k := range upd {
			kernel[k] = vals[i]
		}
		for _, k := range del {
			delete(kernel, k)
		}
		m.Count("tracker_batches_observed", 1)
	}
	VerifDomainRoutingObserver.Store(&obs)
	defer VerifDomainRoutingObserver.Store(nil)

	pool := []string{"192.0.2.1", "192.0.2.2", "198.51.100.7", "2001:db8::1", "2001:db8::2", "203.0.113.9"}
	keyOf := func(a string) [4]uint32 {
		ip6 := netip.MustParseAddr(a).As16()
		return common.Ipv6ByteSliceToUint32Array(ip6[:])
	}
	nWords := len(bpfDomainRouting{}.Bitmap)
	r := vk.NewRand(0xC10E)
	genBm := func(kind int) (b bpfDomainRouting) {
		switch kind {
		case 0:
		case 1:
			b.Bitmap[0] = 1 << r.IntN(32)
		case 2:
			b.Bitmap[0] = r.Uint32() | 1
			b.Bitmap[r.IntN(nWords)] |= 1 << r.IntN(32)
		default:
			b.Bitmap[nWords-1] = 1 << 31
		}
		return
	}
	hist := vk.Scale(3000, 60000)
	for h := 0; h < hist && m.Violations() < 5; h++ {
		kernel = map[[4]uint32]bpfDomainRouting{}
		tr := newDomainRoutingTracker()
		nOwners := 2 + r.IntN(4)
		live := map[string]domainRoutingOwnerSnapshot{}
		liveAddrs := map[string][]string{}
		var trail []string
		steps := 4 + r.IntN(20)
		for s := 0; s < steps; s++ {
			owner := fmt.Sprintf("o%d", r.IntN(nOwners))
			old, had := live[owner]
			var snap domainRoutingOwnerSnapshot
			var addrs []string
			kind := "first"
			switch k := r.IntN(10); {
			case had && k < 2:
				kind = "remove"
			case had && k < 4:
				kind = "rebitmap-same-addrs"
				addrs = liveAddrs[owner]
				snap.bitmap = genBm(r.IntN(4))
			case had && k < 5:
				kind = "zero-same-addrs"
				addrs = liveAddrs[owner]
			default:
				if had {
					kind = "resync"
				}
				n := r.IntN(4)
				for _, i := range r.Perm(len(pool))[:n] {
					addrs = append(addrs, pool[i])
				}
				snap.bitmap = genBm(r.IntN(4))
			}
			if len(addrs) > 0 {
				snap.ips = map[[4]uint32]struct{}{}
				for _, a := range addrs {
					snap.ips[keyOf(a)] = struct{}{}
				}
			}
			sort.Strings(addrs)
			trail = append(trail, fmt.Sprintf("%s %s bitmap=%x addrs=[%s]", kind, owner, snap.bitmap.Bitmap, strings.Join(addrs, ",")))
			if err := tr.syncOwner(nil, owner, snap); err != nil {
				m.Violation("tracker-sync-error/"+kind, fmt.Sprintf("syncOwner returned %v", err), map[string]any{"history": trail})
				break
			}
			m.Eval(1)
			if kind == "remove" {
				delete(live, owner)
				delete(liveAddrs, owner)
			} else {
				live[owner] = snap
				liveAddrs[owner] = addrs
			}
			want := map[[4]uint32]bpfDomainRouting{}
			listedBy := map[[4]uint32]int{}
			for _, o := range live {
				for k := range o.ips {
					listedBy[k]++
				}
				if isZeroDomainRoutingBitmap(o.bitmap) {
					continue
				}
				for k := range o.ips {
					b := want[k]
					orDomainRoutingBitmap(&b, o.bitmap)
					want[k] = b
				}
			}
			rel := "same"
			if had {
				same := len(old.ips) == len(snap.ips)
				overlap := false
				for k := range snap.ips {
					if _, ok := old.ips[k]; ok {
						overlap = true
					} else {
						same = false
					}
				}
				switch {
				case same:
				case overlap:
					rel = "overlap"
				default:
					rel = "disjoint"
				}
			} else {
				rel = "new"
			}
			shared := false
			for k := range snap.ips {
				if listedBy[k] > 1 {
					shared = true
				}
			}
			m.Count("tracker_step_"+kind, 1)
			m.Distinct(fmt.Sprintf("%s|oldzero=%v|newzero=%v|%s|shared=%v", kind, !had || isZeroDomainRoutingBitmap(old.bitmap), isZeroDomainRoutingBitmap(snap.bitmap), rel, shared))
			bad := ""
			for k, b := range want {
				got, ok := kernel[k]
				if !ok {
					bad = fmt.Sprintf("missing-in-table: address %v is listed by a live owner with a non-zero bitmap, the table has no entry", k)
				} else if got != b {
					bad = fmt.Sprintf("bitmap-mismatch: address %v table bitmap %x, OR over its live owners %x", k, got.Bitmap, b.Bitmap)
				}
			}
			for k, got := range kernel {
				if _, ok := want[k]; !ok {
					bad = fmt.Sprintf("stale-in-table: address %v has table bitmap %x, no live owner with a non-zero bitmap lists it", k, got.Bitmap)
				}
			}
			if bad != "" {
				sig := strings.SplitN(bad, ":", 2)[0]
				m.Violation("tracker-"+sig+"/after-"+kind, bad, map[string]any{"history": trail, "owners": nOwners})
				break
			}
			if len(want) > 0 {
				m.Count("tracker_steps_with_nonempty_table", 1)
			}
		}
	}
	m.Require("tracker_step_first", "tracker_step_remove", "tracker_step_rebitmap-same-addrs", "tracker_step_zero-same-addrs", "tracker_step_resync", "tracker_steps_with_nonempty_table", "tracker_batches_observed")
	m.Done(t)
}
