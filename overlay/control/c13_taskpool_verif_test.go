package control

// C13 monitor, part (a): UdpTaskPool.
//
// Every task accepted by EmitTask must run exactly once, tasks of one flow must
// run one at a time in acceptance order, under a convoy that belongs to that
// flow's queue, whatever the interleaving of producers with the convoy's idle
// garbage collection (emptiness check -> claiming CAS -> table removal ->
// channel recycling) and with overflow.
//
// Two workloads drive the REAL pool (NewUdpTaskPool/EmitTask/convoy):
//   (i)  controlled schedules: a cooperative scheduler installed on
//        VerifYieldHook parks the convoy at utp1..utp3 and producers at
//        utp4/utp6/utp5 and releases them in enumerated orders;
//   (ii) stress: many producers, few keys, tiny aging time, overflow bursts,
//        with the hook used only to perturb (yield) at the named points.
//
// The oracle is a log checker over unique task ids; it never reads pool state
// to draw a verdict except for the lost-task autopsy, which positively locates
// an unexecuted task inside a channel that no live convoy serves.

import (
	"fmt"
	"net/netip"
	"os"
	"runtime"
	"sort"
	"strings"
	"sync"
	"sync/atomic"
	"time"

	vk "github.com/daeuniverse/dae/verifkit"
)

// ---- goroutine identity (standard library only) ----------------------------

func c13Goid() int64 {
	var buf [64]byte
	n := runtime.Stack(buf[:], false)
	// "goroutine 123 [running]:"
	var id int64
	for i := len("goroutine "); i < n; i++ {
		c := buf[i]
		if c < '0' || c > '9' {
			break
		}
		id = id*10 + int64(c-'0')
	}
	return id
}

const c13ConvoyFrame = "(*UdpTaskQueue).convoy("

// c13ConvoyPtrOfCaller returns the receiver pointer (hex text) of the convoy
// frame the calling goroutine runs under, or "" if it is not a convoy.
func c13ConvoyPtrOfCaller() string {
	buf := make([]byte, 8192)
	n := runtime.Stack(buf, false)
	return c13FirstConvoyPtr(string(buf[:n]))
}

func c13FirstConvoyPtr(s string) string {
	i := strings.Index(s, c13ConvoyFrame)
	if i < 0 {
		return ""
	}
	s = s[i+len(c13ConvoyFrame):]
	j := strings.IndexAny(s, ",)?")
	if j < 0 {
		return ""
	}
	return strings.TrimSpace(s[:j])
}

var (
	c13StackMu  sync.Mutex
	c13StackBuf = make([]byte, 1<<18)
)

// c13AllStacks returns the dump of all goroutines.
func c13AllStacks() string {
	c13StackMu.Lock()
	defer c13StackMu.Unlock()
	for {
		n := runtime.Stack(c13StackBuf, true)
		if n < len(c13StackBuf) {
			return string(c13StackBuf[:n])
		}
		c13StackBuf = make([]byte, 2*len(c13StackBuf))
	}
}

// c13LiveConvoys lists the receiver pointers of all live convoy goroutines.
func c13LiveConvoys() []string {
	for {
		{
			s := c13AllStacks()
			var out []string
			for {
				i := strings.Index(s, c13ConvoyFrame)
				if i < 0 {
					return out
				}
				p := c13FirstConvoyPtr(s[i:])
				out = append(out, p)
				s = s[i+len(c13ConvoyFrame):]
			}
		}
	}
}

// c13GoroutineStatus returns the scheduler status of goroutine id ("select",
// "chan receive", "runnable", "running", ...) or "gone".
func c13GoroutineStatus(id int64) string {
	s := c13AllStacks()
	tag := fmt.Sprintf("goroutine %d [", id)
	i := strings.Index(s, tag)
	for i > 0 && s[i-1] != '\n' {
		j := strings.Index(s[i+1:], tag)
		if j < 0 {
			return "gone"
		}
		i += 1 + j
	}
	if i < 0 {
		return "gone"
	}
	s = s[i+len(tag):]
	j := strings.IndexAny(s, "],")
	if j < 0 {
		return "gone"
	}
	return s[:j]
}

// c13GoroutinesIn reports how many goroutines currently have a frame whose
// function name contains one of the given substrings.
func c13GoroutinesIn(subs ...string) int {
	s := c13AllStacks()
	cnt := 0
	for _, g := range strings.Split(s, "\n\n") {
		// the "created by <func>" trailer names the spawning function, not a frame the goroutine is in
		if i := strings.Index(g, "\ncreated by "); i >= 0 {
			g = g[:i]
		}
		for _, sub := range subs {
			if strings.Contains(g, sub) {
				cnt++
				break
			}
		}
	}
	return cnt
}

// ---- one pool history --------------------------------------------------------

type c13Task struct {
	ID    int    `json:"id"`
	Flow  int    `json:"flow"`
	Prod  string `json:"producer"`
	PSeq  int    `json:"producer_seq"`
	Call  int64  `json:"emit_call_stamp"`
	Ret   int64  `json:"emit_ret_stamp"`
	Start int64  `json:"exec_start_stamp"`
	End   int64  `json:"exec_end_stamp"`
	Goid  int64  `json:"exec_goroutine"`
	Conv  string `json:"exec_convoy_queue"`
	Found string `json:"autopsy,omitempty"`

	execs   atomic.Int32
	gate    chan struct{} // if non-nil the task blocks until closed (forces overflow)
	autopsy atomic.Int32
}

type c13Run struct {
	pool  *UdpTaskPool
	keys  []UdpFlowKey
	clock atomic.Int64

	mu        sync.Mutex
	tasks     []*c13Task
	execOrder map[int][]*c13Task
	convoyOf  map[int64]string        // goid -> convoy receiver pointer
	convFlows map[string]map[int]bool // convoy pointer -> flows executed
	queueKey  map[string]UdpFlowKey   // convoy pointer -> q.key when resolvable
	chans     []chan UdpTask          // every channel the pool ever allocated
	queues    map[*UdpTaskQueue]bool  // queues seen in the table (for the overflow autopsy)
	overlaps  []string
	running   []atomic.Int32
	autopsyOn atomic.Bool
	maxOverfl atomic.Int32
}

func c13FlowKey(i int) UdpFlowKey {
	return NewUdpFlowKey(
		netip.AddrPortFrom(netip.AddrFrom4([4]byte{10, 13, 0, byte(1 + i)}), uint16(40000+i)),
		netip.AddrPortFrom(netip.AddrFrom4([4]byte{198, 51, 100, byte(1 + i)}), 443))
}

func c13NewRun(nflows int) *c13Run {
	r := &c13Run{
		pool:      NewUdpTaskPool(), // production constructor
		execOrder: map[int][]*c13Task{},
		convoyOf:  map[int64]string{},
		convFlows: map[string]map[int]bool{},
		queueKey:  map[string]UdpFlowKey{},
		queues:    map[*UdpTaskQueue]bool{},
		running:   make([]atomic.Int32, nflows),
	}
	for i := 0; i < nflows; i++ {
		r.keys = append(r.keys, c13FlowKey(i))
	}
	// Same allocation as production, but every channel is remembered so that a
	// lost task can be located positively.
	r.pool.queueChPool.New = func() any {
		ch := make(chan UdpTask, UdpTaskQueueLength)
		r.mu.Lock()
		r.chans = append(r.chans, ch)
		r.mu.Unlock()
		return ch
	}
	return r
}

func (r *c13Run) newTask(flow int, prod string, pseq int) *c13Task {
	t := &c13Task{Flow: flow, Prod: prod, PSeq: pseq}
	r.mu.Lock()
	t.ID = len(r.tasks)
	r.tasks = append(r.tasks, t)
	r.mu.Unlock()
	return t
}

func (r *c13Run) fn(t *c13Task) UdpTask {
	return func() {
		if r.autopsyOn.Load() {
			t.autopsy.Add(1)
			return
		}
		if n := r.running[t.Flow].Add(1); n != 1 {
			r.mu.Lock()
			r.overlaps = append(r.overlaps, fmt.Sprintf("task %d of flow %d started while %d other task(s) of the flow were running", t.ID, t.Flow, n-1))
			r.mu.Unlock()
		}
		gid := c13Goid()
		t.Start = r.clock.Add(1)
		t.Goid = gid
		r.mu.Lock()
		conv, ok := r.convoyOf[gid]
		r.mu.Unlock()
		if !ok {
			conv = c13ConvoyPtrOfCaller()
			var key UdpFlowKey
			resolved := false
			r.pool.queues.Range(func(k, v any) bool {
				if fmt.Sprintf("%p", v.(*UdpTaskQueue)) == conv {
					key, resolved = v.(*UdpTaskQueue).key, true
					return false
				}
				return true
			})
			r.mu.Lock()
			r.convoyOf[gid] = conv
			if resolved {
				r.queueKey[conv] = key
			}
			r.mu.Unlock()
		}
		t.Conv = conv
		if t.gate != nil {
			<-t.gate
		}
		t.End = r.clock.Add(1) // all plain fields are written before r.mu is released below
		r.mu.Lock()
		r.execOrder[t.Flow] = append(r.execOrder[t.Flow], t)
		fl := r.convFlows[conv]
		if fl == nil {
			fl = map[int]bool{}
			r.convFlows[conv] = fl
		}
		fl[t.Flow] = true
		r.mu.Unlock()
		t.execs.Add(1)
		r.running[t.Flow].Add(-1)
	}
}

// emit is the only way tasks enter the pool: the production EmitTask, bracketed
// by logical stamps.
func (r *c13Run) emit(t *c13Task) {
	t.Call = r.clock.Add(1)
	r.pool.EmitTask(r.keys[t.Flow], r.fn(t))
	t.Ret = r.clock.Add(1)
	if v, ok := r.pool.queues.Load(r.keys[t.Flow]); ok {
		r.mu.Lock()
		r.queues[v.(*UdpTaskQueue)] = true
		r.mu.Unlock()
	}
}

func (r *c13Run) allExecuted() bool {
	r.mu.Lock()
	defer r.mu.Unlock()
	for _, t := range r.tasks {
		if t.Ret != 0 && t.execs.Load() == 0 {
			return false
		}
	}
	return true
}

func (r *c13Run) mapLen() int {
	n := 0
	r.pool.queues.Range(func(_, _ any) bool { n++; return true })
	return n
}

// quiesce waits until no agent is left that could still execute a task: all
// accepted tasks executed, or the queue table empty and no convoy goroutine of
// this pool alive. Returns false on watchdog expiry (inconclusive, never a
// verdict). `tick` is called on every poll (used to release late parkers).
func (r *c13Run) quiesce(limit time.Duration, ours func(ptr string) bool, tick func()) (ok bool, idle bool) {
	deadline := time.Now().Add(limit)
	spins := 0
	for {
		if tick != nil {
			tick()
		}
		done := r.allExecuted()
		if r.mapLen() == 0 {
			live := 0
			for _, p := range c13LiveConvoys() {
				if ours == nil || ours(p) {
					live++
				}
			}
			if live == 0 {
				return true, true
			}
		}
		_ = done
		if time.Now().After(deadline) {
			return false, false
		}
		spins++
		if spins < 50 {
			runtime.Gosched()
		} else {
			time.Sleep(50 * time.Microsecond)
		}
	}
}

// ourConvoy: a convoy belongs to this run if it serves a queue whose pool is r.pool.
// We cannot dereference a parsed pointer, so ownership is decided by the set of
// convoy pointers that ever executed one of our tasks plus any queue currently in
// our table; controlled/stress phases never run two pools at once, so "all" is
// also correct there and is what callers pass (ours == nil).

type c13Verdict struct {
	Sig     string
	What    string
	Witness map[string]any
}

// check is the log oracle. It must be called at quiescence (see quiesce).
func (r *c13Run) check(quiescent bool) []c13Verdict {
	var out []c13Verdict
	r.mu.Lock()
	tasks := append([]*c13Task(nil), r.tasks...)
	r.mu.Unlock()

	// exactly once
	var lost, dup []*c13Task
	for _, t := range tasks {
		if t.Ret == 0 {
			continue // never handed to EmitTask
		}
		switch n := t.execs.Load(); {
		case n == 0:
			lost = append(lost, t)
		case n > 1:
			dup = append(dup, t)
		}
	}
	if len(dup) > 0 {
		out = append(out, c13Verdict{"taskpool/duplicate-execution", fmt.Sprintf("task %d executed %d times", dup[0].ID, dup[0].execs.Load()),
			map[string]any{"task": dup[0]}})
	}
	if len(lost) > 0 && !quiescent {
		// Conservation at a stalled pool: every accepted task is executed, running, or still held by
		// a queue of the table (channel or overflow FIFO, read under the queue's own enqueue lock).
		// Three agreeing samples, each taken after the watchdog already saw no progress, in which no
		// task runs and the table holds fewer pending tasks than were accepted and never executed,
		// mean tasks were dropped (they are nowhere), not merely slow.
		stable := true
		pendingMax := 0
		for sample := 0; sample < 3 && stable; sample++ {
			pending, running := 0, int32(0)
			r.pool.queues.Range(func(_, v any) bool {
				q := v.(*UdpTaskQueue)
				q.enqueueMu.Lock()
				pending += len(q.ch) + len(q.overflow)
				q.enqueueMu.Unlock()
				return true
			})
			for i := range r.running {
				running += r.running[i].Load()
			}
			still := 0
			for _, t := range lost {
				if t.execs.Load() == 0 {
					still++
				}
			}
			if pending > pendingMax {
				pendingMax = pending
			}
			if running != 0 || pending >= still || still != len(lost) {
				stable = false
			}
			time.Sleep(100 * time.Millisecond)
		}
		if stable {
			out = append(out, c13Verdict{"taskpool/lost-task-dropped",
				fmt.Sprintf("%d accepted task(s) never executed and are in no queue: no task is running and the queues of the table hold at most %d pending task(s) (first: task %d flow %d)", len(lost), pendingMax, lost[0].ID, lost[0].Flow),
				map[string]any{"lost_first": lost[0], "lost": len(lost), "pending_in_table_max": pendingMax}})
		}
	}
	if len(lost) > 0 && quiescent {
		// autopsy: positive location of the lost tasks
		r.autopsyOn.Store(true)
		var where []string
		r.mu.Lock()
		chans := append([]chan UdpTask(nil), r.chans...)
		r.mu.Unlock()
		for ci, ch := range chans {
			n := len(ch)
			for i := 0; i < n; i++ {
				select {
				case f := <-ch:
					before := map[int]int32{}
					for _, t := range lost {
						before[t.ID] = t.autopsy.Load()
					}
					f()
					for _, t := range lost {
						if t.autopsy.Load() != before[t.ID] {
							t.Found = fmt.Sprintf("inside pooled/recycled channel #%d (len %d) that no queue in the table and no live convoy owns", ci, n)
							where = append(where, fmt.Sprintf("task %d: %s", t.ID, t.Found))
						}
					}
				default:
				}
			}
		}
		r.mu.Lock()
		var qs []*UdpTaskQueue
		for q := range r.queues {
			qs = append(qs, q)
		}
		r.mu.Unlock()
		for _, q := range qs {
			q.enqueueMu.Lock()
			ov := append([]UdpTask(nil), q.overflow...)
			q.enqueueMu.Unlock()
			for _, f := range ov {
				if f == nil {
					continue
				}
				before := map[int]int32{}
				for _, t := range lost {
					before[t.ID] = t.autopsy.Load()
				}
				f()
				for _, t := range lost {
					if t.autopsy.Load() != before[t.ID] && t.Found == "" {
						t.Found = fmt.Sprintf("inside the overflow slice of deleted queue %p (refs %d)", q, q.refs.Load())
						where = append(where, fmt.Sprintf("task %d: %s", t.ID, t.Found))
					}
				}
			}
		}
		sig := "taskpool/lost-task"
		if len(where) > 0 {
			sig = "taskpool/lost-task-in-recycled-channel"
		}
		out = append(out, c13Verdict{sig,
			fmt.Sprintf("%d accepted task(s) never executed although the queue table is empty and no convoy goroutine is alive (first: task %d flow %d)", len(lost), lost[0].ID, lost[0].Flow),
			map[string]any{"lost": lost, "located": where}})
	}

	// one at a time
	r.mu.Lock()
	ov := append([]string(nil), r.overlaps...)
	r.mu.Unlock()
	if len(ov) > 0 {
		out = append(out, c13Verdict{"taskpool/overlap", ov[0], map[string]any{"overlaps": ov}})
	}

	// order: for tasks a, b of one flow, a fully emitted before b's emission
	// began (a.Ret < b.Call; includes program order of one producer) implies a
	// executes before b.
	r.mu.Lock()
	for flow, seq := range r.execOrder {
		minRetLater, minTask := int64(1<<62), (*c13Task)(nil)
		for i := len(seq) - 1; i >= 0; i-- {
			b := seq[i]
			if minTask != nil && minRetLater < b.Call {
				lo, hi := i-6, i+40
				if lo < 0 {
					lo = 0
				}
				if hi > len(seq) {
					hi = len(seq)
				}
				out = append(out, c13Verdict{"taskpool/order", fmt.Sprintf("flow %d: task %d ran before task %d although %d was completely emitted first", flow, b.ID, minTask.ID, minTask.ID),
					map[string]any{"earlier_emitted": minTask, "ran_first": b, "execution_order_around": seq[lo:hi]}})
				break
			}
			if b.Ret < minRetLater {
				minRetLater, minTask = b.Ret, b
			}
		}
	}
	// right queue
	for conv, flows := range r.convFlows {
		if len(flows) > 1 {
			var fl []int
			for f := range flows {
				fl = append(fl, f)
			}
			sort.Ints(fl)
			var ts []*c13Task
			for _, t := range tasks {
				if t.Conv == conv {
					ts = append(ts, t)
				}
			}
			out = append(out, c13Verdict{"taskpool/wrong-queue", fmt.Sprintf("convoy of queue %s executed tasks of flows %v", conv, fl),
				map[string]any{"convoy": conv, "tasks": ts}})
		}
		if k, ok := r.queueKey[conv]; ok {
			for f := range flows {
				if r.keys[f] != k {
					out = append(out, c13Verdict{"taskpool/wrong-queue", fmt.Sprintf("task of flow %v ran under queue %s whose key is %v", r.keys[f], conv, k),
						map[string]any{"convoy": conv}})
				}
			}
		}
	}
	r.mu.Unlock()
	return out
}

// ---- cooperative scheduler -----------------------------------------------------

const (
	c13NotStarted int32 = iota
	c13Running
	c13Parked
	c13Done
	c13Free // convoy running without control (e.g. after a failed claim)
)

type c13Actor struct {
	name    string
	goid    atomic.Int64
	state   atomic.Int32
	parkSeq atomic.Int64
	point   atomic.Value // string
	rel     chan struct{}
	body    func()
}

type c13Sched struct {
	controlled atomic.Bool
	mu         sync.Mutex
	byGoid     map[int64]*c13Actor
	hits       [8]atomic.Int64
	park7      atomic.Bool // park at utp7 (between the channel check and the overflow pop) too
	perturb    func(point string)
	trace      []string
}

func c13PointIdx(p string) int {
	if len(p) == 4 && p[:3] == "utp" && p[3] >= '1' && p[3] <= '7' {
		return int(p[3] - '0')
	}
	return 0
}

func (s *c13Sched) hook(point string) {
	s.hits[c13PointIdx(point)].Add(1)
	if f := s.perturb; f != nil {
		f(point)
	}
	if !s.controlled.Load() || (point == "utp7" && !s.park7.Load()) {
		return
	}
	gid := c13Goid()
	s.mu.Lock()
	a := s.byGoid[gid]
	s.mu.Unlock()
	if a == nil {
		return
	}
	a.point.Store(point)
	a.state.Store(c13Parked)
	a.parkSeq.Add(1)
	<-a.rel
}

func (s *c13Sched) register(a *c13Actor) {
	gid := c13Goid()
	a.goid.Store(gid)
	s.mu.Lock()
	s.byGoid[gid] = a
	s.mu.Unlock()
}

func c13WaitFor(cond func() bool, limit time.Duration) bool {
	for i := 0; i < 200; i++ {
		if cond() {
			return true
		}
		runtime.Gosched()
	}
	deadline := time.Now().Add(limit)
	for !cond() {
		if time.Now().After(deadline) {
			return false
		}
		time.Sleep(20 * time.Microsecond)
	}
	return true
}

const c13Watchdog = 20 * time.Second

// settle waits until the actor is parked again or finished.
func (a *c13Actor) settle(prevSeq int64) bool {
	return c13WaitFor(func() bool {
		return a.state.Load() == c13Done || (a.state.Load() == c13Parked && a.parkSeq.Load() > prevSeq)
	}, c13Watchdog)
}

func (a *c13Actor) where() string {
	switch a.state.Load() {
	case c13Parked:
		p, _ := a.point.Load().(string)
		return p
	case c13Done:
		return "done"
	case c13Free:
		return "free"
	case c13NotStarted:
		return "new"
	}
	return "run"
}

// releaseParked lets every currently parked actor continue (used after control
// has been switched off).
func (s *c13Sched) releaseParked() {
	s.mu.Lock()
	as := make([]*c13Actor, 0, len(s.byGoid))
	for _, a := range s.byGoid {
		as = append(as, a)
	}
	s.mu.Unlock()
	for _, a := range as {
		if a.state.CompareAndSwap(c13Parked, c13Running) {
			a.rel <- struct{}{}
		}
	}
}

// ---- controlled schedules ------------------------------------------------------

type c13Schedule struct {
	Tokens    string `json:"tokens"` // e.g. "CPPCPCP": C convoy step, P/Q producer steps
	TasksPerP int    `json:"tasks_per_producer"`
	Probe     bool   `json:"probe_channel_reuse"`
	Aging     string `json:"aging"`
}

type c13SchedResult struct {
	Trace     []string
	Verdicts  []c13Verdict
	Inconcl   string
	Reused    bool // a probe flow's queue got a recycled channel
	ClaimWon  bool // convoy's claiming CAS succeeded
	Recreated bool // flow 0 was served by more than one convoy
}

// c13RunSchedule executes one controlled schedule against a fresh pool.
func c13RunSchedule(sc c13Schedule, aging time.Duration, hits *[8]int64) (res c13SchedResult) {
	const K = 0 // the contended flow; flows 1..3 are reuse probes
	r := c13NewRun(4)
	s := &c13Sched{byGoid: map[int64]*c13Actor{}}
	hk := func(p string) { s.hook(p) }
	UdpTaskPoolAgingTime = aging
	VerifYieldHook.Store(&hk)
	defer func() {
		VerifYieldHook.Store(nil)
		for i := range s.hits {
			hits[i] += s.hits[i].Load()
		}
	}()

	tr := func(f string, a ...any) { res.Trace = append(res.Trace, fmt.Sprintf(f, a...)) }

	// warm-up: create the queue; its convoy registers itself as actor C from
	// inside the first task, then idles into utp1 and parks there.
	conv := &c13Actor{name: "C", rel: make(chan struct{})}
	conv.state.Store(c13Running)
	s.controlled.Store(true)
	t0 := r.newTask(K, "warmup", 0)
	inner := r.fn(t0)
	t0.Call = r.clock.Add(1)
	r.pool.EmitTask(r.keys[K], func() { s.register(conv); inner() })
	t0.Ret = r.clock.Add(1)
	if !conv.settle(0) {
		s.controlled.Store(false)
		s.releaseParked()
		res.Inconcl = "convoy never reached utp1 after warm-up"
		return
	}
	var q *UdpTaskQueue
	if v, ok := r.pool.queues.Load(r.keys[K]); ok {
		q = v.(*UdpTaskQueue)
	}
	tr("C@%s", conv.where())

	prods := map[byte]*c13Actor{}
	for _, name := range []byte{'P', 'Q'} {
		if !strings.ContainsRune(sc.Tokens, rune(name)) {
			continue
		}
		nm := string(name)
		a := &c13Actor{name: nm, rel: make(chan struct{})}
		a.body = func() {
			for i := 0; i < sc.TasksPerP; i++ {
				r.emit(r.newTask(K, nm, i))
			}
		}
		prods[name] = a
	}

	stepProducer := func(a *c13Actor) bool {
		switch a.state.Load() {
		case c13NotStarted:
			a.state.Store(c13Running)
			go func() {
				s.register(a)
				a.body()
				a.state.Store(c13Done)
			}()
			if !a.settle(0) {
				res.Inconcl = "producer " + a.name + " did not settle after start"
				return false
			}
		case c13Parked:
			seq := a.parkSeq.Load()
			a.state.Store(c13Running)
			a.rel <- struct{}{}
			if !a.settle(seq) {
				res.Inconcl = "producer " + a.name + " did not settle"
				return false
			}
		default:
			return true // finished: token is a no-op
		}
		tr("%s@%s", a.name, a.where())
		return true
	}
	stepConvoy := func() bool {
		if conv.state.Load() != c13Parked {
			tr("C-skip(%s)", conv.where())
			return true
		}
		p, _ := conv.point.Load().(string)
		seq := conv.parkSeq.Load()
		expectPark := false
		switch p {
		case "utp1":
			expectPark = q != nil && q.refs.Load() == 0 // scheduling hint only
			if expectPark {
				res.ClaimWon = true
			}
		case "utp2":
			v, ok := r.pool.queues.Load(r.keys[K])
			expectPark = ok && v.(*UdpTaskQueue) == q
		}
		if expectPark {
			conv.state.Store(c13Running)
		} else {
			conv.state.Store(c13Free)
		}
		conv.rel <- struct{}{}
		if expectPark {
			if !conv.settle(seq) {
				res.Inconcl = "convoy did not reach the next point after " + p
				return false
			}
		} else {
			// The step has no further hook point: wait until the convoy goroutine has
			// taken it, i.e. is blocked again (in its select or at a hook) or has exited.
			gid := conv.goid.Load()
			st := ""
			if !c13WaitFor(func() bool {
				st = c13GoroutineStatus(gid)
				return st != "running" && st != "runnable"
			}, c13Watchdog) {
				res.Inconcl = "convoy did not settle after " + p
				return false
			}
			if st == "gone" {
				conv.state.Store(c13Done)
			}
		}
		tr("C:%s->%s", p, conv.where())
		return true
	}

	for i := 0; i < len(sc.Tokens); i++ {
		ok := true
		switch c := sc.Tokens[i]; c {
		case 'C':
			ok = stepConvoy()
		default:
			ok = stepProducer(prods[c])
		}
		if !ok {
			break
		}
	}

	probe := func() {
		// producers on other keys: they take channels out of the recycling pool
		for f := 1; f <= 3; f++ {
			r.mu.Lock()
			before := len(r.chans)
			r.mu.Unlock()
			r.emit(r.newTask(f, fmt.Sprintf("X%d", f), 0))
			r.mu.Lock()
			if len(r.chans) == before {
				res.Reused = true
			}
			r.mu.Unlock()
		}
		tr("probe(reused=%v)", res.Reused)
	}
	if res.Inconcl == "" && sc.Probe && conv.state.Load() == c13Done {
		// reuse while the other producers are still parked wherever the schedule left them
		probe() // this goroutine is not an actor, so it passes the hook points freely
	}

	// epilogue: free everybody, let the system run to quiescence.
	s.controlled.Store(false)
	allDone := func() bool {
		s.releaseParked()
		for _, a := range prods {
			if st := a.state.Load(); st != c13Done && st != c13NotStarted {
				return false
			}
		}
		return true
	}
	if !c13WaitFor(allDone, c13Watchdog) {
		res.Inconcl = "producers did not finish after release"
		return
	}
	if res.Inconcl != "" {
		r.quiesce(c13Watchdog, nil, s.releaseParked)
		return
	}
	if sc.Probe && !res.Reused {
		probe()
	}
	ok, _ := r.quiesce(c13Watchdog, nil, s.releaseParked)
	if !ok {
		// not quiescent: "lost" cannot be judged, but what HAS been executed can (overlap,
		// order, wrong queue, duplicates are positive evidence whatever happens later)
		if res.Verdicts = r.check(false); len(res.Verdicts) == 0 {
			res.Inconcl = "pool did not become quiescent (queue table non-empty or convoys alive) within the watchdog"
		}
		return
	}
	res.Verdicts = r.check(true)
	r.mu.Lock()
	convs := map[string]bool{}
	for _, t := range r.tasks {
		if t.Flow == K && t.Conv != "" {
			convs[t.Conv] = true
		}
	}
	res.Recreated = len(convs) > 1
	r.mu.Unlock()
	return
}

// c13Interleavings enumerates all distinct orderings of the multiset.
func c13Interleavings(counts map[byte]int) []string {
	var out []string
	var keys []byte
	total := 0
	for k, n := range counts {
		keys = append(keys, k)
		total += n
	}
	sort.Slice(keys, func(i, j int) bool { return keys[i] < keys[j] })
	cur := make([]byte, 0, total)
	var rec func()
	rec = func() {
		if len(cur) == total {
			out = append(out, string(cur))
			return
		}
		for _, k := range keys {
			if counts[k] > 0 {
				counts[k]--
				cur = append(cur, k)
				rec()
				cur = cur[:len(cur)-1]
				counts[k]++
			}
		}
	}
	rec()
	return out
}

func c13TaskPoolControlled(m *vk.Monitor) {
	rng := vk.NewRand(0xC13A)
	oldAging := UdpTaskPoolAgingTime
	oldProcs := runtime.GOMAXPROCS(1) // one P: sync.Pool hands a recycled channel to the next Get deterministically
	defer func() {
		UdpTaskPoolAgingTime = oldAging
		runtime.GOMAXPROCS(oldProcs)
	}()

	var list []c13Schedule
	// exhaustive: convoy idle path (3 steps) x one producer emitting one task (start, utp4, utp6, utp5)
	for _, tk := range c13Interleavings(map[byte]int{'C': 3, 'P': 4}) {
		list = append(list, c13Schedule{Tokens: tk, TasksPerP: 1, Probe: false}, c13Schedule{Tokens: tk, TasksPerP: 1, Probe: true})
	}
	// exhaustive: one producer emitting two tasks in program order (8 producer steps)
	for _, tk := range c13Interleavings(map[byte]int{'C': 3, 'P': 8}) {
		list = append(list, c13Schedule{Tokens: tk, TasksPerP: 2, Probe: len(list)%2 == 0})
	}
	// two producers on the same key: 11550 interleavings; all in thorough, a seeded sample in quick
	two := c13Interleavings(map[byte]int{'C': 3, 'P': 4, 'Q': 4})
	n2 := vk.Scale(700, len(two))
	if n2 < len(two) {
		rng.Shuffle(len(two), func(i, j int) { two[i], two[j] = two[j], two[i] })
		two = two[:n2]
	}
	for i, tk := range two {
		list = append(list, c13Schedule{Tokens: tk, TasksPerP: 1, Probe: i%2 == 0})
	}
	// two producers, two tasks each: seeded sample
	base := []byte("CCCPPPPPPPPQQQQQQQQ")
	for i := 0; i < vk.Scale(200, 6000); i++ {
		b := append([]byte(nil), base...)
		rng.Shuffle(len(b), func(i, j int) { b[i], b[j] = b[j], b[i] })
		list = append(list, c13Schedule{Tokens: string(b), TasksPerP: 2, Probe: i%2 == 0})
	}

	// replay of one schedule: VERIF_C13_SCHED=<tokens>:<tasks per producer>:<probe 0|1>
	if rs := os.Getenv("VERIF_C13_SCHED"); rs != "" {
		f := strings.Split(rs, ":")
		sc := c13Schedule{Tokens: f[0], TasksPerP: 1}
		if len(f) > 1 && f[1] == "2" {
			sc.TasksPerP = 2
		}
		sc.Probe = len(f) > 2 && f[2] == "1"
		list = []c13Schedule{sc}
	}
	agings := []time.Duration{150 * time.Microsecond, 300 * time.Microsecond, 600 * time.Microsecond}
	var hits [8]int64
	reported := map[string]bool{}
	for i, sc := range list {
		if m.Violations() >= 5 {
			break
		}
		aging := agings[i%len(agings)]
		sc.Aging = aging.String()
		res := c13RunSchedule(sc, aging, &hits)
		m.Eval(1)
		m.Count("a_ctl_schedules", 1)
		if res.Inconcl != "" {
			m.Count("a_ctl_watchdog", 1)
			m.Inconclusive("taskpool controlled schedule %s: %s (trace %v)", sc.Tokens, res.Inconcl, res.Trace)
			break
		}
		m.Distinct("a-ctl|" + strings.Join(res.Trace, " "))
		if res.ClaimWon {
			m.Count("a_ctl_claim_cas_won", 1)
		} else {
			m.Count("a_ctl_claim_cas_lost", 1)
		}
		if res.Reused {
			m.Count("a_ctl_recycled_channel_reused", 1)
		}
		if res.Recreated {
			m.Count("a_ctl_queue_recreated", 1)
		}
		if m.WantSample() && i%97 == 0 {
			m.Sample(map[string]any{"part": "taskpool-controlled", "schedule": sc, "observed_trace": res.Trace})
		}
		for _, v := range res.Verdicts {
			if reported[v.Sig] {
				m.Count("a_ctl_violating_schedules_suppressed", 1)
				continue
			}
			reported[v.Sig] = true
			v.Witness["schedule"] = sc
			v.Witness["observed_trace"] = res.Trace
			m.Violation(v.Sig, v.What, v.Witness)
		}
	}
	for i := 1; i <= 6; i++ {
		m.Count(fmt.Sprintf("a_hook_utp%d", i), hits[i])
	}
}

// ---- controlled overflow schedule -------------------------------------------------------
//
// The convoy is parked at utp7, i.e. after it saw its channel empty and before
// it looks at the overflow list. Meanwhile one producer emits n tasks in program
// order (more than the channel holds, so the newest spill into the overflow
// list). Then the convoy continues. Tasks must still run in emission order.

func c13RunOverflowOrder(n int, aging time.Duration, hits *[8]int64) (res c13SchedResult, overflowUsed bool) {
	r := c13NewRun(1)
	s := &c13Sched{byGoid: map[int64]*c13Actor{}}
	hk := func(p string) { s.hook(p) }
	UdpTaskPoolAgingTime = aging
	s.park7.Store(true)
	s.controlled.Store(true)
	VerifYieldHook.Store(&hk)
	defer func() {
		VerifYieldHook.Store(nil)
		for i := range s.hits {
			hits[i] += s.hits[i].Load()
		}
	}()
	conv := &c13Actor{name: "C", rel: make(chan struct{})}
	conv.state.Store(c13Running)
	t0 := r.newTask(0, "warmup", 0)
	inner := r.fn(t0)
	t0.Call = r.clock.Add(1)
	r.pool.EmitTask(r.keys[0], func() { s.register(conv); inner() })
	t0.Ret = r.clock.Add(1)
	if !conv.settle(0) {
		s.controlled.Store(false)
		s.releaseParked()
		res.Inconcl = "convoy never parked after warm-up"
		return
	}
	at, _ := conv.point.Load().(string)
	res.Trace = append(res.Trace, "C@"+at)
	if at != "utp7" {
		// the idle timer won the race: not the schedule we want, but still a valid one
		res.Trace = append(res.Trace, "(convoy parked elsewhere)")
	}
	for i := 0; i < n; i++ {
		r.emit(r.newTask(0, "P", i))
	}
	if v, ok := r.pool.queues.Load(r.keys[0]); ok {
		overflowUsed = v.(*UdpTaskQueue).overflowLen.Load() > 0
	}
	res.Trace = append(res.Trace, fmt.Sprintf("P emitted %d (overflow=%v)", n, overflowUsed))
	s.controlled.Store(false)
	s.releaseParked()
	ok, _ := r.quiesce(c13Watchdog, nil, s.releaseParked)
	if !ok {
		if res.Verdicts = r.check(false); len(res.Verdicts) == 0 {
			res.Inconcl = "pool did not become quiescent within the watchdog"
		}
		return
	}
	res.Verdicts = r.check(true)
	return
}

func c13TaskPoolOverflowOrder(m *vk.Monitor) {
	oldAging := UdpTaskPoolAgingTime
	defer func() { UdpTaskPoolAgingTime = oldAging }()
	var hits [8]int64
	reported := map[string]bool{}
	sizes := []int{1, 64, UdpTaskQueueLength - 1, UdpTaskQueueLength, UdpTaskQueueLength + 1, UdpTaskQueueLength + 2, 200, 3 * UdpTaskQueueLength}
	reps := vk.Scale(2, 20)
	for rep := 0; rep < reps; rep++ {
		for _, n := range sizes {
			if m.Violations() >= 5 {
				return
			}
			// a long aging time keeps the idle GC out of the way while the convoy is parked
			res, ovf := c13RunOverflowOrder(n, 2*time.Millisecond, &hits)
			m.Eval(n)
			m.Count("a_ovf_schedules", 1)
			if res.Inconcl != "" {
				m.Inconclusive("taskpool overflow schedule n=%d: %s", n, res.Inconcl)
				return
			}
			if ovf {
				m.Count("a_ovf_spilled_while_convoy_between_channel_and_overflow", 1)
			}
			m.Distinct(fmt.Sprintf("a-ovf|n%d|%s", n, strings.Join(res.Trace, " ")))
			for _, v := range res.Verdicts {
				if reported[v.Sig] {
					continue
				}
				reported[v.Sig] = true
				v.Witness["schedule"] = fmt.Sprintf("convoy parked at utp7 (channel seen empty, overflow not yet inspected); one producer emits %d tasks in program order; convoy released", n)
				v.Witness["observed_trace"] = res.Trace
				m.Violation(v.Sig+"/overflow-pop-after-stale-empty-channel", v.What, v.Witness)
			}
		}
	}
	m.Count("a_hook_utp7", hits[7])
}

// ---- stress ----------------------------------------------------------------------

type c13StressCfg struct {
	Round     int    `json:"round"`
	Producers int    `json:"producers"`
	Keys      int    `json:"keys"`
	Aging     string `json:"aging"`
	PerProd   int    `json:"tasks_per_producer"`
	Bursts    int    `json:"overflow_bursts"`
	Perturb   bool   `json:"perturb_at_hooks"`
}

func c13TaskPoolStress(m *vk.Monitor) {
	rng := vk.NewRand(0xC13B)
	oldAging := UdpTaskPoolAgingTime
	defer func() { UdpTaskPoolAgingTime = oldAging; VerifYieldHook.Store(nil) }()
	rounds := vk.Scale(120, 4000)
	reported := map[string]bool{}
	var hitsTotal [8]int64
	for round := 0; round < rounds && m.Violations() < 5; round++ {
		cfg := c13StressCfg{
			Round:     round,
			Producers: []int{2, 4, 8, 16}[rng.IntN(4)],
			Keys:      1 + rng.IntN(4),
			PerProd:   10 + rng.IntN(50),
			Bursts:    rng.IntN(3),
			Perturb:   rng.IntN(4) != 0,
		}
		aging := []time.Duration{50, 100, 200, 500, 1000}[rng.IntN(5)] * time.Microsecond
		cfg.Aging = aging.String()
		UdpTaskPoolAgingTime = aging
		r := c13NewRun(cfg.Keys)
		s := &c13Sched{byGoid: map[int64]*c13Actor{}}
		var pc atomic.Uint64
		pseed := rng.Uint64()
		if cfg.Perturb {
			// yield or pause at the named points: a goroutine may be descheduled there anyway
			s.perturb = func(point string) {
				x := (pc.Add(1) + pseed) * 0x9e3779b97f4a7c15
				x ^= x >> 29
				switch {
				case point == "utp1" && x%3 != 0:
					time.Sleep(time.Duration(x%64) * time.Microsecond)
				case x%5 == 0:
					runtime.Gosched()
				}
			}
		}
		hk := func(p string) { s.hook(p) }
		VerifYieldHook.Store(&hk)

		// per-producer plans are drawn from the seeded stream before the goroutines start
		type step struct {
			flow  int
			pause int // 0 none, 1 gosched, 2 sleep ~aging
			burst int // >0: emit a gated task followed by `burst` quick ones, then open the gate
			sleep time.Duration
		}
		plans := make([][]step, cfg.Producers)
		for p := range plans {
			for i := 0; i < cfg.PerProd; i++ {
				st := step{flow: rng.IntN(cfg.Keys), pause: rng.IntN(3)}
				st.sleep = time.Duration(float64(aging) * (0.6 + rng.Float64()*0.9))
				plans[p] = append(plans[p], st)
			}
			for b := 0; b < cfg.Bursts && p < 2; b++ {
				i := rng.IntN(len(plans[p]))
				plans[p][i].burst = UdpTaskQueueLength + 5 + rng.IntN(200)
			}
		}
		var wg sync.WaitGroup
		for p := range plans {
			wg.Add(1)
			go func(p int) {
				defer wg.Done()
				name := fmt.Sprintf("S%d", p)
				seq := 0
				for _, st := range plans[p] {
					if st.burst > 0 {
						g := r.newTask(st.flow, name, seq)
						seq++
						g.gate = make(chan struct{})
						r.emit(g)
						for i := 0; i < st.burst; i++ {
							r.emit(r.newTask(st.flow, name, seq))
							seq++
						}
						if v, ok := r.pool.queues.Load(r.keys[st.flow]); ok {
							if n := v.(*UdpTaskQueue).overflowLen.Load(); n > 0 {
								r.maxOverfl.Store(n)
							}
						}
						close(g.gate)
						continue
					}
					r.emit(r.newTask(st.flow, name, seq))
					seq++
					switch st.pause {
					case 1:
						runtime.Gosched()
					case 2:
						time.Sleep(st.sleep)
					}
				}
			}(p)
		}
		wg.Wait()
		ok, _ := r.quiesce(c13Watchdog, nil, nil)
		VerifYieldHook.Store(nil)
		for i := range s.hits {
			hitsTotal[i] += s.hits[i].Load()
		}
		m.Count("a_stress_rounds", 1)
		if !ok {
			m.Count("a_stress_watchdog", 1)
			vs := r.check(false)
			for _, v := range vs {
				if !reported["s/"+v.Sig] {
					reported["s/"+v.Sig] = true
					m.Violation(v.Sig+"/stress", v.What+" (pool did not quiesce afterwards)", map[string]any{"round": round, "config": cfg, "detail": v.Witness})
				}
			}
			if len(vs) == 0 {
				// every accepted task has run, no producer is left, and yet a queue stays in the table:
				// its idle collection can only be blocked by a reference count that does not return
				// to zero although nobody holds the queue any more (three agreeing samples)
				type leak struct {
					Key  string `json:"flow_key"`
					Refs int32  `json:"refs"`
				}
				var leaks []leak
				for sample := 0; sample < 3; sample++ {
					var cur []leak
					// queues of the table, and queues that are no longer in it but whose convoy
					// goroutine is still alive (replaced by a successor while still running)
					cand := map[*UdpTaskQueue]string{}
					r.pool.queues.Range(func(k, v any) bool {
						cand[v.(*UdpTaskQueue)] = fmt.Sprint(k)
						return true
					})
					live := map[string]bool{}
					for _, p := range c13LiveConvoys() {
						live[p] = true
					}
					r.mu.Lock()
					for q := range r.queues {
						if _, ok := cand[q]; !ok && live[fmt.Sprintf("%p", q)] {
							cand[q] = fmt.Sprint(q.key) + " (not in the table any more, convoy still running)"
						}
					}
					r.mu.Unlock()
					for q, k := range cand {
						q.enqueueMu.Lock()
						pend := len(q.ch) + len(q.overflow)
						q.enqueueMu.Unlock()
						if n := q.refs.Load(); pend == 0 && n != 0 {
							cur = append(cur, leak{k, n})
						}
					}
					if sample > 0 && len(cur) != len(leaks) {
						cur = nil
					}
					leaks = cur
					if len(leaks) == 0 {
						break
					}
					time.Sleep(100 * time.Millisecond)
				}
				if len(leaks) > 0 && !reported["s/refleak"] {
					reported["s/refleak"] = true
					m.Violation("taskpool/queue-refcount-out-of-sync/stress",
						fmt.Sprintf("all accepted tasks have run and no producer is active, but %d queue(s) stay in the table with a reference count that is not zero (first: refs=%d): the count no longer equals the number of holders, so the queue is never collected (or is collected while a producer still holds it)", len(leaks), leaks[0].Refs),
						map[string]any{"round": round, "config": cfg, "queues": leaks})
				} else if len(leaks) == 0 {
					m.Inconclusive("taskpool stress round %d did not quiesce within the watchdog", round)
				}
			}
			break
		}
		r.mu.Lock()
		ntasks := len(r.tasks)
		nconv := len(r.convFlows)
		nch := len(r.chans)
		r.mu.Unlock()
		m.Eval(ntasks)
		m.Count("a_stress_tasks", int64(ntasks))
		m.Count("a_stress_convoys", int64(nconv))
		m.Count("a_stress_channels_allocated", int64(nch))
		if nconv > nch {
			m.Count("a_stress_channel_reuse", int64(nconv-nch))
		}
		if nconv > cfg.Keys {
			m.Count("a_stress_queue_recreations", int64(nconv-cfg.Keys))
		}
		if cfg.Bursts > 0 {
			m.Count("a_stress_overflow_bursts", int64(cfg.Bursts))
		}
		if r.maxOverfl.Load() > 0 {
			m.Count("a_stress_overflow_mode_observed", 1)
		}
		m.Distinct(fmt.Sprintf("a-stress|p%d|k%d|%s|b%d|%v|re%v", cfg.Producers, cfg.Keys, cfg.Aging, cfg.Bursts, cfg.Perturb, nconv > cfg.Keys))
		if m.WantSample() && round%41 == 0 {
			m.Sample(map[string]any{"part": "taskpool-stress", "config": cfg, "tasks": ntasks, "convoys": nconv})
		}
		for _, v := range r.check(true) {
			if reported["s/"+v.Sig] {
				continue
			}
			reported["s/"+v.Sig] = true
			v.Witness["stress_config"] = cfg
			m.Violation(v.Sig, "[stress] "+v.What, v.Witness)
		}
	}
	for i := 1; i <= 6; i++ {
		m.Count(fmt.Sprintf("a_hook_utp%d", i), hitsTotal[i])
	}
}

// c13TaskPoolFreshKeyHerd: the first packets of a new (or just collected) flow arrive together.
// Producers are lined up on a spin barrier and each emits its tasks to the same key whose queue
// does not exist (any more); the queue's creation, the creator's own reference and the references
// of the producers that find the freshly published queue race here. Judged at quiescence by the
// log oracle (exactly once, order, right queue), with the reference-count oracle of the stress
// rounds when the pool does not quiesce.
func c13TaskPoolFreshKeyHerd(m *vk.Monitor) {
	rng := vk.NewRand(0xC13F)
	oldAging := UdpTaskPoolAgingTime
	defer func() { UdpTaskPoolAgingTime = oldAging }()
	UdpTaskPoolAgingTime = 100 * time.Microsecond
	iters := vk.Scale(1500, 30000)
	nkeys := 4
	r := c13NewRun(nkeys)
	reported := map[string]bool{}
	for it := 0; it < iters && m.Violations() < 5; it++ {
		np := 3 + rng.IntN(6)
		flow := rng.IntN(nkeys)
		per := 1 + rng.IntN(2)
		var ready atomic.Int32
		var wg sync.WaitGroup
		for p := 0; p < np; p++ {
			tasks := make([]*c13Task, per)
			for i := range tasks {
				tasks[i] = r.newTask(flow, fmt.Sprintf("H%d.%d", it, p), i)
			}
			wg.Add(1)
			go func(tasks []*c13Task) {
				defer wg.Done()
				ready.Add(1)
				for ready.Load() < int32(np) { // spin barrier: arrive at EmitTask together
				}
				for _, t := range tasks {
					r.emit(t)
				}
			}(tasks)
		}
		wg.Wait()
		m.Count("a_herd_iterations", 1)
		// let the queue be collected between iterations now and then (re-creation), not always
		if rng.IntN(3) != 0 {
			continue
		}
		ok, _ := r.quiesce(c13Watchdog, nil, nil)
		if !ok {
			vs := r.check(false)
			for _, v := range vs {
				if !reported[v.Sig] {
					reported[v.Sig] = true
					m.Violation(v.Sig+"/fresh-key-herd", v.What+" (pool did not quiesce afterwards)", map[string]any{"iteration": it, "producers": np, "detail": v.Witness})
				}
			}
			if len(vs) == 0 {
				var leaks []string
				live := map[string]bool{}
				for _, p := range c13LiveConvoys() {
					live[p] = true
				}
				r.mu.Lock()
				for q := range r.queues {
					if n := q.refs.Load(); n != 0 && live[fmt.Sprintf("%p", q)] {
						leaks = append(leaks, fmt.Sprintf("queue %p key=%v refs=%d", q, q.key, n))
					}
				}
				r.mu.Unlock()
				if len(leaks) > 0 {
					m.Violation("taskpool/queue-refcount-out-of-sync/fresh-key-herd",
						fmt.Sprintf("every accepted task has run and no producer is active, but %d convoy(s) stay alive on a queue whose reference count is not zero: the count no longer equals the number of holders", len(leaks)),
						map[string]any{"iteration": it, "producers": np, "queues": leaks})
				} else {
					m.Inconclusive("fresh-key herd iteration %d did not quiesce within the watchdog", it)
				}
			}
			return
		}
		m.Count("a_herd_quiescent_checks", 1)
		for _, v := range r.check(true) {
			if !reported[v.Sig] {
				reported[v.Sig] = true
				m.Violation(v.Sig+"/fresh-key-herd", v.What, map[string]any{"iteration": it, "producers": np, "detail": v.Witness})
			}
		}
		r.mu.Lock()
		m.Eval(len(r.tasks))
		r.mu.Unlock()
		if len(reported) > 0 {
			return
		}
	}
}
