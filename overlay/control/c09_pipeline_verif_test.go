package control

// C09 monitor, layer L7: ONE ANSWER PER QUESTION ON PIPELINED UPSTREAM CONNECTIONS WHILE CLIENTS GIVE UP.
//
// dae's pipelinedConn (tcp:// and tls:// upstreams) is driven at its RoundTrip boundary by 8-24
// concurrent callers. Every question carries a name used once in the whole run, so an answer names
// the call it belongs to. The scripted upstream (other end of a net.Pipe) answers each query it
// reads correctly after a drawn delay; the caller's context is cancelled at a drawn moment around
// the arrival of the answer (before it, with it, after it, never). A connection whose caller gave up
// is closed by dae, the next call opens a new one. Oracle at the boundary: a RoundTrip that returns
// a message returns the answer to ITS question (name and the address the upstream derived from that
// name); an error is always acceptable. No verdict depends on elapsed time.

import (
	"context"
	"encoding/binary"
	"fmt"
	"io"
	"math/rand/v2"
	"net"
	"sync"
	"time"

	vk "github.com/daeuniverse/dae/verifkit"
	dnsmessage "github.com/miekg/dns"
)

type c09L7Conn struct {
	net.Conn
}

func c09L7Addr(name string) string {
	h := uint32(2166136261)
	for i := 0; i < len(name); i++ {
		h = (h ^ uint32(name[i])) * 16777619
	}
	return fmt.Sprintf("10.%d.%d.%d", byte(h>>16), byte(h>>8), byte(h))
}

// c09L7Upstream answers every length-prefixed query read from s correctly; onAnswered is called
// right after the answer to name has been written.
func c09L7Upstream(s net.Conn, delay func() time.Duration, onAnswered func(name string)) {
	defer s.Close()
	var wmu sync.Mutex
	for {
		var l [2]byte
		if _, err := io.ReadFull(s, l[:]); err != nil {
			return
		}
		b := make([]byte, binary.BigEndian.Uint16(l[:]))
		if _, err := io.ReadFull(s, b); err != nil {
			return
		}
		q := new(dnsmessage.Msg)
		if q.Unpack(b) != nil || len(q.Question) != 1 {
			continue
		}
		go func() {
			time.Sleep(delay())
			a := new(dnsmessage.Msg)
			a.SetReply(q)
			name := q.Question[0].Name
			if rr, err := dnsmessage.NewRR(name + " 60 IN A " + c09L7Addr(name)); err == nil {
				a.Answer = append(a.Answer, rr)
			}
			out, err := a.Pack()
			if err != nil {
				return
			}
			frame := make([]byte, 2+len(out))
			binary.BigEndian.PutUint16(frame, uint16(len(out)))
			copy(frame[2:], out)
			wmu.Lock()
			_, werr := s.Write(frame)
			wmu.Unlock()
			if werr == nil {
				onAnswered(name)
			}
		}()
	}
}

func c09L7Round(m *vk.Monitor, r *rand.Rand, round int) {
	callers := 8 + r.IntN(17)
	perCaller := 6 + r.IntN(10)
	var wg sync.WaitGroup
	type plan struct {
		seed1, seed2 uint64
	}
	plans := make([]plan, callers)
	for i := range plans {
		plans[i] = plan{r.Uint64(), r.Uint64()}
	}
	for c := 0; c < callers; c++ {
		wg.Add(1)
		go func(c int) {
			defer wg.Done()
			lr := rand.New(rand.NewPCG(plans[c].seed1, plans[c].seed2))
			var pc *pipelinedConn
			var cancels sync.Map // name -> func(): what the upstream side calls once the answer is on the wire
			open := func() {
				cl, sv := net.Pipe()
				pc = newPipelinedConn(&c09L7Conn{cl})
				// the upstream's goroutines draw from their own generator (lr belongs to the caller goroutine)
				ur := rand.New(rand.NewPCG(lr.Uint64(), lr.Uint64()))
				var urMu sync.Mutex
				go c09L7Upstream(sv, func() time.Duration {
					urMu.Lock()
					defer urMu.Unlock()
					return time.Duration(ur.IntN(300)) * time.Microsecond
				}, func(name string) {
					if f, ok := cancels.Load(name); ok {
						f.(func())()
					}
				})
				m.Count("L7_upstream_connections", 1)
			}
			open()
			for k := 0; k < perCaller; k++ {
				name := fmt.Sprintf("r%d-c%d-k%d.l7.c09.test.", round, c, k)
				q := new(dnsmessage.Msg)
				q.SetQuestion(name, dnsmessage.TypeA)
				q.Id = uint16(7 + lr.IntN(2))
				data, err := q.Pack()
				if err != nil {
					continue
				}
				ctx, cancel := context.WithCancel(context.Background())
				mode := lr.IntN(4)
				switch mode {
				case 0: // gives up when the answer is on the wire (the reader may or may not have delivered it)
					d := time.Duration(lr.IntN(120)) * time.Microsecond
					cancels.Store(name, func() {
						if d > 0 {
							time.Sleep(d)
						}
						cancel()
					})
				case 1: // gives up at a drawn moment, usually before the answer
					go func(d time.Duration) { time.Sleep(d); cancel() }(time.Duration(lr.IntN(400)) * time.Microsecond)
				}
				msg, rerr := pc.RoundTrip(ctx, data)
				cancel()
				cancels.Delete(name)
				m.Eval(1)
				switch {
				case rerr != nil:
					m.Count("L7_roundtrip_gave_up_or_failed", 1)
					if mode == 0 {
						m.Count("L7_gave_up_with_answer_on_the_wire", 1)
					}
					pc.Close()
					open()
				case msg == nil:
					m.Violation("L7/nil-message-without-error", "pipelinedConn.RoundTrip returned (nil, nil)", map[string]any{"question": name})
				default:
					m.Count("L7_roundtrip_answered", 1)
					m.Distinct(fmt.Sprintf("L7|tcp-pipeline|mode%d|answered", mode))
					got := ""
					if len(msg.Question) > 0 {
						got = msg.Question[0].Name
					}
					addr := ""
					if len(msg.Answer) > 0 {
						if a, ok := msg.Answer[0].(*dnsmessage.A); ok {
							addr = a.A.String()
						}
					}
					if got != name || addr != c09L7Addr(name) {
						m.Violation("L7/answer-to-another-question/tcp-pipeline", fmt.Sprintf("RoundTrip for %q returned the upstream answer to %q (address %s, own would be %s)", name, got, addr, c09L7Addr(name)),
							map[string]any{"question": name, "answer_question": got, "answer_addr": addr, "caller": c, "call": k, "mode": mode, "round": round})
					}
				}
				if rerr != nil {
					m.Distinct(fmt.Sprintf("L7|tcp-pipeline|mode%d|error", mode))
				}
			}
			pc.Close()
		}(c)
	}
	wg.Wait()
}

func c09L7Required() []string {
	// L7_gave_up_with_answer_on_the_wire is a narrow timing observation (a handful per run): counted, not required
	return []string{"L7_roundtrip_answered", "L7_roundtrip_gave_up_or_failed", "L7_upstream_connections"}
}
