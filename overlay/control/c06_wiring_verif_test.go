//go:build linux

package control

// C06 monitor, part "wiring": the stream sniffer as the daemon feeds it. handleConn does not hand
// the sniffer the client socket: prefetchForTcpSniff first takes up to 16 bytes off the socket,
// the sniffer (or, for bytes that look like neither TLS nor HTTP, the relay directly) then reads
// through the wrapper that replays them. The statement's promise - whatever the outcome, the data
// subsequently handed to the relay is byte for byte what the client sent, the connection remains
// usable, no other name than the one carried - is checked at the far end of that stack, over real
// loopback sockets, for first segments of 1..40 bytes followed by the rest at once, a little
// later, in pieces, only after the sniffing timeout, or by a FIN.
//
// Oracle (written from the statement, standard library only): the bytes obtained by draining what
// handleConn would hand to the relay (Read loop, WriteTo, TakeRelayPrefix/TakeRelaySegments +
// remainder) must equal the bytes the client wrote, in order; a reported name must be the name the
// generator put into the ClientHello / Host header; a ClientHello or one-read request head that
// was completely queued on the socket before dae looked at it must be recognised (no timing
// involved; re-run before it is believed); a write by dae after the sniff must reach the client and
// bytes the client sends after the sniffing deadline must still get through (deadline cleared).
// Nothing is concluded from elapsed time; a stuck case is INCONCLUSIVE here (part main judges waits).

import (
	"bytes"
	"crypto/tls"
	"errors"
	"fmt"
	"io"
	"net"
	"strings"
	"sync"
	"sync/atomic"
	"testing"
	"time"

	daerrors "github.com/daeuniverse/dae/common/errors"
	"github.com/daeuniverse/dae/component/sniffing"
	vk "github.com/daeuniverse/dae/verifkit"
)

const c06wTimeout = 150 * time.Millisecond

var c06wPong = []byte("c06-wiring-pong")

type c06wCase struct {
	ID       int    `json:"id"`
	Proto    string `json:"first_bytes"` // tls | http | tls-lookalike | http-lookalike | opaque
	Carried  string `json:"carried_name"`
	Schedule string `json:"schedule"` // whole-before-accept | rest-soon | rest-in-pieces | rest-after-timeout | fin-after-first-segment
	FirstSeg int    `json:"first_segment_len"`
	Drain    string `json:"drain"`
	HeadLen  int    `json:"head_len"`
	TailLen  int    `json:"tail_len"`

	head, tail []byte
}

type c06wObs struct {
	Path        string   `json:"path"` // sniffer | prefixed-only | raw
	Prefetched  int      `json:"prefetched_len"`
	Name        string   `json:"reported_name"`
	SniffErr    string   `json:"sniff_error"`
	Outcome     string   `json:"outcome"`
	Fatal       bool     `json:"handleConn_would_return_the_error"`
	DrainErr    string   `json:"drain_error"`
	DrainedLen  int      `json:"drained_len"`
	SentLen     int      `json:"client_sent_len"`
	PongOK      bool     `json:"pong_reached_client"`
	Stuck       string   `json:"stuck_in_phase"`
	RawReads    []string `json:"reads_of_the_client_socket_during_detection"`
	ElapsedMs   float64  `json:"sniff_elapsed_ms"`
	FirstDiffAt int      `json:"first_difference_at"`

	drained, sent []byte
	readTimeout   bool // a read of the socket during detection ended with a deadline error
	readEOF       bool
	infra         error
}

// c06wRecConn records what the reads of the client socket return while detection is running.
type c06wRecConn struct {
	net.Conn
	mu        sync.Mutex
	recording atomic.Bool
	log       []string
	timeouts  int
	eofs      int
}

func (c *c06wRecConn) Read(p []byte) (int, error) {
	n, err := c.Conn.Read(p)
	if c.recording.Load() {
		c.mu.Lock()
		if len(c.log) < 12 {
			c.log = append(c.log, fmt.Sprintf("Read(%d) = %d, %v", len(p), n, err))
		}
		var ne net.Error
		if err != nil && errors.As(err, &ne) && ne.Timeout() {
			c.timeouts++
		}
		if err == io.EOF {
			c.eofs++
		}
		c.mu.Unlock()
	}
	return n, err
}

func c06wHello(name string, maxVer uint16) []byte {
	c, s := net.Pipe()
	defer c.Close()
	defer s.Close()
	go func() {
		_ = tls.Client(c, &tls.Config{ServerName: name, InsecureSkipVerify: true, MaxVersion: maxVer, NextProtos: []string{"h2", "http/1.1"}}).Handshake()
	}()
	buf := make([]byte, 32<<10)
	_ = s.SetReadDeadline(time.Now().Add(5 * time.Second))
	n, _ := s.Read(buf)
	if n < 6 || buf[0] != 0x16 || 5+int(buf[3])<<8+int(buf[4]) != n {
		return nil
	}
	return append([]byte(nil), buf[:n]...)
}

func c06wSameName(got, carried string) bool {
	return strings.EqualFold(strings.TrimSuffix(got, "."), strings.TrimSuffix(carried, "."))
}

func c06wDrain(conn net.Conn, how string) (out []byte, err error) {
	readLoop := func(r io.Reader, sz int) error {
		buf := make([]byte, sz)
		for zero := 0; ; {
			n, err := r.Read(buf)
			out = append(out, buf[:n]...)
			if err == io.EOF {
				return nil
			}
			if err != nil {
				return err
			}
			if n == 0 {
				if zero++; zero > 1000 {
					return errors.New("Read keeps returning (0, nil)")
				}
			}
		}
	}
	switch how {
	case "read":
		return out, readLoop(conn, 32<<10)
	case "read-small":
		return out, readLoop(conn, 7)
	case "writeto":
		wt, ok := conn.(io.WriterTo)
		if !ok {
			return out, readLoop(conn, 32<<10)
		}
		var b bytes.Buffer
		_, err := wt.WriteTo(&b)
		return b.Bytes(), err
	case "prefix+read":
		if p, ok := conn.(interface{ TakeRelayPrefix() []byte }); ok {
			out = append(out, p.TakeRelayPrefix()...)
		}
		return out, readLoop(conn, 32<<10)
	case "segments+remainder":
		if p, ok := conn.(interface{ TakeRelaySegments() [][]byte }); ok {
			for _, s := range p.TakeRelaySegments() {
				out = append(out, s...)
			}
		}
		var b bytes.Buffer
		switch c := conn.(type) {
		case *sniffing.ConnSniffer:
			_, err = c.CopyRelayRemainder(&b, make([]byte, 4096))
		case *prefixedConn:
			_, err = c.CopyRelayRemainder(&b, make([]byte, 4096), func(int64) {})
		default:
			return out, readLoop(conn, 512)
		}
		return append(out, b.Bytes()...), err
	}
	return nil, fmt.Errorf("unknown drain %q", how)
}

var c06wDrains = []string{"read", "read-small", "writeto", "prefix+read", "segments+remainder"}

func c06wOutcome(name string, err error) string {
	switch {
	case err == nil && name != "":
		return "found"
	case err == nil:
		return "empty-name"
	case errors.Is(err, sniffing.ErrNotFound):
		return "notfound"
	case errors.Is(err, sniffing.ErrNeedMore):
		return "needmore"
	case errors.Is(err, sniffing.ErrNotApplicable):
		return "notapplicable"
	case sniffing.IsSniffingError(err):
		return "sniffing-error"
	}
	return "conn-error"
}

// c06wRun executes one case: the client script on one side, the detection part of handleConn
// (control/tcp.go: prefetchForTcpSniff -> isLikelyHttpOrTLSPrefix -> NewConnSniffer -> SniffTcp)
// followed by a drain of the conn handleConn would give to the relay on the other.
func c06wRun(c *c06wCase) (o c06wObs) {
	ln, err := net.ListenTCP("tcp4", &net.TCPAddr{IP: net.IPv4(127, 0, 0, 1)})
	if err != nil {
		o.infra = err
		return
	}
	defer ln.Close()
	first := min(c.FirstSeg, len(c.head))
	if c.Schedule == "whole-before-accept" {
		first = len(c.head)
	}
	type piece struct {
		at time.Duration // after dae started looking at the connection
		b  []byte
	}
	var rest []piece
	switch c.Schedule {
	case "rest-soon":
		rest = []piece{{5 * time.Millisecond, c.head[first:]}}
	case "rest-in-pieces":
		r := c.head[first:]
		a, b := len(r)/3, 2*len(r)/3
		rest = []piece{{15 * time.Millisecond, r[:a]}, {30 * time.Millisecond, r[a:b]}, {45 * time.Millisecond, r[b:]}}
	case "rest-after-timeout":
		rest = []piece{{c06wTimeout + 80*time.Millisecond, c.head[first:]}}
	case "fin-after-first-segment":
		// nothing follows
	}
	started := make(chan time.Time, 1)
	afterSniff := make(chan struct{})
	queued := make(chan struct{})
	cliDone := make(chan error, 1)
	var sent []byte
	var pongGot []byte
	go func() {
		cl, err := net.DialTCP("tcp4", nil, ln.Addr().(*net.TCPAddr))
		if err != nil {
			close(queued)
			cliDone <- err
			return
		}
		defer cl.Close()
		_ = cl.SetNoDelay(true)
		write := func(b []byte) bool {
			if len(b) == 0 {
				return true
			}
			n, err := cl.Write(b)
			sent = append(sent, b[:n]...)
			if err != nil {
				cliDone <- err
				return false
			}
			return true
		}
		ok := write(c.head[:first])
		close(queued)
		if !ok {
			return
		}
		t0 := <-started
		if c.Schedule == "fin-after-first-segment" {
			_ = cl.CloseWrite()
		} else {
			for _, p := range rest {
				if d := p.at - time.Since(t0); d > 0 {
					select {
					case <-time.After(d):
					case <-afterSniff: // detection is over: the rest may follow at once
					}
				}
				if !write(p.b) {
					return
				}
			}
			<-afterSniff
			// the tail leaves only after the sniffing deadline: a deadline left armed on the socket shows
			if d := c06wTimeout + 40*time.Millisecond - time.Since(t0); d > 0 {
				time.Sleep(d)
			}
			if !write(c.tail) {
				return
			}
			_ = cl.CloseWrite()
		}
		_ = cl.SetReadDeadline(time.Now().Add(15 * time.Second))
		pongGot, _ = io.ReadAll(cl)
		cliDone <- nil
	}()
	_ = ln.SetDeadline(time.Now().Add(10 * time.Second))
	srv, err := ln.AcceptTCP()
	if err != nil {
		o.infra = err
		return
	}
	<-queued
	time.Sleep(3 * time.Millisecond) // loopback: what the client wrote is queued on srv by now
	rec := &c06wRecConn{Conn: srv}
	rec.recording.Store(true)
	var phase atomic.Value
	phase.Store("prefetch")
	done := make(chan struct{})
	var relayConn net.Conn = rec
	var closer io.Closer = rec
	go func() {
		defer close(done)
		defer func() {
			if r := recover(); r != nil {
				o.Stuck = ""
				o.SniffErr = fmt.Sprintf("panic in phase %v: %v", phase.Load(), r)
				o.Outcome = "panic"
			}
		}()
		t0 := time.Now()
		started <- t0
		probeConn, prefetched, ready, perr := prefetchForTcpSniff(rec, c06wTimeout, tcpSniffPrefetchBytes)
		o.Prefetched = len(prefetched)
		switch {
		case perr != nil:
			o.Path, o.Fatal, o.SniffErr = "raw", true, perr.Error()
			close(afterSniff)
			return
		case !ready:
			o.Path, relayConn = "raw", probeConn
		case !isLikelyHttpOrTLSPrefix(prefetched):
			o.Path, relayConn = "prefixed-only", probeConn
		default:
			o.Path = "sniffer"
			phase.Store("sniff")
			sn := sniffing.NewConnSniffer(probeConn, c06wTimeout)
			closer = sn
			relayConn = sn
			name, serr := sn.SniffTcp()
			o.ElapsedMs = float64(time.Since(t0)) / 1e6
			o.Name, o.Outcome = name, c06wOutcome(name, serr)
			if serr != nil {
				o.SniffErr = serr.Error()
				if !sniffing.IsSniffingError(serr) && !daerrors.IsIgnorableConnectionError(serr) {
					o.Fatal = true
				}
			}
		}
		rec.recording.Store(false)
		close(afterSniff)
		if o.Fatal {
			return
		}
		phase.Store("write")
		if n, werr := relayConn.Write(c06wPong); werr != nil || n != len(c06wPong) {
			o.DrainErr = fmt.Sprintf("write after detection: %d, %v", n, werr)
		}
		phase.Store("drain/" + c.Drain)
		var derr error
		o.drained, derr = c06wDrain(relayConn, c.Drain)
		if derr != nil {
			o.DrainErr = derr.Error()
		}
		_ = srv.CloseWrite()
	}()
	select {
	case <-done:
	case <-time.After(c06wTimeout + 20*time.Second):
		o.Stuck = phase.Load().(string)
		_ = srv.Close()
		select {
		case <-done:
		case <-time.After(3 * time.Second):
		}
	}
	select {
	case <-afterSniff:
	default:
		close(afterSniff)
	}
	if o.Fatal || o.Stuck != "" {
		_ = srv.Close()
	}
	select {
	case err := <-cliDone:
		if err != nil && o.Stuck == "" && !o.Fatal {
			o.infra = fmt.Errorf("client: %w", err)
		}
	case <-time.After(20 * time.Second):
		if o.Stuck == "" {
			o.Stuck = "client"
		}
	}
	_ = closer.Close()
	rec.mu.Lock()
	o.RawReads = append([]string(nil), rec.log...)
	o.readTimeout, o.readEOF = rec.timeouts > 0, rec.eofs > 0
	rec.mu.Unlock()
	o.sent = sent
	o.SentLen, o.DrainedLen = len(sent), len(o.drained)
	o.PongOK = bytes.Equal(pongGot, c06wPong)
	return o
}

func c06wFirstDiff(a, b []byte) int {
	n := min(len(a), len(b))
	for i := 0; i < n; i++ {
		if a[i] != b[i] {
			return i
		}
	}
	if len(a) != len(b) {
		return n
	}
	return -1
}

func TestVerifC06Wiring(t *testing.T) {
	m := vk.NewMonitor("C06", "wiring", "exploration",
		"seeded connections over real loopback TCP through the detection part of handleConn (prefetchForTcpSniff -> prefixedConn -> ConnSniffer.SniffTcp) and a drain of the conn the relay would get: "+
			"first bytes (crypto/tls ClientHello 1.2/1.3, HTTP/1 head, TLS/HTTP look-alikes, opaque) x first segment 1..40 bytes x what follows (everything queued before accept, rest soon, rest in pieces, rest only after the sniffing timeout, FIN) x drain; "+
			"distinct = (first bytes, schedule, first-segment class, path, outcome, drain); non-trivial = detection ran and the drain reached the client's FIN")
	m.SetFloor(40)
	m.Assume("the ~25 lines of handleConn between accept and dial (control/tcp.go:160-215) are re-implemented in the monitor because handleConn needs a loaded datapath; the negative sniff cache and the DNS fast path are not in the loop",
		"the Linux loopback TCP stack; a recording wrapper (embedding net.Conn) sits between the socket and prefetchForTcpSniff, so the relay's unwrap-to-*net.TCPConn fast paths are not taken here (C05 covers them)",
		"recognition is demanded only for ClientHellos / one-read heads that were completely queued on the socket before dae's first read; for every other schedule only 'no other name' and byte preservation are judged")
	r := vk.NewRand(0xC06C0)
	names := []string{"example.com", "a.b-c.example.org", "xn--bcher-kva.example", "WWW.Example.COM", "c06-wiring.test", "x.io",
		strings.Repeat("a", 63) + "." + strings.Repeat("b", 63) + ".example"}
	type src struct {
		proto, name string
		head        []byte
	}
	var tlsSrc, httpSrc, otherSrc []src
	for i, n := range names {
		for _, v := range []uint16{tls.VersionTLS12, tls.VersionTLS13} {
			if h := c06wHello(strings.ToLower(n), v); h != nil {
				tlsSrc = append(tlsSrc, src{"tls", strings.ToLower(n), h})
			}
		}
		meth := []string{"GET", "POST", "HEAD", "PUT"}[i%4]
		body := ""
		hdr := ""
		if meth == "POST" || meth == "PUT" {
			body = strings.Repeat("b", 10+r.IntN(200))
			hdr = fmt.Sprintf("Content-Length: %d\r\n", len(body))
		}
		httpSrc = append(httpSrc, src{"http", n, []byte(fmt.Sprintf("%s /c06/%d?q=%d HTTP/1.1\r\nHost: %s\r\nUser-Agent: verif\r\n%sAccept: */*\r\n\r\n%s", meth, i, r.IntN(1000), n, hdr, body))})
	}
	if len(tlsSrc) == 0 {
		m.Inconclusive("could not capture TLS ClientHello samples")
		m.Done(t)
		return
	}
	rb := func(n int) []byte {
		b := make([]byte, n)
		for i := range b {
			b[i] = byte(r.IntN(256))
		}
		return b
	}
	for i := 0; i < 6; i++ {
		g := rb(60 + r.IntN(400))
		otherSrc = append(otherSrc, src{"tls-lookalike", "", append([]byte{0x16, 0x03, 0x01, byte(1 + r.IntN(0x3f)), byte(r.IntN(256)), 0x01}, g...)})
		l := rb(40 + r.IntN(200))
		for j := range l {
			l[j] = 'a' + l[j]%26
		}
		otherSrc = append(otherSrc, src{"http-lookalike", "", append([]byte("GET "), l...)})
		o := rb(20 + r.IntN(300))
		o[0] |= 0x80
		otherSrc = append(otherSrc, src{"opaque", "", o})
	}
	schedules := []string{"whole-before-accept", "rest-soon", "rest-in-pieces", "rest-after-timeout", "fin-after-first-segment"}
	firsts := []int{1, 2, 3, 5, 6, 11, 15, 16, 17, 40}
	var cases []*c06wCase
	add := func(s src, sched string, k int) {
		c := &c06wCase{ID: len(cases) + 1, Proto: s.proto, Carried: s.name, Schedule: sched, FirstSeg: k,
			Drain: c06wDrains[r.IntN(len(c06wDrains))], head: s.head, HeadLen: len(s.head)}
		if sched != "fin-after-first-segment" && r.IntN(4) != 0 {
			c.tail = rb(1 + r.IntN(3000))
		}
		c.TailLen = len(c.tail)
		cases = append(cases, c)
	}
	n := vk.Scale(260, 4000)
	for i := 0; i < n; i++ {
		var s src
		switch x := i % 8; {
		case x < 3:
			s = tlsSrc[r.IntN(len(tlsSrc))]
		case x < 6:
			s = httpSrc[r.IntN(len(httpSrc))]
		default:
			s = otherSrc[r.IntN(len(otherSrc))]
		}
		add(s, schedules[(i/8)%len(schedules)], firsts[r.IntN(len(firsts))])
	}

	var violMu sync.Mutex
	seen := map[string]int{}
	viol := func(sig, what string, c *c06wCase, o *c06wObs) {
		violMu.Lock()
		seen[sig]++
		first := seen[sig] == 1
		violMu.Unlock()
		if first {
			m.Violation(sig, what, map[string]any{"case": c, "observed": o,
				"client_sent_head_hex": fmt.Sprintf("%x", o.sent[:min(len(o.sent), 48)]), "drained_head_hex": fmt.Sprintf("%x", o.drained[:min(len(o.drained), 48)])})
		}
	}
	judge := func(c *c06wCase, o *c06wObs) (retryRecognition bool) {
		m.Eval(1)
		if o.infra != nil {
			m.Count("harness_error_unjudged", 1)
			return false
		}
		kcls := "<=16"
		if c.Schedule == "whole-before-accept" {
			kcls = "all"
		} else if c.FirstSeg > 16 {
			kcls = ">16"
		}
		tag := c.Proto + "/" + c.Schedule
		if o.Outcome == "panic" {
			viol("panic/wiring/"+tag, o.SniffErr, c, o)
			return false
		}
		if o.Stuck != "" {
			m.Inconclusive("wiring case %d (%s, drain %s) stuck in phase %s", c.ID, tag, c.Drain, o.Stuck)
			return false
		}
		m.Count("path_"+o.Path, 1)
		m.Count("schedule_"+c.Schedule, 1)
		m.Count("first_bytes_"+c.Proto, 1)
		if o.Path == "sniffer" {
			m.Count("outcome_"+o.Outcome, 1)
			if o.readTimeout {
				m.Count("sniffer_read_after_prefix_hit_deadline", 1)
			}
			if o.readEOF {
				m.Count("sniffer_read_after_prefix_hit_eof", 1)
			}
			if o.Prefetched < tcpSniffPrefetchBytes {
				m.Count("sniffer_behind_short_prefix", 1)
			}
		}
		if o.Fatal {
			// the client did nothing a client may not do (slow, or half-closed early)
			viol("unusable/detection-error-ends-connection/"+tag, fmt.Sprintf("handleConn would return %q and drop the connection", o.SniffErr), c, o)
			return false
		}
		// name
		if o.Name != "" && !c06wSameName(o.Name, c.Carried) {
			if c.Carried == "" {
				viol("name-from-nothing/wiring/"+tag, fmt.Sprintf("reported %q but the input carries no host name", o.Name), c, o)
			} else {
				viol("wrong-name/wiring/"+tag, fmt.Sprintf("reported %q, carried %q", o.Name, c.Carried), c, o)
			}
		} else if o.Name != "" {
			m.Count("name_equal_"+c.Proto, 1)
		}
		// bytes
		if d := c06wFirstDiff(o.drained, o.sent); d >= 0 || o.DrainErr != "" {
			o.FirstDiffAt = d
			switch {
			case d >= 0:
				where := "body"
				if d < tcpSniffPrefetchBytes {
					where = "prefetched-prefix"
				}
				viol(fmt.Sprintf("bytes/wiring/%s/%s/%s/%s", o.Path, c.Schedule, c06wDrainClass(c.Drain), where),
					fmt.Sprintf("the relay would get %d bytes, the client sent %d; first difference at offset %d (outcome %s)", len(o.drained), len(o.sent), d, o.Outcome), c, o)
			default:
				viol(fmt.Sprintf("unusable/wiring/%s/%s/%s", o.Path, c.Schedule, c06wDrainClass(c.Drain)),
					fmt.Sprintf("after detection (outcome %s) the connection could not be used: %s", o.Outcome, o.DrainErr), c, o)
			}
			return false
		}
		m.Count("bytes_equal", 1)
		m.Count("bytes_equal_drain_"+c.Drain, 1)
		if !o.PongOK {
			viol("unusable/wiring/pong-lost/"+tag, "bytes written by dae after detection did not reach the client", c, o)
			return false
		}
		if len(c.tail) > 0 {
			m.Count("tail_after_deadline_delivered", 1)
		}
		m.Distinct(strings.Join([]string{c.Proto, c.Schedule, kcls, o.Path, o.Outcome, c.Drain}, "|"))
		if m.WantSample() {
			m.Sample(map[string]any{"case": c, "observed": o})
		}
		// recognition: only when nothing depended on timing
		if c.Schedule == "whole-before-accept" && c.Carried != "" && o.Path == "sniffer" && o.Name == "" {
			return true
		}
		if c.Schedule == "whole-before-accept" && c.Carried != "" && o.Name != "" {
			m.Count("recognised_whole_"+c.Proto, 1)
		}
		return false
	}

	sem := make(chan struct{}, 24)
	var wg sync.WaitGroup
	for _, c := range cases {
		sem <- struct{}{}
		wg.Add(1)
		go func() {
			defer wg.Done()
			defer func() { <-sem }()
			o := c06wRun(c)
			if !judge(c, &o) {
				return
			}
			// a head that was completely queued was not recognised: believed only if it repeats twice more
			for i := 0; i < 2; i++ {
				m.Count("recognition_miss_rerun", 1)
				o2 := c06wRun(c)
				if o2.infra != nil || o2.Stuck != "" || o2.Path != "sniffer" || o2.Name != "" {
					m.Count("recognition_miss_not_repeated", 1)
					return
				}
				o = o2
			}
			viol("not-recognised/wiring/"+c.Proto+"/"+o.Outcome, fmt.Sprintf("well-formed %s input carrying %q was completely queued on the socket before dae read it, yet sniffing behind the prefetch wrapper answered %s (three times)", c.Proto, c.Carried, o.Outcome), c, &o)
		}()
	}
	wg.Wait()
	if len(seen) > 0 {
		m.Set("failure_signature_counts", seen)
	}
	m.Require("path_sniffer", "path_prefixed-only", "bytes_equal", "tail_after_deadline_delivered",
		"schedule_whole-before-accept", "schedule_rest-soon", "schedule_rest-in-pieces", "schedule_rest-after-timeout", "schedule_fin-after-first-segment",
		"sniffer_read_after_prefix_hit_deadline", "sniffer_read_after_prefix_hit_eof", "sniffer_behind_short_prefix",
		"recognised_whole_tls", "recognised_whole_http", "outcome_found",
		"bytes_equal_drain_read", "bytes_equal_drain_read-small", "bytes_equal_drain_writeto", "bytes_equal_drain_prefix+read", "bytes_equal_drain_segments+remainder")
	m.Done(t)
}

func c06wDrainClass(d string) string {
	switch d {
	case "read", "read-small", "prefix+read":
		return "Read"
	case "writeto":
		return "WriteTo"
	}
	return "direct"
}
