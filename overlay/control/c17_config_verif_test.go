package control

// C17 monitor: configuration text becomes exactly the configuration it spells,
// or a clean error.
//
//   parent  : generates inputs (grammar-directed texts with their AST, semantic
//             reject-mutants, token-level near-misses, arbitrary bytes, stress
//             shapes, size-ladder programs, include trees on disk), hands them
//             in batches to CHILD processes (re-exec of this test binary) and
//             judges the children's observations with oracles written from the
//             grammar / documentation.
//   child   : runs dae's production front end on every input:
//             config_parser.Parse -> config.New -> routing.NewNormalizedProgram
//             -> NewRoutingMatcherBuilderFromProgram -> BuildUserspace and
//             dns.New (request + response matcher builders), or Merger.Merge for
//             include trees. The id of the input being processed is on disk
//             before the call, so a crash or hang is attributed to its input.

import (
	"bufio"
	"bytes"
	"encoding/base64"
	"encoding/json"
	"fmt"
	"io"
	"os"
	"os/exec"
	"path/filepath"
	"regexp"
	"runtime"
	"runtime/debug"
	"sort"
	"strconv"
	"strings"
	"sync"
	"sync/atomic"
	"syscall"
	"testing"
	"time"
	"unicode/utf8"

	"github.com/daeuniverse/dae/common/assets"
	"github.com/daeuniverse/dae/common/consts"
	"github.com/daeuniverse/dae/component/dns"
	"github.com/daeuniverse/dae/component/routing"
	"github.com/daeuniverse/dae/config"
	"github.com/daeuniverse/dae/pkg/config_parser"
	vk "github.com/daeuniverse/dae/verifkit"
	"github.com/sirupsen/logrus"
)

const (
	c17EnvChild    = "VERIF_C17_CHILD"
	c17HangSeconds = 30 // generous (other builds load the machine) per-input bound; the property covers "never crashes", a hang is judged only if reproducible alone
	c17ExitHang    = 98
)

// ---- job protocol -------------------------------------------------------------

type c17In struct {
	ID    int    `json:"id"`
	Text  string `json:"text,omitempty"` // base64 (arbitrary bytes)
	Build bool   `json:"build,omitempty"`
	Typed bool   `json:"typed,omitempty"`
	// class spell: destination ports (TCP/IPv4 packets) routed through the userspace matcher built from the typed configuration
	Probes []int `json:"probes,omitempty"`
	Entry string `json:"entry,omitempty"` // include tree: path of the entry file (Text unused)
	// include tree: files whose opens/reads are observed with inotify while Merge runs, and FIFOs
	// (all of them forbidden to the merger) that are probed for a reader while Merge runs
	Watch []string `json:"watch,omitempty"`
	Fifos []string `json:"fifos,omitempty"`
}

type c17Job struct {
	Inputs []c17In `json:"inputs"`
	Out    string  `json:"out"`
	Cur    string  `json:"cur"`
}

type c17Stage struct {
	St   string `json:"st"` // "", ok, err, panic
	Msg  string `json:"msg,omitempty"`
	Site string `json:"site,omitempty"`
}

type c17Out struct {
	ID      int               `json:"id"`
	Parse   c17Stage          `json:"parse"`
	Dump    string            `json:"dump,omitempty"`
	New     c17Stage          `json:"new"`
	Routing c17Stage          `json:"routing"`
	Dns     c17Stage          `json:"dns"`
	NSets   int               `json:"nsets,omitempty"`
	Typed   map[string]string `json:"typed,omitempty"`
	Probed  []string          `json:"probed,omitempty"` // per probe: "<outbound name>|<mark>|<must>" or "err:<message>"
	Merge   c17Stage          `json:"merge"`
	Secs    map[string]string `json:"secs,omitempty"` // include tree: section name -> dump of merged items
	Entries []string          `json:"entries,omitempty"`
	// include tree, file-access observation (see c17FileWatch)
	Opened      []string `json:"opened,omitempty"`       // watched files that were opened while Merge ran
	Accessed    []string `json:"accessed,omitempty"`     // watched files (and FIFOs) bytes were read from while Merge ran
	FifoReaders []string `json:"fifo_readers,omitempty"` // FIFOs somebody held / was opening for reading while Merge ran
	ErrMarks    []string `json:"err_marks,omitempty"`    // decoy markers found in the FULL text of Merge's error
	WatchErr    string   `json:"watch_err,omitempty"`    // the observation could not be set up
	Ms          int64    `json:"ms"`
	Us          int64    `json:"us"`
	// set by the parent when the child died / hung on this input
	Crash string `json:"crash,omitempty"`
	Hang  bool   `json:"hang,omitempty"`
}

// ---- child side: observe dae ------------------------------------------------------

func c17MsgClass(msg string) string {
	switch {
	case strings.Contains(msg, "nil pointer"):
		return "nil-deref"
	case strings.Contains(msg, "index out of range"):
		return "index-out-of-range"
	case strings.Contains(msg, "slice bounds"):
		return "slice-bounds"
	case strings.Contains(msg, "interface conversion"):
		return "interface-conversion"
	case strings.Contains(msg, "stack overflow"):
		return "stack-overflow"
	case strings.Contains(msg, "out of memory"):
		return "out-of-memory"
	}
	msg = regexp.MustCompile(`[^A-Za-z ]+`).ReplaceAllString(msg, "")
	msg = strings.Join(strings.Fields(msg), "-")
	if len(msg) > 40 {
		msg = msg[:40]
	}
	return msg
}

func c17ShortFunc(fn string) string {
	fn = strings.TrimPrefix(fn, "github.com/daeuniverse/dae/")
	fn = strings.TrimPrefix(fn, "github.com/")
	return fn
}

// c17PanicSite is called from a deferred function while panicking: the first
// frame below the runtime's panic machinery, plus the first dae frame if the
// panic was raised inside a library.
func c17PanicSite() string {
	pcs := make([]uintptr, 64)
	n := runtime.Callers(2, pcs)
	frames := runtime.CallersFrames(pcs[:n])
	seenPanic := false
	first, firstDae := "", ""
	for {
		f, more := frames.Next()
		fn := f.Function
		if strings.HasPrefix(fn, "runtime.") {
			if fn == "runtime.gopanic" || fn == "runtime.sigpanic" || strings.HasPrefix(fn, "runtime.panic") || strings.HasPrefix(fn, "runtime.goPanic") {
				seenPanic = true
			}
		} else if seenPanic && !strings.Contains(fn, "c17") {
			if first == "" {
				first = fn
			}
			if firstDae == "" && strings.Contains(fn, "daeuniverse/dae/") {
				firstDae = fn
			}
		}
		if !more || (first != "" && firstDae != "") {
			break
		}
	}
	if first == "" {
		return "unknown"
	}
	if firstDae != "" && firstDae != first {
		return c17ShortFunc(first) + "<-" + c17ShortFunc(firstDae)
	}
	return c17ShortFunc(first)
}

func c17Guard(f func() error) (st c17Stage) {
	defer func() {
		if r := recover(); r != nil {
			st = c17Stage{St: "panic", Msg: fmt.Sprint(r), Site: c17PanicSite()}
		}
	}()
	if err := f(); err != nil {
		msg := err.Error()
		if len(msg) > 300 {
			msg = msg[:300]
		}
		return c17Stage{St: "err", Msg: msg}
	}
	return c17Stage{St: "ok"}
}

// -- canonical dump of dae's parse result (same format as verifkit.CDoc.Dump)

func c17DumpParams(ps []*config_parser.Param) string {
	var l []string
	for _, p := range ps {
		if p == nil {
			l = append(l, "<nil>")
			continue
		}
		s := strconv.Quote(p.Key) + "=" + strconv.Quote(p.Val)
		if p.AndFunctions != nil || p.Annotation != nil {
			s += "<unexpected-nested>"
		}
		l = append(l, s)
	}
	return strings.Join(l, ",")
}

func c17DumpFn(f *config_parser.Function) string {
	if f == nil {
		return "<nil>"
	}
	s := ""
	if f.Not {
		s = "!"
	}
	return s + strconv.Quote(f.Name) + "(" + c17DumpParams(f.Params) + ")"
}

func c17DumpFns(fs []*config_parser.Function) string {
	var l []string
	for _, f := range fs {
		l = append(l, c17DumpFn(f))
	}
	return strings.Join(l, " && ")
}

func c17DumpItem(sb *strings.Builder, it *config_parser.Item, ind int) {
	pad := strings.Repeat(" ", ind)
	if it == nil {
		sb.WriteString(pad + "<nil item>\n")
		return
	}
	switch v := it.Value.(type) {
	case *config_parser.RoutingRule:
		if it.Type != config_parser.ItemType_RoutingRule {
			sb.WriteString(pad + "<type tag mismatch>\n")
		}
		sb.WriteString(pad + "R " + c17DumpFns(v.AndFunctions) + " -> " + c17DumpFn(&v.Outbound) + "\n")
	case *config_parser.Param:
		if it.Type != config_parser.ItemType_Param {
			sb.WriteString(pad + "<type tag mismatch>\n")
		}
		anno := ""
		if len(v.Annotation) > 0 {
			anno = " [" + c17DumpParams(v.Annotation) + "]"
		}
		switch {
		case v.AndFunctions != nil:
			sb.WriteString(pad + "F " + strconv.Quote(v.Key) + " = " + c17DumpFns(v.AndFunctions) + anno + "\n")
		case v.Key == "":
			sb.WriteString(pad + "L " + strconv.Quote(v.Val) + anno + "\n")
		default:
			sb.WriteString(pad + "D " + strconv.Quote(v.Key) + " = " + strconv.Quote(v.Val) + anno + "\n")
		}
	case *config_parser.Section:
		if it.Type != config_parser.ItemType_Section {
			sb.WriteString(pad + "<type tag mismatch>\n")
		}
		c17DumpSection(sb, v, ind)
	default:
		fmt.Fprintf(sb, "%s<unknown item %T>\n", pad, it.Value)
	}
}

func c17DumpSection(sb *strings.Builder, s *config_parser.Section, ind int) {
	pad := strings.Repeat(" ", ind)
	if s == nil {
		sb.WriteString(pad + "<nil section>\n")
		return
	}
	sb.WriteString(pad + "S " + strconv.Quote(s.Name) + " {\n")
	for _, it := range s.Items {
		c17DumpItem(sb, it, ind+1)
	}
	sb.WriteString(pad + "}\n")
}

func c17DumpSections(secs []*config_parser.Section) string {
	var sb strings.Builder
	for _, s := range secs {
		c17DumpSection(&sb, s, 0)
	}
	return sb.String()
}

var c17Finder = assets.NewLocationFinder(nil)

func c17TypedView(conf *config.Config) map[string]string {
	g := conf.Global
	m := map[string]string{
		"tproxy_port":                  strconv.Itoa(int(g.TproxyPort)),
		"tproxy_port_protect":          strconv.FormatBool(g.TproxyPortProtect),
		"pprof_port":                   strconv.Itoa(int(g.PprofPort)),
		"so_mark_from_dae":             strconv.FormatUint(uint64(g.SoMarkFromDae), 10),
		"so_mark_from_dae_set":         strconv.FormatBool(g.SoMarkFromDaeSet),
		"log_level":                    g.LogLevel,
		"disable_waiting_network":      strconv.FormatBool(g.DisableWaitingNetwork),
		"disable_thp":                  strconv.FormatBool(g.DisableTHP),
		"lan_interface":                strings.Join(g.LanInterface, "\x1f"),
		"wan_interface":                strings.Join(g.WanInterface, "\x1f"),
		"auto_config_kernel_parameter": strconv.FormatBool(g.AutoConfigKernelParameter),
		"tcp_check_url":                strings.Join(g.TcpCheckUrl, "\x1f"),
		"tcp_check_http_method":        g.TcpCheckHttpMethod,
		"udp_check_dns":                strings.Join(g.UdpCheckDns, "\x1f"),
		"check_interval":               g.CheckInterval.String(),
		"check_tolerance":              g.CheckTolerance.String(),
		"dial_mode":                    g.DialMode,
		"allow_insecure":               strconv.FormatBool(g.AllowInsecure),
		"sniffing_timeout":             g.SniffingTimeout.String(),
		"tls_implementation":           g.TlsImplementation,
		"utls_imitate":                 g.UtlsImitate,
		"tls_fragment":                 strconv.FormatBool(g.TlsFragment),
		"tls_fragment_length":          g.TlsFragmentLength,
		"tls_fragment_interval":        g.TlsFragmentInterval,
		"mptcp":                        strconv.FormatBool(g.Mptcp),
		"bandwidth_max_tx":             g.BandwidthMaxTx,
		"bandwidth_max_rx":             g.BandwidthMaxRx,
		"fallback_resolver":            g.FallbackResolver,
	}
	var l []string
	for _, n := range conf.Node {
		l = append(l, string(n))
	}
	m["#node"] = strings.Join(l, "\x1f")
	l = nil
	for _, n := range conf.Subscription {
		l = append(l, string(n))
	}
	m["#subscription"] = strings.Join(l, "\x1f")
	l = nil
	for _, g := range conf.Group {
		l = append(l, g.Name)
	}
	m["#groups"] = strings.Join(l, "\x1f")
	l = nil
	for _, u := range conf.Dns.Upstream {
		l = append(l, string(u))
	}
	m["#upstream"] = strings.Join(l, "\x1f")
	m["#nrules"] = strconv.Itoa(len(conf.Routing.Rules))
	if f, err := config.ParseFunctionOrString(conf.Routing.Fallback); err == nil && f != nil {
		m["#fallback"] = f.Name
		m["#fallback_out"] = c17OutView(f)
	} else {
		m["#fallback"] = "<invalid>"
		m["#fallback_out"] = "<invalid>"
	}
	// the routing rules as the typed configuration carries them (after config.New's patch stage, before any optimiser)
	var conds, outs []string
	for _, rule := range conf.Routing.Rules {
		if rule == nil {
			conds, outs = append(conds, "<nil>"), append(outs, "<nil>")
			continue
		}
		conds = append(conds, c17DumpFns(rule.AndFunctions))
		outs = append(outs, c17OutView(&rule.Outbound))
	}
	m["#rule_conds"] = strings.Join(conds, "\n")
	m["#rule_outs"] = strings.Join(outs, "\n")
	m["bootstrap_resolver"] = g.BootstrapResolver
	fos := func(v config.FunctionOrString) string {
		if v == nil {
			return "<unset>"
		}
		f, err := config.ParseFunctionOrString(v)
		if err != nil || f == nil {
			return "<invalid>"
		}
		return c17DumpFn(f)
	}
	m["#dns_req_fallback"] = fos(conf.Dns.Routing.Request.Fallback)
	m["#dns_resp_fallback"] = fos(conf.Dns.Routing.Response.Fallback)
	return m
}

// c17OutView renders one outbound of the typed configuration as (name, must
// flag, every other parameter in order): the documentation does not say where
// the `must` of a `must_x` spelling sits among the parameters.
func c17OutView(f *config_parser.Function) string {
	if f == nil {
		return "<nil>"
	}
	must := false
	var rest []*config_parser.Param
	for _, p := range f.Params {
		if p != nil && p.Key == "" && p.Val == "must" && p.AndFunctions == nil {
			must = true
			continue
		}
		rest = append(rest, p)
	}
	s := ""
	if f.Not {
		s = "!"
	}
	return s + strconv.Quote(f.Name) + " must=" + strconv.FormatBool(must) + " (" + c17DumpParams(rest) + ")"
}

func c17ObserveText(in c17In, text string) (o c17Out) {
	o.ID = in.ID
	var sections []*config_parser.Section
	o.Parse = c17Guard(func() (err error) {
		sections, err = config_parser.Parse(text)
		return err
	})
	if o.Parse.St != "ok" {
		return
	}
	o.Dump = c17DumpSections(sections)
	var conf *config.Config
	o.New = c17Guard(func() (err error) {
		conf, err = config.New(sections)
		return err
	})
	if o.New.St != "ok" || conf == nil {
		return
	}
	if in.Typed {
		o.Typed = c17TypedView(conf)
	}
	if !in.Build {
		return
	}
	log := verifQuietLog()
	o.Routing = c17Guard(func() error {
		// outbound table as in newControlPlane: direct, block, then the groups in order
		name2id := map[string]uint8{"direct": uint8(consts.OutboundDirect), "block": uint8(consts.OutboundBlock)}
		for i, g := range conf.Group {
			if _, dup := name2id[g.Name]; dup {
				return fmt.Errorf("duplicated outbound name: %v", g.Name)
			}
			if i+2 > int(consts.OutboundUserDefinedMax) {
				return fmt.Errorf("too many outbounds")
			}
			name2id[g.Name] = uint8(consts.OutboundUserDefinedMin) + uint8(i)
		}
		prog, err := routing.NewNormalizedProgram(conf.Routing.Rules, conf.Routing.Fallback,
			&routing.AliasOptimizer{},
			&routing.DatReaderOptimizer{Logger: log, LocationFinder: c17Finder},
			&routing.MergeAndSortRulesOptimizer{},
			&routing.DeduplicateParamsOptimizer{},
		)
		if err != nil {
			return err
		}
		b, err := NewRoutingMatcherBuilderFromProgram(log, prog, name2id, nil)
		if err != nil {
			return err
		}
		o.NSets = len(b.rules)
		_ = b.KernspaceSnapshot()
		matcher, err := b.BuildUserspace()
		if err != nil || len(in.Probes) == 0 {
			return err
		}
		// second observation: what the compiled program does with a TCP/IPv4 packet to each probe port
		id2name := map[uint8]string{}
		for n, id := range name2id {
			id2name[id] = n
		}
		var src, dst, mac [16]uint8
		copy(src[10:], []byte{0xff, 0xff, 10, 0, 0, 1})
		copy(dst[10:], []byte{0xff, 0xff, 203, 0, 113, 9})
		for _, port := range in.Probes {
			ob, mark, must, merr := matcher.Match(src, dst, 40000, uint16(port), consts.IpVersion_4, consts.L4ProtoType_TCP, "", [16]uint8{}, 0, mac)
			if merr != nil {
				o.Probed = append(o.Probed, "err:"+merr.Error())
				continue
			}
			name, ok := id2name[uint8(ob)]
			if !ok {
				name = fmt.Sprintf("<outbound id %d>", uint8(ob))
			}
			o.Probed = append(o.Probed, fmt.Sprintf("%s|%d|%v", name, mark, must))
		}
		return nil
	})
	o.Dns = c17Guard(func() error {
		_, err := dns.New(&conf.Dns, &dns.NewOption{
			Logger:                  log,
			LocationFinder:          c17Finder,
			UpstreamReadyCallback:   func(*dns.Upstream) error { return nil },
			UpstreamResolverNetwork: "udp",
		})
		if err != nil {
			return err
		}
		_, err = ParseFixedDomainTtl(conf.Dns.FixedDomainTtl)
		return err
	})
	return
}

// c17FileWatch observes file access by this process with inotify: IN_OPEN and
// IN_ACCESS on regular files, IN_ACCESS only on FIFOs (the monitor's own probe
// opens their write end). The kernel queues the events synchronously with the
// open/read, so everything Merge did is in the queue when Merge has returned.
type c17FileWatch struct {
	fd  int
	wds map[int32]string
}

func c17WatchStart(files, fifos []string) (*c17FileWatch, error) {
	fd, err := syscall.InotifyInit1(syscall.IN_NONBLOCK | syscall.IN_CLOEXEC)
	if err != nil {
		return nil, fmt.Errorf("inotify_init1: %w", err)
	}
	w := &c17FileWatch{fd: fd, wds: map[int32]string{}}
	add := func(p string, mask uint32) error {
		wd, err := syscall.InotifyAddWatch(fd, p, mask|syscall.IN_DONT_FOLLOW)
		if err != nil {
			return fmt.Errorf("inotify_add_watch %s: %w", p, err)
		}
		w.wds[int32(wd)] = p
		return nil
	}
	for _, p := range files {
		if err = add(p, syscall.IN_OPEN|syscall.IN_ACCESS); err != nil {
			syscall.Close(fd)
			return nil, err
		}
	}
	for _, p := range fifos {
		if err = add(p, syscall.IN_ACCESS); err != nil {
			syscall.Close(fd)
			return nil, err
		}
	}
	return w, nil
}

// finish drains the queue and releases the instance.
func (w *c17FileWatch) finish() (opened, accessed []string, err error) {
	defer syscall.Close(w.fd)
	op, ac := map[string]bool{}, map[string]bool{}
	buf := make([]byte, 64<<10)
	for {
		n, rerr := syscall.Read(w.fd, buf)
		if rerr == syscall.EINTR {
			continue
		}
		if rerr == syscall.EAGAIN || n == 0 {
			break
		}
		if rerr != nil {
			return nil, nil, fmt.Errorf("inotify read: %w", rerr)
		}
		for off := 0; off+syscall.SizeofInotifyEvent <= n; {
			wd := int32(uint32(buf[off]) | uint32(buf[off+1])<<8 | uint32(buf[off+2])<<16 | uint32(buf[off+3])<<24)
			mask := uint32(buf[off+4]) | uint32(buf[off+5])<<8 | uint32(buf[off+6])<<16 | uint32(buf[off+7])<<24
			nameLen := int(uint32(buf[off+12]) | uint32(buf[off+13])<<8 | uint32(buf[off+14])<<16 | uint32(buf[off+15])<<24)
			off += syscall.SizeofInotifyEvent + nameLen
			if mask&syscall.IN_Q_OVERFLOW != 0 {
				return nil, nil, fmt.Errorf("inotify queue overflow")
			}
			p, known := w.wds[wd]
			if !known {
				continue
			}
			if mask&syscall.IN_OPEN != 0 {
				op[p] = true
			}
			if mask&syscall.IN_ACCESS != 0 {
				ac[p] = true
			}
		}
	}
	for p := range op {
		opened = append(opened, p)
	}
	for p := range ac {
		accessed = append(accessed, p)
	}
	sort.Strings(opened)
	sort.Strings(accessed)
	return opened, accessed, nil
}

var c17MarkRe = regexp.MustCompile(`DECOY-[a-z0-9]+`)

// c17FifoText is what the monitor feeds a FIFO once somebody opens its read end.
func c17FifoText(path string) string {
	tag := strings.TrimSuffix(filepath.Base(path), filepath.Ext(path))
	tag = regexp.MustCompile(`[^a-z0-9]+`).ReplaceAllString(strings.ToLower(tag), "")
	return fmt.Sprintf("DECOY-fifo%s { { { 'DECOY-fifo%s\n", tag, tag)
}

func c17ObserveTree(in c17In) (o c17Out) {
	o.ID = in.ID
	var watch *c17FileWatch
	if len(in.Watch)+len(in.Fifos) > 0 {
		var werr error
		if watch, werr = c17WatchStart(in.Watch, in.Fifos); werr != nil {
			o.WatchErr = werr.Error()
		}
	}
	fullErr := ""
	run := func() c17Stage {
		return c17Guard(func() error {
			sections, entries, err := config.NewMerger(in.Entry).Merge()
			if err != nil {
				fullErr = err.Error()
				return err
			}
			o.Entries = entries
			// production sequence (cmd/run.go readConfig): Merge, then config.New on the merged sections
			o.New = c17Guard(func() error {
				_, err := config.New(sections)
				return err
			})
			o.Secs = map[string]string{}
			for _, s := range sections {
				var sb strings.Builder
				if _, dup := o.Secs[s.Name]; dup {
					sb.WriteString("<duplicate section in merged result>\n")
				}
				for _, it := range s.Items {
					c17DumpItem(&sb, it, 0)
				}
				o.Secs[s.Name] += sb.String()
			}
			return nil
		})
	}
	if len(in.Fifos) == 0 {
		o.Merge = run()
	} else {
		// Opening a FIFO for reading blocks until a writer shows up, so Merge runs beside a prober.
		// The probe is structural, not timed: open(O_WRONLY|O_NONBLOCK) fails with ENXIO exactly while
		// nobody holds (or is blocked opening) the read end. A reader found is recorded, fed a marker
		// line and an EOF, so that a merger which opened the FIFO finishes instead of hanging.
		done := make(chan c17Stage, 1)
		go func() { done <- run() }()
		fed := map[string]bool{}
	probe:
		for {
			select {
			case st := <-done:
				o.Merge = st
				break probe
			default:
			}
			for _, p := range in.Fifos {
				if fed[p] {
					continue
				}
				fd, err := syscall.Open(p, syscall.O_WRONLY|syscall.O_NONBLOCK|syscall.O_CLOEXEC, 0)
				if err != nil {
					continue
				}
				fed[p] = true
				o.FifoReaders = append(o.FifoReaders, p)
				_, _ = syscall.Write(fd, []byte(c17FifoText(p)))
				syscall.Close(fd)
			}
			time.Sleep(100 * time.Microsecond)
		}
	}
	if watch != nil {
		var err error
		if o.Opened, o.Accessed, err = watch.finish(); err != nil {
			o.WatchErr = err.Error()
		}
	}
	seen := map[string]bool{}
	for _, mk := range c17MarkRe.FindAllString(fullErr, -1) {
		if !seen[mk] {
			seen[mk] = true
			o.ErrMarks = append(o.ErrMarks, mk)
		}
	}
	return
}

// c17CPUMicros: CPU time consumed by this process (user+sys), load independent.
func c17CPUMicros() int64 {
	var ru syscall.Rusage
	if syscall.Getrusage(syscall.RUSAGE_SELF, &ru) != nil {
		return 0
	}
	return (ru.Utime.Sec+ru.Stime.Sec)*1e6 + int64(ru.Utime.Usec+ru.Stime.Usec)
}

func c17ChildMain(jobPath string) {
	logrus.SetOutput(io.Discard)
	debug.SetMaxStack(256 << 20) // fail fast on runaway recursion instead of eating 1 GiB
	b, err := os.ReadFile(jobPath)
	if err != nil {
		fmt.Fprintln(os.Stderr, "C17-CHILD cannot read job:", err)
		os.Exit(3)
	}
	var job c17Job
	if err = json.Unmarshal(b, &job); err != nil {
		fmt.Fprintln(os.Stderr, "C17-CHILD bad job:", err)
		os.Exit(3)
	}
	out, err := os.Create(job.Out)
	if err != nil {
		fmt.Fprintln(os.Stderr, "C17-CHILD cannot create out:", err)
		os.Exit(3)
	}
	w := bufio.NewWriter(out)
	curF, err := os.Create(job.Cur)
	if err != nil {
		fmt.Fprintln(os.Stderr, "C17-CHILD cannot create cur:", err)
		os.Exit(3)
	}
	var startedNs atomic.Int64
	var curID atomic.Int64
	go func() { // watchdog
		for {
			time.Sleep(200 * time.Millisecond)
			s := startedNs.Load()
			if s != 0 && time.Since(time.Unix(0, s)) > c17HangSeconds*time.Second {
				fmt.Fprintf(os.Stderr, "C17-HANG id=%d\n", curID.Load())
				buf := make([]byte, 1<<20)
				n := runtime.Stack(buf, true)
				os.Stderr.Write(buf[:n])
				os.Exit(c17ExitHang)
			}
		}
	}()
	for _, in := range job.Inputs {
		// the input (job file) and the id of the one being processed are on disk before the call
		// (fixed-width overwrite of an open file: creating a file per input costs milliseconds here)
		if _, err = curF.WriteAt([]byte(fmt.Sprintf("%-12d", in.ID)), 0); err != nil {
			fmt.Fprintln(os.Stderr, "C17-CHILD cannot write cur:", err)
			os.Exit(3)
		}
		curID.Store(int64(in.ID))
		t0 := time.Now()
		cpu0 := c17CPUMicros()
		startedNs.Store(t0.UnixNano())
		var o c17Out
		if in.Entry != "" {
			o = c17ObserveTree(in)
		} else {
			raw, derr := base64.StdEncoding.DecodeString(in.Text)
			if derr != nil {
				fmt.Fprintln(os.Stderr, "C17-CHILD bad base64:", derr)
				os.Exit(3)
			}
			o = c17ObserveText(in, string(raw))
		}
		startedNs.Store(0)
		o.Ms = time.Since(t0).Milliseconds()
		o.Us = c17CPUMicros() - cpu0
		line, _ := json.Marshal(o)
		w.Write(line)
		w.WriteByte('\n')
		w.Flush()
	}
	_, _ = curF.WriteAt([]byte(fmt.Sprintf("%-12s", "done")), 0)
	curF.Close()
	out.Close()
	os.Exit(0)
}

// ---- parent side: run batches in children -----------------------------------------

type c17Runner struct {
	m       *vk.Monitor
	dir     string
	workers int
	batch   int
	seq     atomic.Int64
	strace  bool
}

var c17CrashSiteRe = regexp.MustCompile(`(?m)^([A-Za-z0-9_./*()\[\]{}\-·]+)\(.*\)$`)

// c17CrashSig extracts "<what>:<site>" from the stderr of a dead child.
func c17CrashSig(stderr string) (msg, site string) {
	msg = "unknown"
	idx := -1
	for _, pfx := range []string{"panic: ", "fatal error: "} {
		if i := strings.Index(stderr, pfx); i >= 0 && (idx < 0 || i < idx) {
			idx = i
			line := stderr[i+len(pfx):]
			if j := strings.IndexByte(line, '\n'); j >= 0 {
				line = line[:j]
			}
			msg = line
		}
	}
	if idx < 0 {
		return msg, "unknown"
	}
	rest := stderr[idx:]
	first, firstDae := "", ""
	for _, mm := range c17CrashSiteRe.FindAllStringSubmatch(rest, 400) {
		fn := mm[1]
		if strings.HasPrefix(fn, "runtime.") || strings.HasPrefix(fn, "panic") || strings.Contains(fn, "c17") || strings.HasPrefix(fn, "testing.") {
			continue
		}
		if first == "" {
			first = fn
		}
		if firstDae == "" && strings.Contains(fn, "daeuniverse/dae/") {
			firstDae = fn
			break
		}
	}
	switch {
	case first == "":
		return msg, "unknown"
	case strings.Contains(msg, "stack overflow") && firstDae != "":
		return msg, c17ShortFunc(firstDae) // the top frame of an overflowing stack is arbitrary
	case firstDae != "" && firstDae != first:
		return msg, c17ShortFunc(first) + "<-" + c17ShortFunc(firstDae)
	}
	return msg, c17ShortFunc(first)
}

// runBatch runs inputs sequentially in one child, restarting after a crash.
func (rn *c17Runner) runBatch(inputs []c17In) []c17Out {
	res := make([]c17Out, 0, len(inputs))
	byID := map[int]int{}
	for i, in := range inputs {
		byID[in.ID] = i
	}
	from, hangs := 0, 0
	for from < len(inputs) {
		n := rn.seq.Add(1)
		base := filepath.Join(rn.dir, fmt.Sprintf("job%06d", n))
		job := c17Job{Inputs: inputs[from:], Out: base + ".out", Cur: base + ".cur"}
		jb, _ := json.Marshal(job)
		if err := os.WriteFile(base+".json", jb, 0o644); err != nil {
			rn.m.Inconclusive("cannot write job file: %v", err)
			return res
		}
		args := []string{"-test.run", "^TestVerifC17$", "-test.count=1", "-test.timeout", "0"}
		var cmd *exec.Cmd
		if rn.strace {
			cmd = exec.Command("strace", append([]string{"-f", "-qq", "-e", "trace=open,openat", "-o", base + ".strace", os.Args[0]}, args...)...)
		} else {
			cmd = exec.Command(os.Args[0], args...)
		}
		// the front end is sequential: a small GOMAXPROCS keeps 8 children from fighting over the cores
		cmd.Env = append(os.Environ(), c17EnvChild+"="+base+".json", "GOMAXPROCS=2")
		var stderr bytes.Buffer
		cmd.Stderr = &stderr
		cmd.Stdout = io.Discard
		done := make(chan error, 1)
		if err := cmd.Start(); err != nil {
			rn.m.Inconclusive("cannot start child: %v", err)
			return res
		}
		go func() { done <- cmd.Wait() }()
		// backstop only: the child's own watchdog enforces the per-input bound
		backstop := time.Duration(len(job.Inputs))*c17HangSeconds*time.Second + 120*time.Second
		var werr error
		select {
		case werr = <-done:
		case <-time.After(backstop):
			_ = cmd.Process.Kill()
			<-done
			rn.m.Inconclusive("child exceeded backstop %v without tripping its own watchdog", backstop)
			return res
		}
		// collect what the child wrote
		got := 0
		if f, err := os.Open(job.Out); err == nil {
			sc := bufio.NewScanner(f)
			sc.Buffer(make([]byte, 1<<20), 256<<20)
			for sc.Scan() {
				var o c17Out
				if json.Unmarshal(sc.Bytes(), &o) == nil {
					res = append(res, o)
					got++
				}
			}
			f.Close()
		}
		cur, _ := os.ReadFile(job.Cur)
		cur = bytes.TrimSpace(cur)
		if werr == nil && string(cur) == "done" {
			from += got
			if !rn.strace {
				os.Remove(base + ".json")
				os.Remove(base + ".out")
				os.Remove(base + ".cur")
			}
			continue
		}
		// the child died: attribute to the input whose id is in the cur file
		id, cerr := strconv.Atoi(strings.TrimSpace(string(cur)))
		pos, known := byID[id]
		if cerr != nil || !known || pos != from+got {
			tail := stderr.String()
			if len(tail) > 600 {
				tail = tail[len(tail)-600:]
			}
			rn.m.Inconclusive("child died without attributable input (cur=%q, err=%v): %s", cur, werr, tail)
			return res
		}
		exit := -1
		if ee, ok := werr.(*exec.ExitError); ok {
			exit = ee.ExitCode()
		}
		o := c17Out{ID: id}
		se := stderr.String()
		if exit == c17ExitHang {
			o.Hang = true
			o.Crash = "hang"
			hangs++
		} else {
			msg, site := c17CrashSig(se)
			o.Crash = c17MsgClass(msg) + "@" + site
			if len(se) > 3000 {
				se = se[:3000]
			}
			o.Parse.Msg = se // keep the head of the crash report for the witness
		}
		res = append(res, o)
		from += got + 1
		if hangs >= 2 && from < len(inputs) {
			// every hang costs c17HangSeconds: after two in one batch the rest of the batch is not run
			rn.m.Count("inputs_skipped_after_two_hangs_in_batch", int64(len(inputs)-from))
			break
		}
	}
	return res
}

// run distributes inputs over parallel children; the result order equals the input order.
func (rn *c17Runner) run(inputs []c17In) map[int]c17Out {
	// few, large batches: starting a child costs ~1 s of CPU
	b := (len(inputs) + rn.workers*3 - 1) / (rn.workers * 3)
	if b < rn.batch {
		b = rn.batch
	}
	return rn.runB(inputs, b)
}

func (rn *c17Runner) runB(inputs []c17In, batch int) map[int]c17Out {
	var batches [][]c17In
	for i := 0; i < len(inputs); i += batch {
		j := i + batch
		if j > len(inputs) {
			j = len(inputs)
		}
		batches = append(batches, inputs[i:j])
	}
	outs := make([][]c17Out, len(batches))
	var wg sync.WaitGroup
	sem := make(chan struct{}, rn.workers)
	for i := range batches {
		wg.Add(1)
		sem <- struct{}{}
		go func(i int) {
			defer wg.Done()
			defer func() { <-sem }()
			outs[i] = rn.runBatch(batches[i])
		}(i)
	}
	wg.Wait()
	res := map[int]c17Out{}
	for _, l := range outs {
		for _, o := range l {
			res[o.ID] = o
		}
	}
	return res
}

// confirmHang re-runs one input alone.
func (rn *c17Runner) confirmHang(in c17In) bool {
	r := rn.runBatch([]c17In{in})
	return len(r) == 1 && r[0].Hang
}

// ---- cases and oracles ---------------------------------------------------------------

type c17Case struct {
	in     c17In
	class  string // free | config | reject:<kind> | mutate | edit | bytes:<flavour> | stress:<name> | ladder
	text   string
	doc    *vk.CDoc
	meta   *vk.CfgMeta
	spell  *vk.SpellMeta // class spell
	desc   []string
	ladder [3]string // builder, n, tail
	pair   *c17Case  // class stray: the same document without the inserted character
}

// characters tried as strays (class G); some belong to the token alphabet, some do not
var c17Strays = []string{";", "=", "|", ">", "<", "&", "?", "`", "~", "$", "^", "%", "@", "\\", "\x00", "\x7f", "\x01", "+", "*", "é"}

var (
	c17QuotedRe  = regexp.MustCompile(`"(\\.|[^"\\])*"`)
	c17LineColRe = regexp.MustCompile(`line \d+:\d+`)
	c17DigitsRe  = regexp.MustCompile(`\d+`)
	c17SQuoteRe  = regexp.MustCompile(`'[^']*'`)
)

func c17ShapeOfDump(d string) string { return c17QuotedRe.ReplaceAllString(d, `"`) }

func c17ErrClass(msg string) string {
	if i := strings.IndexByte(msg, '\n'); i >= 0 {
		// the syntax-error message is "line L:C <source line>\n   ^^^: <reason>"
		rest := msg[i+1:]
		if j := strings.Index(rest, "^: "); j >= 0 {
			msg = rest[j+3:]
		}
	}
	msg = c17LineColRe.ReplaceAllString(msg, "line")
	msg = c17QuotedRe.ReplaceAllString(msg, `"`)
	msg = c17SQuoteRe.ReplaceAllString(msg, "'")
	msg = c17DigitsRe.ReplaceAllString(msg, "N")
	msg = strings.Join(strings.Fields(msg), " ")
	if len(msg) > 70 {
		msg = msg[:70]
	}
	return msg
}

func c17TextWitness(text string) map[string]any {
	w := map[string]any{"text_base64": base64.StdEncoding.EncodeToString([]byte(text)), "bytes": len(text)}
	if utf8.ValidString(text) && len(text) <= 8000 {
		w["text"] = text
	} else if len(text) > 8000 {
		w["text_head"] = strings.ToValidUTF8(text[:2000], "�")
	} else {
		w["text_quoted"] = strconv.Quote(text)
	}
	return w
}

type c17Judge struct {
	slowAlone int // inputs that timed out in a batch but finished alone
	m    *vk.Monitor
	rn   *c17Runner
	seen map[string]int
	mu   sync.Mutex
}

// report files at most one violation per structural signature (dedupe), and
// keeps hunting for other signatures.
func (j *c17Judge) report(sig, what string, witness map[string]any) {
	j.mu.Lock()
	j.seen[sig]++
	first := j.seen[sig] == 1
	j.mu.Unlock()
	j.m.Count("violating_inputs", 1)
	if !first {
		return
	}
	before := j.m.Violations()
	isNew := j.m.Violation(sig, what, witness)
	if isNew && before >= 5 {
		// the kit stops printing after 5 reports; keep every distinct signature visible
		fmt.Printf("  signature=%s: %s (further report, witness not saved)\n", sig, what)
	}
}

// c17Tokenize splits a text into chunks for minimisation (lexer-agnostic:
// words, quoted strings, single punctuation bytes).
func c17Tokenize(s string) []string {
	var out []string
	i := 0
	for i < len(s) {
		c := s[i]
		switch {
		case c == ' ' || c == '\n' || c == '\t' || c == '\r':
			i++
		case c == '\'' || c == '"':
			j := strings.IndexByte(s[i+1:], c)
			if j < 0 {
				out = append(out, s[i:])
				i = len(s)
			} else {
				out = append(out, s[i:i+j+2])
				i += j + 2
			}
		case strings.IndexByte("{}()[]:,!", c) >= 0:
			out = append(out, s[i:i+1])
			i++
		default:
			j := i
			for j < len(s) && !strings.ContainsRune(" \n\t\r{}()[]:,'\"", rune(s[j])) {
				j++
			}
			if j == i {
				j = i + 1
			}
			out = append(out, s[i:j])
			i = j
		}
	}
	return out
}

// minimise shrinks text while the observed failure signature stays the same.
// A panic that the child recovered is recoverable here as well, so those are
// minimised in-process; failures that killed the child are re-tried in children.
func (j *c17Judge) minimise(c *c17Case, sigOf func(c *c17Case, o c17Out) string, want string) string {
	toks := c17Tokenize(c.text)
	inProc := strings.HasPrefix(want, "panic:")
	if len(toks) < 2 || (!inProc && len(toks) > 400) || len(toks) > 20000 {
		return c.text
	}
	if inProc {
		still := func(cand []string) bool {
			txt := strings.Join(cand, " ")
			cc := *c
			cc.text = txt
			return sigOf(&cc, c17ObserveText(c17In{Build: c.in.Build}, txt)) == want
		}
		if !still(toks) {
			return c.text // the failure depends on the exact layout
		}
		evals := 0
		for chunk := len(toks) / 2; chunk >= 1; chunk /= 2 {
			for changed := true; changed && evals < 6000; {
				changed = false
				for i := 0; i+chunk <= len(toks) && evals < 6000; {
					cand := append(append([]string(nil), toks[:i]...), toks[i+chunk:]...)
					evals++
					if len(cand) > 0 && still(cand) {
						toks, changed = cand, true
					} else {
						i += chunk
					}
				}
				if chunk > 1 {
					break
				}
			}
		}
		return strings.Join(toks, " ")
	}
	for chunk, rounds := len(toks)/2, 0; chunk >= 1 && rounds < 25 && len(toks) >= 2; rounds++ {
		var cands [][]string
		var ins []c17In
		for i := 0; i+chunk <= len(toks); i += chunk {
			cand := append(append([]string(nil), toks[:i]...), toks[i+chunk:]...)
			cands = append(cands, cand)
			ins = append(ins, c17In{ID: len(ins), Text: base64.StdEncoding.EncodeToString([]byte(strings.Join(cand, " "))), Build: c.in.Build})
		}
		res := j.rn.run(ins)
		k := -1
		for i := range cands {
			cc := *c
			cc.text = strings.Join(cands[i], " ")
			if o, ok := res[i]; ok && sigOf(&cc, o) == want {
				k = i
				break
			}
		}
		if k >= 0 {
			toks = cands[k]
			if chunk > len(toks)/2 && chunk > 1 {
				chunk = len(toks) / 2
			}
		} else {
			chunk /= 2
		}
	}
	return strings.Join(toks, " ")
}

// crashSig: structural signature of a totality failure, "" if none.
func c17CrashSigOf(c *c17Case, o c17Out) string {
	switch {
	case o.Hang:
		return "hang"
	case o.Crash != "":
		return "crash:" + o.Crash
	case o.Parse.St == "panic":
		return "panic:parse:" + o.Parse.Site + ":" + c17MsgClass(o.Parse.Msg)
	case o.New.St == "panic":
		return "panic:config.New:" + o.New.Site + ":" + c17MsgClass(o.New.Msg)
	case o.Routing.St == "panic":
		return "panic:routing-build:" + o.Routing.Site + ":" + c17MsgClass(o.Routing.Msg)
	case o.Dns.St == "panic":
		return "panic:dns-build:" + o.Dns.Site + ":" + c17MsgClass(o.Dns.Msg)
	case o.Merge.St == "panic":
		return "panic:merge:" + o.Merge.Site + ":" + c17MsgClass(o.Merge.Msg)
	}
	return ""
}

func c17FirstDiff(a, b string) (line int, la, lb string) {
	as, bs := strings.Split(a, "\n"), strings.Split(b, "\n")
	for i := 0; i < len(as) || i < len(bs); i++ {
		if i >= len(as) {
			return i, "<end>", bs[i]
		}
		if i >= len(bs) {
			return i, as[i], "<end>"
		}
		if as[i] != bs[i] {
			return i, as[i], bs[i]
		}
	}
	return -1, "", ""
}

func c17LineKind(l string) string {
	l = strings.TrimSpace(l)
	if l == "" || l == "<end>" {
		return "end"
	}
	if l == "}" {
		return "close"
	}
	return l[:1]
}

func c17ExpectedTyped(meta *vk.CfgMeta) map[string]string {
	exp := map[string]string{}
	for k, v := range meta.Global {
		switch k {
		case "lan_interface", "wan_interface", "tcp_check_url", "udp_check_dns":
			exp[k] = strings.Join(strings.Split(v, ","), "\x1f")
		case "check_interval", "check_tolerance", "sniffing_timeout":
			if d, err := time.ParseDuration(v); err == nil {
				exp[k] = d.String()
			}
		case "so_mark_from_dae":
			if x, err := strconv.ParseUint(v, 0, 32); err == nil {
				exp[k] = strconv.FormatUint(x, 10)
			}
		default:
			exp[k] = v
		}
	}
	// documented defaults (example.dae: "Use 'HEAD' by default", "Default 30ms", THP "enabled by default")
	for k, v := range map[string]string{"tcp_check_http_method": "HEAD", "sniffing_timeout": "30ms", "disable_thp": "true"} {
		if _, written := meta.Global[k]; !written {
			exp[k] = v
		}
	}
	_, set := meta.Global["so_mark_from_dae"]
	exp["so_mark_from_dae_set"] = strconv.FormatBool(set)
	exp["#node"] = strings.Join(meta.Nodes, "\x1f")
	exp["#subscription"] = strings.Join(meta.Subs, "\x1f")
	exp["#groups"] = strings.Join(meta.Groups, "\x1f")
	if meta.HasDns {
		exp["#upstream"] = strings.Join(meta.Upstream, "\x1f")
	}
	exp["#nrules"] = strconv.Itoa(meta.NRules)
	if meta.Fallback != "" {
		fb := meta.Fallback
		if strings.HasPrefix(fb, "must_") && fb != "must_rules" {
			fb = strings.TrimPrefix(fb, "must_") // "must_x" is documented as "x(must)"
		}
		exp["#fallback"] = fb
	}
	return exp
}

// judgeText applies the oracles to one observed text case.
func (j *c17Judge) judgeText(c *c17Case, o c17Out) {
	m := j.m
	m.Eval(1)
	m.Count("texts_"+strings.SplitN(c.class, ":", 2)[0], 1)
	witness := func() map[string]any {
		w := c17TextWitness(c.text)
		w["class"] = c.class
		if len(c.desc) > 0 {
			w["edits"] = c.desc
		}
		w["observed"] = map[string]any{"parse": o.Parse, "new": o.New, "routing": o.Routing, "dns": o.Dns, "crash": o.Crash, "ms": o.Ms}
		return w
	}
	if o.Ms > 2000 {
		m.Count("slow_inputs_over_2s", 1)
	}
	// (1) totality
	if sig := c17CrashSigOf(c, o); sig != "" {
		if o.Hang {
			if !j.rn.confirmHang(c.in) {
				// the input finished when it had a process to itself: not a hang, and the slow batch run
				// says nothing else about it; a machine so loaded that this keeps happening observes too little
				m.Count("hang_not_reproduced_alone", 1)
				j.mu.Lock()
				j.slowAlone++
				n := j.slowAlone
				j.mu.Unlock()
				if n > 25 {
					m.Inconclusive("%d inputs exceeded %ds in a batch but not when re-run alone (overloaded machine)", n, c17HangSeconds)
				}
				return
			}
			sig = "hang:" + strings.SplitN(c.class, ":", 2)[0]
		}
		j.mu.Lock()
		first := j.seen[sig] == 0
		j.mu.Unlock()
		w := witness()
		if first && !o.Hang && c.class != "ladder" {
			min := j.minimise(c, c17CrashSigOf, sig)
			if min != c.text {
				w["minimized_text"] = min
			}
		}
		if c.class == "ladder" {
			w["ladder"] = map[string]string{"builder": c.ladder[0], "match_sets_requested": c.ladder[1], "tail": c.ladder[2]}
			delete(w, "text")
		}
		j.report(sig, "crash/hang instead of a parsed configuration or an error", w)
		return
	}
	accepted := o.Parse.St == "ok"
	switch {
	case accepted && o.New.St == "ok":
		m.Count("outcome_parse_ok_new_ok", 1)
	case accepted:
		m.Count("outcome_parse_ok_new_err", 1)
	default:
		m.Count("outcome_parse_err", 1)
	}
	if o.Routing.St != "" {
		m.Count("routing_build_"+o.Routing.St, 1)
	}
	if o.Dns.St != "" {
		m.Count("dns_build_"+o.Dns.St, 1)
	}
	// coverage signature
	if accepted {
		m.Distinct("ok|" + vk.Hash(c17ShapeOfDump(o.Dump)))
	} else {
		m.Distinct("rej|" + strings.SplitN(c.class, ":", 2)[0] + "|" + c17ErrClass(o.Parse.Msg))
	}
	if !accepted && o.Parse.Msg == "" {
		j.report("rejected-without-message", "Parse returned an error with an empty message", witness())
	}
	// (2) fidelity of accepted generated text
	if c.doc != nil {
		if !accepted {
			if c.doc.MayReject {
				m.Count("free_doc_with_empty_list_rejected", 1)
			} else {
				w := witness()
				j.report("valid-text-rejected:"+c17ErrClass(o.Parse.Msg), "text generated from the grammar's productions was rejected: "+o.Parse.Msg, w)
			}
		} else {
			exp := c.doc.Dump()
			if exp != o.Dump {
				ln, le, lg := c17FirstDiff(exp, o.Dump)
				w := witness()
				w["expected_dump"], w["got_dump"] = exp, o.Dump
				w["first_difference"] = map[string]any{"line": ln, "expected": le, "got": lg}
				j.report("fidelity:"+c17LineKind(le)+"-vs-"+c17LineKind(lg), fmt.Sprintf("parsed structure differs from what is written: expected %q got %q", le, lg), w)
			} else {
				m.Count("fidelity_checked_equal", 1)
				if c.doc.MayReject {
					m.Count("free_doc_with_empty_list_accepted", 1)
				}
			}
		}
	}
	// (3) typed configuration
	switch {
	case c.class == "config":
		if !accepted {
			return
		}
		if o.New.St != "ok" {
			j.report("valid-config-rejected:"+c17ErrClass(o.New.Msg), "configuration valid per documentation rejected by config.New: "+o.New.Msg, witness())
			return
		}
		exp := c17ExpectedTyped(c.meta)
		keys := make([]string, 0, len(exp))
		for k := range exp {
			keys = append(keys, k)
		}
		sort.Strings(keys)
		for _, k := range keys {
			m.Count("typed_fields_checked", 1)
			if _, written := c.meta.Global[k]; !written && !strings.HasPrefix(k, "#") && k != "so_mark_from_dae_set" {
				m.Count("typed_defaults_checked", 1)
			}
			if o.Typed[k] != exp[k] {
				w := witness()
				w["field"], w["expected"], w["got"] = k, exp[k], o.Typed[k]
				j.report("typed:"+k, fmt.Sprintf("typed configuration field %s = %q, text spells %q", k, o.Typed[k], exp[k]), w)
			}
		}
		j.judgeSpelledRouting(c, o, witness)
		if o.Routing.St == "err" {
			j.report("valid-config-routing-build-error:"+c17ErrClass(o.Routing.Msg), "routing program valid per documentation failed to compile: "+o.Routing.Msg, witness())
		}
		if o.Dns.St == "err" {
			j.report("valid-config-dns-build-error:"+c17ErrClass(o.Dns.Msg), "dns section valid per documentation failed to build: "+o.Dns.Msg, witness())
		}
	case c.class == "spell":
		j.judgeSpell(c, o, witness)
	case strings.HasPrefix(c.class, "reject:"):
		kind := strings.TrimPrefix(c.class, "reject:")
		if !accepted {
			m.Count("reject_mutant_refused_by_parser", 1)
			return
		}
		if o.New.St == "ok" {
			j.report("accepted:"+kind, "config.New silently accepted a configuration with defect "+kind, witness())
		} else {
			m.Count("reject_"+kind+"_clean_error", 1)
			m.Count("reject_mutants_clean_error", 1)
			m.Distinct("rejnew|" + kind + "|" + c17ErrClass(o.New.Msg))
		}
	}
}

// judgeSpelledRouting: the routing rules and the fallback of the typed
// configuration config.New returned (after its patch stage and defaults) against
// what the generator's AST spells, rule by rule: conditions as written, outbound
// name / must flag / every other outbound parameter in written order, with the
// documented normalisation only (`must_x(p...)` is `x(must, p...)`).
func (j *c17Judge) judgeSpelledRouting(c *c17Case, o c17Out, witness func() map[string]any) {
	m := j.m
	rules, fb := vk.RoutingSpelled(c.doc)
	split := func(s string) []string {
		if s == "" {
			return nil
		}
		return strings.Split(s, "\n")
	}
	gotC, gotO := split(o.Typed["#rule_conds"]), split(o.Typed["#rule_outs"])
	if len(gotC) != len(rules) || len(gotO) != len(rules) {
		w := witness()
		w["rules_written"], w["rules_in_typed_configuration"] = len(rules), len(gotO)
		j.report("typed-rules:count", fmt.Sprintf("typed configuration carries %d routing rules, the text spells %d", len(gotO), len(rules)), w)
		return
	}
	for i, rl := range rules {
		m.Count("typed_rules_checked", 1)
		m.Count("typed_outbound_spelling_"+rl.Out.Class, 1)
		if gotC[i] != rl.Conds {
			w := witness()
			w["rule"], w["expected"], w["got"] = i, rl.Conds, gotC[i]
			j.report("typed-rule:conditions", fmt.Sprintf("rule %d of the typed configuration has conditions %s, the text spells %s", i, gotC[i], rl.Conds), w)
		}
		if exp := rl.Out.View(); gotO[i] != exp {
			w := witness()
			w["rule"], w["expected"], w["got"] = i, exp, gotO[i]
			j.report("typed-outbound:"+rl.Out.Class+":rule", fmt.Sprintf("rule %d of the typed configuration has outbound %s, the text spells %s", i, gotO[i], exp), w)
		}
	}
	if fb == nil {
		m.Count("typed_fallback_not_written_default_observed_"+o.Typed["#fallback"], 1)
		return
	}
	m.Count("typed_fallbacks_checked", 1)
	m.Count("typed_outbound_spelling_"+fb.Class, 1)
	if exp := fb.View(); o.Typed["#fallback_out"] != exp {
		w := witness()
		w["expected"], w["got"] = exp, o.Typed["#fallback_out"]
		j.report("typed-outbound:"+fb.Class+":fallback", fmt.Sprintf("the typed configuration has fallback %s, the text spells %s", o.Typed["#fallback_out"], exp), w)
	}
}

// judgeSpell: class spell (verifkit.GenSpellDoc): combinations of equivalent
// spellings and of the keys that config.New's patch stage rewrites.
func (j *c17Judge) judgeSpell(c *c17Case, o c17Out, witness func() map[string]any) {
	m := j.m
	sp := c.spell
	if o.Parse.St != "ok" {
		return // already reported by the fidelity oracle
	}
	if o.New.St != "ok" {
		if sp.MayRejectNew {
			m.Count("spell_malformed_value_rejected", 1)
			for _, cl := range sp.Classes {
				if cl == "bootstrap:invalid" {
					m.Count("spell_"+cl, 1)
				}
			}
			return
		}
		j.report("valid-config-rejected:"+c17ErrClass(o.New.Msg), "configuration valid per documentation rejected by config.New: "+o.New.Msg, witness())
		return
	}
	if sp.MayRejectNew {
		m.Count("spell_malformed_value_accepted", 1)
	}
	for _, cl := range sp.Classes {
		m.Count("spell_"+cl, 1)
	}
	// (a) typed fields: written values kept, a default only where the key is absent
	exp := c17ExpectedTyped(sp.Cfg)
	switch sp.Method {
	case "invalid":
		// what becomes of a word that is no HTTP method is not documented: recorded
		delete(exp, "tcp_check_http_method")
		m.Count("spell_method_invalid_observed_"+o.Typed["tcp_check_http_method"], 1)
	}
	switch sp.Bootstrap {
	case "valid4", "valid6":
		exp["bootstrap_resolver"] = sp.BootstrapVal
	default:
		m.Count("spell_bootstrap_"+sp.Bootstrap+"_observed_"+o.Typed["bootstrap_resolver"], 1)
	}
	dnsFb := func(key, written string) {
		if written != "" {
			exp[key] = strconv.Quote(written) + "()"
			return
		}
		m.Count("spell_"+strings.TrimPrefix(key, "#")+"_not_written_observed_"+o.Typed[key], 1)
	}
	dnsFb("#dns_req_fallback", sp.DnsReq)
	dnsFb("#dns_resp_fallback", sp.DnsResp)
	keys := make([]string, 0, len(exp))
	for k := range exp {
		keys = append(keys, k)
	}
	sort.Strings(keys)
	for _, k := range keys {
		m.Count("typed_fields_checked", 1)
		if o.Typed[k] != exp[k] {
			w := witness()
			w["field"], w["expected"], w["got"] = k, exp[k], o.Typed[k]
			j.report("typed:"+k, fmt.Sprintf("typed configuration field %s = %q, text spells %q", k, o.Typed[k], exp[k]), w)
		}
	}
	// (b) routing rules and fallback, rule by rule
	j.judgeSpelledRouting(c, o, witness)
	// (c) the programs compiled from the typed configuration
	if o.Routing.St == "err" {
		j.report("valid-config-routing-build-error:"+c17ErrClass(o.Routing.Msg), "routing program valid per documentation failed to compile: "+o.Routing.Msg, witness())
		return
	}
	if o.Dns.St == "err" {
		if sp.DnsShape == "empty-section" {
			m.Count("spell_empty_dns_section_not_built", 1) // a dns section without any upstream: not documented either way
		} else {
			j.report("valid-config-dns-build-error:"+c17ErrClass(o.Dns.Msg), "dns section valid per documentation failed to build: "+o.Dns.Msg, witness())
		}
	}
	if len(o.Probed) != len(sp.Probes) {
		m.Count("spell_probes_not_observed", 1)
		return
	}
	rules, fb := vk.RoutingSpelled(c.doc)
	for k, pr := range sp.Probes {
		// reference: the only rule whose port list holds the probe port decides; must_rules passes
		// the packet on (nothing else matches it) to the fallback with the must flag set
		out, sticky, where := fb, false, "fallback"
		if pr.Rule >= 0 {
			if ro := rules[pr.Rule].Out; ro.Class == "must_rules:none" {
				sticky, where = true, "must_rules-then-fallback"
			} else {
				out, where = &ro, "rule"
			}
		}
		if out == nil {
			m.Count("spell_probes_to_unwritten_fallback", 1)
			continue
		}
		mark, ok := out.Mark()
		if !ok {
			m.Count("spell_probes_mark_unreadable", 1)
			continue
		}
		m.Count("spell_probes_checked", 1)
		m.Count("spell_probes_"+where, 1)
		want := fmt.Sprintf("%s|%d|%v", out.Name, mark, out.Must || sticky)
		if o.Probed[k] != want {
			w := witness()
			w["probe"] = map[string]any{"l4proto": "tcp", "ipversion": 4, "dport": pr.Port, "rule": pr.Rule}
			w["expected"], w["got"] = want, o.Probed[k]
			j.report("compiled-outbound:"+out.Class+":"+where, fmt.Sprintf("a TCP/IPv4 packet to port %d is routed as %s by the program compiled from the typed configuration, the text spells %s (outbound|mark|must)", pr.Port, o.Probed[k], want), w)
		}
	}
}

// ---- include trees ---------------------------------------------------------------------

type c17TFile struct {
	rel      string // relative to the entry directory ("../outside/x.dae" for outsiders)
	abs      string
	mode     os.FileMode
	decoy    string              // "" good; else why it must never be read: bad-suffix | outside | dir | fifo-outside | fifo-bad-suffix | bad-suffix-entry
	tag      string              // decoys: the marker in the file is DECOY-<tag>
	broken   bool                // decoys: the content is NOT valid configuration syntax (every line carries the marker)
	fifo     bool                // decoys: a FIFO, not a regular file
	linkTo   string              // symlink target (relative text as created)
	linkKind string              // symlink-outside | symlink-non-dae | symlink-dir-outside
	own      map[string][]string // section -> item dumps
	order    []string            // section order as written
	patterns []string            // include patterns in listed order
	text     string
}

type c17Tree struct {
	id      int
	root    string
	entry   string
	dir     string
	files   map[string]*c17TFile // by abs path; includes decoys and directories
	mode    string
	hasGlob bool
}

type c17Ref struct {
	secs       map[string][]string
	entryOwn   map[string][]string
	read       map[string]bool
	cycle      bool
	duplicate  bool
	badNamed   []string // decoys matched by a pattern (must not be read)
	badAbs     map[string]bool
	symlinked  []string // symlink decoys matched by a pattern
	openPerm   bool
	unmatched  int
	dirMatched int
}

func c17IsGlob(p string) bool { return strings.ContainsAny(p, "*?[") }

// c17RefMerge is the reference: the including file first, then each included
// file in listed order (depth first), a glob expanding to its matches in
// lexical order; cycles are errors; decoys are never read.
func c17RefMerge(t *c17Tree) *c17Ref {
	ref := &c17Ref{secs: map[string][]string{}, read: map[string]bool{}, badAbs: map[string]bool{}}
	var paths []string
	for p := range t.files {
		paths = append(paths, p)
	}
	sort.Strings(paths)
	var visit func(f *c17TFile, stack map[string]bool) map[string][]string
	visit = func(f *c17TFile, stack map[string]bool) map[string][]string {
		res := map[string][]string{}
		if stack[f.abs] {
			ref.cycle = true
			return res
		}
		if ref.read[f.abs] {
			ref.duplicate = true
			return res
		}
		ref.read[f.abs] = true
		if f.mode&0o037 != 0 {
			ref.openPerm = true
		}
		stack[f.abs] = true
		defer delete(stack, f.abs)
		for s, l := range f.own {
			res[s] = append(res[s], l...)
		}
		for _, pat := range f.patterns {
			full := pat
			if !filepath.IsAbs(pat) {
				full = filepath.Join(t.dir, pat) // relative to the ENTRY directory (separate-config.md)
			}
			matched := 0
			for _, p := range paths {
				// lexical match on the written pattern; symlinked directories are matched through their link name
				ok, err := filepath.Match(filepath.Clean(full), p)
				if err != nil || !ok {
					continue
				}
				matched++
				g := t.files[p]
				switch {
				case g.decoy == "dir":
					ref.dirMatched++
				case g.linkKind != "":
					ref.symlinked = append(ref.symlinked, g.rel)
				case g.decoy != "":
					ref.badNamed = append(ref.badNamed, g.rel+" ("+g.decoy+")")
					ref.badAbs[g.abs] = true
				default:
					child := visit(g, stack)
					for s, l := range child {
						res[s] = append(res[s], l...)
					}
				}
			}
			if matched == 0 {
				ref.unmatched++
			}
		}
		return res
	}
	e := t.files[t.entry]
	ref.entryOwn = e.own
	ref.secs = visit(e, map[string]bool{})
	return ref
}

var c17TreeNames = []string{"a.dae", "b.dae", "c.dae", "dns.dae", "node.dae", "10-x.dae", "20-y.dae", "z.dae"}
var c17TreeDirs = []string{"", "config.d", "config.d/sub", "other"}

func c17GenTree(r interface {
	IntN(int) int
	Perm(int) []int
}, id int, root string) *c17Tree {
	t := &c17Tree{id: id, root: root, dir: filepath.Join(root, "etc"), files: map[string]*c17TFile{}}
	t.entry = filepath.Join(t.dir, "config.dae")
	outside := filepath.Join(root, "outside")
	modes := []string{"tree", "tree", "tree", "tree-glob", "tree-glob", "cycle", "self", "diamond", "bad-include", "bad-include", "bad-include", "bad-entry", "random", "perm"}
	t.mode = modes[r.IntN(len(modes))]
	if id < 3 {
		t.mode = "bad-include" // trees 0..2 always name one symlink decoy each (see below)
	}
	// content that is NOT configuration syntax: reading it surfaces as a syntax error, which quotes the source line
	brokenText := func(tag string) string {
		return fmt.Sprintf("DECOY-%s { { { 'DECOY-%s\n}} DECOY-%s ( (\n", tag, tag, tag)
	}
	if t.mode == "bad-entry" {
		// the ENTRY file itself is not a .dae file: it is rejected without being read
		name := []string{"config.txt", "config.dae.bak", "config", "config.dae.orig", "dae.conf", "config.dae~"}[r.IntN(6)]
		t.entry = filepath.Join(t.dir, name)
		e := &c17TFile{rel: name, abs: t.entry, mode: []os.FileMode{0o600, 0o640, 0o644}[r.IntN(3)], decoy: "bad-suffix-entry", tag: "entry"}
		if r.IntN(2) == 0 {
			e.broken, e.text = true, brokenText("entry")
		} else {
			e.text = "node {\n    'DECOY-entry'\n}\ninclude {\n    a.dae\n}\nglobal {}\nrouting {}\n"
		}
		a := &c17TFile{rel: "a.dae", abs: filepath.Join(t.dir, "a.dae"), mode: 0o600, text: "node {\n    'F1-1'\n}\n"}
		t.files[e.abs], t.files[a.abs] = e, a
		if err := os.MkdirAll(t.dir, 0o755); err != nil {
			panic(fmt.Sprintf("c17 tree setup: %v", err))
		}
		for _, f := range []*c17TFile{e, a} {
			if err := os.WriteFile(f.abs, []byte(f.text), f.mode); err != nil {
				panic(fmt.Sprintf("c17 tree setup: %v", err))
			}
			_ = os.Chmod(f.abs, f.mode)
		}
		return t
	}
	secPool := []string{"node", "subscription", "routing", "group", "custom", "dns"}
	// one tree in three merges into something config.New accepts (Merge -> New is the daemon's sequence)
	cfgValid := r.IntN(3) == 0
	if cfgValid {
		secPool = []string{"node", "subscription"}
	}
	nitem := 0
	mkOwn := func(f *c17TFile, tag string) {
		f.own = map[string][]string{}
		var sb strings.Builder
		ns := 1 + r.IntN(3)
		for s := 0; s < ns; s++ {
			name := secPool[r.IntN(len(secPool))]
			sec := &vk.CSec{Name: name}
			for k, n := 0, 1+r.IntN(3); k < n; k++ {
				nitem++
				val := fmt.Sprintf("%s-%d", tag, nitem)
				var it *vk.CItem
				kind := r.IntN(4)
				if cfgValid {
					kind %= 2
				}
				switch kind {
				case 0:
					it = &vk.CItem{Kind: vk.CLitIt, Lit: vk.CLit{V: val, Q: '\''}}
				case 1:
					it = &vk.CItem{Kind: vk.CDecl, Key: fmt.Sprintf("k%d", nitem), Lits: []vk.CLit{{V: val}}}
				case 2:
					it = &vk.CItem{Kind: vk.CRule, Conds: []vk.CFn{{Name: "pname", Pars: []vk.CPar{{L: vk.CLit{V: val}}}}}, OutBare: true, Out: vk.CFn{Name: "direct"}}
				default:
					it = &vk.CItem{Kind: vk.CSecIt, Sec: &vk.CSec{Name: fmt.Sprintf("s%d", nitem), Items: []*vk.CItem{{Kind: vk.CDecl, Key: "policy", Lits: []vk.CLit{{V: val}}}}}}
				}
				sec.Items = append(sec.Items, it)
				one := &vk.CSec{Name: "x", Items: []*vk.CItem{it}}
				d := one.Dump()
				// strip the wrapper lines `S "x" {` and `}` and one level of indentation
				lines := strings.Split(strings.TrimSuffix(d, "\n"), "\n")
				lines = lines[1 : len(lines)-1]
				for i := range lines {
					lines[i] = strings.TrimPrefix(lines[i], " ")
				}
				f.own[name] = append(f.own[name], strings.Join(lines, "\n")+"\n")
			}
			f.order = append(f.order, name)
			sb.WriteString((&vk.CDoc{Secs: []*vk.CSec{sec}}).Pretty())
		}
		f.text = sb.String()
	}
	add := func(rel string, mode os.FileMode, decoy string) *c17TFile {
		f := &c17TFile{rel: rel, abs: filepath.Clean(filepath.Join(t.dir, rel)), mode: mode, decoy: decoy}
		t.files[f.abs] = f
		return f
	}
	goodMode := func() os.FileMode { return []os.FileMode{0o600, 0o640, 0o400}[r.IntN(3)] }
	entry := add("config.dae", goodMode(), "")
	mkOwn(entry, "F0")
	if cfgValid {
		entry.text += "global {}\nrouting {}\n"
	}
	// good files
	var good []*c17TFile
	n := 2 + r.IntN(5)
	perm := r.Perm(len(c17TreeNames) * len(c17TreeDirs))
	for _, k := range perm {
		if len(good) >= n {
			break
		}
		rel := filepath.Join(c17TreeDirs[k%len(c17TreeDirs)], c17TreeNames[k/len(c17TreeDirs)])
		f := add(rel, goodMode(), "")
		mkOwn(f, fmt.Sprintf("F%d", len(good)+1))
		good = append(good, f)
	}
	// decoys: every one carries a marker that must never surface
	decoyText := func(tag string) string {
		return fmt.Sprintf("node {\n    decoy_%s: 'DECOY-%s'\n}\nrouting {\n    pname(DECOY-%s) -> direct\n}\n", tag, tag, tag)
	}
	type dec struct{ rel, why, tag string }
	decs := []dec{
		{"config.d/notes.txt", "bad-suffix", "txt"},
		{"config.d/x.dae.bak", "bad-suffix", "bak"},
		{"y.daemon", "bad-suffix", "daemon"},
		{"../outside/secret.dae", "outside", "out"},
		{"../outside/secret.txt", "outside", "outtxt"},
		{"../secret-sibling.dae", "outside", "sibling"},
	}
	// symlinks (only in some trees: a glob that meets one reads through it)
	withLinks := r.IntN(4) == 0 || id < 3
	for _, d := range decs {
		f := add(d.rel, 0o600, d.why)
		f.tag = d.tag
		f.text = decoyText(d.tag)
		if withLinks && (d.rel == "../outside/secret.dae" || d.rel == "config.d/notes.txt") {
			continue // the symlinks' targets stay valid, private files (their content reaching the merged result is the known finding)
		}
		// a forbidden file is forbidden whatever it holds: half of them are not configuration syntax, some are world-readable
		if r.IntN(2) == 0 {
			f.broken, f.text = true, brokenText(d.tag)
		}
		if r.IntN(4) == 0 {
			f.mode = 0o644
		}
	}
	// FIFOs: opening one for reading blocks; none is a .dae file inside the entry directory, none is reachable through a symlink
	for _, d := range []dec{
		{"../pipe.dae", "fifo-outside", ""}, {"../outside2/fifo.dae", "fifo-outside", ""},
		{"config.d/queue.txt", "fifo-bad-suffix", ""}, {"other/sock.dae.bak", "fifo-bad-suffix", ""},
	} {
		f := add(d.rel, 0o600, d.why)
		f.fifo = true
		f.text = c17FifoText(f.abs)
		f.tag = strings.TrimPrefix(c17MarkRe.FindString(f.text), "DECOY-")
	}
	add("config.d/d.dae", 0o755, "dir") // a DIRECTORY named like a config file
	if withLinks {
		l := add("config.d/zz-link.dae", 0o600, "outside")
		l.linkTo, l.linkKind = "../../outside/secret.dae", "symlink-outside"
		l2 := add("other/notes-link.dae", 0o600, "bad-suffix")
		l2.linkTo, l2.linkKind = "../config.d/notes.txt", "symlink-non-dae"
		// a symlinked directory: files below it are lexically inside, physically outside
		l3 := add("linkdir/secret.dae", 0o600, "outside")
		l3.linkKind = "symlink-dir-outside"
	}
	_ = outside
	// include patterns
	relOf := func(f *c17TFile) string { return f.rel }
	spell := func(f *c17TFile) string {
		switch r.IntN(5) {
		case 0:
			return f.abs // absolute paths are used as-is
		case 1:
			return "./" + relOf(f)
		default:
			return relOf(f)
		}
	}
	all := append([]*c17TFile{entry}, good...)
	switch t.mode {
	case "tree", "tree-glob", "cycle", "self", "diamond", "bad-include", "perm":
		// spanning tree: every good file gets exactly one parent among the earlier ones
		parent := map[*c17TFile]*c17TFile{}
		for i, f := range good {
			p := all[r.IntN(i+1)]
			parent[f] = p
		}
		for _, p := range all {
			var kids []*c17TFile
			for _, f := range good {
				if parent[f] == p {
					kids = append(kids, f)
				}
			}
			// optionally replace all children living in one directory by a glob, when the glob matches exactly them
			if t.mode == "tree-glob" {
				byDir := map[string][]*c17TFile{}
				for _, k := range kids {
					byDir[filepath.Dir(k.rel)] = append(byDir[filepath.Dir(k.rel)], k)
				}
				var rest []*c17TFile
				dirs := make([]string, 0, len(byDir))
				for d := range byDir {
					dirs = append(dirs, d)
				}
				sort.Strings(dirs)
				for _, d := range dirs {
					inDir := 0
					for _, g := range all {
						if filepath.Dir(g.rel) == d {
							inDir++
						}
					}
					if inDir == len(byDir[d]) && !(withLinks && (d == "config.d" || d == "other")) {
						pat := filepath.Join(d, []string{"*.dae", "*", "?*.dae", "[a-z0-9]*.dae"}[r.IntN(4)])
						if pat == "*" || strings.HasPrefix(pat, "[") && d == "." {
							pat = "*.dae"
						}
						if d == "." {
							// the entry directory also holds config.dae itself: a glob there is a self-include
							rest = append(rest, byDir[d]...)
							continue
						}
						p.patterns = append(p.patterns, pat)
						t.hasGlob = true
					} else {
						rest = append(rest, byDir[d]...)
					}
				}
				kids = rest
			}
			for _, k := range kids {
				p.patterns = append(p.patterns, spell(k))
			}
			// listed order is arbitrary, not alphabetical
			for i := len(p.patterns) - 1; i > 0; i-- {
				k := r.IntN(i + 1)
				p.patterns[i], p.patterns[k] = p.patterns[k], p.patterns[i]
			}
		}
		switch t.mode {
		case "cycle":
			f := good[r.IntN(len(good))]
			// back edge to an ancestor (possibly the entry)
			anc := parent[f]
			for anc != entry && r.IntN(2) == 0 {
				anc = parent[anc]
			}
			f.patterns = append(f.patterns, spell(anc))
		case "self":
			f := all[r.IntN(len(all))]
			f.patterns = append(f.patterns, spell(f))
		case "diamond":
			f := good[r.IntN(len(good))]
			for _, p := range all {
				if p != parent[f] && p != f {
					p.patterns = append(p.patterns, spell(f))
					break
				}
			}
		case "bad-include":
			f := all[r.IntN(len(all))]
			bad := []string{
				"../outside/secret.dae", "config.d/../../outside/secret.dae", filepath.Join(root, "outside", "secret.dae"),
				filepath.Join(t.dir, "..", "outside", "secret.dae"), "../outside/*.dae", "../*.dae", "../secret-sibling.dae",
				"config.d/notes.txt", filepath.Join(t.dir, "config.d", "notes.txt"), "config.d/x.dae.bak", "y.daemon", "config.d/*.txt", "../outside/secret.txt",
				"config.d/d.dae", "config.d/nonexistent.dae",
				"../pipe.dae", filepath.Join(root, "pipe.dae"), "config.d/sub/../../../pipe.dae", "../outside2/fifo.dae", "../outside2/*.dae",
				"config.d/queue.txt", "other/sock.dae.bak", filepath.Join(t.dir, "other", "sock.dae.bak"),
			}
			if withLinks {
				bad = append(bad, "config.d/zz-link.dae", "linkdir/secret.dae", "other/notes-link.dae", "linkdir/*.dae")
			}
			pick := bad[r.IntN(len(bad))]
			if id < 3 {
				pick = []string{"config.d/zz-link.dae", "linkdir/secret.dae", "other/notes-link.dae"}[id]
			}
			f.patterns = append(f.patterns, pick)
			if r.IntN(2) == 0 && len(f.patterns) > 1 {
				k := r.IntN(len(f.patterns))
				f.patterns[k], f.patterns[len(f.patterns)-1] = f.patterns[len(f.patterns)-1], f.patterns[k]
			}
		case "perm":
			f := all[r.IntN(len(all))]
			f.mode = []os.FileMode{0o644, 0o660, 0o666, 0o604, 0o620}[r.IntN(5)]
		}
	case "random":
		pats := []string{"config.d/*.dae", "*.dae", "config.d/*", "*/*.dae", "config.d/sub/*.dae", "other/?.dae", "config.d/nonexistent.dae", "config.d/sub/*", "*/*/*.dae"}
		for _, f := range all {
			for k, n := 0, r.IntN(3); k < n; k++ {
				if r.IntN(2) == 0 {
					f.patterns = append(f.patterns, spell(good[r.IntN(len(good))]))
				} else {
					f.patterns = append(f.patterns, pats[r.IntN(len(pats))])
					t.hasGlob = true
				}
			}
		}
	}
	// write to disk
	must := func(err error) {
		if err != nil {
			panic(fmt.Sprintf("c17 tree setup: %v", err))
		}
	}
	must(os.MkdirAll(filepath.Join(t.dir, "config.d", "sub"), 0o755))
	must(os.MkdirAll(filepath.Join(t.dir, "other"), 0o755))
	must(os.MkdirAll(outside, 0o755))
	must(os.MkdirAll(filepath.Join(root, "outside2"), 0o755))
	for _, f := range t.files {
		if f.decoy == "dir" {
			must(os.MkdirAll(f.abs, 0o755))
		}
	}
	var order []string
	for p := range t.files {
		order = append(order, p)
	}
	sort.Strings(order) // r is consumed below: the order must not depend on map iteration
	for _, p := range order {
		f := t.files[p]
		switch {
		case f.decoy == "dir" || f.linkKind == "symlink-dir-outside":
			continue
		case f.linkTo != "":
			must(os.Symlink(f.linkTo, f.abs))
			continue
		case f.fifo:
			must(syscall.Mkfifo(f.abs, 0o600))
			continue
		}
		text := f.text
		if f.decoy == "" {
			// the include section may stand anywhere in the file, and may be split in two
			inc := func(ps []string) string {
				if len(ps) == 0 {
					return ""
				}
				var sb strings.Builder
				sb.WriteString("include {\n")
				for _, p := range ps {
					if vk.CBareOK(p) && r.IntN(3) != 0 {
						sb.WriteString("    " + p + "\n")
					} else {
						sb.WriteString("    '" + p + "'\n")
					}
				}
				sb.WriteString("}\n")
				return sb.String()
			}
			switch k := r.IntN(4); {
			case k == 0:
				text = inc(f.patterns) + text
			case k == 1 && len(f.patterns) >= 2:
				h := 1 + r.IntN(len(f.patterns)-1)
				text = inc(f.patterns[:h]) + text + inc(f.patterns[h:])
			default:
				text = text + inc(f.patterns)
			}
			f.text = text
		}
		must(os.WriteFile(f.abs, []byte(text), 0o600))
		must(os.Chmod(f.abs, f.mode))
	}
	if withLinks {
		must(os.Symlink("../outside", filepath.Join(t.dir, "linkdir")))
	}
	return t
}

// watchLists: what the child observes while Merge runs: every regular decoy (and the entry file as
// the positive control of the observation) with inotify, every FIFO with the read-end probe.
func (t *c17Tree) watchLists() (watch, fifos []string) {
	for p, f := range t.files {
		switch {
		case f.fifo:
			fifos = append(fifos, p)
		case f.decoy != "" && f.decoy != "dir" && f.linkKind == "":
			watch = append(watch, p)
		}
	}
	if t.files[t.entry].decoy == "" {
		watch = append(watch, t.entry)
	}
	sort.Strings(watch)
	sort.Strings(fifos)
	return
}

// judgeAccess: "never reading a file that is not a .dae file or that lies outside the entry
// configuration directory", judged on what the process DID while Merge ran, whatever Merge returned:
//   - bytes were read from a forbidden file (inotify IN_ACCESS; for a FIFO: the bytes the monitor fed it);
//   - the text of the returned error carries a forbidden file's marker (its content was read and disclosed).
//
// An open without a read (IN_OPEN only, a FIFO's read end held but nothing consumed) is recorded, not judged.
// Reads explained by the known symlink findings (the link's target, when a pattern matched the link) are counted apart.
func (j *c17Judge) judgeAccess(t *c17Tree, ref *c17Ref, explained map[string]string, o c17Out, witness func() map[string]any) {
	m := j.m
	var decoys []string
	byTag := map[string]*c17TFile{}
	for p, f := range t.files {
		if f.decoy != "" && f.decoy != "dir" && f.linkKind == "" {
			decoys = append(decoys, p)
			if prev := byTag[f.tag]; prev != nil || f.tag == "" {
				m.Inconclusive("include-tree generator: decoy marker tag %q of %s is not unique", f.tag, f.rel)
			}
			byTag[f.tag] = f
		}
	}
	sort.Strings(decoys)
	// (a) content disclosure through the error text
	for _, mk := range o.ErrMarks {
		f := byTag[strings.TrimPrefix(mk, "DECOY-")]
		if f == nil {
			continue
		}
		if _, isKnown := explained[f.abs]; isKnown {
			m.Count("forbidden_read_explained_by_known_symlink_finding", 1)
			continue
		}
		j.report("include-error-discloses-forbidden-file:"+f.decoy, "the error returned by Merge quotes the content of a file that is not a .dae file inside the entry directory (it was read): "+f.rel, witness())
	}
	if o.Merge.St == "err" {
		m.Count("merge_errors_searched_for_decoy_markers", 1)
		for _, p := range decoys {
			if f := t.files[p]; f.broken && ref != nil && ref.badAbs[p] && len(o.ErrMarks) == 0 {
				m.Count("named_non_syntax_decoy_absent_from_error", 1)
			}
		}
		if e := t.files[t.entry]; e.decoy != "" && e.broken && len(o.ErrMarks) == 0 {
			m.Count("named_non_syntax_decoy_absent_from_error", 1)
		}
	}
	// (b) file access
	if o.WatchErr != "" {
		m.Count("file_access_observation_failed", 1)
		m.Set("file_access_observation_last_error", o.WatchErr)
		return
	}
	m.Count("trees_file_access_observed", 1)
	opened, accessed, readers := map[string]bool{}, map[string]bool{}, map[string]bool{}
	for _, p := range o.Opened {
		opened[p] = true
	}
	for _, p := range o.Accessed {
		accessed[p] = true
	}
	for _, p := range o.FifoReaders {
		readers[p] = true
	}
	if e := t.files[t.entry]; e.decoy == "" {
		// positive control: a proper entry file is opened by every merge
		switch {
		case opened[t.entry] || accessed[t.entry]:
			m.Count("file_access_positive_control_seen", 1)
		case o.Merge.St == "ok":
			m.Inconclusive("the merge of tree %d succeeded but no open/read of its entry file was observed: the file-access observation does not work", t.id)
		default:
			m.Count("file_access_positive_control_missing_on_rejected_tree", 1)
		}
	}
	for _, p := range decoys {
		f := t.files[p]
		named := (ref != nil && ref.badAbs[p]) || p == t.entry
		switch {
		case accessed[p]:
			if _, isKnown := explained[p]; isKnown {
				m.Count("forbidden_read_explained_by_known_symlink_finding", 1)
				continue
			}
			what := "bytes were read from a file that is not a .dae file inside the entry directory: " + f.rel
			if f.fifo {
				what = "a FIFO that is not a .dae file inside the entry directory was opened and read (without the monitor feeding it the merge would hang): " + f.rel
			}
			j.report("include-read-forbidden-file:"+f.decoy, what, witness())
		case opened[p] || readers[p]:
			if _, isKnown := explained[p]; isKnown {
				m.Count("forbidden_read_explained_by_known_symlink_finding", 1)
				continue
			}
			m.Count("forbidden_file_opened_but_not_read", 1)
		default:
			m.Count("forbidden_files_untouched", 1)
			if named {
				m.Count("named_forbidden_file_untouched", 1)
				if f.fifo {
					m.Count("named_forbidden_fifo_untouched", 1)
				}
				m.Distinct("untouched|" + f.decoy + "|" + fmt.Sprint(f.broken, f.mode&0o037 != 0) + "|" + o.Merge.St)
			}
		}
	}
}

func (j *c17Judge) judgeTree(t *c17Tree, o c17Out) {
	m := j.m
	m.Eval(1)
	m.Count("trees", 1)
	m.Count("trees_mode_"+t.mode, 1)
	witness := func() map[string]any {
		files := map[string]any{}
		for _, f := range t.files {
			e := map[string]any{"mode": fmt.Sprintf("%04o", f.mode)}
			switch {
			case f.decoy == "dir":
				e["directory"] = true
			case f.linkKind != "":
				e["symlink"] = f.linkKind
			case f.fifo:
				e["fifo"] = true
			default:
				e["text"] = f.text
			}
			if f.decoy != "" {
				e["decoy"] = f.decoy
			}
			files[f.rel] = e
		}
		return map[string]any{"entry": "etc/" + filepath.Base(t.entry), "mode": t.mode, "files_relative_to_entry_dir": files,
			"merge": o.Merge, "merged_sections": o.Secs, "entries": o.Entries,
			"file_access_observed": map[string]any{"opened": o.Opened, "read_from": o.Accessed, "fifo_read_end_held": o.FifoReaders, "markers_in_error_text": o.ErrMarks}}
	}
	if sig := c17CrashSigOf(nil, o); sig != "" {
		if o.Hang {
			sig = "hang:merge"
		}
		j.report(sig, "Merger.Merge crashed or hung on an include tree", witness())
		return
	}
	ok := o.Merge.St == "ok"
	if t.mode == "bad-entry" {
		// the entry file itself is not a .dae file
		m.Distinct(fmt.Sprintf("tree|bad-entry|%s|ok=%v|broken=%v", filepath.Ext(t.entry), ok, t.files[t.entry].broken))
		if ok {
			j.report("non-dae-entry-accepted", "Merge read and returned an entry file that is not a .dae file: "+filepath.Base(t.entry), witness())
		} else {
			m.Count("bad_entry_rejected", 1)
		}
		j.judgeAccess(t, nil, nil, o, witness)
		return
	}
	ref := c17RefMerge(t)
	// what the known symlink findings explain: the target of a symlink that a pattern matched is read through the link
	explained := map[string]string{}
	if len(ref.symlinked) > 0 {
		named := map[string]bool{}
		for _, rel := range ref.symlinked {
			named[rel] = true
		}
		for _, f := range t.files {
			if f.linkKind == "" || !named[f.rel] {
				continue
			}
			switch f.linkKind {
			case "symlink-outside", "symlink-dir-outside":
				explained[filepath.Join(t.root, "outside", "secret.dae")] = f.linkKind
			case "symlink-non-dae":
				explained[filepath.Join(t.dir, "config.d", "notes.txt")] = f.linkKind
			}
		}
	}
	j.judgeAccess(t, ref, explained, o, witness)
	if ok {
		m.Count("trees_merged_then_config_new_"+o.New.St, 1)
		m.Count("trees_merged", 1)
	} else {
		m.Count("trees_rejected", 1)
	}
	m.Distinct(fmt.Sprintf("tree|%s|ok=%v|cycle=%v|dup=%v|bad=%d|sym=%d|glob=%v|perm=%v", t.mode, ok, ref.cycle, ref.duplicate, len(ref.badNamed), len(ref.symlinked), t.hasGlob, ref.openPerm))
	// never reads a decoy: no marker in the merged result, no decoy among the reported entries
	if ok {
		var leaked []string
		for s, d := range o.Secs {
			if strings.Contains(d, "DECOY-") {
				leaked = append(leaked, s)
			}
		}
		sort.Strings(leaked)
		linkKinds := map[string]bool{}
		for _, e := range o.Entries {
			if f := t.files[filepath.Clean(e)]; f != nil && f.decoy != "" {
				if f.linkKind != "" {
					linkKinds[f.linkKind] = true
				} else {
					j.report("include-read-decoy:"+f.decoy, "Merge reports a file that is not a .dae file inside the entry directory among the files it read: "+f.rel, witness())
				}
			}
		}
		if len(leaked) > 0 {
			m.Count("decoy_marker_leaks", 1)
			if len(linkKinds) > 0 {
				var ks []string
				for k := range linkKinds {
					ks = append(ks, k)
				}
				sort.Strings(ks)
				for _, k := range ks {
					j.report("include-follows-symlink:"+k, "content of a file outside the entry directory / without .dae suffix reached the merged configuration through a symbolic link ("+k+")", witness())
				}
			} else {
				j.report("include-read-decoy-content", "content of a decoy file (wrong suffix or outside the entry directory) reached the merged configuration", witness())
			}
			return
		}
		m.Count("decoy_markers_absent", 1)
	}
	if len(ref.badNamed)+len(ref.symlinked) > 0 {
		if ok {
			m.Count("bad_include_skipped_silently", 1)
		} else {
			m.Count("bad_include_rejected", 1)
		}
	}
	switch {
	case ref.cycle:
		if ok {
			j.report("cycle-accepted", "an include cycle was merged instead of rejected", witness())
		} else {
			m.Count("cycle_rejected", 1)
		}
		return
	case ref.duplicate:
		// a file reachable twice without a cycle: the statement does not say; record only
		if ok {
			m.Count("diamond_accepted", 1)
		} else {
			m.Count("diamond_rejected", 1)
		}
		return
	case ref.openPerm:
		if ok {
			m.Count("open_permissions_accepted", 1)
		} else {
			m.Count("open_permissions_rejected", 1)
		}
		if !ok {
			return
		}
	case len(ref.badNamed)+len(ref.symlinked) > 0:
		if !ok {
			return
		}
	default:
		if !ok {
			j.report("valid-include-tree-rejected:"+c17ErrClass(o.Merge.Msg), "an acyclic include tree of .dae files inside the entry directory was rejected: "+o.Merge.Msg, witness())
			return
		}
	}
	// merged order: including file first, then each included file in listed order
	names := map[string]bool{}
	for s := range ref.secs {
		names[s] = true
	}
	for s := range o.Secs {
		if s != "include" {
			names[s] = true
		}
	}
	var sorted []string
	for s := range names {
		sorted = append(sorted, s)
	}
	sort.Strings(sorted)
	for _, s := range sorted {
		exp := strings.Join(ref.secs[s], "")
		got := o.Secs[s]
		if exp == got {
			m.Count("section_order_checked_equal", 1)
			if t.hasGlob {
				m.Count("glob_lexical_order_held", 1)
			}
			continue
		}
		w := witness()
		w["section"], w["expected_items"], w["got_items"] = s, exp, got
		own := strings.Join(ref.entryOwn[s], "")
		gotSet := strings.SplitAfter(got, "\n")
		// items may span several lines (nested sections): compare as multisets of lines instead
		expLines := strings.SplitAfter(exp, "\n")
		sort.Strings(expLines)
		sort.Strings(gotSet)
		same := strings.Join(expLines, "") == strings.Join(gotSet, "")
		switch {
		case !same:
			j.report("include-items-lost-or-added", "merged section "+s+" does not hold exactly the items of the entry file and its included files", w)
		case !strings.HasPrefix(got, own):
			j.report("include-order:including-file-not-first", "merged section "+s+" does not start with the including file's own items", w)
		case t.hasGlob:
			m.Count("glob_order_differs_from_lexical", 1) // the order inside one glob is not specified: no verdict
		default:
			j.report("include-order:listed-order", "merged section "+s+" is not in 'including file first, then each included file in listed order'", w)
		}
	}
	// files read
	var expRead, gotRead []string
	for p := range ref.read {
		expRead = append(expRead, p)
	}
	for _, e := range o.Entries {
		gotRead = append(gotRead, filepath.Clean(e))
	}
	sort.Strings(expRead)
	sort.Strings(gotRead)
	if strings.Join(expRead, "|") == strings.Join(gotRead, "|") {
		m.Count("entries_checked_equal", 1)
	} else {
		m.Count("entries_differ_from_reference", 1)
	}
}

// ---- the monitor ----------------------------------------------------------------------------

func TestVerifC17(t *testing.T) {
	if job := os.Getenv(c17EnvChild); job != "" {
		c17ChildMain(job)
		return
	}
	part := os.Getenv("VERIF_PART")
	m := vk.NewMonitor("C17", part, "exploration",
		"inputs: grammar-generated texts with their AST (free-form, every production, arbitrary layout/comments), documentation-valid full configurations, "+
			"configurations combining equivalent spellings / keys rewritten by config.New's patch stage (every combination class required), "+
			"semantic reject-mutants, exhaustive single-token edits of small bases, random token edits, arbitrary bytes, stress shapes, a match-set size ladder and include trees on disk; "+
			"distinct = structure hash of the parse result (accepted) / generator class x first-error class (rejected) / include-tree class; "+
			"non-trivial = every input runs the whole production front end in a child process")
	m.SetFloor(500)
	m.Assume("children are re-executions of this test binary; the id of the running input is on disk before dae is called, so crashes/hangs are attributed",
		"oracle for fidelity is the generator's own AST; the walker's Param for `k: a, b` is compared with the documented equivalent 'a,b'",
		"builders are driven without a datapath: routing.NewNormalizedProgram (production optimiser list) -> NewRoutingMatcherBuilderFromProgram(bpf=nil) -> BuildUserspace, dns.New; BuildKernspace (kernel map sizes) is not executed, so a program beyond the supported size that contains no domain condition past the limit is only recorded",
		"a hang is an input not finished after 30 s of wall clock in the child, judged only if reproduced when re-run alone",
		"typed routing oracle: the only normalisation applied to a written outbound is the documented `must_x` == `x(must)` (must_rules reserved); the place of `must` among the parameters is not judged; what an unwritten routing/dns fallback, an unknown HTTP method or a malformed bootstrap_resolver becomes is recorded, not judged",
		"class spell probes: rule i is the only rule whose dport list holds its probe ports (extra conditions are true for a TCP/IPv4/dscp 0 packet), so the reference decision is rule i's written outbound, or the fallback with must set after a must_rules rule; marks are decimal or 0x literals")
	dir, err := os.MkdirTemp(filepath.Join(vk.BuildDir(), "run"), "c17-*")
	if err != nil {
		dir, err = os.MkdirTemp("", "dae-17-run-*")
		if err != nil {
			t.Fatalf("tempdir: %v", err)
		}
	}
	defer os.RemoveAll(dir)
	workers := runtime.GOMAXPROCS(0) / 2
	if workers > 8 {
		workers = 8
	}
	if workers < 2 {
		workers = 2
	}
	rn := &c17Runner{m: m, dir: dir, workers: workers, batch: 50}
	j := &c17Judge{m: m, rn: rn, seen: map[string]int{}}
	r := vk.NewRand(0xC17)
	rg := &vk.RGen{R: r, Groups: []string{"g0", "g1", "my_group"}, NeighbourBias: 0.2, MaxRules: 8, WideOr: false, V6Slash0: true}

	limit := consts.MaxMatchSetLen
	phase := map[string]float64{}
	slow := map[string]int64{}
	tot := map[string]int64{}
	var maxMs int64
	nLadder := 0
	var validTexts []string
	var cfgDocs []*vk.CDoc
	// The text workload is generated, run and judged in rounds so that memory stays
	// bounded in the thorough tier; a round is a function of (seed, round number).
	rounds := vk.Scale(1, 36)
	if os.Getenv("VERIF_C17_ONLY") == "trees" { // debugging aid
		rounds = 0
	}
	for round := 0; round < rounds; round++ {
		var cases []*c17Case
		add := func(c *c17Case) {
			c.in.ID = len(cases)
			c.in.Text = base64.StdEncoding.EncodeToString([]byte(c.text))
			cases = append(cases, c)
		}
		// (A) free-form grammar exerciser
		for i, n := 0, vk.Scale(4000, 4000); i < n; i++ {
			d := vk.GenFreeDoc(r)
			c := &c17Case{class: "free", doc: d, text: vk.Layout(d.Tokens(), r, r.IntN(3))}
			if c.text == "" {
				c.text = " "
			}
			c.in.Build = true
			add(c)
			if len(validTexts) < 400 && !d.MayReject {
				validTexts = append(validTexts, c.text)
			}
		}
		// (B) documentation-valid configurations, and their reject-mutants
		for i, n := 0, vk.Scale(2000, 2000); i < n; i++ {
			d, meta := vk.GenConfigDoc(r, rg)
			style := 1
			if r.IntN(3) == 0 {
				style = 0
			}
			c := &c17Case{class: "config", doc: d, meta: meta, text: vk.Layout(d.Tokens(), r, style)}
			c.in.Build, c.in.Typed = true, true
			add(c)
			if len(cfgDocs) < 300 {
				cfgDocs = append(cfgDocs, d)
				validTexts = append(validTexts, c.text)
			}
		}
		// (B2) combinations of equivalent spellings / of the keys the patch stage of config.New rewrites;
		// document k is built around combination class k mod len(SpellClasses())
		for i, n := 0, vk.Scale(1500, 1500); i < n; i++ {
			d, sp := vk.GenSpellDoc(r, round*n+i)
			style := 1
			if r.IntN(3) == 0 {
				style = 0
			}
			c := &c17Case{class: "spell", doc: d, spell: sp, text: vk.Layout(d.Tokens(), r, style)}
			c.in.Build, c.in.Typed = true, true
			for _, pr := range sp.Probes {
				c.in.Probes = append(c.in.Probes, pr.Port)
			}
			add(c)
		}
		for i, n := 0, vk.Scale(1200, 1200); i < n; i++ {
			kind := vk.RejectKinds[i%len(vk.RejectKinds)]
			d, _ := vk.GenConfigDoc(r, rg)
			if !vk.MutateReject(r, d, kind) {
				m.Count("reject_mutant_not_applicable", 1)
				continue
			}
			c := &c17Case{class: "reject:" + kind, doc: d, text: vk.Layout(d.Tokens(), r, r.IntN(2))}
			c.in.Build = true
			add(c)
		}
		// (C) near-misses: random 1-3 token edits of generated valid texts ...
		for i, n := 0, vk.Scale(5000, 5000); i < n; i++ {
			var toks []vk.CTok
			if r.IntN(2) == 0 {
				toks = cfgDocs[r.IntN(len(cfgDocs))].Tokens()
			} else {
				toks = vk.GenFreeDoc(r).Tokens()
			}
			mt, desc := vk.MutateTokens(r, toks, 1+r.IntN(3))
			add(&c17Case{class: "mutate", text: vk.Layout(mt, r, r.IntN(2)), desc: desc, in: c17In{Build: true}})
		}
		// (D) arbitrary bytes
		for i, n := 0, vk.Scale(3000, 3000); i < n; i++ {
			txt, flavour := vk.GenBytes(r, validTexts[r.IntN(len(validTexts))])
			add(&c17Case{class: "bytes:" + flavour, text: txt, in: c17In{Build: true}})
		}
		// (G) one stray character between two tokens of a valid configuration (never inside a quoted
		// string or a comment). Whether the character belongs to the token alphabet or not, it is
		// written, so it cannot vanish: the text is rejected, or its parse result differs from the
		// one of the text without it ("correspond one-to-one ... to what is written").
		for i, n := 0, vk.Scale(800, 800); i < n; i++ {
			toks := cfgDocs[r.IntN(len(cfgDocs))].Tokens()
			base := &c17Case{class: "straybase", text: vk.Layout(toks, r, 0)}
			add(base)
			ch := c17Strays[r.IntN(len(c17Strays))]
			k := r.IntN(len(toks) + 1)
			t2 := append(append(append([]vk.CTok{}, toks[:k]...), vk.CTok{T: ch, K: 'p'}), toks[k:]...)
			add(&c17Case{class: "stray", text: vk.Layout(t2, r, 0), desc: []string{fmt.Sprintf("inserted %q before token %d of %d", ch, k, len(toks))}, pair: base})
		}
		if round == 0 {
			// ... and the COMPLETE single-edit neighbourhood of small bases
			for _, base := range vk.NearMissBases {
				toks := vk.SplitSimple(base)
				add(&c17Case{class: "edit", text: vk.JoinSimple(toks), desc: []string{"base"}, in: c17In{Build: true}})
				edits, descs := vk.SingleEdits(toks)
				for k := range edits {
					add(&c17Case{class: "edit", text: vk.JoinSimple(edits[k]), desc: []string{"base: " + base, descs[k]}, in: c17In{Build: true}})
				}
			}
			// (E) stress shapes
			stress := vk.StressTexts(vk.Scale(300, 700))
			var snames []string
			for k := range stress {
				snames = append(snames, k)
			}
			sort.Strings(snames)
			for _, k := range snames {
				add(&c17Case{class: "stress:" + k, text: stress[k], in: c17In{Build: true}})
			}
			// (F) size ladder around MaxMatchSetLen; the tail condition gets match-set index n-2 (the fallback is n-1)
			domainNs := []int{limit - 24, limit, limit + 1, limit + 2, limit + 76}
			otherNs := []int{limit, limit + 2}
			if vk.Thorough() {
				domainNs, otherNs = nil, nil
				for n := limit - 24; n <= limit+76; n++ {
					domainNs = append(domainNs, n)
					if n%4 == 0 || (n >= limit-2 && n <= limit+4) {
						otherNs = append(otherNs, n)
					}
				}
			}
			tails := map[string][]string{
				"routing":      {"domain-suffix", "domain-full", "domain-keyword", "domain-regex", "dip", "dip6", "sip", "dport", "sport", "mac", "pname", "l4proto"},
				"dns-request":  {"qname-suffix", "qname-full", "qname-keyword", "qname-regex", "qtype"},
				"dns-response": {"qname-suffix", "qname-keyword", "qname-regex", "ip", "upstream", "qtype"},
			}
			for _, where := range []string{"routing", "dns-request", "dns-response"} {
				for _, tail := range tails[where] {
					ns := otherNs
					if strings.HasPrefix(tail, "domain") || strings.HasPrefix(tail, "qname") {
						ns = domainNs
					}
					for _, n := range ns {
						c := &c17Case{class: "ladder", text: vk.LadderText(where, n, tail), ladder: [3]string{where, strconv.Itoa(n), tail}}
						c.in.Build = true
						add(c)
						nLadder++
					}
				}
			}
		}

		// ---- run and judge the round
		var ins, lins []c17In
		for _, c := range cases {
			if c.class == "ladder" || strings.HasPrefix(c.class, "stress") {
				lins = append(lins, c.in) // heavy inputs: small batches so that they spread over the workers
			} else {
				ins = append(ins, c.in)
			}
		}
		tp := time.Now()
		res := rn.run(ins)
		phase["texts_run_s"] += time.Since(tp).Seconds()
		if len(lins) > 0 {
			tp = time.Now()
			for k, v := range rn.runB(lins, 6) {
				res[k] = v
			}
			phase["ladder_stress_run_s"] += time.Since(tp).Seconds()
		}
		tp = time.Now()
		for _, c := range cases {
			o, ok := res[c.in.ID]
			if !ok {
				m.Count("inputs_without_observation", 1)
				continue
			}
			if o.Ms > maxMs {
				maxMs = o.Ms
			}
			tot[strings.SplitN(c.class, ":", 2)[0]] += o.Us
			if o.Ms >= 1000 {
				k := c.class
				if c.class == "ladder" {
					k += ":" + c.ladder[0] + ":" + c.ladder[1]
				}
				if o.Ms > slow[k] {
					slow[k] = o.Ms
				}
			}
			j.judgeText(c, o)
			if c.class == "stray" && c.pair != nil {
				if ob, ok := res[c.pair.in.ID]; ok && ob.Parse.St == "ok" {
					switch {
					case o.Parse.St != "ok":
						m.Count("stray_character_rejected", 1)
					case o.Dump != ob.Dump:
						m.Count("stray_character_became_part_of_the_result", 1)
					default:
						w := c17TextWitness(c.text)
						w["edits"], w["text_without_the_character"] = c.desc, c.pair.text
						j.report("stray-character-vanished", "a text with an extra character between two tokens is accepted and parses to exactly what the text without it parses to: the character is silently dropped", w)
					}
					m.Distinct("stray|" + c.desc[0][:12] + "|" + o.Parse.St)
				}
			}
			if c.class == "ladder" {
				n, _ := strconv.Atoi(c.ladder[1])
				m.Distinct("ladder|" + c.ladder[0] + "|" + c.ladder[2] + "|" + fmt.Sprint(n >= limit, n > limit))
				st := o.Routing
				if c.ladder[0] != "routing" {
					st = o.Dns
				}
				if c17CrashSigOf(c, o) != "" {
					continue
				}
				if o.Parse.St != "ok" || o.New.St != "ok" {
					j.report("ladder-front-end-rejected", "size-ladder configuration rejected before the builders: "+o.Parse.Msg+o.New.Msg,
						map[string]any{"builder": c.ladder[0], "n": c.ladder[1], "tail": c.ladder[2]})
					continue
				}
				if c.ladder[0] == "routing" && o.NSets != n && o.Routing.St != "err" {
					m.Count("ladder_matchset_count_differs_from_plan", 1)
				}
				domainTail := strings.HasPrefix(c.ladder[2], "domain") || strings.HasPrefix(c.ladder[2], "qname")
				switch {
				case n <= limit && st.St == "ok":
					m.Count("ladder_within_limit_built", 1)
				case n <= limit && st.St == "err":
					// a program within the documented capacity must compile
					j.report("ladder-within-limit-rejected:"+c.ladder[0], fmt.Sprintf("%s program with %d match sets (limit %d) rejected: %s", c.ladder[0], n, limit, st.Msg),
						map[string]any{"builder": c.ladder[0], "n": n, "tail": c.ladder[2], "error": st.Msg})
				case n > limit && st.St == "err":
					m.Count("ladder_beyond_limit_clean_error", 1)
					if domainTail && n-2 >= limit {
						m.Count("ladder_domain_set_past_capacity_clean_error", 1)
					}
				case n > limit && st.St == "ok":
					m.Count("ladder_beyond_limit_accepted_by_userspace_builder", 1)
				}
			}
			if m.WantSample() && c.class == "config" && len(c.text) < 1500 {
				m.Sample(map[string]any{"class": c.class, "text": c.text, "parse": o.Parse.St, "new": o.New.St, "routing": o.Routing.St, "dns": o.Dns.St})
			}
		}
		phase["texts_judge_s"] += time.Since(tp).Seconds()
	}
	tp := time.Now()
	m.Set("inputs_over_1s_by_class_max_ms", slow)
	m.Set("child_cpu_by_class_total_us", tot)
	m.Set("slowest_input_ms", maxMs)
	m.Set("ladder_cases", nLadder)
	m.Set("rounds", rounds)

	// ---- (G) include trees
	ntrees := vk.Scale(400, 4000)
	rt := vk.NewRand(0xC17 + 1)
	var trees []*c17Tree
	var tins []c17In
	for i := 0; i < ntrees; i++ {
		tr := c17GenTree(rt, i, filepath.Join(dir, fmt.Sprintf("tree%05d", i)))
		trees = append(trees, tr)
		in := c17In{ID: i, Entry: tr.entry}
		in.Watch, in.Fifos = tr.watchLists()
		tins = append(tins, in)
	}
	tres := rn.run(tins)
	for _, tr := range trees {
		o, ok := tres[tr.id]
		if !ok {
			m.Count("inputs_without_observation", 1)
			continue
		}
		j.judgeTree(tr, o)
	}
	if vk.Thorough() {
		c17StraceTier(m, j, rn, trees, tins)
	}

	phase["trees_s"] = time.Since(tp).Seconds()
	m.Set("phase_seconds", phase)
	sigs := map[string]int{}
	for k, v := range j.seen {
		sigs[k] = v
	}
	m.Set("violation_signatures", sigs)
	m.Require("fidelity_checked_equal", "outcome_parse_err", "outcome_parse_ok_new_err", "outcome_parse_ok_new_ok",
		"routing_build_ok", "dns_build_ok", "reject_mutants_clean_error", "typed_fields_checked", "typed_defaults_checked",
		"ladder_within_limit_built", "trees_merged", "trees_rejected", "cycle_rejected", "section_order_checked_equal",
		"decoy_markers_absent", "bad_include_rejected", "texts_edit", "texts_mutate", "texts_bytes", "texts_stress",
		"trees_file_access_observed", "file_access_positive_control_seen", "named_forbidden_file_untouched", "named_forbidden_fifo_untouched",
		"named_non_syntax_decoy_absent_from_error", "bad_entry_rejected",
		"typed_rules_checked", "typed_fallbacks_checked", "spell_probes_checked", "spell_probes_rule", "spell_probes_fallback", "spell_probes_must_rules-then-fallback")
	// every combination class of the spell generator must have been generated, accepted and judged
	for _, cl := range vk.SpellClasses() {
		m.Require("spell_" + cl)
	}
	m.Done(t)
}

// c17StraceTier re-runs the include trees under strace and checks that no
// decoy file is ever opened.
func c17StraceTier(m *vk.Monitor, j *c17Judge, rn *c17Runner, trees []*c17Tree, tins []c17In) {
	if _, err := exec.LookPath("strace"); err != nil {
		m.Count("strace_unavailable", 1)
		return
	}
	n := len(tins)
	if n > 2000 {
		n = 2000
	}
	srn := &c17Runner{m: m, dir: rn.dir, workers: 1, batch: n, strace: true}
	srn.seq.Store(900000)
	_ = srn.run(tins[:n])
	traces, _ := filepath.Glob(filepath.Join(rn.dir, "job9*.strace"))
	if len(traces) == 0 {
		m.Count("strace_no_trace", 1)
		return
	}
	decoys := map[string]*c17TFile{}
	for _, t := range trees[:n] {
		for p, f := range t.files {
			if f.decoy != "" && f.decoy != "dir" && f.linkKind == "" {
				decoys[p] = f
			}
		}
	}
	re := regexp.MustCompile(`open(?:at)?\((?:AT_FDCWD, )?"([^"]+)", ([A-Z_|]+)`)
	for _, tp := range traces {
		f, err := os.Open(tp)
		if err != nil {
			continue
		}
		sc := bufio.NewScanner(f)
		sc.Buffer(make([]byte, 1<<20), 16<<20)
		for sc.Scan() {
			mm := re.FindStringSubmatch(sc.Text())
			if mm == nil {
				continue
			}
			m.Count("strace_opens_seen", 1)
			if strings.Contains(mm[2], "O_DIRECTORY") || strings.Contains(mm[2], "O_WRONLY") {
				continue // O_WRONLY: the monitor's own probe of a FIFO's read end; the merger never opens for writing
			}
			if d, ok := decoys[filepath.Clean(mm[1])]; ok {
				j.report("include-opened-decoy:"+d.decoy, "the merger opened a file that is not a .dae file inside the entry directory: "+d.rel,
					map[string]any{"strace_line": sc.Text()})
			}
		}
		f.Close()
	}
	m.Count("strace_tier_ran", 1)
}
