package control

// Bridge for the C20 monitor (package cmd), injected with -overlay: an otherwise empty control
// plane whose Close() reports an error, the way a real generation does when one of its deferred
// clean-ups fails or its close tail times out.
func VerifC20ControlPlaneWithCloseError(closeErr error) *ControlPlane {
	return &ControlPlane{deferFuncs: []func() error{func() error { return closeErr }}}
}
