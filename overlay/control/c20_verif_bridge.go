package control

// Bridge for the C20 monitor (package cmd), injected with -overlay: an otherwise empty control
// plane whose Close() reports an error, the way a real generation does when one of its deferred
// clean-ups fails or its close tail times out.
func VerifC20ControlPlaneWithCloseError(closeErr error) *ControlPlane {
	return &ControlPlane{deferFuncs: []func() error{func() error { return closeErr }}}
}

// VerifC20ControlPlaneWithSessions: an otherwise empty control plane with n sessions that never
// end by themselves (drain tickets that are only released by the returned function).
func VerifC20ControlPlaneWithSessions(closeErr error, n int) (*ControlPlane, func()) {
	c := &ControlPlane{drainTracker: newControlPlaneDrainTracker()}
	if closeErr != nil {
		c.deferFuncs = []func() error{func() error { return closeErr }}
	}
	var rel []func()
	for i := 0; i < n; i++ {
		rel = append(rel, c.drainTracker.Acquire())
	}
	return c, func() {
		for _, f := range rel {
			f()
		}
	}
}
