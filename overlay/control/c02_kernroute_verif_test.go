package control

// C02 monitor: route() of control/kern/tproxy.c (native, ASan+UBSan) over the
// bytes the Go side emits must equal RoutingMatcher.Match, except that a
// port-53 packet not covered by must is handed to the control plane.

import (
	"fmt"
	"testing"

	"github.com/daeuniverse/dae/common/consts"
	vk "github.com/daeuniverse/dae/verifkit"
)

type verifC02Case struct {
	pkt vk.RPkt
	wan bool
}

func TestVerifC02(t *testing.T) {
	m := vk.NewMonitor("C02", "main", "translation_validation",
		"generated routing text compiled by the real builder; the real ring-slot rewrite and key/port/bitmap encoders produce the bytes loaded into tproxy.c's maps (native build under ASan+UBSan); "+
			"route() vs RoutingMatcher.Match on boundary packets, LAN (MAC, no pname) and WAN (pname); distinct = (match type deciding in Go's view via shape of deciding rule) x family x LAN/WAN x port-53 class x ring-wrap")
	m.SetFloor(200)
	m.Assume("kernel LPM trie semantics emulated by the shim (longest stored prefix whose first prefixlen bits equal the key's)",
		"route() arguments are built as do_tproxy_lan_ingress/do_tproxy_wan_egress_* build them (validated through the entry points in C03)",
		"struct values are handed to the C side as their in-memory bytes (cilium/ebpf marshals HostLayout structs that way)")
	verifGroupIDs = []uint8{2, 100, 250, uint8(consts.OutboundUserDefinedMax)}
	defer func() { verifGroupIDs = nil }()
	_, id2name := verifOutboundTable()
	r := vk.NewRand(0xC02)
	k, err := vk.StartKernsim("C02", "main")
	if err != nil {
		m.Inconclusive("cannot build/start kernsim: %v", err)
		m.Done(t)
		return
	}
	defer k.Close()
	gen := &vk.RGen{R: r, Groups: verifGroups, NeighbourBias: 0.2, V6Slash0: true, WideOr: true}
	nprog := vk.Scale(400, 10000)
	npkt := vk.Scale(300, 500)
	nbig := vk.Scale(2, 50)
	programs, pairs := 0, 0
	for i := 0; i < nprog+nbig && m.Violations() < 5; i++ {
		big := i >= nprog
		if big {
			gen.ExactRules = 280 + r.IntN(60)
		} else {
			gen.ExactRules = 0
		}
		p := gen.Gen()
		rules, fb, err := verifParseRouting(p.Text())
		if err != nil {
			m.Violation("frontend-error", err.Error(), map[string]any{"text": p.Text()})
			continue
		}
		b, err := verifBuildMatcher(rules, fb, verifProductionOptimizers()...)
		if err != nil {
			if big {
				m.Count("big_program_rejected", 1)
				continue
			}
			m.Violation("build-error", err.Error(), map[string]any{"text": p.Text()})
			continue
		}
		if big {
			if b.nSets < 700 || b.nSets > consts.MaxMatchSetLen {
				m.Count("big_program_out_of_band", 1)
				if b.nSets > consts.MaxMatchSetLen {
					continue
				}
			} else {
				m.Count("big_programs_900ish", 1)
			}
		}
		// simulate previous reloads: advance the ring, sometimes close to wrap-around
		wrap := false
		switch r.IntN(4) {
		case 0:
			globalNextLpmIndex.Store(uint32(r.IntN(consts.MaxMatchSetLen)))
		case 1:
			globalNextLpmIndex.Store(uint32(consts.MaxMatchSetLen - 1 - r.IntN(3)))
			wrap = len(b.snap.simulatedLpmTries) > 3
		}
		if i%8 == 0 {
			k.Reset()
		}
		start, err := verifLoadProgram(k, b.snap)
		if err != nil {
			if k.Dead() != nil {
				m.Violation("sanitizer/load", "kernsim died while loading program", map[string]any{"text": p.Text(), "report": k.Dead().Error(), "replay": k.Replay})
				break
			}
			m.Violation("load-error", err.Error(), map[string]any{"text": p.Text(), "ringStart": start})
			continue
		}
		programs++
		pkts := vk.ProbePackets(p, r, npkt)
		cases := make([]verifC02Case, len(pkts))
		for j := range pkts {
			wan := r.IntN(2) == 0
			if !wan {
				pkts[j].Pname = ""
			} else if r.IntN(3) == 0 {
				pkts[j].Mac = [6]byte{}
			}
			cases[j] = verifC02Case{pkts[j], wan}
			a16 := pkts[j].Dst.Addr().As16()
			if pkts[j].Domain != "" {
				bm := b.matcher.domainMatcher.MatchDomainBitmap(pkts[j].Domain)
				k.QMapUpdate("domain_routing_map", verifDomainKey(a16), verifDomainVal(bm), 0)
			} else {
				k.QMapDelete("domain_routing_map", verifDomainKey(a16))
			}
			rq := verifRouteReq(pkts[j], wan)
			k.QRoute(&rq)
		}
		res := k.Sync()
		if k.Dead() != nil {
			m.Violation("sanitizer/route", "kernsim died (ASan/UBSan report or crash) while routing", map[string]any{"text": p.Text(), "report": k.Dead().Error(), "replay": k.Replay})
			break
		}
		for j, c := range cases {
			cres := res[2*j+1].Route
			if res[2*j].Op == 2 && res[2*j].Rc != 0 {
				m.Violation("domain-map-update", fmt.Sprintf("domain_routing_map update rc=%d", res[2*j].Rc), map[string]any{"text": p.Text()})
				break
			}
			pairs++
			m.Eval(1)
			var mac16 [16]byte
			copy(mac16[10:], c.pkt.Mac[:])
			ipv := consts.IpVersion_6
			if c.pkt.Dst.Addr().Is4() {
				ipv = consts.IpVersion_4
			}
			gob, gmark, gmust, gerr := b.matcher.Match(c.pkt.Src.Addr().As16(), c.pkt.Dst.Addr().As16(), c.pkt.Src.Port(), c.pkt.Dst.Port(),
				ipv, verifL4(c.pkt.L4), c.pkt.Domain, verifPname(c.pkt.Pname), c.pkt.Dscp, mac16)
			ref := vk.RefRoute(p, c.pkt)
			fam := "v6"
			if c.pkt.Dst.Addr().Is4() {
				fam = "v4"
			}
			dns := c.pkt.Dst.Port() == 53
			shape := "fallback"
			if ref.Rule >= 0 {
				shape = p.Rules[ref.Rule].ShapeSig()
			}
			m.Distinct(fmt.Sprintf("%s|%s|wan=%v|dns=%v|wrap=%v", shape, fam, c.wan, dns, wrap))
			if dns {
				m.Count("port53_pairs", 1)
			}
			if c.wan {
				m.Count("wan_pairs", 1)
			} else {
				m.Count("lan_pairs", 1)
			}
			if wrap {
				m.Count("ring_wrap_pairs", 1)
			}
			bad := ""
			if gerr != nil {
				bad = "Go matcher error: " + gerr.Error()
			} else if cres < 0 {
				bad = fmt.Sprintf("route() returned error %d", cres)
			} else {
				cob := uint8(cres & 0xff)
				cmark := uint32(cres >> 8)
				cmust := (cres>>40)&1 == 1
				if dns && !gmust {
					m.Count("control_plane_routing_expected", 1)
					if cob != uint8(consts.OutboundControlPlaneRouting) || cmark != gmark || cmust {
						bad = fmt.Sprintf("port-53 non-must packet: want outbound 0xFD mark=%d must=0, C says outbound=%#x mark=%d must=%v", gmark, cob, cmark, cmust)
					}
				} else if cob != uint8(gob) || cmark != gmark || cmust != gmust {
					bad = fmt.Sprintf("C route() = (%s/%d, mark=%d, must=%v) but Go Match = (%s/%d, mark=%d, must=%v)",
						id2name[cob], cob, cmark, cmust, id2name[uint8(gob)], uint8(gob), gmark, gmust)
				}
			}
			if bad != "" {
				m.Violation("kern-vs-user/"+shape, bad, map[string]any{"text": p.Text(), "packet": c.pkt.String(), "wan": c.wan,
					"ringStart": start, "reference": ref, "kernsim_replay": k.Replay})
				break
			}
		}
		if m.WantSample() {
			m.Sample(map[string]any{"text": p.Text(), "packet": cases[0].pkt.String(), "wan": cases[0].wan, "ringStart": start, "c_result": res[1].Route})
		}
	}
	m.Set("programs", programs)
	m.Set("disagreements_checked", pairs)
	m.Require("port53_pairs", "wan_pairs", "lan_pairs", "ring_wrap_pairs", "control_plane_routing_expected", "big_programs_900ish")
	m.Done(t)
}
