package control

// C13 monitor, part (b) continued: two history classes on UdpEndpointPool that the
// random mixed histories reach only rarely.
//
//  1. retry-family: the dial of a first packet fails with a "this address family
//     cannot be used" error, the routing side re-selects (other family, other
//     dialer, same again, or a selection without explicit network type) and the
//     second dial succeeds. Afterwards health changes are reported per (dialer,
//     family). The fake network knows which dialer and which address family every
//     conn was REALLY dialled with; an endpoint whose real (dialer, family) was
//     invalidated before it carried traffic must not be handed out by any lookup
//     (Get / GetOrCreate) that begins after the invalidation returned.
//
//  2. late-cleanup: a packet handler whose endpoint died (failed write, read
//     error, invalidation, transport end, handler error) performs its clean-up
//     (UdpEndpointPool.Remove(key, its endpoint), Close, transport end) AFTER
//     another handler has already created the replacement under the same key.
//     The replacement was touched by nobody: it must stay the endpoint of the key
//     (no further dial while it is alive) and must be closed exactly once when the
//     pool is closed. Judged by the ordinary history oracle (checkHistory/finish).

import (
	"fmt"
	"io"
	"net/netip"
	"strings"
	"sync"

	"time"

	vk "github.com/daeuniverse/dae/verifkit"
)

func c13EndpointRetryFamily(m *vk.Monitor) {
	rng := vk.NewRand(0xC13F1)
	reported := map[string]bool{}
	rounds := vk.Scale(200, 5000)
	retryKinds := []int{c13DialUnreachable, c13DialUnreachMsg, c13DialNoSuitable, c13DialNonIPv4}
	for round := 0; round < rounds && m.Violations() < 5; round++ {
		h := c13NewEP(10 * time.Minute)
		k := rng.IntN(len(h.keys))
		pref := 4 + 2*rng.IntN(2)
		h.prefFam[k] = pref
		d0 := h.keyDialer[k]
		// first dial
		first := retryKinds[rng.IntN(len(retryKinds))]
		switch rng.IntN(12) {
		case 0:
			first = c13DialOK // control: endpoint of the first attempt
		case 1:
			first = c13DialRefused // control: an error class without in-call retry
		}
		// what the routing side selects on the second GetDialOption
		resel := rng.IntN(10)
		reselName := "other-family"
		switch {
		case resel < 5:
			// the chooser built into the harness: other family of the same dialer
		case resel < 7 && !h.keyFixed[k]:
			reselName = "other-dialer-other-family"
			h.optScript[k] = []c13Opt{{Dialer: d0, Fam: pref}, {Dialer: (d0 + 1 + rng.IntN(2)) % 3, Fam: 10 - pref}}
		case resel < 8 && !h.keyFixed[k]:
			reselName = "other-dialer-same-family"
			h.optScript[k] = []c13Opt{{Dialer: d0, Fam: pref}, {Dialer: (d0 + 1 + rng.IntN(2)) % 3, Fam: pref}}
		case resel < 9:
			reselName = "same-again"
			h.optScript[k] = []c13Opt{{Dialer: d0, Fam: pref}, {Dialer: d0, Fam: pref}}
		default:
			reselName = "no-explicit-type"
			h.optScript[k] = []c13Opt{{Dialer: d0, Fam: pref}, {Dialer: d0, NilType: true, Fam: 4}}
		}
		second := c13DialOK
		if rng.IntN(10) == 0 {
			second = []int{c13DialEOF, c13DialUnreachable, c13DialTimeout}[rng.IntN(3)]
		}
		h.script[k] = []c13Outcome{{Kind: first}, {Kind: second}}
		sig := fmt.Sprintf("b-retry|key%d|pref%d|%s|%s|second-%s", k, pref, c13DialNames[first], reselName, c13DialNames[second])

		c1 := h.goc(k, 0, "first-packet")
		attempts := int(h.dialsStarted.Load())
		m.Eval(1)
		m.Count("b_retry_rounds", 1)
		if c1.Err != "" || c1.conn == nil {
			m.Count("b_retry_no_endpoint_after_attempts", 1)
			// a later packet: negative cache or a fresh dial, judged by the ordinary history rules
			h.goc(k, 0, "later")
			vs := h.checkHistory(true)
			fin, inc := h.finish()
			if inc != "" {
				m.Inconclusive("endpoint retry-family round %d: %s", round, inc)
				break
			}
			vs = append(vs, fin...)
			m.Distinct(sig + "|no-endpoint")
			c13Report(m, reported, "retry/", c13Dedup(vs), h, map[string]any{"round": round, "kind": "retry-family", "shape": sig})
			if len(fin) > 0 {
				break
			}
			continue
		}
		aD, aF := c1.conn.Dialer, c1.conn.Family
		if attempts == 2 {
			m.Count("b_retry_endpoints_from_second_attempt", 1)
			if aF != pref {
				m.Count("b_retry_family_switched_endpoints", 1)
			}
			if aD != d0 {
				m.Count("b_retry_dialer_switched_endpoints", 1)
			}
			if aF == pref && aD == d0 {
				m.Count("b_retry_same_selection_endpoints", 1)
			}
		} else {
			m.Count("b_retry_endpoints_from_first_attempt", 1)
		}
		traffic := rng.IntN(4) == 0
		if traffic {
			_ = h.write(c1)
		}
		// health changes: own = the (dialer, family) the conn was really dialled with
		type inv struct{ d, f int }
		own := inv{aD, aF}
		otherFam := inv{aD, 10 - aF}
		otherDialer := inv{(aD + 1 + rng.IntN(2)) % 3, aF}
		var plan []inv
		switch rng.IntN(6) {
		case 0, 1:
			plan = []inv{own}
		case 2:
			plan = []inv{otherFam, own}
		case 3:
			plan = []inv{otherFam}
		case 4:
			plan = []inv{otherDialer, otherFam, own}
		default:
			plan = []inv{otherDialer, own, otherFam}
		}
		var planNames []string
		ownDone := false
		for _, iv := range plan {
			wasOpen := c1.conn.closes.Load() == 0
			h.invalidateFam(iv.d, iv.f)
			isOwn := iv == own
			switch {
			case isOwn:
				planNames = append(planNames, "own")
				ownDone = true
				if h.keyFixed[k] {
					m.Count("b_retry_own_type_invalidated_fixed_policy_endpoint", 1)
				} else if !traffic {
					m.Count("b_retry_own_type_invalidated_before_traffic", 1)
					if aF != pref || aD != d0 {
						m.Count("b_retry_own_type_invalidated_before_traffic_after_switch", 1)
					}
				} else {
					m.Count("b_retry_own_type_invalidated_after_traffic", 1)
				}
			default:
				if iv.d == aD {
					planNames = append(planNames, "other-family")
				} else {
					planNames = append(planNames, "other-dialer")
				}
				m.Count("b_retry_other_type_invalidations", 1)
				// Observation only: the statement does not say that a health change of another
				// (dialer, family) must leave the endpoint alone.
				if wasOpen && !ownDone && c1.conn.closes.Load() > 0 {
					m.Count("b_retry_other_type_invalidation_retired_endpoint", 1)
				} else if wasOpen && !ownDone {
					m.Count("b_retry_other_type_invalidation_left_endpoint_alone", 1)
				}
			}
			for j, n := 0, 1+rng.IntN(3); j < n; j++ {
				if rng.IntN(3) == 0 {
					g := h.get(k, "later")
					if isOwn && !traffic && !h.keyFixed[k] {
						m.Count("b_retry_calls_after_own_invalidation", 1)
					}
					_ = g
					continue
				}
				c := h.goc(k, 0, "later")
				if isOwn && !traffic && !h.keyFixed[k] {
					m.Count("b_retry_calls_after_own_invalidation", 1)
					if c.Err == "" && c.conn != nil && c.conn != c1.conn {
						m.Count("b_retry_replaced_after_own_invalidation", 1)
					}
				}
				if c.Err == "" && rng.IntN(3) == 0 {
					_ = h.write(c)
				}
			}
		}
		vs := h.checkHistory(true)
		fin, inc := h.finish()
		if inc != "" {
			c13Report(m, reported, "retry/", c13Dedup(vs), h, map[string]any{"round": round, "kind": "retry-family", "shape": sig})
			m.Inconclusive("endpoint retry-family round %d: %s", round, inc)
			break
		}
		vs = append(vs, fin...)
		vs = append(vs, h.checkHistory(false)...)
		m.Distinct(fmt.Sprintf("%s|traffic%v|%s", sig, traffic, strings.Join(planNames, ",")))
		if m.WantSample() && round%41 == 0 {
			m.Sample(map[string]any{"part": "endpoint-retry-family", "shape": sig, "dialled_with": fmt.Sprintf("dialer%d udp%d", aD, aF), "traffic_before_invalidation": traffic,
				"invalidations": planNames, "dial_log": h.dialLog, "ops": h.opLog})
		}
		c13Report(m, reported, "retry/", c13Dedup(vs), h, map[string]any{"round": round, "kind": "retry-family", "shape": sig,
			"really_dialled_with": map[string]int{"dialer": aD, "family": aF}, "invalidation_plan": planNames})
		if len(fin) > 0 {
			break
		}
	}
}

func c13EndpointLateCleanup(m *vk.Monitor) {
	rng := vk.NewRand(0xC13F2)
	reported := map[string]bool{}
	rounds := vk.Scale(160, 4000)
	howNames := []string{"failing-write", "short-write", "hard-read-error", "invalidation-before-traffic", "transport-end", "handler-error"}
	whatNames := []string{"pool.Remove", "write-on-dead-then-pool.Remove", "Close", "transport-end-then-pool.Remove"}
	for round := 0; round < rounds && m.Violations() < 5; round++ {
		h := c13NewEP(10 * time.Minute)
		k := rng.IntN(len(h.keys))
		how := rng.IntN(len(howNames))
		if how == 3 && h.keyFixed[k] {
			how = 0 // a fixed-policy endpoint ignores dialer health
		}
		transport := how == 4 || rng.IntN(4) == 0
		h.script[k] = []c13Outcome{{Kind: c13DialOK, Transport: transport, Short: how == 1}}
		c1 := h.goc(k, 0, "A")
		if c1.Err != "" || c1.conn == nil {
			h.finish()
			continue
		}
		if how != 3 && (rng.IntN(2) == 0 || how == 5) { // a reply is only accepted from a peer the endpoint has written to
			_ = h.write(c1)
		}
		switch how {
		case 0, 1:
			c1.conn.failNow.Store(true)
			_ = h.write(c1)
		case 2:
			h.injectRead(c1.conn, c13Read{err: io.ErrUnexpectedEOF}, true)
		case 3:
			h.invalidateFam(c1.conn.Dialer, c1.conn.Family)
		case 4:
			c13MinStamp(&c1.conn.killBegin, h.clock.Add(1))
			c1.conn.tdOnce.Do(func() { close(c1.conn.td) })
		case 5:
			c13MinStamp(&c1.conn.killBegin, h.clock.Add(1))
			h.handlerFail.Store(int64(c1.conn.ID) + 1)
			h.injectRead(c1.conn, c13Read{data: []byte("pong"), from: netip.MustParseAddrPort(c1.conn.Target)}, true)
		}
		if !c13WaitFor(func() bool { return c1.conn.closes.Load() > 0 }, 3*time.Second) {
			m.Count("b_latecleanup_first_endpoint_did_not_die/"+howNames[how], 1)
			h.finish()
			continue
		}
		h.observeDead(c1)
		replaced := rng.IntN(5) != 0
		var c2 *c13Call
		if replaced {
			c2 = h.goc(k, 0, "B")
			if c2.Err != "" || c2.conn == nil || c2.conn == c1.conn {
				// judged by the history rules (dead endpoint handed out / dial error)
				replaced = false
			} else {
				m.Count("b_latecleanup_replacement_created", 1)
				if rng.IntN(2) == 0 {
					_ = h.write(c2)
				}
			}
		}
		what := rng.IntN(len(whatNames))
		if what == 3 && c1.conn.td == nil {
			what = 0
		}
		cleanup := func() {
			switch what {
			case 0:
				h.remove(k, c1)
			case 1:
				_ = h.write(c1)
				h.remove(k, c1)
			case 2:
				_ = c1.ue.Close()
				h.logOp("Close(conn%d)", c1.conn.ID)
			case 3:
				c1.conn.tdOnce.Do(func() { close(c1.conn.td) })
				h.logOp("transport of conn%d ended", c1.conn.ID)
				h.remove(k, c1)
			}
		}
		concurrent := 0
		if rng.IntN(3) == 0 {
			concurrent = 1 + rng.IntN(3)
		}
		if concurrent == 0 {
			cleanup()
		} else {
			var wg sync.WaitGroup
			start := make(chan struct{})
			wg.Add(1)
			go func() { defer wg.Done(); <-start; cleanup() }()
			for i := 0; i < concurrent; i++ {
				wg.Add(1)
				go func(i int) {
					defer wg.Done()
					<-start
					c := h.goc(k, 0, fmt.Sprintf("C%d", i))
					if c.Err == "" && i%2 == 0 {
						_ = h.write(c)
					}
				}(i)
			}
			close(start)
			wg.Wait()
		}
		m.Eval(1)
		m.Count("b_latecleanup_rounds", 1)
		isRemove := what != 2
		if replaced && isRemove {
			m.Count("b_latecleanup_stale_remove_after_replacement", 1)
		} else if isRemove {
			m.Count("b_latecleanup_remove_without_replacement", 1)
		}
		kept := false
		for j, n := 0, 1+rng.IntN(3); j < n; j++ {
			var c *c13Call
			if rng.IntN(4) == 0 {
				c = h.get(k, "later")
			} else {
				c = h.goc(k, 0, "later")
			}
			if replaced && c.conn != nil && c.conn == c2.conn {
				kept = true
			}
			if c.Err == "" && c.conn != nil && rng.IntN(2) == 0 {
				_ = h.write(c)
			}
		}
		if kept {
			m.Count("b_latecleanup_replacement_kept", 1)
		}
		// sometimes the handler of the CURRENT endpoint removes it as well: a regular removal
		if rng.IntN(4) == 0 {
			cur := h.goc(k, 0, "D")
			if cur.Err == "" && cur.conn != nil {
				h.remove(k, cur)
				nx := h.goc(k, 0, "later")
				if nx.Err == "" && nx.conn != nil && nx.conn != cur.conn {
					m.Count("b_latecleanup_regular_remove_then_redial", 1)
				}
			}
		}
		vs := h.checkHistory(true)
		fin, inc := h.finish()
		sig := fmt.Sprintf("b-latecleanup|key%d|%s|%s|replaced%v|concurrent%d", k, howNames[how], whatNames[what], replaced, concurrent)
		extra := map[string]any{"round": round, "kind": "late-cleanup", "first_endpoint_died_by": howNames[how], "late_cleanup": whatNames[what],
			"replacement_created_before_cleanup": replaced, "lookups_concurrent_with_cleanup": concurrent}
		if inc != "" {
			c13Report(m, reported, "latecleanup/", c13Dedup(vs), h, extra)
			m.Inconclusive("endpoint late-cleanup round %d: %s", round, inc)
			break
		}
		vs = append(vs, fin...)
		vs = append(vs, h.checkHistory(false)...)
		m.Distinct(sig)
		if m.WantSample() && round%43 == 0 {
			m.Sample(map[string]any{"part": "endpoint-late-cleanup", "shape": sig, "dial_log": h.dialLog, "ops": h.opLog})
		}
		c13Report(m, reported, "latecleanup/", c13Dedup(vs), h, extra)
		if len(fin) > 0 {
			break
		}
	}
}
