package control

// C07 monitor: DNS questions and answers are routed by the first matching DNS
// rule. Two levels, both on dae's real code:
//   level 1  dns.New (text -> config_parser -> config.New -> optimisers ->
//            builders) : Dns.RequestSelect / Dns.ResponseSelect == reference;
//   level 2  DnsController.HandleWithResponseWriter_ with the real routing and
//            recording fake forwarders: upstream call sequence, final reply,
//            reject-with-primed-cache, bounded re-asks, the same name coming back
//            with another qtype;
//   level 2f the same flow with a fault between "upstream answered" and "response
//            routed" (generation cancelled / client cancelled / work budget
//            expired) followed by retries on the same controller and on the
//            successor generation sharing the store (verifC07Fault*).
// The daedns Router (dae's own lookups) is monitored by part daedns
// (component/daedns/c07_daedns_verif_test.go).
// The oracle is verifkit.RefDns* (written from docs/en/configuration/dns.md).

import (
	"context"
	"fmt"
	"math/rand/v2"
	"net"
	"net/netip"
	"sort"
	"strings"
	"sync"
	"sync/atomic"
	"testing"
	"time"

	"github.com/daeuniverse/dae/common/consts"
	"github.com/daeuniverse/dae/component/dns"
	"github.com/daeuniverse/dae/config"
	"github.com/daeuniverse/dae/pkg/config_parser"
	vk "github.com/daeuniverse/dae/verifkit"
	dnsmessage "github.com/miekg/dns"
	"github.com/sirupsen/logrus"
)

const verifC07AsIsHost = "192.0.2.53"

type verifC07Built struct {
	routing *dns.Dns
	ups     map[string]*dns.Upstream // tag -> initialised upstream
}

// verifC07Build sends the dns section through the production front end.
func verifC07Build(p *vk.DProg) (b *verifC07Built, err error) {
	defer func() {
		if r := recover(); r != nil {
			err = fmt.Errorf("PANIC while building: %v", r)
		}
	}()
	text := "global {}\nrouting {\n    fallback: direct\n}\n" + p.Text()
	sections, err := config_parser.Parse(text)
	if err != nil {
		return nil, fmt.Errorf("Parse: %w", err)
	}
	conf, err := config.New(sections)
	if err != nil {
		return nil, fmt.Errorf("config.New: %w", err)
	}
	host2tag := map[string]string{}
	for _, u := range p.Upstreams {
		host2tag[u.Host] = u.Tag
	}
	var mu sync.Mutex
	ups := map[string]*dns.Upstream{}
	d, err := dns.New(&conf.Dns, &dns.NewOption{
		Logger: verifQuietLog(),
		UpstreamReadyCallback: func(u *dns.Upstream) error {
			if u == nil {
				return nil
			}
			mu.Lock()
			ups[host2tag[u.Hostname]] = u
			mu.Unlock()
			return nil
		},
	})
	if err != nil {
		return nil, fmt.Errorf("dns.New: %w", err)
	}
	if err = d.CheckUpstreamsFormat(); err != nil {
		return nil, fmt.Errorf("CheckUpstreamsFormat: %w", err)
	}
	d.InitUpstreams(context.Background())
	mu.Lock()
	defer mu.Unlock()
	for _, u := range p.Upstreams {
		if ups[u.Tag] == nil {
			return nil, fmt.Errorf("upstream %s (%s) was not initialised", u.Tag, u.Link)
		}
	}
	return &verifC07Built{routing: d, ups: ups}, nil
}

func verifC07ReqSelect(b *verifC07Built, p *vk.DProg, q vk.DQuestion) (out string) {
	defer func() {
		if r := recover(); r != nil {
			out = fmt.Sprintf("PANIC: %v", r)
		}
	}()
	idx, up, err := b.routing.RequestSelect(context.Background(), q.Name, q.Qtype)
	if err != nil {
		return "ERROR: " + err.Error()
	}
	switch idx {
	case consts.DnsRequestOutboundIndex_Reject:
		return "reject"
	case consts.DnsRequestOutboundIndex_AsIs:
		return "asis"
	}
	if int(idx) < 0 || int(idx) >= len(p.Upstreams) {
		return fmt.Sprintf("ERROR: index %d out of range", idx)
	}
	if up == nil || up.Hostname != p.Upstreams[idx].Host {
		return fmt.Sprintf("ERROR: index %d does not carry upstream %s", idx, p.Upstreams[idx].Tag)
	}
	return p.Upstreams[idx].Tag
}

func verifC07RRs(owner string, rrs []vk.DRR) []dnsmessage.RR {
	var out []dnsmessage.RR
	for _, r := range rrs {
		h := dnsmessage.RR_Header{Name: owner, Rrtype: r.Type, Class: dnsmessage.ClassINET, Ttl: 300}
		switch r.Type {
		case dnsmessage.TypeA:
			out = append(out, &dnsmessage.A{Hdr: h, A: net.IP(r.Addr.AsSlice())})
		case dnsmessage.TypeAAAA:
			out = append(out, &dnsmessage.AAAA{Hdr: h, AAAA: net.IP(r.Addr.AsSlice())})
		case dnsmessage.TypeCNAME:
			out = append(out, &dnsmessage.CNAME{Hdr: h, Target: r.Target})
		case dnsmessage.TypeTXT:
			out = append(out, &dnsmessage.TXT{Hdr: h, Txt: []string{r.Target}})
		}
	}
	return out
}

func verifC07Fqdn(n string) string {
	if strings.HasSuffix(n, ".") {
		return n
	}
	return n + "."
}

func verifC07RespSelect(b *verifC07Built, p *vk.DProg, q vk.DQuestion, rrs []vk.DRR, from string) (out string) {
	defer func() {
		if r := recover(); r != nil {
			out = fmt.Sprintf("PANIC: %v", r)
		}
	}()
	msg := new(dnsmessage.Msg)
	msg.Id = 7
	msg.Response = true
	msg.Question = []dnsmessage.Question{{Name: q.Name, Qtype: q.Qtype, Qclass: dnsmessage.ClassINET}}
	msg.Answer = verifC07RRs(verifC07Fqdn(q.Name), rrs)
	var fromUp *dns.Upstream
	if from == "asis" {
		// what dialSend synthesises for as-is: an upstream the routing has never seen
		fromUp = &dns.Upstream{Scheme: "udp", Hostname: verifC07AsIsHost, Port: 53}
	} else {
		fromUp = b.ups[from]
	}
	idx, up, err := b.routing.ResponseSelect(context.Background(), msg, fromUp)
	if err != nil {
		return "ERROR: " + err.Error()
	}
	switch idx {
	case consts.DnsResponseOutboundIndex_Accept:
		return "accept"
	case consts.DnsResponseOutboundIndex_Reject:
		return "reject"
	}
	if int(idx) >= len(p.Upstreams) {
		return fmt.Sprintf("ERROR: index %d out of range", idx)
	}
	if up == nil || up.Hostname != p.Upstreams[idx].Host {
		return fmt.Sprintf("ERROR: index %d does not carry upstream %s", idx, p.Upstreams[idx].Tag)
	}
	return p.Upstreams[idx].Tag
}

// ---- level 2 plumbing --------------------------------------------------------

type verifC07Call struct {
	Tag   string
	Name  string
	Qtype uint16
}

type verifC07Net struct {
	mu       sync.Mutex
	host2tag map[string]string
	book     map[string][]vk.DRR
	calls    []verifC07Call
	// fault scripting (verifC07Fault*)
	honorCtx bool                      // like a real transport: a call on an ended context fails with the context's error
	dead     int                       // calls refused that way
	onAnswer func(nth int, tag string) // runs when the nth (0-based) answered call has its answer ready, before it is handed back; not under mu
}

type verifC07Forwarder struct {
	n    *verifC07Net
	host string
}

func (f *verifC07Forwarder) Close() error { return nil }

func (f *verifC07Forwarder) ForwardDNS(ctx context.Context, data []byte) (*dnsmessage.Msg, error) {
	var req dnsmessage.Msg
	if err := req.Unpack(data); err != nil {
		return nil, fmt.Errorf("fake upstream: cannot unpack query: %w", err)
	}
	f.n.mu.Lock()
	if f.n.honorCtx {
		if err := ctx.Err(); err != nil {
			f.n.dead++
			f.n.mu.Unlock()
			return nil, err
		}
	}
	tag, ok := f.n.host2tag[f.host]
	if !ok {
		tag = "?" + f.host
	}
	c := verifC07Call{Tag: tag}
	if len(req.Question) > 0 {
		c.Name, c.Qtype = req.Question[0].Name, req.Question[0].Qtype
	}
	nth := len(f.n.calls)
	f.n.calls = append(f.n.calls, c)
	resp := new(dnsmessage.Msg)
	resp.SetReply(&req)
	resp.RecursionAvailable = true
	if len(req.Question) > 0 {
		resp.Answer = verifC07RRs(req.Question[0].Name, f.n.book[tag])
	}
	hook := f.n.onAnswer
	f.n.mu.Unlock()
	if hook != nil {
		hook(nth, tag)
	}
	return resp, nil
}

var verifC07Cur *verifC07Net

// verifC07ByHost: scripted networks of controllers that run concurrently with the main loop
// (upstream host -> *verifC07Net); every other upstream host belongs to verifC07Cur.
var verifC07ByHost sync.Map

type verifC07Writer struct {
	msg *dnsmessage.Msg
	n   int
}

func (w *verifC07Writer) LocalAddr() net.Addr       { return nil }
func (w *verifC07Writer) RemoteAddr() net.Addr      { return nil }
func (w *verifC07Writer) TsigStatus() error         { return nil }
func (w *verifC07Writer) TsigTimersOnly(bool)       {}
func (w *verifC07Writer) Hijack()                   {}
func (w *verifC07Writer) Close() error              { return nil }
func (w *verifC07Writer) Write([]byte) (int, error) { return 0, nil }
func (w *verifC07Writer) WriteMsg(m *dnsmessage.Msg) error {
	w.msg = m.Copy()
	w.n++
	return nil
}

func verifC07Option() *DnsControllerOption {
	return &DnsControllerOption{
		Log:              verifQuietLog(),
		LifecycleContext: context.Background(),
		// same constructor shape as ControlPlane.dnsControllerOption, minus the
		// bpf side effects (no datapath in this process)
		NewCache: func(fqdn string, answers, ns, extra []dnsmessage.RR, deadline time.Time, originalDeadline time.Time) (*DnsCache, error) {
			return &DnsCache{NS: ns, Extra: extra, Answer: answers, Deadline: deadline, OriginalDeadline: originalDeadline}, nil
		},
		BestDialerChooser: func(ctx context.Context, req *udpRequest, upstream *dns.Upstream) (*dialArgument, error) {
			ipv := consts.IpVersionStr_4
			var target netip.AddrPort
			if upstream.Ip46 != nil && upstream.Ip4.IsValid() {
				target = netip.AddrPortFrom(upstream.Ip4, upstream.Port)
			} else if upstream.Ip46 != nil && upstream.Ip6.IsValid() {
				target = netip.AddrPortFrom(upstream.Ip6, upstream.Port)
				ipv = consts.IpVersionStr_6
			}
			l4 := consts.L4ProtoStr_UDP
			if upstream.Scheme == dns.UpstreamScheme_TCP {
				l4 = consts.L4ProtoStr_TCP
			}
			return &dialArgument{l4proto: l4, ipversion: ipv, bestTarget: target}, nil
		},
	}
}

type verifC07Obs struct {
	Calls   []verifC07Call
	Dead    int `json:",omitempty"` // upstream calls refused because their context had already ended
	Err     string
	Replied bool
	Answer  []string // sorted "type:data"
	Rcode   int
	QEcho   string
	Panic   string
}

func verifC07AnswerStrings(rrs []dnsmessage.RR) []string {
	var out []string
	for _, rr := range rrs {
		switch v := rr.(type) {
		case *dnsmessage.A:
			a, _ := netip.AddrFromSlice(v.A)
			out = append(out, fmt.Sprintf("1:%s", a.Unmap()))
		case *dnsmessage.AAAA:
			a, _ := netip.AddrFromSlice(v.AAAA)
			out = append(out, fmt.Sprintf("28:%s", a))
		case *dnsmessage.CNAME:
			out = append(out, "5:"+v.Target)
		case *dnsmessage.TXT:
			out = append(out, "16:"+strings.Join(v.Txt, ""))
		default:
			out = append(out, fmt.Sprintf("%d:?", rr.Header().Rrtype))
		}
	}
	sort.Strings(out)
	return out
}

func verifC07WantStrings(rrs []vk.DRR) []string {
	out := []string{}
	for _, r := range rrs {
		out = append(out, r.String())
	}
	sort.Strings(out)
	return out
}

var verifC07Req = &udpRequest{
	realSrc:       netip.MustParseAddrPort("192.0.2.10:41000"),
	realDst:       netip.MustParseAddrPort(verifC07AsIsHost + ":53"),
	routingResult: &bpfRoutingResult{},
}

// verifC07Ask sends one question through the controller.
func verifC07Ask(ctrl *DnsController, n *verifC07Net, q vk.DQuestion, book map[string][]vk.DRR, id uint16) (o verifC07Obs) {
	return verifC07AskCtx(context.Background(), ctrl, n, verifC07Req, q, book, id)
}

func verifC07AskCtx(ctx context.Context, ctrl *DnsController, n *verifC07Net, from *udpRequest, q vk.DQuestion, book map[string][]vk.DRR, id uint16) (o verifC07Obs) {
	n.mu.Lock()
	n.book = book
	n.calls = nil
	n.dead = 0
	n.mu.Unlock()
	query := new(dnsmessage.Msg)
	query.Id = id
	query.RecursionDesired = true
	query.Question = []dnsmessage.Question{{Name: q.Name, Qtype: q.Qtype, Qclass: dnsmessage.ClassINET}}
	w := &verifC07Writer{}
	func() {
		defer func() {
			if r := recover(); r != nil {
				o.Panic = fmt.Sprint(r)
			}
		}()
		if err := ctrl.HandleWithResponseWriter_(ctx, query, from, w); err != nil {
			o.Err = err.Error()
		}
	}()
	n.mu.Lock()
	o.Calls = append([]verifC07Call(nil), n.calls...)
	o.Dead = n.dead
	n.mu.Unlock()
	if w.msg != nil {
		o.Replied = true
		o.Answer = verifC07AnswerStrings(w.msg.Answer)
		o.Rcode = w.msg.Rcode
		if len(w.msg.Question) > 0 {
			o.QEcho = w.msg.Question[0].Name
		}
	}
	return o
}

func verifC07Tags(cs []verifC07Call) []string {
	out := []string{}
	for _, c := range cs {
		out = append(out, c.Tag)
	}
	return out
}

func verifC07SameStrings(a, b []string) bool {
	if len(a) != len(b) {
		return false
	}
	for i := range a {
		if a[i] != b[i] {
			return false
		}
	}
	return true
}

// ---- minimiser (level 1) -----------------------------------------------------

func verifC07Minimize(p *vk.DProg, bad func(*vk.DProg) bool) *vk.DProg {
	cur := p.Clone()
	shrink := func(get func(*vk.DProg) *[]vk.DRule) bool {
		changed := false
		for i := 0; i < len(*get(cur)); i++ {
			q := cur.Clone()
			rs := get(q)
			*rs = append((*rs)[:i], (*rs)[i+1:]...)
			if bad(q) {
				cur, changed = q, true
				i--
			}
		}
		for i := range *get(cur) {
			for j := 0; j < len((*get(cur))[i].Conds) && len((*get(cur))[i].Conds) > 1; j++ {
				q := cur.Clone()
				r := &(*get(q))[i]
				r.Conds = append(r.Conds[:j], r.Conds[j+1:]...)
				if bad(q) {
					cur, changed = q, true
					j--
				}
			}
			for j := range (*get(cur))[i].Conds {
				for k := 0; k < len((*get(cur))[i].Conds[j].Params) && len((*get(cur))[i].Conds[j].Params) > 1; k++ {
					q := cur.Clone()
					c := &(*get(q))[i].Conds[j]
					c.Params = append(c.Params[:k], c.Params[k+1:]...)
					if bad(q) {
						cur, changed = q, true
						k--
					}
				}
			}
		}
		return changed
	}
	for ch := true; ch; {
		ch = shrink(func(p *vk.DProg) *[]vk.DRule { return &p.Req })
		if shrink(func(p *vk.DProg) *[]vk.DRule { return &p.Resp }) {
			ch = true
		}
	}
	return cur
}

func verifC07Shape(rs []vk.DRule) string {
	var l []string
	for _, r := range rs {
		l = append(l, r.ShapeSig())
	}
	return strings.Join(l, ";")
}

func verifC07DecidedSig(rules []vk.DRule, idx int, out string) (sig string, nontrivial bool) {
	nOrd := 0
	for _, r := range rules {
		if !r.Internal() {
			nOrd++
		}
	}
	if idx < 0 {
		kind := "up"
		switch out {
		case "asis", "reject", "accept":
			kind = out
		}
		return "fallback>" + kind, nOrd >= 1
	}
	neg := false
	for _, c := range rules[idx].Conds {
		if c.Not {
			neg = true
		}
	}
	return rules[idx].ShapeSig(), idx > 0 || neg || len(rules[idx].Conds) > 1
}

// ---- the monitor --------------------------------------------------------------

func TestVerifC07(t *testing.T) {
	m := vk.NewMonitor("C07", "main", "exploration",
		"grammar-generated `dns { upstream routing{request,response} }` sections (text) x questions/answers derived from the program constants (case, trailing dot, boundary qtypes, boundary addresses); "+
			"level 1 compares Dns.RequestSelect/ResponseSelect, level 2 the DnsController flow (upstream call sequence, reply, reject with primed cache, bounded re-asks, same name asked again with another qtype) with the reference interpreter; "+
			"level 2f injects a fault (generation cancelled, client cancelled, 5 s work budget expired) from inside the scripted upstream as it returns an answer the response rules reject or re-ask, then retries on the same controller and on the ReuseForReload successor: no client may be given records the reference walk does not end in; "+
			"level 2t rewrites the upstreams to every documented scheme (udp, tcp, tcp+udp/udp+tcp, tls, https, quic, h3/http3) and scripts each transport attempt at an upstream (answered, refused, timed out, truncated) so that answers of two-transport upstreams arrive over the second attempt: the upstreams that answered, in order, and the reply must be the reference walk's, whatever transport delivered an answer; "+
			"level 1f builds response programs whose ip() prefixes are all written in one family (IPv6 form incl. ::/0, ::ffff:0:0/96 and IPv4-mapped literals; IPv4 form) and probes them with A and AAAA answers at the first/last address of every prefix, its neighbours and their IPv4 / IPv4-mapped twins; "+
			"level 1n/2n writes qname patterns (full, suffix with and without leading dot, keyword, regex) of boundary length - 1, 2, 63, 64..127, 252 and 253 characters, the longest legal name in several label splits - into request rules (upstream, asis, reject), response rules, negated and beside qtype conditions, and asks exactly the maximal names, their 252-character and same-length neighbours and their sub-names in lower/upper/mixed case with and without trailing dot, through RequestSelect/ResponseSelect and the controller flow; "+
			"distinct = (level, shape of the deciding rule or fallback kind, answering-upstream kind), for level 2 (final verdict, number of upstream calls, request decision kind), for level 2f (fault kind, call struck, its response decision, final verdict), for level 2t (final verdict, calls, first/second transport, all upstreams answerable or not), for level 1f (written family of the prefixes, record type and family of the answer, deciding rule shape); "+
			"non-trivial = decided at a non-first rule, by a negated or multi-condition rule, or at the fallback of a program with rules; level 2: every walk")
	m.SetFloor(150)
	m.Assume("reference interpreter verifkit.RefDnsRequest/RefDnsResponse/RefDnsWalk is the documented first-match semantics (docs/en/configuration/dns.md); internal selectors sub/node/subnode never decide an ordinary question",
		"the bound on upstream calls per question is dae's own constant MaxDnsLookupDepth (calls <= MaxDnsLookupDepth; chains that finish within it must complete)",
		"level 2 runs NewDnsController + dns.New with fake forwarders installed through the package variable dnsForwarderFactory and a fixed BestDialerChooser; no sockets, no bpf callbacks",
		"domain pattern matching itself (C11) is exercised only with the small pattern pool of the routing generator",
		"level 2t: the scripted dialer chooser returns the transport docs/en/configuration/dns.md documents for the scheme of the upstream object it is given (tcp/tls/https: TCP; udp/quic/h3: UDP; tcp+udp: UDP, for some questions TCP); a refused / timed-out / truncated attempt is reported to dae the way its own transports report it (net.OpError, ErrDNSTruncated with the TC=1 message); whether dae tries another transport after a failed attempt is not judged",
		"level 2f: the fake forwarder fails a call made on an already ended context the way a real transport does; the work context of a resolution is the context dialSend hands to BestDialerChooser; while a fault lasts an error or no reply is always acceptable, only records a client is given are judged")

	r := vk.NewRand(0xC07)
	gen := &vk.DGen{R: r, Internal: true, LongReq: 8}
	nprog := vk.Scale(1500, 30000)
	nq := vk.Scale(40, 60)
	nflow := vk.Scale(16, 22)

	origFactory := dnsForwarderFactory
	defer func() { dnsForwarderFactory = origFactory }()
	dnsForwarderFactory = func(upstream *dns.Upstream, dialArg dialArgument, _ *logrus.Logger) (DnsForwarder, error) {
		if n, ok := verifC07ByHost.Load(upstream.Hostname); ok {
			return &verifC07Forwarder{n: n.(*verifC07Net), host: upstream.Hostname}, nil
		}
		if tn := verifC07TCur; tn != nil {
			// level 2t: the fake upstream tells the attempts at one upstream apart by transport
			return &verifC07TForwarder{n: tn, host: upstream.Hostname, scheme: string(upstream.Scheme), l4: string(dialArg.l4proto)}, nil
		}
		return &verifC07Forwarder{n: verifC07Cur, host: upstream.Hostname}, nil
	}
	// levels 2t and 1f draw from their own streams: the cases of the other levels do not move
	rT := vk.NewRand(0xC0771)
	rF := vk.NewRand(0xC0772)
	rN := vk.NewRand(0xC0773)
	ntrans := vk.Scale(6, 10)
	var wall2t, wall1f, wall1n time.Duration // informational only

	// the work budget of a resolution (5 s, dae's own constant) runs out while an upstream is
	// answering: a few such cases run beside the main loop, each on its own controller and its own
	// scripted network (upstream hosts 10.77.<case>.<i>)
	var bg sync.WaitGroup
	nbudget := vk.Scale(3, 10)
	for c := 0; c < nbudget; c++ {
		var p *vk.DProg
		var pl *verifC07FaultPlan
		for try := 0; try < 400 && pl == nil; try++ {
			p = gen.Gen()
			tags := []string{"asis"}
			for k := range p.Upstreams {
				scheme := "udp"
				if strings.HasPrefix(p.Upstreams[k].Link, "tcp") {
					scheme = "tcp"
				}
				p.Upstreams[k].Host = fmt.Sprintf("10.77.%d.%d", c, k+1)
				p.Upstreams[k].Link = scheme + "://" + p.Upstreams[k].Host + ":53"
				tags = append(tags, p.Upstreams[k].Tag)
			}
			pl = verifC07FaultPlanFor(r, p, vk.DProbeQuestions(p, r, 20), tags, false)
		}
		if pl == nil {
			continue
		}
		b, err := verifC07Build(p)
		if err != nil {
			m.Violation("build-error", "well-formed generated dns section rejected or crashed: "+err.Error(), map[string]any{"text": p.Text(), "error": err.Error()})
			continue
		}
		asis := fmt.Sprintf("192.0.2.%d", 100+c)
		n := &verifC07Net{host2tag: map[string]string{asis: "asis"}, honorCtx: true}
		verifC07ByHost.Store(asis, n)
		for _, u := range p.Upstreams {
			n.host2tag[u.Host] = u.Tag
			verifC07ByHost.Store(u.Host, n)
		}
		from := &udpRequest{realSrc: netip.MustParseAddrPort("192.0.2.10:41000"), realDst: netip.MustParseAddrPort(asis + ":53"), routingResult: &bpfRoutingResult{}}
		rc := vk.NewRand(0xC07F00 + uint64(c))
		bg.Add(1)
		go func() {
			defer bg.Done()
			verifC07FaultCase(m, rc, p, b, pl, "budget-expired", n, from)
		}()
	}
	defer bg.Wait()

	for i := 0; i < nprog && m.Violations() < 5; i++ {
		p := gen.Gen()
		m.Count("programs", 1)
		b, err := verifC07Build(p)
		if err != nil {
			m.Violation("build-error", "well-formed generated dns section rejected or crashed: "+err.Error(),
				map[string]any{"text": p.Text(), "error": err.Error()})
			continue
		}
		hasInternal := false
		for _, rl := range p.Req {
			if rl.Internal() {
				hasInternal = true
			}
		}
		if hasInternal {
			m.Count("programs_with_internal_selector_rules", 1)
		}
		qs := vk.DProbeQuestions(p, r, nq)
		tags := []string{"asis"}
		for _, u := range p.Upstreams {
			tags = append(tags, u.Tag)
		}

		// ---------- level 1: request ----------
		for _, q := range qs {
			ref, ri := vk.RefDnsRequest(p, q)
			got := verifC07ReqSelect(b, p, q)
			m.Eval(1)
			sig, nt := verifC07DecidedSig(p.Req, ri, ref)
			if nt {
				m.Distinct("L1Q|" + sig)
			}
			switch {
			case ri < 0:
				m.Count("l1_request_decided_by_fallback", 1)
			case ri > 0:
				m.Count("l1_request_decided_by_nonfirst_rule", 1)
			default:
				m.Count("l1_request_decided_by_first_rule", 1)
			}
			if hasInternal && ri >= 0 {
				for _, rl := range p.Req[:ri] {
					if rl.Internal() {
						m.Count("l1_request_decided_after_internal_rule", 1)
						break
					}
				}
			}
			if ref == "reject" {
				m.Count("l1_request_reject", 1)
			}
			if got == ref {
				continue
			}
			qq := q
			min := verifC07Minimize(p, func(c *vk.DProg) bool {
				c.Resp, c.RespFallback = nil, "accept"
				b2, e := verifC07Build(c)
				if e != nil {
					return false
				}
				r2, _ := vk.RefDnsRequest(c, qq)
				return verifC07ReqSelect(b2, c, qq) != r2
			})
			mref, _ := vk.RefDnsRequest(min, q)
			mgot := "?"
			if b2, e := verifC07Build(min); e == nil {
				mgot = verifC07ReqSelect(b2, min, q)
			}
			m.Violation("request-mismatch/"+verifC07Shape(min.Req),
				fmt.Sprintf("RequestSelect != first-match reference for %q type %d: ref=%s got=%s", q.Name, q.Qtype, mref, mgot),
				map[string]any{"minimized_text": min.Text(), "qname": q.Name, "qtype": q.Qtype, "reference": mref, "got": mgot,
					"original_text": p.Text(), "original_reference": ref, "original_got": got})
			break
		}

		// ---------- level 1: response ----------
		for _, q := range qs {
			if q.Name == "" {
				continue
			}
			rrs := vk.DProbeAnswer(p, q, r)
			from := tags[r.IntN(len(tags))]
			ips := vk.AnswerIPs(rrs)
			ref, ri := vk.RefDnsResponse(p, q, ips, from)
			got := verifC07RespSelect(b, p, q, rrs, from)
			m.Eval(1)
			sig, nt := verifC07DecidedSig(p.Resp, ri, ref)
			if nt {
				fk := "up"
				if from == "asis" {
					fk = "asis"
				}
				m.Distinct("L1R|" + sig + "|" + fk)
			}
			switch {
			case ri < 0:
				m.Count("l1_response_decided_by_fallback", 1)
			case ri > 0:
				m.Count("l1_response_decided_by_nonfirst_rule", 1)
			default:
				m.Count("l1_response_decided_by_first_rule", 1)
			}
			if ri >= 0 {
				for _, c := range p.Resp[ri].Conds {
					m.Count("l1_response_deciding_leaf_"+c.Func, 1)
				}
			}
			if got == ref {
				continue
			}
			qq, rr2, ff := q, rrs, from
			min := verifC07Minimize(p, func(c *vk.DProg) bool {
				c.Req, c.ReqFallback = nil, "asis"
				b2, e := verifC07Build(c)
				if e != nil {
					return false
				}
				r2, _ := vk.RefDnsResponse(c, qq, vk.AnswerIPs(rr2), ff)
				return verifC07RespSelect(b2, c, qq, rr2, ff) != r2
			})
			mref, _ := vk.RefDnsResponse(min, q, ips, from)
			mgot := "?"
			if b2, e := verifC07Build(min); e == nil {
				mgot = verifC07RespSelect(b2, min, q, rrs, from)
			}
			m.Violation("response-mismatch/"+verifC07Shape(min.Resp),
				fmt.Sprintf("ResponseSelect != first-match reference for %q type %d answers %v from %s: ref=%s got=%s", q.Name, q.Qtype, verifC07WantStrings(rrs), from, mref, mgot),
				map[string]any{"minimized_text": min.Text(), "qname": q.Name, "qtype": q.Qtype, "answers": verifC07WantStrings(rrs), "from_upstream": from,
					"reference": mref, "got": mgot, "original_text": p.Text(), "original_reference": ref, "original_got": got})
			break
		}

		// ---------- level 1b: a second question while an upstream is being initialised ----------
		verifC07LazyWindow(m, r, p, qs)

		// ---------- level 2: controller flow ----------
		verifC07Flow(m, r, p, b, qs, tags, nflow)

		// ---------- level 2f: a fault between "upstream answered" and "response routed" ----------
		if pl := verifC07FaultPlanFor(r, p, qs, tags, i%4 == 0); pl != nil {
			n := &verifC07Net{host2tag: map[string]string{verifC07AsIsHost: "asis"}, honorCtx: true}
			for _, u := range p.Upstreams {
				n.host2tag[u.Host] = u.Tag
			}
			verifC07Cur = n
			mode := "generation-cancelled"
			if r.IntN(4) == 0 {
				mode = "client-cancelled"
			}
			verifC07FaultCase(m, r, p, b, pl, mode, n, verifC07Req)
		}

		// ---------- level 2t: the same walk when answers arrive over another transport ----------
		t2t := time.Now()
		verifC07Transport(m, rT, p, qs, ntrans)
		wall2t += time.Since(t2t)

		// ---------- level 1f: ip() prefixes written in one family, answers of the other ----------
		if i%3 == 0 {
			t1f := time.Now()
			verifC07Family(m, rF, i/3)
			wall1f += time.Since(t1f)
		}

		// ---------- level 1n / 2n: names of boundary length (1, 2, 63, 64.., 252, 253 characters) ----------
		if i%3 == 1 {
			t1n := time.Now()
			verifC07NameLen(m, rN, i/3)
			wall1n += time.Since(t1n)
		}

		if m.WantSample() && len(qs) > 0 {
			ref, _ := vk.RefDnsRequest(p, qs[0])
			m.Sample(map[string]any{"text": p.Text(), "qname": qs[0].Name, "qtype": qs[0].Qtype, "request_reference": ref})
		}
	}
	bg.Wait()
	m.Set("max_dns_lookup_depth", MaxDnsLookupDepth)
	m.Set("info_wall_ms_level_2t", wall2t.Milliseconds())
	m.Set("info_wall_ms_level_1f", wall1f.Milliseconds())
	m.Set("info_wall_ms_level_1n", wall1n.Milliseconds())
	m.Require("l1_request_decided_by_fallback", "l1_request_decided_by_nonfirst_rule", "l1_request_reject",
		"l1_request_decided_after_internal_rule",
		"l1_response_decided_by_fallback", "l1_response_decided_by_nonfirst_rule",
		"l1_response_deciding_leaf_ip", "l1_response_deciding_leaf_upstream", "l1_response_deciding_leaf_qname", "l1_response_deciding_leaf_qtype",
		"l2_final_request-reject", "l2_final_accept", "l2_final_reject", "l2_final_too-deep", "l2_calls_2", "l2_calls_3",
		"l2_reject_with_primed_cache_checked",
		"l2_asked_after_same_name_with_other_qtype_routed_differently",
		"l2f_fault_while_answer_to_be_rejected", "l2f_fault_while_answer_to_be_reasked",
		"l2f_mode_generation-cancelled", "l2f_mode_client-cancelled", "l2f_mode_budget-expired",
		"l2f_judged_retry-on-retired-generation", "l2f_judged_successor-generation", "l2f_judged_retry-after-budget-expired", "l2f_judged_retry-after-client-cancelled")
	m.Require(verifC07TRequired...)
	m.Require(verifC07FRequired...)
	m.Require(verifC07NRequired...)
	m.Done(t)
}

func verifC07Flow(m *vk.Monitor, rr *rand.Rand, p *vk.DProg, b *verifC07Built, qs []vk.DQuestion, tags []string, nflow int) {
	n := &verifC07Net{host2tag: map[string]string{verifC07AsIsHost: "asis"}}
	for _, u := range p.Upstreams {
		n.host2tag[u.Host] = u.Tag
	}
	verifC07Cur = n
	opt := verifC07Option()
	ctrl, err := NewDnsController(b.routing, opt)
	if err != nil {
		m.Inconclusive("NewDnsController failed: %v", err)
		return
	}
	defer ctrl.Close()
	seen := map[string]bool{}
	type primed struct {
		q    vk.DQuestion
		book map[string][]vk.DRR
		want []string
	}
	var cand *primed
	id := uint16(100)
	// histories: the same name (respelled) comes back with another qtype through the same
	// controller; every question is routed on its own (name, qtype)
	var fq []vk.DQuestion
	for _, q := range qs {
		fq = append(fq, q)
		if strings.HasSuffix(q.Name, ".") && rr.IntN(3) == 0 {
			if t := []uint16{1, 28, 65}[rr.IntN(3)]; t != q.Qtype {
				fq = append(fq, vk.DQuestion{Name: verifC07Respell(q.Name, rr), Qtype: t})
			}
		}
	}
	askedTypes := map[string]map[uint16]bool{}
	for _, q := range fq {
		if nflow == 0 {
			break
		}
		lname := strings.ToLower(verifC07Fqdn(q.Name))
		key := lname + fmt.Sprint(q.Qtype)
		if seen[key] || !strings.HasSuffix(q.Name, ".") {
			continue // names on the wire are fully qualified; one ask per cache key
		}
		seen[key] = true
		nflow--
		if len(askedTypes[lname]) > 0 {
			m.Count("l2_asked_after_same_name_with_other_qtype", 1)
			a, _ := vk.RefDnsRequest(p, q)
			for t := range askedTypes[lname] {
				if b, _ := vk.RefDnsRequest(p, vk.DQuestion{Name: q.Name, Qtype: t}); a != b {
					m.Count("l2_asked_after_same_name_with_other_qtype_routed_differently", 1)
					break
				}
			}
		} else {
			askedTypes[lname] = map[uint16]bool{}
		}
		askedTypes[lname][q.Qtype] = true
		book := map[string][]vk.DRR{}
		for _, tg := range tags {
			book[tg] = vk.DProbeAnswer(p, q, rr)
		}
		w := vk.RefDnsWalk(p, q, book, MaxDnsLookupDepth)
		id++
		o := verifC07Ask(ctrl, n, q, book, id)
		m.Eval(1)
		reqKind := "up"
		if len(w.Calls) > 0 && w.Calls[0] == "asis" {
			reqKind = "asis"
		}
		if w.Final == "request-reject" {
			reqKind = "reject"
		}
		m.Distinct(fmt.Sprintf("L2|%s|%d|%s", w.Final, len(w.Calls), reqKind))
		m.Count("l2_final_"+w.Final, 1)
		m.Count(fmt.Sprintf("l2_calls_%d", len(w.Calls)), 1)
		wit := func() map[string]any {
			bk := map[string][]string{}
			for k, v := range book {
				bk[k] = verifC07WantStrings(v)
			}
			return map[string]any{"text": p.Text(), "qname": q.Name, "qtype": q.Qtype, "upstream_answers": bk,
				"expected": map[string]any{"calls": w.Calls, "final": w.Final, "answer": verifC07WantStrings(w.Answer), "request_rule": w.ReqRule, "response_rules": w.RespRules},
				"observed": o}
		}
		if o.Panic != "" {
			m.Violation("flow/panic", "DNS handler panicked: "+o.Panic, wit())
			continue
		}
		if strings.Contains(o.Err, "context deadline exceeded") || strings.Contains(o.Err, "context canceled") {
			// dae's own per-request timeouts (5 s / 8 s) fired although the fake upstream
			// answers at once: the machine stalled; no verdict from this question
			m.Count("l2_ambiguous_handler_timeout", 1)
			continue
		}
		// every call must carry the client's question unchanged
		altered := false
		for _, c := range o.Calls {
			if c.Name != q.Name || c.Qtype != q.Qtype {
				altered = true
			}
		}
		if altered {
			m.Violation("flow/question-altered", "an upstream received a different question than the client asked", wit())
			continue
		}
		got := verifC07Tags(o.Calls)
		if len(got) > MaxDnsLookupDepth {
			m.Violation("flow/depth-exceeded", fmt.Sprintf("%d upstream calls for one question, bound is MaxDnsLookupDepth=%d", len(got), MaxDnsLookupDepth), wit())
			continue
		}
		if !verifC07SameStrings(got, w.Calls) {
			sig := "flow/wrong-upstream-sequence"
			if w.Final == "request-reject" {
				sig = "flow/rejected-question-forwarded"
			} else if len(got) < len(w.Calls) && verifC07SameStrings(got, w.Calls[:len(got)]) {
				sig = "flow/chain-cut-short"
			}
			m.Violation(sig, fmt.Sprintf("upstream call sequence %v, reference %v", got, w.Calls), wit())
			continue
		}
		switch w.Final {
		case "request-reject", "reject":
			if !o.Replied || len(o.Answer) != 0 {
				m.Violation("flow/"+w.Final+"-not-empty", fmt.Sprintf("%s must be answered with an empty answer; replied=%v answer=%v err=%q", w.Final, o.Replied, o.Answer, o.Err), wit())
				continue
			}
			m.Count(fmt.Sprintf("l2_reject_rcode_%d", o.Rcode), 1)
		case "accept":
			if !o.Replied || !verifC07SameStrings(o.Answer, verifC07WantStrings(w.Answer)) {
				m.Violation("flow/accept-answer-differs", fmt.Sprintf("accepted answer must be the answering upstream's: want %v got %v (replied=%v err=%q)", verifC07WantStrings(w.Answer), o.Answer, o.Replied, o.Err), wit())
				continue
			}
			if len(w.Calls) > 1 {
				m.Count("l2_accept_after_reask", 1)
			}
			if cand == nil && len(w.Answer) > 0 || (len(w.Answer) > 0 && rr.IntN(3) == 0) {
				cand = &primed{q: q, book: book, want: verifC07WantStrings(w.Answer)}
			}
		case "too-deep":
			// bound reached: no further call (checked above); the client must not get records
			if o.Replied && len(o.Answer) != 0 {
				m.Count("l2_too_deep_replied_with_records", 1)
			} else if o.Replied {
				m.Count("l2_too_deep_error_reply", 1)
			} else if o.Err != "" {
				m.Count("l2_too_deep_handler_error", 1)
			} else {
				m.Count("l2_too_deep_silent", 1)
			}
		}
	}

	// ---------- reject even when a cached answer exists ----------
	if cand == nil {
		return
	}
	id++
	again := verifC07Ask(ctrl, n, cand.q, cand.book, id)
	if len(again.Calls) != 0 || !again.Replied || !verifC07SameStrings(again.Answer, cand.want) {
		m.Count("l2_cache_not_primed", 1) // caching itself is C08's subject
		return
	}
	pb := p.Clone()
	variant := rr.IntN(3)
	bare := strings.ToLower(strings.TrimSuffix(cand.q.Name, "."))
	switch {
	case variant == 0 || bare == "":
		pb.Req, pb.ReqFallback = nil, "reject"
	case variant == 1:
		pb.Req = append([]vk.DRule{{Conds: []vk.RCond{{Func: "qname", Params: []vk.RParam{{Key: "full", Val: bare}}}}, Out: "reject"}}, pb.Req...)
	default:
		pb.Req = append([]vk.DRule{{Conds: []vk.RCond{{Func: "qtype", Params: []vk.RParam{{Val: fmt.Sprint(cand.q.Qtype)}}}}, Out: "reject"}}, pb.Req...)
	}
	if out, _ := vk.RefDnsRequest(pb, cand.q); out != "reject" {
		return
	}
	bb, err := verifC07Build(pb)
	if err != nil {
		m.Violation("build-error", "well-formed generated dns section rejected or crashed: "+err.Error(), map[string]any{"text": pb.Text(), "error": err.Error()})
		return
	}
	ctrl.UpdateRuntime(opt, bb.routing) // what a reload does to a reused controller
	id++
	o := verifC07Ask(ctrl, n, cand.q, cand.book, id)
	m.Eval(1)
	m.Count("l2_reject_with_primed_cache_checked", 1)
	m.Distinct(fmt.Sprintf("L2|reject-with-cache|v%d", variant))
	wit := map[string]any{"priming_text": p.Text(), "rejecting_text": pb.Text(), "qname": cand.q.Name, "qtype": cand.q.Qtype, "cached_answer": cand.want, "observed": o}
	switch {
	case o.Panic != "":
		m.Violation("flow/panic", "DNS handler panicked: "+o.Panic, wit)
	case len(o.Calls) != 0:
		m.Violation("flow/rejected-question-forwarded", fmt.Sprintf("rejected question was sent to %v", verifC07Tags(o.Calls)), wit)
	case !o.Replied || len(o.Answer) != 0:
		m.Violation("flow/reject-served-from-cache", fmt.Sprintf("question routed to reject with a cached answer present must get an empty answer; replied=%v answer=%v err=%q", o.Replied, o.Answer, o.Err), wit)
	default:
		// statement is silent on what happens to the cache afterwards: record
		ctrl.UpdateRuntime(opt, b.routing)
		id++
		back := verifC07Ask(ctrl, n, cand.q, cand.book, id)
		if len(back.Calls) > 0 {
			m.Count("l2_after_reject_cache_was_dropped", 1)
		} else {
			m.Count("l2_after_reject_cache_survived", 1)
		}
	}
}

// verifC07LazyWindow: upstreams are initialised lazily by the first question routed to them; the
// control plane's UpstreamReadyCallback (it waits for the control plane to become ready) runs in
// the middle of that. A second question for the same upstream that is resolved and answered
// meanwhile must still have its answer judged by the first matching response rule, i.e. the
// answering upstream must be recognised for upstream(...) conditions. The callback dae invokes
// is used as the window: the second question runs to completion inside it.
func verifC07LazyWindow(m *vk.Monitor, r interface{ IntN(int) int }, p *vk.DProg, qs []vk.DQuestion) {
	// a question the request rules send to a named upstream
	var q vk.DQuestion
	tag := ""
	for _, c := range qs {
		if c.Name == "" {
			continue
		}
		if ref, _ := vk.RefDnsRequest(p, c); ref != "asis" && ref != "reject" {
			q, tag = c, ref
			break
		}
	}
	if tag == "" {
		return
	}
	text := "global {}\nrouting {\n    fallback: direct\n}\n" + p.Text()
	sections, err := config_parser.Parse(text)
	if err != nil {
		return
	}
	conf, err := config.New(sections)
	if err != nil {
		return
	}
	host := ""
	for _, u := range p.Upstreams {
		if u.Tag == tag {
			host = u.Host
		}
	}
	rng := vk.NewRand(uint64(r.IntN(1 << 30)))
	rrs := vk.DProbeAnswer(p, q, rng)
	want, _ := vk.RefDnsResponse(p, q, vk.AnswerIPs(rrs), tag)
	var d *dns.Dns
	var entered atomic.Bool
	inner := "not-run"
	d, err = dns.New(&conf.Dns, &dns.NewOption{
		Logger: verifQuietLog(),
		UpstreamReadyCallback: func(u *dns.Upstream) error {
			if u == nil || u.Hostname != host {
				return nil
			}
			if !entered.CompareAndSwap(false, true) {
				return nil // the nested initialisation started by the second question
			}
			func() {
				done := make(chan string, 1)
				go func() {
					defer func() {
						if rec := recover(); rec != nil {
							done <- fmt.Sprintf("PANIC: %v", rec)
						}
					}()
					idx, up, e := d.RequestSelect(context.Background(), q.Name, q.Qtype)
					if e != nil || up == nil || int(idx) >= len(p.Upstreams) || p.Upstreams[idx].Tag != tag {
						done <- fmt.Sprintf("request: idx=%v up=%v err=%v", idx, up, e)
						return
					}
					b := &verifC07Built{routing: d, ups: map[string]*dns.Upstream{tag: up}}
					done <- "response:" + verifC07RespSelect(b, p, q, rrs, tag)
				}()
				select {
				case inner = <-done:
				case <-time.After(2 * time.Second):
					inner = "blocked"
				}
			}()
			return nil
		},
	})
	if err != nil || d.CheckUpstreamsFormat() != nil {
		return
	}
	m.Eval(1)
	// the first question: triggers the lazy initialisation of the upstream
	if idx, up, e := d.RequestSelect(context.Background(), q.Name, q.Qtype); e != nil || up == nil || int(idx) >= len(p.Upstreams) || p.Upstreams[idx].Tag != tag {
		m.Count("l1b_first_question_not_routed_to_upstream", 1)
		return
	}
	switch {
	case inner == "not-run":
		m.Count("l1b_callback_not_invoked", 1)
	case inner == "blocked":
		m.Count("l1b_second_question_waited_for_initialisation", 1)
	case strings.HasPrefix(inner, "response:"):
		m.Count("l1b_second_question_answered_inside_window", 1)
		m.Distinct("L1B|" + verifC07Shape(p.Resp))
		if got := strings.TrimPrefix(inner, "response:"); got != want {
			m.Violation("response-mismatch/during-upstream-initialisation",
				fmt.Sprintf("a question resolved and answered by upstream %s while that upstream's initialisation callback was still running had its answer routed to %s; the first matching response rule says %s", tag, got, want),
				map[string]any{"text": p.Text(), "qname": q.Name, "qtype": q.Qtype, "answers": verifC07WantStrings(rrs), "from_upstream": tag, "reference": want, "got": got})
		}
	default:
		m.Count("l1b_second_question_other_outcome", 1)
	}
}

func verifC07Respell(name string, r interface{ IntN(int) int }) string {
	b := []byte(name)
	for i := range b {
		switch {
		case b[i] >= 'a' && b[i] <= 'z' && r.IntN(2) == 0:
			b[i] -= 32
		case b[i] >= 'A' && b[i] <= 'Z' && r.IntN(2) == 0:
			b[i] += 32
		}
	}
	return string(b)
}

// ---- level 2f: a fault between "upstream answered" and "response routed" ---------------------
//
// The scripted upstream ends a context of the resolution right as it hands back its answer: the
// generation's lifecycle context (reload / close retiring the generation), the client's own
// context, or nothing at all while it sits on the answer until dae's work budget has run out.
// Whatever a client is given afterwards - by the same controller, or by the successor generation
// that ReuseForReload puts on the same store - has to be what the response rules make of the
// upstream answers: records only if the reference walk accepts exactly them, never records when
// the walk ends in reject; once the controller is healthy again the reference outcome itself.
// While the fault lasts an error / no reply is always fine.

type verifC07FaultPlan struct {
	q    vk.DQuestion
	book map[string][]vk.DRR
	w    vk.DWalk
	k    int    // the fault strikes while the answer of call k is on its way back
	dec  string // what the first matching response rule says about that answer: accept | reject | reask
}

func verifC07FaultPlanFor(rr *rand.Rand, p *vk.DProg, qs []vk.DQuestion, tags []string, anyDecision bool) *verifC07FaultPlan {
	tries := 0
	for _, q := range qs {
		if !strings.HasSuffix(q.Name, ".") {
			continue
		}
		if tries++; tries > 10 {
			break
		}
		book := map[string][]vk.DRR{}
		for _, tg := range tags {
			book[tg] = vk.DProbeAnswer(p, q, rr)
		}
		w := vk.RefDnsWalk(p, q, book, MaxDnsLookupDepth)
		if len(w.Calls) == 0 {
			continue
		}
		var decs []string
		var hot []int
		for k, tg := range w.Calls {
			d, _ := vk.RefDnsResponse(p, q, vk.AnswerIPs(book[tg]), tg)
			switch d {
			case "accept", "reject":
			default:
				d = "reask"
			}
			decs = append(decs, d)
			// a fault is worth injecting where routing the answer changes what the client gets
			if d != "accept" && len(book[tg]) > 0 {
				hot = append(hot, k)
			}
		}
		switch {
		case len(hot) > 0:
			k := hot[rr.IntN(len(hot))]
			return &verifC07FaultPlan{q: q, book: book, w: w, k: k, dec: decs[k]}
		case anyDecision:
			k := rr.IntN(len(w.Calls))
			return &verifC07FaultPlan{q: q, book: book, w: w, k: k, dec: decs[k]}
		}
	}
	return nil
}

type verifC07FaultObs struct {
	Phase string
	Qname string
	Obs   verifC07Obs
}

func verifC07FaultCase(m *vk.Monitor, rr *rand.Rand, p *vk.DProg, b *verifC07Built, pl *verifC07FaultPlan, mode string, n *verifC07Net, from *udpRequest) {
	gen1, cancelGen1 := context.WithCancel(context.Background())
	defer cancelGen1()
	clientCtx, cancelClient := context.WithCancel(context.Background())
	defer cancelClient()
	var wmu sync.Mutex
	var workCtx context.Context
	mkopt := func(lifecycle context.Context) *DnsControllerOption {
		opt := verifC07Option()
		opt.LifecycleContext = lifecycle
		inner := opt.BestDialerChooser
		// dialSend hands its own (work) context to the dialer chooser right before it forwards
		opt.BestDialerChooser = func(ctx context.Context, req *udpRequest, up *dns.Upstream) (*dialArgument, error) {
			wmu.Lock()
			workCtx = ctx
			wmu.Unlock()
			return inner(ctx, req, up)
		}
		return opt
	}
	ctrl, err := NewDnsController(b.routing, mkopt(gen1))
	if err != nil {
		m.Inconclusive("NewDnsController failed: %v", err)
		return
	}
	closers := []*DnsController{ctrl}
	defer func() {
		for _, c := range closers {
			func() {
				defer func() { _ = recover() }()
				_ = c.Close()
			}()
		}
	}()

	var struck, watchdog atomic.Bool
	n.mu.Lock()
	n.onAnswer = func(nth int, tag string) {
		if nth != pl.k || !struck.CompareAndSwap(false, true) {
			return
		}
		wmu.Lock()
		wc := workCtx
		wmu.Unlock()
		switch mode {
		case "generation-cancelled":
			cancelGen1()
		case "client-cancelled":
			cancelClient()
			return
		}
		if wc == nil {
			return
		}
		select {
		case <-wc.Done():
		case <-time.After(40 * time.Second):
			watchdog.Store(true)
		}
	}
	n.mu.Unlock()

	m.Eval(1)
	m.Count("l2f_cases", 1)
	m.Count("l2f_mode_"+mode, 1)
	switch pl.dec {
	case "accept":
		m.Count("l2f_fault_while_answer_to_be_accepted", 1)
	case "reject":
		m.Count("l2f_fault_while_answer_to_be_rejected", 1)
	default:
		m.Count("l2f_fault_while_answer_to_be_reasked", 1)
	}
	m.Distinct(fmt.Sprintf("L2F|%s|k=%d/%d|%s|%s", mode, pl.k, len(pl.w.Calls), pl.dec, pl.w.Final))

	var hist []verifC07FaultObs
	wit := func() map[string]any {
		bk := map[string][]string{}
		for k, v := range pl.book {
			bk[k] = verifC07WantStrings(v)
		}
		w := pl.w
		return map[string]any{"text": p.Text(), "qname": pl.q.Name, "qtype": pl.q.Qtype, "upstream_answers": bk,
			"fault": map[string]any{"kind": mode, "while_answer_of_call": pl.k, "from_upstream": w.Calls[pl.k], "first_matching_response_rule_says": pl.dec},
			"expected": map[string]any{"calls": w.Calls, "final": w.Final, "answer": verifC07WantStrings(w.Answer), "request_rule": w.ReqRule, "response_rules": w.RespRules},
			"observed": hist}
	}
	id := uint16(7000)
	ask := func(ctx context.Context, c *DnsController, phase string, strict bool, respell bool) bool {
		q := pl.q
		if respell {
			q.Name = verifC07Respell(q.Name, rr)
		}
		id++
		o := verifC07AskCtx(ctx, c, n, from, q, pl.book, id)
		hist = append(hist, verifC07FaultObs{Phase: phase, Qname: q.Name, Obs: o})
		return verifC07FaultJudge(m, phase, strict, q, pl, o, wit)
	}

	ok := ask(clientCtx, ctrl, "faulted-ask", false, false)
	n.mu.Lock()
	n.onAnswer = nil
	n.mu.Unlock()
	switch {
	case !ok:
		return
	case watchdog.Load():
		m.Count("l2f_ambiguous_watchdog", 1)
		return
	case !struck.Load():
		// the walk never got to call k: nothing was injected (the main flow judges plain walks)
		m.Count("l2f_fault_point_not_reached", 1)
		return
	}
	m.Count("l2f_fault_struck", 1)
	switch mode {
	case "generation-cancelled":
		// a client retries while the retired generation is still the one it reaches
		if !ask(context.Background(), ctrl, "retry-on-retired-generation", false, rr.IntN(2) == 0) {
			return
		}
		// reload: same section, new generation on the same store (ControlPlane's reuse path)
		b2, err := verifC07Build(p)
		if err != nil {
			m.Violation("build-error", "well-formed generated dns section rejected or crashed: "+err.Error(), map[string]any{"text": p.Text(), "error": err.Error()})
			return
		}
		next, err := ctrl.ReuseForReload(mkopt(context.Background()), b2.routing)
		if err != nil || next == nil {
			m.Count("l2f_reuse_for_reload_failed", 1)
			return
		}
		closers = append(closers, next)
		ask(context.Background(), next, "successor-generation", true, rr.IntN(2) == 0)
	case "client-cancelled":
		ask(context.Background(), ctrl, "retry-after-client-cancelled", true, rr.IntN(2) == 0)
	case "budget-expired":
		ask(context.Background(), ctrl, "retry-after-budget-expired", true, rr.IntN(2) == 0)
	}
}

// verifC07FaultJudge: strict = the controller asked is healthy (no fault pending), the reference
// outcome is due; otherwise only what a client may never be given is judged.
func verifC07FaultJudge(m *vk.Monitor, phase string, strict bool, asked vk.DQuestion, pl *verifC07FaultPlan, o verifC07Obs, wit func() map[string]any) bool {
	w := pl.w
	if o.Panic != "" {
		m.Violation("fault/panic", "DNS handler panicked: "+o.Panic, wit())
		return false
	}
	for _, c := range o.Calls {
		if c.Name != asked.Name || c.Qtype != asked.Qtype {
			m.Violation("fault/question-altered", "an upstream received a different question than the client asked", wit())
			return false
		}
	}
	// what the client was given
	if o.Replied && len(o.Answer) > 0 {
		switch w.Final {
		case "accept":
			if !verifC07SameStrings(o.Answer, verifC07WantStrings(w.Answer)) {
				m.Violation("fault/unaccepted-answer-served/"+phase,
					fmt.Sprintf("client was given %v; routed by the first matching response rules the upstream answers end in %v from %s (ask: %s; the fault struck while the answer of %s, to be %sed, was on its way back)",
						o.Answer, verifC07WantStrings(w.Answer), w.Calls[len(w.Calls)-1], phase, w.Calls[pl.k], pl.dec), wit())
				return false
			}
		case "reject":
			m.Violation("fault/rejected-answer-served/"+phase,
				fmt.Sprintf("client was given %v although the first matching response rule rejects (empties) the answer (ask: %s; the fault struck while the answer of %s, to be %sed, was on its way back)", o.Answer, phase, w.Calls[pl.k], pl.dec), wit())
			return false
		case "too-deep":
			m.Count("l2f_too_deep_replied_with_records", 1)
		}
	}
	got := verifC07Tags(o.Calls)
	if !strict {
		if len(got) > len(w.Calls) || !verifC07SameStrings(got, w.Calls[:len(got)]) {
			m.Violation("fault/wrong-upstream-sequence/"+phase, fmt.Sprintf("upstream call sequence %v is not a prefix of the reference %v", got, w.Calls), wit())
			return false
		}
		switch {
		case o.Replied && len(o.Answer) > 0:
			m.Count("l2f_"+phase+"_reference_answer", 1)
		case o.Replied:
			m.Count("l2f_"+phase+"_empty_reply", 1)
		default:
			m.Count("l2f_"+phase+"_failed", 1)
		}
		m.Count("l2f_judged_"+phase, 1)
		return true
	}
	if strings.Contains(o.Err, "context deadline exceeded") || strings.Contains(o.Err, "context canceled") {
		// dae's own budgets fired on a healthy controller whose upstreams answer at once: the machine stalled
		m.Count("l2f_ambiguous_handler_timeout", 1)
		return true
	}
	if len(got) != 0 && !verifC07SameStrings(got, w.Calls) {
		m.Violation("fault/wrong-upstream-sequence/"+phase, fmt.Sprintf("upstream call sequence %v, reference %v (or none, when the routed answer was kept)", got, w.Calls), wit())
		return false
	}
	switch w.Final {
	case "accept":
		if !o.Replied || !verifC07SameStrings(o.Answer, verifC07WantStrings(w.Answer)) {
			m.Violation("fault/accept-answer-differs/"+phase, fmt.Sprintf("accepted answer must be the answering upstream's: want %v got %v (replied=%v err=%q)", verifC07WantStrings(w.Answer), o.Answer, o.Replied, o.Err), wit())
			return false
		}
	case "reject":
		if !o.Replied || len(o.Answer) != 0 {
			m.Violation("fault/reject-not-empty/"+phase, fmt.Sprintf("reject must be answered with an empty answer; replied=%v answer=%v err=%q", o.Replied, o.Answer, o.Err), wit())
			return false
		}
	}
	if len(got) == 0 {
		m.Count("l2f_"+phase+"_served_without_asking_upstreams", 1)
	} else {
		m.Count("l2f_"+phase+"_walked_the_reference_sequence", 1)
	}
	m.Count("l2f_judged_"+phase, 1)
	return true
}
