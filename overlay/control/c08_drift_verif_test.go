package control

// C08 layer "drift": CONCURRENT HITS ON A DRIFTED ENTRY.
//
// The packed reply of a cache entry is only re-made when a hit finds that the TTL it was packed
// with has drifted from the remaining lifetime by more than the documented slack. A hit that
// arrives while another hit is re-making the reply reads the reply and its bookkeeping without a
// lock. The property's TTL sentence is a statement about EVERY reply, also about the replies handed
// out during those few hundred nanoseconds, so this layer produces that situation on purpose, many
// times, and judges every reply any reader obtained.
//
// One round = one entry made through the production insert path with TTL T, made "idle for d
// seconds" by moving all of its time stamps d seconds into the past (package-internal access, no
// waiting; done before anybody has looked the entry up), then hit by K readers at once. The readers
// are hot workers that spin on a batch pointer (no goroutine wake-up between the release and the
// first call) and then walk through a batch of 64 such entries: a reader leaves an entry at the
// moment the re-made reply becomes visible, so the readers arrive at the next entry together again
// and one release yields 64 races (on a loaded machine the release itself costs milliseconds).
// A reader is either a client of the controller (LookupDnsRespCache_, the clock is read by dae) or a
// caller of the entry's own lookup method with a clock reading it took itself before
// (GetPackedResponseWithApproximateTTL(name, type, now), what LookupDnsRespCache_ does with its own
// reading); the latter spins while it is told "nothing packed, build the exact answer". Optionally one
// more worker replaces some of the entries through the production insert path or runs the production
// janitor meanwhile.
//
// Oracle (property sentence 2, the same judgement as `ttl-exceeds-slack` of the timing histories):
// for every reply, every TTL in the parsed bytes must be <= ceil(Deadline' - t_reader) + 15 s, where
// Deadline' is the Deadline the monitor read from the stored entry right after the insert minus the
// d it moved it by, and t_reader is the clock reading the reader took BEFORE its first call of the batch (the
// remaining lifetime only shrinks afterwards). Judged only when the reader's last call of the batch
// returned before Deadline' - guard. A reply is attributed to its insert by the token in its RDATA (a reply
// of the replacing insert is judged against that insert's own Deadline). Nothing is inferred from
// how fast anything ran.

import (
	"fmt"
	"runtime"
	"sync"
	"sync/atomic"
	"time"

	dnsmessage "github.com/miekg/dns"
)

const (
	c08DriftEntrySpins  = 512 // calls of the entry method per reader and entry while it answers nil
	c08DriftLookupCalls = 6   // controller lookups per reader and entry until packed bytes come back
	c08DriftBatch       = 64  // entries per release of the readers
	c08DriftMeet        = 8   // the readers that are on a CPU meet again every so many entries (bounded spin, no waiting for the others)
)

type c08DriftReply struct {
	resp []byte
	n    int // the very same slice was handed out n times in a row
}

// what one reader obtained for one entry
type c08DriftGot struct {
	replies [c08DriftLookupCalls]c08DriftReply
	nrep    int
	nils    int
	calls   int
}

func (g *c08DriftGot) add(resp []byte) {
	if n := g.nrep; n > 0 && &g.replies[n-1].resp[0] == &resp[0] && len(g.replies[n-1].resp) == len(resp) {
		g.replies[n-1].n++
		return
	}
	if g.nrep < len(g.replies) {
		g.replies[g.nrep] = c08DriftReply{resp: resp, n: 1}
		g.nrep++
	}
}

type c08DriftReader struct {
	entryKind bool
	now       time.Time // clock reading before the first call of the batch
	end       time.Time // clock reading after the last call of the batch
	got       []c08DriftGot
	panicked  any
}

// one drifted entry of a batch
type c08DriftItem struct {
	entry *DnsCache
	ks    string
	msg   *dnsmessage.Msg
	qname string
	qtype uint16
	// oracle side
	key        c08Key
	gen        *c08Gen
	T          uint32
	idle       time.Duration
	deadline   time.Time // Deadline read after the insert, minus idle
	pre        []byte    // packed reply before the release
	createdPre int64
	replace    uint32 // != 0: the extra worker replaces the entry (TTL) while the readers are near it
	gNew       *c08Gen
}

type c08DriftRound struct {
	stop     bool
	ctrl     *DnsController
	items    []c08DriftItem
	readers  []c08DriftReader
	extra    func() // run by worker len(readers), may be nil
	progress atomic.Int32
	done     atomic.Int32
	armed    atomic.Int32 // readers that have seen the batch and wait for the release
	release  atomic.Bool
	arrive   [c08DriftBatch / c08DriftMeet]atomic.Int32 // meeting points inside the batch
}

// read: the reader walks through the batch. A reader of the entry kind leaves an entry when it has
// been handed packed bytes, i.e. at the moment a re-made reply becomes visible, so the readers arrive
// at the next entry together again without any further synchronisation.
func (rd *c08DriftRound) read(r *c08DriftReader) {
	defer func() {
		if p := recover(); p != nil {
			r.panicked = p
		}
		r.end = time.Now()
	}()
	// two-stage release: say "here", then spin until the coordinator has seen all readers (a reader
	// that has just said "here" is on a CPU)
	rd.armed.Add(1)
	for spin := 0; !rd.release.Load(); spin++ {
		if spin&4095 == 4095 {
			runtime.Gosched()
		}
	}
	r.now = time.Now()
	K := int32(len(rd.readers))
	for j := range rd.items {
		it := &rd.items[j]
		g := &r.got[j]
		if j&3 == 0 {
			rd.progress.Store(int32(j))
		}
		if j%c08DriftMeet == 0 && j > 0 {
			a := &rd.arrive[j/c08DriftMeet]
			a.Add(1)
			for spin := 0; spin < 3000 && a.Load() < K; spin++ {
			}
		}
		if r.entryKind {
			for i := 0; i < c08DriftEntrySpins; i++ {
				resp := it.entry.GetPackedResponseWithApproximateTTL(it.qname, it.qtype, r.now)
				g.calls++
				if len(resp) == 0 {
					g.nils++ // the caller is told to build the exact answer itself: not a reply
					continue
				}
				g.add(resp)
				break
			}
			continue
		}
		for i := 0; i < c08DriftLookupCalls; i++ {
			m := it.msg.Copy() // LookupDnsRespCache_ mutates its message
			resp, _ := rd.ctrl.LookupDnsRespCache_(m, it.ks, false)
			g.calls++
			if len(resp) == 0 {
				g.nils++
				continue
			}
			g.add(resp)
			if p := it.entry.GetPackedResponse(); len(p) > 0 && &p[0] == &resp[0] {
				break // the entry's current packed reply: nothing more to see here
			}
		}
	}
}

// c08BackDate makes an entry d older: every time stamp it carries moves d into the past.
func c08BackDate(e *DnsCache, d time.Duration) {
	e.Deadline = e.Deadline.Add(-d)
	e.OriginalDeadline = e.OriginalDeadline.Add(-d)
	for _, s := range []*atomic.Int64{&e.deadlineNano, &e.packedResponseCreatedAt, &e.lastAccessNano, &e.lastRouteSyncNano} {
		if v := s.Load(); v != 0 {
			s.Store(v - int64(d))
		}
	}
}

func (h *c08Hist) runDrift(nBatches int) {
	defer h.closeAll()
	defer h.guard("drift-history")
	r := h.r
	m := h.env.m
	h.name = fmt.Sprintf("x%d.c08.test.", h.id)
	sc := c08AsIs(c08AsIsPool[r.IntN(len(c08AsIsPool))])

	pool := runtime.GOMAXPROCS(0) - 1 // the coordinating goroutine keeps a processor of its own
	if pool > 15 {
		pool = 15
	}
	if pool < 3 {
		pool = 3
	}
	maxK := pool - 1 // one worker is kept for the writer / janitor
	var kChoices []int
	for _, k := range []int{2, 3, 4, 6, 8, 12, 14} {
		if k <= maxK {
			kChoices = append(kChoices, k)
		}
	}

	var cur atomic.Pointer[c08DriftRound]
	var wg sync.WaitGroup
	for w := 0; w < pool; w++ {
		wg.Add(1)
		go func(w int) {
			defer wg.Done()
			var last *c08DriftRound
			for spin := 0; ; spin++ {
				rd := cur.Load()
				if rd == last {
					if spin&4095 == 4095 {
						runtime.Gosched()
					}
					continue
				}
				last = rd
				if rd.stop {
					return
				}
				switch {
				case w < len(rd.readers):
					rd.read(&rd.readers[w])
					rd.done.Add(1)
				case w == len(rd.readers) && rd.extra != nil:
					rd.extra()
					rd.done.Add(1)
				}
			}
		}(w)
	}
	defer func() {
		cur.Store(&c08DriftRound{stop: true})
		wg.Wait()
	}()

	ttls := []uint32{20, 30, 45, 60, 120, 300, 600, 3600, 86400}
	var cc *c08Ctrl
	seq := 0
	for batch := 0; batch < nBatches; batch++ {
		if batch%24 == 0 {
			if cc = h.newCtrl("insert"); cc == nil {
				return
			}
		}
		ctl := cc
		rd := &c08DriftRound{ctrl: ctl.c}
		extraKind := ""
		switch x := r.IntN(8); {
		case x < 3:
			extraKind = "writer"
		case x < 5:
			extraKind = "janitor"
		}
		for len(rd.items) < c08DriftBatch {
			seq++
			T := ttls[r.IntN(len(ttls))]
			ds := []int{3, 10, 13, 14, 15, 16, 17, 18, 20, 25, 31, 45, 61, 200, int(T) / 2, int(T) - 17, int(T) - 16, int(T) - 6, int(T) - 4}
			d := time.Duration(0)
			for try := 0; try < 20 && d == 0; try++ {
				if v := ds[r.IntN(len(ds))]; v >= 1 && v <= int(T)-4 {
					d = time.Duration(v)*time.Second + time.Duration(r.IntN(1000))*time.Millisecond
				}
			}
			if d == 0 {
				d = 16 * time.Second
			}
			name := fmt.Sprintf("d%d.x%d.c08.test.", seq, h.id)
			q := c08Qtypes[r.IntN(len(c08Qtypes))]
			g := h.insert(ctl, name, q, sc, T)
			if g == nil {
				m.Count("drift_insert_failed", 1)
				if seq > 4*nBatches*c08DriftBatch {
					return
				}
				continue
			}
			ks := h.keyString(ctl, name, q, sc, sc.req(r))
			v, ok := ctl.c.dnsCache.Load(ks)
			if !ok {
				m.Count("drift_insert_failed", 1)
				continue
			}
			e := v.(*DnsCache)
			pre := e.GetPackedResponse()
			if len(pre) == 0 {
				m.Count("drift_entry_without_packed_reply", 1)
				continue
			}
			// the entry has been idle for d: all of its stamps move d into the past; the oracle's
			// Deadline moves with them
			c08BackDate(e, d)
			it := c08DriftItem{entry: e, ks: ks, qname: name, qtype: q, key: c08Key{LName: name, Qtype: q, Scope: sc.label},
				gen: g, T: T, idle: d, deadline: g.D.Add(-d), pre: pre, createdPre: e.packedResponseCreatedAt.Load()}
			if !e.Deadline.Equal(it.deadline) {
				m.Inconclusive("drift: entry Deadline changed between the insert and the back-dating")
				return
			}
			it.msg = new(dnsmessage.Msg)
			it.msg.SetQuestion(name, q)
			if extraKind == "writer" && len(rd.items)%8 == 5 {
				it.replace = ttls[r.IntN(len(ttls))]
			}
			rd.items = append(rd.items, it)
			delete(ctl.slots, it.key) // the slot bookkeeping of the timing histories is not used here
		}
		K := kChoices[r.IntN(len(kChoices))]
		rd.readers = make([]c08DriftReader, K)
		for i := range rd.readers {
			rd.readers[i].entryKind = r.IntN(10) < 7
			rd.readers[i].got = make([]c08DriftGot, len(rd.items))
		}
		want := int32(K)
		switch extraKind {
		case "writer":
			// replaces some entries through the production insert path, each when the readers are a
			// few entries away from it
			rd.extra = func() {
				for j := range rd.items {
					it := &rd.items[j]
					if it.replace == 0 {
						continue
					}
					for spin := 0; int(rd.progress.Load()) < j-4 && rd.done.Load() < int32(K); spin++ {
						if spin&1023 == 1023 {
							runtime.Gosched()
						}
					}
					it.gNew = h.insert(ctl, it.qname, it.qtype, sc, it.replace)
					delete(ctl.slots, it.key)
				}
			}
			want++
		case "janitor":
			rd.extra = func() {
				for n := 0; n < 3; n++ {
					h.janitor(ctl)
				}
			}
			want++
		}
		cur.Store(rd)
		for spin := 0; rd.armed.Load() < int32(K); spin++ {
			if spin&255 == 255 {
				runtime.Gosched()
			}
		}
		rd.release.Store(true)
		for spin := 0; rd.done.Load() < want; spin++ {
			if spin&255 == 255 {
				runtime.Gosched()
			}
		}
		m.Count("drift_batches", 1)
		// All clock readings of a batch must lie close together: an entry-kind reader hands its own
		// reading to dae, and a reply packed for one reader's clock is judged against another reader's.
		// With the readings within 5 s of each other that cannot eat the 15 s slack; a batch that was
		// stalled for longer is not judged.
		{
			lo, hi := rd.readers[0].now, rd.readers[0].end
			for i := range rd.readers {
				if rd.readers[i].now.Before(lo) {
					lo = rd.readers[i].now
				}
				if rd.readers[i].end.After(hi) {
					hi = rd.readers[i].end
				}
			}
			if hi.Sub(lo) > 5*time.Second {
				m.Count("drift_batches_not_judged_stalled", 1)
				continue
			}
		}
		if extraKind != "" {
			m.Count("drift_batches_with_"+extraKind, 1)
		}
		for j := range rd.items {
			h.judgeDrift(rd, j, extraKind)
		}
		if len(h.trace) > 300 {
			h.trace = h.trace[:0]
		}
	}
	m.Count("drift_histories_completed", 1)
}

// judgeDrift judges everything the readers of a batch obtained for entry j.
func (h *c08Hist) judgeDrift(rd *c08DriftRound, j int, extraKind string) {
	m := h.env.m
	it := &rd.items[j]
	e, g, gNew, k, T, d, dl, pre := it.entry, it.gen, it.gNew, it.key, it.T, it.idle, it.deadline, it.pre
	K := len(rd.readers)
	m.Count("drift_rounds", 1)
	m.Count(fmt.Sprintf("drift_readers_per_round_%02d", K), 1)
	if gNew != nil {
		m.Count("drift_rounds_with_writer", 1)
	}
	if extraKind == "janitor" {
		m.Count("drift_rounds_with_janitor", 1)
	}
	switch {
	case d < time.Duration(c08SlackSecond)*time.Second:
		m.Count("drift_rounds_idle_below_slack", 1)
	case d < 2*time.Duration(c08SlackSecond)*time.Second:
		m.Count("drift_rounds_idle_just_above_slack", 1)
	default:
		m.Count("drift_rounds_idle_far_above_slack", 1)
	}
	switch rem := time.Duration(T)*time.Second - d; {
	case rem < 20*time.Second:
		m.Count("drift_rounds_remaining_under_20s", 1)
	case rem < time.Hour:
		m.Count("drift_rounds_remaining_under_1h", 1)
	default:
		m.Count("drift_rounds_remaining_hours", 1)
	}
	repacked := e.packedResponseCreatedAt.Load() != it.createdPre
	cur2 := e.GetPackedResponse()
	if len(cur2) > 0 && &cur2[0] != &pre[0] {
		repacked = true
	}
	cache := map[*byte]*c08Obs{}
	early := 0
	for i := range rd.readers {
		rr := &rd.readers[i]
		got := &rr.got[j]
		kind := "lookup"
		if rr.entryKind {
			kind = "entry"
		}
		if j == 0 {
			m.Count("drift_reader_kind_"+kind, 1)
			if rr.panicked != nil {
				h.violate("panic/drifted-entry/"+kind, fmt.Sprintf("lookup of a drifted entry panicked: %v", rr.panicked), map[string]any{"key": k.String()})
			}
		}
		if got.calls == 0 {
			continue
		}
		if got.nils > 0 && rr.entryKind {
			m.Count("drift_entry_reader_told_to_build_exact_answer", int64(got.nils))
			if got.nrep == 0 {
				m.Count("drift_entry_reader_gave_up_spinning", 1)
			}
		}
		// "inside the re-pack": the reader's first call was answered before the new packed reply
		// was visible (nothing packed / exact answer built / previous packed reply)
		if repacked && (got.nils > 0 || (got.nrep > 0 && len(cur2) > 0 && &got.replies[0].resp[0] != &cur2[0])) {
			early++
		}
		if got.nils > 0 && !rr.entryKind {
			if rr.end.Before(dl.Add(-c08Eps)) && (gNew == nil || (gNew.known && rr.end.Before(gNew.D.Add(-c08Eps)))) {
				h.violate("fresh-not-served/drifted-entry", "controller lookup entirely before the entry's Deadline returned nothing",
					map[string]any{"key": k.String(), "ttl_s": T, "idle_s": d.Seconds(), "readers": K, "other_worker": extraKind})
			} else {
				m.Count("drift_ambiguous_miss", int64(got.nils))
			}
		}
		for _, rep := range got.replies[:got.nrep] {
			o := cache[&rep.resp[0]]
			if o == nil {
				o = &c08Obs{}
				c08Decode(o, rep.resp)
				cache[&rep.resp[0]] = o
			}
			m.Eval(rep.n)
			m.Count("drift_replies_judged", int64(rep.n))
			switch {
			case &rep.resp[0] == &pre[0]:
				m.Count("drift_replies_previous_packed_bytes", int64(rep.n))
			case len(cur2) > 0 && &rep.resp[0] == &cur2[0]:
				m.Count("drift_replies_repacked_bytes", int64(rep.n))
			default:
				m.Count("drift_replies_other_bytes", int64(rep.n))
			}
			if o.bad != "" {
				h.violate("served-undecodable/drifted-entry", "served bytes are not a well-formed answer of one insert: "+o.bad, map[string]any{"key": k.String()})
				continue
			}
			sg := c08GenOf(o.tok)
			if sg == nil || (sg != g && sg != gNew) {
				h.violate("wrong-scope/drifted-entry", "answer of a different insert served for this name/type/scope",
					map[string]any{"asked": k.String(), "token": o.tok})
				continue
			}
			D := dl
			if sg == gNew {
				if !gNew.known {
					m.Count("verdict_skipped_unknown_deadline", int64(rep.n))
					continue
				}
				D = gNew.D
				m.Count("drift_replies_of_replacing_insert", int64(rep.n))
			}
			if !rr.end.Before(D.Add(-c08Eps)) {
				m.Count("drift_ambiguous_not_certainly_fresh", int64(rep.n))
				continue
			}
			rem := D.Sub(rr.now)
			bound := uint32((rem+time.Second-1)/time.Second) + c08SlackSecond
			okTTL := true
			for _, t := range o.ttls {
				if t > bound {
					okTTL = false
					h.violate("ttl-exceeds-slack/drifted-entry/"+kind,
						fmt.Sprintf("TTL %d s shown for a fresh answer whose remaining lifetime is <= %.3f s (documented slack %d s): entry with TTL %d s idle for %.1f s, then hit by %d readers at once",
							t, rem.Seconds(), c08SlackSecond, T, d.Seconds(), K),
						map[string]any{"key": k.String(), "inserted_ttl_s": T, "idle_s": d.Seconds(), "readers": K, "reader_kind": kind,
							"served_ttls": o.ttls, "bound_s": bound, "remaining_lifetime_ms_at_reader_clock": ms(rem),
							"served_previous_packed_bytes": &rep.resp[0] == &pre[0], "repack_observed_in_round": repacked,
							"other_worker": extraKind, "reply_of_replacing_insert": sg == gNew, "reader_calls": got.calls,
							"reader_told_nothing_packed": got.nils, "position_in_batch": j})
					break
				}
			}
			if okTTL {
				m.Count("drift_ttl_within_slack", int64(rep.n))
				m.Count("ttl_checked", int64(rep.n))
			}
		}
	}
	if repacked {
		m.Count("drift_rounds_with_repack", 1)
		if early >= 1 {
			// the reader that re-made the reply plus at least one that was answered before the new
			// reply was visible
			m.Count("drift_rounds_with_two_or_more_readers_inside_one_repack", 1)
		}
		m.Count(fmt.Sprintf("drift_readers_inside_repack_%02d", early+1), 1)
		m.Distinct(fmt.Sprintf("drift|T=%d|idle=%ds|K=%d|inside=%d|%s", T, int(d.Seconds()), K, early+1, extraKind))
	} else {
		m.Count("drift_rounds_without_repack", 1)
	}
}
