//go:build linux

package control

// C05, class "end of stream during detection".
//
// A client may shut down its write side while one of dae's detection stages is still waiting for
// more of its first flight: after nothing at all (a client that half-closes and reads a
// server-first banner), after one byte, after a bare length, inside an announced frame / record /
// request head, after a complete frame that is not what the stage looks for, after a complete
// look-alike. The statement makes no exception for that moment:
//   - the upstream receives exactly the bytes the client sent, in order, and then a write-shutdown;
//   - the opposite direction keeps flowing: the upstream here writes its banner only AFTER it has
//     seen the shutdown, and the client must receive every byte of it followed by the upstream's
//     own end of stream;
//   - the detection stage delays the connection by no more than its window.
// Stages: destination port 53 (handleTCPDnsFastPath -> bufioConn -> relay) and the sniffing path
// (prefetchForTcpSniff -> prefixedConn -> ConnSniffer -> relay), both composed by c05Compose exactly
// as handleConn composes them, on real loopback sockets.
//
// Verdicts are structural: "dae closed the client's connection without ever dialling the upstream
// although the client had only shut down its write side", "upstream saw end of stream after k of the
// n bytes", "client saw end of stream / reset after k of the n banner bytes the upstream wrote right
// after the shutdown", byte differences. The two statements that involve time (no end of stream at
// the upstream; detection longer than its window) are drawn only from a repetition on a fresh
// connection with quiet lag probes, like the trickle class.

import (
	"bytes"
	"context"
	"encoding/hex"
	"encoding/json"
	"fmt"
	"io"
	"math/rand/v2"
	"net"
	"net/netip"
	"os"
	"path/filepath"
	"sync"
	"sync/atomic"
	"testing"
	"time"

	"github.com/daeuniverse/dae/common/consts"
	vk "github.com/daeuniverse/dae/verifkit"
	"github.com/daeuniverse/outbound/netproxy"
)

type c05EOSCase struct {
	ID       int    `json:"id"`
	Stage    string `json:"detection_stage"`  // dns53 | sniff
	Bytes    string `json:"bytes_before_fin"` // class
	Timing   string `json:"fin_timing"`       // immediate | paused | late-bytes
	PauseMs  int    `json:"pause_ms"`
	RConn    string `json:"upstream_conn"`
	DstPort  uint16 `json:"dst_port"`
	WindowMs int    `json:"sniffing_timeout_ms"`
	SentLen  int    `json:"client_bytes_len"`
	SentHex  string `json:"client_bytes_hex_head"`
	Banner   int    `json:"upstream_banner_len"`
	Note     string `json:"note,omitempty"`
	// MoreAfterWindow: the client sends no end of stream during detection; the detection window runs out
	// over a partly received frame, and this many further bytes arrive while the upstream is being
	// dialled (DialMs), i.e. before the relay starts. Observed, not judged (see c05EOSBatch).
	MoreAfterWindow int `json:"more_bytes_while_dialling,omitempty"`
	DialMs          int `json:"dial_ms,omitempty"`
	observeOnly     bool
	sent            []byte
	banner          []byte
}

var c05EOSStages = []string{"dns53", "sniff"}
var c05EOSBytes = []string{"none", "one", "two", "partial", "complete-other", "look-alike"}
var c05EOSTimings = []string{"immediate", "paused", "late-bytes"}

func c05EOSPayload(r *rand.Rand, stage, class string, id int) ([]byte, string) {
	switch stage {
	case "dns53":
		switch class {
		case "none":
			return nil, ""
		case "one":
			return []byte{c05Pick[byte](r, 0x00, 0x01, 0x0f, 'S')}, ""
		case "two":
			n := 12 + r.IntN(4094-12+1) // a length dae would accept, nothing follows
			return []byte{byte(n >> 8), byte(n)}, fmt.Sprintf("announces %d", n)
		case "partial":
			n := c05Pick(r, 13, 40, 300, 1200, 4094)
			k := 1 + r.IntN(min(n-1, 400))
			return append([]byte{byte(n >> 8), byte(n)}, c05RandBytes(r, k)...), fmt.Sprintf("announces %d, %d follow", n, k)
		case "partial-big":
			// ASCII first bytes read as a length above the largest frame dae accepts
			s := c05Pick(r, "GET /c05 HTTP/1.1\r\nHost: eos.example\r\n\r\n", "SSH-2.0-OpenSSH_9.6 c05-eos\r\n", "EHLO eos.example\r\n")
			return []byte(s), "first two bytes announce more than 4094"
		case "complete-other":
			if r.IntN(3) == 0 {
				return c05Preamble(r, "short-len", id), "length below 12"
			}
			return c05Preamble(r, "bad-parse", id), "complete frame that does not parse"
		case "look-alike":
			return c05DNSResponseFrame(r), "complete DNS response frame"
		}
	case "sniff":
		small, _ := c05Hellos()
		httpHead := c05Preamble(r, "http", id)
		switch class {
		case "none":
			return nil, ""
		case "one":
			return []byte{c05Pick[byte](r, 0x16, 'G', 'P')}, ""
		case "two":
			return c05Pick(r, []byte{0x16, 0x03}, []byte("GE"), []byte("PO")), ""
		case "partial":
			if r.IntN(2) == 0 {
				k := 6 + r.IntN(len(small)-7)
				return append([]byte(nil), small[:k]...), fmt.Sprintf("%d of the %d bytes of a TLS ClientHello record", k, len(small))
			}
			k := 5 + r.IntN(len(httpHead)-6-4)
			return httpHead[:k], fmt.Sprintf("%d of the %d bytes of an HTTP request head", k, len(httpHead))
		case "complete-other":
			return c05Preamble(r, "garbage", id), "neither TLS nor HTTP"
		case "look-alike":
			switch r.IntN(3) {
			case 0:
				return append([]byte(nil), small...), "complete TLS ClientHello"
			case 1:
				return httpHead, "complete HTTP request head"
			}
			return c05Preamble(r, "tlsish-garbage", id), "TLS record header announcing more than follows"
		}
	}
	panic("c05 eos: unknown payload class " + stage + "/" + class)
}

type c05EOSObs struct {
	comp        c05Composed
	composeDur  time.Duration
	composeAt   time.Time
	composeErr  string
	panicVal    string
	dialled     bool
	relayErr    string
	relayRan    bool
	finAt       time.Time
	upGot       []byte
	upEOF       bool
	upErr       string
	upEOFAt     time.Time
	upWaitedOut bool // the upstream gave up waiting for the end of stream and wrote its banner anyway
	upWrote     int
	upWriteErr  string
	upWroteAt   time.Time
	cliGot      []byte
	cliEOF      bool
	cliErr      string
	harnessErr  string
	opaqueCW    int32
	events      []string
}

// c05EOSRun drives one connection and reports what the three parties observed.
func c05EOSRun(cp *ControlPlane, cs *c05EOSCase, dstSalt byte) *c05EOSObs {
	o := &c05EOSObs{}
	var evMu sync.Mutex
	t0 := time.Now()
	ev := func(format string, a ...any) {
		s := fmt.Sprintf("%8.1fms ", float64(time.Since(t0))/1e6) + fmt.Sprintf(format, a...)
		evMu.Lock()
		if len(o.events) < 40 {
			o.events = append(o.events, s)
		}
		evMu.Unlock()
	}
	defer func() {
		evMu.Lock()
		o.events = append([]string(nil), o.events...)
		evMu.Unlock()
	}()
	window := time.Duration(cs.WindowMs) * time.Millisecond
	if cs.Stage == "dns53" {
		window = TCPDNSFirstReadTimeout
	}
	lnA, err := c05ListenLoopback()
	if err != nil {
		o.harnessErr = "listen: " + err.Error()
		return o
	}
	defer lnA.Close()
	lnB, err := c05ListenLoopback()
	if err != nil {
		o.harnessErr = "listen: " + err.Error()
		return o
	}
	defer lnB.Close()
	cli, err := net.DialTCP("tcp", nil, lnA.Addr().(*net.TCPAddr))
	if err != nil {
		o.harnessErr = "dial: " + err.Error()
		return o
	}
	defer cli.Close()
	fin := func() {
		o.finAt = time.Now()
		ev("client: write-shutdown after %d bytes", len(cs.sent))
		_ = cli.CloseWrite()
	}
	write := func(b []byte) bool {
		if len(b) == 0 {
			return true
		}
		if _, err := cli.Write(b); err != nil {
			o.harnessErr = "client write: " + err.Error()
			return false
		}
		return true
	}
	switch cs.Timing {
	case "immediate":
		if !write(cs.sent) {
			return o
		}
		fin()
	case "paused":
		if !write(cs.sent) {
			return o
		}
	case "after-window":
		if !write(cs.sent[:len(cs.sent)-cs.MoreAfterWindow]) {
			return o
		}
	}
	_ = lnA.SetDeadline(time.Now().Add(10 * time.Second))
	lConn, err := lnA.AcceptTCP()
	if err != nil {
		o.harnessErr = "accept: " + err.Error()
		return o
	}
	time.Sleep(2 * time.Millisecond)
	t0 = time.Now()

	// dae side
	rr := &bpfRoutingResult{Outbound: uint8(consts.OutboundControlPlaneRouting)}
	dst := netip.AddrPortFrom(netip.AddrFrom4([4]byte{10, 7 + dstSalt, byte(cs.ID >> 8), byte(cs.ID)}), cs.DstPort)
	daeDone := make(chan struct{})
	composed := make(chan struct{})
	var dialled atomic.Bool
	var opaque *c05OpaqueConn
	go func() {
		defer close(daeDone)
		defer func() { _ = lConn.Close() }() // handleConn's caller closes the accepted socket when it returns
		defer func() {
			if p := recover(); p != nil {
				o.panicVal = fmt.Sprintf("%v", p)
			}
		}()
		o.composeAt = time.Now()
		lRelay, err := c05Compose(cp, lConn, dst, rr, &o.comp)
		o.composeDur = time.Since(o.composeAt)
		if o.comp.sniffer != nil {
			defer func() { _ = o.comp.sniffer.Close() }()
		}
		if err != nil {
			o.composeErr = err.Error()
		}
		ev("dae: composition done after %.1f ms outcome=%s err=%q sniffErr=%q", ms(int64(o.composeDur)), o.comp.outcome, o.composeErr, o.comp.sniffErr)
		if lRelay == nil {
			ev("dae: connection not relayed; accepted socket closed")
			return
		}
		dialled.Store(true)
		close(composed)
		if cs.DialMs > 0 {
			time.Sleep(time.Duration(cs.DialMs) * time.Millisecond) // the dial of a real outbound takes time
		}
		rRaw, err := net.DialTCP("tcp", nil, lnB.Addr().(*net.TCPAddr))
		if err != nil {
			o.harnessErr = "harness dial: " + err.Error()
			return
		}
		var rConn netproxy.Conn = rRaw
		if cs.RConn == "opaque" {
			opaque = &c05OpaqueConn{c: rRaw}
			rConn = opaque
		}
		defer func() { _ = rConn.Close() }()
		o.relayRan = true
		rerr := RelayTCPContextWithRecords(context.Background(), lRelay, rConn, func(int64) {}, func(int64) {})
		if rerr != nil {
			o.relayErr = rerr.Error()
		}
		ev("dae: relay returned err=%v", rerr)
	}()

	// client: the rest of its script, then it reads until the end
	cliDone := make(chan struct{})
	go func() {
		defer close(cliDone)
		switch cs.Timing {
		case "paused":
			time.Sleep(time.Duration(cs.PauseMs) * time.Millisecond)
			fin()
		case "late-bytes":
			time.Sleep(time.Duration(cs.PauseMs) * time.Millisecond)
			if !write(cs.sent) {
				return
			}
			fin()
		case "after-window":
			select {
			case <-composed:
			case <-daeDone:
			}
			ev("client: %d more bytes while the upstream is being dialled", cs.MoreAfterWindow)
			if !write(cs.sent[len(cs.sent)-cs.MoreAfterWindow:]) {
				return
			}
			time.Sleep(time.Duration(cs.DialMs+150) * time.Millisecond)
			fin()
		}
		_ = cli.SetReadDeadline(time.Now().Add(window + 40*time.Second))
		buf := make([]byte, 8192)
		for {
			n, err := cli.Read(buf)
			o.cliGot = append(o.cliGot, buf[:n]...)
			if err == io.EOF {
				o.cliEOF = true
				ev("client: end of stream after %d bytes", len(o.cliGot))
				return
			}
			if err != nil {
				o.cliErr = err.Error()
				ev("client: read error after %d bytes: %v", len(o.cliGot), err)
				return
			}
		}
	}()

	// upstream
	upDone := make(chan struct{})
	accepted := make(chan *net.TCPConn, 1)
	go func() {
		_ = lnB.SetDeadline(time.Now().Add(window + 30*time.Second))
		c, err := lnB.AcceptTCP()
		if err != nil {
			accepted <- nil
			return
		}
		accepted <- c
	}()
	go func() {
		defer close(upDone)
		var up *net.TCPConn
		select {
		case up = <-accepted:
		case <-daeDone:
			if dialled.Load() {
				up = <-accepted
			}
		}
		if up == nil {
			ev("upstream: never dialled")
			return
		}
		defer up.Close()
		o.dialled = true
		// waits for the client's end of stream; gives up after the window plus 8 s and answers anyway
		_ = up.SetReadDeadline(time.Now().Add(window + 8*time.Second))
		buf := make([]byte, 8192)
		for {
			n, err := up.Read(buf)
			o.upGot = append(o.upGot, buf[:n]...)
			if err == io.EOF {
				o.upEOF, o.upEOFAt = true, time.Now()
				ev("upstream: end of stream after %d bytes", len(o.upGot))
				break
			}
			if ne, ok := err.(net.Error); ok && ne.Timeout() {
				o.upWaitedOut = true
				ev("upstream: no end of stream %.0f ms after accepting (%d bytes so far); answering anyway", ms(int64(window+8*time.Second)), len(o.upGot))
				break
			}
			if err != nil {
				o.upErr = err.Error()
				ev("upstream: read error after %d bytes: %v", len(o.upGot), err)
				return
			}
		}
		// the answer is written only now: after the shutdown was seen
		half := len(cs.banner) / 2
		for i, part := range [][]byte{cs.banner[:half], cs.banner[half:]} {
			if i == 1 {
				time.Sleep(30 * time.Millisecond)
			}
			n, err := up.Write(part)
			o.upWrote += n
			if err != nil {
				o.upWriteErr = err.Error()
				ev("upstream: write error after %d banner bytes: %v", o.upWrote, err)
				break
			}
		}
		o.upWroteAt = time.Now()
		if o.upWaitedOut && o.upWriteErr == "" {
			// was the shutdown merely late? look a little longer (repetition decides)
			_ = up.SetReadDeadline(time.Now().Add(3 * time.Second))
			for {
				n, err := up.Read(buf)
				o.upGot = append(o.upGot, buf[:n]...)
				if err == io.EOF {
					o.upEOF, o.upEOFAt = true, time.Now()
				}
				if err != nil {
					break
				}
			}
		}
		ev("upstream: banner of %d bytes written, write-shutdown", o.upWrote)
		_ = up.CloseWrite()
		_ = up.SetReadDeadline(time.Now().Add(15 * time.Second))
		_, _ = io.Copy(io.Discard, up)
	}()

	<-upDone
	<-cliDone
	_ = cli.Close()
	select {
	case <-daeDone:
	case <-time.After(20 * time.Second):
		o.harnessErr = "dae side still running 20 s after both peers were done"
	}
	if opaque != nil {
		o.opaqueCW = opaque.closeWrites.Load()
	}
	return o
}

func c05EOSHead(b []byte) string {
	if len(b) > 48 {
		return hex.EncodeToString(b[:48]) + "..."
	}
	return hex.EncodeToString(b)
}

func c05EOSWitness(cs *c05EOSCase, o *c05EOSObs, more map[string]any) map[string]any {
	w := map[string]any{"case": cs, "composition": o.comp.outcome, "compose_ms": ms(int64(o.composeDur)), "compose_err": o.composeErr,
		"sniff_err": o.comp.sniffErr, "handled_by_dns_fast_path": o.comp.handled, "upstream_dialled": o.dialled,
		"upstream_received_len": len(o.upGot), "upstream_received_hex_head": c05EOSHead(o.upGot), "upstream_saw_end_of_stream": o.upEOF, "upstream_read_err": o.upErr,
		"upstream_banner_written": o.upWrote, "upstream_write_err": o.upWriteErr,
		"client_received_len": len(o.cliGot), "client_saw_end_of_stream": o.cliEOF, "client_read_err": o.cliErr, "relay_err": o.relayErr, "events": o.events}
	for k, v := range more {
		w[k] = v
	}
	return w
}

func c05EOSViolate(m *vk.Monitor, cs *c05EOSCase, sig, what string, w map[string]any) {
	if cs.observeOnly {
		// sub-case recorded as a finding candidate: witness kept, no verdict
		m.Count("eos_more_after_window_unjudged_failed", 1)
		w["would_be_signature"], w["what"] = sig, what
		dump := filepath.Join(vk.BuildDir(), "replay", "C05", "eos-more-after-window-witness.json")
		_ = os.MkdirAll(filepath.Dir(dump), 0o755)
		if b, err := json.MarshalIndent(w, "", " "); err == nil {
			_ = os.WriteFile(dump, b, 0o644)
		}
		return
	}
	c05SigMu.Lock()
	c05SigSeen[sig]++
	first := c05SigSeen[sig] == 1
	c05SigMu.Unlock()
	if first {
		m.Violation(sig, what, w)
	}
}

func c05EOSCalm(m *vk.Monitor, from time.Time) bool {
	to := time.Now()
	if !c05HB.settle() || c05HB.maxLag(from, to) >= c05LagLimit {
		m.Count("eos_timing_verdict_skipped_scheduler_lag", 1)
		return false
	}
	return true
}

// c05EOSJudge: structural verdicts at once; returns "eof-missing" / "delay" when a statement about
// time would have to be made (decided by repetition), "" otherwise.
func c05EOSJudge(m *vk.Monitor, cs *c05EOSCase, o *c05EOSObs) (timeCandidate string, judged bool) {
	base := "eos-during-detection/" + cs.Stage + "/" + cs.Bytes
	if o.harnessErr != "" {
		m.Count("eos_harness_error_unjudged", 1)
		return "", false
	}
	if o.panicVal != "" {
		c05EOSViolate(m, cs, base+"/panic", "panic in dae's connection handling: "+o.panicVal, c05EOSWitness(cs, o, nil))
		return "", true
	}
	if !o.dialled {
		// the dae side has returned (c05EOSRun waits for it) without dialling: it closed the accepted socket
		c05EOSViolate(m, cs, base+"/swallowed", fmt.Sprintf("the client sent %d bytes and shut down its write side while %s detection was under way; dae closed the connection without dialling the upstream "+
			"(composition %s, handled-as-DNS=%v, err %q): the client's bytes and its end of stream never reached the upstream and the upstream's answer could never flow back",
			len(cs.sent), cs.Stage, o.comp.outcome, o.comp.handled, o.composeErr), c05EOSWitness(cs, o, nil))
		return "", true
	}
	// client -> upstream: exactly the client's bytes, then the shutdown
	n := min(len(o.upGot), len(cs.sent))
	if !bytes.Equal(o.upGot[:n], cs.sent[:n]) || len(o.upGot) > len(cs.sent) {
		off := 0
		for off < n && o.upGot[off] == cs.sent[off] {
			off++
		}
		c05EOSViolate(m, cs, base+"/stream-mismatch/l2r", fmt.Sprintf("upstream received %d bytes, client sent %d; first difference at offset %d", len(o.upGot), len(cs.sent), off), c05EOSWitness(cs, o, nil))
		return "", true
	}
	if o.upEOF && len(o.upGot) < len(cs.sent) {
		c05EOSViolate(m, cs, base+"/short-at-eof/l2r", fmt.Sprintf("upstream saw end of stream after %d of the %d bytes the client wrote before shutting down", len(o.upGot), len(cs.sent)), c05EOSWitness(cs, o, nil))
		return "", true
	}
	if o.upErr != "" {
		c05EOSViolate(m, cs, base+"/upstream-reset", fmt.Sprintf("upstream read failed (%s) after %d of %d bytes although the client had only shut down its write side", o.upErr, len(o.upGot), len(cs.sent)), c05EOSWitness(cs, o, nil))
		return "", true
	}
	// upstream -> client: the banner written after the shutdown was seen
	k := min(len(o.cliGot), len(cs.banner))
	if !bytes.Equal(o.cliGot[:k], cs.banner[:k]) || len(o.cliGot) > len(cs.banner) {
		c05EOSViolate(m, cs, base+"/stream-mismatch/r2l", fmt.Sprintf("client received %d bytes that differ from the %d-byte banner", len(o.cliGot), len(cs.banner)), c05EOSWitness(cs, o, nil))
		return "", true
	}
	if len(o.cliGot) < len(cs.banner) {
		// the banner was written within moments of the shutdown (far inside the relay's grace period)
		quick := o.upEOF && !o.upWaitedOut && o.upWroteAt.Sub(o.upEOFAt) < 3*time.Second
		if (o.cliEOF || o.cliErr != "") && quick && !isTimeoutText(o.cliErr) {
			c05EOSViolate(m, cs, base+"/reverse-direction-cut", fmt.Sprintf("after the client's shutdown reached the upstream, the upstream wrote %d of its %d banner bytes (write error %q) within %.0f ms; "+
				"the client's read side ended (eof=%v err=%q) after %d of them", o.upWrote, len(cs.banner), o.upWriteErr, ms(int64(o.upWroteAt.Sub(o.upEOFAt))), o.cliEOF, o.cliErr, len(o.cliGot)), c05EOSWitness(cs, o, nil))
			return "", true
		}
		if !o.upEOF {
			return "eof-missing", false
		}
		m.Count("eos_reverse_short_unjudged", 1)
		return "", false
	}
	if !o.upEOF {
		return "eof-missing", false
	}
	if o.upWaitedOut {
		// the shutdown came, but later than the window + 8 s
		return "delay", false
	}
	if o.composeDur > o.comp.windows+2*time.Second {
		return "delay", false
	}
	return "", true
}

func isTimeoutText(s string) bool { return s != "" && bytes.Contains([]byte(s), []byte("timeout")) }

var c05EOSRequired []string

// c05EOSBatch runs the class; every (stage x bytes x timing) cell is run on both kinds of upstream conn.
func c05EOSBatch(m *vk.Monitor) {
	r := vk.NewRand(0xC05E05)
	cp := &ControlPlane{sniffingTimeout: 400 * time.Millisecond}
	var cases []*c05EOSCase
	id := 0
	reps := vk.Scale(2, 12)
	for _, stage := range c05EOSStages {
		classes := c05EOSBytes
		if stage == "dns53" {
			classes = append(append([]string(nil), classes...), "partial-big")
		}
		for _, class := range classes {
			for _, timing := range c05EOSTimings {
				if class == "none" && timing == "late-bytes" {
					continue // same as "paused"
				}
				c05EOSRequired = append(c05EOSRequired, "eos_"+stage+"_"+class+"_"+timing)
				for rep := 0; rep < reps; rep++ {
					id++
					cs := &c05EOSCase{ID: id, Stage: stage, Bytes: class, Timing: timing, RConn: c05If(rep%2 == 0, "tcp", "opaque"), WindowMs: 400}
					if stage == "dns53" {
						cs.DstPort = 53
						cs.PauseMs = c05Pick(r, 40, 150, 600, 1500)
					} else {
						cs.DstPort = c05Pick[uint16](r, 80, 443, 8443)
						cs.PauseMs = c05Pick(r, 30, 90, 160)
					}
					cs.sent, cs.Note = c05EOSPayload(r, stage, class, 20000+id)
					cs.SentLen, cs.SentHex = len(cs.sent), c05EOSHead(cs.sent)
					cs.Banner = c05Pick(r, 1, 17, 300, 1449, 5000)
					cs.banner = c05RandBytes(r, cs.Banner)
					cases = append(cases, cs)
				}
			}
		}
	}
	// Neighbouring order: no end of stream during detection; a partly received frame whose announced length
	// exceeds the detection reader's buffer, and more client bytes arrive while the upstream is being
	// dialled. This sub-case found a genuine defect (known_findings.txt, fixed: the read error that ended
	// detection stayed stored in the bufio.Reader and the relay's first read returned it); judged like
	// every other case since the repair.
	for rep := 0; rep < 2; rep++ {
		id++
		cs := &c05EOSCase{ID: id, Stage: "dns53", Bytes: "partial-big", Timing: "after-window", RConn: c05If(rep%2 == 0, "tcp", "opaque"), WindowMs: 400,
			DstPort: 53, MoreAfterWindow: 1 + r.IntN(300), DialMs: 60}
		first, _ := c05EOSPayload(r, "dns53", "partial-big", 20000+id)
		cs.sent = append(first, c05RandBytes(r, cs.MoreAfterWindow)...)
		cs.Note = "first two bytes announce more than 4094; no end of stream before the window runs out"
		cs.SentLen, cs.SentHex = len(cs.sent), c05EOSHead(cs.sent)
		cs.Banner = 64
		cs.banner = c05RandBytes(r, cs.Banner)
		cases = append(cases, cs)
	}
	var wg sync.WaitGroup
	sem := make(chan struct{}, 48)
	for _, cs := range cases {
		wg.Add(1)
		sem <- struct{}{}
		go func() {
			defer wg.Done()
			defer func() { <-sem }()
			defer func() {
				if p := recover(); p != nil {
					m.Violation("harness-panic", fmt.Sprintf("panic while running end-of-stream case: %v", p), map[string]any{"case": cs})
				}
			}()
			m.Eval(1)
			o := c05EOSRun(cp, cs, 0)
			cand, judged := c05EOSJudge(m, cs, o)
			for attempt := 1; cand != "" && attempt <= 3 && !cs.observeOnly; attempt++ {
				// a statement about time: repeated on a fresh connection, drawn only with quiet lag probes
				m.Count("eos_time_candidate_"+cand, 1)
				from := time.Now()
				o2 := c05EOSRun(cp, cs, byte(attempt))
				cand2, judged2 := c05EOSJudge(m, cs, o2)
				if cand2 == "" {
					judged = judged2
					m.Count("eos_time_candidate_not_repeated", 1)
					break
				}
				if !c05EOSCalm(m, from) {
					continue
				}
				base := "eos-during-detection/" + cs.Stage + "/" + cs.Bytes
				if cand2 == "eof-missing" && len(o2.cliGot) == len(cs.banner) {
					c05EOSViolate(m, cs, base+"/eof-not-propagated", fmt.Sprintf("the client shut down its write side after %d bytes; the upstream received %d of them and no end of stream within the detection window + 8 s (twice, on fresh connections), "+
						"although its banner, written after that, was relayed to the client", len(cs.sent), len(o2.upGot)), c05EOSWitness(cs, o2, map[string]any{"first_run_events": o.events}))
				} else if cand2 == "delay" {
					c05EOSViolate(m, cs, base+"/detection-delay", fmt.Sprintf("detection took %.0f ms (windows sum to %.0f ms) / the client's end of stream reached the upstream later than the window + 8 s, twice on fresh connections",
						ms(int64(o2.composeDur)), ms(int64(o2.comp.windows))), c05EOSWitness(cs, o2, map[string]any{"first_run_events": o.events}))
				} else {
					m.Count("eos_time_candidate_unjudged", 1)
				}
				cand = ""
				judged = true
			}
			if cand != "" && !cs.observeOnly {
				m.Count("eos_time_candidate_unjudged_scheduler_lag", 1)
			}
			if cs.observeOnly {
				m.Count("eos_more_after_window_observed", 1)
				if judged && o.upEOF && len(o.upGot) == len(cs.sent) && len(o.cliGot) == len(cs.banner) {
					m.Count("eos_more_after_window_relayed_intact", 1)
				}
				return
			}
			if judged {
				m.Count("eos_"+cs.Stage+"_"+cs.Bytes+"_"+cs.Timing, 1)
				m.Count("eos_cases_judged", 1)
				m.Count("eos_outcome_"+o.comp.outcome, 1)
				if len(o.cliGot) == len(cs.banner) && o.cliEOF {
					m.Count("eos_banner_after_shutdown_delivered_then_eof", 1)
				}
				if o.opaqueCW > 0 {
					m.Count("eos_closewrite_on_opaque_upstream", 1)
				}
				m.Distinct("eos|" + cs.Stage + "|" + cs.Bytes + "|" + cs.Timing + "|" + cs.RConn + "|" + o.comp.outcome)
			}
		}()
	}
	wg.Wait()
}

// TestVerifC05EOSOnly runs this class alone (development aid; bin/check never selects it).
func TestVerifC05EOSOnly(t *testing.T) {
	if os.Getenv("VERIF_C05_EOS_ONLY") == "" {
		t.Skip("development aid")
	}
	m := vk.NewMonitor("C05", "eosdev", "exploration", "end of stream during detection, alone")
	if s, l := c05Hellos(); len(s) == 0 || len(l) == 0 {
		t.Fatal("no hellos")
	}
	c05HB.start()
	defer close(c05HB.stop)
	c05EOSBatch(m)
	m.Require(c05EOSRequired...)
	m.Done(t)
}
