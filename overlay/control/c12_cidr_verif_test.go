package control

// C12 monitor: address sets match by CIDR containment in the userspace trie,
// in the kernel key form (cidrToBpfLpmKey + kernel LPM semantics, through
// tproxy.c's route()), and set sharing never merges different sets.

import (
	"fmt"
	"math/rand/v2"
	"net/netip"
	"strings"
	"testing"

	"github.com/daeuniverse/dae/common/consts"
	"github.com/daeuniverse/dae/component/routing"
	"github.com/daeuniverse/dae/pkg/trie"
	vk "github.com/daeuniverse/dae/verifkit"
)

var verifC12Lens4 = []int{0, 1, 7, 8, 9, 15, 16, 24, 31, 32}
var verifC12Lens6 = []int{0, 1, 7, 8, 9, 31, 32, 33, 63, 64, 65, 96, 97, 120, 127, 128}

func verifC12RandAddr(r *rand.Rand, v6 bool) netip.Addr {
	// small pool of "interesting" bytes so prefixes nest and collide
	bs := []byte{0, 1, 0x7f, 0x80, 0xff, 0x0a, 0xfd, 0x20}
	if v6 {
		var b [16]byte
		for i := range b {
			if r.IntN(3) == 0 {
				b[i] = bs[r.IntN(len(bs))]
			}
		}
		switch r.IntN(6) {
		case 0: // IPv4-mapped literal
			b = [16]byte{10: 0xff, 11: 0xff, 12: 10, 13: bs[r.IntN(len(bs))], 14: bs[r.IntN(len(bs))], 15: bs[r.IntN(len(bs))]}
		case 1:
			b[0], b[1] = 0x20, 0x01
		}
		return netip.AddrFrom16(b)
	}
	var b [4]byte
	for i := range b {
		b[i] = bs[r.IntN(len(bs))]
	}
	if r.IntN(3) == 0 {
		b[0] = 10
	}
	return netip.AddrFrom4(b)
}

func verifC12GenSet(r *rand.Rand) []string {
	n := 1 + r.IntN(4)
	if r.IntN(8) == 0 {
		n = 5 + r.IntN(20)
	}
	var out []string
	for i := 0; i < n; i++ {
		if len(out) > 0 && r.IntN(4) == 0 {
			// nested / duplicate of an earlier one
			pf := netip.MustParsePrefix(verifC12WithLen(out[r.IntN(len(out))]))
			max := pf.Addr().BitLen()
			nb := pf.Bits() + r.IntN(3) - 1
			if nb < 0 {
				nb = 0
			}
			if nb > max {
				nb = max
			}
			out = append(out, netip.PrefixFrom(pf.Addr(), nb).String())
			continue
		}
		v6 := r.IntN(2) == 0
		a := verifC12RandAddr(r, v6)
		var bits int
		if v6 {
			bits = verifC12Lens6[r.IntN(len(verifC12Lens6))]
		} else {
			bits = verifC12Lens4[r.IntN(len(verifC12Lens4))]
		}
		s := netip.PrefixFrom(a, bits).String() // host bits may be unmasked on purpose
		if bits == a.BitLen() && r.IntN(2) == 0 {
			s = a.String() // bare host address
		}
		out = append(out, s)
	}
	return out
}

func verifC12WithLen(s string) string {
	if strings.Contains(s, "/") {
		return s
	}
	if strings.Contains(s, ":") {
		return s + "/128"
	}
	return s + "/32"
}

func verifC12Probes(r *rand.Rand, set []string) []netip.Addr {
	var out []netip.Addr
	for _, s := range set {
		out = append(out, vk.AddrsAround(s)...)
		// family crossing: the v4 view of a mapped prefix and the mapped view of a v4 one
		pf := netip.MustParsePrefix(verifC12WithLen(s))
		if pf.Addr().Is4In6() {
			out = append(out, pf.Addr().Unmap())
		}
	}
	for i := 0; i < 6; i++ {
		out = append(out, verifC12RandAddr(r, i%2 == 0).Unmap())
	}
	out = append(out, netip.MustParseAddr("::"), netip.MustParseAddr("0.0.0.0"), netip.MustParseAddr("255.255.255.255"),
		netip.MustParseAddr("ffff:ffff:ffff:ffff:ffff:ffff:ffff:ffff"), netip.MustParseAddr("::fffe:ffff:ffff"), netip.MustParseAddr("::1:0:0:0"))
	return out
}

func verifC12Contains(set []string, a netip.Addr) bool {
	for _, s := range set {
		if ok, _ := vk.Contains128(s, a); ok {
			return true
		}
	}
	return false
}

func verifC12LenClass(set []string) string {
	m := map[string]bool{}
	for _, s := range set {
		pf := netip.MustParsePrefix(verifC12WithLen(s))
		fam := "4"
		if pf.Addr().Is6() {
			fam = "6"
		}
		if pf.Addr().Is4In6() {
			fam = "m"
		}
		m[fmt.Sprintf("%s/%d", fam, pf.Bits())] = true
	}
	var l []string
	for k := range m {
		l = append(l, k)
	}
	return strings.Join(sortStrings(l), ",")
}

func sortStrings(l []string) []string {
	for i := range l {
		for j := i + 1; j < len(l); j++ {
			if l[j] < l[i] {
				l[i], l[j] = l[j], l[i]
			}
		}
	}
	return l
}

func TestVerifC12(t *testing.T) {
	m := vk.NewMonitor("C12", "", "exploration",
		"random prefix sets (lengths 0..32/128 incl. /0 of both families, nested, duplicated, unmasked host bits, IPv4-mapped literals) x probes at first/last/neighbour addresses and family crossings; "+
			"oracle = first-L-bits containment on IPv4-mapped 16-byte forms; three observers: trie.HasPrefix, tproxy.c route() over cidrToBpfLpmKey keys (kernel LPM semantics), builder set sharing; "+
			"distinct = (observer, prefix-length class set, probe inside/outside)")
	m.SetFloor(150)
	m.Assume("kernel LPM trie semantics emulated by the kernsim shim", "containment oracle verifkit.Contains128")
	r := vk.NewRand(0xC12)

	// (a) userspace trie ---------------------------------------------------
	nsets := vk.Scale(3000, 100000)
	for i := 0; i < nsets && m.Violations() < 5; i++ {
		set := verifC12GenSet(r)
		var pfs []netip.Prefix
		for _, s := range set {
			pfs = append(pfs, netip.MustParsePrefix(verifC12WithLen(s)))
		}
		var tr *trie.Trie
		var err error
		func() {
			defer func() {
				if rec := recover(); rec != nil {
					err = fmt.Errorf("PANIC: %v", rec)
				}
			}()
			tr, err = trie.NewTrieFromPrefixes(pfs)
		}()
		if err != nil {
			m.Violation("trie-build", err.Error(), map[string]any{"set": set})
			continue
		}
		cls := verifC12LenClass(set)
		for _, a := range verifC12Probes(r, set) {
			m.Eval(1)
			want := verifC12Contains(set, a)
			got := tr.HasPrefix(trie.Prefix2bin128(netip.PrefixFrom(netip.AddrFrom16(a.As16()), 128)))
			m.Distinct(fmt.Sprintf("trie|%s|%v", cls, want))
			if want {
				m.Count("trie_inside", 1)
			} else {
				m.Count("trie_outside", 1)
			}
			if got != want {
				// minimise the set
				min := append([]string(nil), set...)
				for j := 0; j < len(min) && len(min) > 1; {
					cand := append(append([]string(nil), min[:j]...), min[j+1:]...)
					var cp []netip.Prefix
					for _, s := range cand {
						cp = append(cp, netip.MustParsePrefix(verifC12WithLen(s)))
					}
					t2, e2 := trie.NewTrieFromPrefixes(cp)
					if e2 == nil && t2.HasPrefix(trie.Prefix2bin128(netip.PrefixFrom(netip.AddrFrom16(a.As16()), 128))) != verifC12Contains(cand, a) {
						min = cand
					} else {
						j++
					}
				}
				m.Violation("trie-containment/"+verifC12LenClass(min), fmt.Sprintf("Trie.HasPrefix(%v)=%v but containment says %v", a, got, want),
					map[string]any{"set": min, "addr": a.String(), "original_set": set})
				break
			}
		}
		if m.WantSample() {
			m.Sample(map[string]any{"observer": "trie", "set": set})
		}
		for _, s := range set {
			pf := netip.MustParsePrefix(verifC12WithLen(s))
			if pf.Bits() == 0 {
				if pf.Addr().Is4() {
					m.Count("slash0_v4_sets", 1)
				} else {
					m.Count("slash0_v6_sets", 1)
				}
			}
		}
	}

	// (b) kernel key form + (c) set sharing, through real builder + tproxy.c --
	k, err := vk.StartKernsim("C12", "main")
	if err != nil {
		m.Inconclusive("cannot build/start kernsim: %v", err)
		m.Done(t)
		return
	}
	defer k.Close()
	nprog := vk.Scale(500, 10000)
	for i := 0; i < nprog && m.Violations() < 5; i++ {
		// 1-4 rules over dip/sip with sets that are equal, permuted, or differ in one prefix
		base := verifC12GenSet(r)
		p := &vk.RProg{Fallback: vk.ROut{Name: "direct"}}
		nr := 1 + r.IntN(4)
		many := i%4 == 3
		if many {
			// more sets than the builder handles on its serial path, of unequal sizes
			nr = 5 + r.IntN(5)
			m.Count("programs_with_5_to_9_sets", 1)
		}
		var allsets [][]string
		for j := 0; j < nr; j++ {
			set := append([]string(nil), base...)
			kind := r.IntN(4)
			if many && r.IntN(3) != 0 {
				kind = 2
			}
			switch kind {
			case 0: // permuted + duplicated
				r.Shuffle(len(set), func(a, b int) { set[a], set[b] = set[b], set[a] })
				set = append(set, set[0])
			case 1: // differs in one prefix
				set = append(set, verifC12GenSet(r)[0])
			case 2: // fresh
				set = verifC12GenSet(r)
			}
			allsets = append(allsets, set)
			fn := []string{"dip", "sip", "ip"}[r.IntN(3)]
			c := vk.RCond{Func: fn, Not: r.IntN(5) == 0}
			for _, s := range set {
				c.Params = append(c.Params, vk.RParam{Val: s})
			}
			p.Rules = append(p.Rules, vk.RRule{Conds: []vk.RCond{c}, Out: vk.ROut{Name: verifGroups[j%len(verifGroups)]}})
		}
		rules, fb, err := verifParseRouting(p.Text())
		if err != nil {
			m.Violation("frontend-error", err.Error(), map[string]any{"text": p.Text()})
			continue
		}
		b, err := verifBuildMatcher(rules, fb, verifProductionOptimizers()...)
		if err != nil {
			m.Violation("build-error", err.Error(), map[string]any{"text": p.Text()})
			continue
		}
		if len(b.snap.simulatedLpmTries) < nr {
			m.Count("programs_with_shared_sets", 1)
		}
		if i%16 == 0 {
			k.Reset()
		}
		allocStart, err := verifLoadProgram(k, b.snap)
		if err != nil {
			m.Violation("load-error", err.Error(), map[string]any{"text": p.Text(), "report": fmt.Sprint(k.Dead())})
			if k.Dead() != nil {
				break
			}
			continue
		}
		var probes []netip.Addr
		for _, s := range allsets {
			probes = append(probes, verifC12Probes(r, s)...)
		}
		var pkts []vk.RPkt
		for _, a := range probes {
			other := verifC12RandAddr(r, a.Is6()).Unmap()
			if other.Is4() != a.Is4() {
				continue
			}
			for _, asDst := range []bool{true, false} {
				pk := vk.RPkt{L4: "udp"}
				if asDst {
					pk.Src, pk.Dst = netip.AddrPortFrom(other, 1000), netip.AddrPortFrom(a, 80)
				} else {
					pk.Src, pk.Dst = netip.AddrPortFrom(a, 1000), netip.AddrPortFrom(other, 80)
				}
				pkts = append(pkts, pk)
			}
		}
		for j := range pkts {
			rq := verifRouteReq(pkts[j], false)
			k.QRoute(&rq)
		}
		res := k.Sync()
		if k.Dead() != nil {
			m.Violation("sanitizer", "kernsim died", map[string]any{"text": p.Text(), "report": k.Dead().Error()})
			break
		}
		_, id2name := verifOutboundTable()
		for j := range pkts {
			m.Eval(2)
			ref := vk.RefRoute(p, pkts[j])
			d, rerr := verifRoute(b, pkts[j])
			cname := "ERR"
			if res[j].Route >= 0 {
				cname = id2name[uint8(res[j].Route&0xff)]
			}
			cls := "fallback"
			if ref.Rule >= 0 {
				cls = verifC12LenClass(allsets[ref.Rule])
			}
			m.Distinct(fmt.Sprintf("kern|%s|%v", cls, ref.Rule >= 0))
			if ref.Rule >= 0 {
				m.Count("kern_inside", 1)
			} else {
				m.Count("kern_outside", 1)
			}
			if rerr != nil || d.Outbound != ref.Outbound {
				m.Violation("userspace-set-rule", fmt.Sprintf("userspace decision %v (err %v) != containment reference %v", d, rerr, ref),
					map[string]any{"text": p.Text(), "packet": pkts[j].String()})
				break
			}
			if cname != ref.Outbound {
				m.Violation("kernel-key-form", fmt.Sprintf("tproxy.c route() over cidrToBpfLpmKey keys says %s, containment reference says %s", cname, ref.Outbound),
					map[string]any{"text": p.Text(), "packet": pkts[j].String(), "lpm_sets": fmt.Sprint(b.snap.simulatedLpmTries)})
				break
			}
		}
		// A set whose trie is gone from lpm_array_map (the slots of a generation are deleted when it
		// is closed, e.g. after a failed reload, while routing_map may still hold its rules): the
		// kernel may give up on the packet, but it must not report "not in the set" for an address
		// the set contains - that is a different set from the one the userspace trie describes.
		if nl := uint32(len(b.snap.simulatedLpmTries)); nl > 0 && i%3 == 0 && m.Violations() < 5 {
			gone := (allocStart + uint32(r.IntN(int(nl)))) % uint32(consts.MaxMatchSetLen)
			if rc := k.LpmDel(gone); rc != 0 {
				m.Violation("load-error", fmt.Sprintf("LpmDel slot %d rc=%d", gone, rc), map[string]any{"text": p.Text()})
				continue
			}
			for j := range pkts {
				rq := verifRouteReq(pkts[j], false)
				k.QRoute(&rq)
			}
			res := k.Sync()
			if k.Dead() != nil {
				m.Violation("sanitizer", "kernsim died", map[string]any{"text": p.Text(), "report": k.Dead().Error()})
				break
			}
			_, id2name := verifOutboundTable()
			for j := range pkts {
				m.Eval(1)
				ref := vk.RefRoute(p, pkts[j])
				if res[j].Route < 0 {
					m.Count("missing_slot_routing_aborted", 1)
					continue
				}
				m.Count("missing_slot_routing_decided", 1)
				if cname := id2name[uint8(res[j].Route&0xff)]; cname != ref.Outbound {
					m.Violation("kernel-missing-slot-read-as-empty-set", fmt.Sprintf("with the trie of one set removed from lpm_array_map tproxy.c route() decides %s, containment reference says %s", cname, ref.Outbound),
						map[string]any{"text": p.Text(), "packet": pkts[j].String(), "removed_slot": gone, "lpm_sets": fmt.Sprint(b.snap.simulatedLpmTries)})
					break
				}
			}
			m.Count("programs_probed_with_a_missing_slot", 1)
		}
		if i < 2 {
			m.Sample(map[string]any{"observer": "kernel+sharing", "text": p.Text()})
		}
	}

	// forced hash collision in the dedup table: the colliding entry must not be shared
	for i := 0; i < vk.Scale(200, 2000) && m.Violations() < 5; i++ {
		x, y := verifC12GenSet(r), verifC12GenSet(r)
		var xp, yp []netip.Prefix
		for _, s := range x {
			xp = append(xp, netip.MustParsePrefix(verifC12WithLen(s)))
		}
		for _, s := range y {
			yp = append(yp, netip.MustParsePrefix(verifC12WithLen(s)))
		}
		xc, yc := canonicalizePrefixes(xp), canonicalizePrefixes(yp)
		if prefixesEqual(xc, yc) {
			continue
		}
		name2id, _ := verifOutboundTable()
		b := &RoutingMatcherBuilder{log: verifQuietLog(), outboundName2Id: name2id, lpmDedup: map[uint64]lpmDedupEntry{}, referencedOutbounds: map[string]struct{}{}}
		// pretend set Y was registered under X's hash (a 64-bit FNV collision)
		b.simulatedLpmTries = append(b.simulatedLpmTries, yc)
		b.lpmDedup[hashLpmSet(xc)] = lpmDedupEntry{index: 0, prefixes: yc}
		c := vk.RCond{Func: "dip"}
		for _, s := range x {
			c.Params = append(c.Params, vk.RParam{Val: s})
		}
		p := &vk.RProg{Rules: []vk.RRule{{Conds: []vk.RCond{c}, Out: vk.ROut{Name: verifGroups[0]}}}, Fallback: vk.ROut{Name: "direct"}}
		rules, fb, err := verifParseRouting(p.Text())
		if err != nil {
			continue
		}
		prog, err := routing.NewNormalizedProgram(rules, fb, verifProductionOptimizers()...)
		if err != nil {
			continue
		}
		if err := prog.Lower(b.log, b.registerProgramParsers, b.addFallback); err != nil {
			m.Violation("collision-lower-error", err.Error(), map[string]any{"x": x, "y": y})
			continue
		}
		mt, err := b.BuildUserspace()
		if err != nil {
			m.Violation("collision-build-error", err.Error(), map[string]any{"x": x, "y": y})
			continue
		}
		cp := &ControlPlane{}
		cp.routingMatcher = mt
		vb := &verifBuilt{cp: cp, matcher: mt}
		m.Count("forced_hash_collisions", 1)
		for _, a := range append(verifC12Probes(r, x), verifC12Probes(r, y)...) {
			other := verifC12RandAddr(r, a.Is6()).Unmap()
			if other.Is4() != a.Is4() {
				continue
			}
			pk := vk.RPkt{L4: "udp", Src: netip.AddrPortFrom(other, 1), Dst: netip.AddrPortFrom(a, 80)}
			m.Eval(1)
			ref := vk.RefRoute(p, pk)
			d, rerr := verifRoute(vb, pk)
			if rerr != nil || d.Outbound != ref.Outbound {
				m.Violation("set-sharing-on-hash-collision", fmt.Sprintf("rule over set X answered from colliding set Y: got %v want %v", d, ref),
					map[string]any{"x": x, "y": y, "addr": a.String()})
				break
			}
		}
	}
	// REAL collisions of hashLpmSet: the hash streams (bits byte, address bytes) without
	// framing, so a canonical [v4, v6] set and a [v6, v4] set of the same size can hash
	// identically although they are different sets. Construct such pairs and use both in
	// one program: the two rules must keep their own sets.
	for i := 0; i < vk.Scale(300, 5000) && m.Violations() < 5; i++ {
		b1 := r.IntN(31)
		a1 := verifC12RandAddr(r, false).As4()
		a2 := verifC12RandAddr(r, true).As16()
		a2[0], a2[1] = 0x20, 0x01
		a2[11] = byte(b1 + 1 + r.IntN(32-b1))
		b2 := b1 + r.IntN(129-b1)
		A := []netip.Prefix{netip.PrefixFrom(netip.AddrFrom4(a1), b1), netip.PrefixFrom(netip.AddrFrom16(a2), b2)}
		var v6 [16]byte
		copy(v6[0:4], a1[:])
		v6[4] = byte(b2)
		copy(v6[5:], a2[0:11])
		B := []netip.Prefix{netip.PrefixFrom(netip.AddrFrom16(v6), b1), netip.PrefixFrom(netip.AddrFrom4([4]byte{a2[12], a2[13], a2[14], a2[15]}), int(a2[11]))}
		if netip.AddrFrom16(v6).Is4In6() {
			continue
		}
		ca, cb := canonicalizePrefixes(A), canonicalizePrefixes(B)
		same := len(ca) == len(cb)
		for j := 0; same && j < len(ca); j++ {
			same = ca[j] == cb[j]
		}
		if hashLpmSet(ca) != hashLpmSet(cb) || same {
			m.Count("constructed_pairs_not_colliding", 1)
			continue
		}
		m.Count("real_hash_collisions_constructed", 1)
		mk := func(fn string, set []netip.Prefix, out string) vk.RRule {
			c := vk.RCond{Func: fn}
			for _, pf := range set {
				c.Params = append(c.Params, vk.RParam{Val: pf.String()})
			}
			return vk.RRule{Conds: []vk.RCond{c}, Out: vk.ROut{Name: out}}
		}
		fn := []string{"dip", "sip"}[r.IntN(2)]
		p := &vk.RProg{Rules: []vk.RRule{mk(fn, A, verifGroups[0]), mk(fn, B, verifGroups[1])}, Fallback: vk.ROut{Name: "direct"}}
		if r.IntN(2) == 0 {
			p.Rules[0], p.Rules[1] = mk(fn, B, verifGroups[1]), mk(fn, A, verifGroups[0])
		}
		rules, fb, err := verifParseRouting(p.Text())
		if err != nil {
			m.Violation("frontend-error", err.Error(), map[string]any{"text": p.Text()})
			continue
		}
		b, err := verifBuildMatcher(rules, fb, verifProductionOptimizers()...)
		if err != nil {
			m.Violation("build-error", err.Error(), map[string]any{"text": p.Text()})
			continue
		}
		var strs []string
		for _, pf := range append(append([]netip.Prefix(nil), A...), B...) {
			strs = append(strs, pf.String())
		}
		for _, a := range verifC12Probes(r, strs) {
			other := verifC12RandAddr(r, a.Is6()).Unmap()
			if other.Is4() != a.Is4() {
				continue
			}
			pk := vk.RPkt{L4: "udp", Src: netip.AddrPortFrom(other, 1), Dst: netip.AddrPortFrom(a, 80)}
			if fn == "sip" {
				pk.Src, pk.Dst = netip.AddrPortFrom(a, 1), netip.AddrPortFrom(other, 80)
			}
			m.Eval(1)
			ref := vk.RefRoute(p, pk)
			d, rerr := verifRoute(b, pk)
			if rerr != nil || d.Outbound != ref.Outbound {
				m.Violation("set-sharing-on-real-hash-collision", fmt.Sprintf("two different sets with equal hashLpmSet share storage: got %v want %v", d, ref),
					map[string]any{"text": p.Text(), "addr": a.String(), "lpm_sets": len(b.snap.simulatedLpmTries)})
				break
			}
		}
	}
	m.Require("real_hash_collisions_constructed", "programs_probed_with_a_missing_slot", "missing_slot_routing_aborted", "programs_with_5_to_9_sets")
	m.Require("trie_inside", "trie_outside", "kern_inside", "kern_outside", "slash0_v4_sets", "slash0_v6_sets", "programs_with_shared_sets", "forced_hash_collisions")
	m.Done(t)
}
