package control

// C09 — every DNS client gets an answer to its own question under its own ID.
//
// Runtime monitor. Layers (see the other c09_*_test.go files):
//   L1   production DnsController + scripted fake DnsForwarders, 8..64 concurrent
//        clients with IDs from {7,8} over 3..6 names (writer path and UDP path)
//   L1r  forwardWithDialArg vs idle eviction vs retire/reload races on the
//        forwarder cache (close exactly once, never while in use)
//   L2   forwardWithFallback over dae's real DoUDP/DoTCP against hostile
//        loopback servers; L2b DoUDP.ForwardDNS on a reused pooled socket
//   L3   the whole controller over the real transports
//   L4   persistent DNS-over-TCP client connections through handleTCPDnsFastPath with the
//        optimistic cache on: 2-6 different queries back to back over every cache state,
//        the background refreshes run late (held until the connection is drained) or freely
//   L5   the life of a cached answer: the entry dae stored is made d seconds older (around the 15 s
//        repack threshold, almost the whole TTL, past the TTL inside/outside the stale window; plain
//        copy / reload clone / PrepackResponse / no ready-made bytes), then single clients and bursts
//        ask through four ingresses (writer, dns_listener ServeDNS, UDP, DNS-over-TCP fast path);
//        also negative entries, reject, SERVFAIL, and the cache lookup calls under a virtual clock
//   L6   reply sizes at buffer boundaries (wire size and uncompressed size B-3..B+3 around 512, 1024, 1232,
//        4096, 16384, 65535; address record sets with wire <= B <= uncompressed) through the DNS-over-TCP fast
//        path, UDP and dns_listener, relayed / identical burst / cache hit / concurrent storm, every sized reply
//        preceded on the same ingress by another client's reply; oracle on the received bytes
//
// Oracles: per reply (ID, question, answer marker), cache content at
// quiescence, no two overlapping upstream resolutions of one question,
// forwarder Close discipline.

import (
	"os"
	"strings"
	"testing"
	"time"

	vk "github.com/daeuniverse/dae/verifkit"
)

func TestVerifC09(t *testing.T) {
	m := vk.NewMonitor("C09", "", "exploration",
		"seeded rounds; each round draws 3-6 names from an 8-name pool, an upstream behaviour script per (protocol,name) "+
			"(answer / slow / ttl0 / wrong question / wrong type / previous payload with current ID / wrong ID / no question / TC / silent / error / "+
			"servfail / nxdomain / empty; on the wire also duplicate, late and held duplicates on a reused socket, short and malformed datagrams, "+
			"TCP reorder and close mid-stream) and 8-64 concurrent clients with transaction IDs from {7,8}; "+
			"L4: per round 1-3 persistent client TCP connections through the transparent fast path, each with 2-6 different queries (one segment / one segment per query / strictly sequential) "+
			"over names whose entries are missing, fresh, stale (background refresh, run late or freely), negative or uncacheable, then a fresh single query per question used; "+
			"L5: per round 3-6 names (TTL 20 s..1 day; first answer ok / slow with a burst of identical questions / negative / after an upstream error), then 5-10 steps that make one cached entry d seconds older "+
			"(drift against the bytes' TTL threshold-6..threshold+2 around dae's 15 s repack threshold, almost the whole TTL, expired inside / outside the stale window) and ask through writer / dns_listener / UDP / TCP fast path, one client or 4-12 at once; "+
			"L6: per pass every shape of upstream answer whose wire size or uncompressed size is B-3..B+3 for B in {512,1024,1232,4096,16384,65535} (TXT records padded to the byte; cacheable and TTL 0) and address record sets of 12..250 records (wire far below uncompressed), each asked through DNS-over-TCP fast path / UDP / dns_listener after another client's question on the same ingress, then as a burst of identical questions against a slow upstream, then again (cache hit), then a concurrent storm; "+
			"L7: dae's pipelinedConn (tcp/tls upstreams) at its RoundTrip boundary: 8-24 concurrent callers, every question name used once, the scripted upstream answers correctly after 0-300 us, the caller's context is cancelled right after the answer is on the wire / at a drawn moment / never; a returned message must answer the call's own question; "+
			"distinct = (layer, upstream scheme, client path, qtype, colliding-ID overlap, identical-question overlap, reply kind, set of upstream behaviours the question met); "+
			"non-trivial = the client's question met at least one upstream call or was served from cache while other clients were in flight")
	m.SetFloor(80)
	m.Assume(
		"the fake upstream (forwarders and loopback servers) encodes hash16(name,type) of the question it answers into every answer record; the marker pool was checked collision-free",
		"miekg/dns Pack/Unpack (the codec dae itself uses) is trusted to read replies",
		"DnsController is built by NewDnsController + component/dns.New with asis / udp / tcp / tcp+udp request routing and the production forwarder factory (L2,L3) or scripted fakes (L1); NewCache callback mirrors control_plane.go without the domain bitmap",
		"client ingress is emulated as in control/udp.go (Handle_, then dae's own SERVFAIL/TC helpers on error) and dns_listener.go/tcp.go (HandleWithResponseWriter_)",
		"timeouts are shortened only through contexts passed in (L2/L2b) or by the fake upstream giving up early (L1); no dae constant is edited",
		"L4: the ControlPlane value carries only what handleTCPDnsFastPath reads (log, DnsController); stale entries come from upstream answers with TTL 0 (expired at once, inside the 60 s stale window); the schedule 'refresh goroutine runs after the connection's later queries' is produced through the LifecycleContext the embedder passes to NewDnsController (its Deadline() parks callers whose stack is rooted in the refresh goroutine while the gate is closed) - no code of dae is changed; replies are matched to the queries of their connection by (ID, question), in order first",
		"L5: time is not waited for: the age of a cached answer is produced by publishing, in place of the entry dae stored, a copy whose Deadline / deadlineNano / packedResponseCreatedAt lie d seconds earlier (records and packed bytes are dae's own; copy made by the monitor, by CloneForReload, re-packed by the exported PrepackResponse, or without ready-made bytes as after a failed pack at insert); the verdict is the reply oracle only, which constructor or age class a reply went through is read from internal state and the upstream call log for coverage counters only; the virtual-clock walk repeats the two calls LookupDnsRespCache_ makes for an unexpired entry with a later `now` on a private copy and hands the bytes to writeCachedResponse",
		"L6: the upstream is a fake DnsForwarder that answers every question correctly with an answer of the scripted shape; the sizes a reply actually had (bytes received; the same message without name compression) are measured on what the client received and drive the coverage counters only; the dns_listener client socket is a ResponseWriter that packs the message as miekg's server does and keeps the bytes; UDP clients are fresh loopback sockets, a missing UDP reply is counted, not judged",
		"L5 class probe: queries are class IN except one class-CH query per L5 round for a (name,type) an IN query has just cached (judged; a reply that is right in ID, name and type but carries class IN is reported under the single signature reply-question-class-not-echoed/cache-hit, everything else under the ordinary signatures) and one class-CH query for an uncached pool name every other round (recorded only)",
	)
	if err := c09CheckMarkerInjective(); err != nil {
		m.Inconclusive("marker not injective on the pool: %v", err)
		m.Done(t)
		return
	}
	e, cleanup, err := c09NewEnv(m)
	if err != nil {
		m.Inconclusive("cannot set up loopback environment: %v", err)
		m.Done(t)
		return
	}
	defer cleanup()

	r := vk.NewRand(0xC09)
	nL1 := vk.Scale(200, 4000)
	nL1r := vk.Scale(100, 2000)
	nL2 := vk.Scale(50, 1000)
	nL2b := vk.Scale(40, 800)
	nL3 := vk.Scale(120, 2500)
	nL4 := vk.Scale(150, 3000)
	nL5 := vk.Scale(180, 3600)
	nL6 := vk.Scale(2, 30) // passes over the full set of size shapes
	nL7 := vk.Scale(120, 1500)
	stop := func() bool { return m.Violations() >= 8 && os.Getenv("VERIF_C09_NOSTOP") == "" }
	only := os.Getenv("VERIF_C09_LAYERS") // diagnosis only, e.g. "L3" or "L1,L1r"; a partial run ends INCONCLUSIVE
	layer := func(name string, n int, f func(i int)) {
		if only != "" && !strings.Contains(","+only+",", ","+name+",") {
			return
		}
		t0 := time.Now()
		for i := 0; i < n && !stop(); i++ {
			f(i)
		}
		m.Set("wall_s_"+name, time.Since(t0).Seconds())
	}
	layer("L1", nL1, func(i int) { e.c09L1Round(r, i) })
	layer("L1r", nL1r, func(i int) { e.c09L1rRound(r, i) })
	layer("L2", nL2, func(i int) { e.c09L2Round(r, i) })
	layer("L2b", nL2b, func(i int) { e.c09L2bRound(r, i) })
	layer("L3", nL3, func(i int) { e.c09L3Round(r, i) })
	layer("L4", nL4, func(i int) { e.c09L4Round(r, i) })
	layer("L5", nL5, func(i int) { e.c09L5Round(r, i) })
	layer("L6", nL6, func(i int) {
		shapes := c09SizeShapes(r)
		for k := 0; len(shapes) > 0 && !stop(); k++ {
			n := min(20, len(shapes))
			e.c09L6Round(r, i*100+k, shapes[:n])
			shapes = shapes[n:]
		}
	})
	layer("L7", nL7, func(i int) { c09L7Round(m, r, i) })
	if m.Violations() == 0 {
		m.Require(
			"msgs_judged", "answer_markers_checked", "cache_entries_checked", "cache_markers_checked",
			"clients_with_colliding_id_overlap", "clients_sharing_question_overlap",
			"sf_groups_one_resolution_reached_every_waiter",
			"forwarders_closed_exactly_once", "forwarder_closed_by_retireCachedDnsForwarder", "L1r_evict_passes", "L1r_retire_calls",
			"L2_forward_ok", "L2_fallback_tcp_answered", "L2_udp_stale_datagrams_with_colliding_id", "L2_tcp_closed_mid_stream",
			"L2b_udp_stale_datagrams_with_colliding_id",
			"L3_udp_stale_datagrams_delivered_on_reused_socket", "L3_rounds",
			"L4_rounds", "L4_refresh_goroutines_seen", "L4_refresh_goroutines_held_until_connection_drained",
			"L4_conns_stale_hit_refresh_held_while_other_questions_followed", "L4_conns_cache_hit_then_other_questions_refresh_free_running",
			"L4_pipelined_conns_seg_one", "L4_pipelined_conns_seg_each", "L4_pipelined_conns_seg_wait",
			"L4_queries_answered_from_cache", "L4_queries_resolved_upstream", "L4_probe_queries", "L4_primed_stale", "L4_primed_fresh", "L4_primed_negative",
		)
		m.Require(c09L5Required()...)
		m.Require(c09L6Required()...)
		m.Require(c09L7Required()...)
	}
	m.Done(t)
}
