package control

// C13 monitor, part (b) at packet-handler level: ControlPlane.handlePkt (the real
// one) is fed datagram sequences of a few client sources, each talking to ONE
// destination, with mixed payload shapes (ordinary datagrams and QUIC-Initial
// shaped ones that carry no decryptable hello, so no domain is ever learnt) on
// sniff-eligible and ordinary ports, with and without metadata-dependent routing
// (routing scope in the endpoint key), marks and user outbounds. No fault is
// injected and nothing expires (the NAT timeouts are minutes, a round lasts
// milliseconds).
//
// Oracle (from the statement only): all datagrams of one client source to its one
// destination under one routing result are one flow with one endpoint identity,
// whichever of the two identities (source only / source+destination+scope) the
// flow has. So while the conn that carried an earlier datagram of the flow is
// still open at the end of the handlePkt call that sent a later one, the later one
// must have gone through the same conn. A conn that dae closed before that call
// returned (replacement on purpose) is not judged. After the pool is closed every
// dialled conn must have been closed exactly once.
//
// Trusted: the ControlPlane value is the bare one the in-tree simulation tests
// build (newUdpReuseSimulationControlPlane: logger + one fixed outbound group);
// the global pools are swapped for fresh ones per round as those tests do.

import (
	"context"
	"encoding/binary"
	"fmt"
	"net/netip"
	"sort"
	"sync"
	"sync/atomic"
	"time"

	"github.com/daeuniverse/dae/common/consts"
	componentdialer "github.com/daeuniverse/dae/component/outbound/dialer"
	vk "github.com/daeuniverse/dae/verifkit"
	D "github.com/daeuniverse/outbound/dialer"
	"github.com/daeuniverse/outbound/netproxy"
)

type c13HPWrite struct {
	St  int64  `json:"stamp"`
	Tag uint32 `json:"packet"`
}

type c13HPConn struct {
	ID      int    `json:"conn"`
	Target  string `json:"target"`
	DialSt  int64  `json:"dial_stamp"`
	clock   *atomic.Int64
	closeCh chan struct{}
	closes  atomic.Int32
	closeSt atomic.Int64
	mu      sync.Mutex
	writes  []c13HPWrite
}

func (c *c13HPConn) Read(_ []byte) (int, error) {
	<-c.closeCh
	return 0, netproxy.UnsupportedTunnelTypeError
}
func (c *c13HPConn) Write(b []byte) (int, error) { return len(b), nil }
func (c *c13HPConn) ReadFrom(_ []byte) (int, netip.AddrPort, error) {
	<-c.closeCh
	return 0, netip.AddrPort{}, netproxy.UnsupportedTunnelTypeError
}
func (c *c13HPConn) WriteTo(b []byte, _ string) (int, error) {
	w := c13HPWrite{St: c.clock.Add(1)}
	if len(b) >= 4 {
		w.Tag = binary.BigEndian.Uint32(b[len(b)-4:])
	}
	c.mu.Lock()
	c.writes = append(c.writes, w)
	c.mu.Unlock()
	return len(b), nil
}
func (c *c13HPConn) Close() error {
	if c.closes.Add(1) == 1 {
		c.closeSt.Store(c.clock.Add(1))
		close(c.closeCh)
	}
	return nil
}
func (c *c13HPConn) SetDeadline(time.Time) error      { return nil }
func (c *c13HPConn) SetReadDeadline(time.Time) error  { return nil }
func (c *c13HPConn) SetWriteDeadline(time.Time) error { return nil }

type c13HPDialer struct {
	clock *atomic.Int64
	mu    sync.Mutex
	conns []*c13HPConn
}

func (d *c13HPDialer) DialContext(_ context.Context, _ string, addr string) (netproxy.Conn, error) {
	c := &c13HPConn{Target: addr, DialSt: d.clock.Add(1), clock: d.clock, closeCh: make(chan struct{})}
	d.mu.Lock()
	c.ID = len(d.conns)
	d.conns = append(d.conns, c)
	d.mu.Unlock()
	return c, nil
}

type c13HPPacket struct {
	Tag   uint32 `json:"packet"`
	Src   int    `json:"source"`
	Shape string `json:"shape"`
	S0    int64  `json:"call_stamp"`
	S1    int64  `json:"ret_stamp"`
	Err   string `json:"err,omitempty"`
}

type c13HPSource struct {
	Src   string `json:"src"`
	Dst   string `json:"dst"`
	Mark  uint32 `json:"mark"`
	Dscp  uint8  `json:"dscp"`
	src   netip.AddrPort
	dst   netip.AddrPort
	pname [16]uint8
	mac   [6]uint8
}

func c13HPQuicShaped(dcid byte, tag uint32) []byte {
	b := []byte{0xc0, 0x00, 0x00, 0x00, 0x01, 0x08,
		dcid, dcid + 1, dcid + 2, dcid + 3, dcid + 4, dcid + 5, dcid + 6, dcid + 7,
		0x08, 0x91, 0x92, 0x93, 0x94, 0x95, 0x96, 0x97, 0x98, 0x00, 0x04, 0x00, 0x00, 0x00, 0x01}
	return binary.BigEndian.AppendUint32(b, tag)
}

func c13HandlePktFlows(m *vk.Monitor) {
	rng := vk.NewRand(0xC13F3)
	rounds := vk.Scale(150, 4000)
	reported := map[string]bool{}
	ports := []uint16{443, 8443, 443, 4433, 27015}
	protocols := []string{"", "hysteria2", "vmess", "shadowsocks"}
	for round := 0; round < rounds && m.Violations() < 5; round++ {
		clock := &atomic.Int64{}
		fd := &c13HPDialer{clock: clock}
		proto := protocols[rng.IntN(len(protocols))]
		prop := &componentdialer.Property{}
		if proto != "" {
			prop = &componentdialer.Property{Property: D.Property{Name: "c13hp-" + proto, Address: "192.0.2.77:443", Protocol: proto}}
		}
		dl := componentdialer.NewDialer(fd, &componentdialer.GlobalOption{Log: c13QuietLogger(), CheckInterval: time.Second},
			componentdialer.InstanceOption{DisableCheck: true}, prop)
		cp := newUdpReuseSimulationControlPlane(newTestFixedOutboundGroup(dl))
		scoped := rng.IntN(3) != 0
		cp.udpRouteScopeSensitive = scoped

		oldUdp, oldAny, oldSniff, oldDcid := DefaultUdpEndpointPool, DefaultAnyfromPool, DefaultPacketSnifferSessionMgr, getFailedQuicDcidCache()
		DefaultUdpEndpointPool = NewUdpEndpointPool()
		DefaultAnyfromPool = newTestAnyfromPoolWithoutJanitor()
		DefaultPacketSnifferSessionMgr = NewPacketSnifferPool()
		SetFailedQuicDcidCache(newFailedQuicDcidCache(failedQuicDcidCacheShardCount))
		restore := func() {
			DefaultUdpEndpointPool = oldUdp
			DefaultAnyfromPool.Reset()
			DefaultAnyfromPool = oldAny
			DefaultPacketSnifferSessionMgr.Close()
			DefaultPacketSnifferSessionMgr = oldSniff
			SetFailedQuicDcidCache(oldDcid)
		}

		nsrc := 1 + rng.IntN(3)
		srcs := make([]*c13HPSource, nsrc)
		for i := range srcs {
			s := &c13HPSource{
				src:  netip.AddrPortFrom(netip.AddrFrom4([4]byte{192, 168, 89, byte(3 + i)}), uint16(42000+rng.IntN(3))),
				dst:  netip.AddrPortFrom(netip.AddrFrom4([4]byte{52, 199, 194, byte(40 + rng.IntN(2))}), ports[rng.IntN(len(ports))]),
				Mark: []uint32{0, 0, 0x2, 0x100}[rng.IntN(4)],
				Dscp: []uint8{0, 0, 46}[rng.IntN(3)],
			}
			if rng.IntN(2) == 0 {
				copy(s.pname[:], "c13proc")
				s.mac = [6]uint8{2, 0, 0, 0, 0, byte(i + 1)}
			}
			s.Src, s.Dst = s.src.String(), s.dst.String()
			primeQuicRegressionAnyfrom(s.src, s.dst) // replies are never sent; no real socket is bound
			srcs[i] = s
		}
		var pkts []*c13HPPacket
		shapes := map[string]bool{}
		npk := 3 + rng.IntN(8)
		var panicked any
		for i := 0; i < npk && panicked == nil; i++ {
			si := rng.IntN(nsrc)
			s := srcs[si]
			tag := uint32(i + 1)
			var data []byte
			p := &c13HPPacket{Tag: tag, Src: si}
			switch x := rng.IntN(10); {
			case x < 5:
				p.Shape = "plain"
				data = binary.BigEndian.AppendUint32([]byte{0x41, 0x42, 0x43, 0x44, 0x45, 0x46}, tag)
			case x < 9:
				p.Shape = "quic-initial-shaped/dcid-a"
				data = c13HPQuicShaped(0x30, tag)
			default:
				p.Shape = "quic-initial-shaped/dcid-b"
				data = c13HPQuicShaped(0x60, tag)
			}
			shapes[p.Shape] = true
			rr := &bpfRoutingResult{Outbound: uint8(consts.OutboundUserDefinedMin), Mark: s.Mark, Dscp: s.Dscp, Pname: s.pname, Mac: s.mac}
			func() {
				defer func() {
					if r := recover(); r != nil {
						panicked = r
					}
				}()
				// as the ingress loop does
				dec := ClassifyUdpFlow(s.src, s.dst, data)
				if dec.IsQuicInitial {
					dec = dec.EnsureSnifferSession()
				}
				p.S0 = clock.Add(1)
				err := cp.handlePkt(nil, data, s.src, s.dst, rr, dec, false)
				p.S1 = clock.Add(1)
				if err != nil {
					p.Err = err.Error()
				}
			}()
			pkts = append(pkts, p)
		}
		if panicked != nil {
			DefaultUdpEndpointPool.Close()
			restore()
			m.Inconclusive("handlePkt round %d: panic in handlePkt: %v", round, panicked)
			break
		}
		// ---- oracle
		fd.mu.Lock()
		conns := append([]*c13HPConn(nil), fd.conns...)
		fd.mu.Unlock()
		type carried struct {
			conn *c13HPConn
			st   int64
		}
		byTag := map[uint32][]carried{}
		for _, c := range conns {
			c.mu.Lock()
			for _, w := range c.writes {
				byTag[w.Tag] = append(byTag[w.Tag], carried{c, w.St})
			}
			c.mu.Unlock()
		}
		callEnd := func(st int64) int64 {
			for _, p := range pkts {
				if p.S0 < st && st < p.S1 {
					return p.S1
				}
			}
			return st
		}
		witness := func(extra map[string]any) map[string]any {
			w := map[string]any{"round": round, "kind": "handlePkt-flows", "route_scope_sensitive": scoped, "dialer_protocol": proto, "sources": srcs, "packets": pkts}
			var cl []map[string]any
			for _, c := range conns {
				c.mu.Lock()
				cl = append(cl, map[string]any{"conn": c.ID, "target": c.Target, "dial_stamp": c.DialSt, "close_stamp": c.closeSt.Load(), "closes": c.closes.Load(), "writes": append([]c13HPWrite(nil), c.writes...)})
				c.mu.Unlock()
			}
			w["conns"] = cl
			for k, v := range extra {
				w[k] = v
			}
			return w
		}
		report := func(sig, what string, extra map[string]any) {
			if reported[sig] {
				m.Count("b_violations_suppressed", 1)
				return
			}
			reported[sig] = true
			m.Violation(sig, what, witness(extra))
		}
		written, unwritten := 0, 0
		for si := range srcs {
			var flow []carried
			var tags []uint32
			for _, p := range pkts {
				if p.Src != si {
					continue
				}
				cs := byTag[p.Tag]
				if len(cs) == 0 {
					unwritten++
					continue
				}
				written++
				if len(cs) > 1 {
					m.Count("b_hp_packet_written_more_than_once", 1)
				}
				for _, c := range cs {
					flow = append(flow, c)
					tags = append(tags, p.Tag)
				}
			}
			idx := make([]int, len(flow))
			for i := range idx {
				idx[i] = i
			}
			sort.Slice(idx, func(a, b int) bool { return flow[idx[a]].st < flow[idx[b]].st })
			judged := false
			for a := 0; a < len(idx) && !judged; a++ {
				for b := a + 1; b < len(idx); b++ {
					x, y := flow[idx[a]], flow[idx[b]]
					if x.conn == y.conn {
						m.Count("b_hp_later_packet_same_endpoint", 1)
						continue
					}
					end := callEnd(y.st)
					if cs := x.conn.closeSt.Load(); cs != 0 && cs < end {
						m.Count("b_hp_endpoint_replaced_after_close", 1)
						continue
					}
					report("flow/second-endpoint-while-first-alive",
						fmt.Sprintf("source %d (%s -> %s): packet %d went through conn %d and the later packet %d through conn %d although conn %d was still open when that handlePkt call returned (stamp %d); nothing failed, nothing expired, routing result unchanged",
							si, srcs[si].Src, srcs[si].Dst, tags[idx[a]], x.conn.ID, tags[idx[b]], y.conn.ID, x.conn.ID, end),
						map[string]any{"source": si})
					judged = true
					break
				}
			}
		}
		DefaultUdpEndpointPool.Close()
		for _, c := range conns {
			switch n := c.closes.Load(); {
			case n == 0:
				report("endpoint/conn-leak", fmt.Sprintf("handlePkt flows: conn %d was dialled but not closed by UdpEndpointPool.Close() (pool table has %d entries)", c.ID, DefaultUdpEndpointPool.Len()), nil)
			case n > 1:
				report("endpoint/double-close", fmt.Sprintf("handlePkt flows: conn %d was closed %d times", c.ID, n), nil)
			}
		}
		restore()
		_ = dl.Close()
		m.Eval(len(pkts))
		m.Count("b_hp_rounds", 1)
		m.Count("b_hp_packets", int64(len(pkts)))
		m.Count("b_hp_packets_written", int64(written))
		m.Count("b_hp_packets_not_written_by_return", int64(unwritten))
		m.Count("b_hp_conns_dialled", int64(len(conns)))
		if scoped {
			m.Count("b_hp_rounds_route_scope_sensitive", 1)
			for _, s := range srcs {
				if s.Mark != 0 {
					m.Count("b_hp_sources_with_nonzero_scope_mark", 1)
				}
			}
		}
		var sh []string
		for s := range shapes {
			sh = append(sh, s)
		}
		sort.Strings(sh)
		if len(sh) > 1 {
			m.Count("b_hp_rounds_mixed_payload_shapes", 1)
		}
		m.Distinct(fmt.Sprintf("b-hp|scoped%v|%s|src%d|n%d|%s|conns%d", scoped, proto, nsrc, len(pkts), vk.Hash(sh), len(conns)))
		if m.WantSample() && round%47 == 0 {
			m.Sample(witness(map[string]any{"part": "handlePkt-flows"}))
		}
	}
}
