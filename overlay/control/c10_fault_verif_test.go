package control

// C10 monitor, part "fault": writes to domain_routing_map FAIL for a while.
//
// The table here is a REAL kernel hash map (definition of control/kern/tproxy.c,
// small max_entries), handed to the tracker through bpfObjects.DomainRoutingMap
// exactly as in the daemon, and read back by iteration as raw bytes. Histories
// of the ordinary cache operations of part main are cut by "write-fault
// windows" during which the kernel refuses the tracker's batches:
//
//	all-writes-fail  the handle in bpfObjects is one whose descriptor has been closed (what a
//	                 sync sees while objects are swapped): BpfMapBatchUpdate and
//	                 BpfMapBatchDelete both fail, nothing is applied
//	table-full       the table is filled up to 0-2 free slots behind the tracker's back
//	                 (MAX_DOMAIN_ROUTING_NUM reached): an update batch is applied up to the
//	                 first NEW key that does not fit and then fails with E2BIG (applied
//	                 partially; the delete batch of that sync is never issued); updates of
//	                 existing keys and pure delete batches succeed
//
// Nothing is judged while a window is open. When the window closes the writes
// work again and dae gets the retry opportunities its own code has: a cache hit
// (more than MaxBpfUpdateInterval later) on every live entry, which makes the
// bpf-update worker sync the entry again, and a re-resolution of every key whose
// entry went away while writes failed (nothing else syncs that owner again).
// Only then is the kernel table compared with the fold of the live cache
// (same reference as parts main and rollback), and again after every later
// operation of the history.

import (
	"errors"
	"fmt"
	"math/rand/v2"
	"net/netip"
	"os"
	"sort"
	"strings"
	"testing"
	"time"
	"unsafe"

	"github.com/cilium/ebpf"
	"github.com/cilium/ebpf/rlimit"
	componentdns "github.com/daeuniverse/dae/component/dns"
	vk "github.com/daeuniverse/dae/verifkit"
	dnsmessage "github.com/miekg/dns"
	"github.com/sirupsen/logrus"
	"golang.org/x/sys/unix"
)

const (
	c10fAllFail   = "all-writes-fail"
	c10fTableFull = "table-full"
	// table-full without the one-operation-per-key restriction: recorded, not judged (see Assume)
	c10fTableFullAny = "table-full-any-ops"
	c10fMaxEnt    = 32 // max_entries of the real table in this part (the address pool has 5 kernel keys)
)

func c10fNewTable() (*ebpf.Map, error) {
	c10rbMemlockOnce.Do(func() { _ = rlimit.RemoveMemlock() })
	return ebpf.NewMap(&ebpf.MapSpec{Name: "c10f_domain_rt", Type: ebpf.Hash, Flags: c10rbNoPrealloc,
		KeySize: uint32(unsafe.Sizeof([4]uint32{})), ValueSize: uint32(unsafe.Sizeof(bpfDomainRouting{})), MaxEntries: c10fMaxEnt})
}

// c10fSink: counters go to the monitor, or nowhere while a witness is being minimised.
type c10fSink struct{ m *vk.Monitor }

func (s c10fSink) Count(k string, n int64) {
	if s.m != nil {
		s.m.Count(k, n)
	}
}

func (s c10fSink) Eval(n int) {
	if s.m != nil {
		s.m.Eval(n)
	}
}

type c10fWorld struct {
	w      *c10World
	m      c10fSink
	kmap   *ebpf.Map
	dead   *ebpf.Map // same kernel map, descriptor closed
	open   bool      // a window is open
	mode   string
	filler []c10Key
	before map[string]struct{} // keys that were live when the window opened or at any step inside it, or that a window operation named
	nWin   int
	// per-history summary for the distinct signature
	toks []string
}

func (f *c10fWorld) tok(s string) {
	for _, t := range f.toks {
		if t == s {
			return
		}
	}
	f.toks = append(f.toks, s)
}

func (f *c10fWorld) liveKeys() map[string]struct{} {
	out := map[string]struct{}{}
	f.w.ctrl.dnsCache.Range(func(k, v any) bool {
		if s, ok := k.(string); ok {
			out[s] = struct{}{}
		}
		return true
	})
	return out
}

func (f *c10fWorld) faultOn(op *c10Op) error {
	w := f.w
	if err := w.barrier(w.ctrl); err != nil {
		return err
	}
	f.open, f.mode = true, op.Mode
	f.before = f.liveKeys()
	f.nWin++
	switch op.Mode {
	case c10fAllFail:
		w.core.bpf.Store(&bpfObjects{bpfMaps: bpfMaps{DomainRoutingMap: f.dead}})
	case c10fTableFull, c10fTableFullAny:
		cur, err := c10rbDump(f.kmap)
		if err != nil {
			return err
		}
		n := c10fMaxEnt - len(cur) - op.Free
		for i := 0; i < n; i++ {
			a := netip.AddrFrom4([4]byte{10, 200, byte(f.nWin), byte(i)})
			k := c10Key(a.As16()) // ::ffff:10.200.x.y as the tracker would write it
			k[10], k[11] = 0xff, 0xff
			var bm c10Bm
			bm[0] = 1
			if err := f.kmap.Update(k, bm, ebpf.UpdateNoExist); err != nil {
				return fmt.Errorf("fill table: %w", err)
			}
			f.filler = append(f.filler, k)
		}
	default:
		return fmt.Errorf("unknown fault mode %q", op.Mode)
	}
	f.m.Count("fault_windows/"+op.Mode, 1)
	return nil
}

// faultOff: the writes work again. Returns whether the table differed from the cache at that moment
// (the window had an effect that dae has to heal).
func (f *c10fWorld) faultOff() (d *c10rbDiff, err error) {
	w := f.w
	if err = w.barrier(w.ctrl); err != nil { // a refresh task queued inside the window fails inside the window
		return nil, err
	}
	switch f.mode {
	case c10fAllFail:
		w.core.bpf.Store(&bpfObjects{bpfMaps: bpfMaps{DomainRoutingMap: f.kmap}})
	case c10fTableFull, c10fTableFullAny:
		for _, k := range f.filler {
			if e := f.kmap.Delete(k); e != nil && !errors.Is(e, ebpf.ErrKeyNotExist) {
				return nil, fmt.Errorf("unfill table: %w", e)
			}
		}
		f.filler = nil
	}
	f.open = false
	table, err := c10rbDump(f.kmap)
	if err != nil {
		return nil, err
	}
	return c10rbCompare(table, c10rbReference(w.ctrl)), nil
}

// noteWindowOp remembers every key that is live after a window operation and every key the operation
// itself names (an entry can be created and removed again inside one window, even inside one operation).
func (f *c10fWorld) noteWindowOp(op *c10Op) {
	for k := range f.liveKeys() {
		f.before[k] = struct{}{}
	}
	switch op.Kind {
	case "query", "store", "remove", "lookup", "trigger":
		f.before[f.w.key(op)] = struct{}{}
	case "upready":
		for _, q := range []uint16{dnsmessage.TypeA, dnsmessage.TypeAAAA} {
			o := c10Op{Name: op.Name, Qtype: q}
			f.before[f.w.key(&o)] = struct{}{}
		}
	}
}

// c10fTuples: cache key -> the (name, qtype, scope) that produces it.
func (f *c10fWorld) tuples() map[string]c10Op {
	out := map[string]c10Op{}
	for n := range c10Names {
		for _, q := range []uint16{dnsmessage.TypeA, dnsmessage.TypeAAAA} {
			for s := range c10Resolvers {
				op := c10Op{Kind: "store", Name: n, Qtype: q, Scope: s}
				out[f.w.key(&op)] = op
			}
		}
	}
	return out
}

// settle: dae's retry opportunities after the writes work again.
func (f *c10fWorld) settle(i int, op *c10Op) error {
	w := f.w
	c := w.ctrl
	if err := w.barrier(c); err != nil {
		return err
	}
	// (1) a cache hit on every live entry, later than MaxBpfUpdateInterval after anything before
	at := time.Now().Add(time.Duration(f.nWin) * 100000 * time.Second)
	live := f.liveKeys()
	keys := make([]string, 0, len(live))
	for k := range live {
		keys = append(keys, k)
	}
	sort.Strings(keys)
	for j, k := range keys {
		if v, ok := c.dnsCache.Load(k); ok {
			if cache, _ := v.(*DnsCache); cache != nil {
				c.triggerBpfUpdateIfNeeded(cache, at.Add(time.Duration(j)*time.Millisecond))
				f.m.Count("retry_cache_hits_after_recovery", 1)
			}
		}
	}
	if err := w.barrier(c); err != nil {
		return err
	}
	// (2) every key whose entry went away while the writes failed is resolved again
	var gone []string
	for k := range f.before {
		if _, ok := live[k]; !ok {
			gone = append(gone, k)
		}
	}
	sort.Strings(gone)
	if len(gone) > 0 {
		tuples := f.tuples()
		for _, k := range gone {
			t, ok := tuples[k]
			if !ok {
				f.m.Count("entry_removed_in_window_under_a_key_outside_the_pools", 1)
				continue
			}
			t.Ans = &op.Re[0]
			if t.Qtype == dnsmessage.TypeAAAA {
				t.Ans = &op.Re[1]
			}
			if err := w.apply(i, &t); err != nil {
				return err
			}
			f.m.Count("retry_reresolutions_of_keys_removed_in_window", 1)
		}
		if err := w.barrier(c); err != nil {
			return err
		}
	}
	f.before = nil
	return nil
}

type c10fFail struct {
	Sig, What string
	OpIdx     int
	Detail    map[string]any
}

func (f *c10fWorld) compare(i int, op *c10Op, sigPrefix string) (*c10rbDiff, *c10fFail, error) {
	w := f.w
	if err := w.barrier(w.ctrl); err != nil {
		return nil, nil, err
	}
	table, err := c10rbDump(f.kmap)
	if err != nil {
		return nil, nil, err
	}
	ref := c10rbReference(w.ctrl)
	d := c10rbCompare(table, ref)
	f.m.Eval(1)
	f.m.Count("table_addresses_equal_to_cache", int64(d.equal))
	if !d.bad() {
		return d, nil, nil
	}
	t := w.core.domainRouting
	t.mu.Lock()
	mirror := map[string]string{}
	for k, st := range t.ips {
		mirror[c10Addr(c10KeyOf(k))] = c10BmStr(st.merged.Bitmap)
	}
	nOwners := len(t.owners)
	t.mu.Unlock()
	return d, &c10fFail{Sig: sigPrefix + "/" + d.kind(), OpIdx: i,
		What: fmt.Sprintf("after op #%d (%s) the kernel domain_routing_map differs from the DNS cache: missing=%v stale=%v mismatch=%v", i, op.Kind, d.missing, d.stale, d.mismatch),
		Detail: map[string]any{"missing_in_table": d.missing, "stale_in_table": d.stale, "bitmap_mismatch": d.mismatch,
			"cache_entries": ref.dump, "kernel_table": c10rbTableDump(table), "tracker_mirror": mirror, "tracker_owner_count": nOwners}}, nil
}

var c10fTrace func(i int, op *c10Op, f *c10fWorld) // diagnosis only

// c10fRun executes one history. stats collects the per-op counters of part main's world.
func c10fRun(env *c10Env, m c10fSink, dead *ebpf.Map, h *c10Hist, stats map[string]int64) (fail *c10fFail, f *c10fWorld, err error) {
	w := &c10World{env: env, h: h, tokenSeen: map[string]bool{}, stats: stats, prevOwners: map[c10Key]map[string]struct{}{}}
	f = &c10fWorld{w: w, m: m, kmap: env.kmap, dead: dead}
	if err = c10rbWipe(env.kmap); err != nil {
		return nil, f, err
	}
	env.shadow.clear()
	env.gate.set(false)
	w.prog, w.cfg = h.Prog, h.Cfg
	if w.cp, w.ctrl, w.core, w.cancel, err = w.newGeneration(h.Prog, h.Cfg, nil); err != nil {
		return nil, f, err
	}
	defer w.closeAll()
	afterFault := ""
	var atRecovery *c10rbDiff
	for i := range h.Ops {
		op := &h.Ops[i]
		if c10fTrace != nil && i > 0 {
			c10fTrace(i-1, &h.Ops[i-1], f)
		}
		switch op.Kind {
		case "fault-on":
			if err = f.faultOn(op); err != nil {
				return nil, f, err
			}
			continue
		case "fault-off":
			if atRecovery, err = f.faultOff(); err != nil {
				return nil, f, err
			}
			if atRecovery.bad() {
				m.Count("windows_after_which_table_differed_from_cache/"+f.mode, 1)
				if len(atRecovery.missing) > 0 {
					m.Count("at_recovery/missing_addresses", 1)
					f.tok(f.mode + ":missing")
				}
				if len(atRecovery.stale) > 0 {
					m.Count("at_recovery/stale_addresses", 1)
					f.tok(f.mode + ":stale")
				}
				if len(atRecovery.mismatch) > 0 {
					m.Count("at_recovery/bitmap_mismatches", 1)
					f.tok(f.mode + ":mismatch")
				}
			} else {
				m.Count("windows_without_effect_on_table", 1)
			}
			continue
		case "settle":
			if err = f.settle(i, op); err != nil {
				return nil, f, err
			}
			afterFault = "/after-" + f.mode
			_, fl, e := f.compare(i, op, "write-fault/"+f.mode+"/not-healed-after-writes-recovered-and-every-entry-was-hit-or-resolved-again")
			if e != nil {
				return nil, f, e
			}
			if fl != nil && f.mode == c10fTableFullAny && os.Getenv("VERIF_C10F_RECORD_ANY") != "" { // judged since dae restores the kernel view after a failed batch (fix in /repo); the switch only records
				// after a partially applied batch the tracker cannot know which keys reached the kernel; a
				// second sync of the same owner before the retry orphaned them.
				m.Count("observed_not_judged/"+f.mode+"/table-differs-after-retry-round/"+strings.TrimPrefix(fl.Sig, "write-fault/"+f.mode+"/not-healed-after-writes-recovered-and-every-entry-was-hit-or-resolved-again/"), 1)
				return nil, f, nil
			}
			if fl != nil {
				fl.Detail["table_differed_when_writes_recovered"] = map[string]any{"missing": atRecovery.missing, "stale": atRecovery.stale, "mismatch": atRecovery.mismatch}
				return fl, f, nil
			}
			m.Count("checks/after-retry-round", 1)
			if atRecovery != nil && atRecovery.bad() {
				m.Count("windows_healed_by_dae_retry_paths/"+f.mode, 1)
			}
			continue
		}
		e0 := stats["store_errors"] + stats["query_errors"] + stats["upready_errors"]
		var pubBefore any
		if f.open && (op.Kind == "query" || op.Kind == "store") {
			pubBefore, _ = w.ctrl.dnsCache.Load(w.key(op))
		}
		if err = w.apply(i, op); err != nil {
			return &c10fFail{Sig: "crash/" + op.Kind, What: err.Error(), OpIdx: i, Detail: map[string]any{}}, f, nil
		}
		w.count("op/"+op.Kind, 1)
		if f.open {
			f.noteWindowOp(op)
			m.Count("op_in_window/"+f.mode+"/"+op.Kind, 1)
			if stats["store_errors"]+stats["query_errors"]+stats["upready_errors"] > e0 {
				m.Count("cache_insertions_that_returned_the_write_error/"+f.mode, 1)
				f.tok(f.mode + ":failed-" + op.Kind)
				// Did the insertion whose route write failed publish its entry all the same? The statement
				// allows both; which observations a window can produce depends on it (see the Require set).
				if op.Kind == "query" || op.Kind == "store" {
					if pubAfter, ok := w.ctrl.dnsCache.Load(w.key(op)); ok && pubAfter != pubBefore {
						m.Count("insertion_with_failed_route_write/entry_published_all_the_same/"+f.mode, 1)
					} else {
						m.Count("insertion_with_failed_route_write/entry_not_published/"+f.mode, 1)
					}
				}
			}
			continue // not judged: dae had no retry opportunity yet
		}
		_, fl, e := f.compare(i, op, "real-map/table-differs-from-cache"+afterFault+"/after-"+op.Kind)
		if e != nil {
			return nil, f, e
		}
		if fl != nil {
			return fl, f, nil
		}
		if afterFault != "" {
			m.Count("checks/ordinary-op-after-a-healed-window", 1)
		} else {
			m.Count("checks/ordinary-op-before-any-window", 1)
		}
	}
	return nil, f, nil
}

// ---- generator ------------------------------------------------------------------

func c10fGenHist(r *rand.Rand, nprogs int) *c10Hist {
	h := &c10Hist{Cfg: r.IntN(len(c10Cfgs)), Prog: 1 + r.IntN(nprogs-1), Fixed: r.IntN(4) == 0}
	nNames := 2 + r.IntN(4)
	names := r.Perm(len(c10Names))[:nNames]
	nScopes := 1 + r.IntN(3)
	qt := func() uint16 {
		if r.IntN(2) == 0 {
			return dnsmessage.TypeA
		}
		return dnsmessage.TypeAAAA
	}
	tuple := func(allowUnscoped bool) (int, uint16, int) {
		s := 1 + r.IntN(nScopes)
		if allowUnscoped && r.IntN(6) == 0 {
			s = 0
		}
		return names[r.IntN(nNames)], qt(), s
	}
	// one ordinary operation
	gen := func(inWindow bool) (c10Op, bool) {
		for try := 0; try < 20; try++ {
			var op c10Op
			x := r.IntN(100)
			switch {
			case x < 38:
				n, q, s := tuple(false)
				op = c10Op{Kind: "query", Name: n, Qtype: q, Scope: s, Ans: c10GenAnswer(r, q)}
			case x < 60:
				n, q, s := tuple(true)
				op = c10Op{Kind: "store", Name: n, Qtype: q, Scope: s, Ans: c10GenAnswer(r, q)}
			case x < 64:
				a := &c10Answer{}
				if r.IntN(4) != 0 {
					a.Addrs = append(a.Addrs, c10V4[r.IntN(len(c10V4))])
				}
				if r.IntN(2) == 0 {
					a.Addrs = append(a.Addrs, c10V6[r.IntN(len(c10V6))])
				}
				op = c10Op{Kind: "upready", Name: names[r.IntN(nNames)], Ans: a}
			case x < 74:
				n, q, s := tuple(true)
				op = c10Op{Kind: "remove", Name: n, Qtype: q, Scope: s}
			case x < 78:
				n, q, _ := tuple(false)
				op = c10Op{Kind: "family", Name: n, Qtype: q}
			case x < 85:
				op = c10Op{Kind: "janitor", Delta: []int{0, 1, 10, 45, 100, 1000}[r.IntN(6)]}
			case x < 89:
				n, q, s := tuple(true)
				op = c10Op{Kind: "lookup", Name: n, Qtype: q, Scope: s, Flag: r.IntN(2) == 0}
			case x < 96:
				n, q, s := tuple(true)
				op = c10Op{Kind: "trigger", Name: n, Qtype: q, Scope: s, Delta: []int{0, 2, 61, 61, 61, 300}[r.IntN(6)]}
			default:
				if inWindow {
					continue
				}
				op = c10Op{Kind: "reload", Prog: 1 + r.IntN(nprogs-1), Cfg: r.IntN(len(c10Cfgs))}
				if r.IntN(3) == 0 {
					op = c10Op{Kind: "rollback"}
				}
			}
			return op, true
		}
		return c10Op{}, false
	}
	for k := 3 + r.IntN(20); k > 0; k-- {
		op, _ := gen(false)
		h.Ops = append(h.Ops, op)
	}
	for win := 1 + r.IntN(3); win > 0; win-- {
		on := c10Op{Kind: "fault-on", Mode: c10fAllFail}
		nWin := 1 + r.IntN(6)
		switch x := r.IntN(10); {
		case x >= 8:
			on.Mode, on.Free = c10fTableFullAny, []int{0, 0, 1, 1, 2}[r.IntN(5)]
		case x >= 4:
			on.Mode, on.Free = c10fTableFull, []int{0, 0, 1}[r.IntN(3)]
			nWin = 1
		}
		h.Ops = append(h.Ops, on)
		for k := nWin; k > 0; k-- {
			if on.Mode == c10fTableFull {
				// exactly one insertion whose entry does not expire at once: one failing sync of one owner
				n, q, s := tuple(false)
				op := c10Op{Kind: "query", Name: n, Qtype: q, Scope: s, Ans: c10GenAnswer(r, q)}
				if r.IntN(5) < 2 {
					op.Kind = "store"
				}
				if op.Ans.Ttl < 60 {
					op.Ans.Ttl = 60
				}
				h.Ops = append(h.Ops, op)
				continue
			}
			if op, ok := gen(true); ok {
				h.Ops = append(h.Ops, op)
			}
		}
		h.Ops = append(h.Ops, c10Op{Kind: "fault-off"})
		h.Ops = append(h.Ops, c10Op{Kind: "settle", Re: []c10Answer{*c10GenAnswer(r, dnsmessage.TypeA), *c10GenAnswer(r, dnsmessage.TypeAAAA)}})
		for k := 2 + r.IntN(12); k > 0; k-- {
			op, _ := gen(false)
			h.Ops = append(h.Ops, op)
		}
	}
	return h
}

func c10fIsMarker(k string) bool { return k == "fault-on" || k == "fault-off" || k == "settle" }

// c10fMinimize removes runs of ordinary operations (the window markers stay) while a failure with
// the same signature reproduces; each candidate is tried up to three times (dae iterates Go maps).
func c10fMinimize(env *c10Env, dead *ebpf.Map, h *c10Hist, fl *c10fFail) (*c10Hist, *c10fFail) {
	cur := &c10Hist{Cfg: h.Cfg, Prog: h.Prog, Fixed: h.Fixed, Ops: append([]c10Op(nil), h.Ops[:fl.OpIdx+1]...)}
	curF := fl
	budget := 400
	quiet := c10fSink{}
	try := func(cand *c10Hist) *c10fFail {
		for k := 0; k < 3 && budget > 0; k++ {
			budget--
			f2, _, err := c10fRun(env, quiet, dead, cand, map[string]int64{})
			if err == nil && f2 != nil && f2.Sig == fl.Sig {
				return f2
			}
		}
		return nil
	}
	for chunk := len(cur.Ops) / 2; chunk >= 1 && budget > 0; chunk /= 2 {
		for start := 0; start+chunk <= len(cur.Ops) && budget > 0; {
			cand := &c10Hist{Cfg: cur.Cfg, Prog: cur.Prog, Fixed: cur.Fixed}
			removed := 0
			for j, op := range cur.Ops {
				if j >= start && j < start+chunk && !c10fIsMarker(op.Kind) {
					removed++
					continue
				}
				cand.Ops = append(cand.Ops, op)
			}
			if removed == 0 {
				start += chunk
				continue
			}
			if f2 := try(cand); f2 != nil {
				cand.Ops = cand.Ops[:f2.OpIdx+1]
				cur, curF = cand, f2
			} else {
				start += chunk
			}
		}
	}
	// windows that became empty: drop their three markers
	for j := 0; j+2 < len(cur.Ops) && budget > 0; {
		if cur.Ops[j].Kind == "fault-on" && cur.Ops[j+1].Kind == "fault-off" && cur.Ops[j+2].Kind == "settle" {
			cand := &c10Hist{Cfg: cur.Cfg, Prog: cur.Prog, Fixed: cur.Fixed}
			cand.Ops = append(append([]c10Op(nil), cur.Ops[:j]...), cur.Ops[j+3:]...)
			if f2 := try(cand); f2 != nil {
				cand.Ops = cand.Ops[:f2.OpIdx+1]
				cur, curF = cand, f2
				continue
			}
		}
		j++
	}
	return cur, curF
}

func c10fDescribe(env *c10Env, h *c10Hist) map[string]any {
	d := c10Describe(env, h)
	ops, _ := d["ops_readable"].([]string)
	for i, op := range h.Ops {
		switch op.Kind {
		case "fault-on":
			ops[i] += " writes to domain_routing_map start failing: " + op.Mode
			if op.Mode != c10fAllFail {
				ops[i] += fmt.Sprintf(" (%d free slots)", op.Free)
			}
		case "fault-off":
			ops[i] += " writes work again"
		case "settle":
			ops[i] += fmt.Sprintf(" retry round: cache hit on every live entry (> MaxBpfUpdateInterval later); keys removed during the window are resolved again (A answer=%v ttl=%d, AAAA answer=%v ttl=%d)",
				op.Re[0].Addrs, op.Re[0].Ttl, op.Re[1].Addrs, op.Re[1].Ttl)
		}
	}
	d["ops_readable"] = ops
	return d
}

// ---- the test ----------------------------------------------------------------------

func TestVerifC10Fault(t *testing.T) {
	m := vk.NewMonitor("C10", "fault", "exploration",
		"seeded histories of the cache operations of part main (query, store, upstream-ready insert, remove, family removal incl. reject-routed queries, janitor at chosen tick times, "+
			"LRU, expiry lookups, refresh triggers, reload, rollback) over 2-5 names x {A,AAAA} x 1-3 resolver scopes against a REAL domain_routing_map; 1-3 windows per history "+
			"during which the kernel refuses the tracker's batches (all-writes-fail: closed descriptor, nothing applied, 1-6 operations; table-full: 0-1 free slots, one insertion whose update batch is applied partially then fails with E2BIG, "+
			"delete batch of that sync not issued; table-full-any-ops: 1-6 operations on a full table, recorded only); after each window writes work again, every live entry gets a cache hit later than MaxBpfUpdateInterval, every key whose entry went away in the "+
			"window is resolved again, and only then (and after every later operation) the table read back from the kernel is compared with the cache; "+
			"distinct = (cache config, set of <mode>:<what differed when writes recovered / which insertion returned the write error>); non-trivial = a window after which the table differed from the cache")
	m.SetFloor(vk.Scale(12, 40))
	m.Assume("the kernel's hash map semantics (E2BIG for a new key in a full BPF_F_NO_PREALLOC hash map, batch update stops at the first failing element, EBADF on a closed descriptor) and cilium/ebpf's iteration are trusted",
		"nothing is demanded while writes fail, nor before dae had its own retry opportunities: a cache hit per live entry (triggerBpfUpdateIfNeeded with a time more than MaxBpfUpdateInterval later, the call LookupDnsRespCache_ makes) and a re-resolution (NormalizeAndCacheDnsResp_) of each key removed/evicted during the window",
		"a judged table-full window holds exactly one insertion (query or store) whose entry does not expire at once: after a PARTIALLY applied update batch the tracker does not know which keys reached the kernel, and any other sync that touches those keys before the owner's retry (a second sync of the same owner, or another owner sharing the address) works from the tracker's outdated view and can leave a wrong bitmap or an orphaned address for good; windows of 1-6 arbitrary operations on a full table (table-full-any-ops) are run too but only recorded (observed_not_judged/...): the statement is silent on kernel write failures and dae has no retry path for that case",
		"a failing update batch followed by a succeeding delete batch, or the reverse inside one sync, cannot be produced with a real map; all-writes-fail covers syncs with only updates, only deletes and both",
		"worlds as in part main: production DnsController/option closures, single issuing goroutine, worker drained (marker task) before every comparison; no reuse-handoff reload here (known finding of part main)")

	log := verifQuietLog()
	r := vk.NewRand(0xC10F)
	env := &c10Env{log: log, shadow: &c10Shadow{S: map[c10Key]c10Bm{}}, gate: newC10Gate()}
	kmap, err := c10fNewTable()
	if err != nil {
		if errors.Is(err, unix.EPERM) || errors.Is(err, unix.EACCES) || errors.Is(err, unix.ENOSYS) {
			m.Inconclusive("cannot create BPF maps in this environment: %v", err)
		} else {
			m.Inconclusive("BPF map creation failed: %v", err)
		}
		m.Done(t)
		return
	}
	defer kmap.Close()
	env.kmap = kmap
	dead, err := kmap.Clone()
	if err != nil {
		m.Inconclusive("cannot duplicate the map descriptor: %v", err)
		m.Done(t)
		return
	}
	_ = dead.Close()
	m.Set("real_map", fmt.Sprintf("%s key=%d value=%d max_entries=%d flags=%#x", kmap.Type(), kmap.KeySize(), kmap.ValueSize(), kmap.MaxEntries(), kmap.Flags()))
	// the two fault mechanisms behave as assumed?
	{
		var k c10Key
		k[15] = 9
		var v c10Bm
		if _, e := BpfMapBatchUpdate(dead, []c10Key{k}, []c10Bm{v}, &ebpf.BatchOptions{}); e == nil {
			m.Inconclusive("a batch update through the closed descriptor succeeded")
			m.Done(t)
			return
		}
		if _, e := BpfMapBatchDelete(dead, []c10Key{k}); e == nil {
			m.Inconclusive("a batch delete through the closed descriptor succeeded")
			m.Done(t)
			return
		}
		ks := make([]c10Key, c10fMaxEnt+1)
		vs := make([]c10Bm, c10fMaxEnt+1)
		for i := range ks {
			ks[i][15], ks[i][0] = byte(i), 0xfd
		}
		n, e := BpfMapBatchUpdate(kmap, ks, vs, &ebpf.BatchOptions{})
		cur, _ := c10rbDump(kmap)
		m.Set("probe_overfull_batch", fmt.Sprintf("n=%d err=%v table_entries=%d", n, e, len(cur)))
		if e == nil || len(cur) != c10fMaxEnt {
			m.Inconclusive("a batch of max_entries+1 new keys did not fail after filling the table (err=%v, entries=%d)", e, len(cur))
			m.Done(t)
			return
		}
		if e = c10rbWipe(kmap); e != nil {
			m.Inconclusive("wipe: %v", e)
			m.Done(t)
			return
		}
	}
	for i := 0; i < 6; i++ {
		text := c10GenProgText(r, i)
		p, perr := c10BuildProg(text)
		if perr != nil {
			m.Inconclusive("cannot build routing program %d: %v\n%s", i, perr, text)
			m.Done(t)
			return
		}
		env.progs = append(env.progs, p)
	}
	if env.routing, err = c10BuildDnsRouting(log); err != nil {
		m.Inconclusive("cannot build dns routing: %v", err)
		m.Done(t)
		return
	}
	origFactory := dnsForwarderFactory
	dnsForwarderFactory = func(*componentdns.Upstream, dialArgument, *logrus.Logger) (DnsForwarder, error) {
		return &stubDnsForwarder{forward: env.forward}, nil
	}
	defer func() { dnsForwarderFactory = origFactory }()

	stats := map[string]int64{}
	minimized := map[string]bool{}
	n := vk.Scale(300, 8000)
	for i := 0; i < n && m.Violations() < 3; i++ {
		h := c10fGenHist(r, len(env.progs))
		var fail *c10fFail
		var f *c10fWorld
		var rerr error
		func() {
			defer func() {
				if p := recover(); p != nil {
					fail = &c10fFail{Sig: "crash/monitor-goroutine", What: fmt.Sprintf("panic: %v", p), OpIdx: len(h.Ops) - 1, Detail: map[string]any{}}
				}
			}()
			fail, f, rerr = c10fRun(env, c10fSink{m}, dead, h, stats)
		}()
		m.Count("histories", 1)
		if rerr != nil {
			m.Inconclusive("history %d: %v", i, rerr)
			break
		}
		if f != nil && len(f.toks) > 0 {
			m.Count("nontrivial_histories", 1)
			sort.Strings(f.toks)
			m.Distinct(c10Cfgs[h.Cfg].Name + "|" + strings.Join(f.toks, ","))
			if m.WantSample() && fail == nil {
				d := c10fDescribe(env, h)
				delete(d, "ops")
				delete(d, "routing_programs")
				d["window_effects"] = f.toks
				m.Sample(d)
			}
		}
		if fail != nil {
			minH, minF := &c10Hist{Cfg: h.Cfg, Prog: h.Prog, Fixed: h.Fixed, Ops: h.Ops[:fail.OpIdx+1]}, fail
			if !minimized[fail.Sig] && !strings.HasPrefix(fail.Sig, "crash/monitor") {
				minimized[fail.Sig] = true
				minH, minF = c10fMinimize(env, dead, h, fail)
			}
			wit := c10fDescribe(env, minH)
			wit["failure"] = minF.Detail
			wit["failure_text"] = minF.What
			wit["original_history_ops"] = len(h.Ops)
			wit["history_index"] = i
			m.Violation(minF.Sig, minF.What, wit)
		}
	}
	for k, v := range stats {
		m.Count(k, v)
	}
	m.Require("fault_windows/"+c10fAllFail, "fault_windows/"+c10fTableFull,
		"windows_after_which_table_differed_from_cache/"+c10fAllFail,
		"windows_healed_by_dae_retry_paths/"+c10fAllFail,
		"cache_insertions_that_returned_the_write_error/"+c10fAllFail, "cache_insertions_that_returned_the_write_error/"+c10fTableFull,
		"at_recovery/stale_addresses", "at_recovery/bitmap_mismatches",
		"retry_cache_hits_after_recovery", "retry_reresolutions_of_keys_removed_in_window",
		"op_in_window/"+c10fAllFail+"/remove", "op_in_window/"+c10fAllFail+"/query", "op_in_window/"+c10fAllFail+"/store", "op_in_window/"+c10fAllFail+"/janitor", "op_in_window/"+c10fTableFull+"/store", "op_in_window/"+c10fTableFull+"/query", "fault_windows/"+c10fTableFullAny,
		"checks/after-retry-round", "checks/ordinary-op-after-a-healed-window", "checks/ordinary-op-before-any-window", "nontrivial_histories", "table_addresses_equal_to_cache")
	// A judged table-full window holds ONE insertion. Whether it can leave the table different from the
	// cache, and whether addresses can be MISSING when the writes recover, depends on a choice the
	// statement leaves open: an insertion whose route write fails may publish its entry all the same (the
	// table then lacks it until dae's retry) or refuse to publish it (cache and table both unchanged:
	// nothing to heal). The difference/healing observations are demanded only where the tree under test
	// produced the situation in which they can occur; otherwise the refusal itself must have been seen.
	if m.Counter("insertion_with_failed_route_write/entry_published_all_the_same/"+c10fTableFull) > 0 {
		m.Require("windows_after_which_table_differed_from_cache/"+c10fTableFull, "windows_healed_by_dae_retry_paths/"+c10fTableFull)
	} else {
		m.Require("insertion_with_failed_route_write/entry_not_published/" + c10fTableFull)
	}
	if m.Counter("insertion_with_failed_route_write/entry_published_all_the_same/"+c10fTableFull)+
		m.Counter("insertion_with_failed_route_write/entry_published_all_the_same/"+c10fAllFail) > 0 {
		m.Require("at_recovery/missing_addresses")
	} else {
		m.Require("insertion_with_failed_route_write/entry_not_published/" + c10fAllFail)
	}
	m.Done(t)
}
