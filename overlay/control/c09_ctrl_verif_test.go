package control

// C09 monitor, controller layer: a DnsController built by the production
// constructor is driven by many concurrent clients with colliding transaction
// IDs; upstream is either scripted fake DnsForwarders (L1) or dae's real
// DoUDP/DoTCP against hostile loopback servers (L3, see c09_wire_verif_test.go).

import (
	"context"
	"errors"
	"fmt"
	"io"
	"math/rand/v2"
	"net"
	"net/netip"
	"runtime"
	"sort"
	"strconv"
	"strings"
	"sync"
	"runtime/debug"
	"sync/atomic"
	"time"

	"github.com/daeuniverse/dae/common/consts"
	"github.com/daeuniverse/dae/common/netutils"
	componentdns "github.com/daeuniverse/dae/component/dns"
	"github.com/daeuniverse/dae/component/outbound/dialer"
	"github.com/daeuniverse/dae/config"
	"github.com/daeuniverse/dae/pkg/config_parser"
	vk "github.com/daeuniverse/dae/verifkit"
	dnsmessage "github.com/miekg/dns"
	"github.com/sirupsen/logrus"
)

// ---- environment -----------------------------------------------------------------

type c09Env struct {
	m      *vk.Monitor
	log    *logrus.Logger
	direct *dialer.Dialer // dae's own direct dialer (real transports)

	// UDP reply path: sockets standing in for "the DNS server address the
	// client talked to" (realDst); registered in DefaultAnyfromPool so that
	// dae's sendPkt writes replies from them.
	replyConns []*net.UDPConn
	replyAddrs []netip.AddrPort
	lConn      *net.UDPConn

	l4Broken bool // layer L4 hit a watchdog: stop the layer
}

func c09NewEnv(m *vk.Monitor) (*c09Env, func(), error) {
	log := logrus.New()
	log.SetOutput(io.Discard)
	log.SetLevel(logrus.PanicLevel)
	e := &c09Env{m: m, log: log}

	gopt := &dialer.GlobalOption{Log: log, CheckInterval: 30 * time.Second}
	d, prop := dialer.NewDirectDialer(gopt, true)
	e.direct = dialer.NewDialerContext(context.Background(), d, gopt, dialer.InstanceOption{DisableCheck: true}, prop)

	oldPool := DefaultAnyfromPool
	DefaultAnyfromPool = newTestAnyfromPoolWithoutJanitor()
	for i := 0; i < 2; i++ {
		c, err := net.ListenUDP("udp4", &net.UDPAddr{IP: net.IPv4(127, 0, 0, 1)})
		if err != nil {
			return nil, nil, err
		}
		ap := c.LocalAddr().(*net.UDPAddr).AddrPort()
		af := &Anyfrom{UDPConn: c, ttl: AnyfromTimeout}
		af.RefreshTtl()
		sh := DefaultAnyfromPool.shardFor(ap)
		sh.mu.Lock()
		sh.pool[ap] = af
		sh.mu.Unlock()
		e.replyConns = append(e.replyConns, c)
		e.replyAddrs = append(e.replyAddrs, ap)
	}
	lc, err := net.ListenUDP("udp4", &net.UDPAddr{IP: net.IPv4(127, 0, 0, 1)})
	if err != nil {
		return nil, nil, err
	}
	e.lConn = lc
	oldFactory := dnsForwarderFactory
	cleanup := func() {
		dnsForwarderFactory = oldFactory
		for _, c := range e.replyConns {
			_ = c.Close()
		}
		_ = lc.Close()
		DefaultAnyfromPool = oldPool
	}
	return e, cleanup, nil
}

// c09Topology describes how the controller reaches upstream in one round.
type c09Topology struct {
	name string
	// "asis": request routing falls back to asis, upstream = the address the
	// client sent its query to (realDst); "tcp+udp"/"udp"/"tcp": one
	// configured upstream of that scheme.
	scheme   string
	upstream netip.AddrPort   // configured upstream address (non-asis)
	dsts     []netip.AddrPort // realDst choices for clients
	real     bool             // real transports + direct dialer (else fake forwarders)
	limit    int              // ConcurrencyLimit (0 = default)
	// optimistic cache on (dae's default configuration; the other layers run with it off): an expired
	// entry inside the stale window is served while a background refresh goes upstream
	optimistic bool
	// names (fully qualified, lower case) that a request routing rule `qname(full: ...) -> reject`
	// answers with dae's own empty reply
	reject []string
}

// c09NewController builds a DnsController through the production constructor
// (NewDnsController + component/dns.New), with the routing of the topology.
func (e *c09Env) c09NewController(tp c09Topology, lifecycle context.Context) (*DnsController, error) {
	cfg := &config.Dns{Routing: config.DnsRouting{
		Request:  config.DnsRequestRouting{Fallback: "asis"},
		Response: config.DnsResponseRouting{Fallback: "accept"},
	}}
	for _, n := range tp.reject {
		cfg.Routing.Request.Rules = append(cfg.Routing.Request.Rules, &config_parser.RoutingRule{
			AndFunctions: []*config_parser.Function{{Name: "qname", Params: []*config_parser.Param{{Key: "full", Val: strings.TrimSuffix(n, ".")}}}},
			Outbound:     config_parser.Function{Name: "reject"},
		})
	}
	if tp.scheme != "asis" {
		cfg.Upstream = []config.KeyableString{config.KeyableString("u1:" + tp.scheme + "://" + tp.upstream.String())}
		cfg.Routing.Request.Fallback = "u1"
	}
	routing, err := componentdns.New(cfg, &componentdns.NewOption{
		Logger:                e.log,
		UpstreamReadyCallback: func(*componentdns.Upstream) error { return nil },
	})
	if err != nil {
		return nil, err
	}
	routing.InitUpstreams(context.Background())
	if lifecycle == nil {
		lifecycle = context.Background()
	}
	direct := e.direct
	real := tp.real
	staleWindow := 0
	if tp.optimistic {
		staleWindow = 60
	}
	ctrl, err := NewDnsController(routing, &DnsControllerOption{
		OptimisticCache:     tp.optimistic,
		OptimisticCacheTtl:  staleWindow,
		Log:                 e.log,
		LifecycleContext:    lifecycle,
		ConcurrencyLimit:    tp.limit,
		CacheAccessCallback: func(*DnsCache) error { return nil },
		CacheRemoveCallback: func(*DnsCache) error { return nil },
		NewCache: func(fqdn string, answers, ns, extra []dnsmessage.RR, deadline, originalDeadline time.Time) (*DnsCache, error) {
			return &DnsCache{Answer: answers, NS: ns, Extra: extra, Deadline: deadline, OriginalDeadline: originalDeadline}, nil
		},
		BestDialerChooser: func(ctx context.Context, req *udpRequest, upstream *componentdns.Upstream) (*dialArgument, error) {
			l4 := consts.L4ProtoStr_UDP
			if upstream.Scheme == componentdns.UpstreamScheme_TCP {
				l4 = consts.L4ProtoStr_TCP
			}
			da := &dialArgument{l4proto: l4, ipversion: consts.IpVersionStr_4,
				bestTarget: netip.AddrPortFrom(upstream.Ip4, upstream.Port)}
			if real {
				da.bestDialer = direct
			}
			return da, nil
		},
	})
	return ctrl, err
}

// ---- clients -------------------------------------------------------------------------

type c09Writer struct {
	mu   sync.Mutex
	msgs []*dnsmessage.Msg
}

func (w *c09Writer) LocalAddr() net.Addr  { return nil }
func (w *c09Writer) RemoteAddr() net.Addr { return nil }
func (w *c09Writer) TsigStatus() error    { return nil }
func (w *c09Writer) TsigTimersOnly(bool)  {}
func (w *c09Writer) Hijack()              {}
func (w *c09Writer) Close() error         { return nil }
func (w *c09Writer) WriteMsg(msg *dnsmessage.Msg) error {
	// a real ResponseWriter packs the message and makes a syscall; give other
	// goroutines the chance to run before the message is read.
	runtime.Gosched()
	cp := msg.Copy()
	w.mu.Lock()
	w.msgs = append(w.msgs, cp)
	w.mu.Unlock()
	return nil
}
func (w *c09Writer) Write(b []byte) (int, error) {
	var m dnsmessage.Msg
	if err := m.Unpack(b); err != nil {
		return 0, err
	}
	w.mu.Lock()
	w.msgs = append(w.msgs, &m)
	w.mu.Unlock()
	return len(b), nil
}

type c09Client struct {
	Idx     int    `json:"client"`
	ID      uint16 `json:"id"`
	Q       c09Q   `json:"-"`
	Qs      string `json:"question"`
	Path    string `json:"path"` // writer | udp | probe
	Dst     string `json:"real_dst"`
	Stagger int    `json:"-"`
	TCall   int64  `json:"t_call_ns"`
	TRet    int64  `json:"t_ret_ns"`
	Err     string `json:"error,omitempty"`
	Replies []string `json:"replies"`

	dst     netip.AddrPort
	replies []*dnsmessage.Msg
	sock    *net.UDPConn
	panicV  any
}

// run performs the client's query against ctrl exactly as dae's ingress does:
// writer path = dns_listener.go / tcp.go (HandleWithResponseWriter_),
// udp path = udp.go DNS fast path (Handle_, then SERVFAIL / TC by dae's own
// helpers when Handle_ failed).
func (c *c09Client) run(e *c09Env, ctrl *DnsController, w *c09World) {
	msg := new(dnsmessage.Msg)
	msg.Id = c.ID
	msg.RecursionDesired = true
	msg.Question = []dnsmessage.Question{{Name: c.Q.Name, Qtype: c.Q.Type, Qclass: c.Q.Class}}
	src := netip.MustParseAddrPort("127.0.0.1:" + strconv.Itoa(20000+c.Idx))
	var wr *c09Writer
	req := &udpRequest{realSrc: src, realDst: c.dst, src: src, routingResult: &bpfRoutingResult{}}
	if c.Path == "udp" {
		src = c.sock.LocalAddr().(*net.UDPAddr).AddrPort()
		req.realSrc, req.src, req.lConn = src, src, e.lConn
	} else {
		wr = &c09Writer{}
	}
	for i := 0; i < c.Stagger; i++ {
		runtime.Gosched()
	}
	ctx := context.Background()
	c.TCall = w.now()
	err := func() (err error) {
		defer func() {
			if r := recover(); r != nil {
				c.panicV = r
				err = fmt.Errorf("panic: %v", r)
			}
		}()
		if wr != nil {
			return ctrl.HandleWithResponseWriter_(ctx, msg, req, wr)
		}
		err = ctrl.Handle_(ctx, msg, req)
		if err != nil && !errors.Is(err, ErrDNSQueryConcurrencyLimitExceeded) {
			// control/udp.go and control_plane.go DNS fast path: never leave the
			// client waiting; TC=1 for a truncated upstream answer, SERVFAIL otherwise.
			if errors.Is(err, ErrDNSTruncated) {
				_ = ctrl.sendDnsTruncatedResponse_(msg, req, nil)
			} else {
				_ = ctrl.sendDnsErrorResponse_(msg, dnsmessage.RcodeServerFailure, "ServeFail (dns fast path)", req, nil)
			}
		}
		return err
	}()
	c.TRet = w.now()
	if err != nil {
		c.Err = err.Error()
	}
	if wr != nil {
		wr.mu.Lock()
		c.replies = wr.msgs
		wr.mu.Unlock()
	} else {
		// replies are written synchronously before Handle_ returns; loopback
		// delivery is immediate, the deadline only bounds the wait for "none".
		buf := make([]byte, 4096)
		wait := 150 * time.Millisecond
		for {
			_ = c.sock.SetReadDeadline(time.Now().Add(wait))
			n, _, rerr := c.sock.ReadFromUDPAddrPort(buf)
			if rerr != nil {
				break
			}
			var m dnsmessage.Msg
			if uerr := m.Unpack(buf[:n]); uerr == nil {
				c.replies = append(c.replies, &m)
			} else {
				c.replies = append(c.replies, nil)
			}
			wait = 2 * time.Millisecond
		}
	}
	for _, r := range c.replies {
		c.Replies = append(c.Replies, c09MsgString(r))
	}
}

func c09ReplyKind(c *c09Client) string {
	if len(c.replies) == 0 {
		if c.Err != "" {
			return "error-noreply"
		}
		return "noreply"
	}
	r := c.replies[0]
	switch {
	case r == nil:
		return "undecodable"
	case r.Truncated:
		return "tc"
	case r.Rcode == dnsmessage.RcodeServerFailure:
		return "servfail"
	case r.Rcode == dnsmessage.RcodeRefused:
		return "refused"
	case r.Rcode == dnsmessage.RcodeNameError:
		return "nx"
	case len(r.Answer) == 0:
		return "empty"
	default:
		return "answer"
	}
}

// ---- one controller round ------------------------------------------------------------

type c09Round struct {
	layer   string
	tp      c09Topology
	seq     int
	world   *c09World
	qs      []c09Q // the round's questions
	clients []*c09Client
	tail    int // clients run sequentially after the concurrent wave
}

// scope is the upstream address a client's question is resolved at: the
// address it sent the query to (asis) or the configured upstream.
func (rd *c09Round) scope(c *c09Client) string {
	if rd.tp.scheme == "asis" {
		return c.Dst
	}
	return rd.tp.upstream.String()
}

func (rd *c09Round) witness(extra map[string]any) map[string]any {
	calls := rd.world.snapshotCalls()
	if len(calls) > 60 {
		calls = calls[:60]
	}
	cl := rd.clients
	if len(cl) > 80 {
		cl = cl[:80]
	}
	w := map[string]any{"layer": rd.layer, "round": rd.seq, "topology": rd.tp.name, "scheme": rd.tp.scheme,
		"script": c09ScriptString(rd.world.script), "upstream_calls": calls, "clients": cl}
	for k, v := range extra {
		w[k] = v
	}
	return w
}

// c09GenClients draws the round's client population: 8..64 clients over the
// round's 3..6 names, IDs from {7,8}, mixed-case names, mostly class IN.
func c09GenClients(r *rand.Rand, rd *c09Round, n int, allowUDP bool) {
	for i := 0; i < n; i++ {
		q := rd.qs[r.IntN(len(rd.qs))]
		t := c09Types[0]
		switch x := r.IntN(10); {
		case x >= 8:
			t = c09Types[2]
		case x >= 5:
			t = c09Types[1]
		}
		c := &c09Client{Idx: i, ID: uint16(7 + r.IntN(2)), Path: "writer", Stagger: r.IntN(40),
			Q: c09Q{Name: c09MixCase(r, q.Name), Type: t, Class: dnsmessage.ClassINET}}
		if r.IntN(3) == 0 {
			c.Stagger = 0 // a burst that starts together
		}
		if allowUDP && r.IntN(4) == 0 {
			c.Path = "udp"
		}
		c.dst = rd.tp.dsts[r.IntN(len(rd.tp.dsts))]
		c.Dst = c.dst.String()
		c.Qs = c.Q.String()
		rd.clients = append(rd.clients, c)
	}
}

// c09RunRound runs the clients concurrently, then applies every oracle.
func (e *c09Env) c09RunRound(r *rand.Rand, rd *c09Round, ctrl *DnsController) {
	m := e.m
	var socks []*net.UDPConn
	for _, c := range rd.clients {
		if c.Path == "udp" {
			s, err := net.ListenUDP("udp4", &net.UDPAddr{IP: net.IPv4(127, 0, 0, 1)})
			if err != nil {
				c.Path = "writer"
				continue
			}
			c.sock = s
			socks = append(socks, s)
		}
	}
	defer func() {
		for _, s := range socks {
			_ = s.Close()
		}
	}()

	start := make(chan struct{})
	var wg sync.WaitGroup
	for _, c := range rd.clients {
		wg.Add(1)
		go func(c *c09Client) {
			defer wg.Done()
			<-start
			c.run(e, ctrl, rd.world)
		}(c)
	}
	close(start)
	done := make(chan struct{})
	go func() { wg.Wait(); close(done) }()
	select {
	case <-done:
	case <-time.After(60 * time.Second):
		m.Inconclusive("%s round %d: clients still running after 60s (watchdog)", rd.layer, rd.seq)
		return
	}

	// sequential tail: later, different questions with colliding IDs that run
	// one after the other, so pooled sockets / pipelined connections / cache
	// entries left behind by the first wave are reused.
	nFirst := len(rd.clients)
	for i := 0; i < rd.tail; i++ {
		q := rd.qs[r.IntN(len(rd.qs))]
		c := &c09Client{Idx: 500 + i, ID: uint16(7 + r.IntN(2)), Path: "seq",
			Q: c09Q{Name: c09MixCase(r, q.Name), Type: c09Types[r.IntN(len(c09Types))], Class: dnsmessage.ClassINET}}
		c.dst = rd.tp.dsts[r.IntN(len(rd.tp.dsts))]
		c.Dst = c.dst.String()
		c.Qs = c.Q.String()
		c.run(e, ctrl, rd.world)
		rd.clients = append(rd.clients, c)
	}

	// second wave: one probe per distinct (question, dst) after quiescence;
	// most of them are served from the cache the first wave filled.
	seen := map[string]bool{}
	var probes []*c09Client
	for _, c := range rd.clients {
		k := c.Q.key() + "@" + c.Dst
		if seen[k] {
			continue
		}
		seen[k] = true
		p := &c09Client{Idx: 1000 + len(probes), ID: uint16(7 + len(probes)%2), Path: "probe", Q: c09Q{Name: c.Q.canon(), Type: c.Q.Type, Class: c.Q.Class}, dst: c.dst, Dst: c.Dst}
		p.Qs = p.Q.String()
		probes = append(probes, p)
	}
	for _, p := range probes {
		p.run(e, ctrl, rd.world)
	}
	rd.clients = append(rd.clients, probes...)

	e.c09CacheHitStorm(r, rd, ctrl)

	// ---- oracle 1: every reply carries the client's ID and question, and only
	// answers generated for the client's (name,type).
	calls := rd.world.snapshotCalls()
	for ci, c := range rd.clients {
		m.Eval(1)
		where := rd.layer + "/" + c.Path
		if c.panicV != nil {
			c09V(m, "panic-in-dns-path/"+rd.layer, fmt.Sprintf("panic while handling (%s): %v", c.Q, c.panicV), rd.witness(map[string]any{"client": c}))
			continue
		}
		for _, rp := range c.replies {
			if rp == nil {
				c09V(m, "reply-undecodable/"+where, "client received bytes that do not parse as a DNS message", rd.witness(map[string]any{"client": c}))
				continue
			}
			if !rp.Response {
				m.Count("reply_without_qr_bit", 1)
			}
			cc := c
			c09JudgeClientMsg(m, where, c.ID, c.Q, rp, func() any { return rd.witness(map[string]any{"client": cc}) })
		}
		if c.Err == "" && len(c.replies) == 0 {
			if c.Path == "udp" {
				m.Count("udp_success_but_no_datagram_seen", 1) // loopback loss is possible in principle: no verdict
			} else {
				c09V(m, "no-reply-on-success/"+where, fmt.Sprintf("handler returned nil for (%s) but wrote no reply", c.Q), rd.witness(map[string]any{"client": c}))
			}
		}
		if len(c.replies) > 1 {
			m.Count("clients_with_more_than_one_reply", 1)
		}
		kind := c09ReplyKind(c)
		m.Count("reply_kind_"+kind, 1)
		// coverage signature: which upstream behaviours this question met,
		// whether a colliding ID with another question overlapped, whether an
		// identical question overlapped, path and outcome.
		collide, shared := false, false
		if ci < nFirst {
			for oi, o := range rd.clients[:nFirst] {
				if oi == ci || o.TRet < c.TCall || c.TRet < o.TCall {
					continue
				}
				if o.Q.key() == c.Q.key() && o.Dst == c.Dst {
					shared = true
				} else if o.ID == c.ID {
					collide = true
				}
			}
		}
		behs := map[string]bool{}
		for _, uc := range calls {
			if strings.HasSuffix(uc.key, "|"+c.Q.key()) {
				behs[uc.Proto+":"+uc.Beh] = true
			}
		}
		var bl []string
		for b := range behs {
			bl = append(bl, b)
		}
		sort.Strings(bl)
		if len(bl) == 0 {
			m.Count("clients_served_without_any_upstream_call", 1)
		}
		if collide {
			m.Count("clients_with_colliding_id_overlap", 1)
		}
		if shared {
			m.Count("clients_sharing_question_overlap", 1)
		}
		m.Distinct(fmt.Sprintf("%s|%s|%s|%s|col=%v|sh=%v|%s|%s", rd.layer, rd.tp.scheme, c.Path, dnsmessage.TypeToString[c.Q.Type], collide, shared, kind, strings.Join(bl, "+")))
	}
	m.Count(rd.layer+"_rounds", 1)
	m.Count(rd.layer+"_clients", int64(len(rd.clients)))

	// ---- oracle 2: cache content at quiescence.
	e.c09JudgeCache(rd, ctrl)

	// ---- oracle 3 (fake upstream only): identical concurrent questions are one
	// upstream resolution: no two upstream calls for one (upstream,name,type)
	// may be in flight at the same time.
	if !rd.tp.real {
		for _, p := range c09OverlappingCalls(calls) {
			c09V(m, "singleflight/overlapping-upstream-resolutions/"+rd.layer,
				fmt.Sprintf("two upstream resolutions of %s were in flight at the same time (calls #%d and #%d)", p[0].Q, p[0].Seq, p[1].Seq),
				rd.witness(map[string]any{"call_a": p[0], "call_b": p[1]}))
			break
		}
		// positive evidence: groups of overlapping identical questions that were
		// served by fewer upstream calls than clients.
		groups := map[string][]*c09Client{}
		for _, c := range rd.clients[:nFirst] {
			k := rd.scope(c) + "|" + c.Q.key()
			groups[k] = append(groups[k], c)
		}
		primary := "udp"
		if rd.tp.scheme == "tcp" {
			primary = "tcp"
		}
		for k, g := range groups {
			if len(g) < 2 {
				continue
			}
			ncalls := 0
			for _, uc := range calls {
				if uc.Proto == primary && uc.key == k {
					ncalls++
				}
			}
			if ncalls >= 1 && ncalls < len(g) {
				m.Count("sf_groups_coalesced_or_cached", 1)
			}
			if ncalls == 1 {
				answered := 0
				for _, c := range g {
					if len(c.replies) > 0 {
						answered++
					}
				}
				if answered == len(g) {
					m.Count("sf_groups_one_resolution_reached_every_waiter", 1)
				}
			}
		}
	}
}

// c09JudgeCache walks dnsCache after the round: an entry stored under
// (name,type[,scope]) must only hold records generated for that (name,type)
// and a pre-packed response whose question is that (name,type).
func (e *c09Env) c09JudgeCache(rd *c09Round, ctrl *DnsController) {
	m := e.m
	ctrl.dnsCache.Range(func(k, v any) bool {
		key, _ := k.(string)
		entry, _ := v.(*DnsCache)
		if entry == nil {
			return true
		}
		base := key
		if i := strings.Index(base, "|"); i >= 0 {
			base = base[:i]
		}
		dot := strings.LastIndex(base, ".")
		if dot < 0 {
			m.Count("cache_keys_unparsed", 1)
			return true
		}
		name := base[:dot+1]
		tn, err := strconv.Atoi(base[dot+1:])
		if err != nil {
			m.Count("cache_keys_unparsed", 1)
			return true
		}
		qtype := uint16(tn)
		m.Count("cache_entries_checked", 1)
		want := c09Hash16(name, qtype)
		wit := func() any {
			var rrs []string
			for _, rr := range entry.Answer {
				rrs = append(rrs, rr.String())
			}
			pq := ""
			if p := entry.GetPackedResponse(); p != nil {
				var pm dnsmessage.Msg
				if pm.Unpack(p) == nil {
					pq = c09MsgString(&pm)
				}
			}
			return rd.witness(map[string]any{"cache_key": key, "cache_answer": rrs, "cache_packed": pq})
		}
		for _, rr := range entry.Answer {
			h, _, has := c09Marker(rr)
			if !has {
				continue
			}
			m.Count("cache_markers_checked", 1)
			if h != want {
				c09V(m, "cache-entry-answers-other-question/"+rd.layer,
					fmt.Sprintf("cache key %q holds a record generated for another (name,type): %s", key, rr.String()), wit())
				return true
			}
		}
		if p := entry.GetPackedResponse(); p != nil {
			var pm dnsmessage.Msg
			if pm.Unpack(p) == nil && len(pm.Question) > 0 {
				pq := pm.Question[0]
				if !strings.EqualFold(pq.Name, name) || pq.Qtype != qtype {
					c09V(m, "cache-entry-packed-question-mismatch/"+rd.layer,
						fmt.Sprintf("cache key %q holds a ready-to-send response for question [%s %s]", key, pq.Name, dnsmessage.TypeToString[pq.Qtype]), wit())
				}
			}
		}
		return true
	})
}

// ---- L1: fake forwarders ------------------------------------------------------------------

var c09FakeUDPWeights = []c09Weighted{{c09OK, 24}, {c09Slow, 16}, {c09SlowTTL0, 7}, {c09SlowNX, 4}, {c09TTL0, 6}, {c09WrongQ, 6}, {c09WrongType, 4}, {c09PrevQ, 5},
	{c09WrongID, 4}, {c09NoQ, 2}, {c09TC, 6}, {c09Never, 3}, {c09Err, 5}, {c09Servfail, 4}, {c09NX, 3}, {c09Empty, 3}}
var c09FakeTCPWeights = []c09Weighted{{c09OK, 36}, {c09Slow, 18}, {c09SlowTTL0, 6}, {c09TTL0, 5}, {c09WrongQ, 8}, {c09PrevQ, 8}, {c09Err, 8}, {c09Never, 3}, {c09Servfail, 4}, {c09WrongID, 4}}

func c09RoundQuestions(r *rand.Rand) []c09Q {
	n := 3 + r.IntN(4)
	perm := r.Perm(len(c09NamePool))
	var qs []c09Q
	for _, i := range perm[:n] {
		qs = append(qs, c09Q{Name: c09NamePool[i], Type: dnsmessage.TypeA, Class: dnsmessage.ClassINET})
	}
	return qs
}

func (e *c09Env) c09L1Round(r *rand.Rand, seq int) {
	m := e.m
	tp := c09Topology{name: "asis-2-resolvers", scheme: "asis", dsts: e.replyAddrs}
	switch r.IntN(4) {
	case 0:
		tp = c09Topology{name: "u1-tcp+udp", scheme: "tcp+udp", upstream: netip.MustParseAddrPort("127.0.0.1:5391"), dsts: e.replyAddrs[:1]}
	case 1:
		tp = c09Topology{name: "u1-tcp", scheme: "tcp", upstream: netip.MustParseAddrPort("127.0.0.1:5392"), dsts: e.replyAddrs[:1]}
	}
	if r.IntN(8) == 0 {
		tp.limit = 2 + r.IntN(6) // overload protection: some clients get REFUSED
		tp.name += "+limit"
	}
	rd := &c09Round{layer: "L1", tp: tp, seq: seq, qs: c09RoundQuestions(r)}
	rd.world = c09NewWorld(r, rd.qs)
	for i, q := range rd.qs {
		s := c09Script(r, c09FakeUDPWeights)
		if i == 0 {
			s[0] = c09Slow // every round has at least one question whose resolution stays open
		}
		rd.world.setScript("udp", q.Name, s)
		rd.world.setScript("tcp", q.Name, c09Script(r, c09FakeTCPWeights))
	}
	w := rd.world
	dnsForwarderFactory = func(up *componentdns.Upstream, da dialArgument, _ *logrus.Logger) (DnsForwarder, error) {
		return c09NewFakeFwd(w, da.bestTarget.String(), string(da.l4proto)), nil
	}
	ctrl, err := e.c09NewController(tp, nil)
	if err != nil {
		m.Inconclusive("L1: cannot build controller: %v", err)
		return
	}
	c09GenClients(r, rd, 8+r.IntN(57), true)
	rd.tail = r.IntN(6)
	if seq%5 == 4 {
		// burst: everybody asks one of two questions at the same moment
		for _, c := range rd.clients {
			c.Stagger = 0
			c.Q.Name = c09MixCase(r, rd.qs[r.IntN(2)].Name)
			c.Q.Type = dnsmessage.TypeA
			c.Qs = c.Q.String()
		}
	}
	if m.WantSample() {
		m.Sample(map[string]any{"layer": "L1", "topology": tp.name, "script": c09ScriptString(w.script), "clients": len(rd.clients),
			"first_client": rd.clients[0].Qs, "first_client_id": rd.clients[0].ID})
	}
	e.c09RunRound(r, rd, ctrl)
	w.shutdown.Store(true)
	_ = ctrl.Close()
	c09JudgeForwarders(m, "L1", w, func(f *c09FakeFwd) any { return rd.witness(map[string]any{"forwarder": f.up + "/" + f.proto}) })
	for _, uc := range w.snapshotCalls() {
		m.Count("L1_upstream_"+uc.Proto+"_"+uc.Beh, 1)
	}
}

// ---- L1r: retire / idle-evict / use races on the forwarder cache --------------------

// c09L1rRound hammers forwardWithDialArg (the only production caller of
// ForwardDNS) from several goroutines while the idle evictor and the reload
// path (ResetDnsForwarders) retire the same cached forwarders. The fake
// forwarders count Close calls and notice a Close that overlaps a running
// ForwardDNS or a ForwardDNS that starts after Close.
func (e *c09Env) c09L1rRound(r *rand.Rand, seq int) {
	m := e.m
	qs := c09RoundQuestions(r)
	w := c09NewWorld(r, qs)
	for _, q := range qs {
		ws := []c09Weighted{{c09OK, 50}, {c09Slow, 25}, {c09Err, 15}, {c09Never, 3}, {c09TC, 7}}
		w.setScript("udp", q.Name, c09Script(r, ws))
		w.setScript("tcp", q.Name, c09Script(r, ws))
	}
	dnsForwarderFactory = func(up *componentdns.Upstream, da dialArgument, _ *logrus.Logger) (DnsForwarder, error) {
		return c09NewFakeFwd(w, da.bestTarget.String(), string(da.l4proto)), nil
	}
	tp := c09Topology{name: "retire-race", scheme: "asis", dsts: e.replyAddrs[:1]}
	ctrl, err := e.c09NewController(tp, nil)
	if err != nil {
		m.Inconclusive("L1r: cannot build controller: %v", err)
		return
	}
	evict := r.IntN(4) != 0
	reset := r.IntN(3) != 0
	if evict {
		// dnsForwarderIdleTTL is a per-controller setting (the in-tree tests set it
		// the same way): with 1ns every forwarder not in use counts as idle, which
		// is the state the janitor sees after two quiet minutes.
		ctrl.dnsForwarderIdleTTL = time.Nanosecond
	}
	type upPath struct {
		up *componentdns.Upstream
		da *dialArgument
	}
	var paths []upPath
	for i := 0; i < 1+r.IntN(2); i++ {
		ap := netip.MustParseAddrPort("127.0.0.1:" + strconv.Itoa(5400+i))
		scheme, l4 := componentdns.UpstreamScheme_UDP, consts.L4ProtoStr_UDP
		if r.IntN(2) == 0 {
			scheme, l4 = componentdns.UpstreamScheme_TCP, consts.L4ProtoStr_TCP
		}
		paths = append(paths, upPath{
			up: &componentdns.Upstream{Scheme: scheme, Hostname: ap.Addr().String(), Port: ap.Port(), Ip46: &netutils.Ip46{Ip4: ap.Addr()}},
			da: &dialArgument{l4proto: l4, ipversion: consts.IpVersionStr_4, bestTarget: ap},
		})
	}
	workers := 3 + r.IntN(6)
	iters := 20 + r.IntN(30)
	// yield points (build tag verif) between the atomic steps of
	// beginUse / retire / the evictor / forwardWithDialArg: a goroutine reaching
	// one of them gives way a random number of times, so that the other side
	// of the race gets to run inside the window.
	var yseed atomic.Uint64
	yseed.Store(r.Uint64() | 1)
	yield := func(point string) {
		x := yseed.Add(0x9e3779b97f4a7c15)
		x ^= x >> 29
		n := int(x % 7)
		if x%11 == 0 {
			n = 40
		}
		for i := 0; i < n; i++ {
			runtime.Gosched()
		}
		m.Count("L1r_yield_"+point, 1)
	}
	VerifYieldHook.Store(&yield)
	defer VerifYieldHook.Store(nil)
	stop := make(chan struct{})
	var wg, bg sync.WaitGroup
	for g := 0; g < workers; g++ {
		seed := r.Uint64()
		wg.Add(1)
		go func(g int) {
			defer wg.Done()
			rr := rand.New(rand.NewPCG(seed, uint64(g)))
			for i := 0; i < iters; i++ {
				p := paths[rr.IntN(len(paths))]
				q := qs[rr.IntN(len(qs))]
				req := new(dnsmessage.Msg)
				req.Id = uint16(7 + rr.IntN(2))
				req.Question = []dnsmessage.Question{{Name: q.Name, Qtype: q.Type, Qclass: q.Class}}
				data, _ := req.Pack()
				ctx, cancel := context.WithTimeout(context.Background(), 2*time.Second)
				resp, err := ctrl.forwardWithDialArg(ctx, p.up, p.da, data)
				cancel()
				m.Eval(1)
				if err != nil {
					m.Count("L1r_forward_errors", 1)
					if strings.Contains(err.Error(), "retired before request could start") {
						m.Count("L1r_forward_lost_to_retire_twice", 1)
					}
					continue
				}
				m.Count("L1r_forward_ok", 1)
				c09JudgeMsg(m, "L1r/forwardWithDialArg", req.Id, q, resp, false, func() any {
					return map[string]any{"round": seq, "question": q.String(), "response": c09MsgString(resp)}
				})
			}
		}(g)
	}
	if evict {
		bg.Add(1)
		go func() {
			defer bg.Done()
			for {
				select {
				case <-stop:
					return
				default:
				}
				ctrl.evictIdleDnsForwarders(time.Now())
				m.Count("L1r_evict_passes", 1)
				for i := 0; i < 8; i++ {
					runtime.Gosched()
				}
			}
		}()
	}
	if reset {
		bg.Add(1)
		go func() {
			defer bg.Done()
			n := 0
			for {
				select {
				case <-stop:
					return
				default:
				}
				n++
				if n%3 == 0 {
					_ = ctrl.ResetDnsForwarders() // reload path: retire everything cached
					m.Count("L1r_reset_passes", 1)
				} else {
					ctrl.dnsForwarderCache.Range(func(k, v any) bool {
						if key, ok := k.(dnsForwarderKey); ok {
							if entry, ok := v.(*cachedDnsForwarder); ok {
								ctrl.retireCachedDnsForwarder(key, entry)
								m.Count("L1r_retire_calls", 1)
							}
						}
						return true
					})
				}
				for i := 0; i < 5; i++ {
					runtime.Gosched()
				}
			}
		}()
	}
	done := make(chan struct{})
	go func() { wg.Wait(); close(done) }()
	select {
	case <-done:
	case <-time.After(60 * time.Second):
		close(stop)
		m.Inconclusive("L1r round %d: workers still running after 60s (watchdog)", seq)
		return
	}
	close(stop)
	bg.Wait()
	w.shutdown.Store(true)
	_ = ctrl.Close()
	c09JudgeForwarders(m, "L1r", w, func(f *c09FakeFwd) any {
		return map[string]any{"layer": "L1r", "round": seq, "evictor_running": evict, "reload_retire_running": reset, "workers": workers, "iterations": iters,
			"forwarder": f.up + "/" + f.proto, "forwarder_calls": f.calls.Load(), "closed_by": f.closers}
	})
	w.fwdMu.Lock()
	nf := len(w.fwds)
	w.fwdMu.Unlock()
	m.Count("L1r_rounds", 1)
	m.Count("L1r_forwarders_created", int64(nf))
	m.Distinct(fmt.Sprintf("L1r|evict=%v|reset=%v|paths=%d|workers=%d|fwds=%d", evict, reset, len(paths), workers, nf/4))
}

// c09CacheHitStorm: many clients with disjoint transaction IDs hit ONE cached answer at once on
// the transparent UDP path (the reply is the entry's pre-packed bytes with the client's ID patched
// in). Every datagram a client receives must carry an ID that this client used, its question and
// the marker of its (name, type).
func (e *c09Env) c09CacheHitStorm(r *rand.Rand, rd *c09Round, ctrl *DnsController) {
	m := e.m
	if len(rd.qs) == 0 || len(e.replyAddrs) == 0 {
		return
	}
	q := c09Q{Name: rd.qs[r.IntN(len(rd.qs))].canon(), Type: dnsmessage.TypeA, Class: dnsmessage.ClassINET}
	dst := rd.tp.dsts[r.IntN(len(rd.tp.dsts))]
	registered := false
	for _, a := range e.replyAddrs { // dae sends UDP replies from the address the client had asked
		registered = registered || a == dst
	}
	if !registered {
		return
	}
	// make sure the answer is cached (one ordinary query first)
	prime := &c09Client{Idx: 3000, ID: 9, Path: "probe", Q: q, dst: dst, Dst: dst.String()}
	prime.run(e, ctrl, rd.world)
	if len(prime.replies) == 0 || prime.replies[0] == nil || prime.replies[0].Rcode != dnsmessage.RcodeSuccess || len(prime.replies[0].Answer) == 0 {
		m.Count("storm_skipped_answer_not_cacheable", 1)
		return
	}
	want := c09Hash16(q.Name, q.Type)
	nc, per := 8+r.IntN(9), vk.Scale(60, 400)
	type bad struct{ what string }
	var firstBad atomic.Pointer[bad]
	var hits, lateOwn atomic.Int64
	var wg sync.WaitGroup
	for ci := 0; ci < nc; ci++ {
		sock, err := net.ListenUDP("udp4", &net.UDPAddr{IP: net.IPv4(127, 0, 0, 1)})
		if err != nil {
			continue
		}
		wg.Add(1)
		go func(ci int, sock *net.UDPConn) {
			defer wg.Done()
			defer sock.Close()
			defer func() {
				if rec := recover(); rec != nil {
					firstBad.CompareAndSwap(nil, &bad{fmt.Sprintf("panic: %v\n%s", rec, debug.Stack())})
				}
			}()
			src := sock.LocalAddr().(*net.UDPAddr).AddrPort()
			buf := make([]byte, 4096)
			for j := 0; j < per && firstBad.Load() == nil; j++ {
				id := uint16(ci+1)<<11 | uint16(j)&0x7ff
				msg := new(dnsmessage.Msg)
				msg.Id = id
				msg.RecursionDesired = true
				msg.Question = []dnsmessage.Question{{Name: q.Name, Qtype: q.Type, Qclass: q.Class}}
				req := &udpRequest{realSrc: src, realDst: dst, src: src, lConn: e.lConn, routingResult: &bpfRoutingResult{}}
				if err := ctrl.Handle_(context.Background(), msg, req); err != nil {
					continue
				}
			again:
				_ = sock.SetReadDeadline(time.Now().Add(500 * time.Millisecond))
				n, _, rerr := sock.ReadFromUDPAddrPort(buf)
				if rerr != nil {
					continue
				}
				hits.Add(1)
				var rp dnsmessage.Msg
				if rp.Unpack(buf[:n]) != nil {
					firstBad.CompareAndSwap(nil, &bad{fmt.Sprintf("client %d received bytes that do not parse as a DNS message", ci)})
					return
				}
				if rp.Id != id && rp.Id>>11 == id>>11 && rp.Id&0x7ff < id&0x7ff {
					lateOwn.Add(1) // the reply to one of this client's earlier queries (it had timed out waiting): its own ID
					goto again
				}
				if rp.Id != id {
					firstBad.CompareAndSwap(nil, &bad{fmt.Sprintf("client %d asked under ID %#04x, the datagram written to it carries ID %#04x (client %d's ID space)", ci, id, rp.Id, int(rp.Id>>11)-1)})
					return
				}
				if len(rp.Question) != 1 || !strings.EqualFold(rp.Question[0].Name, q.Name) || rp.Question[0].Qtype != q.Type {
					firstBad.CompareAndSwap(nil, &bad{fmt.Sprintf("client %d: reply carries another question: %v", ci, rp.Question)})
					return
				}
				for _, rr := range rp.Answer {
					if h, _, ok := c09Marker(rr); ok && h != want {
						firstBad.CompareAndSwap(nil, &bad{fmt.Sprintf("client %d: reply carries an answer generated for another (name,type): marker %04x, want %04x", ci, h, want)})
						return
					}
				}
			}
		}(ci, sock)
	}
	wg.Wait()
	m.Eval(int(hits.Load()))
	m.Count("storm_rounds", 1)
	m.Count("storm_replies_checked", hits.Load())
	m.Count("storm_late_replies_to_own_earlier_queries", lateOwn.Load())
	m.Distinct(fmt.Sprintf("storm|%s|%s|c%d", rd.layer, rd.tp.scheme, nc))
	if b := firstBad.Load(); b != nil {
		c09V(m, "reply-carries-foreign-id-or-answer/"+rd.layer+"/cache-hit-storm", b.what, map[string]any{"layer": rd.layer, "topology": rd.tp.name, "question": q.String(), "clients": nc})
	}
}
