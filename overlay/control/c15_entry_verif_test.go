package control

// C15 monitor, part "entry": the selection relation of the property judged at
// the control-plane entry point production traffic uses.
//
// The main C15 monitor (component/outbound) judges DialerGroup.Select*. The
// relays never call that directly: the TCP relay goes through
// ControlPlane.routeDial, the UDP endpoint dial through
// ControlPlane.chooseProxyDialer, and that function adds a fallback of its own
// ("if selection failed, try the other IP version", control/dial.go) on top of
// the group's. A defect at the boundary (an error the control plane no longer
// recognises, a fallback gated on the wrong parameter, a retry that reuses a
// node it has just recorded dead, ...) is invisible at group level.
//
// Generated histories build real DialerGroups over real dialer.Dialer nodes
// (NewDialer / NewDialerGroup), put them into a ControlPlane's outbound table
// and drive the nodes' alive records per network type through the report entry
// points; between the state events the monitor calls chooseProxyDialer (tcp and
// udp, v4/v6 destinations and clients, dial by IP and dial by domain, with and
// without an excluded node) and routeDial (tcp; the fake node dialer answers
// with a generated plan: network unreachable / other error / success). The
// oracle never predicts the pick. From the nodes' alive records it computes the
// documented order of types (requested family: data-udp, dns-udp, tcp for udp,
// tcp for tcp; then the same of the other IP family) and judges: the returned /
// dialled node is a non-excluded node alive for the first type of that order
// that has one; "no alive dialer" only when no type of the order has one.

import (
	"context"
	"errors"
	"fmt"
	"io"
	"math/rand/v2"
	"net"
	"net/netip"
	"os"
	"strings"
	"syscall"
	"testing"
	"time"

	"github.com/daeuniverse/dae/common/consts"
	ob "github.com/daeuniverse/dae/component/outbound"
	componentdialer "github.com/daeuniverse/dae/component/outbound/dialer"
	vk "github.com/daeuniverse/dae/verifkit"
	D "github.com/daeuniverse/outbound/dialer"
	"github.com/daeuniverse/outbound/netproxy"
)

// type index t = domain*2 + family; domain 0 tcp, 1 dns-udp, 2 data-udp; family 0 v4, 1 v6.
var c15eTypeNames = [6]string{"tcp4", "tcp6", "dnsudp4", "dnsudp6", "dataudp4", "dataudp6"}

func c15eNT(t int) componentdialer.NetworkType {
	fam := consts.IpVersionStr_4
	if t%2 == 1 {
		fam = consts.IpVersionStr_6
	}
	switch t / 2 {
	case 0:
		return componentdialer.NetworkType{L4Proto: consts.L4ProtoStr_TCP, IpVersion: fam}
	case 1:
		return componentdialer.NetworkType{L4Proto: consts.L4ProtoStr_UDP, IpVersion: fam, IsDns: true, UdpHealthDomain: componentdialer.UdpHealthDomainDns}
	default:
		return componentdialer.NetworkType{L4Proto: consts.L4ProtoStr_UDP, IpVersion: fam, UdpHealthDomain: componentdialer.UdpHealthDomainData}
	}
}

// ---- history model -----------------------------------------------------------

type c15eGroupSpec struct {
	Members []int           `json:"members"`
	Offsets []time.Duration `json:"add_latency_ns"`
	Tol     time.Duration   `json:"tolerance_ns"`
	Policy  string          `json:"policy"`
	Fixed   int             `json:"fixed_index"`
}

type c15eEv struct {
	K      string        `json:"k"` // sample forced_dead probe_fail traffic_alive set_policy choose route
	G      int           `json:"g,omitempty"`
	N      int           `json:"n,omitempty"`
	T      int           `json:"t,omitempty"`
	Lat    time.Duration `json:"lat_ns,omitempty"`
	Policy string        `json:"policy,omitempty"`
	Fixed  int           `json:"fixed,omitempty"`
	// queries
	Net      string   `json:"net,omitempty"` // tcp udp
	DstFam   int      `json:"dst_fam,omitempty"`
	SrcFam   int      `json:"src_fam,omitempty"`
	Mapped   bool     `json:"dst_4in6,omitempty"`
	DialMode string   `json:"dial_mode,omitempty"`
	Domain   string   `json:"domain,omitempty"`
	Excl     int      `json:"excl,omitempty"` // world node, -1 none
	Plan     []string `json:"dial_plan,omitempty"`
}

func (e c15eEv) String() string {
	switch e.K {
	case "sample":
		return fmt.Sprintf("sample n%d %s %v", e.N, c15eTypeNames[e.T], e.Lat)
	case "set_policy":
		return fmt.Sprintf("set_policy g%d %s(%d)", e.G, e.Policy, e.Fixed)
	case "choose", "route":
		return fmt.Sprintf("%s g%d %s dst=v%d(4in6=%v) src=v%d dial_mode=%s domain=%q excl=%d plan=%v", e.K, e.G, e.Net, 4+2*e.DstFam, e.Mapped, 4+2*e.SrcFam, e.DialMode, e.Domain, e.Excl, e.Plan)
	default:
		return fmt.Sprintf("%s n%d %s", e.K, e.N, c15eTypeNames[e.T])
	}
}

type c15eHist struct {
	Nodes  int             `json:"nodes"`
	Groups []c15eGroupSpec `json:"groups"`
	Ev     []c15eEv        `json:"events"`
}

type c15eViol struct {
	Sig    string
	What   string
	Step   int
	Detail map[string]any
}

// ---- world -------------------------------------------------------------------

type c15eNode struct {
	w   *c15eWorld
	idx int
}

func (n *c15eNode) DialContext(ctx context.Context, network, addr string) (netproxy.Conn, error) {
	return n.w.onDial(n.idx)
}

var (
	c15eErrUnreach     = &net.OpError{Op: "dial", Net: "tcp", Err: os.NewSyscallError("connect", syscall.ENETUNREACH)}
	c15eErrNotSuitable = errors.New("dial tcp: no suitable address found")
	c15eErrInjected    = errors.New("verif: injected failure")
)

type c15eReq struct {
	step      int
	ev        c15eEv
	gi        int
	excl      *componentdialer.Dialer
	tried     []int
	level     []string
	unordered bool // udp flow whose client and destination families differ: order of the families not judged
	strictTag string
}

type c15eWorld struct {
	h        *c15eHist
	nodes    []*componentdialer.Dialer
	nodeIdx  map[*componentdialer.Dialer]int
	groups   []*ob.DialerGroup
	policy   []ob.DialerSelectionPolicy
	samples  [][6]int
	cp       *ControlPlane
	count    func(string)
	distinct func(string)
	// active routeDial query
	cur   *c15eReq
	dials int
	pend  *c15eViol
}

func (w *c15eWorld) cnt(s string) {
	if w.count != nil {
		w.count(s)
	}
}

func c15eIsMin(p consts.DialerSelectionPolicy) bool {
	return p == consts.DialerSelectionPolicy_MinLastLatency || p == consts.DialerSelectionPolicy_MinAverage10Latencies ||
		p == consts.DialerSelectionPolicy_MinMovingAverageLatencies
}

func c15eNewWorld(h *c15eHist) *c15eWorld {
	log := verifQuietLog()
	w := &c15eWorld{h: h, nodeIdx: map[*componentdialer.Dialer]int{}}
	w.samples = make([][6]int, h.Nodes)
	nodeOpt := &componentdialer.GlobalOption{Log: log, CheckInterval: 30 * time.Second}
	for i := 0; i < h.Nodes; i++ {
		// no proxy address: a failed dial must not wake the background prober
		d := componentdialer.NewDialer(&c15eNode{w: w, idx: i}, nodeOpt, componentdialer.InstanceOption{DisableCheck: true},
			&componentdialer.Property{Property: D.Property{Name: fmt.Sprintf("n%d", i)}})
		w.nodes = append(w.nodes, d)
		w.nodeIdx[d] = i
	}
	outs := make([]*ob.DialerGroup, int(consts.OutboundUserDefinedMin)+len(h.Groups))
	for gi, gs := range h.Groups {
		opt := &componentdialer.GlobalOption{Log: log, CheckInterval: 30 * time.Second, CheckTolerance: gs.Tol}
		var ds []*componentdialer.Dialer
		var annos []*componentdialer.Annotation
		for k, ni := range gs.Members {
			ds = append(ds, w.nodes[ni])
			annos = append(annos, &componentdialer.Annotation{AddLatency: gs.Offsets[k]})
		}
		p := ob.DialerSelectionPolicy{Policy: consts.DialerSelectionPolicy(gs.Policy), FixedIndex: gs.Fixed}
		g := ob.NewDialerGroup(opt, fmt.Sprintf("g%d", gi), ds, annos, p, func(bool, *componentdialer.NetworkType, bool) {})
		w.groups = append(w.groups, g)
		w.policy = append(w.policy, p)
		outs[int(consts.OutboundUserDefinedMin)+gi] = g
	}
	w.cp = &ControlPlane{
		log: log,
		controlPlaneGenerationState: controlPlaneGenerationState{
			outbounds: outs,
			dialMode:  consts.DialMode_Ip,
		},
		soMarkFromDae: 0x100,
	}
	return w
}

func (w *c15eWorld) close() {
	for _, g := range w.groups {
		_ = g.Close()
	}
	for _, d := range w.nodes {
		_ = d.Close()
	}
}

func (w *c15eWorld) name(d *componentdialer.Dialer) string {
	if d == nil {
		return "<nil>"
	}
	if i, ok := w.nodeIdx[d]; ok {
		return fmt.Sprintf("n%d", i)
	}
	return "<foreign>"
}

func (w *c15eWorld) names(ds []*componentdialer.Dialer) string {
	var l []string
	for _, d := range ds {
		l = append(l, w.name(d))
	}
	return "[" + strings.Join(l, " ") + "]"
}

// aliveTable is the nodes' own alive record, the table the reference is computed from.
func (w *c15eWorld) aliveTable(gi int) map[string][]string {
	tab := map[string][]string{}
	for _, d := range w.groups[gi].Dialers {
		var l []string
		for t := 0; t < 6; t++ {
			nt := c15eNT(t)
			if d.MustGetAlive(&nt) {
				l = append(l, c15eTypeNames[t])
			}
		}
		tab[w.name(d)] = l
	}
	return tab
}

func (w *c15eWorld) viol(q *c15eReq, sig, what string) *c15eViol {
	return &c15eViol{Sig: "entry/" + sig, What: what, Step: q.step, Detail: map[string]any{
		"group": q.gi, "policy": string(w.policy[q.gi].Policy), "fixed_index": w.policy[q.gi].FixedIndex,
		"query": q.ev.String(), "documented_order_of_types": c15eNames(q.tried), "excluded": w.name(q.excl),
		"recorded_alive_per_node": w.aliveTable(q.gi), "strictness_reported_by_dae": q.strictTag}}
}

func c15eNames(ts []int) []string {
	var l []string
	for _, t := range ts {
		l = append(l, c15eTypeNames[t])
	}
	return l
}

func (w *c15eWorld) candidates(gi, t int, excl *componentdialer.Dialer) (alive, cands []*componentdialer.Dialer) {
	nt := c15eNT(t)
	for _, d := range w.groups[gi].Dialers {
		if d.MustGetAlive(&nt) {
			alive = append(alive, d)
			if d != excl {
				cands = append(cands, d)
			}
		}
	}
	return
}

func c15eIn(l []*componentdialer.Dialer, d *componentdialer.Dialer) bool {
	for _, x := range l {
		if x == d {
			return true
		}
	}
	return false
}

// ---- events --------------------------------------------------------------------

func (w *c15eWorld) apply(step int, e c15eEv) *c15eViol {
	switch e.K {
	case "sample":
		nt := c15eNT(e.T)
		w.samples[e.N][e.T]++
		w.nodes[e.N].VerifProbeSuccess(&nt, e.Lat)
	case "forced_dead":
		nt := c15eNT(e.T)
		w.nodes[e.N].ReportUnavailableForced(&nt, c15eErrInjected)
	case "probe_fail":
		nt := c15eNT(e.T)
		w.nodes[e.N].VerifProbeFailure(&nt)
	case "traffic_alive":
		nt := c15eNT(e.T)
		w.nodes[e.N].ReportAvailableTraffic(&nt)
	case "set_policy":
		p := ob.DialerSelectionPolicy{Policy: consts.DialerSelectionPolicy(e.Policy), FixedIndex: e.Fixed}
		w.groups[e.G].SetSelectionPolicy(p)
		w.policy[e.G] = p
	case "choose", "route":
		return w.query(step, e)
	}
	return nil
}

var (
	c15eDst4  = netip.MustParseAddrPort("198.51.100.7:443")
	c15eDst46 = netip.MustParseAddrPort("[::ffff:198.51.100.7]:443")
	c15eDst6  = netip.MustParseAddrPort("[2001:db8::7]:443")
	c15eSrc4  = netip.MustParseAddrPort("192.0.2.10:40000")
	c15eSrc6  = netip.MustParseAddrPort("[2001:db8:1::10]:40000")
)

func (w *c15eWorld) newReq(step int, e c15eEv) *c15eReq {
	q := &c15eReq{step: step, ev: e, gi: e.G}
	if e.Excl >= 0 {
		q.excl = w.nodes[e.Excl]
	}
	// The type a flow asks for (control/dial.go): its L4 protocol and the IP family of the
	// destination; for UDP the family of the client, so that replies can be written back.
	fam := e.DstFam
	if e.Net == "udp" {
		fam = e.SrcFam
		q.unordered = e.SrcFam != e.DstFam
	}
	addFam := func(f int, tag string) {
		if e.Net == "tcp" {
			q.tried = append(q.tried, 0+f)
			q.level = append(q.level, tag+"primary")
			return
		}
		// data UDP falls back to DNS-UDP, then to TCP health of the same family (dialer_group.go)
		q.tried = append(q.tried, 4+f, 2+f, 0+f)
		q.level = append(q.level, tag+"primary", tag+"dnsudp", tag+"tcp")
	}
	addFam(fam, "")
	// The other IP family: by the group itself when the flow is dialled by domain (not strict), by
	// chooseProxyDialer's own fallback after a failed selection otherwise.
	addFam(1-fam, "otherfamily-")
	return q
}

func (w *c15eWorld) param(e c15eEv) *proxyDialParam {
	p := &proxyDialParam{
		Outbound: consts.OutboundUserDefinedMin + consts.OutboundIndex(e.G),
		Domain:   e.Domain,
		Network:  e.Net,
		Src:      c15eSrc4,
		Dest:     c15eDst4,
	}
	if e.SrcFam == 1 {
		p.Src = c15eSrc6
	}
	switch {
	case e.DstFam == 1:
		p.Dest = c15eDst6
	case e.Mapped:
		p.Dest = c15eDst46
	}
	if e.Excl >= 0 {
		p.Excluded = w.nodes[e.Excl]
	}
	return p
}

func c15eExpectStrict(e c15eEv) bool {
	if e.DialMode == string(consts.DialMode_Ip) || e.Domain == "" {
		return true
	}
	dom := strings.TrimSuffix(strings.TrimPrefix(e.Domain, "["), "]")
	_, err := netip.ParseAddr(dom)
	return err == nil
}

func c15eStrictTag(res *proxyDialResult, e c15eEv) string {
	strict := c15eExpectStrict(e)
	if res != nil {
		strict = res.IsDialIp
	}
	if strict {
		return "strict"
	}
	return "nonstrict"
}

func (w *c15eWorld) query(step int, e c15eEv) *c15eViol {
	q := w.newReq(step, e)
	w.cp.dialMode = consts.DialMode(e.DialMode)
	p := w.param(e)
	pname := string(w.policy[e.G].Policy)
	if e.K == "choose" {
		res, err := w.cp.chooseProxyDialer(context.Background(), p)
		q.strictTag = c15eStrictTag(res, e)
		w.cnt("entry_choose/" + pname)
		w.cnt("entry_choose_" + e.Net + "_" + q.strictTag)
		if res != nil && res.IsDialIp != c15eExpectStrict(e) {
			w.cnt("entry_strictness_differs_from_dial_target_rules_recorded")
		}
		var d *componentdialer.Dialer
		if res != nil {
			d = res.Dialer
		}
		if err == nil && d == nil {
			return w.viol(q, "nil-contract", "chooseProxyDialer returned neither a dialer nor an error")
		}
		if err != nil {
			d = nil
		}
		if v := w.judge(q, d, err, "choose"); v != nil {
			return v
		}
		if err == nil && res.AdmissionNetworkTypeObj != nil {
			if d.MustGetAlive(res.AdmissionNetworkTypeObj) {
				w.cnt("entry_admission_type_alive_for_node")
			} else {
				w.cnt("entry_admission_type_not_alive_for_node_recorded")
			}
		}
		return nil
	}
	// routeDial: every node the control plane actually dials is judged against the records of that moment
	w.cur, w.dials, w.pend = q, 0, nil
	q.strictTag = c15eStrictTag(nil, e)
	_, res, err := w.cp.routeDial(context.Background(), p)
	w.cur = nil
	w.cnt("entry_route/" + pname)
	w.cnt(fmt.Sprintf("entry_route_dial_attempts/%d", w.dials))
	if w.pend != nil {
		return w.pend
	}
	if w.dials == 2 {
		w.cnt("entry_route_retry_after_forced_unavailable")
	}
	switch {
	case err == nil:
		if w.dials == 0 {
			return w.viol(q, "route-success-without-dial", "routeDial reported success although no node was dialled")
		}
	case errors.Is(err, syscall.ENETUNREACH) || errors.Is(err, c15eErrNotSuitable) || errors.Is(err, io.EOF):
		// the node's answer (judged when it was dialled)
		w.cnt("entry_route_returns_dial_error")
	default:
		q.strictTag = c15eStrictTag(res, e)
		if w.dials > 0 && errors.Is(err, ob.ErrNoAliveDialer) {
			w.cnt("entry_route_noalive_after_forced_unavailable")
		}
		return w.judge(q, nil, err, "route")
	}
	return nil
}

func (w *c15eWorld) onDial(idx int) (netproxy.Conn, error) {
	q := w.cur
	if q == nil {
		return nil, c15eErrInjected
	}
	w.dials++
	if w.pend == nil {
		w.pend = w.judge(q, w.nodes[idx], nil, fmt.Sprintf("route-dial%d", min(w.dials, 3)))
	}
	plan := "ok"
	if len(q.ev.Plan) > 0 {
		plan = q.ev.Plan[min(w.dials-1, len(q.ev.Plan)-1)]
	}
	switch plan {
	case "unreach":
		return nil, c15eErrUnreach
	case "notsuitable":
		return nil, c15eErrNotSuitable
	case "eof":
		return nil, io.EOF
	}
	return nil, nil
}

// ---- the relation ------------------------------------------------------------------

// judge decides one answer of the entry point: d is the node handed out / dialled (nil when an
// error was returned), read against the nodes' alive records of this very moment.
func (w *c15eWorld) judge(q *c15eReq, d *componentdialer.Dialer, err error, via string) *c15eViol {
	gi := q.gi
	g := w.groups[gi]
	pol := w.policy[gi]
	mem := g.Dialers
	pname := string(pol.Policy)
	excl := q.excl
	if pol.Policy == consts.DialerSelectionPolicy_Fixed {
		if pol.FixedIndex >= 0 && pol.FixedIndex < len(mem) {
			if d != mem[pol.FixedIndex] {
				return w.viol(q, "fixed-wrong-node", fmt.Sprintf("fixed(%d) answered %s err=%v (%s)", pol.FixedIndex, w.name(d), err, via))
			}
			w.cnt("entry_fixed_in_range")
			if d == excl {
				w.cnt("entry_fixed_returns_excluded_as_configured")
			}
		} else {
			if err == nil {
				return w.viol(q, "fixed-out-of-range-returns-node", fmt.Sprintf("fixed(%d) on %d nodes answered %s (%s)", pol.FixedIndex, len(mem), w.name(d), via))
			}
			w.cnt("entry_fixed_out_of_range_error")
		}
		if w.distinct != nil {
			w.distinct(fmt.Sprintf("fixed|%s|%s|%s|%v", q.ev.Net, q.strictTag, via, pol.FixedIndex >= 0 && pol.FixedIndex < len(mem)))
		}
		return nil
	}
	first := -1
	onlyExcludedAlive := false
	for k, t := range q.tried {
		alive, cands := w.candidates(gi, t, excl)
		if len(cands) > 0 {
			first = k
			break
		}
		if len(alive) > 0 {
			onlyExcludedAlive = true
		}
	}
	sigBase := fmt.Sprintf("%s|%s|%s|excl%v|%s|", pname, q.ev.Net, q.strictTag, excl != nil, via)
	if first < 0 {
		switch {
		case errors.Is(err, ob.ErrNoAliveDialer):
			w.cnt("entry_noalive_reported/" + q.ev.Net + "/" + q.strictTag)
			if onlyExcludedAlive {
				w.cnt("entry_noalive_only_alive_node_is_excluded")
			}
			if len(mem) == 1 {
				w.cnt("entry_single_node_noalive_instead_of_last_resort_recorded/" + q.strictTag)
			}
			if q.ev.Net == "tcp" && w.anyAliveOtherL4(gi) {
				w.cnt("entry_noalive_tcp_while_only_udp_types_alive")
			}
			if w.distinct != nil {
				w.distinct(sigBase + "noalive")
			}
		case err == nil && len(mem) == 1 && d == mem[0]:
			w.cnt("entry_single_node_last_resort/" + q.strictTag)
			if w.distinct != nil {
				w.distinct(sigBase + "lastresort")
			}
		case err == nil && d == excl:
			return w.viol(q, "excluded-returned", fmt.Sprintf("%s answered the excluded node %s in a %d-node group (%s)", pname, w.name(d), len(mem), via))
		case err == nil:
			return w.viol(q, "dead-node-returned", fmt.Sprintf("%s answered %s which is not recorded alive for any type of the documented order %v (%s)", pname, w.name(d), c15eNames(q.tried), via))
		default:
			return w.viol(q, "unexpected-error", fmt.Sprintf("error %v (%s)", err, via))
		}
		return nil
	}
	ft := q.tried[first]
	_, cands := w.candidates(gi, ft, excl)
	if err != nil {
		if errors.Is(err, ob.ErrNoAliveDialer) {
			lv := q.level[first]
			if q.unordered {
				lv = "client-and-destination-family-differ"
			}
			return w.viol(q, "noalive-while-alive-exists/"+q.ev.Net+"/"+lv, fmt.Sprintf("%s: the control plane reported %q although %s has non-excluded alive nodes %s (%s)",
				pname, err, c15eTypeNames[ft], w.names(cands), via))
		}
		return w.viol(q, "unexpected-error", fmt.Sprintf("error %v (%s)", err, via))
	}
	if !c15eIn(cands, d) {
		if d == excl && !(len(mem) == 1) {
			return w.viol(q, "excluded-returned", fmt.Sprintf("%s answered the excluded node %s in a %d-node group (%s)", pname, w.name(d), len(mem), via))
		}
		for k, t := range q.tried {
			if _, c := w.candidates(gi, t, excl); c15eIn(c, d) {
				if q.unordered && strings.HasPrefix(q.level[k], "otherfamily-") != strings.HasPrefix(q.level[first], "otherfamily-") {
					// a UDP flow whose client and destination families differ: which family is
					// asked first is dae's choice, only membership is judged
					w.cnt("entry_udp_family_mismatch_order_unjudged")
					return nil
				}
				return w.viol(q, "fallback-order/"+q.level[k]+"-before-"+q.level[first], fmt.Sprintf("%s answered %s (alive for %s) although the earlier type %s has non-excluded alive nodes %s (%s)",
					pname, w.name(d), c15eTypeNames[t], c15eTypeNames[ft], w.names(cands), via))
			}
		}
		if len(mem) == 1 && d == mem[0] {
			// the group's only node, excluded by the caller but alive: handed out as the last resort
			w.cnt("entry_single_node_last_resort_is_excluded")
			return nil
		}
		return w.viol(q, "dead-node-returned", fmt.Sprintf("%s answered %s which is not recorded alive for %s (candidates %s) nor for a later type (%s)", pname, w.name(d), c15eTypeNames[ft], w.names(cands), via))
	}
	w.cnt("entry_level/" + q.ev.Net + "/" + q.strictTag + "/" + q.level[first])
	if excl != nil && c15eIn(mem, excl) {
		w.cnt("entry_with_member_excluded")
	}
	if w.distinct != nil {
		w.distinct(sigBase + q.level[first])
	}
	if !c15eIsMin(pol.Policy) {
		w.cnt("entry_random_alive")
		return nil
	}
	// min policies: no alive node with a measurement beats the pick by the tolerance or more
	// (sorting latencies are dae's own: they contain an undocumented recovery penalty)
	tol := w.h.Groups[gi].Tol
	ntf := c15eNT(ft)
	set := g.MustGetAliveDialerSet(&ntf)
	if set == nil || w.samples[w.nodeIdx[d]][ft] == 0 {
		w.cnt("entry_min_pick_without_measurement_unjudged")
		return nil
	}
	sd := set.SortingLatency(d)
	for _, c := range cands {
		if c == d || w.samples[w.nodeIdx[c]][ft] == 0 {
			continue
		}
		sc := set.SortingLatency(c)
		if sc < sd && sd-sc >= tol {
			return w.viol(q, "min-beaten-by-tolerance", fmt.Sprintf("%s (tolerance %v) answered %s with sorting latency %v although alive measured %s has %v for %s (%s)",
				pname, tol, w.name(d), sd, w.name(c), sc, c15eTypeNames[ft], via))
		}
	}
	w.cnt("entry_min_relation_checked")
	return nil
}

// anyAliveOtherL4: some node of the group is recorded alive for a UDP type (a TCP flow must not use it).
func (w *c15eWorld) anyAliveOtherL4(gi int) bool {
	for t := 2; t < 6; t++ {
		if a, _ := w.candidates(gi, t, nil); len(a) > 0 {
			return true
		}
	}
	return false
}

// ---- replay ----------------------------------------------------------------------------

func c15eReplay(h *c15eHist, count func(string), distinct func(string)) (v *c15eViol) {
	var w *c15eWorld
	step := -1
	defer func() {
		if r := recover(); r != nil {
			v = &c15eViol{Sig: "entry/panic", What: fmt.Sprint(r), Step: step, Detail: map[string]any{}}
		}
		if w != nil {
			w.close()
		}
	}()
	w = c15eNewWorld(h)
	w.count, w.distinct = count, distinct
	for i, e := range h.Ev {
		step = i
		if v := w.apply(i, e); v != nil {
			return v
		}
		if e.K != "choose" && e.K != "route" {
			w.cnt("entry_event/" + e.K)
		}
	}
	return nil
}

// ---- generator ------------------------------------------------------------------------------

var c15eLat = []time.Duration{time.Millisecond, 10 * time.Millisecond, 49 * time.Millisecond, 50 * time.Millisecond, 51 * time.Millisecond,
	100 * time.Millisecond, 101 * time.Millisecond, 150 * time.Millisecond, time.Second, 10 * time.Second, 11 * time.Second}
var c15eOff = []time.Duration{0, 0, 0, 50 * time.Millisecond, -50 * time.Millisecond, time.Second, -10 * time.Millisecond}
var c15eTol = []time.Duration{0, time.Millisecond, 50 * time.Millisecond, 10 * time.Second}
var c15ePolicies = []string{"random", "fixed", "min", "min_avg10", "min_moving_avg"}
var c15eDomains = []string{"", "example.org", "cdn.example.org", "example.org:8443", "203.0.113.9", "[2001:db8::5]", "2001:db8::5"}

func c15eGen(r *rand.Rand) *c15eHist {
	h := &c15eHist{}
	switch k := r.IntN(20); {
	case k < 3:
		h.Nodes = 1
	case k < 8:
		h.Nodes = 2
	default:
		h.Nodes = 3 + r.IntN(3)
	}
	ng := 1
	if r.IntN(4) == 0 {
		ng = 2
	}
	pol := func() (string, int) {
		p := c15ePolicies[r.IntN(len(c15ePolicies))]
		if r.IntN(3) == 0 {
			p = c15ePolicies[2+r.IntN(3)]
		}
		if r.IntN(8) == 0 {
			return p, r.IntN(h.Nodes+2) - 1
		}
		return p, r.IntN(h.Nodes)
	}
	for g := 0; g < ng; g++ {
		gs := c15eGroupSpec{Tol: c15eTol[r.IntN(len(c15eTol))]}
		if ng == 1 || r.IntN(2) == 0 {
			for i := 0; i < h.Nodes; i++ {
				gs.Members = append(gs.Members, i)
			}
		} else {
			for i := 0; i < h.Nodes; i++ {
				if r.IntN(2) == 0 {
					gs.Members = append(gs.Members, i)
				}
			}
			if len(gs.Members) == 0 {
				gs.Members = []int{r.IntN(h.Nodes)}
			}
		}
		r.Shuffle(len(gs.Members), func(i, j int) { gs.Members[i], gs.Members[j] = gs.Members[j], gs.Members[i] })
		for range gs.Members {
			gs.Offsets = append(gs.Offsets, c15eOff[r.IntN(len(c15eOff))])
		}
		gs.Policy, gs.Fixed = pol()
		h.Groups = append(h.Groups, gs)
	}
	// the history concentrates on one kind of flow and on the documented order of types for it
	focusNet := []string{"tcp", "udp"}[r.IntN(2)]
	focusFam := r.IntN(2)
	var chain []int
	if focusNet == "tcp" {
		chain = []int{0 + focusFam, 0 + (1 - focusFam)}
	} else {
		chain = []int{4 + focusFam, 2 + focusFam, 0 + focusFam, 4 + (1 - focusFam), 2 + (1 - focusFam), 0 + (1 - focusFam)}
	}
	dead := func(n, t int) { h.Ev = append(h.Ev, c15eEv{K: "forced_dead", N: n, T: t}) }
	focusTypes := []int{chain[0], chain[len(chain)-1], r.IntN(6)}
	// prelude: the table the first queries see
	switch k := r.IntN(20); {
	case k < 4: // independent cells
		for n := 0; n < h.Nodes; n++ {
			for t := 0; t < 6; t++ {
				if r.IntN(5) < 2 {
					dead(n, t)
				}
			}
		}
	case k < 12: // every type before chain[survivor] has no alive node (sometimes one leaks)
		survivor := r.IntN(len(chain) + 1)
		leak := r.IntN(4) == 0
		for i := 0; i < survivor; i++ {
			for n := 0; n < h.Nodes; n++ {
				if !leak || r.IntN(6) != 0 {
					dead(n, chain[i])
				}
			}
		}
		if survivor < len(chain) {
			focusTypes = []int{chain[survivor], chain[min(survivor+1, len(chain)-1)], chain[max(survivor-1, 0)]}
			// thin out the survivor type so that exclusion matters
			for n := 0; n < h.Nodes; n++ {
				if r.IntN(3) == 0 {
					dead(n, chain[survivor])
				}
			}
		}
	case k < 15: // nothing alive at all, perhaps one cell
		for n := 0; n < h.Nodes; n++ {
			for t := 0; t < 6; t++ {
				dead(n, t)
			}
		}
		if r.IntN(2) == 0 {
			h.Ev = append(h.Ev, c15eEv{K: "sample", N: r.IntN(h.Nodes), T: r.IntN(6), Lat: c15eLat[r.IntN(len(c15eLat))]})
		}
	case k < 18: // alive only for the other L4 protocol's own types
		for n := 0; n < h.Nodes; n++ {
			if focusNet == "tcp" {
				dead(n, 0)
				dead(n, 1)
			} else {
				dead(n, 2)
				dead(n, 3)
				dead(n, 4)
				dead(n, 5)
				if r.IntN(2) == 0 {
					dead(n, 0+focusFam)
				}
			}
		}
	default: // one node carries everything
		keep := r.IntN(h.Nodes)
		for n := 0; n < h.Nodes; n++ {
			if n == keep {
				continue
			}
			for t := 0; t < 6; t++ {
				dead(n, t)
			}
		}
		for t := 0; t < 6; t++ {
			if r.IntN(3) == 0 {
				dead(keep, t)
			}
		}
	}
	pickT := func() int {
		if r.IntN(10) < 8 {
			return focusTypes[r.IntN(len(focusTypes))]
		}
		return r.IntN(6)
	}
	pickN := func() int { return r.IntN(h.Nodes) }
	qry := func() c15eEv {
		e := c15eEv{K: "choose", G: r.IntN(ng), Net: focusNet, DstFam: focusFam, Excl: -1}
		if r.IntN(10) < 3 {
			e.Net = []string{"tcp", "udp"}[r.IntN(2)]
		}
		if r.IntN(10) < 3 {
			e.DstFam = r.IntN(2)
		}
		e.SrcFam = e.DstFam
		if r.IntN(8) == 0 {
			e.SrcFam = 1 - e.DstFam
		}
		if e.DstFam == 0 && r.IntN(16) == 0 {
			e.Mapped = true
		}
		e.DialMode = string(consts.DialMode_Ip)
		if r.IntN(10) < 6 {
			e.DialMode = string(consts.DialMode_DomainPlus)
		}
		e.Domain = c15eDomains[r.IntN(len(c15eDomains))]
		if r.IntN(2) == 0 {
			e.Domain = c15eDomains[1+r.IntN(2)]
		}
		if r.IntN(2) == 0 {
			e.Excl = pickN()
		}
		if e.Net == "tcp" && r.IntN(4) == 0 {
			e.K = "route"
			switch r.IntN(6) {
			case 0:
				e.Plan = []string{"ok"}
			case 1:
				e.Plan = []string{"eof"}
			case 2:
				e.Plan = []string{"unreach", "ok"}
			case 3:
				e.Plan = []string{"unreach", "unreach"}
			case 4:
				e.Plan = []string{"notsuitable", "eof"}
			default:
				e.Plan = []string{"unreach", "eof"}
			}
		}
		return e
	}
	for n := 2 + r.IntN(4); n > 0; n-- {
		h.Ev = append(h.Ev, qry())
	}
	L := len(h.Ev) + 15 + r.IntN(50)
	for len(h.Ev) < L {
		k := r.IntN(100)
		var e c15eEv
		switch {
		case k < 40:
			e = c15eEv{K: "sample", N: pickN(), T: pickT(), Lat: c15eLat[r.IntN(len(c15eLat))]}
		case k < 78:
			e = c15eEv{K: "forced_dead", N: pickN(), T: pickT()}
		case k < 85:
			e = c15eEv{K: "probe_fail", N: pickN(), T: pickT()}
		case k < 91:
			e = c15eEv{K: "traffic_alive", N: pickN(), T: 4 + r.IntN(2)}
		default:
			e = c15eEv{K: "set_policy", G: r.IntN(ng)}
			e.Policy, e.Fixed = pol()
		}
		h.Ev = append(h.Ev, e)
		for n := r.IntN(5); n > 0; n-- {
			h.Ev = append(h.Ev, qry())
		}
	}
	return h
}

// c15eMinimize drops events (chunks first) while the same structural signature fires. The random
// policy draws from dae's unseeded generator, so a candidate is tried a few times before it is given up.
func c15eMinimize(h *c15eHist, sig string) *c15eHist {
	fires := func(q *c15eHist) *c15eViol {
		for k := 0; k < 3; k++ {
			if v := c15eReplay(q, nil, nil); v != nil && v.Sig == sig {
				return v
			}
		}
		return nil
	}
	cur := *h
	cur.Ev = append([]c15eEv(nil), h.Ev...)
	if v := fires(&cur); v != nil && v.Step+1 < len(cur.Ev) {
		cur.Ev = cur.Ev[:v.Step+1]
	}
	budget := 1500
	try := func(i, chunk int) bool {
		q := cur
		q.Ev = append(append([]c15eEv(nil), cur.Ev[:i]...), cur.Ev[i+chunk:]...)
		budget--
		if fires(&q) != nil {
			cur = q
			return true
		}
		return false
	}
	for chunk := len(cur.Ev) / 2; chunk >= 1 && budget > 0; chunk /= 2 {
		for i := 0; i+chunk <= len(cur.Ev) && budget > 0; {
			if !try(i, chunk) {
				i += chunk
			}
		}
	}
	return &cur
}

func TestVerifC15Entry(t *testing.T) {
	m := vk.NewMonitor("C15", "entry", "exploration",
		"generated histories (20-100 events) over 1-5 real dialer nodes in 1-2 real DialerGroups installed in a ControlPlane's outbound table: a prelude that builds an alive table per (node, network type) "+
			"(independent cells / every type of the documented order before a survivor dead / nothing alive / alive only for the other L4 protocol / one node carries everything), then forced deaths, latency samples, probe failures, traffic revivals and policy switches, "+
			"interleaved with ControlPlane.chooseProxyDialer (tcp/udp, v4/v6/4in6 destinations, v4/v6 clients, dial_mode ip and domain+ with host-name / IP-literal / empty domains, with/without an excluded node) and ControlPlane.routeDial (tcp, generated node answers); "+
			"distinct = (policy, L4 protocol, strict or not, exclusion, entry point / dial attempt, level of the documented order that supplied the node or 'no alive' / last resort); every one is a judged answer on a populated group")
	m.SetFloor(120)
	m.Assume("'recorded alive' is the node's own per-type record (Dialer.MustGetAlive) read at the moment of the answer (inside the fake node's DialContext for routeDial)",
		"the type a flow asks for is (L4 protocol, IP family of the destination; for UDP the family of the client) as documented in control/dial.go; when a UDP flow's client and destination families differ only membership in the documented types is judged, not which family comes first",
		"the other IP family is a documented fallback at this entry point for strict (dial by IP) and non-strict selections alike: the group tries it itself when not strict (dialer_group.go), chooseProxyDialer tries it after a failed selection (dial.go)",
		"a single-node group may answer either with its only node (last resort) or with 'no alive dialer' when nothing is alive: recorded, not judged; which selection/admission network type the result reports is recorded, not judged",
		"whether a call is strict is taken from the result (IsDialIp) for the counters only; the verdict does not depend on it",
		"sorting latencies of the min policies are dae's own (AliveDialerSet.SortingLatency) as in the main C15 monitor; single goroutine")
	r := vk.NewRand(0xC15E)
	n := vk.Scale(2500, 60000)
	reported := map[string]bool{}
	for i := 0; i < n && m.Violations() < 5; i++ {
		h := c15eGen(r)
		v := c15eReplay(h, func(s string) { m.Count(s, 1) }, m.Distinct)
		nq := 0
		for _, e := range h.Ev {
			if e.K == "choose" || e.K == "route" {
				nq++
			}
		}
		m.Eval(nq)
		m.Count("entry_histories", 1)
		if v == nil {
			if m.WantSample() && i%97 == 0 {
				var evs []string
				for _, e := range h.Ev[:min(len(h.Ev), 25)] {
					evs = append(evs, e.String())
				}
				m.Sample(map[string]any{"nodes": h.Nodes, "groups": h.Groups, "first_events": evs, "events": len(h.Ev)})
			}
			continue
		}
		if reported[v.Sig] {
			m.Count("further_witnesses/"+v.Sig, 1)
			continue
		}
		reported[v.Sig] = true
		mh := c15eMinimize(h, v.Sig)
		v2 := c15eReplay(mh, nil, nil)
		if v2 == nil || v2.Sig != v.Sig {
			mh, v2 = h, v
		}
		var evs []string
		for _, e := range mh.Ev {
			evs = append(evs, e.String())
		}
		m.Violation(v2.Sig, v2.What, map[string]any{"nodes": mh.Nodes, "groups": mh.Groups, "events": evs, "failing_step": v2.Step,
			"detail": v2.Detail, "history": mh, "original_events": len(h.Ev)})
	}
	m.Require("entry_choose/random", "entry_choose/fixed", "entry_choose/min", "entry_choose/min_avg10", "entry_choose/min_moving_avg",
		"entry_choose_tcp_strict", "entry_choose_tcp_nonstrict", "entry_choose_udp_strict", "entry_choose_udp_nonstrict",
		"entry_level/tcp/strict/primary", "entry_level/tcp/nonstrict/primary", "entry_level/udp/strict/primary", "entry_level/udp/nonstrict/primary",
		"entry_level/udp/strict/dnsudp", "entry_level/udp/strict/tcp", "entry_level/udp/nonstrict/dnsudp", "entry_level/udp/nonstrict/tcp",
		"entry_level/tcp/strict/otherfamily-primary", "entry_level/tcp/nonstrict/otherfamily-primary",
		"entry_level/udp/strict/otherfamily-primary", "entry_level/udp/strict/otherfamily-dnsudp", "entry_level/udp/strict/otherfamily-tcp",
		"entry_level/udp/nonstrict/otherfamily-primary", "entry_level/udp/nonstrict/otherfamily-dnsudp", "entry_level/udp/nonstrict/otherfamily-tcp",
		"entry_noalive_reported/tcp/strict", "entry_noalive_reported/tcp/nonstrict", "entry_noalive_reported/udp/strict", "entry_noalive_reported/udp/nonstrict",
		"entry_noalive_tcp_while_only_udp_types_alive", "entry_noalive_only_alive_node_is_excluded", "entry_single_node_last_resort/strict",
		"entry_with_member_excluded", "entry_min_relation_checked", "entry_random_alive", "entry_fixed_in_range",
		"entry_route/random", "entry_route/min", "entry_route_dial_attempts/1", "entry_route_dial_attempts/2", "entry_route_retry_after_forced_unavailable",
		"entry_route_noalive_after_forced_unavailable",
		"entry_event/sample", "entry_event/forced_dead", "entry_event/set_policy")
	m.Done(t)
}
