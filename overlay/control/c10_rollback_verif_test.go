package control

// C10 monitor, part "rollback": the REAL (*ControlPlane).RebuildReloadDatapath
// against REAL kernel BPF maps.
//
// After a failed staged reload cmd/run.go closes the new generation and calls
// oldControlPlane.RebuildReloadDatapath(): the old generation rebuilds the
// routing maps, empties the shared domain_routing_map (which the failed
// generation may have refilled from ITS tracker/routing program) and replays
// its DNS cache. The statement of C10 then has to hold on the kernel table
// again: for every address exactly the union of the bitmaps of the live cache
// entries that list it, and nothing else.
//
// Part "main" transcribes the body of that function over a shadow table; this
// part calls the function itself. Everything it needs is real: domain_routing_map,
// routing_map, routing_meta_map, lpm_array_map (+ unused_lpm_type) are created
// with bpf(2) with the key/value sizes, flags and max_entries of
// control/kern/tproxy.c; the table is read back with a map iteration as raw
// bytes and compared with a reference folded from the DnsController's cache
// only.

import (
	"context"
	"errors"
	"fmt"
	"math/rand/v2"
	"net/netip"
	"sort"
	"strings"
	"sync"
	"testing"
	"unsafe"

	"github.com/cilium/ebpf"
	"github.com/cilium/ebpf/rlimit"
	"github.com/daeuniverse/dae/common/consts"
	componentdns "github.com/daeuniverse/dae/component/dns"
	vk "github.com/daeuniverse/dae/verifkit"
	dnsmessage "github.com/miekg/dns"
	"github.com/sirupsen/logrus"
	"golang.org/x/sys/unix"
)

// ---- real maps ---------------------------------------------------------------

const c10rbNoPrealloc = 1 // BPF_F_NO_PREALLOC

var c10rbMemlockOnce sync.Once

type c10rbMaps struct {
	domain, routing, meta, lpmArray, lpmType *ebpf.Map
}

func (x *c10rbMaps) close() {
	for _, m := range []*ebpf.Map{x.domain, x.routing, x.meta, x.lpmArray, x.lpmType} {
		if m != nil {
			_ = m.Close()
		}
	}
}

func (x *c10rbMaps) objects() *bpfObjects {
	return &bpfObjects{bpfMaps: bpfMaps{
		DomainRoutingMap: x.domain,
		RoutingMap:       x.routing,
		RoutingMetaMap:   x.meta,
		LpmArrayMap:      x.lpmArray,
		UnusedLpmType:    x.lpmType,
	}}
}

// c10rbMapSpecs: the definitions of control/kern/tproxy.c, sizes taken from the Go types the
// production code marshals into them.
func c10rbMapSpecs() map[string]*ebpf.MapSpec {
	lpm := &ebpf.MapSpec{Name: "c10_lpm_type", Type: ebpf.LPMTrie, Flags: c10rbNoPrealloc,
		KeySize: uint32(unsafe.Sizeof(_bpfLpmKey{})), ValueSize: 4, MaxEntries: 2048000} // MAX_LPM_SIZE
	return map[string]*ebpf.MapSpec{
		"domain_routing_map": {Name: "c10_domain_rt", Type: ebpf.Hash, Flags: c10rbNoPrealloc,
			KeySize: uint32(unsafe.Sizeof([4]uint32{})), ValueSize: uint32(unsafe.Sizeof(bpfDomainRouting{})), MaxEntries: 65536}, // MAX_DOMAIN_ROUTING_NUM
		"routing_map": {Name: "c10_routing", Type: ebpf.Array,
			KeySize: 4, ValueSize: uint32(unsafe.Sizeof(bpfMatchSet{})), MaxEntries: uint32(consts.MaxMatchSetLen)},
		"routing_meta_map": {Name: "c10_routing_meta", Type: ebpf.Array, KeySize: 4, ValueSize: 4, MaxEntries: 1},
		"unused_lpm_type":  lpm,
		"lpm_array_map": {Name: "c10_lpm_array", Type: ebpf.ArrayOfMaps, KeySize: 4, ValueSize: 4,
			MaxEntries: uint32(consts.MaxMatchSetLen) + 8, InnerMap: lpm.Copy()}, // MAX_LPM_NUM
	}
}

func c10rbNewMaps() (x *c10rbMaps, err error) {
	c10rbMemlockOnce.Do(func() { _ = rlimit.RemoveMemlock() })
	specs := c10rbMapSpecs()
	x = &c10rbMaps{}
	defer func() {
		if err != nil {
			x.close()
			x = nil
		}
	}()
	for _, it := range []struct {
		name string
		dst  **ebpf.Map
	}{{"domain_routing_map", &x.domain}, {"routing_map", &x.routing}, {"routing_meta_map", &x.meta},
		{"unused_lpm_type", &x.lpmType}, {"lpm_array_map", &x.lpmArray}} {
		if *it.dst, err = ebpf.NewMap(specs[it.name]); err != nil {
			return x, fmt.Errorf("create %s: %w", it.name, err)
		}
	}
	return x, nil
}

// c10rbDump reads the kernel table back as raw bytes (no dae type involved).
func c10rbDump(m *ebpf.Map) (map[c10Key]c10Bm, error) {
	out := map[c10Key]c10Bm{}
	var k c10Key
	var v c10Bm
	it := m.Iterate()
	for it.Next(&k, &v) {
		out[k] = v
	}
	return out, it.Err()
}

func c10rbWipe(m *ebpf.Map) error {
	cur, err := c10rbDump(m)
	if err != nil {
		return err
	}
	for k := range cur {
		if err := m.Delete(k); err != nil && !errors.Is(err, ebpf.ErrKeyNotExist) {
			return err
		}
	}
	return nil
}

// ---- generated cases ----------------------------------------------------------

var c10rbNames = []string{"a.x.test.", "b.x.test.", "c.y.test.", "d.y.test.", "e.z.test.", "n.other."} // the last one matches no pattern

var c10rbV4 = []string{"0.0.0.0", "192.0.2.1", "192.0.2.2", "198.51.100.7", "203.0.113.9", "10.1.2.3"}
var c10rbV6 = []string{"::", "2001:db8::1", "2001:db8::2", "::ffff:192.0.2.1", "fd00::53"}

// addresses no generated answer uses: what only a foreign writer can have left in the table
var c10rbForeign = []string{"192.0.2.99", "172.16.0.1", "2001:db8:ffff::1"}

var c10rbCidrs = []string{"10.0.0.0/8", "192.0.2.0/24", "198.51.100.0/24", "'2001:db8::/32'", "'fd00::/8'", "203.0.113.9/32", "172.16.0.0/12"}

type c10rbOp struct {
	Kind  string   `json:"op"` // store | remove
	Name  string   `json:"name"`
	Qtype uint16   `json:"qtype"`
	Scope int      `json:"scope"` // index into c10Resolvers, 0 = unscoped key
	Addrs []string `json:"addrs,omitempty"`
	Ttl   uint32   `json:"ttl,omitempty"`
	Cname bool     `json:"cname,omitempty"`
}

func (o c10rbOp) String() string {
	s := fmt.Sprintf("%s %s type=%d scope=%q", o.Kind, o.Name, o.Qtype, c10Resolvers[o.Scope])
	if o.Kind == "store" {
		s += fmt.Sprintf(" answer=%v ttl=%d cname=%v", o.Addrs, o.Ttl, o.Cname)
	}
	return s
}

type c10rbGarbage struct {
	Addr   string `json:"addr"`
	Bitmap string `json:"bitmap"`
	bm     c10Bm
}

type c10rbCase struct {
	Prog       string         `json:"routing_program_of_the_serving_generation"`
	FailedProg string         `json:"routing_program_of_the_failed_generation"`
	Mode       string         `json:"what_the_failed_generation_left"`
	Before     []c10rbOp      `json:"ops_before_the_reload"`
	During     []c10rbOp      `json:"ops_served_while_the_new_generation_was_prepared"`
	Garbage    []c10rbGarbage `json:"foreign_table_entries_left_behind,omitempty"`
	After      []c10rbOp      `json:"ops_after_the_rollback"`
}

// c10rbModes: what the table looks like when RebuildReloadDatapath is called.
//
//	failed-generation-committed  the new generation (other routing program, own tracker and
//	                             DnsController, SAME bpf objects) rebuilt the routing maps, cleared the
//	                             table and replayed the cloned cache (CommitPreparedDatapath order), then
//	                             was closed
//	wiped+foreign-entries        table emptied, a few entries written behind every tracker's back
//	committed+foreign-entries    both
//	untouched                    the new generation failed before it committed anything
var c10rbModes = []string{"failed-generation-committed", "wiped+foreign-entries", "committed+foreign-entries", "untouched"}

func c10rbGenProgText(r *rand.Rand) string {
	var b strings.Builder
	b.WriteString("routing {\n")
	cidrs := func() string {
		k := 1 + r.IntN(3)
		ps := make([]string, 0, k)
		for _, i := range r.Perm(len(c10rbCidrs))[:k] {
			ps = append(ps, c10rbCidrs[i])
		}
		return strings.Join(ps, ", ")
	}
	other := func() {
		switch r.IntN(3) {
		case 0:
			fmt.Fprintf(&b, "  dport(%d) -> direct\n", 1000+r.IntN(50))
		case 1:
			fmt.Fprintf(&b, "  dip(%s) -> %s\n", cidrs(), verifGroups[r.IntN(len(verifGroups))])
		default:
			fmt.Fprintf(&b, "  sip(%s) -> %s\n", cidrs(), verifGroups[r.IntN(len(verifGroups))])
		}
	}
	switch x := r.IntN(10); {
	case x == 0: // no domain rule: every name has the all-zero bitmap
		other()
		other()
	case x == 1: // every *.test name has the same one-bit bitmap
		b.WriteString("  domain(suffix: test) -> " + verifGroups[0] + "\n")
		other()
	default:
		n := 1 + r.IntN(5)
		for i := 0; i < n; i++ {
			if r.IntN(2) == 0 { // shifts the bit index of the following rules, adds LPM tries
				other()
			}
			k := 1 + r.IntN(2)
			ps := make([]string, 0, k)
			for j := 0; j < k; j++ {
				ps = append(ps, c10Patterns[r.IntN(len(c10Patterns))])
			}
			fmt.Fprintf(&b, "  domain(%s) -> %s\n", strings.Join(ps, ", "), verifGroups[r.IntN(len(verifGroups))])
		}
	}
	b.WriteString("  fallback: direct\n}\n")
	return b.String()
}

func c10rbGenAddrs(r *rand.Rand, qtype uint16) []string {
	pool, other := c10rbV4, c10rbV6
	if qtype == dnsmessage.TypeAAAA {
		pool, other = c10rbV6, c10rbV4
	}
	n := []int{0, 1, 1, 2, 2, 2, 3}[r.IntN(7)]
	var out []string
	for _, i := range r.Perm(len(pool))[:n] {
		out = append(out, pool[i])
	}
	if r.IntN(10) == 0 { // hostile upstream: an address RR of the other family
		out = append(out, other[r.IntN(len(other))])
	}
	return out
}

type c10rbTuple struct {
	name  string
	qtype uint16
	scope int
}

func c10rbGenOps(r *rand.Rand, n int, names []string, nScopes int, stored *[]c10rbTuple) []c10rbOp {
	var ops []c10rbOp
	for i := 0; i < n; i++ {
		if len(*stored) > 0 && r.IntN(6) == 0 {
			t := (*stored)[r.IntN(len(*stored))]
			ops = append(ops, c10rbOp{Kind: "remove", Name: t.name, Qtype: t.qtype, Scope: t.scope})
			continue
		}
		t := c10rbTuple{name: names[r.IntN(len(names))], qtype: dnsmessage.TypeA, scope: r.IntN(nScopes + 1)}
		if r.IntN(2) == 0 {
			t.qtype = dnsmessage.TypeAAAA
		}
		*stored = append(*stored, t)
		ops = append(ops, c10rbOp{Kind: "store", Name: t.name, Qtype: t.qtype, Scope: t.scope,
			Addrs: c10rbGenAddrs(r, t.qtype), Ttl: []uint32{300, 600, 3600}[r.IntN(3)], Cname: r.IntN(10) == 0})
	}
	return ops
}

func c10rbGenCase(r *rand.Rand) *c10rbCase {
	c := &c10rbCase{Prog: c10rbGenProgText(r), FailedProg: c10rbGenProgText(r), Mode: c10rbModes[r.IntN(len(c10rbModes))]}
	names := make([]string, 0, 6)
	for _, i := range r.Perm(len(c10rbNames))[:2+r.IntN(5)] {
		names = append(names, c10rbNames[i])
	}
	nScopes := 1 + r.IntN(2)
	var stored []c10rbTuple
	c.Before = c10rbGenOps(r, 3+r.IntN(10), names, nScopes, &stored)
	if r.IntN(3) == 0 {
		c.During = c10rbGenOps(r, 1+r.IntN(2), names, nScopes, &stored)
	}
	if strings.Contains(c.Mode, "foreign-entries") {
		pool := append(append(append([]string(nil), c10rbV4[1:]...), c10rbV6[1:]...), c10rbForeign...)
		for _, i := range r.Perm(len(pool))[:1+r.IntN(4)] {
			g := c10rbGarbage{Addr: pool[i]}
			for k := 1 + r.IntN(3); k > 0; k-- {
				g.bm[r.IntN(2)] |= 1 << uint(r.IntN(32))
			}
			g.Bitmap = c10BmStr(g.bm)
			c.Garbage = append(c.Garbage, g)
		}
	}
	c.After = c10rbGenOps(r, r.IntN(4), names, nScopes, &stored)
	// The serving generation has published NOTHING (its tracker is exactly empty: no domain rule matches
	// a cached name, or nothing is cached yet) while the failed generation, whose rules do match, or a
	// foreign writer filled the table: the rollback still has to empty it.
	if r.IntN(5) == 0 {
		if r.IntN(3) != 0 {
			c.Prog = "routing {\n  dport(1001) -> direct\n  dip(10.0.0.0/8) -> " + verifGroups[1] + "\n  fallback: direct\n}\n"
		} else {
			c.Before = nil
			stored = nil
			c.After = c10rbGenOps(r, r.IntN(4), names, nScopes, &stored)
		}
		if r.IntN(2) == 0 {
			c.FailedProg = "routing {\n  domain(suffix: test) -> " + verifGroups[0] + "\n  fallback: direct\n}\n"
		}
		if c.Mode == "untouched" {
			c.Mode = c10rbModes[r.IntN(3)]
			if strings.Contains(c.Mode, "foreign-entries") && len(c.Garbage) == 0 {
				pool := append(append(append([]string(nil), c10rbV4[1:]...), c10rbV6[1:]...), c10rbForeign...)
				for _, i := range r.Perm(len(pool))[:1+r.IntN(4)] {
					g := c10rbGarbage{Addr: pool[i]}
					g.bm[0] = 1 << uint(r.IntN(32))
					g.Bitmap = c10BmStr(g.bm)
					c.Garbage = append(c.Garbage, g)
				}
			}
		}
	}
	return c
}

// ---- one generation built by hand around real bpf objects ----------------------

type c10rbGen struct {
	cp     *ControlPlane
	ctrl   *DnsController
	core   *controlPlaneCore
	built  *verifBuilt
	cancel context.CancelFunc
	closed bool
}

func (g *c10rbGen) close() {
	if g == nil || g.closed {
		return
	}
	g.closed = true
	if g.cp != nil {
		_ = g.cp.closeOwnedDNSController()
	}
	if g.cancel != nil {
		g.cancel()
	}
}

// c10rbNewGen: the fields RebuildReloadDatapath, dnsControllerOption, CloneDnsCache and
// replayDnsReloadCache read; DnsController from the production constructor and option closure.
func c10rbNewGen(log *logrus.Logger, routing *componentdns.Dns, progText string, bpf *bpfObjects, pending map[string]*DnsCache) (*c10rbGen, error) {
	rules, fb, err := verifParseRouting(progText)
	if err != nil {
		return nil, err
	}
	built, err := verifBuildMatcher(rules, fb, verifProductionOptimizers()...)
	if err != nil {
		return nil, err
	}
	core := &controlPlaneCore{log: log, domainRouting: newDomainRoutingTracker()}
	core.bpf.Store(bpf)
	ctx, cancel := context.WithCancel(context.Background())
	cp := &ControlPlane{log: log, core: core, ctx: ctx, ready: make(chan struct{})}
	cp.routingMatcher = built.matcher
	cp.routingKernspaceSnapshot = built.snap
	cp.dnsRouting = routing
	cp.dnsFixedDomainTtl = map[string]int{}
	cp.sharedBpfReload = pending != nil
	cp.pendingDnsReloadCache = pending
	opt := cp.dnsControllerOption()
	ctrl, err := NewDnsController(routing, opt)
	if err != nil {
		cancel()
		return nil, err
	}
	cp.dnsController = ctrl
	cp.markReady()
	return &c10rbGen{cp: cp, ctrl: ctrl, core: core, built: built, cancel: cancel}, nil
}

// commitRouting: what CommitPreparedDatapath does with the routing snapshot.
func (g *c10rbGen) commitRouting(log *logrus.Logger) error {
	idx, err := g.cp.routingKernspaceSnapshot.BuildKernspace(log, g.core.bpf.Load())
	if err != nil {
		return err
	}
	g.core.lpmTrieIndices = idx
	return nil
}

func c10rbKey(ctrl *DnsController, o *c10rbOp) string {
	base := ctrl.cacheKey(o.Name, o.Qtype)
	if o.Scope == 0 {
		return base
	}
	req := &udpRequest{realSrc: netip.MustParseAddrPort("192.0.2.200:40000"), realDst: netip.MustParseAddrPort(c10Resolvers[o.Scope]), routingResult: &bpfRoutingResult{}}
	return ctrl.responseCacheKey(base, req, consts.DnsRequestOutboundIndex_AsIs, nil)
}

func c10rbApply(ctrl *DnsController, o *c10rbOp) error {
	switch o.Kind {
	case "store": // the function dialSend calls with the upstream's reply
		q := new(dnsmessage.Msg)
		q.SetQuestion(o.Name, o.Qtype)
		resp, err := c10Response(q, &c10Answer{Addrs: o.Addrs, Ttl: o.Ttl, Cname: o.Cname})
		if err != nil {
			return err
		}
		return ctrl.NormalizeAndCacheDnsResp_(resp, c10rbKey(ctrl, o))
	case "remove":
		ctrl.RemoveDnsRespCache(c10rbKey(ctrl, o))
	}
	return nil
}

// ---- oracle --------------------------------------------------------------------

type c10rbRef struct {
	R        map[c10Key]c10Bm            // address -> OR of the non-zero bitmaps of the live entries listing it
	listed   map[c10Key]struct{}         // every non-unspecified address a live entry lists
	owners   map[c10Key]map[string]c10Bm // owners with a non-zero bitmap
	dump     map[string]any
	entries  int
	zeroEnts int
}

func c10rbReference(ctrl *DnsController) *c10rbRef {
	ref := &c10rbRef{R: map[c10Key]c10Bm{}, listed: map[c10Key]struct{}{}, owners: map[c10Key]map[string]c10Bm{}, dump: map[string]any{}}
	ctrl.dnsCache.Range(func(k, v any) bool {
		key, _ := k.(string)
		cache, _ := v.(*DnsCache)
		if cache == nil {
			return true
		}
		ref.entries++
		var bm c10Bm
		copy(bm[:], cache.DomainBitmap)
		zero := bm == c10Bm{}
		if zero {
			ref.zeroEnts++
		}
		var addrs []string
		for _, rr := range cache.Answer {
			a, ok, unspec := c10AddrOfRR(rr)
			if !ok || unspec {
				continue
			}
			addrs = append(addrs, c10Addr(a))
			ref.listed[a] = struct{}{}
			if zero {
				continue
			}
			cur := ref.R[a]
			for i := range cur {
				cur[i] |= bm[i]
			}
			ref.R[a] = cur
			if ref.owners[a] == nil {
				ref.owners[a] = map[string]c10Bm{}
			}
			ref.owners[a][key] = bm
		}
		ref.dump[key] = map[string]any{"addrs": addrs, "bitmap": c10BmStr(bm)}
		return true
	})
	return ref
}

type c10rbDiff struct {
	stale, missing, mismatch []string
	equal, zeroTolerated     int
}

func (d *c10rbDiff) bad() bool { return len(d.stale)+len(d.missing)+len(d.mismatch) > 0 }
func (d *c10rbDiff) kind() string {
	switch {
	case len(d.missing) > 0:
		return "missing-address"
	case len(d.stale) > 0:
		return "stale-address"
	default:
		return "bitmap-mismatch"
	}
}

func c10rbCompare(table map[c10Key]c10Bm, ref *c10rbRef) *c10rbDiff {
	d := &c10rbDiff{}
	for k, tv := range table {
		rv, ok := ref.R[k]
		_, isListed := ref.listed[k]
		switch {
		case !ok && isListed && tv == (c10Bm{}):
			// an all-zero entry for an address whose live owners all have the zero bitmap says the
			// same as no entry (same reading as part main)
			d.zeroTolerated++
		case !ok:
			d.stale = append(d.stale, c10Addr(k)+"="+c10BmStr(tv))
		case rv != tv:
			d.mismatch = append(d.mismatch, fmt.Sprintf("%s table=%s cache=%s", c10Addr(k), c10BmStr(tv), c10BmStr(rv)))
		default:
			d.equal++
		}
	}
	for k, rv := range ref.R {
		if _, ok := table[k]; !ok {
			d.missing = append(d.missing, c10Addr(k)+"="+c10BmStr(rv))
		}
	}
	sort.Strings(d.stale)
	sort.Strings(d.missing)
	sort.Strings(d.mismatch)
	return d
}

func c10rbTableDump(t map[c10Key]c10Bm) map[string]string {
	out := map[string]string{}
	for k, v := range t {
		out[c10Addr(k)] = c10BmStr(v)
	}
	return out
}

// ---- running one case ------------------------------------------------------------

type c10rbEnv struct {
	m       *vk.Monitor
	log     *logrus.Logger
	routing *componentdns.Dns
	bar     *c10World // only its barrier() is used (pushes a marker task through dae's own bpf-update queue)
}

type c10rbOutcome struct {
	nonTrivial bool
	sig        string
}

func c10rbOpsText(ops []c10rbOp) []string {
	out := make([]string, 0, len(ops))
	for _, o := range ops {
		out = append(out, o.String())
	}
	return out
}

func (env *c10rbEnv) witness(c *c10rbCase, stage string, d *c10rbDiff, ref *c10rbRef, table map[c10Key]c10Bm, g *c10rbGen, extra map[string]any) map[string]any {
	w := map[string]any{"case": c, "stage": stage,
		"ops_before_readable": c10rbOpsText(c.Before), "ops_during_readable": c10rbOpsText(c.During), "ops_after_readable": c10rbOpsText(c.After),
		"missing_in_table": d.missing, "stale_in_table": d.stale, "bitmap_mismatch": d.mismatch,
		"cache_entries": ref.dump, "kernel_table": c10rbTableDump(table)}
	if g != nil && g.core != nil && g.core.domainRouting != nil {
		t := g.core.domainRouting
		t.mu.Lock()
		w["tracker_owner_count"], w["tracker_address_count"] = len(t.owners), len(t.ips)
		t.mu.Unlock()
	}
	for k, v := range extra {
		w[k] = v
	}
	return w
}

// check: quiesce the generation's bpf-update worker, dump the kernel table, compare.
func (env *c10rbEnv) check(c *c10rbCase, g *c10rbGen, x *c10rbMaps, stage, sig string, extra map[string]any) (ref *c10rbRef, ok bool, err error) {
	if err = env.bar.barrier(g.ctrl); err != nil {
		return nil, false, err
	}
	table, err := c10rbDump(x.domain)
	if err != nil {
		return nil, false, fmt.Errorf("dump domain_routing_map: %w", err)
	}
	ref = c10rbReference(g.ctrl)
	d := c10rbCompare(table, ref)
	m := env.m
	m.Eval(1)
	m.Count("checks/"+stage, 1)
	m.Count("table_addresses_equal_to_cache", int64(d.equal))
	m.Count("zero_table_entry_for_listed_zero_union_address", int64(d.zeroTolerated))
	if !d.bad() {
		return ref, true, nil
	}
	m.Violation(sig+"/"+d.kind(),
		fmt.Sprintf("%s: the kernel domain_routing_map differs from the DNS cache: missing=%v stale=%v mismatch=%v", stage, d.missing, d.stale, d.mismatch),
		env.witness(c, stage, d, ref, table, g, extra))
	return ref, false, nil
}

func (env *c10rbEnv) run(c *c10rbCase) (out c10rbOutcome, err error) {
	m := env.m
	x, err := c10rbNewMaps()
	if err != nil {
		return out, err
	}
	defer x.close()
	bpf := x.objects()
	old, err := c10rbNewGen(env.log, env.routing, c.Prog, bpf, nil)
	if err != nil {
		return out, fmt.Errorf("serving generation: %w", err)
	}
	defer old.close()
	if err = old.commitRouting(env.log); err != nil {
		return out, fmt.Errorf("BuildKernspace with real maps (serving generation): %w", err)
	}
	m.Count("lpm_tries_in_serving_program", int64(len(old.built.snap.simulatedLpmTries)))

	for i := range c.Before {
		if e := c10rbApply(old.ctrl, &c.Before[i]); e != nil {
			m.Count("store_errors", 1)
		}
		m.Count("op/"+c.Before[i].Kind, 1)
	}
	// (1) the ordinary path on a real map
	if _, ok, e := env.check(c, old, x, "before-the-reload", "real-map/table-differs-from-cache-before-reload", nil); e != nil || !ok {
		return out, e
	}

	// (2) the staged reload that fails
	committed := strings.Contains(c.Mode, "committed")
	var failed *c10rbGen
	if c.Mode != "wiped+foreign-entries" {
		clone := old.cp.CloneDnsCache()
		if clone == nil {
			clone = map[string]*DnsCache{}
		}
		if failed, err = c10rbNewGen(env.log, env.routing, c.FailedProg, bpf, clone); err != nil {
			return out, fmt.Errorf("failed generation: %w", err)
		}
		defer failed.close()
		m.Count("failed_generations_prepared", 1)
	}
	for i := range c.During { // the old generation keeps serving while the new one is prepared
		if e := c10rbApply(old.ctrl, &c.During[i]); e != nil {
			m.Count("store_errors", 1)
		}
		m.Count("op_while_new_generation_prepared/"+c.During[i].Kind, 1)
	}
	if err = env.bar.barrier(old.ctrl); err != nil {
		return out, err
	}
	if failed != nil && committed { // CommitPreparedDatapath order: routing maps, clear, replay
		if err = failed.commitRouting(env.log); err != nil {
			return out, fmt.Errorf("BuildKernspace with real maps (failed generation): %w", err)
		}
		if err = clearReloadDomainRoutingMap(bpf); err != nil {
			return out, fmt.Errorf("clearReloadDomainRoutingMap: %w", err)
		}
		failed.cp.replayDnsReloadCache()
		if err = env.bar.barrier(failed.ctrl); err != nil {
			return out, err
		}
		m.Count("failed_generations_committed_their_datapath", 1)
		if t, e := c10rbDump(x.domain); e == nil && len(t) > 0 {
			m.Count("failed_generation_left_a_non_empty_table", 1)
		}
	}
	if failed != nil { // rollbackStagedReloadHandoff: cancel + Close of the new generation
		failed.close()
	}
	if c.Mode == "wiped+foreign-entries" {
		if err = c10rbWipe(x.domain); err != nil {
			return out, err
		}
	}
	for _, g := range c.Garbage {
		a := netip.MustParseAddr(g.Addr).As16()
		if err = x.domain.Update(c10Key(a), g.bm, ebpf.UpdateAny); err != nil {
			return out, fmt.Errorf("write foreign entry: %w", err)
		}
		m.Count("foreign_table_entries_written", 1)
	}
	m.Count("mode/"+c.Mode, 1)

	// what has to be restored
	want := c10rbReference(old.ctrl)
	shared, sharedDiff := 0, 0
	for _, owners := range want.owners {
		if len(owners) >= 2 {
			shared++
			var first c10Bm
			i := 0
			for _, b := range owners {
				if i == 0 {
					first = b
				} else if b != first {
					sharedDiff++
					break
				}
				i++
			}
		}
	}
	pre, _ := c10rbDump(x.domain)
	preDiff := c10rbCompare(pre, want)
	if preDiff.bad() {
		m.Count("table_differed_from_cache_when_rollback_started", 1)
	}
	if len(want.R) == 0 && len(pre) > 0 { // reference side only: the live cache demands an EMPTY table
		what := "foreign-entries"
		if committed && len(c.Garbage) == 0 {
			what = "entries-of-the-failed-generation"
		} else if committed {
			what = "entries-of-the-failed-generation+foreign-entries"
		}
		m.Count("rollback_started_with_nothing_published_by_serving_generation_and_a_non_empty_table/"+what, 1)
		if len(want.listed) > 0 {
			m.Count("rollback_started_with_only_zero_bitmap_entries_cached_and_a_non_empty_table", 1)
		} else {
			m.Count("rollback_started_with_empty_cache_and_a_non_empty_table", 1)
		}
	}

	// (3) the real function
	var rerr error
	func() {
		defer func() {
			if r := recover(); r != nil {
				rerr = fmt.Errorf("PANIC: %v", r)
			}
		}()
		rerr = old.cp.RebuildReloadDatapath()
	}()
	m.Count("rebuild_calls", 1)
	extra := map[string]any{"table_when_rollback_started": c10rbTableDump(pre)}
	if rerr != nil {
		m.Count("rebuild_returned_error", 1)
		extra["RebuildReloadDatapath_error"] = rerr.Error()
	} else {
		m.Count("rebuild_returned_nil", 1)
	}
	var metaLen uint32
	if e := x.meta.Lookup(uint32(0), &metaLen); e == nil && int(metaLen) == len(old.built.snap.rules) {
		m.Count("routing_meta_map_holds_serving_program_length_after_rebuild", 1) // recorded, not judged here
	}

	// (4) the table must mirror the cache again
	ref, ok, err := env.check(c, old, x, "after-RebuildReloadDatapath", "rollback/table-differs-from-cache", extra)
	if err != nil || !ok {
		return out, err
	}
	if len(ref.R) > 0 {
		out.nonTrivial = true
		m.Count("cases_with_non_zero_bitmaps_in_table", 1)
		if preDiff.bad() {
			m.Count("rebuilds_that_had_to_repair_a_differing_table", 1)
		}
	}
	if shared > 0 {
		m.Count("cases_with_address_shared_by_several_owners", 1)
	}
	if sharedDiff > 0 {
		m.Count("cases_with_shared_address_of_owners_with_different_bitmaps", 1)
	}
	if want.zeroEnts > 0 {
		m.Count("cases_with_zero_bitmap_entries", 1)
	}
	if len(ref.listed) > len(ref.R) {
		m.Count("cases_with_listed_address_of_zero_union", 1)
	}
	m.Count("restored_table_addresses", int64(len(ref.R)))

	// (5) the rolled-back generation keeps serving: its tracker must describe the table it rebuilt
	for i := range c.After {
		if e := c10rbApply(old.ctrl, &c.After[i]); e != nil {
			m.Count("store_errors", 1)
		}
		m.Count("op_after_rollback/"+c.After[i].Kind, 1)
	}
	if len(c.After) > 0 {
		if _, ok, err = env.check(c, old, x, "after-ops-following-the-rollback", "rollback/table-differs-from-cache-after-later-ops", extra); err != nil || !ok {
			return out, err
		}
	}
	b := func(v bool) string {
		if v {
			return "1"
		}
		return "0"
	}
	nb := len(ref.R)
	if nb > 6 {
		nb = 6
	}
	out.sig = fmt.Sprintf("%s|addrs=%d|shared=%s|sharedDiff=%s|zero=%s|repair=%s|during=%s|after=%d", c.Mode, nb, b(shared > 0), b(sharedDiff > 0), b(want.zeroEnts > 0), b(preDiff.bad()), b(len(c.During) > 0), len(c.After))
	return out, nil
}

// ---- the test ----------------------------------------------------------------------

func TestVerifC10Rollback(t *testing.T) {
	m := vk.NewMonitor("C10", "rollback", "exploration",
		"seeded cases: a serving generation (generated routing program with domain/dip/sip/dport rules, production DnsController) over real BPF maps "+
			"caches 3-12 answers (2-6 names x {A,AAAA} x unscoped+1-2 resolver scopes, 11 addresses incl. unspecified and v4-mapped, some removed again); a staged reload with another "+
			"program fails in one of 4 ways (new generation committed its datapath into the shared maps / table wiped + foreign entries / both / nothing touched), optionally while the old "+
			"generation cached more; then the REAL ControlPlane.RebuildReloadDatapath runs and the real domain_routing_map, read back by iteration, is compared with the cache, "+
			"again after 0-3 further cache operations; distinct = (failure mode, #table addresses (cap 6), shared address?, shared with different bitmaps?, zero-bitmap entries?, "+
			"table differed before the rebuild?, ops during?, #ops after); non-trivial = the cache demands a non-empty table")
	m.SetFloor(vk.Scale(25, 100))
	m.Assume("the kernel's hash/array/LPM/array-of-maps semantics and cilium/ebpf's map iteration are trusted; the maps are created by the monitor with the definitions of control/kern/tproxy.c (no BPF program is loaded, nothing looks the table up from kernel side)",
		"ControlPlane values carry only the fields RebuildReloadDatapath/dnsControllerOption/CloneDnsCache/replayDnsReloadCache read; DnsController, cache callbacks and NewCache are the production ones; the failed generation is modelled by the CommitPreparedDatapath steps that touch the shared maps (BuildKernspace, clearReloadDomainRoutingMap, replayDnsReloadCache) followed by closing its DnsController",
		"TTLs are 300 s or more, so no entry expires during a case; operations are issued from one goroutine and the bpf-update worker is drained (marker task through dae's own queue) before each comparison",
		"what the routing maps hold after the rebuild is not judged here (recorded only)")

	env := &c10rbEnv{m: m, log: verifQuietLog(), bar: &c10World{stats: map[string]int64{}}}
	// can this process create the maps at all?
	probe, err := c10rbNewMaps()
	if err != nil {
		if errors.Is(err, unix.EPERM) || errors.Is(err, unix.EACCES) || errors.Is(err, unix.ENOSYS) {
			m.Inconclusive("cannot create BPF maps in this environment: %v", err)
		} else {
			m.Inconclusive("BPF map creation failed: %v", err)
		}
		m.Done(t)
		return
	}
	specs := map[string]string{}
	for name, mp := range map[string]*ebpf.Map{"domain_routing_map": probe.domain, "routing_map": probe.routing, "routing_meta_map": probe.meta, "lpm_array_map": probe.lpmArray, "unused_lpm_type": probe.lpmType} {
		specs[name] = fmt.Sprintf("%s key=%d value=%d max_entries=%d flags=%#x", mp.Type(), mp.KeySize(), mp.ValueSize(), mp.MaxEntries(), mp.Flags())
	}
	m.Set("real_maps", specs)
	probe.close()
	if env.routing, err = c10BuildDnsRouting(env.log); err != nil {
		m.Inconclusive("cannot build dns routing: %v", err)
		m.Done(t)
		return
	}

	r := vk.NewRand(0xC10B)
	n := vk.Scale(120, 6000)
	for i := 0; i < n && m.Violations() < 3; i++ {
		c := c10rbGenCase(r)
		var out c10rbOutcome
		var rerr error
		func() {
			defer func() {
				if p := recover(); p != nil {
					m.Violation("rollback/crash", fmt.Sprintf("panic while running a rollback case: %v", p), map[string]any{"case": c})
				}
			}()
			out, rerr = env.run(c)
		}()
		m.Count("cases", 1)
		if rerr != nil {
			m.Inconclusive("case %d: %v\nprogram:\n%s", i, rerr, c.Prog)
			break
		}
		if out.nonTrivial && out.sig != "" {
			m.Count("nontrivial_cases", 1)
			m.Distinct(out.sig)
			if m.WantSample() {
				m.Sample(map[string]any{"mode": c.Mode, "program": c.Prog, "failed_program": c.FailedProg, "before": c10rbOpsText(c.Before),
					"during": c10rbOpsText(c.During), "foreign_entries": c.Garbage, "after": c10rbOpsText(c.After), "signature": out.sig})
			}
		}
	}
	m.Count("barriers", env.bar.stats["barriers"])
	m.Require("rebuild_calls", "rebuild_returned_nil", "nontrivial_cases", "cases_with_non_zero_bitmaps_in_table", "cases_with_address_shared_by_several_owners",
		"cases_with_shared_address_of_owners_with_different_bitmaps", "cases_with_zero_bitmap_entries", "rebuilds_that_had_to_repair_a_differing_table",
		"failed_generations_committed_their_datapath", "failed_generation_left_a_non_empty_table", "foreign_table_entries_written", "mode/untouched",
		"rollback_started_with_nothing_published_by_serving_generation_and_a_non_empty_table/entries-of-the-failed-generation",
		"rollback_started_with_nothing_published_by_serving_generation_and_a_non_empty_table/foreign-entries",
		"rollback_started_with_only_zero_bitmap_entries_cached_and_a_non_empty_table",
		"lpm_tries_in_serving_program", "checks/after-RebuildReloadDatapath", "checks/after-ops-following-the-rollback", "table_addresses_equal_to_cache", "op/remove")
	m.Done(t)
}
