package control

// C14 monitor, part "groups": whole group SECTIONS through the group-construction loop of
// newControlPlaneWithContextOptions.
//
// That loop (dialer set from the node links, then per group: policy, FilterAndAnnotate, per-group
// check-option override with cloned dialers, NewDialerGroup) sits in the middle of a function
// that needs a kernel datapath, so it cannot be called. Like C19 does for the PARAM literal, this
// part LIFTS it at run time: control/control_plane.go of the tree under test is parsed with
// go/parser, the statement list from the statement that creates the dialer set through the range
// statement whose body calls FilterAndAnnotate is located structurally (no comments, no line
// numbers) and its SOURCE TEXT is copied verbatim into a generated test file that supplies the
// free variables and a driver. The file is compiled into package control of the current tree
// (go test -overlay, tag dae_stub_ebpf) and run as a child over generated cases; the child prints
// what each constructed group contains and this process judges it with the same reference
// (verifkit C14Reference / C14JudgeMembership) the main part uses, group by group, against the
// pool the section was given. What one group's construction does must not leak into another's.
//
// If the lift fails (statements not found, generated file does not compile, child dies) the part
// is INCONCLUSIVE with the reason, never a violation.

import (
	"bufio"
	"bytes"
	"context"
	"encoding/json"
	"fmt"
	"go/ast"
	"go/parser"
	"go/token"
	"os"
	"os/exec"
	"path/filepath"
	"regexp"
	"sort"
	"strconv"
	"strings"
	"testing"
	"time"

	vk "github.com/daeuniverse/dae/verifkit"
)

// ---- the lift ----------------------------------------------------------------

type c14gLifted struct {
	Func    string   // enclosing function
	Pre     string   // verbatim: dialer-set statement up to (excluding) the range statement
	Loop    string   // verbatim: the range statement
	SetVar  string   // the variable the dialer set is assigned to
	Imports []string // import specs (verbatim) of the source file that the lifted text uses
	Lines   string   // "from-to" source lines, evidence only
}

func c14gCallsSelector(n ast.Node, match func(sel string) bool) bool {
	found := false
	ast.Inspect(n, func(x ast.Node) bool {
		if found {
			return false
		}
		if call, ok := x.(*ast.CallExpr); ok {
			if se, ok := call.Fun.(*ast.SelectorExpr); ok && match(se.Sel.Name) {
				found = true
			}
		}
		return true
	})
	return found
}

func c14gImportName(spec *ast.ImportSpec) string {
	if spec.Name != nil {
		return spec.Name.Name
	}
	p, _ := strconv.Unquote(spec.Path.Value)
	parts := strings.Split(p, "/")
	name := parts[len(parts)-1]
	if len(parts) > 1 && regexp.MustCompile(`^v[0-9]+$`).MatchString(name) {
		name = parts[len(parts)-2]
	}
	return name
}

func c14gLift(path string) (*c14gLifted, error) {
	src, err := os.ReadFile(path)
	if err != nil {
		return nil, err
	}
	fset := token.NewFileSet()
	f, err := parser.ParseFile(fset, path, src, parser.SkipObjectResolution)
	if err != nil {
		return nil, fmt.Errorf("parse %s: %v", path, err)
	}
	isSetCtor := func(s string) bool { return strings.HasPrefix(s, "NewDialerSetFromLinks") }
	isFilter := func(s string) bool { return s == "FilterAndAnnotate" }
	var out *c14gLifted
	var nfound int
	for _, d := range f.Decls {
		fd, ok := d.(*ast.FuncDecl)
		if !ok || fd.Body == nil || !c14gCallsSelector(fd.Body, isFilter) {
			continue
		}
		ast.Inspect(fd.Body, func(n ast.Node) bool {
			blk, ok := n.(*ast.BlockStmt)
			if !ok {
				return true
			}
			first, last := -1, -1
			for i, st := range blk.List {
				if first < 0 {
					if as, ok := st.(*ast.AssignStmt); ok && len(as.Rhs) == 1 && c14gCallsSelector(as.Rhs[0], isSetCtor) {
						first = i
					}
					continue
				}
				if rs, ok := st.(*ast.RangeStmt); ok && c14gCallsSelector(rs.Body, isFilter) {
					last = i
					break
				}
			}
			if first < 0 || last < 0 {
				return true
			}
			nfound++
			as := blk.List[first].(*ast.AssignStmt)
			id, ok := as.Lhs[0].(*ast.Ident)
			if !ok || len(as.Lhs) != 1 || as.Tok != token.DEFINE {
				return true
			}
			off := func(p token.Pos) int { return fset.Position(p).Offset }
			l := &c14gLifted{Func: fd.Name.Name, SetVar: id.Name,
				Pre:   string(src[off(blk.List[first].Pos()):off(blk.List[last].Pos())]),
				Loop:  string(src[off(blk.List[last].Pos()):off(blk.List[last].End())]),
				Lines: fmt.Sprintf("%d-%d", fset.Position(blk.List[first].Pos()).Line, fset.Position(blk.List[last].End()).Line)}
			used := map[string]bool{}
			for _, st := range blk.List[first : last+1] {
				ast.Inspect(st, func(x ast.Node) bool {
					if se, ok := x.(*ast.SelectorExpr); ok {
						if xi, ok := se.X.(*ast.Ident); ok {
							used[xi.Name] = true
						}
					}
					return true
				})
			}
			for _, spec := range f.Imports {
				if name := c14gImportName(spec); name != "_" && name != "." && used[name] {
					l.Imports = append(l.Imports, string(src[off(spec.Pos()):off(spec.End())]))
				}
			}
			if out == nil {
				out = l
			}
			return true
		})
	}
	if out == nil {
		return nil, fmt.Errorf("no statement list `<v> := …NewDialerSetFromLinks…(…)` … `for … range … { … FilterAndAnnotate … }` found in %s", path)
	}
	if nfound > 1 {
		return nil, fmt.Errorf("%d candidate statement lists found in %s: the lift is ambiguous", nfound, path)
	}
	return out, nil
}

const c14gAccessSrc = `package outbound

// GENERATED at run time by the C14 "groups" monitor: read access to what the group-construction
// loop built. Scratch file, added with -overlay only.

import "github.com/daeuniverse/dae/component/outbound/dialer"

func VerifC14Pool(s *DialerSet) []*dialer.Dialer {
	return append([]*dialer.Dialer(nil), s.dialers...)
}

func VerifC14Annotations(g *DialerGroup) []*dialer.Annotation { return g.dialersAnnotations }
`

const c14gChildTemplate = `//go:build dae_stub_ebpf

// GENERATED at run time by the C14 "groups" monitor (/verif/overlay/control/c14_groups_verif_test.go).
// Scratch file: never committed, never placed in the source tree (added with -overlay).
package control

import (
@@IMPORTS@@
	vxbufio "bufio"
	vxjson "encoding/json"
	vxfmt "fmt"
	vxio "io"
	vxos "os"
	vxstrconv "strconv"
	vxstrings "strings"
	vxtesting "testing"

	vxoutbound "github.com/daeuniverse/dae/component/outbound"
	vxdialer "github.com/daeuniverse/dae/component/outbound/dialer"
	vxconfig "github.com/daeuniverse/dae/config"
	vxparser "github.com/daeuniverse/dae/pkg/config_parser"
	vxlogrus "github.com/sirupsen/logrus"
)

type vxCore struct{}

func (vxCore) outboundAliveChangeCallback(uint8, bool) func(bool, *vxdialer.NetworkType, bool) {
	return func(bool, *vxdialer.NetworkType, bool) {}
}

// vxBuildGroups wraps the lifted statements in a function that supplies their free variables.
func vxBuildGroups(log *vxlogrus.Logger, option *vxdialer.GlobalOption, global *vxconfig.Global,
	tagToNodeList map[string][]string, groups []vxconfig.Group) (vxRes []*vxoutbound.DialerGroup, vxPool []*vxdialer.Dialer, vxClose func(), vxErr error) {
	var deferFuncs []func() error
	vxClose = func() {
		for i := len(deferFuncs) - 1; i >= 0; i-- {
			_ = deferFuncs[i]()
		}
	}
	core := vxCore{}
	disableKernelAliveCallback := true
	var outbounds []*vxoutbound.DialerGroup
	_, _, _, _, _, _, _ = log, option, global, tagToNodeList, groups, core, disableKernelAliveCallback
	vxRes, vxErr = func() ([]*vxoutbound.DialerGroup, error) {
		// ---- lifted verbatim: from the creation of the dialer set up to the loop over the groups
		@@PRE@@
		// ---- monitor: the pool as constructed, before any group is built
		vxPool = vxoutbound.VerifC14Pool(@@SETVAR@@)
		// ---- lifted verbatim: the loop over the groups
		@@LOOP@@
		return outbounds, nil
	}()
	return
}

type vxCase struct {
	Pool map[string][]string
	Text string
}

type vxMember struct {
	Port            int
	Name, Subtag    string
	HasAnno         bool
	AddLatencyNs    int64
	Clone           bool
	CheckIntervalNs int64
}

type vxGroup struct {
	Name, Policy string
	NAnnos       int
	Members      []vxMember
}

type vxResult struct {
	I          int
	Stage, Err string
	Pool       []vxMember
	Groups     []vxGroup
}

func vxMemberOf(d *vxdialer.Dialer) (m vxMember) {
	if d == nil {
		return vxMember{Port: -1}
	}
	if p := d.Property(); p != nil {
		m.Name, m.Subtag = p.Name, p.SubscriptionTag
		if k := vxstrings.LastIndexByte(p.Address, ':'); k >= 0 {
			m.Port, _ = vxstrconv.Atoi(p.Address[k+1:])
		}
	}
	if d.GlobalOption != nil {
		m.CheckIntervalNs = int64(d.GlobalOption.CheckInterval)
	}
	return m
}

func vxRunCase(i int, c *vxCase) (res vxResult) {
	res.I = i
	defer func() {
		if r := recover(); r != nil {
			res = vxResult{I: i, Stage: "panic", Err: vxfmt.Sprint(r)}
		}
	}()
	secs, err := vxparser.Parse(c.Text)
	if err != nil {
		res.Stage, res.Err = "parse", err.Error()
		return
	}
	conf, err := vxconfig.New(secs)
	if err != nil {
		res.Stage, res.Err = "config", err.Error()
		return
	}
	log := vxlogrus.New()
	log.SetOutput(vxio.Discard)
	log.SetLevel(vxlogrus.PanicLevel)
	if i%2 == 1 {
		log.SetLevel(vxlogrus.DebugLevel) // the loop has a debug-only listing
	}
	option := vxdialer.NewGlobalOption(&conf.Global, log)
	groups, pool, closeAll, err := vxBuildGroups(log, option, &conf.Global, c.Pool, conf.Group)
	defer func() {
		for _, g := range groups {
			if g != nil {
				_ = g.Close()
			}
		}
		closeAll()
	}()
	inPool := map[*vxdialer.Dialer]bool{}
	for _, d := range pool {
		inPool[d] = true
		res.Pool = append(res.Pool, vxMemberOf(d))
	}
	if err != nil {
		res.Stage, res.Err = "build", err.Error()
		return
	}
	res.Stage = "ok"
	for _, g := range groups {
		if g == nil {
			res.Groups = append(res.Groups, vxGroup{Name: "<nil group>"})
			continue
		}
		annos := vxoutbound.VerifC14Annotations(g)
		og := vxGroup{Name: g.Name, Policy: string(g.GetSelectionPolicy()), NAnnos: len(annos)}
		for k, d := range g.Dialers {
			m := vxMemberOf(d)
			m.Clone = !inPool[d]
			if k < len(annos) && annos[k] != nil {
				m.HasAnno, m.AddLatencyNs = true, int64(annos[k].AddLatency)
			}
			og.Members = append(og.Members, m)
		}
		res.Groups = append(res.Groups, og)
	}
	return
}

func TestVxC14GroupsChild(t *vxtesting.T) {
	in, out := vxos.Getenv("VERIF_C14_CASES"), vxos.Getenv("VERIF_C14_OUT")
	if in == "" || out == "" {
		t.Skip("not a child run of the C14 groups monitor")
	}
	fi, err := vxos.Open(in)
	if err != nil {
		t.Fatal(err)
	}
	defer fi.Close()
	fo, err := vxos.Create(out)
	if err != nil {
		t.Fatal(err)
	}
	defer fo.Close()
	w := vxbufio.NewWriter(fo)
	defer w.Flush()
	sc := vxbufio.NewScanner(fi)
	sc.Buffer(make([]byte, 1<<20), 64<<20)
	for i := 0; sc.Scan(); i++ {
		var c vxCase
		if err := vxjson.Unmarshal(sc.Bytes(), &c); err != nil {
			t.Fatalf("case %d: %v", i, err)
		}
		res := vxRunCase(i, &c)
		b, err := vxjson.Marshal(&res)
		if err != nil {
			t.Fatalf("case %d: %v", i, err)
		}
		w.Write(b)
		w.WriteByte('\n')
	}
	vxfmt.Println("vx-child-done")
}
`

// ---- the child ---------------------------------------------------------------

type c14gMember struct {
	Port            int
	Name, Subtag    string
	HasAnno         bool
	AddLatencyNs    int64
	Clone           bool
	CheckIntervalNs int64
}

type c14gGroup struct {
	Name, Policy string
	NAnnos       int
	Members      []c14gMember
}

type c14gResult struct {
	I          int
	Stage, Err string
	Pool       []c14gMember
	Groups     []c14gGroup
}

type c14gChild struct {
	dir string
	bin string
	n   int
}

func c14gGoEnv() []string {
	return append(os.Environ(), "GOFLAGS=-mod=mod", "GOPROXY=off", "GOSUMDB=off", "GOTOOLCHAIN=local")
}

func c14gFirstLines(b []byte, n int) string {
	ls := strings.Split(strings.TrimSpace(string(b)), "\n")
	if len(ls) > n {
		ls = ls[:n]
	}
	return strings.Join(ls, " | ")
}

// c14gBuildChild writes the generated files and compiles package control of the current tree with
// them (overlay; nothing is written into the tree).
func c14gBuildChild(l *c14gLifted) (*c14gChild, string, error) {
	root := filepath.Join(vk.BuildDir(), "run")
	if err := os.MkdirAll(root, 0o755); err != nil {
		return nil, "", err
	}
	dir, err := os.MkdirTemp(root, "c14groups")
	if err != nil {
		return nil, "", err
	}
	gen := c14gChildTemplate
	gen = strings.Replace(gen, "@@IMPORTS@@", "\t"+strings.Join(l.Imports, "\n\t"), 1)
	gen = strings.Replace(gen, "@@PRE@@", l.Pre, 1)
	gen = strings.Replace(gen, "@@SETVAR@@", l.SetVar, 1)
	gen = strings.Replace(gen, "@@LOOP@@", l.Loop, 1)
	genPath := filepath.Join(dir, "zz_verif_c14_groups_child_test.go")
	accPath := filepath.Join(dir, "zz_verif_c14_access.go")
	if err := os.WriteFile(genPath, []byte(gen), 0o644); err != nil {
		return nil, "", err
	}
	if err := os.WriteFile(accPath, []byte(c14gAccessSrc), 0o644); err != nil {
		return nil, "", err
	}
	// a copy for the reader of the evidence / of an INCONCLUSIVE line
	keep := filepath.Join(vk.BuildDir(), "logs", "C14.groups.generated_test.go")
	_ = os.MkdirAll(filepath.Dir(keep), 0o755)
	_ = os.WriteFile(keep, []byte(gen), 0o644)
	repo := vk.RepoDir()
	ov := map[string]any{"Replace": map[string]string{
		filepath.Join(repo, "control", "zz_verif_c14_groups_child_test.go"):    genPath,
		filepath.Join(repo, "component", "outbound", "zz_verif_c14_access.go"): accPath,
	}}
	ovb, _ := json.Marshal(ov)
	ovPath := filepath.Join(dir, "overlay.json")
	if err := os.WriteFile(ovPath, ovb, 0o644); err != nil {
		return nil, "", err
	}
	bin := filepath.Join(dir, "child.test")
	ctx, cancel := context.WithTimeout(context.Background(), 20*time.Minute)
	defer cancel()
	cmd := exec.CommandContext(ctx, "go1.26", "test", "-tags", "dae_stub_ebpf", "-overlay", ovPath, "-vet=off", "-c", "-o", bin, "./control")
	cmd.Dir = repo
	cmd.Env = c14gGoEnv()
	out, err := cmd.CombinedOutput()
	if err != nil {
		os.RemoveAll(dir)
		return nil, keep, fmt.Errorf("generated file does not build (%v): %s", err, c14gFirstLines(out, 6))
	}
	return &c14gChild{dir: dir, bin: bin}, keep, nil
}

func (c *c14gChild) close() { os.RemoveAll(c.dir) }

// run pushes sections through the child; results[i] == nil if the child printed nothing for i.
func (c *c14gChild) run(secs []*vk.C14Section) ([]*c14gResult, error) {
	c.n++
	in := filepath.Join(c.dir, fmt.Sprintf("cases-%d.jsonl", c.n))
	outp := filepath.Join(c.dir, fmt.Sprintf("out-%d.jsonl", c.n))
	var b bytes.Buffer
	enc := json.NewEncoder(&b)
	for _, s := range secs {
		if err := enc.Encode(map[string]any{"Pool": s.Links(), "Text": s.Text()}); err != nil {
			return nil, err
		}
	}
	if err := os.WriteFile(in, b.Bytes(), 0o644); err != nil {
		return nil, err
	}
	defer os.Remove(in)
	defer os.Remove(outp)
	ctx, cancel := context.WithTimeout(context.Background(), 15*time.Minute)
	defer cancel()
	cmd := exec.CommandContext(ctx, c.bin, "-test.run", "^TestVxC14GroupsChild$", "-test.count=1", "-test.timeout=20m")
	cmd.Dir = filepath.Join(vk.RepoDir(), "control")
	cmd.Env = append(os.Environ(), "VERIF_C14_CASES="+in, "VERIF_C14_OUT="+outp)
	out, runErr := cmd.CombinedOutput()
	res := make([]*c14gResult, len(secs))
	if f, err := os.Open(outp); err == nil {
		sc := bufio.NewScanner(f)
		sc.Buffer(make([]byte, 1<<20), 64<<20)
		for sc.Scan() {
			var r c14gResult
			if json.Unmarshal(sc.Bytes(), &r) == nil && r.I >= 0 && r.I < len(res) {
				rr := r
				res[r.I] = &rr
			}
		}
		f.Close()
	}
	if runErr != nil || !bytes.Contains(out, []byte("vx-child-done")) {
		ls := strings.Split(strings.TrimSpace(string(out)), "\n")
		if len(ls) > 8 {
			ls = ls[len(ls)-8:]
		}
		return res, fmt.Errorf("child run failed (%v): %s", runErr, strings.Join(ls, " | "))
	}
	return res, nil
}

// ---- the judge ---------------------------------------------------------------

func c14gExpect(s *vk.C14Section) (exp []*vk.C14Expect, invalid string) {
	for gi := range s.Groups {
		e := vk.C14Reference(s.GroupCase(gi))
		if e.Invalid != "" && invalid == "" {
			invalid = e.Invalid
		}
		exp = append(exp, e)
	}
	return
}

// c14gJudge returns ("", "", -1) when the section holds, else (structural signature, description,
// index of the offending group or -1).
func c14gJudge(s *vk.C14Section, r *c14gResult) (sig, what string, group int) {
	exp, invalid := c14gExpect(s)
	if r.Stage == "panic" {
		return "groups/panic", "group construction panicked: " + r.Err, -1
	}
	if invalid != "" {
		if r.Stage != "ok" {
			return "", "", -1
		}
		return "groups/invalid-accepted/" + invalid, "a section with an invalid group definition (" + invalid + ") was built without a configuration error", -1
	}
	first := func(s string) string {
		if i := strings.IndexByte(s, '\n'); i >= 0 {
			return s[:i]
		}
		return s
	}
	if r.Stage != "ok" {
		return "groups/valid-rejected/" + r.Stage, "valid group section rejected at stage " + r.Stage + ": " + first(r.Err), -1
	}
	// the pool as constructed: a permutation of the given nodes
	var poolOrder []int
	seen := map[int]bool{}
	for _, pm := range r.Pool {
		i := pm.Port - vk.C14PortBase
		if i < 0 || i >= len(s.Pool) || seen[i] || pm.Name != s.Pool[i].Name || pm.Subtag != s.Pool[i].Tag {
			return "groups/malformed-pool", fmt.Sprintf("the constructed pool contains %+v, which is not (a first occurrence of) pool node %d", pm, i), -1
		}
		seen[i] = true
		poolOrder = append(poolOrder, i)
	}
	if len(poolOrder) != len(s.Pool) {
		return "groups/malformed-pool", fmt.Sprintf("the constructed pool has %d nodes, %d links were given", len(poolOrder), len(s.Pool)), -1
	}
	if len(r.Groups) != len(s.Groups) {
		return "groups/group-count", fmt.Sprintf("%d groups defined, %d groups built", len(s.Groups), len(r.Groups)), -1
	}
	for gi := range s.Groups {
		if r.Groups[gi].Name != s.Groups[gi].Name {
			return "groups/group-order", fmt.Sprintf("group %d is %q, definition order says %q", gi, r.Groups[gi].Name, s.Groups[gi].Name), gi
		}
	}
	for gi := range s.Groups {
		g, rg := &s.Groups[gi], &r.Groups[gi]
		var members []int
		var offsets []time.Duration
		for k, mb := range rg.Members {
			i := mb.Port - vk.C14PortBase
			if i < 0 || i >= len(s.Pool) || mb.Name != s.Pool[i].Name || mb.Subtag != s.Pool[i].Tag {
				return "groups/malformed-member", fmt.Sprintf("group %q member %d is %+v, which is not a node of the pool", g.Name, k, mb), gi
			}
			if !mb.HasAnno {
				return "groups/malformed-result", fmt.Sprintf("group %q member %d (pool[%d]) has no annotation", g.Name, k, i), gi
			}
			members = append(members, i)
			offsets = append(offsets, time.Duration(mb.AddLatencyNs))
		}
		if rg.NAnnos != len(rg.Members) {
			return "groups/malformed-result", fmt.Sprintf("group %q has %d dialers but %d annotations", g.Name, len(rg.Members), rg.NAnnos), gi
		}
		if sg, wh := vk.C14JudgeMembership(s.GroupCase(gi), exp[gi], poolOrder, members, offsets); sg != "" {
			return "groups/" + sg, fmt.Sprintf("group %q (#%d of %d in the section): %s", g.Name, gi, len(s.Groups), wh), gi
		}
		if name, _, _ := vk.C14PolicyExpect(g.Policy); rg.Policy != name {
			return "groups/policy-mismatch", fmt.Sprintf("group %q: policy %q became %q", g.Name, g.Policy, rg.Policy), gi
		}
	}
	return "", "", -1
}

// ---- classification (what was observed) ---------------------------------------

type c14gClass struct {
	filterless, override, subtag, negSubtag, anno bool
	optKeys                                       []string
}

func c14gClassify(g *vk.C14Group) (c c14gClass) {
	c.filterless = len(g.Lines) == 0
	for _, o := range g.Options {
		c.optKeys = append(c.optKeys, o.Key)
		c.override = true
	}
	sort.Strings(c.optKeys)
	for _, l := range g.Lines {
		if len(l.Anno) > 0 {
			c.anno = true
		}
		for _, t := range l.Terms {
			if t.Input == "subtag" {
				c.subtag = true
				if t.Not {
					c.negSubtag = true
				}
			}
		}
	}
	return
}

func (c c14gClass) letter() string {
	s := "n"
	switch {
	case c.filterless:
		s = "F"
	case c.negSubtag:
		s = "!s"
	case c.subtag:
		s = "s"
	}
	if c.anno {
		s += "a"
	}
	if c.override {
		ks := ""
		for _, k := range c.optKeys {
			ks += map[string]string{"tcp_check_url": "u", "tcp_check_http_method": "m", "udp_check_dns": "d", "check_interval": "i", "check_tolerance": "t"}[k]
		}
		s += "+" + ks
	}
	return s
}

func TestVerifC14Groups(t *testing.T) {
	m := vk.NewMonitor("C14", "groups", "exploration",
		"generated group SECTIONS (one node pool of 2-12 nodes over 1-4 subscription tags x 2-5 group definitions in every order: filter-less groups, groups with 1-5 filter lines "+
			"(grammar of the main part plus frequent subtag()/!subtag() lines), 0-3 per-group check-option overrides out of the five the parser accepts, body lines in random order, "+
			"a few sections with an injected invalid element) pushed through the group-construction loop LIFTED verbatim at run time out of newControlPlaneWithContextOptions; "+
			"distinct = sequence of per-group classes (filter-less / name / subtag / negated subtag, annotated, set of overridden options); "+
			"non-trivial = a valid section in which a group with an override comes before a group that is a proper non-empty subset of the pool, or an invalid section")
	m.SetFloor(vk.Scale(60, 2000))
	m.Assume("the statements from `<v> := …NewDialerSetFromLinks…(…)` through the `for … range …` whose body calls FilterAndAnnotate are taken verbatim (byte range of the AST positions) from control/control_plane.go of the tree under test and compiled into package control (tag dae_stub_ebpf, go test -overlay); the wrapper supplies log, option, global, tagToNodeList, groups, deferFuncs, outbounds (empty, direct/block groups are not prepended), disableKernelAliveCallback=true and a core whose outboundAliveChangeCallback is a no-op",
		"two read accessors are added to package outbound by overlay (DialerSet.dialers, DialerGroup.dialersAnnotations); the pool is read right after the dialer set was created and \"pool order\" refers to it",
		"reference and judge are the main part's (verifkit C14Reference / C14JudgeMembership), applied per group to the pool the section was given; check options of the members are recorded, not judged (the statement is silent on them)",
		"a failed lift / build / child run is INCONCLUSIVE")
	lift, err := c14gLift(filepath.Join(vk.RepoDir(), "control", "control_plane.go"))
	if err != nil {
		m.Inconclusive("groups: lift failed: %v", err)
		m.Done(t)
		return
	}
	m.Set("lifted", map[string]any{"function": lift.Func, "lines": lift.Lines, "dialer_set_variable": lift.SetVar, "imports": lift.Imports,
		"bytes": len(lift.Pre) + len(lift.Loop)})
	child, keep, err := c14gBuildChild(lift)
	if err != nil {
		m.Inconclusive("groups: %v (generated file kept as %s)", err, keep)
		m.Done(t)
		return
	}
	defer child.close()
	m.Count("child_builds", 1)

	r := vk.NewRand(0xC14_6)
	g := vk.NewC14Gen(r)
	n := vk.Scale(600, 40000)
	secs := make([]*vk.C14Section, n)
	for i := range secs {
		secs[i] = g.Section(4)
	}
	results, err := child.run(secs)
	if err != nil {
		m.Inconclusive("groups: %v", err)
		m.Done(t)
		return
	}
	reported := map[string]bool{}
	for i, s := range secs {
		res := results[i]
		if res == nil {
			m.Inconclusive("groups: the child printed nothing for case %d", i)
			break
		}
		m.Eval(1)
		exp, invalid := c14gExpect(s)
		sig, what, bad := c14gJudge(s, res)
		// ---- what was observed
		nontrivial := false
		var letters []string
		if invalid != "" {
			nontrivial = true
			m.Count("invalid_sections", 1)
			if res.Stage != "ok" {
				m.Count("invalid_section_rejected_at_stage/"+res.Stage, 1)
			}
		} else {
			m.Count("valid_sections", 1)
			if res.Stage == "ok" {
				m.Count("valid_sections_built", 1)
			}
			overrideBefore, flOverrideBefore := false, false
			for gi := range s.Groups {
				c := c14gClassify(&s.Groups[gi])
				letters = append(letters, c.letter())
				e := exp[gi]
				proper := len(e.Members) > 0 && len(e.Members) < len(s.Pool)
				m.Count("groups_judged", 1)
				if c.filterless {
					m.Count("group_filterless", 1)
					if c.override {
						m.Count("group_filterless_with_override", 1)
					}
				} else if c.override {
					m.Count("group_filtered_with_override", 1)
				}
				for _, k := range c.optKeys {
					m.Count("override_option/"+k, 1)
				}
				if proper {
					m.Count("group_is_proper_nonempty_subset", 1)
				}
				if overrideBefore {
					m.Count("group_after_override_group", 1)
					if proper {
						nontrivial = true
						m.Count("proper_subset_group_after_override_group", 1)
					}
					if c.anno {
						for _, o := range e.Offsets {
							if o != 0 {
								m.Count("annotated_member_in_group_after_override_group", 1)
								break
							}
						}
					}
				}
				if flOverrideBefore {
					if c.subtag && !c.negSubtag {
						m.Count("subtag_group_after_filterless_override_group", 1)
					}
					if c.negSubtag {
						m.Count("negated_subtag_group_after_filterless_override_group", 1)
					}
					if !c.subtag && !c.filterless {
						m.Count("name_group_after_filterless_override_group", 1)
					}
					if c.filterless {
						m.Count("filterless_group_after_filterless_override_group", 1)
					}
				}
				if c.override && c.anno {
					for _, o := range e.Offsets {
						if o != 0 {
							m.Count("annotated_member_in_override_group", 1)
							break
						}
					}
				}
				if c.override {
					overrideBefore = true
					if c.filterless {
						flOverrideBefore = true
					}
				}
				// recorded, not judged: do the members of a group carry the group's check options?
				if res.Stage == "ok" && gi < len(res.Groups) {
					for _, mb := range res.Groups[gi].Members {
						if mb.Clone {
							m.Count("member_is_clone_of_pool_node", 1)
							if !c.override {
								m.Count("observed/clone_in_group_without_override", 1)
							}
						} else {
							m.Count("member_is_pool_node_itself", 1)
							if c.override {
								m.Count("observed/pool_node_itself_in_override_group", 1)
							}
						}
					}
				}
			}
		}
		if nontrivial {
			m.Distinct(fmt.Sprintf("%s|inv:%s", strings.Join(letters, ","), invalid))
		}
		if sig == "" {
			if nontrivial && invalid == "" && m.WantSample() {
				var built []map[string]any
				for _, rg := range res.Groups {
					var ms []string
					for _, mb := range rg.Members {
						ms = append(ms, fmt.Sprintf("%d:%s", mb.Port-vk.C14PortBase, mb.Name))
					}
					built = append(built, map[string]any{"group": rg.Name, "members": ms})
				}
				m.Sample(map[string]any{"pool": s.Pool, "section_text": s.Text(), "built": built})
			}
			continue
		}
		if reported[sig] {
			m.Count("further_witnesses/"+sig, 1)
			continue
		}
		reported[sig] = true
		// minimise with further child runs: all one-step reductions of the current witness in one run
		cur, curRes := s, res
		for round := 0; round < 40; round++ {
			reds := cur.Reductions()
			if len(reds) == 0 {
				break
			}
			rr, err := child.run(reds)
			if err != nil {
				break
			}
			next := -1
			for k := range reds {
				if rr[k] == nil {
					continue
				}
				if s2, _, _ := c14gJudge(reds[k], rr[k]); s2 == sig {
					next = k
					break
				}
			}
			if next < 0 {
				break
			}
			cur, curRes = reds[next], rr[next]
			m.Count("minimisation_steps", 1)
		}
		_, what2, bad2 := c14gJudge(cur, curRes)
		if what2 != "" {
			what, bad = what2, bad2
		}
		expMin, _ := c14gExpect(cur)
		var refs []map[string]any
		for gi := range cur.Groups {
			refs = append(refs, map[string]any{"group": cur.Groups[gi].Name, "invalid": expMin[gi].InvalidAll, "members_pool_indices_in_given_order": expMin[gi].Members, "offsets_ns": expMin[gi].Offsets})
		}
		m.Violation(sig, what, map[string]any{
			"pool": cur.Pool, "links": cur.Links(), "section_text": cur.Text(), "offending_group_index": bad,
			"reference": refs, "got": curRes,
			"lifted":   map[string]any{"function": lift.Func, "lines": lift.Lines},
			"original": map[string]any{"pool": s.Pool, "section_text": s.Text()},
		})
	}
	req := []string{"child_builds", "valid_sections_built", "groups_judged", "invalid_section_rejected_at_stage/build",
		"group_filterless", "group_filterless_with_override", "group_filtered_with_override", "group_is_proper_nonempty_subset",
		"proper_subset_group_after_override_group", "subtag_group_after_filterless_override_group", "negated_subtag_group_after_filterless_override_group",
		"name_group_after_filterless_override_group", "filterless_group_after_filterless_override_group",
		"annotated_member_in_group_after_override_group", "annotated_member_in_override_group",
		"member_is_clone_of_pool_node", "member_is_pool_node_itself"}
	for _, k := range vk.C14OptionKeys {
		req = append(req, "override_option/"+k)
	}
	m.Require(req...)
	m.Done(t)
}
