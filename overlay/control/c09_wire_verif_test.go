package control

// C09 monitor, transport layers: dae's real DoUDP / DoTCP (pipelinedConn,
// connPool, udpConnPool) built by the production newDnsForwarder with dae's own
// direct dialer, against hostile in-process DNS servers on 127.0.0.1.
//
//   L2  forwardWithFallback (the production composition that owns the forwarder
//       cache, retirement and the tcp+udp fallback) with short contexts we pass;
//       plus DoUDP.ForwardDNS itself for the "late datagram on a reused pooled
//       socket" schedule.
//   L3  the whole controller (clients -> singleflight -> cache) on top of the
//       real transports.

import (
	"context"
	"encoding/binary"
	"errors"
	"fmt"
	"io"
	"math/rand/v2"
	"net"
	"net/netip"
	"strings"
	"sync"
	"sync/atomic"
	"time"

	"github.com/daeuniverse/dae/common/consts"
	"github.com/daeuniverse/dae/common/netutils"
	componentdns "github.com/daeuniverse/dae/component/dns"
	dnsmessage "github.com/miekg/dns"
)

// ---- hostile servers ---------------------------------------------------------------

type c09Held struct {
	pkt []byte
	id  uint16
	key string
}

type c09Server struct {
	w    *c09World
	m    interface{ Count(string, int64) }
	udp  *net.UDPConn
	tcp  *net.TCPListener
	addr netip.AddrPort
	wg   sync.WaitGroup

	mu    sync.Mutex
	held  map[netip.AddrPort][]c09Held // UDP: datagrams delivered when the next query from that socket arrives
	prev  map[netip.AddrPort]c09Q
	conns map[net.Conn]struct{}
	// followUp: after a datagram that answers a different question, also send
	// the right answer (the wrong one is then "a stale datagram in front").
	followUp atomic.Bool

	lateDelivered         atomic.Int64
	lateDeliveredCollide  atomic.Int64
	dupDelivered          atomic.Int64
	tcpClosedMid          atomic.Int64
	tcpReordered          atomic.Int64
	tcpQueries, udpQueries atomic.Int64
}

// c09StartServer listens on one loopback port with both UDP and TCP.
func c09StartServer(w *c09World, m interface{ Count(string, int64) }) (*c09Server, error) {
	for attempt := 0; attempt < 20; attempt++ {
		u, err := net.ListenUDP("udp4", &net.UDPAddr{IP: net.IPv4(127, 0, 0, 1)})
		if err != nil {
			return nil, err
		}
		ap := u.LocalAddr().(*net.UDPAddr).AddrPort()
		t, err := net.ListenTCP("tcp4", net.TCPAddrFromAddrPort(ap))
		if err != nil {
			_ = u.Close()
			continue
		}
		s := &c09Server{w: w, m: m, udp: u, tcp: t, addr: ap, held: map[netip.AddrPort][]c09Held{}, prev: map[netip.AddrPort]c09Q{}, conns: map[net.Conn]struct{}{}}
		s.wg.Add(2)
		go s.serveUDP()
		go s.serveTCP()
		return s, nil
	}
	return nil, errors.New("c09: no loopback port free for both udp and tcp")
}

func (s *c09Server) stop() {
	_ = s.udp.Close()
	_ = s.tcp.Close()
	s.mu.Lock()
	for c := range s.conns {
		_ = c.Close()
	}
	s.mu.Unlock()
	s.wg.Wait()
}

func c09Pack(m *dnsmessage.Msg) []byte {
	b, err := m.Pack()
	if err != nil {
		return nil
	}
	return b
}

func (s *c09Server) serveUDP() {
	defer s.wg.Done()
	buf := make([]byte, 4096)
	for {
		n, src, err := s.udp.ReadFromUDPAddrPort(buf)
		if err != nil {
			return
		}
		var req dnsmessage.Msg
		if err := req.Unpack(buf[:n]); err != nil || len(req.Question) == 0 {
			continue
		}
		s.udpQueries.Add(1)
		q := c09Q{Name: req.Question[0].Name, Type: req.Question[0].Qtype, Class: req.Question[0].Qclass}
		call, beh := s.w.begin(s.addr.String(), "udp", req.Id, q)
		note := ""
		send := func(b []byte) {
			if b != nil {
				_, _ = s.udp.WriteToUDPAddrPort(b, src)
			}
		}
		// A new query from the same source socket: that socket has been reused.
		// Deliver what was held for it first, so the stale datagram is in front.
		s.mu.Lock()
		held := s.held[src]
		delete(s.held, src)
		prev, hasPrev := s.prev[src]
		s.prev[src] = q
		s.mu.Unlock()
		for _, h := range held {
			send(h.pkt)
			s.lateDelivered.Add(1)
			if h.id == req.Id && h.key != q.key() {
				s.lateDeliveredCollide.Add(1)
				note += "delivered-stale-colliding-id;"
			}
		}
		right := c09Pack(c09Response(req.Id, q, call.Gen, 60))
		hold := func(b []byte) {
			s.mu.Lock()
			s.held[src] = append(s.held[src], c09Held{pkt: b, id: req.Id, key: q.key()})
			s.mu.Unlock()
		}
		switch beh {
		case c09Dup:
			send(right)
			send(right)
			s.dupDelivered.Add(1)
		case c09DupLate:
			send(right)
			hold(right)
		case c09Late:
			hold(right)
		case c09PrevQ:
			if hasPrev && prev.key() != q.key() {
				note += "answered previous " + prev.String()
				send(c09Pack(c09Response(req.Id, prev, call.Gen, 60)))
				if s.followUp.Load() {
					send(right)
				}
			} else {
				send(right)
			}
		case c09WrongQ:
			o := s.w.other(q)
			note += "answered " + o.String()
			send(c09Pack(c09Response(req.Id, o, call.Gen, 60)))
			if s.followUp.Load() {
				send(right)
			}
		case c09WrongType:
			o := c09OtherType(q)
			note += "answered " + o.String()
			send(c09Pack(c09Response(req.Id, o, call.Gen, 60)))
			if s.followUp.Load() {
				send(right)
			}
		case c09WrongID:
			send(c09Pack(c09Response(req.Id^0x5555, q, call.Gen, 60)))
			send(right)
		case c09TC:
			m := c09Response(req.Id, q, call.Gen, 60)
			m.Answer = nil
			m.Truncated = true
			send(c09Pack(m))
		case c09Never:
		case c09Short:
			send([]byte{0x07})
			send(right)
		case c09Garbage:
			send([]byte{byte(req.Id >> 8), byte(req.Id), 0x81, 0x80, 0xff, 0xff, 0xff, 0xff, 0xff, 0xff, 0xff, 0xff, 0xc0})
		case c09TTL0:
			send(c09Pack(c09Response(req.Id, q, call.Gen, 0)))
		case c09Servfail:
			m := c09Response(req.Id, q, call.Gen, 60)
			m.Answer = nil
			m.Rcode = dnsmessage.RcodeServerFailure
			send(c09Pack(m))
		default:
			send(right)
		}
		s.w.end(call, note)
	}
}

func (s *c09Server) serveTCP() {
	defer s.wg.Done()
	for {
		c, err := s.tcp.Accept()
		if err != nil {
			return
		}
		s.mu.Lock()
		s.conns[c] = struct{}{}
		s.mu.Unlock()
		s.wg.Add(1)
		go s.serveTCPConn(c)
	}
}

func c09Frame(b []byte) []byte {
	out := make([]byte, 2+len(b))
	binary.BigEndian.PutUint16(out, uint16(len(b)))
	copy(out[2:], b)
	return out
}

func (s *c09Server) serveTCPConn(c net.Conn) {
	defer s.wg.Done()
	defer func() {
		_ = c.Close()
		s.mu.Lock()
		delete(s.conns, c)
		s.mu.Unlock()
	}()
	var wmu sync.Mutex
	write := func(b []byte) {
		if b == nil {
			return
		}
		wmu.Lock()
		_, _ = c.Write(c09Frame(b))
		wmu.Unlock()
	}
	var heldMu sync.Mutex
	var held [][]byte
	flush := func() {
		heldMu.Lock()
		h := held
		held = nil
		heldMu.Unlock()
		for _, b := range h {
			write(b)
		}
	}
	var prev *c09Q
	for {
		var hdr [2]byte
		if _, err := io.ReadFull(c, hdr[:]); err != nil {
			return
		}
		l := int(binary.BigEndian.Uint16(hdr[:]))
		buf := make([]byte, l)
		if _, err := io.ReadFull(c, buf); err != nil {
			return
		}
		var req dnsmessage.Msg
		if err := req.Unpack(buf); err != nil || len(req.Question) == 0 {
			return
		}
		s.tcpQueries.Add(1)
		q := c09Q{Name: req.Question[0].Name, Type: req.Question[0].Qtype, Class: req.Question[0].Qclass}
		call, beh := s.w.begin(s.addr.String(), "tcp", req.Id, q)
		note := ""
		right := c09Pack(c09Response(req.Id, q, call.Gen, 60))
		switch beh {
		case c09Dup:
			write(right)
			write(right)
		case c09DupLate:
			write(right)
			heldMu.Lock()
			held = append(held, right)
			heldMu.Unlock()
		case c09Reorder:
			// answer after the next query on this connection was answered, or
			// after 3ms if none comes.
			heldMu.Lock()
			held = append(held, right)
			heldMu.Unlock()
			s.tcpReordered.Add(1)
			time.AfterFunc(3*time.Millisecond, flush)
			s.w.end(call, "held")
			qq := q
			prev = &qq
			continue
		case c09PrevQ:
			if prev != nil && prev.key() != q.key() {
				note = "answered previous " + prev.String()
				write(c09Pack(c09Response(req.Id, *prev, call.Gen, 60)))
			} else {
				write(right)
			}
		case c09WrongQ:
			o := s.w.other(q)
			note = "answered " + o.String()
			write(c09Pack(c09Response(req.Id, o, call.Gen, 60)))
		case c09WrongID:
			write(c09Pack(c09Response((req.Id+1500)%4096, q, call.Gen, 60)))
		case c09Never:
		case c09CloseMid:
			f := c09Frame(right)
			wmu.Lock()
			_, _ = c.Write(f[:2+len(right)/2])
			wmu.Unlock()
			s.tcpClosedMid.Add(1)
			s.w.end(call, "closed mid-stream")
			return
		case c09Slow:
			time.Sleep(time.Duration(1+call.Seq%3) * time.Millisecond)
			write(right)
		case c09TTL0:
			write(c09Pack(c09Response(req.Id, q, call.Gen, 0)))
		default:
			write(right)
		}
		flush()
		qq := q
		prev = &qq
		s.w.end(call, note)
	}
}

// ---- L2: forwardWithFallback over the real transports ----------------------------------

var c09WireUDPWeights = []c09Weighted{{c09OK, 30}, {c09Dup, 10}, {c09DupLate, 12}, {c09PrevQ, 8}, {c09WrongQ, 6}, {c09WrongType, 3},
	{c09WrongID, 6}, {c09TC, 8}, {c09Never, 4}, {c09Short, 4}, {c09Garbage, 3}, {c09Late, 4}, {c09TTL0, 2}}
var c09WireTCPWeights = []c09Weighted{{c09OK, 34}, {c09Slow, 10}, {c09Dup, 8}, {c09DupLate, 8}, {c09Reorder, 10}, {c09PrevQ, 8}, {c09WrongQ, 6},
	{c09CloseMid, 8}, {c09Never, 3}, {c09WrongID, 3}, {c09TTL0, 2}}

func c09QueryBytes(id uint16, q c09Q) []byte {
	req := new(dnsmessage.Msg)
	req.Id = id
	req.RecursionDesired = true
	req.Question = []dnsmessage.Question{{Name: q.Name, Qtype: q.Type, Qclass: q.Class}}
	b, _ := req.Pack()
	return b
}

type c09WireOp struct {
	Worker int    `json:"worker"`
	Seq    int    `json:"seq"`
	ID     uint16 `json:"id"`
	Q      string `json:"question"`
	Via    string `json:"via"`
	Err    string `json:"error,omitempty"`
	Resp   string `json:"response,omitempty"`
	TCall  int64  `json:"t_call_ns"`
	TRet   int64  `json:"t_ret_ns"`
}

func (e *c09Env) c09L2Round(r *rand.Rand, seq int) {
	m := e.m
	qs := c09RoundQuestions(r)
	w := c09NewWorld(r, qs)
	scheme := []string{"udp", "tcp+udp", "tcp", "tcp+udp"}[r.IntN(4)]
	for _, q := range qs {
		us := c09Script(r, c09WireUDPWeights)
		if scheme == "tcp+udp" && r.IntN(2) == 0 {
			us = []c09Beh{[]c09Beh{c09TC, c09Garbage, c09Never}[r.IntN(3)]} // force the fallback
		}
		w.setScript("udp", q.Name, us)
		w.setScript("tcp", q.Name, c09Script(r, c09WireTCPWeights))
	}
	srv, err := c09StartServer(w, m)
	if err != nil {
		m.Inconclusive("L2: cannot start loopback server: %v", err)
		return
	}
	defer srv.stop()
	srv.followUp.Store(r.IntN(2) == 0)
	dnsForwarderFactory = newDnsForwarder // production factory
	tp := c09Topology{name: "L2-" + scheme, scheme: scheme, upstream: srv.addr, dsts: []netip.AddrPort{srv.addr}, real: true}
	ctrl, err := e.c09NewController(tp, nil)
	if err != nil {
		m.Inconclusive("L2: cannot build controller: %v", err)
		return
	}
	defer func() { _ = ctrl.Close() }()
	up := &componentdns.Upstream{Scheme: componentdns.UpstreamScheme(scheme), Hostname: srv.addr.Addr().String(), Port: srv.addr.Port(), Ip46: &netutils.Ip46{Ip4: srv.addr.Addr()}}
	primary := &dialArgument{l4proto: consts.L4ProtoStr_UDP, ipversion: consts.IpVersionStr_4, bestDialer: e.direct, bestTarget: srv.addr}
	if scheme == "tcp" {
		primary.l4proto = consts.L4ProtoStr_TCP
	}
	workers := 1 + r.IntN(4)
	if r.IntN(3) == 0 {
		workers = 1 // strictly sequential: socket reuse is certain
	}
	iters := 6 + r.IntN(10)
	timeout := time.Duration(25+r.IntN(30)) * time.Millisecond
	var mu sync.Mutex
	var ops []*c09WireOp
	witness := func(op *c09WireOp) any {
		mu.Lock()
		defer mu.Unlock()
		calls := w.snapshotCalls()
		if len(calls) > 80 {
			calls = calls[:80]
		}
		return map[string]any{"layer": "L2", "round": seq, "scheme": scheme, "server": srv.addr.String(), "workers": workers, "timeout_ms": timeout.Milliseconds(),
			"script": c09ScriptString(w.script), "failing_op": op, "ops": append([]*c09WireOp(nil), ops...), "server_log": calls}
	}
	var wg sync.WaitGroup
	for g := 0; g < workers; g++ {
		seed := r.Uint64()
		wg.Add(1)
		go func(g int) {
			defer wg.Done()
			rr := rand.New(rand.NewPCG(seed, uint64(g)+99))
			for i := 0; i < iters; i++ {
				q := qs[rr.IntN(len(qs))]
				q.Name = c09MixCase(rr, q.Name)
				if rr.IntN(4) == 0 {
					q.Type = dnsmessage.TypeAAAA
				}
				id := uint16(7 + rr.IntN(2))
				op := &c09WireOp{Worker: g, Seq: i, ID: id, Q: q.String(), TCall: w.now()}
				ctx, cancel := context.WithTimeout(context.Background(), timeout)
				resp, used, err := ctrl.forwardWithFallback(ctx, &udpRequest{realDst: srv.addr, routingResult: &bpfRoutingResult{}}, up, primary, c09QueryBytes(id, q))
				cancel()
				op.TRet = w.now()
				if used != nil {
					op.Via = string(used.l4proto)
				}
				if err != nil {
					op.Err = err.Error()
				} else {
					op.Resp = c09MsgString(resp)
				}
				mu.Lock()
				ops = append(ops, op)
				mu.Unlock()
				m.Eval(1)
				kind := "error"
				if err == nil {
					kind = "answer"
					m.Count("L2_forward_ok", 1)
					if used != nil && used.l4proto == consts.L4ProtoStr_TCP && scheme == "tcp+udp" {
						m.Count("L2_fallback_tcp_answered", 1)
					}
					// what comes back here is what dialSend sends to the client
					// (after writing the client's ID into it) and stores in the cache.
					c09JudgeMsg(m, "L2/forwardWithFallback/"+op.Via, id, q, resp, op.Via == "udp", func() any { return witness(op) })
				} else {
					m.Count("L2_forward_errors", 1)
					if errors.Is(err, ErrDNSTruncated) {
						kind = "tc"
					}
				}
				m.Distinct(fmt.Sprintf("L2|%s|via=%s|%s|w=%d|%s", scheme, op.Via, dnsmessage.TypeToString[q.Type], workers, kind))
			}
		}(g)
	}
	done := make(chan struct{})
	go func() { wg.Wait(); close(done) }()
	select {
	case <-done:
	case <-time.After(60 * time.Second):
		m.Inconclusive("L2 round %d: workers still running after 60s (watchdog)", seq)
		return
	}
	m.Count("L2_rounds", 1)
	e.c09CountServer("L2", srv, w)
}

func (e *c09Env) c09CountServer(layer string, srv *c09Server, w *c09World) {
	m := e.m
	m.Count(layer+"_udp_stale_datagrams_delivered_on_reused_socket", srv.lateDelivered.Load())
	m.Count(layer+"_udp_stale_datagrams_with_colliding_id", srv.lateDeliveredCollide.Load())
	m.Count(layer+"_udp_duplicates_sent", srv.dupDelivered.Load())
	m.Count(layer+"_tcp_closed_mid_stream", srv.tcpClosedMid.Load())
	m.Count(layer+"_tcp_reordered", srv.tcpReordered.Load())
	m.Count(layer+"_server_udp_queries", srv.udpQueries.Load())
	m.Count(layer+"_server_tcp_queries", srv.tcpQueries.Load())
	for _, uc := range w.snapshotCalls() {
		m.Count(layer+"_upstream_"+uc.Proto+"_"+uc.Beh, 1)
	}
}

// c09L2bRound drives DoUDP.ForwardDNS itself (built by newDnsForwarder, direct
// dialer): a query that the server answers late times out (the direct profile
// keeps the pooled socket), the next query reuses the socket, and the server
// then delivers the held answer in front of the right one. Sequential client,
// so the reuse is certain.
func (e *c09Env) c09L2bRound(r *rand.Rand, seq int) {
	m := e.m
	qs := c09RoundQuestions(r)
	w := c09NewWorld(r, qs)
	for _, q := range qs {
		w.setScript("udp", q.Name, c09Script(r, []c09Weighted{{c09OK, 30}, {c09Late, 25}, {c09DupLate, 15}, {c09Dup, 10}, {c09WrongID, 8}, {c09TC, 6}, {c09Short, 6}}))
	}
	srv, err := c09StartServer(w, m)
	if err != nil {
		m.Inconclusive("L2b: cannot start loopback server: %v", err)
		return
	}
	defer srv.stop()
	up := &componentdns.Upstream{Scheme: componentdns.UpstreamScheme_UDP, Hostname: srv.addr.Addr().String(), Port: srv.addr.Port(), Ip46: &netutils.Ip46{Ip4: srv.addr.Addr()}}
	fwd, err := newDnsForwarder(up, dialArgument{l4proto: consts.L4ProtoStr_UDP, ipversion: consts.IpVersionStr_4, bestDialer: e.direct, bestTarget: srv.addr}, e.log)
	if err != nil {
		m.Inconclusive("L2b: newDnsForwarder: %v", err)
		return
	}
	defer func() { _ = fwd.Close() }()
	var ops []*c09WireOp
	iters := 8 + r.IntN(10)
	timeout := time.Duration(25+r.IntN(25)) * time.Millisecond
	for i := 0; i < iters; i++ {
		q := qs[r.IntN(len(qs))]
		q.Name = c09MixCase(r, q.Name)
		id := uint16(7 + r.IntN(2))
		op := &c09WireOp{Seq: i, ID: id, Q: q.String(), Via: "udp", TCall: w.now()}
		ctx, cancel := context.WithTimeout(context.Background(), timeout)
		resp, err := fwd.ForwardDNS(ctx, c09QueryBytes(id, q))
		cancel()
		op.TRet = w.now()
		if err != nil {
			op.Err = err.Error()
		}
		if resp != nil {
			op.Resp = c09MsgString(resp)
		}
		ops = append(ops, op)
		m.Eval(1)
		kind := "error"
		if resp != nil && (err == nil || errors.Is(err, ErrDNSTruncated)) {
			kind = "answer"
			if err != nil {
				kind = "tc"
			}
			m.Count("L2b_doudp_ok", 1)
			opc := op
			c09JudgeMsg(m, "L2b/DoUDP.ForwardDNS", id, q, resp, true, func() any {
				calls := w.snapshotCalls()
				return map[string]any{"layer": "L2b", "round": seq, "server": srv.addr.String(), "timeout_ms": timeout.Milliseconds(),
					"script": c09ScriptString(w.script), "failing_op": opc, "ops": ops, "server_log": calls}
			})
		} else {
			m.Count("L2b_doudp_errors", 1)
		}
		m.Distinct(fmt.Sprintf("L2b|%s|%s", kind, strings.Join(strings.Fields(fmt.Sprint(c09ScriptString(w.script)[("udp|"+q.canon())])), "")))
	}
	m.Count("L2b_rounds", 1)
	e.c09CountServer("L2b", srv, w)
}

// ---- L3: the whole controller over the real transports ---------------------------------

var c09L3UDPWeights = []c09Weighted{{c09OK, 34}, {c09Dup, 12}, {c09DupLate, 14}, {c09PrevQ, 8}, {c09WrongQ, 6}, {c09WrongType, 3},
	{c09WrongID, 6}, {c09TC, 6}, {c09Short, 4}, {c09Garbage, 3}, {c09TTL0, 4}}
var c09L3TCPWeights = []c09Weighted{{c09OK, 40}, {c09Slow, 10}, {c09Dup, 8}, {c09DupLate, 8}, {c09Reorder, 10}, {c09PrevQ, 8}, {c09WrongQ, 6}, {c09CloseMid, 8}, {c09TTL0, 2}}

func (e *c09Env) c09L3Round(r *rand.Rand, seq int) {
	m := e.m
	qs := c09RoundQuestions(r)
	w := c09NewWorld(r, qs)
	srv, err := c09StartServer(w, m)
	if err != nil {
		m.Inconclusive("L3: cannot start loopback server: %v", err)
		return
	}
	defer srv.stop()
	// a UDP upstream that only ever gives wrong answers makes dae wait for its
	// 5s resolution timeout (a constant we do not edit): here the right answer
	// follows the wrong one; the wrong-only server is covered by L2 with short
	// contexts.
	srv.followUp.Store(true)
	tp := c09Topology{name: "L3-asis-udp", scheme: "asis", dsts: []netip.AddrPort{srv.addr}, real: true}
	switch r.IntN(3) {
	case 0:
		tp = c09Topology{name: "L3-tcp+udp", scheme: "tcp+udp", upstream: srv.addr, dsts: []netip.AddrPort{srv.addr}, real: true}
	case 1:
		tp = c09Topology{name: "L3-tcp", scheme: "tcp", upstream: srv.addr, dsts: []netip.AddrPort{srv.addr}, real: true}
	}
	for _, q := range qs {
		us := c09Script(r, c09L3UDPWeights)
		if tp.scheme == "tcp+udp" && r.IntN(2) == 0 {
			us = []c09Beh{[]c09Beh{c09TC, c09Garbage}[r.IntN(2)]}
		}
		w.setScript("udp", q.Name, us)
		w.setScript("tcp", q.Name, c09Script(r, c09L3TCPWeights))
	}
	dnsForwarderFactory = newDnsForwarder
	ctrl, err := e.c09NewController(tp, nil)
	if err != nil {
		m.Inconclusive("L3: cannot build controller: %v", err)
		return
	}
	rd := &c09Round{layer: "L3", tp: tp, seq: seq, qs: qs, world: w}
	// two waves so that pooled sockets / pipelined connections are reused by
	// later, different questions with colliding IDs.
	c09GenClients(r, rd, 6+r.IntN(20), false)
	rd.tail = 6 + r.IntN(12)
	if r.IntN(2) == 0 {
		for _, c := range rd.clients {
			c.Stagger = 0
		}
	}
	if m.WantSample() && seq%7 == 0 {
		m.Sample(map[string]any{"layer": "L3", "topology": tp.name, "script": c09ScriptString(w.script), "clients": len(rd.clients)})
	}
	e.c09RunRound(r, rd, ctrl)
	_ = ctrl.Close()
	e.c09CountServer("L3", srv, w)
}
