package control

// C08 monitor: the DNS cache serves only live, correctly scoped answers with
// truthful TTLs (freshness, optimistic stale window with a single refresh,
// scope, TTL slack, fixed_domain_ttl, LRU order).
//
// Technique: runtime monitoring. Many short, concurrent histories drive the
// REAL DnsController (NewDnsController, NewCache closure shaped like
// ControlPlane.dnsControllerOption, inserts only via NormalizeAndCacheDnsResp_
// / UpdateDnsCacheTtlWithKey / backgroundRefresh / HandleWithResponseWriter_).
// Every inserted answer carries a unique token in its RDATA, so that a served
// answer names the insert it came from; the oracle then decides scope,
// generation and liveness from the token and from *measured brackets* [t0,t1]
// around each call relative to the entry's own Deadline (read once from the
// stored entry right after the insert and cross-checked against the insert
// bracket + TTL). No verdict is drawn unless the bracket lies entirely on one
// side of a boundary by c08Eps.
//
// Documented TTL slack: control/dns_cache.go:17-22 `ttlRefreshThresholdSeconds
// = 15` ("Pre-packed response is refreshed when TTL difference exceeds this
// value ... 15s variance is negligible for DNS caching") and the comment above
// LookupDnsRespCache_ in control/dns_control.go ("TTL is refreshed when
// difference exceeds ttlRefreshThresholdSeconds (15 seconds by default)").

import (
	"context"
	"encoding/json"
	"errors"
	"fmt"
	"io"
	"math/rand/v2"
	"net"
	"net/netip"
	"os"
	"runtime"
	"sort"
	"strconv"
	"strings"
	"sync"
	"sync/atomic"
	"testing"
	"time"

	"github.com/daeuniverse/dae/common/consts"
	componentdns "github.com/daeuniverse/dae/component/dns"
	"github.com/daeuniverse/dae/config"
	vk "github.com/daeuniverse/dae/verifkit"
	dnsmessage "github.com/miekg/dns"
	"github.com/sirupsen/logrus"
)

const (
	c08Eps         = 2 * time.Millisecond // guard around every boundary
	c08SlackSecond = 15                   // documented approximation slack (see header)
)

// ---- configuration cell ---------------------------------------------------

type c08Cfg struct {
	Opt   bool   `json:"optimistic_cache"`
	Stale int    `json:"optimistic_cache_ttl"`
	Max   int    `json:"max_cache_size"`
	Fixed string `json:"fixed_domain_ttl"` // none | shorter | longer | zero
}

func (c c08Cfg) cell() string {
	return fmt.Sprintf("opt=%v,stale=%d,max=%d,fixed=%s", c.Opt, c.Stale, c.Max, c.Fixed)
}

// window returns the configured stale window. unlimited: optimistic_cache_ttl=0
// with a size limit is documented as "never expire (rely on LRU eviction)".
// optimistic_cache_ttl=0 without a size limit is normalised to 60 s by
// normalizeDnsRuntimeBehavior while example.dae says "never expire": inside 60 s
// both readings say "serve", and no history reaches 60 s, so 60 s is used.
func (c c08Cfg) window() (w time.Duration, unlimited bool) {
	if !c.Opt {
		return 0, false
	}
	if c.Stale > 0 {
		return time.Duration(c.Stale) * time.Second, false
	}
	if c.Max > 0 {
		return 0, true
	}
	return 60 * time.Second, false
}

// ---- token registry ---------------------------------------------------------

type c08Key struct {
	LName string // lower-cased fqdn
	Qtype uint16
	Scope string // "ep@<resolver addr:port>" the answer was obtained from
}

func (k c08Key) String() string {
	return k.LName + "/" + strconv.Itoa(int(k.Qtype)) + "/" + k.Scope
}

// c08Gen is one insert (one generation of one key).
type c08Gen struct {
	Tok      uint32
	Key      c08Key
	Line     int    // owning history
	TTL      uint32 // TTL carried by the inserted answer
	Via      string // normalize | updatettl | upstream
	Mixed    bool   // question name was mixed-case at insert
	T0, T1   time.Time
	FwdStart time.Time // upstream gens: when the stub upstream was entered
	D, OD    time.Time // Deadline / OriginalDeadline as stored
	known    bool
	adopted  bool // was observed as the published entry of its key at some point
}

func c08Mark(g *c08Gen) *c08Gen {
	if g != nil {
		g.adopted = true
	}
	return g
}

var c08Reg struct {
	mu   sync.Mutex
	gens []*c08Gen
}

func c08NewGen(k c08Key, line int, ttl uint32, via string) *c08Gen {
	g := &c08Gen{Key: k, Line: line, TTL: ttl, Via: via}
	c08Reg.mu.Lock()
	c08Reg.gens = append(c08Reg.gens, g)
	g.Tok = uint32(len(c08Reg.gens))
	c08Reg.mu.Unlock()
	return g
}

func c08GenOf(tok uint32) *c08Gen {
	c08Reg.mu.Lock()
	defer c08Reg.mu.Unlock()
	if tok == 0 || int(tok) > len(c08Reg.gens) {
		return nil
	}
	return c08Reg.gens[tok-1]
}

func c08RR(name string, qtype uint16, ttl uint32, tok uint32) dnsmessage.RR {
	hdr := dnsmessage.RR_Header{Name: name, Rrtype: qtype, Class: dnsmessage.ClassINET, Ttl: ttl}
	switch qtype {
	case dnsmessage.TypeA:
		return &dnsmessage.A{Hdr: hdr, A: net.IPv4(10, byte(tok>>16), byte(tok>>8), byte(tok)).To4()}
	case dnsmessage.TypeAAAA:
		ip := make(net.IP, 16)
		ip[0], ip[1] = 0xfd, 0x08
		ip[12], ip[13], ip[14], ip[15] = byte(tok>>24), byte(tok>>16), byte(tok>>8), byte(tok)
		return &dnsmessage.AAAA{Hdr: hdr, AAAA: ip}
	default:
		hdr.Rrtype = dnsmessage.TypeTXT
		return &dnsmessage.TXT{Hdr: hdr, Txt: []string{"tok=" + strconv.FormatUint(uint64(tok), 10)}}
	}
}

func c08TokOf(rr dnsmessage.RR) (uint32, bool) {
	switch b := rr.(type) {
	case *dnsmessage.A:
		ip := b.A.To4()
		if ip == nil || ip[0] != 10 {
			return 0, false
		}
		return uint32(ip[1])<<16 | uint32(ip[2])<<8 | uint32(ip[3]), true
	case *dnsmessage.AAAA:
		ip := b.AAAA.To16()
		if ip == nil || ip[0] != 0xfd || ip[1] != 0x08 {
			return 0, false
		}
		return uint32(ip[12])<<24 | uint32(ip[13])<<16 | uint32(ip[14])<<8 | uint32(ip[15]), true
	case *dnsmessage.TXT:
		if len(b.Txt) == 1 && strings.HasPrefix(b.Txt[0], "tok=") {
			v, err := strconv.ParseUint(b.Txt[0][4:], 10, 32)
			return uint32(v), err == nil
		}
	}
	return 0, false
}

// ---- stub upstream (injected through the package's dnsForwarderFactory) --------

const (
	c08ModeOK   = 0
	c08ModeFail = 1
	c08ModeGate = 2 // flag: block until the gate is opened (or ctx ends)
)

type c08FwdEvent struct {
	Start, End time.Time
	Tok        uint32
	Err        bool
}

type c08Plan struct {
	line        int
	mode        atomic.Int32
	ttl         atomic.Uint32
	gate        atomic.Pointer[chan struct{}]
	calls       atomic.Int32
	inflight    atomic.Int32
	maxInflight atomic.Int32
	mu          sync.Mutex
	events      []c08FwdEvent
}

func (p *c08Plan) record(e c08FwdEvent) {
	p.mu.Lock()
	p.events = append(p.events, e)
	p.mu.Unlock()
}

func (p *c08Plan) lastEvent() (e c08FwdEvent, n int) {
	p.mu.Lock()
	defer p.mu.Unlock()
	n = len(p.events)
	if n > 0 {
		e = p.events[n-1]
	}
	return
}

var c08Plans sync.Map // lower-cased fqdn -> *c08Plan

type c08Fwd struct{ target netip.AddrPort }

func (f *c08Fwd) Close() error { return nil }

func (f *c08Fwd) ForwardDNS(ctx context.Context, data []byte) (*dnsmessage.Msg, error) {
	var q dnsmessage.Msg
	if err := q.Unpack(data); err != nil || len(q.Question) == 0 {
		return nil, errors.New("c08 stub upstream: bad query")
	}
	qq := q.Question[0]
	v, ok := c08Plans.Load(strings.ToLower(qq.Name))
	if !ok {
		return nil, errors.New("c08 stub upstream: unknown name")
	}
	p := v.(*c08Plan)
	start := time.Now()
	p.calls.Add(1)
	n := p.inflight.Add(1)
	for {
		old := p.maxInflight.Load()
		if n <= old || p.maxInflight.CompareAndSwap(old, n) {
			break
		}
	}
	defer p.inflight.Add(-1)
	mode := p.mode.Load()
	if mode&c08ModeGate != 0 {
		if gp := p.gate.Load(); gp != nil {
			select {
			case <-*gp:
			case <-ctx.Done():
				p.record(c08FwdEvent{Start: start, End: time.Now(), Err: true})
				return nil, ctx.Err()
			}
		}
	}
	if mode&c08ModeFail != 0 {
		p.record(c08FwdEvent{Start: start, End: time.Now(), Err: true})
		return nil, errors.New("c08 stub upstream: unreachable")
	}
	ttl := p.ttl.Load()
	g := c08NewGen(c08Key{LName: strings.ToLower(qq.Name), Qtype: qq.Qtype, Scope: "ep@" + f.target.String()}, p.line, ttl, "upstream")
	g.FwdStart = start
	g.Mixed = qq.Name != strings.ToLower(qq.Name)
	resp := new(dnsmessage.Msg)
	resp.SetReply(&q)
	resp.RecursionAvailable = true
	resp.Answer = []dnsmessage.RR{c08RR(qq.Name, qq.Qtype, ttl, g.Tok)} // real upstreams echo the question's case
	g.T0 = time.Now()
	p.record(c08FwdEvent{Start: start, End: g.T0, Tok: g.Tok})
	return resp, nil
}

var c08ChooserFail sync.Map // *udpRequest -> struct{}: "no alive dialer" fault

func c08Chooser(ctx context.Context, req *udpRequest, upstream *componentdns.Upstream) (*dialArgument, error) {
	if req != nil {
		if _, bad := c08ChooserFail.Load(req); bad {
			return nil, errors.New("c08: no alive dialer")
		}
	}
	target := netip.AddrPort{}
	if upstream != nil {
		if a, err := netip.ParseAddr(upstream.Hostname); err == nil {
			target = netip.AddrPortFrom(a, upstream.Port)
		}
	}
	if !target.IsValid() && req != nil {
		target = req.realDst
	}
	ipv := consts.IpVersionStr_4
	if target.Addr().Is6() {
		ipv = consts.IpVersionStr_6
	}
	return &dialArgument{l4proto: consts.L4ProtoStr_UDP, ipversion: ipv, bestTarget: target}, nil
}

// ---- controller construction (production constructor and closure shape) --------

type c08Env struct {
	m       *vk.Monitor
	routing *componentdns.Dns
	log     *logrus.Logger
	start   time.Time
}

func c08Bitmap(fqdn string) []uint32 { return []uint32{uint32(len(fqdn))} }

func (e *c08Env) newCtrl(cfg c08Cfg, fixed map[string]int) (*DnsController, error) {
	return NewDnsController(e.routing, e.option(cfg, fixed))
}

// option builds the controller option the daemon would build for this
// configuration (also used for runtime updates / reload reuse).
func (e *c08Env) option(cfg c08Cfg, fixed map[string]int) *DnsControllerOption {
	return &DnsControllerOption{
		Log:                 e.log,
		LifecycleContext:    context.Background(),
		CacheAccessCallback: func(*DnsCache) error { return nil },
		CacheRemoveCallback: func(*DnsCache) error { return nil },
		CacheDeleteCallback: func(string, *DnsCache) error { return nil },
		// Same shape as ControlPlane.dnsControllerOption().NewCache (control_plane.go:1247).
		NewCache: func(fqdn string, answers, ns, extra []dnsmessage.RR, deadline time.Time, originalDeadline time.Time) (cache *DnsCache, err error) {
			return &DnsCache{
				DomainBitmap:     c08Bitmap(fqdn),
				NS:               ns,
				Extra:            extra,
				Answer:           answers,
				Deadline:         deadline,
				OriginalDeadline: originalDeadline,
			}, nil
		},
		BestDialerChooser:  c08Chooser,
		OptimisticCache:    cfg.Opt,
		OptimisticCacheTtl: cfg.Stale,
		MaxCacheSize:       cfg.Max,
		FixedDomainTtl:     fixed,
	}
}

// ---- history state ------------------------------------------------------------

type c08Scope struct {
	label string // oracle's scope id
	dst   netip.AddrPort
	idx   consts.DnsRequestOutboundIndex
	up    *componentdns.Upstream
}

func c08AsIs(dst string) c08Scope {
	ap := netip.MustParseAddrPort(dst)
	return c08Scope{label: "ep@" + ap.String(), dst: ap, idx: consts.DnsRequestOutboundIndex_AsIs}
}

func c08Up(host string, port uint16) c08Scope {
	ap := netip.AddrPortFrom(netip.MustParseAddr(host), port)
	return c08Scope{label: "ep@" + ap.String(), dst: netip.MustParseAddrPort("192.0.2.53:53"), idx: 0,
		up: &componentdns.Upstream{Scheme: "udp", Hostname: host, Port: port}}
}

var c08AsIsPool = []string{"8.8.8.8:53", "1.1.1.1:53", "8.8.8.8:5353", "[2001:4860:4860::8888]:53", "8.8.4.4:53"}
var c08UpPool = []string{"9.9.9.9", "149.112.112.112", "2620:fe::fe"}

func (s c08Scope) req(r *rand.Rand) *udpRequest {
	return &udpRequest{
		realSrc:       netip.AddrPortFrom(netip.AddrFrom4([4]byte{192, 0, 2, byte(10 + r.IntN(200))}), uint16(20000+r.IntN(30000))),
		realDst:       s.dst,
		routingResult: &bpfRoutingResult{},
	}
}

type c08Slot struct {
	gen      *c08Gen
	since    time.Time // instant from which gen is known to be the published entry
	gone     bool      // not there any more (legitimately removed, or its loss already reported)
	inFlight bool      // a needRefresh=true was handed out and that refresh has not completed
	failed   int       // completed failed refreshes of this generation
	lru      bool      // may have been evicted for size
}

type c08Ctrl struct {
	id    int
	c     *DnsController
	by    string // insert | clone
	slots map[c08Key]*c08Slot
}

type c08Hist struct {
	env   *c08Env
	id    int
	kind  string
	r     *rand.Rand
	cfg   c08Cfg
	name  string
	fixed map[string]int
	fttl  int
	start time.Time
	trace []string
	seen  map[string]bool // violation signatures already reported by this history
	ctrls []*c08Ctrl
	plan  *c08Plan
	// sigCtx is appended to every violation signature of this history: the
	// runtime-update histories name the kind of the last update there.
	sigCtx string
	// perName: fixed is read per name (the reload hand-over histories use several
	// names with different fixed_domain_ttl entries, and the map changes from one
	// generation to the next); otherwise fixed/fttl describe the one name of the history.
	perName bool
}

func (h *c08Hist) tr(format string, a ...any) {
	if len(h.trace) < 400 {
		h.trace = append(h.trace, fmt.Sprintf("+%.1fms ", float64(time.Since(h.start).Microseconds())/1000)+fmt.Sprintf(format, a...))
	}
}

func (h *c08Hist) violate(sig, what string, extra map[string]any) {
	sig += h.sigCtx
	if h.seen[sig] {
		h.env.m.Count("repeat_violation_suppressed", 1)
		return
	}
	h.seen[sig] = true
	h.env.m.Count("histories_reporting:"+sig, 1)
	w := map[string]any{"history": h.id, "kind": h.kind, "config": h.cfg, "name": h.name,
		"fixed_domain_ttl_map": h.fixed, "trace": h.trace}
	for k, v := range extra {
		w[k] = v
	}
	if dir := os.Getenv("VERIF_C08_DEBUG"); dir != "" { // development aid: one witness per signature
		fn := dir + "/" + strings.NewReplacer("/", "_", "=", "-").Replace(sig) + ".json"
		if _, err := os.Stat(fn); err != nil {
			if b, err := json.MarshalIndent(map[string]any{"sig": sig, "what": what, "witness": w}, "", " "); err == nil {
				_ = os.WriteFile(fn, b, 0o644)
			}
		}
	}
	h.env.m.Violation(sig, what, w)
}

func (h *c08Hist) guard(where string) {
	if r := recover(); r != nil {
		h.violate("panic/"+where, fmt.Sprintf("code under test panicked: %v", r), nil)
	}
}

func (h *c08Hist) newCtrl(by string) *c08Ctrl {
	c, err := h.env.newCtrl(h.cfg, h.fixed)
	if err != nil {
		h.env.m.Inconclusive("NewDnsController failed: %v", err)
		return nil
	}
	cc := &c08Ctrl{id: len(h.ctrls), c: c, by: by, slots: map[c08Key]*c08Slot{}}
	h.ctrls = append(h.ctrls, cc)
	return cc
}

func (h *c08Hist) closeAll() {
	for _, cc := range h.ctrls {
		_ = cc.c.Close()
	}
}

func c08Case(r *rand.Rand, s string, mixed bool) string {
	if !mixed {
		return strings.ToLower(s)
	}
	b := []byte(strings.ToLower(s))
	changed := false
	for i := range b {
		if b[i] >= 'a' && b[i] <= 'z' && r.IntN(2) == 0 {
			b[i] -= 32
			changed = true
		}
	}
	if !changed {
		for i := range b {
			if b[i] >= 'a' && b[i] <= 'z' {
				b[i] -= 32
				break
			}
		}
	}
	return string(b)
}

func (h *c08Hist) keyString(cc *c08Ctrl, name string, qtype uint16, sc c08Scope, req *udpRequest) string {
	base := cc.c.cacheKey(name, qtype)
	return cc.c.responseCacheKey(base, req, sc.idx, sc.up)
}

func c08Sleep(at time.Time) {
	if d := time.Until(at); d > 0 {
		time.Sleep(d)
	}
}

// effective TTL the oracle expects for this history's names.
func (h *c08Hist) effTTL(ttl uint32) time.Duration {
	if h.fixed != nil {
		return time.Duration(h.fttl) * time.Second
	}
	return time.Duration(ttl) * time.Second
}

// effFor: effective TTL, whether a fixed_domain_ttl entry is configured for the
// generation's name in the configuration in force, its value, a label for it and the
// prefix of the evidence counters.
func (h *c08Hist) effFor(g *c08Gen) (eff time.Duration, fixedOn bool, fttl int, label, ctr string) {
	if !h.perName {
		return h.effTTL(g.TTL), h.fixed != nil, h.fttl, h.cfg.Fixed, "deadline_matches_fixed_ttl_"
	}
	v, ok := h.fixed[strings.TrimSuffix(g.Key.LName, ".")]
	if !ok {
		return time.Duration(g.TTL) * time.Second, false, 0, "none", "handover_deadline_matches_fixed_ttl_"
	}
	switch {
	case v == 0:
		label = "zero"
	case uint32(v) < g.TTL:
		label = "shorter"
	case uint32(v) > g.TTL:
		label = "longer"
	default:
		label = "equal"
	}
	return time.Duration(v) * time.Second, true, v, label, "handover_deadline_matches_fixed_ttl_"
}

// learn reads the stored entry of a key and, the first time a generation is
// seen, records its Deadline/OriginalDeadline and validates them against the
// insert bracket.
func (h *c08Hist) learn(cc *c08Ctrl, ks string) (*c08Gen, *DnsCache) {
	v, ok := cc.c.dnsCache.Load(ks)
	if !ok {
		return nil, nil
	}
	e, _ := v.(*DnsCache)
	if e == nil || len(e.Answer) == 0 {
		return nil, e
	}
	tok, ok := c08TokOf(e.Answer[0])
	if !ok {
		return nil, e
	}
	g := c08GenOf(tok)
	if g == nil || g.Line != h.id {
		return nil, e
	}
	if !g.known {
		g.D, g.OD = e.Deadline, e.OriginalDeadline
		if g.T1.IsZero() {
			g.T1 = time.Now()
		}
		g.known = true
		h.validateDeadline(g)
	}
	return g, e
}

func (h *c08Hist) validateDeadline(g *c08Gen) {
	m := h.env.m
	eff, fixedOn, fttl, label, ctr := h.effFor(g)
	in := func(d time.Duration) bool {
		return !g.D.Before(g.T0.Add(d-c08Eps)) && !g.D.After(g.T1.Add(d+c08Eps))
	}
	switch {
	case in(eff):
		m.Count("deadline_matches_ttl", 1)
		if fixedOn {
			m.Count(ctr+label, 1)
		}
	case fixedOn && g.Mixed && eff != time.Duration(g.TTL)*time.Second && in(time.Duration(g.TTL)*time.Second):
		h.violate("fixed-ttl-ignored/mixed-case-name",
			fmt.Sprintf("fixed_domain_ttl=%ds configured for this name but the entry inserted under a mixed-case spelling got Deadline = insert + upstream TTL %ds", fttl, g.TTL),
			map[string]any{"key": g.Key.String(), "via": g.Via, "upstream_ttl": g.TTL, "fixed_ttl": fttl,
				"deadline_minus_insert_ms": [2]float64{ms(g.D.Sub(g.T1)), ms(g.D.Sub(g.T0))}})
	case g.D.After(g.T1.Add(eff + c08Eps)):
		h.violate("deadline-later-than-ttl/fixed="+label,
			fmt.Sprintf("stored Deadline is later than insert time + effective TTL (%v)", eff),
			map[string]any{"key": g.Key.String(), "via": g.Via, "upstream_ttl": g.TTL,
				"deadline_minus_insert_ms": [2]float64{ms(g.D.Sub(g.T1)), ms(g.D.Sub(g.T0))}})
	default:
		h.violate("deadline-earlier-than-ttl/fixed="+label,
			fmt.Sprintf("stored Deadline is earlier than insert time + effective TTL (%v)", eff),
			map[string]any{"key": g.Key.String(), "via": g.Via, "upstream_ttl": g.TTL,
				"deadline_minus_insert_ms": [2]float64{ms(g.D.Sub(g.T1)), ms(g.D.Sub(g.T0))}})
	}
	// OriginalDeadline is not observable through any production lookup
	// (ignoreFixedTtl is always false there): record only.
	od := time.Duration(g.TTL) * time.Second
	if !g.OD.Before(g.T0.Add(od-c08Eps)) && !g.OD.After(g.T1.Add(od+c08Eps)) {
		m.Count("original_deadline_matches_ttl", 1)
	} else {
		m.Count("original_deadline_off", 1)
	}
}

func ms(d time.Duration) float64 { return float64(d.Microseconds()) / 1000 }

// ---- production-path operations -------------------------------------------------

// insert stores a new generation through NormalizeAndCacheDnsResp_ or
// UpdateDnsCacheTtlWithKey, exactly as dialSend does.
func (h *c08Hist) insert(cc *c08Ctrl, name string, qtype uint16, sc c08Scope, ttl uint32) *c08Gen {
	defer h.guard("insert")
	k := c08Key{LName: strings.ToLower(name), Qtype: qtype, Scope: sc.label}
	via := "normalize"
	if h.r.IntN(3) == 0 {
		via = "updatettl"
	}
	g := c08NewGen(k, h.id, ttl, via)
	g.Mixed = name != strings.ToLower(name)
	req := sc.req(h.r)
	ks := h.keyString(cc, name, qtype, sc, req)
	nrr := 1 + h.r.IntN(2)
	var ans []dnsmessage.RR
	for i := 0; i < nrr; i++ {
		ans = append(ans, c08RR(name, qtype, ttl, g.Tok))
	}
	var err error
	if via == "normalize" {
		msg := new(dnsmessage.Msg)
		msg.SetQuestion(name, qtype)
		msg.Response = true
		msg.RecursionAvailable = true
		msg.Answer = ans
		g.T0 = time.Now()
		err = cc.c.NormalizeAndCacheDnsResp_(msg, ks)
		g.T1 = time.Now()
	} else {
		g.T0 = time.Now()
		err = cc.c.UpdateDnsCacheTtlWithKey(ks, name, qtype, ans, nil, nil, int(ttl))
		g.T1 = time.Now()
	}
	h.tr("insert ctrl=%d %s q=%q ttl=%d via=%s tok=%d err=%v", cc.id, k, name, ttl, via, g.Tok, err)
	h.env.m.Count("inserts_"+via, 1)
	if err != nil {
		h.env.m.Count("insert_errors", 1)
		return nil
	}
	got, e := h.learn(cc, ks)
	if got != g {
		h.violate("insert-not-stored", "entry is not in the cache under the production key right after the production insert returned",
			map[string]any{"key": k.String(), "cache_key": ks})
		return nil
	}
	if e != nil && e.deadlineNano.Load() == 0 {
		h.env.m.Count("insert_left_deadlineNano_zero", 1) // evidence only; the verdicts come from lookups
	}
	h.tr("  stored D=insert+[%.1f,%.1f]ms", ms(g.D.Sub(g.T1)), ms(g.D.Sub(g.T0)))
	cc.slots[k] = &c08Slot{gen: c08Mark(g), since: g.T1}
	return g
}

type c08Obs struct {
	cc          *c08Ctrl
	key         c08Key
	how         string // lookup | handle
	t0, t1      time.Time
	served      bool
	bad         string // decode problem
	tok         uint32
	ttls        []uint32
	needRefresh bool
	packed      bool
}

func c08Decode(o *c08Obs, resp []byte) {
	var msg dnsmessage.Msg
	if err := msg.Unpack(resp); err != nil {
		o.bad = "unpack: " + err.Error()
		return
	}
	c08DecodeMsg(o, &msg)
}

func c08DecodeMsg(o *c08Obs, msg *dnsmessage.Msg) {
	if len(msg.Answer) == 0 {
		o.bad = "served response has no answer"
		return
	}
	for i, rr := range msg.Answer {
		tok, ok := c08TokOf(rr)
		if !ok {
			o.bad = "answer without token"
			return
		}
		if i == 0 {
			o.tok = tok
		} else if tok != o.tok {
			o.bad = "answers of different inserts mixed in one response"
			return
		}
		o.ttls = append(o.ttls, rr.Header().Ttl)
	}
	for _, rr := range msg.Ns {
		o.ttls = append(o.ttls, rr.Header().Ttl)
	}
}

// lookup performs n concurrent LookupDnsRespCache_ calls (n=1: a single call)
// the way HandleWithResponseWriter_ does and judges each.
func (h *c08Hist) lookup(cc *c08Ctrl, lname string, qtype uint16, sc c08Scope, n int, mixed bool) (anyRefresh bool, req *udpRequest, qmsg *dnsmessage.Msg) {
	k := c08Key{LName: lname, Qtype: qtype, Scope: sc.label}
	obs := make([]c08Obs, n)
	msgs := make([]*dnsmessage.Msg, n)
	reqs := make([]*udpRequest, n)
	keys := make([]string, n)
	for i := range obs {
		q := c08Case(h.r, lname, mixed && h.r.IntN(2) == 0)
		msgs[i] = new(dnsmessage.Msg)
		msgs[i].SetQuestion(q, qtype)
		reqs[i] = sc.req(h.r)
		keys[i] = h.keyString(cc, q, qtype, sc, reqs[i])
		obs[i] = c08Obs{cc: cc, key: k, how: "lookup"}
	}
	panics := make([]any, n)
	one := func(i int) {
		defer func() { panics[i] = recover() }()
		m := msgs[i].Copy() // LookupDnsRespCache_ mutates its message
		obs[i].t0 = time.Now()
		resp, nr := cc.c.LookupDnsRespCache_(m, keys[i], false)
		obs[i].t1 = time.Now()
		obs[i].needRefresh = nr
		if resp != nil {
			obs[i].served = true
			if v, ok := cc.c.dnsCache.Load(keys[i]); ok {
				if p := v.(*DnsCache).GetPackedResponse(); len(p) > 0 && len(resp) > 0 && &p[0] == &resp[0] {
					obs[i].packed = true
				}
			}
			c08Decode(&obs[i], resp)
		}
	}
	if n == 1 {
		one(0)
	} else {
		var wg sync.WaitGroup
		gate := make(chan struct{})
		for i := 0; i < n; i++ {
			wg.Add(1)
			go func(i int) { defer wg.Done(); <-gate; one(i) }(i)
		}
		close(gate)
		wg.Wait()
		h.env.m.Count("concurrent_lookup_bursts", 1)
	}
	order := make([]int, n)
	for i := range order {
		order[i] = i
	}
	sort.Slice(order, func(a, b int) bool { return obs[order[a]].t0.Before(obs[order[b]].t0) }) // judge in time order
	for _, i := range order {
		if panics[i] != nil {
			h.violate("panic/lookup", fmt.Sprintf("LookupDnsRespCache_ panicked: %v", panics[i]), map[string]any{"key": k.String()})
			continue
		}
		h.judge(&obs[i])
		if obs[i].needRefresh {
			anyRefresh = true
			req, qmsg = reqs[i], msgs[i]
		}
	}
	return
}

// pos classifies a bracket relative to a generation's lifetime.
// rel: -1 fresh, 0 straddles the deadline, 1 inside the stale window,
// 2 straddles the window end, 3 beyond everything.
func (h *c08Hist) pos(g *c08Gen, t0, t1 time.Time) (rel int, class string) {
	D := g.D
	if t1.Before(D.Add(-c08Eps)) {
		if D.Sub(t1) > 100*time.Millisecond {
			return -1, "fresh-far"
		}
		return -1, "fresh-near"
	}
	if !t0.After(D.Add(c08Eps)) {
		return 0, "at-deadline"
	}
	w, unlimited := h.cfg.window()
	if !h.cfg.Opt {
		if t0.Sub(D) > 100*time.Millisecond {
			return 3, "expired-far"
		}
		return 3, "expired-near"
	}
	if unlimited {
		return 1, "stale-unlimited"
	}
	E := D.Add(w)
	if t1.Before(E.Add(-c08Eps)) {
		switch {
		case t0.Sub(D) < 100*time.Millisecond:
			return 1, "stale-near-start"
		case E.Sub(t1) < 100*time.Millisecond:
			return 1, "stale-near-end"
		}
		return 1, "stale-mid"
	}
	if !t0.After(E.Add(c08Eps)) {
		return 2, "at-window-end"
	}
	if t0.Sub(E) > 100*time.Millisecond {
		return 3, "post-far"
	}
	return 3, "post-near"
}

func (h *c08Hist) relMs(g *c08Gen, o *c08Obs) [2]float64 {
	return [2]float64{ms(o.t0.Sub(g.D)), ms(o.t1.Sub(g.D))}
}

// judge is the oracle for one lookup / one client query.
func (h *c08Hist) judge(o *c08Obs) {
	m := h.env.m
	m.Eval(1)
	cell := h.cfg.cell()
	cc := o.cc
	slot := cc.slots[o.key]
	w, unlimited := h.cfg.window()

	if !o.served {
		if slot == nil || slot.gen == nil {
			m.Count("miss_never_inserted", 1)
			m.Distinct(cell + "|never-inserted|miss|" + cc.by)
			h.tr("%s ctrl=%d %s -> miss (never inserted)", o.how, cc.id, o.key)
			return
		}
		g := slot.gen
		if slot.gone {
			m.Count("miss_after_removal", 1)
			return
		}
		if !g.known {
			m.Count("verdict_skipped_unknown_deadline", 1)
			return
		}
		rel, class := h.pos(g, o.t0, o.t1)
		h.tr("%s ctrl=%d %s -> NOT served, bracket=D%+.1f..%+.1fms class=%s", o.how, cc.id, o.key, ms(o.t0.Sub(g.D)), ms(o.t1.Sub(g.D)), class)
		extra := map[string]any{"key": o.key.String(), "controller_created_by": cc.by, "token": g.Tok, "class": class,
			"bracket_rel_deadline_ms": h.relMs(g, o), "stale_window_s": w.Seconds(), "unlimited_window": unlimited,
			"failed_refreshes_before": slot.failed}
		switch {
		case rel == -1:
			slot.gone = true
			if slot.lru {
				m.Count("fresh_miss_possible_lru", 1)
				return
			}
			h.violate("fresh-not-served/"+cc.by, "lookup entirely before the entry's Deadline returned nothing", extra)
		case h.cfg.Opt && (rel == 0 || rel == 1):
			slot.gone = true
			if slot.lru {
				m.Count("stale_miss_possible_lru", 1)
				return
			}
			sig := "stale-not-served-in-window/" + cc.by
			what := "optimistic cache on: lookup after Deadline and entirely inside the configured stale window returned nothing"
			if slot.failed > 0 {
				sig += "/after-failed-refresh"
				what += " (after a background refresh of the entry had failed)"
			}
			h.violate(sig, what, extra)
		case rel == 3:
			slot.gone = true
			if h.cfg.Opt {
				m.Count("beyond_window_not_served", 1)
			} else {
				m.Count("expired_not_served", 1)
			}
			m.Distinct(cell + "|" + class + "|none|" + cc.by)
		default:
			slot.gone = true
			m.Count("ambiguous_not_served", 1)
		}
		return
	}

	// ---- served
	if o.bad != "" {
		h.violate("served-undecodable/"+o.how, "served bytes are not a well-formed answer of one insert: "+o.bad, map[string]any{"key": o.key.String()})
		return
	}
	g := c08GenOf(o.tok)
	if g == nil {
		h.violate("served-unattributable", "served answer matches no insert", map[string]any{"key": o.key.String(), "token": o.tok})
		return
	}
	if g.Key != o.key || g.Line != h.id {
		diff := "name"
		switch {
		case g.Line != h.id:
			diff = "other-controller"
		case g.Key.LName != o.key.LName:
			diff = "name"
		case g.Key.Qtype != o.key.Qtype:
			diff = "qtype"
		default:
			diff = "upstream-scope"
		}
		h.tr("%s ctrl=%d %s -> served tok=%d of %s", o.how, cc.id, o.key, g.Tok, g.Key)
		h.violate("wrong-scope/"+diff, "answer served for a different name/type/upstream scope than it was obtained for",
			map[string]any{"asked": o.key.String(), "answer_obtained_for": g.Key.String(), "token": g.Tok})
		return
	}
	m.Count("scope_match_checked", 1)
	if slot == nil {
		slot = &c08Slot{gen: c08Mark(g), since: o.t1}
		cc.slots[o.key] = slot
	}
	if slot.gen == nil || g.Tok > slot.gen.Tok {
		// a newer generation became visible (asynchronous refresh): adopt it
		slot.gen, slot.gone, slot.inFlight, slot.failed, slot.since = c08Mark(g), false, false, 0, o.t1
		m.Count("adopted_newer_generation", 1)
	} else if g.Tok < slot.gen.Tok && !o.t0.After(slot.since) {
		// the newer generation was published while (or after) this call ran
		m.Count("older_generation_served_concurrently_with_replace", 1)
		return
	} else if g.Tok < slot.gen.Tok && !g.adopted {
		// Tokens are handed out when the stub upstream is entered, not when the answer is stored: an
		// asynchronous refresh that asked earlier may store later (last writer wins, and the property
		// does not forbid it). A generation that was never seen as the published entry before cannot
		// be called "already replaced"; it is the published entry now.
		slot.gen, slot.gone, slot.inFlight, slot.failed, slot.since = c08Mark(g), false, false, 0, o.t1
		m.Count("older_exchange_stored_later_adopted", 1)
	} else if g.Tok < slot.gen.Tok {
		h.tr("%s ctrl=%d %s -> served OLD tok=%d (current %d)", o.how, cc.id, o.key, g.Tok, slot.gen.Tok)
		h.violate("served-replaced-generation", "an answer that had already been replaced by a completed insert was served",
			map[string]any{"key": o.key.String(), "served_token": g.Tok, "current_token": slot.gen.Tok})
		return
	}
	if !g.known {
		m.Count("verdict_skipped_unknown_deadline", 1)
		return
	}
	rel, class := h.pos(g, o.t0, o.t1)
	path := "inplace"
	if o.packed {
		path = "packed"
	}
	if o.how == "handle" {
		path = "viahandle"
	}
	if rel >= 1 {
		path = "stale"
	}
	h.tr("%s ctrl=%d %s -> served tok=%d ttl=%v needRefresh=%v bracket=D%+.1f..%+.1fms class=%s path=%s",
		o.how, cc.id, o.key, g.Tok, o.ttls, o.needRefresh, ms(o.t0.Sub(g.D)), ms(o.t1.Sub(g.D)), class, path)
	extra := map[string]any{"key": o.key.String(), "controller_created_by": cc.by, "token": g.Tok, "class": class,
		"bracket_rel_deadline_ms": h.relMs(g, o), "stale_window_s": w.Seconds(), "unlimited_window": unlimited, "served_ttls": o.ttls}
	if slot.gone {
		slot.gone = false
	}
	switch rel {
	case -1:
		m.Count("fresh_served_"+path+"_"+cc.by, 1)
		m.Distinct(cell + "|" + class + "|" + path + "|" + cc.by)
		// (d) TTL shown <= ceil(remaining lifetime) + documented slack
		rem := g.D.Sub(o.t0)
		bound := uint32((rem+time.Second-1)/time.Second) + c08SlackSecond
		for _, t := range o.ttls {
			if t > bound {
				extra["remaining_lifetime_ms_at_t0"] = ms(rem)
				extra["bound_s"] = bound
				h.violate("ttl-exceeds-slack/"+path, fmt.Sprintf("TTL %d s shown for a fresh answer whose remaining lifetime is <= %.3f s (documented slack %d s)", t, rem.Seconds(), c08SlackSecond), extra)
				break
			}
		}
		m.Count("ttl_checked", 1)
		if rem > 20*time.Second && len(o.ttls) > 0 && uint32(rem/time.Second) > o.ttls[0] {
			m.Count("ttl_below_remaining", 1)
		}
		if o.needRefresh {
			m.Count("needrefresh_on_fresh", 1)
		}
	case 0:
		m.Count("ambiguous_at_deadline_served", 1)
	case 1:
		m.Count("stale_served_"+cc.by, 1)
		if !unlimited && g.Via != "upstream" {
			m.Count("stale_served_windowed_insert_"+cc.by, 1)
		}
		if !unlimited && cc.by == "insert" {
			m.Count("stale_served_windowed_on_inserting_controller", 1)
		}
		m.Distinct(cell + "|" + class + "|stale|" + cc.by)
		if len(o.ttls) > 0 && o.ttls[0] > 0 {
			m.Count("stale_served_with_nonzero_ttl", 1)
		}
	case 2:
		m.Count("ambiguous_at_window_end_served", 1)
	case 3:
		if h.cfg.Opt {
			h.violate("served-after-stale-window/"+cc.by, "expired answer served after Deadline + optimistic_cache_ttl", extra)
		} else {
			h.violate("served-after-deadline/"+cc.by, "optimistic cache off: answer served after its Deadline", extra)
		}
	}
	if o.how == "lookup" && o.needRefresh {
		m.Count("needrefresh_true", 1)
		if slot.inFlight {
			h.violate("multiple-need-refresh", "needRefresh=true handed to a second caller while the refresh triggered by an earlier caller had not completed", extra)
		}
		slot.inFlight = true
	} else if o.how == "lookup" && rel == 1 {
		m.Count("needrefresh_false_on_stale", 1)
	}
}

// ---- refresh actions ----------------------------------------------------------

// refresh runs one production background refresh synchronously (production
// runs the same function in a goroutine) with the stub upstream in the given mode.
func (h *c08Hist) refresh(cc *c08Ctrl, k c08Key, sc c08Scope, req *udpRequest, qmsg *dnsmessage.Msg, action string, newTTL uint32) {
	defer h.guard("refresh")
	m := h.env.m
	slot := cc.slots[k]
	ks := h.keyString(cc, qmsg.Question[0].Name, k.Qtype, sc, req)
	m.Count("refresh_"+action, 1)
	switch action {
	case "ignore":
		h.tr("refresh left in flight")
		return
	case "reinsert":
		// what the tail of dialSend does when the refresh succeeded
		if g := h.insert(cc, qmsg.Question[0].Name, k.Qtype, sc, newTTL); g != nil {
			cc.slots[k].failed = 0
		}
		return
	case "bg-ok":
		h.plan.ttl.Store(newTTL)
		h.plan.mode.Store(c08ModeOK)
	case "bg-fail-forward":
		h.plan.mode.Store(c08ModeFail)
	case "bg-fail-chooser":
		c08ChooserFail.Store(req, struct{}{})
		defer c08ChooserFail.Delete(req)
	}
	_, before := h.plan.lastEvent()
	t0 := time.Now()
	cc.c.backgroundRefresh(ks, qmsg, req, sc.idx, sc.up)
	h.tr("backgroundRefresh(%s) ctrl=%d %s took %.1fms", action, cc.id, k, ms(time.Since(t0)))
	h.plan.mode.Store(c08ModeOK)
	if action == "bg-ok" {
		ev, n := h.plan.lastEvent()
		g, _ := h.learn(cc, ks)
		if n == before || ev.Err {
			m.Count("refresh_ok_but_upstream_not_asked", 1)
			slot.inFlight = false
			return
		}
		if g != nil && g.Tok == ev.Tok {
			cc.slots[k] = &c08Slot{gen: c08Mark(g), since: time.Now()}
			m.Count("refresh_stored_new_generation", 1)
			h.tr("  refreshed: tok=%d D=+[%.1f]ms", g.Tok, ms(time.Until(g.D)))
		} else {
			m.Count("refresh_ok_not_stored", 1)
			slot.inFlight = false
		}
		return
	}
	slot.inFlight = false // the (failed) refresh has completed
	slot.failed++
	if _, ok := cc.c.dnsCache.Load(ks); ok {
		m.Count("entry_present_after_failed_refresh", 1)
	} else {
		m.Count("entry_absent_after_failed_refresh", 1)
	}
}

// clone performs the reload hand-over: CloneCacheForReload on the old
// controller, RestoreReloadCache into a freshly constructed one.
func (h *c08Hist) clone(from *c08Ctrl) *c08Ctrl {
	defer h.guard("clone")
	to := h.newCtrl("clone")
	if to == nil {
		return nil
	}
	entries := from.c.CloneCacheForReload()
	n := to.c.RestoreReloadCache(entries, c08Bitmap, time.Now())
	h.tr("clone ctrl=%d -> ctrl=%d entries=%d", from.id, to.id, n)
	h.env.m.Count("reload_clones", 1)
	for k, s := range from.slots {
		to.slots[k] = &c08Slot{gen: c08Mark(s.gen), gone: s.gone, lru: s.lru, since: time.Now()}
	}
	return to
}

func (h *c08Hist) janitor(cc *c08Ctrl) {
	defer h.guard("janitor")
	cc.c.evictExpiredDnsCache(time.Now())
	h.tr("janitor ctrl=%d", cc.id)
	h.env.m.Count("janitor_runs", 1)
}

// ---- history kind 1: timing / scope / refresh / clone ---------------------------------

var c08Qtypes = []uint16{dnsmessage.TypeA, dnsmessage.TypeAAAA, dnsmessage.TypeTXT, dnsmessage.TypeCAA} // CAA = 257: equal to A modulo 256

func (h *c08Hist) offsets(g *c08Gen) []time.Duration {
	w, unlimited := h.cfg.window()
	o := []time.Duration{-300 * time.Millisecond, -5 * time.Millisecond, 5 * time.Millisecond}
	switch {
	case !h.cfg.Opt:
		o = append(o, 300*time.Millisecond)
	case unlimited || w > 10*time.Second:
		o = append(o, 300*time.Millisecond, 900*time.Millisecond, 1500*time.Millisecond)
	default:
		o = append(o, 250*time.Millisecond, w/2, w-5*time.Millisecond, w+5*time.Millisecond, w+300*time.Millisecond)
	}
	// a few uniformly random instants over the whole life
	life := g.D.Sub(g.T0)
	end := 400 * time.Millisecond
	if h.cfg.Opt && !unlimited && w < 10*time.Second {
		end += w
	} else if h.cfg.Opt {
		end += time.Second
	}
	for i := 0; i < 2; i++ {
		o = append(o, -life+time.Duration(h.r.Int64N(int64(life+end))))
	}
	sort.Slice(o, func(i, j int) bool { return o[i] < o[j] })
	return o
}

func (h *c08Hist) runTiming() {
	defer h.closeAll()
	defer h.guard("timing-history")
	r := h.r
	m := h.env.m
	h.name = fmt.Sprintf("t%d-%d.c08.test.", h.id, 10+r.IntN(90))
	ttl := [3]uint32{uint32(1 + r.IntN(3)), uint32(1 + r.IntN(3)), uint32(1 + r.IntN(3))}
	host := strings.TrimSuffix(h.name, ".")
	switch h.cfg.Fixed {
	case "shorter":
		ttl[0] = uint32(2 + r.IntN(2))
		h.fttl = int(ttl[0]) - 1
		h.fixed = map[string]int{host: h.fttl}
	case "longer":
		h.fttl = int(ttl[0]) + 1
		h.fixed = map[string]int{host: h.fttl}
	case "zero":
		h.fttl = 0
		h.fixed = map[string]int{host: 0}
	}
	h.plan = &c08Plan{line: h.id}
	c08Plans.Store(h.name, h.plan)
	defer c08Plans.Delete(h.name)

	// three neighbouring keys: same name, (qtype, scope) varied
	qa := c08Qtypes[r.IntN(len(c08Qtypes))]
	qb := c08Qtypes[(int(r.IntN(2))+1+indexOfQ(qa))%len(c08Qtypes)]
	s1 := c08AsIs(c08AsIsPool[r.IntN(len(c08AsIsPool))])
	var s2 c08Scope
	if r.IntN(2) == 0 {
		for {
			s2 = c08AsIs(c08AsIsPool[r.IntN(len(c08AsIsPool))])
			if s2.label != s1.label {
				break
			}
		}
	} else {
		s2 = c08Up(c08UpPool[r.IntN(len(c08UpPool))], 53)
	}
	if r.IntN(4) == 0 { // primary key behind a named upstream instead of as-is
		s1, s2 = s2, s1
	}
	type kd struct {
		q  uint16
		sc c08Scope
	}
	keys := []kd{{qa, s1}, {qb, s1}, {qa, s2}}
	K := func(i int) c08Key { return c08Key{LName: h.name, Qtype: keys[i].q, Scope: keys[i].sc.label} }
	mixedInsert := r.IntN(10) < 3
	mixedLookup := r.IntN(2) == 0

	pri := h.newCtrl("insert")
	if pri == nil {
		return
	}
	var old *c08Ctrl
	order := r.Perm(3)
	for _, i := range order {
		g := h.insert(pri, c08Case(r, h.name, mixedInsert), keys[i].q, keys[i].sc, ttl[i])
		if g == nil {
			return
		}
		// production looks the answer up right after caching it
		h.lookup(pri, h.name, keys[i].q, keys[i].sc, 1, mixedLookup)
		if r.IntN(2) == 0 {
			time.Sleep(time.Duration(r.IntN(20)) * time.Millisecond)
		}
	}
	near := []string{"x" + h.name, h.name[1:], strings.TrimSuffix(h.name, "test.") + "tes.", h.name + "x."}

	actions := []string{"ignore", "reinsert", "bg-ok", "bg-fail-forward", "bg-fail-chooser"}
	plan := []string{actions[r.IntN(len(actions))], actions[r.IntN(len(actions))], actions[1+r.IntN(2)]}
	cloneAt := -1
	if r.IntN(5) < 3 {
		cloneAt = r.IntN(8)
	}
	step := 0
	for gens := 0; gens < 3; gens++ {
		slot := pri.slots[K(0)]
		if slot == nil || slot.gen == nil || !slot.gen.known {
			break
		}
		g := slot.gen
		replaced := false
		for _, off := range h.offsets(g) {
			at := g.D.Add(off)
			if time.Until(at) < -time.Millisecond {
				m.Count("probe_skipped_already_past", 1)
				continue
			}
			c08Sleep(at)
			step++
			if step == cloneAt+1 && old == nil {
				if to := h.clone(pri); to != nil {
					old, pri = pri, to
				}
			}
			if r.IntN(6) == 0 {
				h.janitor(pri)
			}
			n := 1
			if r.IntN(10) < 3 {
				n = 2 + r.IntN(7)
			}
			nr, req, qmsg := h.lookup(pri, h.name, keys[0].q, keys[0].sc, n, mixedLookup)
			if nr && len(plan) > 0 {
				act := plan[0]
				plan = plan[1:]
				if r.IntN(2) == 0 {
					time.Sleep(time.Duration(r.IntN(30)) * time.Millisecond)
				}
				h.refresh(pri, K(0), keys[0].sc, req, qmsg, act, uint32(1+r.IntN(2)))
				if act != "ignore" {
					// immediately after a completed refresh the key must still answer
					h.lookup(pri, h.name, keys[0].q, keys[0].sc, 1, mixedLookup)
				}
			}
			for i := 1; i < 3; i++ {
				if r.IntN(2) == 0 {
					h.lookup(pri, h.name, keys[i].q, keys[i].sc, 1, mixedLookup)
				}
			}
			if r.IntN(3) == 0 {
				// never-inserted neighbours: other name, other type, other resolver
				switch r.IntN(3) {
				case 0:
					h.lookup(pri, near[r.IntN(len(near))], keys[0].q, keys[0].sc, 1, mixedLookup)
				case 1:
					h.lookup(pri, h.name, keys[1].q, keys[2].sc, 1, mixedLookup)
				default:
					h.lookup(pri, h.name, keys[0].q, c08AsIs("203.0.113.9:53"), 1, mixedLookup)
				}
			}
			if r.IntN(3) == 0 {
				// another upstream than any the answers were obtained from. A routing index names an
				// upstream only within one configuration; the cache outlives reloads (clone/restore,
				// shared store) that reorder dns.upstream, so a different upstream can sit at the index
				// the cached answer's upstream had. Never inserted under this scope: must not be served.
				for i := 0; i < 3; i++ {
					if up := keys[i].sc.up; up != nil {
						other := c08Up(c08UpPool[r.IntN(len(c08UpPool))], []uint16{53, 5353}[r.IntN(2)])
						other.idx = keys[i].sc.idx
						if other.label != keys[i].sc.label {
							h.lookup(pri, h.name, keys[i].q, other, 1, mixedLookup)
							m.Count("other_upstream_at_same_routing_index_probes", 1)
							if old != nil {
								m.Count("other_upstream_at_same_routing_index_probes_after_reload_handover", 1)
							}
						}
						break
					}
				}
			}
			if old != nil && r.IntN(2) == 0 {
				h.lookup(old, h.name, keys[r.IntN(3)].q, keys[0].sc, 1, mixedLookup)
			}
			if r.IntN(6) == 0 {
				h.janitor(pri)
			}
			if s := pri.slots[K(0)]; s != nil && s.gen != g {
				replaced = true
				break
			}
		}
		if !replaced {
			break
		}
	}
	m.Count("timing_histories_completed", 1)
	if m.WantSample() && len(h.trace) > 8 {
		m.Sample(map[string]any{"kind": h.kind, "config": h.cfg, "name": h.name, "trace_head": h.trace[:8]})
	}
}

func indexOfQ(q uint16) int {
	for i, v := range c08Qtypes {
		if v == q {
			return i
		}
	}
	return 0
}

// ---- history kind 2: LRU order under max_cache_size --------------------------------------

type c08LruEnt struct {
	name   string
	k      c08Key
	ks     string
	a0, a1 time.Time // bracket of the most recent lookup
	used   bool
}

func (h *c08Hist) runLRU() {
	defer h.closeAll()
	defer h.guard("lru-history")
	r := h.r
	m := h.env.m
	sc := c08AsIs(c08AsIsPool[r.IntN(len(c08AsIsPool))])
	cc := h.newCtrl("insert")
	if cc == nil {
		return
	}
	expiredVariant := h.cfg.Opt && h.cfg.Stale == 0 && r.IntN(2) == 0 // expired entries that never expire
	ttl := uint32(3600) // far beyond any starvation of the history: these entries never expire while it runs
	if expiredVariant {
		ttl = 1
	}
	h.name = fmt.Sprintf("l%d.c08.test.", h.id)
	var ents []*c08LruEnt
	touch := func(e *c08LruEnt) {
		t0 := time.Now()
		h.lookup(cc, e.name, dnsmessage.TypeA, sc, 1, false)
		e.a0, e.a1, e.used = t0, time.Now(), true
		time.Sleep(time.Duration(2500+r.IntN(2000)) * time.Microsecond)
	}
	add := func(n int) {
		for i := 0; i < n; i++ {
			e := &c08LruEnt{name: fmt.Sprintf("e%d.l%d.c08.test.", len(ents), h.id)}
			e.k = c08Key{LName: e.name, Qtype: dnsmessage.TypeA, Scope: sc.label}
			e.ks = h.keyString(cc, e.name, dnsmessage.TypeA, sc, sc.req(r))
			if h.insert(cc, e.name, dnsmessage.TypeA, sc, ttl) == nil {
				continue
			}
			cc.slots[e.k].lru = true
			ents = append(ents, e)
			if r.IntN(8) != 0 { // production looks up right after the insert
				touch(e)
			}
		}
	}
	present := func(e *c08LruEnt) bool { _, ok := cc.c.dnsCache.Load(e.ks); return ok }
	round := func(tag string) {
		var before []*c08LruEnt
		for _, e := range ents {
			if present(e) {
				before = append(before, e)
			}
		}
		for i := 0; i < 2*len(before); i++ {
			touch(before[r.IntN(len(before))])
		}
		if expiredVariant {
			// all entries share TTL 1 s: make sure they are expired-but-never-expire
			time.Sleep(50 * time.Millisecond)
		}
		h.janitor(cc)
		var surv, evic []*c08LruEnt
		for _, e := range before {
			if present(e) {
				surv = append(surv, e)
			} else {
				evic = append(evic, e)
				cc.slots[e.k].gone = true
			}
		}
		m.Eval(1)
		h.tr("%s: before=%d survivors=%d evicted=%d max=%d", tag, len(before), len(surv), len(evic), h.cfg.Max)
		want := len(before)
		if want > h.cfg.Max {
			want = h.cfg.Max
		}
		if len(surv) < want {
			h.violate("evicted-within-size-limit", fmt.Sprintf("janitor left %d live entries although max_cache_size=%d and %d were present", len(surv), h.cfg.Max, len(before)), nil)
		} else if len(surv) > h.cfg.Max {
			m.Count("lru_over_limit_after_janitor", 1)
		} else if len(evic) > 0 {
			m.Count("lru_exact_size_after_janitor", 1)
		}
		if len(evic) > 0 {
			m.Count("lru_evictions_observed", int64(len(evic)))
			m.Distinct(fmt.Sprintf("%s|lru|n=%d|evict=%d|expired=%v", h.cfg.cell(), len(before), len(evic), expiredVariant))
		}
		for _, s := range surv {
			if !s.used {
				m.Count("lru_never_accessed_survived", 1)
				continue
			}
			for _, v := range evic {
				if !v.used {
					m.Count("lru_never_accessed_evicted", 1)
					continue
				}
				m.Count("lru_pairs_checked", 1)
				if s.a1.Add(time.Millisecond).Before(v.a0) {
					h.violate("lru-order", "a surviving entry was last used strictly before an evicted one",
						map[string]any{"survivor": s.name, "evicted": v.name,
							"survivor_last_use_ms": ms(s.a1.Sub(h.start)), "evicted_last_use_ms": ms(v.a0.Sub(h.start))})
					return
				}
			}
		}
		// survivors must still answer
		for _, s := range surv {
			if r.IntN(2) == 0 {
				cc.slots[s.k].lru = false
				touch(s)
				cc.slots[s.k].lru = true
			}
		}
	}
	add(h.cfg.Max + 1 + r.IntN(4))
	if expiredVariant {
		time.Sleep(1100 * time.Millisecond)
	}
	round("round1")
	add(1 + r.IntN(3))
	if expiredVariant {
		time.Sleep(1100 * time.Millisecond)
	}
	round("round2")
	m.Count("lru_histories_completed", 1)
}

// ---- history kind 3: long wait, TTL slack under a burst ------------------------------------

func (h *c08Hist) runSlack(age time.Duration, useClone bool) {
	defer h.closeAll()
	defer h.guard("slack-history")
	r := h.r
	m := h.env.m
	h.name = fmt.Sprintf("s%d.c08.test.", h.id)
	sc := c08AsIs(c08AsIsPool[r.IntN(len(c08AsIsPool))])
	ttl := uint32(60)
	switch r.IntN(3) {
	case 0:
		ttl = 600
	case 1:
		// the probes at age 16-22 s land inside the entry's LAST 15 s: bytes packed at
		// insert time (TTL 30) must not be handed out there, also not by a reload clone
		ttl = 30
		m.Count("slack_histories_probing_last_15s", 1)
	}
	cc := h.newCtrl("insert")
	if cc == nil {
		return
	}
	q := c08Qtypes[r.IntN(len(c08Qtypes))]
	g := h.insert(cc, h.name, q, sc, ttl)
	if g == nil {
		return
	}
	h.lookup(cc, h.name, q, sc, 1, true)
	if useClone {
		if to := h.clone(cc); to != nil {
			cc = to
		}
	}
	c08Sleep(g.T0.Add(age))
	h.lookup(cc, h.name, q, sc, 16, true)
	time.Sleep(1100 * time.Millisecond)
	h.lookup(cc, h.name, q, sc, 8, true)
	m.Count("slack_histories_completed", 1)
}

// ---- history kind 5: claims of one refresh racing at the yield point -----------------------------

func (h *c08Hist) runRace(nEntries int) {
	defer h.closeAll()
	defer h.guard("race-history")
	r := h.r
	m := h.env.m
	h.name = fmt.Sprintf("r%d.c08.test.", h.id)
	sc := c08AsIs(c08AsIsPool[r.IntN(len(c08AsIsPool))])
	cc := h.newCtrl("insert")
	if cc == nil {
		return
	}
	type ent struct {
		name string
		q    uint16
	}
	var ents []ent
	var last *c08Gen
	for i := 0; i < nEntries; i++ {
		e := ent{name: fmt.Sprintf("n%d.r%d.c08.test.", i, h.id), q: c08Qtypes[r.IntN(len(c08Qtypes))]}
		if g := h.insert(cc, e.name, e.q, sc, 1); g != nil {
			ents = append(ents, e)
			last = g
		}
	}
	if last == nil {
		return
	}
	cc2 := h.clone(cc) // the reloaded generation has its own, reset, refreshing flags
	c08Sleep(last.D.Add(10 * time.Millisecond))

	// Hot workers: W goroutines spin on a shared turn counter and all perform
	// the FIRST stale lookup of entry[turn] the moment the turn is published, so
	// that their claims of the one refresh genuinely race (no goroutine wake-up
	// in between). Observations are judged afterwards, in time order.
	W := runtime.GOMAXPROCS(0) / 4
	if W > 4 {
		W = 4
	}
	if W < 2 {
		W = 2
	}
	pass := func(c *c08Ctrl) {
		if c == nil {
			return
		}
		keys := make([]string, len(ents))
		msgs := make([]*dnsmessage.Msg, len(ents))
		for i, e := range ents {
			keys[i] = h.keyString(c, e.name, e.q, sc, sc.req(r))
			msgs[i] = new(dnsmessage.Msg)
			msgs[i].SetQuestion(e.name, e.q)
		}
		var turn atomic.Int64
		turn.Store(-1)
		done := make([]atomic.Int32, len(ents))
		res := make([][]c08Obs, W)
		var wg sync.WaitGroup
		for w := 0; w < W; w++ {
			wg.Add(1)
			go func(w int) {
				defer wg.Done()
				defer func() {
					if p := recover(); p != nil {
						res[w] = append(res[w], c08Obs{bad: fmt.Sprint("panic: ", p)})
					}
				}()
				seen := int64(-1)
				for {
					t := turn.Load()
					if t == seen {
						continue
					}
					seen = t
					if t >= int64(len(ents)) {
						return
					}
					o := c08Obs{cc: c, key: c08Key{LName: ents[t].name, Qtype: ents[t].q, Scope: sc.label}, how: "lookup"}
					mm := msgs[t].Copy()
					o.t0 = time.Now()
					resp, nr := c.c.LookupDnsRespCache_(mm, keys[t], false)
					o.t1 = time.Now()
					o.needRefresh = nr
					if resp != nil {
						o.served = true
						c08Decode(&o, resp)
					}
					res[w] = append(res[w], o)
					done[t].Add(1)
				}
			}(w)
		}
		for i := range ents {
			turn.Store(int64(i))
			t0 := time.Now()
			for n := 0; done[i].Load() < int32(W); n++ {
				if n&255 == 255 && time.Since(t0) > 100*time.Microsecond {
					break // a worker lost its CPU: it will pick up a later turn
				}
			}
			if done[i].Load() == int32(W) {
				m.Count("race_rounds_all_workers", 1)
			}
			m.Count("race_rounds", 1)
		}
		turn.Store(int64(len(ents)))
		wg.Wait()
		var all []c08Obs
		for _, l := range res {
			all = append(all, l...)
		}
		sort.Slice(all, func(a, b int) bool { return all[a].t0.Before(all[b].t0) })
		for i := range all {
			if strings.HasPrefix(all[i].bad, "panic: ") {
				h.violate("panic/lookup", "LookupDnsRespCache_ panicked: "+all[i].bad, nil)
				continue
			}
			h.judge(&all[i])
			if len(h.trace) > 300 {
				h.trace = h.trace[:0]
			}
		}
	}
	tp := time.Now()
	pass(cc)
	pass(cc2)
	m.Set("race_passes_seconds", time.Since(tp).Seconds())
}

// ---- history kind 4: end to end through HandleWithResponseWriter_ ------------------------------

type c08Writer struct {
	mu  sync.Mutex
	msg *dnsmessage.Msg
}

func (w *c08Writer) LocalAddr() net.Addr       { return nil }
func (w *c08Writer) RemoteAddr() net.Addr      { return nil }
func (w *c08Writer) TsigStatus() error         { return nil }
func (w *c08Writer) TsigTimersOnly(bool)       {}
func (w *c08Writer) Hijack()                   {}
func (w *c08Writer) Close() error              { return nil }
func (w *c08Writer) Write([]byte) (int, error) { return 0, nil }
func (w *c08Writer) WriteMsg(msg *dnsmessage.Msg) error {
	w.mu.Lock()
	w.msg = msg.Copy()
	w.mu.Unlock()
	return nil
}

type c08Reply struct {
	t0, t1 time.Time
	msg    *dnsmessage.Msg
	err    error
	pan    any
}

func (h *c08Hist) client(cc *c08Ctrl, q string, qtype uint16, sc c08Scope, req *udpRequest) (rep c08Reply) {
	defer func() { rep.pan = recover() }()
	msg := new(dnsmessage.Msg)
	msg.SetQuestion(q, qtype)
	w := &c08Writer{}
	rep.t0 = time.Now()
	rep.err = cc.c.HandleWithResponseWriter_(context.Background(), msg, req, w)
	rep.t1 = time.Now()
	w.mu.Lock()
	rep.msg = w.msg
	w.mu.Unlock()
	return
}

// judgeClient maps a client reply onto the lookup oracle: an answer produced by
// an upstream exchange that started inside the query's bracket means the cache
// did not serve; anything else was served from the cache.
//
// exclusive says that no refresh triggered by anybody else can have been in
// flight during the query, i.e. an upstream exchange inside the bracket can
// only be this client's own cache miss. Without it such a reply carries no
// verdict (it may be the fruit of a refresh another client triggered).
func (h *c08Hist) judgeClient(cc *c08Ctrl, k c08Key, ks string, rep c08Reply, exclusive bool) {
	m := h.env.m
	if rep.pan != nil {
		h.violate("panic/handle", fmt.Sprintf("HandleWithResponseWriter_ panicked: %v", rep.pan), map[string]any{"key": k.String()})
		return
	}
	o := &c08Obs{cc: cc, key: k, how: "handle", t0: rep.t0, t1: rep.t1}
	if rep.err != nil || rep.msg == nil {
		m.Count("client_error_reply", 1)
		h.tr("client ctrl=%d %s -> error %v", cc.id, k, rep.err)
		h.judge(o) // not served from cache
		return
	}
	o.served = true
	c08DecodeMsg(o, rep.msg)
	if o.bad == "" {
		if g := c08GenOf(o.tok); g != nil && g.Via == "upstream" && g.Key == k && g.Line == h.id && !g.FwdStart.Before(rep.t0) {
			if !exclusive {
				m.Count("client_answer_origin_ambiguous", 1)
				h.tr("client ctrl=%d %s -> tok=%d from an upstream exchange inside the bracket (origin ambiguous)", cc.id, k, g.Tok)
				if got, _ := h.learn(cc, ks); got != nil {
					if s := cc.slots[k]; s == nil || s.gen == nil || got.Tok > s.gen.Tok {
						cc.slots[k] = &c08Slot{gen: c08Mark(got), since: time.Now()}
					}
				}
				return
			}
			// resolved upstream during this very query: the cache did not serve
			m.Count("client_resolved_upstream", 1)
			miss := *o
			miss.served = false
			h.judge(&miss)
			if got, _ := h.learn(cc, ks); got != nil {
				if s := cc.slots[k]; s == nil || s.gen == nil || got.Tok > s.gen.Tok {
					cc.slots[k] = &c08Slot{gen: c08Mark(got), since: time.Now()}
				}
			} else if s := cc.slots[k]; s == nil || s.gen == nil || g.Tok > s.gen.Tok {
				cc.slots[k] = &c08Slot{gen: g, gone: true, since: time.Now()}
			}
			h.tr("client ctrl=%d %s -> resolved upstream tok=%d", cc.id, k, g.Tok)
			return
		}
	}
	m.Count("client_served_from_cache", 1)
	h.judge(o)
}

func (h *c08Hist) runE2E() {
	defer h.closeAll()
	defer h.guard("e2e-history")
	r := h.r
	m := h.env.m
	h.name = fmt.Sprintf("e%d-%d.c08.test.", h.id, 10+r.IntN(90))
	host := strings.TrimSuffix(h.name, ".")
	ttl := uint32(1 + r.IntN(2))
	switch h.cfg.Fixed {
	case "shorter":
		ttl = 3
		h.fttl = 1
		h.fixed = map[string]int{host: 1}
	case "longer":
		ttl = 1
		h.fttl = 2
		h.fixed = map[string]int{host: 2}
	}
	h.plan = &c08Plan{line: h.id}
	h.plan.ttl.Store(ttl)
	c08Plans.Store(h.name, h.plan)
	defer c08Plans.Delete(h.name)
	q := c08Qtypes[r.IntN(len(c08Qtypes))]
	s1 := c08AsIs(c08AsIsPool[r.IntN(len(c08AsIsPool))])
	s2 := c08AsIs("203.0.113.7:53")
	mixed := r.IntN(2) == 0
	cc := h.newCtrl("insert")
	if cc == nil {
		return
	}
	k1 := c08Key{LName: h.name, Qtype: q, Scope: s1.label}
	k2 := c08Key{LName: h.name, Qtype: q, Scope: s2.label}
	ask := func(sc c08Scope, k c08Key, exclusive bool) {
		req := sc.req(r)
		qn := c08Case(r, h.name, mixed)
		ks := h.keyString(cc, qn, q, sc, req)
		h.judgeClient(cc, k, ks, h.client(cc, qn, q, sc, req), exclusive)
	}
	w, unlimited := h.cfg.window()

	ask(s1, k1, true) // miss -> upstream -> generation a
	slot := cc.slots[k1]
	if slot == nil || slot.gen == nil || !slot.gen.known {
		m.Count("e2e_first_insert_not_observed", 1)
		return
	}
	a := slot.gen
	slot.gone = false
	if d := a.D.Sub(a.T0); d > 400*time.Millisecond {
		c08Sleep(a.D.Add(-300 * time.Millisecond))
		ask(s1, k1, true) // a fresh entry never triggers a refresh
	}
	if r.IntN(2) == 0 {
		ask(s2, k2, true) // same question via another resolver: must not get a's answer
	}
	if !h.cfg.Opt {
		// without optimistic caching nothing but a client's own miss goes upstream
		c08Sleep(a.D.Add(5 * time.Millisecond))
		ask(s1, k1, true)
		c08Sleep(a.D.Add(300 * time.Millisecond))
		ask(s1, k1, true)
		m.Count("e2e_histories_completed", 1)
		return
	}
	// inside the stale window: a burst of clients while the refresh is held in flight
	mode := []int32{c08ModeOK, c08ModeFail, c08ModeGate | c08ModeOK, c08ModeGate | c08ModeFail}[r.IntN(4)]
	inWin := 5*time.Millisecond + time.Duration(r.Int64N(int64(200*time.Millisecond)))
	c08Sleep(a.D.Add(inWin))
	gate := make(chan struct{})
	h.plan.gate.Store(&gate)
	h.plan.ttl.Store(uint32(1 + r.IntN(2)))
	h.plan.mode.Store(mode)
	h.plan.maxInflight.Store(0)
	callsBefore := h.plan.calls.Load()
	n := 1 + r.IntN(8)
	reps := make([]c08Reply, n)
	kss := make([]string, n)
	var wg sync.WaitGroup
	start := make(chan struct{})
	for i := 0; i < n; i++ {
		req := s1.req(r)
		qn := c08Case(r, h.name, mixed)
		kss[i] = h.keyString(cc, qn, q, s1, req)
		wg.Add(1)
		go func(i int) {
			defer wg.Done()
			<-start
			reps[i] = h.client(cc, qn, q, s1, req)
		}(i)
	}
	close(start)
	done := make(chan struct{})
	go func() { wg.Wait(); close(done) }()
	atOnce := true
	if mode&c08ModeGate != 0 {
		select {
		case <-done:
		case <-time.After(250 * time.Millisecond):
			atOnce = false // clients are waiting for the (held) upstream: they were not served from the cache
		}
	}
	refreshesWhileHeld := h.plan.calls.Load() - callsBefore
	inflightPeak := h.plan.maxInflight.Load()
	// "at most one refresh in flight" speaks about the stale window only: on a loaded machine the
	// burst may start late, and a client that arrives after the window is a plain miss that goes
	// upstream on its own. The in-flight verdict is taken only when the whole held phase, as
	// actually executed, lay inside the window of the generation the burst was aimed at.
	heldInWindow := unlimited || time.Now().Before(a.D.Add(w))
	if s := cc.slots[k1]; s == nil || s.gen != a {
		heldInWindow = false
	}
	close(gate)
	<-done
	h.tr("burst n=%d mode=%d at D+%.0fms atOnce=%v upstreamCalls=%d inflightPeak=%d", n, mode, ms(inWin), atOnce, refreshesWhileHeld, inflightPeak)
	order := make([]int, n)
	for i := range order {
		order[i] = i
	}
	sort.Slice(order, func(a, b int) bool { return reps[order[a]].t0.Before(reps[order[b]].t0) })
	for _, i := range order {
		// a lone first client after the deadline cannot be racing anybody's refresh
		h.judgeClient(cc, k1, kss[i], reps[i], n == 1)
	}
	// let the asynchronous refresh settle (observation only; verdicts stay bracket-based)
	ks := h.keyString(cc, h.name, q, s1, s1.req(r))
	settle := time.Now().Add(600 * time.Millisecond)
	settled := false
	for time.Now().Before(settle) && !settled {
		ev, cnt := h.plan.lastEvent()
		if cnt > 0 && h.plan.inflight.Load() == 0 && h.plan.calls.Load() > callsBefore && !ev.End.Before(a.D) {
			v, ok := cc.c.dnsCache.Load(ks)
			if !ok {
				settled = true // entry gone
				break
			}
			if e := v.(*DnsCache); !e.IsRefreshing() && len(e.Answer) > 0 {
				if tok, ok := c08TokOf(e.Answer[0]); ev.Err || (ok && tok == ev.Tok) {
					settled = true
					break
				}
			}
		}
		time.Sleep(3 * time.Millisecond)
	}
	if settled {
		time.Sleep(5 * time.Millisecond) // the refresh goroutine's tail (its deferred clean-up)
		m.Count("e2e_refresh_settled", 1)
	} else {
		m.Count("e2e_refresh_not_settled", 1)
	}
	// exactly one refresh was triggered and it is over: the next client is alone again
	alone := settled && h.plan.calls.Load()-callsBefore == 1
	m.Eval(1)
	if mode&c08ModeGate != 0 {
		// while the gate was closed every upstream exchange for the key stayed in flight
		m.Count("e2e_gated_bursts", 1)
		if atOnce {
			m.Count("e2e_burst_answered_while_refresh_held", 1)
		}
		if !heldInWindow {
			m.Count("e2e_gated_burst_ran_outside_stale_window_no_inflight_verdict", 1)
		} else if peak := inflightPeak; peak > 1 { // sampled while the gate was still closed
			h.violate("multiple-refresh-in-flight", fmt.Sprintf("%d upstream exchanges for one stale key were in flight at the same time", peak),
				map[string]any{"key": k1.String(), "clients": n})
		} else if peak == 1 {
			m.Count("e2e_single_refresh_in_flight", 1)
		}
	}
	if g, _ := h.learn(cc, ks); g != nil && g.Tok > a.Tok {
		cc.slots[k1] = &c08Slot{gen: c08Mark(g), since: time.Now()}
		m.Count("e2e_refresh_stored_new_generation", 1)
	} else if ev, _ := h.plan.lastEvent(); ev.Err && !ev.Start.Before(a.T0) {
		if s := cc.slots[k1]; s != nil && s.gen == a {
			s.failed++
			m.Count("e2e_refresh_failed", 1)
		}
	}
	h.plan.mode.Store(c08ModeOK)
	// still inside the window of whatever generation is current?
	ask(s1, k1, alone)
	cur := cc.slots[k1].gen
	if cur != nil && cur.known && !unlimited && w < 10*time.Second {
		c08Sleep(cur.D.Add(w - 5*time.Millisecond))
		ask(s1, k1, false)
		cur = cc.slots[k1].gen
		if cur != nil && cur.known {
			c08Sleep(cur.D.Add(w + 300*time.Millisecond))
			ask(s1, k1, false)
		}
	} else {
		time.Sleep(300 * time.Millisecond)
		ask(s1, k1, false)
	}
	m.Count("e2e_histories_completed", 1)
}

// ---- driver -------------------------------------------------------------------

func TestVerifC08(t *testing.T) {
	m := vk.NewMonitor("C08", "", "exploration",
		"concurrent short histories over the real DnsController (production constructor, production insert paths only): "+
			"distinct = (option cell optimistic x optimistic_cache_ttl x max_cache_size x fixed_domain_ttl, probe position class relative to the entry's own Deadline/stale window, "+
			"path {packed, inplace, stale, none, miss}, created-by {insert, clone}); non-trivial = the probe drew a verdict (bracket entirely on one side of a boundary) or an LRU eviction was observed")
	m.SetFloor(100)
	m.Assume(
		"time.Now() is monotone and the wall clock does not step by more than the 2 ms guard during a history (dae compares wall-clock nanoseconds in the packed/stale paths)",
		"the token carried in each inserted RDATA identifies the insert; miekg/dns Unpack is trusted to decode served bytes",
		"the stub upstream (dnsForwarderFactory) and dialer chooser are test doubles; everything between HandleWithResponseWriter_/LookupDnsRespCache_ and them is dae's code",
		"optimistic_cache_ttl=0 with max_cache_size=0 is treated as a 60 s window (code) - example.dae says 'never expire'; both agree inside 60 s and no history lasts that long",
		"janitor runs happen only where a history calls the production evictExpiredDnsCache; the controller's own 30 s ticker is parked (dnsCacheJanitorInterval = 1 h), it would otherwise evict behind the reference model's back when a history is starved for 30 s",
		"fresh-not-served is judged as in DESIGN C08 (a) although the statement words freshness as an upper bound; entries that may have been evicted for size are exempt")

	routing, err := componentdns.New(&config.Dns{
		Routing: config.DnsRouting{
			Request:  config.DnsRequestRouting{Fallback: "asis"},
			Response: config.DnsResponseRouting{Fallback: "accept"},
		},
	}, &componentdns.NewOption{
		Logger:                logrus.New(),
		UpstreamReadyCallback: func(*componentdns.Upstream) error { return nil },
	})
	if err != nil {
		m.Inconclusive("cannot build dns routing: %v", err)
		m.Done(t)
		return
	}
	log := logrus.New()
	log.SetOutput(io.Discard)
	log.SetLevel(logrus.ErrorLevel)
	env := &c08Env{m: m, routing: routing, log: log, start: time.Now()}

	// Every janitor run of a history is an explicit call of the production function
	// (evictExpiredDnsCache) at an instant the history chose. The controller's own ticker
	// (every 30 s) would add runs the reference model does not know about as soon as a history is
	// starved of CPU for that long (race-detector pass on a loaded machine): park it.
	origJanitor := dnsCacheJanitorInterval
	dnsCacheJanitorInterval = time.Hour
	defer func() { dnsCacheJanitorInterval = origJanitor }()

	origFactory := dnsForwarderFactory
	dnsForwarderFactory = func(upstream *componentdns.Upstream, dialArg dialArgument, _ *logrus.Logger) (DnsForwarder, error) {
		return &c08Fwd{target: dialArg.bestTarget}, nil
	}
	defer func() { dnsForwarderFactory = origFactory }()

	var cells []c08Cfg
	for _, opt := range []bool{false, true} {
		for _, st := range []int{0, 1, 2} {
			for _, mx := range []int{0, 3, 8} {
				for _, fx := range []string{"none", "shorter", "longer", "zero"} {
					cells = append(cells, c08Cfg{Opt: opt, Stale: st, Max: mx, Fixed: fx})
				}
			}
		}
	}
	waves := vk.Scale(1, 6)
	nTiming := vk.Scale(1200, 2400)
	nLRU := vk.Scale(160, 320)
	nE2E := vk.Scale(320, 640)
	ages := []time.Duration{16300 * time.Millisecond, 17500 * time.Millisecond, 19 * time.Second, 22 * time.Second}
	nSlack := vk.Scale(16, 32)
	nTypes := vk.Scale(64, 128)
	nReconf := vk.Scale(360, 720)
	nReconfSize := vk.Scale(120, 240)
	nHandoverLRU := vk.Scale(240, 480)
	nHandoverTiming := vk.Scale(300, 600)
	extraHistories := 0
	nDrift := vk.Scale(64, 400) // releases per wave, 64 drifted entries each
	if os.Getenv("VERIF_C08_ONLY") == "drift" { // development aid: the drift layer alone (the run is then INCONCLUSIVE by design)
		nTiming, nLRU, nE2E, nSlack, nTypes, nReconf, nReconfSize, nHandoverLRU, nHandoverTiming = 0, 0, 0, 0, 0, 0, 0, 0, 0
	}

	id := 0
	for wave := 0; wave < waves; wave++ {
		var wg sync.WaitGroup
		launchID := func(id int, kind string, cfg c08Cfg, run func(h *c08Hist), maxDelay time.Duration) {
			h := &c08Hist{env: env, id: id, kind: kind, cfg: cfg, seen: map[string]bool{}}
			h.r = vk.NewRand(0xC08<<20 | uint64(id))
			delay := time.Duration(h.r.Int64N(int64(maxDelay) + 1))
			wg.Add(1)
			go func() {
				defer wg.Done()
				time.Sleep(delay)
				h.start = time.Now()
				run(h)
			}()
		}
		launch := func(kind string, cfg c08Cfg, run func(h *c08Hist), maxDelay time.Duration) {
			id++
			launchID(id, kind, cfg, run, maxDelay)
		}
		for i := 0; i < nSlack; i++ {
			age := ages[i%len(ages)]
			useClone := (i/len(ages))%2 == 1
			cfg := c08Cfg{Opt: i%3 != 0, Stale: 1 + i%2, Max: 0, Fixed: "none"}
			launch("slack", cfg, func(h *c08Hist) { h.runSlack(age, useClone) }, 500*time.Millisecond)
		}
		for i := 0; i < nTiming; i++ {
			launch("timing", cells[i%len(cells)], (*c08Hist).runTiming, 2500*time.Millisecond)
		}
		for i := 0; i < nLRU; i++ {
			cfg := c08Cfg{Opt: i%2 == 0, Stale: (i / 2) % 3, Max: []int{3, 1, 2, 8, 2, 1, 17}[(i/6)%7], Fixed: "none"}
			launch("lru", cfg, (*c08Hist).runLRU, 8*time.Second)
		}
		for i := 0; i < nE2E; i++ {
			var cfg c08Cfg
			switch i % 8 {
			case 0:
				cfg = c08Cfg{Opt: false, Stale: 1, Max: 0, Fixed: "none"}
			case 1:
				cfg = c08Cfg{Opt: true, Stale: 0, Max: 50, Fixed: "none"}
			case 2:
				cfg = c08Cfg{Opt: true, Stale: 1, Max: 0, Fixed: "shorter"}
			case 3:
				cfg = c08Cfg{Opt: true, Stale: 2, Max: 0, Fixed: "longer"}
			default:
				cfg = c08Cfg{Opt: true, Stale: 1 + i%2, Max: []int{0, 50}[(i/8)%2], Fixed: "none"}
			}
			launch("e2e", cfg, (*c08Hist).runE2E, 10*time.Second)
		}
		// question-type alphabet and runtime-update histories (c08_types_reconf_verif_test.go); launched
		// last so that the earlier histories keep their ids (= their random streams)
		for i := 0; i < nTypes; i++ {
			ord := wave*nTypes + i
			cfg := c08Cfg{Opt: i%2 == 0, Stale: i % 3, Max: []int{0, 1000}[(i/6)%2], Fixed: "none"}
			launch("types", cfg, func(h *c08Hist) { h.runTypes(ord) }, 12*time.Second)
		}
		for i := 0; i < nReconf; i++ {
			ord := wave*nReconf + i
			launch("reconf", c08Cfg{Fixed: "none"}, func(h *c08Hist) {
				h.cfg = c08Cfg{Opt: h.r.IntN(2) == 0, Stale: []int{1, 2, 1, 2, 0}[h.r.IntN(5)], Max: []int{0, 0, 8}[h.r.IntN(3)], Fixed: "none"}
				h.runReconf(ord)
			}, 4*time.Second)
		}
		for i := 0; i < nReconfSize; i++ {
			ord := wave*nReconfSize + i
			launch("reconf-size", c08Cfg{Fixed: "none"}, func(h *c08Hist) {
				h.cfg = c08Cfg{Opt: h.r.IntN(2) == 0, Stale: 1 + h.r.IntN(2), Max: []int{0, 2, 3}[h.r.IntN(3)], Fixed: "none"}
				h.runReconfSize(ord)
			}, 10*time.Second)
		}
		// reload hand-over histories (c08_handover_verif_test.go). Ids from a range of their own, so
		// that every other history (the race phase included) keeps its id (= its random stream).
		for i := 0; i < nHandoverLRU; i++ {
			ord := wave*nHandoverLRU + i
			extraHistories++
			launchID(500000+wave*4000+i, "handover-lru", c08Cfg{Fixed: "none"}, func(h *c08Hist) { h.runHandoverLRU(ord) }, 10*time.Second)
		}
		for i := 0; i < nHandoverTiming; i++ {
			ord := wave*nHandoverTiming + i
			extraHistories++
			launchID(502000+wave*4000+i, "handover-timing", c08Cfg{Fixed: "none"}, func(h *c08Hist) {
				h.cfg = c08Cfg{Opt: h.r.IntN(2) == 0, Stale: []int{1, 2, 1, 2, 0}[h.r.IntN(5)], Max: []int{0, 0, 8}[h.r.IntN(3)],
					Fixed: []string{"none", "shorter", "longer"}[(ord/3)%3]}
				h.runHandoverTiming(ord)
			}, 6*time.Second)
		}
		wg.Wait()
		// race phase: runs alone (hot spinning workers need CPUs of their own)
		{
			id++
			h := &c08Hist{env: env, id: id, kind: "race", seen: map[string]bool{}, start: time.Now(),
				cfg: c08Cfg{Opt: true, Stale: 2, Max: 0, Fixed: "none"}}
			h.r = vk.NewRand(0xC08<<20 | uint64(id))
			tr0 := time.Now()
			h.runRace(vk.Scale(1500, 12000))
			m.Set("race_phase_seconds", time.Since(tr0).Seconds())
		}
		// drift phase (c08_drift_verif_test.go): concurrent hits on an entry whose packed reply is out of
		// date; runs alone for the same reason. Id from a range of its own.
		{
			extraHistories++
			hid := 510000 + wave
			h := &c08Hist{env: env, id: hid, kind: "drift", seen: map[string]bool{}, start: time.Now(),
				cfg: c08Cfg{Opt: wave%2 == 0, Stale: 2, Max: 0, Fixed: "none"}}
			h.r = vk.NewRand(0xC08<<20 | uint64(hid))
			td0 := time.Now()
			h.runDrift(nDrift)
			m.Set("drift_phase_seconds", time.Since(td0).Seconds())
		}
	}
	m.Set("histories", id+extraHistories)
	m.Set("documented_ttl_slack", "control/dns_cache.go:17-22 ttlRefreshThresholdSeconds = 15; control/dns_control.go comment above LookupDnsRespCache_")

	// The stale path must have been observed for production-inserted entries
	// inside a configured (finite) window, on the controller that inserted them.
	m.Require("stale_served_windowed_on_inserting_controller", "stale_served_insert", "stale_served_clone",
		"expired_not_served", "beyond_window_not_served",
		"lru_pairs_checked", "needrefresh_true", "client_served_from_cache", "client_resolved_upstream",
		"scope_match_checked", "miss_never_inserted", "ttl_checked", "deadline_matches_fixed_ttl_shorter",
		"deadline_matches_fixed_ttl_longer", "race_rounds_all_workers", "refresh_bg-ok", "refresh_bg-fail-forward", "refresh_bg-fail-chooser")
	// question-type alphabet: every type 1..64 swept for one name and scope, every class of the
	// uint16 space, digit-tail names, and the client path
	m.Require("types_sweep_1_64_complete", "types_other_type_asked_while_earlier_answers_cached",
		"types_class_0", "types_class_1-64", "types_class_65-255", "types_class_256-32767", "types_class_32768-65279", "types_class_65280-65535",
		"types_digit_tail_name_type_combos_checked", "types_client_other_type_asked_while_first_cached", "types_histories_completed")
	// runtime updates: refused and accepted ones through every entry point, followed by probes at
	// which the refused candidate / the previous configuration would demand the opposite
	m.Require("reconf_updates_refused", "reconf_updates_accepted",
		"reconf_refused_via_try", "reconf_refused_via_reuse", "reconf_refused_via_update", "reconf_accepted_via_try", "reconf_accepted_via_reuse",
		"reconf_refused_knob_optimistic_cache", "reconf_refused_knob_optimistic_cache_ttl", "reconf_refused_knob_max_cache_size",
		"reconf_refused_knob_all", "reconf_refused_knob_fixed_domain_ttl",
		"reconf_probes_where_refused_candidate_would_differ", "reconf_probes_refused_candidate_would_serve_in_force_must_not",
		"reconf_probes_where_previous_config_would_differ",
		"reconf_size_rounds_where_refused_candidate_would_differ", "reconf_size_limit_in_force_held", "reconf_size_unlimited_rounds",
		"reconf_size_lru_pairs_checked", "reconf_timing_histories_completed", "reconf_size_histories_completed")
	// reload hand-over: every shape, the size limit biting on the successor before / after restored
	// entries were looked up again and by over-limit insertion, LRU pairs whose last uses lie before the
	// hand-over and in different generations, carried entries probed inside and beyond their lifetime
	// (also entries already expired at the hand-over), a changed window in force, successor's fixed TTL
	m.Require("handover_via_clone-restore", "handover_via_self-restore", "handover_via_reuse",
		"handover_config_changed", "handover_config_unchanged",
		"handover_lru_successor_over_limit_at_first_janitor_janitor-before-any-lookup",
		"handover_lru_successor_over_limit_at_first_janitor_overlimit-insertion-on-successor",
		"handover_lru_successor_over_limit_at_first_janitor_some-looked-up-on-successor",
		"handover_lru_evictions_on_successor", "handover_lru_pairs_checked",
		"handover_lru_pairs_both_last_used_before_handover", "handover_lru_pairs_last_used_in_different_generations",
		"handover_lru_second_handover", "handover_lru_histories_completed",
		"handover_timing_probes_after_handover", "handover_probes_of_carried_entry_inside_lifetime",
		"handover_probes_of_carried_entry_beyond_lifetime", "handover_probes_of_entry_expired_before_handover",
		"handover_probes_where_predecessor_config_would_differ", "handover_neighbour_probes_on_successor",
		"handover_successor_fixed_ttl_checked", "handover_successor_fixed_ttl_differs_from_predecessor",
		"handover_deadline_matches_fixed_ttl_shorter", "handover_deadline_matches_fixed_ttl_longer",
		"handover_timing_second_handover", "handover_timing_histories_completed")
	// concurrent hits on a drifted entry: rounds in which the packed reply was re-made while at least one
	// other reader was being answered, for idle times around and far above the slack, remaining
	// lifetimes from seconds to hours, both reader kinds, with a replacing insert / a janitor alongside
	m.Require("drift_rounds", "drift_rounds_with_repack", "drift_rounds_with_two_or_more_readers_inside_one_repack",
		"drift_replies_judged", "drift_ttl_within_slack", "drift_reader_kind_entry", "drift_reader_kind_lookup",
		"drift_rounds_idle_below_slack", "drift_rounds_idle_just_above_slack", "drift_rounds_idle_far_above_slack",
		"drift_rounds_remaining_under_20s", "drift_rounds_remaining_under_1h", "drift_rounds_remaining_hours",
		"drift_rounds_with_writer", "drift_rounds_with_janitor", "drift_entry_reader_told_to_build_exact_answer",
		"drift_replies_repacked_bytes", "drift_readers_per_round_02", "drift_histories_completed")
	m.Done(t)
}
