package control

// C19 monitor, class "domain-table keys in action over WHOLE ANSWERS".
//
// The key of domain_routing_map is computed on both sides: the control plane derives it from the
// address records of a cached DNS answer (cache entry -> BatchUpdateDomainRouting ->
// buildDomainRoutingOwnerSnapshot -> tracker -> batch), the kernel from the destination of a frame
// (get_tuples -> route() -> bpf_map_lookup_elem(&domain_routing_map, daddr)). Single addresses are
// covered by c19KeysInAction; here the unit is an answer: 1..8 records mixing A, AAAA, IPv4-mapped
// AAAA, duplicates and records without an address, in every order (all permutations up to four
// records, random orders above), several cache entries handled one after another by one goroutine
// on one controlPlaneCore.
//
// Oracle: after every operation the table the control plane has installed (the real kernel map read
// back by iteration; the fold of the observed batches when no map can be created) is copied into
// kernsim, one frame per answered address goes through the LAN TC hook, and
//   - the 16 destination bytes the TC program put into its flow key for that frame (get_tuples: the
//     same bytes route() copies into the lookup key) must be present in the table, byte for byte;
//   - the table must hold no key that is not such a kernel key of an answered address;
//   - the frame must leave through the group of the domain rule, i.e. the kernel's own lookup hit.

import (
	"fmt"
	"net"
	"net/netip"
	"sort"
	"strings"
	"unsafe"

	"github.com/cilium/ebpf"
	"github.com/cilium/ebpf/rlimit"
	vk "github.com/daeuniverse/dae/verifkit"
	dnsmessage "github.com/miekg/dns"
)

type c19AnsRec struct {
	Kind string `json:"kind"` // A, AAAA, MAPPED (AAAA holding ::ffff:a.b.c.d), CNAME, TXT
	Addr string `json:"addr,omitempty"`
}

func (r c19AnsRec) String() string {
	if r.Addr == "" {
		return r.Kind
	}
	return r.Kind + " " + r.Addr
}

// dest is the destination a client that got this record connects to (IPv4 for a mapped AAAA).
func (r c19AnsRec) dest() (netip.Addr, bool) {
	if r.Addr == "" {
		return netip.Addr{}, false
	}
	return netip.MustParseAddr(r.Addr).Unmap(), true
}

// c19AnsWire builds the reply and sends it through the wire format, so that the RR values have the
// shape a forwarder hands to dae (4-byte A, 16-byte AAAA).
func c19AnsWire(qname string, recs []c19AnsRec) ([]dnsmessage.RR, error) {
	msg := new(dnsmessage.Msg)
	msg.SetQuestion(qname, dnsmessage.TypeA)
	msg.Response = true
	owner := qname
	for i, rec := range recs {
		h := dnsmessage.RR_Header{Name: owner, Class: dnsmessage.ClassINET, Ttl: 300}
		switch rec.Kind {
		case "A":
			h.Rrtype = dnsmessage.TypeA
			b := netip.MustParseAddr(rec.Addr).As4()
			msg.Answer = append(msg.Answer, &dnsmessage.A{Hdr: h, A: net.IP(b[:])})
		case "AAAA", "MAPPED":
			h.Rrtype = dnsmessage.TypeAAAA
			b := netip.MustParseAddr(rec.Addr).As16()
			msg.Answer = append(msg.Answer, &dnsmessage.AAAA{Hdr: h, AAAA: net.IP(b[:])})
		case "CNAME":
			h.Rrtype = dnsmessage.TypeCNAME
			alias := fmt.Sprintf("alias%d.%s", i, qname)
			msg.Answer = append(msg.Answer, &dnsmessage.CNAME{Hdr: h, Target: alias})
			owner = alias
		default:
			h.Rrtype = dnsmessage.TypeTXT
			msg.Answer = append(msg.Answer, &dnsmessage.TXT{Hdr: h, Txt: []string{"v=c19"}})
		}
	}
	b, err := msg.Pack()
	if err != nil {
		return nil, err
	}
	out := new(dnsmessage.Msg)
	if err = out.Unpack(b); err != nil {
		return nil, err
	}
	return out.Answer, nil
}

// c19AnsShapes: which record-order shapes an answer contains (address records only are ordered
// against each other; a record without an address between two of them is its own shape).
func c19AnsShapes(recs []c19AnsRec) []string {
	set := map[string]bool{}
	prev := ""
	gap := false
	seen := map[netip.Addr]bool{}
	for _, rec := range recs {
		d, ok := rec.dest()
		if !ok {
			if prev != "" {
				gap = true
			}
			continue
		}
		fam := "v6"
		if d.Is4() {
			fam = "v4"
		}
		if rec.Kind == "MAPPED" {
			set["mapped"] = true
		}
		if seen[d] {
			set["duplicates"] = true
		}
		seen[d] = true
		if prev != "" {
			set[fam+"-after-"+prev] = true
			if gap {
				set["non-address-record-between"] = true
			}
		}
		prev, gap = fam, false
	}
	out := make([]string, 0, len(set))
	for s := range set {
		out = append(out, s)
	}
	sort.Strings(out)
	return out
}

// c19AnsPlace: how the record that answers dest sits in the answer ("v4-record-after-v6", ...).
func c19AnsPlace(recs []c19AnsRec, dest netip.Addr) string {
	prev := "none"
	for _, rec := range recs {
		d, ok := rec.dest()
		if !ok {
			continue
		}
		fam := "v6"
		if d.Is4() {
			fam = "v4"
		}
		if d == dest {
			kind := fam
			if rec.Kind == "MAPPED" {
				kind = "mapped"
			}
			return kind + "-record-after-" + prev
		}
		prev = fam
	}
	return "not-in-last-answer"
}

type c19AnsOwner struct {
	name  string
	rule  int // index of the domain rule the name matches, -1: none (zero bitmap)
	recs  []c19AnsRec
	dests map[netip.Addr]bool
}

type c19AnsWorld struct {
	m       *vk.Monitor
	k       *vk.KS
	core    *controlPlaneCore
	real    *ebpf.Map
	built   *verifBuilt
	shadow  map[[16]byte]bpfDomainRouting // fold of the batches syncOwner handed out
	pushed  map[[16]byte]bpfDomainRouting // what kernsim's domain_routing_map holds
	owners  map[string]*c19AnsOwner
	order   []string
	history []string
	sport   uint16
	groups  [3]uint8 // outbound ids: fallback, rule 0, rule 1
	entries int
}

var c19AnsNames = []struct {
	name string
	rule int
}{{"key.example.", 0}, {"a.v.example.", 1}, {"none.example.", -1}}

func c19AnsProgram() *vk.RProg {
	return &vk.RProg{Rules: []vk.RRule{
		{Conds: []vk.RCond{{Func: "domain", Params: []vk.RParam{{Key: "full", Val: "key.example"}}}}, Out: vk.ROut{Name: verifGroups[2]}},
		{Conds: []vk.RCond{{Func: "domain", Params: []vk.RParam{{Key: "suffix", Val: "v.example"}}}}, Out: vk.ROut{Name: verifGroups[3]}},
	}, Fallback: vk.ROut{Name: verifGroups[1]}}
}

func c19AnsKeyBytes(k [4]uint32) (b [16]byte) {
	copy(b[:], verifRaw(&k))
	return b
}

// newSession: a fresh controlPlaneCore (fresh tracker), an empty table, a freshly loaded program.
func (w *c19AnsWorld) newSession() error {
	w.core = &controlPlaneCore{log: verifQuietLog(), domainRouting: newDomainRoutingTracker()}
	if w.real != nil {
		var kk [4]uint32
		var keys [][4]uint32
		var vv [len(bpfDomainRouting{}.Bitmap)]uint32
		it := w.real.Iterate()
		for it.Next(&kk, &vv) {
			keys = append(keys, kk)
		}
		for _, key := range keys {
			_ = w.real.Delete(key)
		}
	}
	w.core.bpf.Store(&bpfObjects{bpfMaps: bpfMaps{DomainRoutingMap: w.real}})
	w.shadow = map[[16]byte]bpfDomainRouting{}
	w.pushed = map[[16]byte]bpfDomainRouting{}
	w.owners = map[string]*c19AnsOwner{}
	w.order, w.history = nil, nil
	w.entries = 0
	k := w.k
	k.Reset()
	var prm bpfDaeParam
	prm.Dae0Ifindex = 9
	prm.ControlPlanePid = 1
	k.SetParam(verifRaw(&prm))
	k.SetTime(5000e9)
	if _, err := verifLoadProgram(k, w.built.snap); err != nil {
		return err
	}
	for _, g := range w.groups {
		for _, v6 := range []bool{false, true} {
			k.QMapUpdate("outbound_connectivity_map", verifU32(outboundConnectivityMapKey(g, c03NetworkType(false, v6))), verifU32(1), 0)
		}
	}
	k.Sync()
	return k.Dead()
}

func (w *c19AnsWorld) observe(upd [][4]uint32, vals []bpfDomainRouting, del [][4]uint32) {
	for i, key := range upd {
		w.shadow[c19AnsKeyBytes(key)] = vals[i]
	}
	for _, key := range del {
		delete(w.shadow, c19AnsKeyBytes(key))
	}
}

// table: what the control plane has installed, as key bytes.
func (w *c19AnsWorld) table() (map[[16]byte]bpfDomainRouting, string, error) {
	if w.real == nil {
		return w.shadow, "observed batches", nil
	}
	out := map[[16]byte]bpfDomainRouting{}
	var kb [16]byte
	var v [len(bpfDomainRouting{}.Bitmap)]uint32
	it := w.real.Iterate()
	for it.Next(&kb, &v) {
		var dr bpfDomainRouting
		copy(dr.Bitmap[:], v[:])
		out[kb] = dr
	}
	if err := it.Err(); err != nil {
		return nil, "", err
	}
	return out, "real map", nil
}

func (w *c19AnsWorld) update(owner, name string, rule int, recs []c19AnsRec) error {
	rrs, err := c19AnsWire(name, recs)
	if err != nil {
		return fmt.Errorf("wire: %w", err)
	}
	bm := make([]uint32, len(bpfDomainRouting{}.Bitmap))
	copy(bm, w.built.matcher.domainMatcher.MatchDomainBitmap(name)) // as the production NewCache closure
	cache := &DnsCache{RouteOwnerKey: owner, DomainBitmap: bm, Answer: rrs}
	o := &c19AnsOwner{name: name, rule: rule, recs: recs, dests: map[netip.Addr]bool{}}
	for _, rec := range recs {
		if d, ok := rec.dest(); ok {
			o.dests[d] = true
		}
	}
	if _, ok := w.owners[owner]; !ok {
		w.order = append(w.order, owner)
	}
	w.owners[owner] = o
	w.entries++
	strs := make([]string, len(recs))
	for i, rec := range recs {
		strs[i] = rec.String()
	}
	w.history = append(w.history, fmt.Sprintf("update owner=%s name=%s answer=[%s]", owner, name, strings.Join(strs, ", ")))
	return w.core.BatchUpdateDomainRouting(cache)
}

func (w *c19AnsWorld) remove(owner string) error {
	delete(w.owners, owner)
	w.history = append(w.history, "remove owner="+owner)
	return w.core.BatchRemoveDomainRouting(&DnsCache{RouteOwnerKey: owner})
}

// check compares the installed table with what the kernel computes; last = the owner just written.
func (w *c19AnsWorld) check(last string) bool {
	m, k := w.m, w.k
	tbl, src, err := w.table()
	if err != nil {
		m.Inconclusive("answer keys: reading the table back: %v", err)
		return false
	}
	for key := range w.pushed {
		if _, ok := tbl[key]; !ok {
			kb := key
			k.QMapDelete("domain_routing_map", kb[:])
			delete(w.pushed, key)
		}
	}
	for key, val := range tbl {
		if old, ok := w.pushed[key]; !ok || old != val {
			kb, vv := key, val
			k.QMapUpdate("domain_routing_map", kb[:], append([]byte(nil), verifRaw(&vv)...), 0)
			w.pushed[key] = val
		}
	}
	// addresses that must be routable by domain (owner with a non-zero bitmap) and addresses that
	// may be present (owner whose name matches no rule: the statement does not say either way)
	required := map[netip.Addr]int{}
	tolerated := map[netip.Addr]bool{}
	for _, on := range w.order {
		o := w.owners[on]
		if o == nil {
			continue
		}
		for d := range o.dests {
			if o.rule < 0 {
				tolerated[d] = true
				continue
			}
			if cur, ok := required[d]; !ok || o.rule < cur {
				required[d] = o.rule
			}
		}
	}
	var dests []netip.Addr
	for d := range required {
		dests = append(dests, d)
	}
	for d := range tolerated {
		if _, ok := required[d]; !ok {
			dests = append(dests, d)
		}
	}
	sort.Slice(dests, func(i, j int) bool { return dests[i].Less(dests[j]) })
	frames := make([]vk.Frame, len(dests))
	for i, d := range dests {
		w.sport++
		if w.sport < 1024 {
			w.sport = 1024
		}
		f := vk.Frame{L2: true, Dst: d, Sport: w.sport, Dport: 443, Proto: 6, Syn: true, Payload: 0, SrcMac: [6]byte{2, 0, 0, 0, 0, 7}}
		if d.Is4() {
			f.Src = netip.MustParseAddr("10.9.9.5")
		} else {
			f.Src = netip.MustParseAddr("fd00::5")
		}
		frames[i] = f
		data := f.Bytes()
		k.QPkt(&vk.PktReq{Hook: vk.HookLanIngressL2, Protocol: f.SkbProtocol(), Ifindex: 2, PullMode: vk.PullForceOK, HeadLen: uint32(len(data)), Data: data})
	}
	res := k.Sync()
	if k.Dead() != nil {
		m.Violation("answer-keys/sanitizer", k.Dead().Error(), map[string]any{"history": w.history})
		return false
	}
	var pkts []vk.PktRes
	for _, q := range res {
		if q.Op == 10 {
			pkts = append(pkts, q.Pkt)
		}
	}
	if len(pkts) != len(dests) {
		m.Inconclusive("answer keys: %d frames sent, %d results", len(dests), len(pkts))
		return false
	}
	var zero bpfTuplesKey
	ksz := int(unsafe.Sizeof(zero))
	flowKeys := make([][]byte, len(dests))
	for i := range dests {
		for _, e := range pkts[i].Events {
			if e.Kind == 1 && len(e.Key) == ksz {
				flowKeys[i] = e.Key
			}
		}
		if flowKeys[i] != nil {
			k.QMapGet("conn_state_map", flowKeys[i])
			k.QMapGet("routing_handoff_map", flowKeys[i])
		}
	}
	gets := k.Sync()
	gi := 0
	kernKey := map[netip.Addr][16]byte{}
	outbound := map[netip.Addr]int{}
	for i, d := range dests {
		if flowKeys[i] == nil {
			m.Count("answer_frames_without_flow_key", 1)
			continue
		}
		tk := (*bpfTuplesKey)(unsafe.Pointer(&flowKeys[i][0]))
		kernKey[d] = tk.Dip.U6Addr8
		ob := -1
		for j := 0; j < 2 && gi < len(gets); j++ {
			g := gets[gi]
			gi++
			if !g.Found {
				continue
			}
			if j == 0 && len(g.Val) == int(unsafe.Sizeof(bpfConnState{})) {
				cs := (*bpfConnState)(unsafe.Pointer(&g.Val[0]))
				if cs.Meta.Data.HasRouting != 0 {
					ob = int(cs.Meta.Data.Outbound)
				}
			}
			if j == 1 && ob < 0 && len(g.Val) == int(unsafe.Sizeof(bpfRoutingHandoffEntry{})) {
				ob = int((*bpfRoutingHandoffEntry)(unsafe.Pointer(&g.Val[0])).Result.Outbound)
			}
		}
		outbound[d] = ob
	}
	var lastRecs []c19AnsRec
	if o := w.owners[last]; o != nil {
		lastRecs = o.recs
	}
	witness := func(extra map[string]any) map[string]any {
		inst := make([]string, 0, len(tbl))
		for key := range tbl {
			inst = append(inst, fmt.Sprintf("%x", key[:]))
		}
		sort.Strings(inst)
		kern := map[string]string{}
		for d, kk := range kernKey {
			kern[d.String()] = fmt.Sprintf("%x", kk[:])
		}
		wit := map[string]any{"history_on_this_goroutine": w.history, "table_source": src, "installed_keys": inst, "kernel_keys_by_destination": kern,
			"entries_processed_before_on_this_core": w.entries - 1}
		for kx, v := range extra {
			wit[kx] = v
		}
		return wit
	}
	m.Eval(1)
	allowed := map[[16]byte]bool{}
	for _, d := range dests {
		kk, ok := kernKey[d]
		if !ok {
			continue
		}
		allowed[kk] = true
		if _, req := required[d]; !req {
			continue
		}
		m.Count("answer_keys_compared_with_kernel", 1)
		if _, ok := tbl[kk]; !ok {
			m.Violation("answer-keys/missing/"+c19AnsPlace(lastRecs, d),
				fmt.Sprintf("domain_routing_map (%s) has no entry under the key the TC program computes for answered address %v (%x): the domain rule cannot apply to it", src, d, kk[:]),
				witness(map[string]any{"destination": d.String()}))
			return false
		}
	}
	complete := len(kernKey) == len(dests)
	for key := range tbl {
		if complete && !allowed[key] {
			m.Violation("answer-keys/foreign/"+strings.Join(c19AnsShapes(lastRecs), "+"),
				fmt.Sprintf("domain_routing_map (%s) holds key %x, which is the kernel's key of no address of any cached answer", src, key[:]),
				witness(map[string]any{"foreign_key": fmt.Sprintf("%x", key[:])}))
			return false
		}
	}
	for _, d := range dests {
		rule, req := required[d]
		if !req {
			continue
		}
		ob, ok := outbound[d]
		if !ok || ob < 0 {
			m.Count("answer_frames_without_stored_routing", 1)
			continue
		}
		if uint8(ob) != w.groups[1+rule] {
			m.Violation("answer-keys/kernel-lookup-miss/"+c19AnsPlace(lastRecs, d),
				fmt.Sprintf("a frame to answered address %v left through outbound %d, the domain rule's group is %d: the kernel's domain_routing_map lookup did not find the control plane's entry", d, ob, w.groups[1+rule]),
				witness(map[string]any{"destination": d.String()}))
			return false
		}
		m.Count("answer_frames_routed_by_installed_key", 1)
	}
	if len(required) == 0 && len(tolerated) == 0 {
		if len(tbl) != 0 {
			keys := make([]string, 0, len(tbl))
			for key := range tbl {
				keys = append(keys, fmt.Sprintf("%x", key[:]))
			}
			m.Violation("answer-keys/foreign/after-removal", fmt.Sprintf("no cached answer lists an address, yet domain_routing_map (%s) holds %v", src, keys), witness(nil))
			return false
		}
		m.Count("answer_tables_empty_after_removal", 1)
	}
	if src == "real map" {
		m.Count("answer_tables_read_back_from_real_map", 1)
	}
	return true
}

func c19AnsPermutations(recs []c19AnsRec) [][]c19AnsRec {
	var out [][]c19AnsRec
	seen := map[string]bool{}
	var rec func(cur []c19AnsRec, rest []c19AnsRec)
	rec = func(cur []c19AnsRec, rest []c19AnsRec) {
		if len(rest) == 0 {
			sig := fmt.Sprint(cur)
			if !seen[sig] {
				seen[sig] = true
				out = append(out, append([]c19AnsRec(nil), cur...))
			}
			return
		}
		for i := range rest {
			nr := append(append([]c19AnsRec(nil), rest[:i]...), rest[i+1:]...)
			rec(append(cur, rest[i]), nr)
		}
	}
	rec(nil, recs)
	return out
}

func c19AnswerKeysInAction(m *vk.Monitor, k *vk.KS, r c19Rng) {
	rules, fb, err := verifParseRouting(c19AnsProgram().Text())
	if err != nil {
		m.Inconclusive("answer keys: %v", err)
		return
	}
	built, err := verifBuildMatcher(rules, fb, verifProductionOptimizers()...)
	if err != nil {
		m.Inconclusive("answer keys: %v", err)
		return
	}
	name2id, _ := verifOutboundTable()
	w := &c19AnsWorld{m: m, k: k, built: built, groups: [3]uint8{name2id[verifGroups[1]], name2id[verifGroups[2]], name2id[verifGroups[3]]}}
	for i, n := range c19AnsNames {
		zero := true
		for _, x := range built.matcher.domainMatcher.MatchDomainBitmap(n.name) {
			if x != 0 {
				zero = false
			}
		}
		if zero != (n.rule < 0) {
			m.Inconclusive("answer keys: name %d (%s) zero bitmap=%v, expected rule %d", i, n.name, zero, n.rule)
			return
		}
	}
	_ = rlimit.RemoveMemlock()
	if mp, err := ebpf.NewMap(&ebpf.MapSpec{Name: "c19_domain_rt", Type: ebpf.Hash, Flags: 1, /* BPF_F_NO_PREALLOC */
		KeySize: uint32(unsafe.Sizeof([4]uint32{})), ValueSize: uint32(unsafe.Sizeof(bpfDomainRouting{})), MaxEntries: 4096}); err == nil {
		w.real = mp
		defer mp.Close()
	} else {
		m.Count("answer_real_map_unavailable", 1)
	}
	obs := func(upd [][4]uint32, vals []bpfDomainRouting, del [][4]uint32) { w.observe(upd, vals, del) }
	VerifDomainRoutingObserver.Store(&obs)
	defer VerifDomainRoutingObserver.Store(nil)

	// small pools, hostile bytes: zeros where the other family has data and the reverse
	v4base := [][4]byte{{93, 184, 216, 0}, {198, 18, 0, 0}, {10, 255, 0, 0}, {1, 2, 3, 0}}
	v6base := []string{"2606:2800:220:1:248:1893:25c8:1900", "2001:db8::", "fd00:ffff:ffff:ffff:ffff:ffff:ffff:ff00", "64:ff9b::c612:0"}
	genRec := func(tail byte) c19AnsRec {
		switch x := r.IntN(9); {
		case x < 3:
			b := v4base[r.IntN(len(v4base))]
			b[3] = tail
			return c19AnsRec{Kind: "A", Addr: netip.AddrFrom4(b).String()}
		case x < 6:
			b := netip.MustParseAddr(v6base[r.IntN(len(v6base))]).As16()
			b[15] = tail
			return c19AnsRec{Kind: "AAAA", Addr: netip.AddrFrom16(b).String()}
		case x < 7:
			b := v4base[r.IntN(len(v4base))]
			b[3] = tail
			return c19AnsRec{Kind: "MAPPED", Addr: netip.AddrFrom16(netip.AddrFrom4(b).As16()).String()}
		case x < 8:
			return c19AnsRec{Kind: "CNAME"}
		default:
			return c19AnsRec{Kind: "TXT"}
		}
	}
	genAnswer := func(n int, tail byte) []c19AnsRec {
		recs := make([]c19AnsRec, 0, n)
		for len(recs) < n {
			if len(recs) > 0 && r.IntN(6) == 0 {
				recs = append(recs, recs[r.IntN(len(recs))]) // a duplicate record
				continue
			}
			recs = append(recs, genRec(tail))
		}
		return recs
	}
	note := func(recs []c19AnsRec) {
		shapes := c19AnsShapes(recs)
		for _, s := range shapes {
			m.Count("answer_shapes/"+s, 1)
		}
		m.Count("answer_entries_processed", 1)
		m.Distinct(fmt.Sprintf("answer|n%d|%s", len(recs), strings.Join(shapes, "+")))
		if m.WantSample() {
			m.Sample(map[string]any{"class": "answer-keys", "answer": fmt.Sprint(recs), "shapes": shapes})
		}
	}

	// (a) every order of small answers: each permutation is a cache entry of its own, written and
	// removed again, all permutations of one record set by the same goroutine on the same core
	for s := 0; s < vk.Scale(50, 600); s++ {
		n := 1 + r.IntN(4)
		tail := byte(1 + r.IntN(254))
		perms := c19AnsPermutations(genAnswer(n, tail))
		if err := w.newSession(); err != nil {
			m.Violation("answer-keys/load", err.Error(), nil)
			return
		}
		nm := c19AnsNames[r.IntN(2)]
		for i, p := range perms {
			owner := fmt.Sprintf("%s1:perm%d", nm.name, i)
			note(p)
			if err := w.update(owner, nm.name, nm.rule, p); err != nil {
				m.Violation("answer-keys/update-error", err.Error(), map[string]any{"history": w.history})
				return
			}
			if !w.check(owner) {
				return
			}
			if err := w.remove(owner); err != nil {
				m.Violation("answer-keys/remove-error", err.Error(), map[string]any{"history": w.history})
				return
			}
			if !w.check(owner) {
				return
			}
			m.Count("answer_removals_checked", 1)
		}
		m.Count("answer_permutation_sets_exhausted", 1)
		m.Count("answer_permutations_tried", int64(len(perms)))
		if w.entries >= 2 {
			m.Count("answer_goroutines_with_several_entries", 1)
		}
	}
	// (b) several owners side by side: answers of 1..8 records in random order, entries re-written
	// with another answer, entries removed; addresses shared between owners
	for s := 0; s < vk.Scale(120, 1500); s++ {
		if err := w.newSession(); err != nil {
			m.Violation("answer-keys/load", err.Error(), nil)
			return
		}
		tail := byte(1 + r.IntN(254))
		ops := 2 + r.IntN(5)
		for i := 0; i < ops; i++ {
			nm := c19AnsNames[r.IntN(len(c19AnsNames))]
			owner := fmt.Sprintf("%s%d", nm.name, 1+r.IntN(2)*27) // qtype 1 / 28: two owners per name
			if _, live := w.owners[owner]; live && r.IntN(4) == 0 {
				if err := w.remove(owner); err != nil {
					m.Violation("answer-keys/remove-error", err.Error(), map[string]any{"history": w.history})
					return
				}
				m.Count("answer_removals_checked", 1)
			} else {
				n := 1 + r.IntN(8)
				recs := genAnswer(n, tail)
				r2 := append([]c19AnsRec(nil), recs...)
				for j := len(r2) - 1; j > 0; j-- {
					x := r.IntN(j + 1)
					r2[j], r2[x] = r2[x], r2[j]
				}
				note(r2)
				if live {
					m.Count("answer_entries_rewritten_with_another_answer", 1)
				}
				if n > 4 {
					m.Count("answer_entries_with_5_to_8_records", 1)
				}
				if err := w.update(owner, nm.name, nm.rule, r2); err != nil {
					m.Violation("answer-keys/update-error", err.Error(), map[string]any{"history": w.history})
					return
				}
			}
			if !w.check(owner) {
				return
			}
		}
		if w.entries >= 2 {
			m.Count("answer_goroutines_with_several_entries", 1)
		}
	}
}
