package control

// C09 monitor, shared pieces: the answer marker, the reply oracle, the scripted
// upstream "world" (behaviour per upstream call + call log) used by the fake
// DnsForwarders (controller layer) and by the hostile loopback servers
// (transport / end-to-end layers).
//
// Everything here is written from the property statement and the DNS wire
// format only; it does not call into dae except for miekg/dns (the message
// codec dae itself uses) to pack/unpack messages.

import (
	"context"
	"errors"
	"fmt"
	"hash/fnv"
	"math/rand/v2"
	"net"
	"runtime"
	"sort"
	"strings"
	"sync"
	"sync/atomic"
	"time"

	vk "github.com/daeuniverse/dae/verifkit"
	dnsmessage "github.com/miekg/dns"
)

// ---- questions and the marker ------------------------------------------------

type c09Q struct {
	Name  string // as sent (any case), fully qualified
	Type  uint16
	Class uint16
}

func (q c09Q) canon() string { return strings.ToLower(dnsmessage.Fqdn(q.Name)) }
func (q c09Q) key() string   { return fmt.Sprintf("%s/%d", q.canon(), q.Type) }
func (q c09Q) String() string {
	return fmt.Sprintf("%s %s class=%d", q.Name, dnsmessage.TypeToString[q.Type], q.Class)
}

var c09Types = []uint16{dnsmessage.TypeA, dnsmessage.TypeAAAA, dnsmessage.TypeTXT, dnsmessage.TypeCAA} // CAA = 257: equal to A modulo 256

// Small overlapping name pool (shared suffixes, a name that is a suffix/prefix
// of another) so that mix-ups between neighbours are possible and visible.
var c09NamePool = []string{
	"a.c09.test.", "b.c09.test.", "ab.c09.test.", "a.b.c09.test.",
	"c.c09.test.", "www.a.c09.test.", "x.c09.example.", "a.c09.example.",
}

// c09Hash16 is the marker: which (name,type) an answer record answers.
func c09Hash16(name string, qtype uint16) uint16 {
	h := fnv.New32a()
	_, _ = h.Write([]byte(strings.ToLower(dnsmessage.Fqdn(name))))
	_, _ = h.Write([]byte{byte(qtype >> 8), byte(qtype), 0x09})
	s := h.Sum32()
	return uint16(s>>16) ^ uint16(s)
}

// c09CheckMarkerInjective makes sure no two (name,type) of the pool share a marker.
func c09CheckMarkerInjective() error {
	seen := map[uint16]string{}
	for _, n := range c09NamePool {
		for _, t := range c09Types {
			h := c09Hash16(n, t)
			k := fmt.Sprintf("%s/%d", n, t)
			if o, ok := seen[h]; ok {
				return fmt.Errorf("marker collision %s vs %s", o, k)
			}
			seen[h] = k
		}
	}
	return nil
}

// c09AnswerRRs builds the answer section the upstream gives for question q:
// the record data encodes hash16(q) and a generation byte.
func c09AnswerRRs(q c09Q, gen uint8, ttl uint32) []dnsmessage.RR {
	h := c09Hash16(q.Name, q.Type)
	hdr := dnsmessage.RR_Header{Name: dnsmessage.Fqdn(q.Name), Rrtype: q.Type, Class: dnsmessage.ClassINET, Ttl: ttl}
	switch q.Type {
	case dnsmessage.TypeA:
		return []dnsmessage.RR{&dnsmessage.A{Hdr: hdr, A: net.IP{10, byte(h >> 8), byte(h), gen}}}
	case dnsmessage.TypeAAAA:
		ip := make(net.IP, 16)
		ip[0], ip[1] = 0xfd, 0x09
		ip[12], ip[13], ip[15] = byte(h>>8), byte(h), gen
		return []dnsmessage.RR{&dnsmessage.AAAA{Hdr: hdr, AAAA: ip}}
	default:
		hdr.Rrtype = dnsmessage.TypeTXT
		return []dnsmessage.RR{&dnsmessage.TXT{Hdr: hdr, Txt: []string{fmt.Sprintf("c09m:%04x:%02x", h, gen)}}}
	}
}

// c09Marker reads the marker back from a record (ok=false for foreign records).
func c09Marker(rr dnsmessage.RR) (h uint16, gen uint8, ok bool) {
	switch b := rr.(type) {
	case *dnsmessage.A:
		ip := b.A.To4()
		if ip == nil || ip[0] != 10 {
			return 0, 0, false
		}
		return uint16(ip[1])<<8 | uint16(ip[2]), ip[3], true
	case *dnsmessage.AAAA:
		ip := b.AAAA.To16()
		if ip == nil || ip[0] != 0xfd || ip[1] != 0x09 {
			return 0, 0, false
		}
		return uint16(ip[12])<<8 | uint16(ip[13]), ip[15], true
	case *dnsmessage.TXT:
		if len(b.Txt) == 1 && strings.HasPrefix(b.Txt[0], "c09m:") {
			var hh, g uint
			if _, err := fmt.Sscanf(b.Txt[0], "c09m:%04x:%02x", &hh, &g); err == nil {
				return uint16(hh), uint8(g), true
			}
		}
	}
	return 0, 0, false
}

// c09Response is a well-formed upstream response that answers question ans.
func c09Response(id uint16, ans c09Q, gen uint8, ttl uint32) *dnsmessage.Msg {
	m := new(dnsmessage.Msg)
	m.Id = id
	m.Response = true
	m.RecursionDesired = true
	m.RecursionAvailable = true
	m.Question = []dnsmessage.Question{{Name: dnsmessage.Fqdn(ans.Name), Qtype: ans.Type, Qclass: ans.Class}}
	m.Answer = c09AnswerRRs(ans, gen, ttl)
	return m
}

func c09MixCase(r *rand.Rand, name string) string {
	b := []byte(name)
	for i := range b {
		if b[i] >= 'a' && b[i] <= 'z' && r.IntN(3) == 0 {
			b[i] -= 'a' - 'A'
		}
	}
	return string(b)
}

func c09MsgString(m *dnsmessage.Msg) string {
	if m == nil {
		return "<nil>"
	}
	var sb strings.Builder
	fmt.Fprintf(&sb, "id=%d rcode=%d tc=%v qr=%v", m.Id, m.Rcode, m.Truncated, m.Response)
	for _, q := range m.Question {
		fmt.Fprintf(&sb, " Q[%s %s c%d]", q.Name, dnsmessage.TypeToString[q.Qtype], q.Qclass)
	}
	for _, rr := range m.Answer {
		fmt.Fprintf(&sb, " AN[%s]", strings.Join(strings.Fields(rr.String()), " "))
	}
	return sb.String()
}

// ---- the per-reply oracle ---------------------------------------------------

// c09JudgeMsg checks one message dae produced for request (id,q):
//   - judgeID: Id must equal the request's
//   - question (if present) must be the request's: name case-insensitively,
//     type and class exactly (a reply without question section is only counted)
//   - every marker-bearing answer record must carry hash16(request name,type)
//
// where is a coarse structural label (layer/path) that goes into the signature.
// Returns true when the message is consistent with the request.
func c09JudgeMsg(m *vk.Monitor, where string, id uint16, q c09Q, r *dnsmessage.Msg, judgeID bool, witness func() any) bool {
	return c09JudgeMsgQ(m, where, id, q, r, judgeID, false, witness)
}

// c09JudgeClientMsg is c09JudgeMsg for a message dae WROTE TO A CLIENT: the
// statement says such a reply carries the client's question, so the question
// section must be there, exactly once (QDCOUNT == 1). Messages taken below the
// client edge (what a forwarder handed to the controller) keep the lenient form.
func c09JudgeClientMsg(m *vk.Monitor, where string, id uint16, q c09Q, r *dnsmessage.Msg, witness func() any) bool {
	return c09JudgeMsgQ(m, where, id, q, r, true, true, witness)
}

func c09JudgeMsgQ(m *vk.Monitor, where string, id uint16, q c09Q, r *dnsmessage.Msg, judgeID, needQuestion bool, witness func() any) bool {
	ok := true
	m.Count("msgs_judged", 1)
	if judgeID && r.Id != id {
		ok = false
		c09V(m, "reply-id-mismatch/"+where,
			fmt.Sprintf("message for request id=%d (%s) carries id=%d", id, q, r.Id), witness())
	}
	if needQuestion && len(r.Question) != 1 {
		ok = false
		c09V(m, "reply-question-count/"+where,
			fmt.Sprintf("reply to request (%s) carries %d questions, the client sent exactly one", q, len(r.Question)), witness())
	}
	if len(r.Question) == 0 {
		m.Count("msgs_without_question_section", 1)
	} else {
		rq := r.Question[0]
		if !strings.EqualFold(dnsmessage.Fqdn(rq.Name), dnsmessage.Fqdn(q.Name)) || rq.Qtype != q.Type || rq.Qclass != q.Class {
			ok = false
			c09V(m, "reply-question-mismatch/"+where,
				fmt.Sprintf("message for request (%s) carries question [%s %s c%d]", q, rq.Name, dnsmessage.TypeToString[rq.Qtype], rq.Qclass), witness())
		} else if rq.Name != q.Name {
			m.Count("question_case_normalised", 1)
		}
	}
	want := c09Hash16(q.Name, q.Type)
	for _, rr := range r.Answer {
		h, _, has := c09Marker(rr)
		if !has {
			m.Count("answer_rr_without_marker", 1)
			continue
		}
		m.Count("answer_markers_checked", 1)
		if h != want {
			ok = false
			c09V(m, "reply-answers-other-question/"+where,
				fmt.Sprintf("message for request (%s) carries an answer record generated for another (name,type): marker %04x, want %04x: %s", q, h, want, rr.String()), witness())
			break
		}
	}
	return ok
}

// ---- behaviours ---------------------------------------------------------------

type c09Beh int

const (
	c09OK         c09Beh = iota
	c09Slow              // answer after a short delay (keeps the upstream call open: overlaps)
	c09TTL0              // correct answer with TTL 0 (not servable from cache)
	c09WrongQ            // well-formed answer to a different name of the round, current ID
	c09WrongType         // well-formed answer to the same name, other type, current ID
	c09PrevQ             // previous query's payload (same upstream path) with the current ID
	c09WrongID           // correct answer under a different ID (fake: returned as is; wire: followed by the right one)
	c09NoQ               // correct answer records, empty question section
	c09TC                // truncated: TC bit, no answers
	c09Never             // no answer at all
	c09Err               // transport error
	c09Servfail          // rcode SERVFAIL, question echoed
	c09NX                // rcode NXDOMAIN
	c09Empty             // NOERROR, no records
	c09Dup               // wire: answer sent twice back to back
	c09DupLate           // wire: answer now, a second copy when the next query arrives on the same socket/conn
	c09Late              // wire: answer only when the next query arrives on the same socket/conn
	c09Short             // wire(udp): a 1-byte datagram, then the right answer
	c09Garbage           // wire(udp): right ID followed by malformed bytes
	c09Reorder           // wire(tcp): hold the answer until the next query on the conn was answered
	c09CloseMid          // wire(tcp): length prefix + half the payload, then close
	c09SlowTTL0          // slow, then a correct answer that cannot be served from cache (TTL 0)
	c09SlowNX            // slow, then NXDOMAIN (not cached): every waiter is served from the shared result
)

var c09BehNames = map[c09Beh]string{c09OK: "ok", c09Slow: "slow", c09TTL0: "ttl0", c09WrongQ: "wrongq", c09WrongType: "wrongtype",
	c09PrevQ: "prevq", c09WrongID: "wrongid", c09NoQ: "noq", c09TC: "tc", c09Never: "never", c09Err: "err", c09Servfail: "servfail",
	c09NX: "nx", c09Empty: "empty", c09Dup: "dup", c09DupLate: "duplate", c09Late: "late", c09Short: "short", c09Garbage: "garbage",
	c09Reorder: "reorder", c09CloseMid: "closemid", c09SlowTTL0: "slowttl0", c09SlowNX: "slownx"}

func (b c09Beh) String() string { return c09BehNames[b] }

type c09Weighted struct {
	b c09Beh
	w int
}

func c09Pick(r *rand.Rand, ws []c09Weighted) c09Beh {
	tot := 0
	for _, w := range ws {
		tot += w.w
	}
	x := r.IntN(tot)
	for _, w := range ws {
		if x < w.w {
			return w.b
		}
		x -= w.w
	}
	return ws[0].b
}

func c09Script(r *rand.Rand, ws []c09Weighted) []c09Beh {
	n := 1 + r.IntN(3)
	s := make([]c09Beh, n)
	for i := range s {
		s[i] = c09Pick(r, ws)
	}
	return s
}

func c09ScriptString(s map[string][]c09Beh) map[string]string {
	out := map[string]string{}
	for k, v := range s {
		var l []string
		for _, b := range v {
			l = append(l, b.String())
		}
		out[k] = strings.Join(l, ",")
	}
	return out
}

// ---- the world: scripts + upstream call log -------------------------------------

type c09UpCall struct {
	Seq   int    `json:"seq"`
	Up    string `json:"upstream"`
	Proto string `json:"proto"`
	ID    uint16 `json:"id"`
	Q     string `json:"question"`
	Beh   string `json:"behaviour"`
	Gen   uint8  `json:"gen"`
	Start int64  `json:"start_ns"`
	End   int64  `json:"end_ns"`
	Note  string `json:"note,omitempty"`
	key   string
}

type c09World struct {
	mu       sync.Mutex
	base     time.Time
	pool     []c09Q                // the round's questions (canonical names)
	script   map[string][]c09Beh   // proto+"|"+canonical name -> behaviours, cycled per call
	n        map[string]int        // calls seen per script key
	gen      uint8
	calls    []*c09UpCall
	r        *rand.Rand
	shutdown atomic.Bool // set when the driver starts tearing the controller down
	fwdMu    sync.Mutex
	fwds     []*c09FakeFwd
	// ttl: TTL of the records of a well-formed positive answer per canonical
	// name (default 60); read by the fake forwarders only.
	ttl map[string]uint32
}

func (w *c09World) setTTL(name string, ttl uint32) {
	w.mu.Lock()
	if w.ttl == nil {
		w.ttl = map[string]uint32{}
	}
	w.ttl[strings.ToLower(name)] = ttl
	w.mu.Unlock()
}

func (w *c09World) okTTL(q c09Q) uint32 {
	w.mu.Lock()
	defer w.mu.Unlock()
	if t, ok := w.ttl[q.canon()]; ok {
		return t
	}
	return 60
}

func c09NewWorld(r *rand.Rand, pool []c09Q) *c09World {
	return &c09World{base: time.Now(), pool: pool, script: map[string][]c09Beh{}, n: map[string]int{},
		r: rand.New(rand.NewPCG(r.Uint64(), r.Uint64()))}
}

func (w *c09World) now() int64 { return int64(time.Since(w.base)) }

func (w *c09World) setScript(proto, name string, s []c09Beh) {
	w.mu.Lock()
	w.script[proto+"|"+strings.ToLower(name)] = s
	w.mu.Unlock()
}

// begin logs an upstream call and returns the behaviour scripted for it.
func (w *c09World) begin(up, proto string, id uint16, q c09Q) (*c09UpCall, c09Beh) {
	w.mu.Lock()
	defer w.mu.Unlock()
	k := proto + "|" + q.canon()
	beh := c09OK
	if s := w.script[k]; len(s) > 0 {
		beh = s[w.n[k]%len(s)]
		w.n[k]++
	}
	w.gen++
	c := &c09UpCall{Seq: len(w.calls), Up: up, Proto: proto, ID: id, Q: q.String(), Beh: beh.String(), Gen: w.gen,
		Start: w.now(), key: up + "|" + q.key()}
	w.calls = append(w.calls, c)
	return c, beh
}

func (w *c09World) end(c *c09UpCall, note string) {
	w.mu.Lock()
	c.End = w.now()
	if note != "" {
		c.Note = note
	}
	w.mu.Unlock()
}

// other picks a different question of the round (other name, same type if possible).
func (w *c09World) other(q c09Q) c09Q {
	w.mu.Lock()
	defer w.mu.Unlock()
	var cands []c09Q
	for _, p := range w.pool {
		if p.canon() != q.canon() {
			cands = append(cands, c09Q{Name: p.Name, Type: q.Type, Class: q.Class})
		}
	}
	if len(cands) == 0 {
		return c09Q{Name: "other." + q.canon(), Type: q.Type, Class: q.Class}
	}
	return cands[w.r.IntN(len(cands))]
}

func c09OtherType(q c09Q) c09Q {
	t := dnsmessage.TypeA
	if q.Type == dnsmessage.TypeA {
		t = dnsmessage.TypeAAAA
	}
	return c09Q{Name: q.Name, Type: t, Class: q.Class}
}

func (w *c09World) snapshotCalls() []c09UpCall {
	w.mu.Lock()
	defer w.mu.Unlock()
	out := make([]c09UpCall, len(w.calls))
	for i, c := range w.calls {
		out[i] = *c
	}
	return out
}

// c09OverlappingCalls returns pairs of upstream calls for the same
// (upstream,name,type) whose [Start,End] intervals overlap: two resolutions of
// one question were in flight at the same time. protoFilter restricts to the
// primary protocol so that a UDP attempt and its own TCP fallback (sequential
// by construction) are never paired.
func c09OverlappingCalls(calls []c09UpCall) [][2]c09UpCall {
	by := map[string][]c09UpCall{}
	for _, c := range calls {
		if c.End == 0 {
			continue
		}
		by[c.key] = append(by[c.key], c)
	}
	var out [][2]c09UpCall
	for _, l := range by {
		sort.Slice(l, func(i, j int) bool { return l[i].Start < l[j].Start })
		for i := 0; i < len(l); i++ {
			for j := i + 1; j < len(l); j++ {
				if l[j].Start < l[i].End { // strictly inside: both were running
					out = append(out, [2]c09UpCall{l[i], l[j]})
				}
			}
		}
	}
	return out
}

// ---- fake DnsForwarder (controller layer) ------------------------------------------

type c09TimeoutErr struct{}

func (c09TimeoutErr) Error() string   { return "c09 fake upstream: i/o timeout" }
func (c09TimeoutErr) Timeout() bool   { return true }
func (c09TimeoutErr) Temporary() bool { return true }

type c09FakeFwd struct {
	w     *c09World
	up    string
	proto string

	inflight  atomic.Int32
	closes    atomic.Int32
	badClose  atomic.Int32 // Close() ran while a ForwardDNS was running
	lateStart atomic.Int32 // ForwardDNS started after Close()
	calls     atomic.Int32

	mu      sync.Mutex
	prev    *c09Q
	closers []string
}

func c09NewFakeFwd(w *c09World, up, proto string) *c09FakeFwd {
	f := &c09FakeFwd{w: w, up: up, proto: proto}
	w.fwdMu.Lock()
	w.fwds = append(w.fwds, f)
	w.fwdMu.Unlock()
	return f
}

// c09CloserLabel names the dae function on whose behalf Close was called.
func c09CloserLabel() string {
	pcs := make([]uintptr, 24)
	n := runtime.Callers(3, pcs)
	frames := runtime.CallersFrames(pcs[:n])
	var names []string
	for {
		fr, more := frames.Next()
		names = append(names, fr.Function)
		if !more {
			break
		}
	}
	for _, want := range []string{"evictIdleDnsForwarders", "closeAllDnsForwarders", "retireAllDnsForwarders", "retireCachedDnsForwarder", "getOrCreateDnsForwarder", "endUse", "beginUse"} {
		for _, n := range names {
			if strings.Contains(n, want) {
				return want
			}
		}
	}
	return "other"
}

func (f *c09FakeFwd) Close() error {
	label := c09CloserLabel()
	f.closes.Add(1)
	if f.inflight.Load() > 0 && !f.w.shutdown.Load() {
		f.badClose.Add(1)
	}
	f.mu.Lock()
	f.closers = append(f.closers, label)
	f.mu.Unlock()
	return nil
}

func (f *c09FakeFwd) ForwardDNS(ctx context.Context, data []byte) (*dnsmessage.Msg, error) {
	if f.closes.Load() > 0 {
		f.lateStart.Add(1)
	}
	f.inflight.Add(1)
	defer f.inflight.Add(-1)
	f.calls.Add(1)
	var req dnsmessage.Msg
	if err := req.Unpack(data); err != nil || len(req.Question) == 0 {
		return nil, errors.New("c09 fake upstream: unparsable request")
	}
	q := c09Q{Name: req.Question[0].Name, Type: req.Question[0].Qtype, Class: req.Question[0].Qclass}
	call, beh := f.w.begin(f.up, f.proto, req.Id, q)
	note := ""
	defer func() { f.w.end(call, note) }()

	f.mu.Lock()
	prev := f.prev
	qq := q
	f.prev = &qq
	f.mu.Unlock()

	pause := func(d time.Duration) error {
		t := time.NewTimer(d)
		defer t.Stop()
		select {
		case <-t.C:
			return nil
		case <-ctx.Done():
			return ctx.Err()
		}
	}
	for i := 0; i < 3; i++ {
		runtime.Gosched()
	}
	switch beh {
	case c09Slow:
		if err := pause(time.Duration(1+call.Seq%4) * time.Millisecond); err != nil {
			return nil, err
		}
		return c09Response(req.Id, q, call.Gen, f.w.okTTL(q)), nil
	case c09TTL0:
		return c09Response(req.Id, q, call.Gen, 0), nil
	case c09SlowTTL0, c09SlowNX:
		if err := pause(time.Duration(2+call.Seq%3) * time.Millisecond); err != nil {
			return nil, err
		}
		m := c09Response(req.Id, q, call.Gen, 0)
		if beh == c09SlowNX {
			m.Answer = nil
			m.Rcode = dnsmessage.RcodeNameError
		}
		return m, nil
	case c09WrongQ:
		o := f.w.other(q)
		note = "answered " + o.String()
		return c09Response(req.Id, o, call.Gen, 60), nil
	case c09WrongType:
		o := c09OtherType(q)
		note = "answered " + o.String()
		return c09Response(req.Id, o, call.Gen, 60), nil
	case c09PrevQ:
		if prev != nil && prev.key() != q.key() {
			note = "answered previous " + prev.String()
			return c09Response(req.Id, *prev, call.Gen, 60), nil
		}
		return c09Response(req.Id, q, call.Gen, 60), nil
	case c09WrongID:
		return c09Response(req.Id^0x5555, q, call.Gen, 60), nil
	case c09NoQ:
		m := c09Response(req.Id, q, call.Gen, 60)
		m.Question = nil
		return m, nil
	case c09TC:
		if f.proto == "udp" {
			m := c09Response(req.Id, q, call.Gen, 60)
			m.Answer = nil
			m.Truncated = true
			return m, ErrDNSTruncated // exactly what DoUDP.ForwardDNS returns
		}
		return c09Response(req.Id, q, call.Gen, 60), nil
	case c09Never:
		// an upstream that stays silent: the transport gives up with a timeout.
		if err := pause(15 * time.Millisecond); err != nil {
			return nil, err
		}
		return nil, c09TimeoutErr{}
	case c09Err:
		return nil, errors.New("c09 fake upstream: connection reset")
	case c09Servfail:
		m := c09Response(req.Id, q, call.Gen, 60)
		m.Answer = nil
		m.Rcode = dnsmessage.RcodeServerFailure
		return m, nil
	case c09NX:
		m := c09Response(req.Id, q, call.Gen, 60)
		m.Answer = nil
		m.Rcode = dnsmessage.RcodeNameError
		return m, nil
	case c09Empty:
		m := c09Response(req.Id, q, call.Gen, 60)
		m.Answer = nil
		return m, nil
	default:
		return c09Response(req.Id, q, call.Gen, f.w.okTTL(q)), nil
	}
}

// c09JudgeForwarders checks the close discipline of every fake forwarder the
// controller created: never closed while a ForwardDNS ran, never used after
// Close, and (after the controller itself was closed) closed exactly once.
func c09JudgeForwarders(m *vk.Monitor, where string, w *c09World, witness func(f *c09FakeFwd) any) {
	w.fwdMu.Lock()
	fwds := append([]*c09FakeFwd(nil), w.fwds...)
	w.fwdMu.Unlock()
	for _, f := range fwds {
		m.Count("forwarders_checked", 1)
		f.mu.Lock()
		closers := append([]string(nil), f.closers...)
		f.mu.Unlock()
		by := "none"
		if len(closers) > 0 {
			by = closers[0]
		}
		if f.badClose.Load() > 0 || f.lateStart.Load() > 0 {
			c09V(m, "forwarder-closed-while-in-use/"+by+"/"+where,
				fmt.Sprintf("upstream forwarder %s/%s: Close (by %v) overlapped a running ForwardDNS %d time(s), ForwardDNS started after Close %d time(s)",
					f.up, f.proto, closers, f.badClose.Load(), f.lateStart.Load()), witness(f))
		}
		switch n := f.closes.Load(); {
		case n == 1:
			m.Count("forwarders_closed_exactly_once", 1)
			m.Count("forwarder_closed_by_"+by, 1)
		case n == 0:
			c09V(m, "forwarder-never-closed/"+where,
				fmt.Sprintf("upstream forwarder %s/%s (%d calls) was not closed after retirement and controller Close", f.up, f.proto, f.calls.Load()), witness(f))
		default:
			c09V(m, "forwarder-closed-twice/"+where,
				fmt.Sprintf("upstream forwarder %s/%s closed %d times by %v", f.up, f.proto, n, closers), witness(f))
		}
	}
}

// c09V reports a violation and keeps a per-signature tally (printed in the
// evidence as counters so that every kind of failure seen in a run is listed,
// not only the first few that get replay files).
func c09V(m *vk.Monitor, sig, what string, witness any) {
	m.Count("violation_sig["+sig+"]", 1)
	m.Violation(sig, what, witness)
}
