package control

// C13 monitor entry point: UDP flows - ordered exactly-once handling over one
// stable, leak-free endpoint. Three sub-monitors share one evidence file:
//   (a) UdpTaskPool      - c13_taskpool_verif_test.go
//   (b) UdpEndpointPool  - c13_endpoint_verif_test.go
//   (c) tuple tracker / drain tickets - c13_tracker_verif_test.go

import (
	"os"
	"runtime"
	"strings"
	"testing"

	vk "github.com/daeuniverse/dae/verifkit"
)

func TestVerifC13(t *testing.T) {
	m := vk.NewMonitor("C13", "", "exploration",
		"(a) controlled schedules of the convoy idle-GC path (utp1..utp3) against 1-2 producers (start, utp4, utp6, utp5) on the same flow plus channel-reuse probes on other flows, and seeded stress rounds; "+
			"(b) seeded concurrent histories of GetOrCreate/Get/WriteTo/read-error/per-family invalidate/Remove/Reset/janitor on few endpoint keys over fake dialers with scripted dial outcomes and routing selections, "+
			"sequential retry histories (first dial fails with an unusable-family error, re-selection switches family/dialer, then per-(dialer, family) health changes) and late clean-ups by a stale holder after the key was re-created; "+
			"(c) seeded sequential and concurrent retain/release/adopt histories on real controlPlaneCore owners and drain trackers. "+
			"distinct = observed hook-point trace of a controlled schedule, stress configuration x recreation outcome, endpoint history shape (ops x faults x outcome classes), tracker history shape; "+
			"non-trivial = the schedule/history contains at least one racing step pair (all do by construction)")
	m.SetFloor(300)
	m.Assume(
		"goroutine identity and the convoy's queue are read from runtime.Stack text (standard library)",
		"the verif yield hooks sit between atomic steps and only delay a goroutine where the Go scheduler could deschedule it anyway",
		"fake netproxy dialers/packet conns stand in for the network; componentdialer.NewDialer, NewUdpEndpointPool, NewUdpTaskPool, controlPlaneCore owner methods and newControlPlaneDrainTracker are the production code paths",
	)
	only := os.Getenv("VERIF_C13_ONLY") // debugging aid: run a subset of the sub-monitors
	if only != "" {
		m.SetFloor(5)
	}
	want := func(p string) bool { return only == "" || strings.Contains(only, p) }
	if want("a") {
		if os.Getenv("VERIF_C13_SKIPCTL") == "" {
			c13TaskPoolControlled(m)
			c13TaskPoolOverflowOrder(m)
		}
		c13TaskPoolStress(m)
		c13TaskPoolFreshKeyHerd(m)
		m.Require("a_ctl_schedules", "a_ctl_claim_cas_won", "a_ctl_claim_cas_lost", "a_ctl_recycled_channel_reused", "a_ctl_queue_recreated",
			"a_hook_utp1", "a_hook_utp2", "a_hook_utp3", "a_hook_utp4", "a_hook_utp5", "a_hook_utp6", "a_hook_utp7", "a_ovf_spilled_while_convoy_between_channel_and_overflow",
			"a_stress_tasks", "a_stress_queue_recreations", "a_stress_overflow_mode_observed", "a_herd_quiescent_checks")
	}
	if want("b") {
		c13EndpointHerd(m)
		c13EndpointDeadWindow(m)
		c13EndpointStaleCreate(m)
		c13EndpointMixed(m)
		c13EndpointJanitor(m)
		c13EndpointNegativeCacheExpiry(m)
		c13EndpointRetryFamily(m)
		c13EndpointLateCleanup(m)
		c13HandlePktFlows(m)
		m.Require("b_herd_rounds", "b_mixed_rounds", "b_deadwindow_rounds", "b_deadwindow_dead_endpoint_still_in_table", "b_hook_uep1", "b_hook_uep2", "b_stalecreate_replaced", "b_stalecreate_survived_with_traffic", "b_stalecreate_rounds_over_ipv6", "b_stalecreate_get_refused_stale_endpoint",
			"b_calls_created", "b_calls_reused", "b_calls_dial_error", "b_calls_negative_cache", "b_mixed_invalidations",
			"b_negexp_marker_expired_in_place", "b_janitor_identity_judged", "b_janitor_idle_endpoints_closed_by_janitor", "b_non_packet_conns",
			"b_retry_rounds", "b_retry_family_switched_endpoints", "b_retry_dialer_switched_endpoints", "b_retry_own_type_invalidated_before_traffic_after_switch",
			"b_retry_calls_after_own_invalidation", "b_retry_replaced_after_own_invalidation", "b_retry_other_type_invalidations",
			"b_latecleanup_rounds", "b_latecleanup_stale_remove_after_replacement", "b_latecleanup_replacement_kept", "b_latecleanup_regular_remove_then_redial",
			"b_hp_rounds", "b_hp_rounds_route_scope_sensitive", "b_hp_sources_with_nonzero_scope_mark", "b_hp_rounds_mixed_payload_shapes", "b_hp_later_packet_same_endpoint", "b_hp_packets_written")
	}
	if want("c") {
		c13GenerationsSequential(m)
		c13GenerationsConcurrent(m)
		c13TrackerConcurrent(m)
		m.Require("c_conc_rounds", "c_conc_adopted_alive", "c_conc_closed_during_handover", "c_conc_tracked_during_handover", "c_seq_rounds", "c_seq_adoptions", "c_seq_tracks", "c_seq_closed", "c_seq_closes_with_failing_kernel_delete", "c_trk_holds", "c_trk_transfers", "c_trk_last_owner_releases")
	}
	m.Set("goroutines_at_end", runtime.NumGoroutine())
	if os.Getenv("VERIF_C13_DUMP") != "" {
		cnt := map[string]int{}
		for _, g := range strings.Split(c13AllStacks(), "\n\n") {
			l := strings.Split(g, "\n")
			key := ""
			for i := 1; i < len(l) && i < 10; i += 2 {
				f := l[i]
				if j := strings.LastIndex(f, "("); j > 0 {
					f = f[:j]
				}
				key += f + " < "
			}
			cnt[key]++
		}
		for k, v := range cnt {
			if v > 1 {
				println(v, k)
			}
		}
	}
	m.Done(t)
}
