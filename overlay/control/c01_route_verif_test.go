package control

// C01 monitor: ControlPlane.Route on a matcher compiled from generated routing
// TEXT must equal the reference first-match interpreter (verifkit.RefRoute) on
// the AST the text was written from.

import (
	"fmt"
	"testing"

	vk "github.com/daeuniverse/dae/verifkit"
)

func TestVerifC01(t *testing.T) {
	m := vk.NewMonitor("C01", "", "exploration",
		"grammar-generated routing sections (text) x boundary-value packets derived from the program constants; "+
			"distinct = (rule shape signature of the deciding rule or 'fallback') x pipeline x oracle branch; "+
			"non-trivial = a packet whose decision the reference takes at a non-first rule, via must_rules, via negation or at fallback of a >=2-rule program")
	m.SetFloor(100)
	m.Assume("reference interpreter verifkit.RefRoute is the documented first-match semantics",
		"ControlPlane.Route is driven on a ControlPlane value holding only the compiled routingMatcher (no datapath)")
	r := vk.NewRand(0xC01)
	gen := &vk.RGen{R: r, Groups: verifGroups, NeighbourBias: 0.25, V6Slash0: true, WideOr: true}
	nprog := vk.Scale(1500, 40000)
	npkt := vk.Scale(150, 150)
	for i := 0; i < nprog && m.Violations() < 5; i++ {
		p := gen.Gen()
		pkts := vk.ProbePackets(p, r, npkt)
		m.Count("programs", 1)
		for _, pl := range verifPipelines() {
			on := func(k vk.RPkt, ref vk.RDecision) {
				m.Eval(1)
				if len(p.Rules) >= 2 {
					switch {
					case ref.Rule == -1:
						m.Distinct(pl.name + "|fallback|" + fmt.Sprint(ref.Must))
						m.Count("decided_by_fallback", 1)
					case ref.Rule > 0:
						m.Distinct(pl.name + "|" + p.Rules[ref.Rule].ShapeSig() + "|" + fmt.Sprint(ref.Must))
						m.Count("decided_by_nonfirst_rule", 1)
					default:
						m.Count("decided_by_first_rule", 1)
					}
				}
				if ref.Must {
					m.Count("must_decisions", 1)
				}
			}
			bad, got, err := verifCheckProgram(p, pl, pkts, on)
			if err != nil {
				m.Violation("build-error/"+pl.name, "well-formed generated routing text rejected or crashed: "+err.Error(),
					map[string]any{"pipeline": pl.name, "text": p.Text(), "error": err.Error()})
				continue
			}
			if bad == nil {
				continue
			}
			pkt := *bad
			min := verifMinimize(p, func(q *vk.RProg) bool {
				b2, _, e2 := verifCheckProgram(q, pl, []vk.RPkt{pkt}, nil)
				return e2 == nil && b2 != nil
			})
			ref := vk.RefRoute(min, pkt)
			_, got2, _ := verifCheckProgram(min, pl, []vk.RPkt{pkt}, nil)
			_ = got
			m.Violation("mismatch/"+pl.name+"/"+verifProgShape(min),
				fmt.Sprintf("Route != first-match reference: ref=%+v got=%+v", ref, got2),
				map[string]any{"pipeline": pl.name, "minimized_text": min.Text(), "packet": pkt.String(),
					"reference": ref, "got": got2, "original_text": p.Text()})
		}
		if m.WantSample() {
			m.Sample(map[string]any{"text": p.Text(), "packet": pkts[0].String(), "ref": vk.RefRoute(p, pkts[0])})
		}
	}
	m.Require("decided_by_fallback", "decided_by_nonfirst_rule", "must_decisions")
	m.Done(t)
}
