package control

// C01 monitor: ControlPlane.Route on a matcher compiled from generated routing
// TEXT must equal the reference first-match interpreter (verifkit.RefRoute) on
// the AST the text was written from.

import (
	"fmt"
	"strings"
	"testing"

	"github.com/daeuniverse/dae/component/routing"
	vk "github.com/daeuniverse/dae/verifkit"
)

// verifMinimize greedily removes rules, conditions and values while bad(p) holds.
func verifMinimize(p *vk.RProg, bad func(*vk.RProg) bool) *vk.RProg {
	clone := func(p *vk.RProg) *vk.RProg {
		q := &vk.RProg{Fallback: p.Fallback}
		for _, r := range p.Rules {
			nr := vk.RRule{Out: r.Out}
			for _, c := range r.Conds {
				nc := vk.RCond{Func: c.Func, Not: c.Not, Params: append([]vk.RParam(nil), c.Params...)}
				nr.Conds = append(nr.Conds, nc)
			}
			q.Rules = append(q.Rules, nr)
		}
		return q
	}
	cur := clone(p)
	for changed := true; changed; {
		changed = false
		for i := 0; i < len(cur.Rules); i++ {
			q := clone(cur)
			q.Rules = append(q.Rules[:i], q.Rules[i+1:]...)
			if bad(q) {
				cur, changed = q, true
				i--
			}
		}
		for i := range cur.Rules {
			for j := 0; j < len(cur.Rules[i].Conds); j++ {
				if len(cur.Rules[i].Conds) == 1 {
					break
				}
				q := clone(cur)
				q.Rules[i].Conds = append(q.Rules[i].Conds[:j], q.Rules[i].Conds[j+1:]...)
				if bad(q) {
					cur, changed = q, true
					j--
				}
			}
			for j := range cur.Rules[i].Conds {
				for k := 0; k < len(cur.Rules[i].Conds[j].Params); k++ {
					if len(cur.Rules[i].Conds[j].Params) == 1 {
						break
					}
					q := clone(cur)
					ps := q.Rules[i].Conds[j].Params
					q.Rules[i].Conds[j].Params = append(ps[:k], ps[k+1:]...)
					if bad(q) {
						cur, changed = q, true
						k--
					}
				}
			}
		}
	}
	return cur
}

func verifProgShape(p *vk.RProg) string {
	var l []string
	for _, r := range p.Rules {
		l = append(l, r.ShapeSig())
	}
	return strings.Join(l, ";")
}

type verifPipeline struct {
	name string
	opts func() []routing.RulesOptimizer
}

func verifPipelines() []verifPipeline {
	return []verifPipeline{
		{"alias-only", func() []routing.RulesOptimizer { return []routing.RulesOptimizer{&routing.AliasOptimizer{}} }},
		{"production", verifProductionOptimizers},
	}
}

// verifCheckProgram compiles text through one pipeline and compares all packets.
// Returns the first mismatching packet (or build error).
func verifCheckProgram(p *vk.RProg, pl verifPipeline, pkts []vk.RPkt, onEval func(k vk.RPkt, ref vk.RDecision)) (bad *vk.RPkt, got vk.RDecision, err error) {
	rules, fb, err := verifParseRouting(p.Text())
	if err != nil {
		return nil, got, err
	}
	b, err := verifBuildMatcher(rules, fb, pl.opts()...)
	if err != nil {
		return nil, got, err
	}
	for i := range pkts {
		ref := vk.RefRoute(p, pkts[i])
		d, rerr := verifRoute(b, pkts[i])
		if onEval != nil {
			onEval(pkts[i], ref)
		}
		if rerr != nil {
			return &pkts[i], vk.RDecision{Outbound: "ERROR: " + rerr.Error()}, nil
		}
		if !verifSameDecision(ref, d) {
			return &pkts[i], d, nil
		}
	}
	return nil, got, nil
}

func TestVerifC01(t *testing.T) {
	m := vk.NewMonitor("C01", "", "exploration",
		"grammar-generated routing sections (text) x boundary-value packets derived from the program constants; "+
			"distinct = (rule shape signature of the deciding rule or 'fallback') x pipeline x oracle branch; "+
			"non-trivial = a packet whose decision the reference takes at a non-first rule, via must_rules, via negation or at fallback of a >=2-rule program")
	m.SetFloor(100)
	m.Assume("reference interpreter verifkit.RefRoute is the documented first-match semantics",
		"ControlPlane.Route is driven on a ControlPlane value holding only the compiled routingMatcher (no datapath)")
	r := vk.NewRand(0xC01)
	gen := &vk.RGen{R: r, Groups: verifGroups, NeighbourBias: 0.25, V6Slash0: true, WideOr: true}
	nprog := vk.Scale(1500, 40000)
	npkt := vk.Scale(150, 150)
	for i := 0; i < nprog && m.Violations() < 5; i++ {
		p := gen.Gen()
		pkts := vk.ProbePackets(p, r, npkt)
		m.Count("programs", 1)
		for _, pl := range verifPipelines() {
			on := func(k vk.RPkt, ref vk.RDecision) {
				m.Eval(1)
				if len(p.Rules) >= 2 {
					switch {
					case ref.Rule == -1:
						m.Distinct(pl.name + "|fallback|" + fmt.Sprint(ref.Must))
						m.Count("decided_by_fallback", 1)
					case ref.Rule > 0:
						m.Distinct(pl.name + "|" + p.Rules[ref.Rule].ShapeSig() + "|" + fmt.Sprint(ref.Must))
						m.Count("decided_by_nonfirst_rule", 1)
					default:
						m.Count("decided_by_first_rule", 1)
					}
				}
				if ref.Must {
					m.Count("must_decisions", 1)
				}
			}
			bad, got, err := verifCheckProgram(p, pl, pkts, on)
			if err != nil {
				m.Violation("build-error/"+pl.name, "well-formed generated routing text rejected or crashed: "+err.Error(),
					map[string]any{"pipeline": pl.name, "text": p.Text(), "error": err.Error()})
				continue
			}
			if bad == nil {
				continue
			}
			pkt := *bad
			min := verifMinimize(p, func(q *vk.RProg) bool {
				b2, _, e2 := verifCheckProgram(q, pl, []vk.RPkt{pkt}, nil)
				return e2 == nil && b2 != nil
			})
			ref := vk.RefRoute(min, pkt)
			_, got2, _ := verifCheckProgram(min, pl, []vk.RPkt{pkt}, nil)
			_ = got
			m.Violation("mismatch/"+pl.name+"/"+verifProgShape(min),
				fmt.Sprintf("Route != first-match reference: ref=%+v got=%+v", ref, got2),
				map[string]any{"pipeline": pl.name, "minimized_text": min.Text(), "packet": pkt.String(),
					"reference": ref, "got": got2, "original_text": p.Text()})
		}
		if m.WantSample() {
			m.Sample(map[string]any{"text": p.Text(), "packet": pkts[0].String(), "ref": vk.RefRoute(p, pkts[0])})
		}
	}
	m.Require("decided_by_fallback", "decided_by_nonfirst_rule", "must_decisions")
	m.Done(t)
}
