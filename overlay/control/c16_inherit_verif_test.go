package control

// C16 monitor (part "inherit"): the reload hand-over of node health as the control plane really
// performs it. ControlPlane.InheritDialerHealthFrom is called on hand-built old/new generations
// (outbounds only: the function reads nothing else) whose groups SHARE node objects, the way
// newControlPlane builds them from one dialer set. Oracle, from the statement: the new generation
// gets the last known state (a node alive before stays alive; a node dead before is alive
// afterwards only as the selection floor of a group that would otherwise be empty for that type),
// and every non-empty group is left at least one selectable node for every network type.

import (
	"context"
	"errors"
	"fmt"
	"io"
	"testing"
	"time"

	"github.com/daeuniverse/dae/common/consts"
	"github.com/daeuniverse/dae/component/outbound"
	"github.com/daeuniverse/dae/component/outbound/dialer"
	vk "github.com/daeuniverse/dae/verifkit"
	D "github.com/daeuniverse/outbound/dialer"
	"github.com/daeuniverse/outbound/netproxy"
	"github.com/sirupsen/logrus"
)

type c16InhNoop struct{}

func (c16InhNoop) DialContext(context.Context, string, string) (netproxy.Conn, error) {
	return nil, errors.New("c16: not dialled")
}

func c16InhTypes() []*dialer.NetworkType {
	var out []*dialer.NetworkType
	for _, ipv := range []consts.IpVersionStr{consts.IpVersionStr_4, consts.IpVersionStr_6} {
		out = append(out,
			&dialer.NetworkType{L4Proto: consts.L4ProtoStr_TCP, IpVersion: ipv},
			&dialer.NetworkType{L4Proto: consts.L4ProtoStr_UDP, IpVersion: ipv, IsDns: true, UdpHealthDomain: dialer.UdpHealthDomainDns},
			&dialer.NetworkType{L4Proto: consts.L4ProtoStr_UDP, IpVersion: ipv, UdpHealthDomain: dialer.UdpHealthDomainData})
	}
	return out
}

type c16InhGen struct {
	nodes  []*dialer.Dialer
	groups []*outbound.DialerGroup
}

func (g *c16InhGen) close() {
	for _, x := range g.groups {
		_ = x.Close()
	}
	for _, d := range g.nodes {
		_ = d.Close()
	}
}

func TestVerifC16Inherit(t *testing.T) {
	m := vk.NewMonitor("C16", "inherit", "exploration",
		"generated (node set, groups sharing nodes, policies, group order, per-node per-type last known state) -> two generations of real Dialers/DialerGroups -> ControlPlane.InheritDialerHealthFrom -> alive state and Select() of every group; distinct = (groups, shared nodes, policy mix, which groups were empty for a type before the floor)")
	m.SetFloor(40)
	m.Assume("the ControlPlane values carry outbounds only (InheritDialerHealthFrom reads nothing else); node states are produced with the exported report entry points; 'selectable' = DialerGroup.Select(type, strictIpVersion=false) returns a node")
	log := logrus.New()
	log.SetOutput(io.Discard)
	log.SetLevel(logrus.PanicLevel)
	r := vk.NewRand(0xC16A)
	types := c16InhTypes()
	policies := []consts.DialerSelectionPolicy{consts.DialerSelectionPolicy_Random, consts.DialerSelectionPolicy_MinLastLatency, consts.DialerSelectionPolicy_MinAverage10Latencies, consts.DialerSelectionPolicy_MinMovingAverageLatencies, consts.DialerSelectionPolicy_Fixed}
	build := func(nn int, members [][]int, pol []consts.DialerSelectionPolicy, order []int) *c16InhGen {
		option := &dialer.GlobalOption{Log: log, CheckInterval: 24 * time.Hour, CheckTolerance: 0}
		g := &c16InhGen{}
		for i := 0; i < nn; i++ {
			g.nodes = append(g.nodes, dialer.NewDialer(c16InhNoop{}, option, dialer.InstanceOption{DisableCheck: true},
				&dialer.Property{Property: D.Property{Name: fmt.Sprintf("n%d", i), Address: fmt.Sprintf("192.0.2.%d:443", 10+i), Protocol: "verif"}}))
		}
		for _, gi := range order {
			var ds []*dialer.Dialer
			var annos []*dialer.Annotation
			for _, mbr := range members[gi] {
				ds = append(ds, g.nodes[mbr])
				annos = append(annos, &dialer.Annotation{})
			}
			g.groups = append(g.groups, outbound.NewDialerGroup(option, fmt.Sprintf("g%d", gi), ds, annos,
				outbound.DialerSelectionPolicy{Policy: pol[gi], FixedIndex: 0}, func(bool, *dialer.NetworkType, bool) {}))
		}
		return g
	}
	rounds := vk.Scale(6000, 120000)
	for round := 0; round < rounds && m.Violations() < 5; round++ {
		nn := 1 + r.IntN(5)
		ng := 1 + r.IntN(4)
		members := make([][]int, ng)
		pol := make([]consts.DialerSelectionPolicy, ng)
		sharedNodes := 0
		use := make([]int, nn)
		for gi := range members {
			for n := 0; n < nn; n++ {
				if r.IntN(2) == 0 {
					members[gi] = append(members[gi], n)
				}
			}
			if len(members[gi]) == 0 && r.IntN(4) != 0 {
				members[gi] = []int{r.IntN(nn)}
			}
			for _, n := range members[gi] {
				use[n]++
			}
			pol[gi] = policies[r.IntN(len(policies))]
		}
		for _, u := range use {
			if u > 1 {
				sharedNodes++
			}
		}
		oldOrder, newOrder := r.Perm(ng), r.Perm(ng)
		// the two configurations need not define the same groups: one in three rounds drops a group
		// from the old generation (it is new in the new one) and/or from the new generation
		if ng > 1 && round%3 == 0 {
			if r.IntN(3) != 0 {
				oldOrder = oldOrder[:len(oldOrder)-1]
				m.Count("inherit_rounds_with_a_group_only_in_the_new_generation", 1)
			}
			if r.IntN(3) == 0 {
				newOrder = newOrder[:len(newOrder)-1]
				m.Count("inherit_rounds_with_a_group_only_in_the_old_generation", 1)
			}
		}
		old := build(nn, members, pol, oldOrder)
		// last known state of the old generation
		dead := make([][6]bool, nn)
		for n := 0; n < nn; n++ {
			mode := r.IntN(4) // 0: all alive, 1: all dead, 2/3: mixed
			for ti, nt := range types {
				kill := mode == 1 || (mode >= 2 && r.IntN(2) == 0)
				if kill {
					old.nodes[n].ReportUnavailableForced(nt, errors.New("connection refused"))
					dead[n][ti] = !old.nodes[n].MustGetAlive(nt)
				}
			}
		}
		// the escalation (three death transitions of one address) may have taken more types down: read back
		for n := 0; n < nn; n++ {
			for ti, nt := range types {
				dead[n][ti] = !old.nodes[n].MustGetAlive(nt)
			}
		}
		nw := build(nn, members, pol, newOrder)
		// dae hands a node's state over through a group defined in BOTH generations; a node that is
		// only in groups without a counterpart starts fresh (alive) - what the statement says about
		// it is open, so it is counted, not judged
		inOld, inNew := make([]bool, ng), make([]bool, ng)
		for _, gi := range oldOrder {
			inOld[gi] = true
		}
		for _, gi := range newOrder {
			inNew[gi] = true
		}
		inherited := make([]bool, nn)
		for gi := range members {
			if inOld[gi] && inNew[gi] {
				for _, n := range members[gi] {
					inherited[n] = true
				}
			}
		}
		oldDead := dead
		dead = make([][6]bool, nn)
		for n := range dead {
			if inherited[n] {
				dead[n] = oldDead[n]
			}
		}
		oldCP, newCP := &ControlPlane{}, &ControlPlane{}
		oldCP.outbounds, newCP.outbounds = old.groups, nw.groups
		m.Eval(1)
		var panicked any
		func() {
			defer func() { panicked = recover() }()
			newCP.InheritDialerHealthFrom(oldCP)
		}()
		witness := map[string]any{"nodes": nn, "groups": members, "policies": fmt.Sprint(pol), "old_group_order": oldOrder, "new_group_order": newOrder, "dead_before(node,type)": fmt.Sprint(oldDead), "handed_over_dead(node,type)": fmt.Sprint(dead), "node_is_in_a_group_of_both_generations": fmt.Sprint(inherited)}
		if panicked != nil {
			m.Violation("inherit-panic", fmt.Sprintf("InheritDialerHealthFrom panicked: %v", panicked), witness)
			old.close()
			nw.close()
			continue
		}
		emptyBefore := ""
		bad := false
		for pos, gi := range newOrder {
			grp := nw.groups[pos]
			if len(members[gi]) == 0 {
				m.Count("inherit_empty_groups", 1)
				continue
			}
			for ti, nt := range types {
				aliveBefore := 0
				for _, n := range members[gi] {
					if !dead[n][ti] {
						aliveBefore++
					}
				}
				if aliveBefore == 0 {
					emptyBefore += fmt.Sprintf("g%d/%d,", pos, ti)
					m.Count("inherit_group_type_needed_floor", 1)
				}
				d, _, err := grp.Select(nt, false)
				m.Count("inherit_group_type_selectable_checked", 1)
				if (err != nil || d == nil) && !bad {
					bad = true
					w := map[string]any{"group": fmt.Sprintf("g%d", gi), "type": nt.String(), "select_error": fmt.Sprint(err), "members_alive_before_for_type": aliveBefore}
					for k, v := range witness {
						w[k] = v
					}
					m.Violation("reload-leaves-group-without-selectable-node/"+string(pol[gi]),
						fmt.Sprintf("after InheritDialerHealthFrom group g%d (%d member(s), policy %s) cannot select any node for %s", gi, len(members[gi]), pol[gi], nt.String()), w)
				}
			}
		}
		for n := 0; n < nn && !bad; n++ {
			if use[n] == 0 {
				continue
			}
			if !inherited[n] {
				m.Count("inherit_nodes_without_a_group_in_both_generations_not_judged", 1)
				continue
			}
			for ti, nt := range types {
				now := nw.nodes[n].MustGetAlive(nt)
				m.Count("inherit_node_type_state_checked", 1)
				switch {
				case !dead[n][ti] && !now:
					bad = true
					m.Violation("reload-lost-alive-state", fmt.Sprintf("node n%d was alive for %s in the old generation and is not alive in the new one", n, nt.String()), witness)
				case dead[n][ti] && now:
					// legitimate only as the floor of a group that had no alive member for the type
					floor := false
					for gi := range members {
						if !inNew[gi] {
							continue
						}
						has, aliveOthers := false, 0
						for _, mbr := range members[gi] {
							if mbr == n {
								has = true
							}
							if !dead[mbr][ti] {
								aliveOthers++
							}
						}
						if has && aliveOthers == 0 {
							floor = true
						}
					}
					if !floor {
						bad = true
						m.Violation("reload-revived-node-without-need", fmt.Sprintf("node n%d was not alive for %s in the old generation, is alive in the new one, and no group containing it was empty for that type", n, nt.String()), witness)
					} else {
						m.Count("inherit_floor_revivals", 1)
					}
				}
				if bad {
					break
				}
			}
		}
		m.Distinct(fmt.Sprintf("g%d|shared%d|%v|%s", ng, sharedNodes, pol, vk.Hash(emptyBefore)))
		if sharedNodes > 0 {
			m.Count("inherit_rounds_with_shared_nodes", 1)
		}
		if m.WantSample() {
			m.Sample(witness)
		}
		old.close()
		nw.close()
	}
	m.Require("inherit_group_type_needed_floor", "inherit_floor_revivals", "inherit_rounds_with_shared_nodes", "inherit_rounds_with_a_group_only_in_the_new_generation", "inherit_rounds_with_a_group_only_in_the_old_generation")
	m.Done(t)
}
