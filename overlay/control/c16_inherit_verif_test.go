package control

// C16 monitor (part "inherit"): the reload hand-over of node health as the control plane really
// performs it. ControlPlane.InheritDialerHealthFrom is called on hand-built old/new generations
// (outbounds only: the function reads nothing else) whose groups SHARE node objects, the way
// newControlPlane builds them from one dialer set. Oracle, from the statement: the new generation
// gets the last known state (a node alive before stays alive; a node dead before is alive
// afterwards only as the selection floor of a group that would otherwise be empty for that type),
// and every non-empty group is left at least one selectable node for every network type.
//
// Node identity: dae hands health over per (group name, node name). A node matched by several
// groups is normally ONE dialer object in all of them, but a group with a per-group check-option
// override holds its own CLONES (other objects, same names), which are probed separately and have
// a health of their own. One round in three gives some groups clones (independently per
// generation: the override may appear or disappear with the reload), so that "node name" and
// "dialer object" are no longer the same thing. The expected state of a new-generation OBJECT is
// the last known state of the old-generation object(s) that the (group, name) pairs it belongs
// to lead to; when those disagree (one new object, two old objects with different states) the
// statement does not say which wins: counted, not judged.

import (
	"context"
	"errors"
	"fmt"
	"io"
	"testing"
	"time"

	"github.com/daeuniverse/dae/common/consts"
	"github.com/daeuniverse/dae/component/outbound"
	"github.com/daeuniverse/dae/component/outbound/dialer"
	vk "github.com/daeuniverse/dae/verifkit"
	D "github.com/daeuniverse/outbound/dialer"
	"github.com/daeuniverse/outbound/netproxy"
	"github.com/sirupsen/logrus"
)

type c16InhNoop struct{}

func (c16InhNoop) DialContext(context.Context, string, string) (netproxy.Conn, error) {
	return nil, errors.New("c16: not dialled")
}

func c16InhTypes() []*dialer.NetworkType {
	var out []*dialer.NetworkType
	for _, ipv := range []consts.IpVersionStr{consts.IpVersionStr_4, consts.IpVersionStr_6} {
		out = append(out,
			&dialer.NetworkType{L4Proto: consts.L4ProtoStr_TCP, IpVersion: ipv},
			&dialer.NetworkType{L4Proto: consts.L4ProtoStr_UDP, IpVersion: ipv, IsDns: true, UdpHealthDomain: dialer.UdpHealthDomainDns},
			&dialer.NetworkType{L4Proto: consts.L4ProtoStr_UDP, IpVersion: ipv, UdpHealthDomain: dialer.UdpHealthDomainData})
	}
	return out
}

type c16InhGen struct {
	nodes  []*dialer.Dialer // pool objects, index = node
	objs   []*dialer.Dialer // every object (pool objects first, then clones)
	obj    map[[2]int]int   // (group, node) -> index into objs
	groups []*outbound.DialerGroup
}

func (g *c16InhGen) close() {
	for _, x := range g.groups {
		_ = x.Close()
	}
	for _, d := range g.objs {
		_ = d.Close()
	}
}

func TestVerifC16Inherit(t *testing.T) {
	m := vk.NewMonitor("C16", "inherit", "exploration",
		"generated (node set, groups sharing nodes, groups holding their own clones of nodes, policies, group order, per-OBJECT per-type last known state) -> two generations of real Dialers/DialerGroups -> ControlPlane.InheritDialerHealthFrom -> alive state of every object and Select() of every group; distinct = (groups, shared nodes, cloning groups, policy mix, which groups were empty for a type before the floor)")
	m.SetFloor(40)
	m.Assume("the ControlPlane values carry outbounds only (InheritDialerHealthFrom reads nothing else); node states are produced with the exported report entry points; 'selectable' = DialerGroup.Select(type, strictIpVersion=false) returns a node",
		"a clone is a second Dialer built from the same Property (name, address), as CloneWithGlobalOptionContext produces for a group that overrides check options")
	log := logrus.New()
	log.SetOutput(io.Discard)
	log.SetLevel(logrus.PanicLevel)
	r := vk.NewRand(0xC16A)
	rC := vk.NewRand(0xC16C) // clone decisions: own stream, the other draws keep their cases
	types := c16InhTypes()
	policies := []consts.DialerSelectionPolicy{consts.DialerSelectionPolicy_Random, consts.DialerSelectionPolicy_MinLastLatency, consts.DialerSelectionPolicy_MinAverage10Latencies, consts.DialerSelectionPolicy_MinMovingAverageLatencies, consts.DialerSelectionPolicy_Fixed}
	build := func(nn int, members [][]int, pol []consts.DialerSelectionPolicy, order []int, clones []bool) *c16InhGen {
		option := &dialer.GlobalOption{Log: log, CheckInterval: 24 * time.Hour, CheckTolerance: 0}
		g := &c16InhGen{obj: map[[2]int]int{}}
		mk := func(i int) *dialer.Dialer {
			return dialer.NewDialer(c16InhNoop{}, option, dialer.InstanceOption{DisableCheck: true},
				&dialer.Property{Property: D.Property{Name: fmt.Sprintf("n%d", i), Address: fmt.Sprintf("192.0.2.%d:443", 10+i), Protocol: "verif"}})
		}
		for i := 0; i < nn; i++ {
			g.nodes = append(g.nodes, mk(i))
		}
		g.objs = append(g.objs, g.nodes...)
		for _, gi := range order {
			var ds []*dialer.Dialer
			var annos []*dialer.Annotation
			for _, mbr := range members[gi] {
				if clones[gi] {
					g.objs = append(g.objs, mk(mbr))
					g.obj[[2]int{gi, mbr}] = len(g.objs) - 1
				} else {
					g.obj[[2]int{gi, mbr}] = mbr
				}
				ds = append(ds, g.objs[g.obj[[2]int{gi, mbr}]])
				annos = append(annos, &dialer.Annotation{})
			}
			g.groups = append(g.groups, outbound.NewDialerGroup(option, fmt.Sprintf("g%d", gi), ds, annos,
				outbound.DialerSelectionPolicy{Policy: pol[gi], FixedIndex: 0}, func(bool, *dialer.NetworkType, bool) {}))
		}
		return g
	}
	rounds := vk.Scale(6000, 120000)
	for round := 0; round < rounds && m.Violations() < 5; round++ {
		nn := 1 + r.IntN(5)
		ng := 1 + r.IntN(4)
		members := make([][]int, ng)
		pol := make([]consts.DialerSelectionPolicy, ng)
		sharedNodes := 0
		use := make([]int, nn)
		for gi := range members {
			for n := 0; n < nn; n++ {
				if r.IntN(2) == 0 {
					members[gi] = append(members[gi], n)
				}
			}
			if len(members[gi]) == 0 && r.IntN(4) != 0 {
				members[gi] = []int{r.IntN(nn)}
			}
			for _, n := range members[gi] {
				use[n]++
			}
			pol[gi] = policies[r.IntN(len(policies))]
		}
		for _, u := range use {
			if u > 1 {
				sharedNodes++
			}
		}
		oldOrder, newOrder := r.Perm(ng), r.Perm(ng)
		// the two configurations need not define the same groups: one in three rounds drops a group
		// from the old generation (it is new in the new one) and/or from the new generation
		if ng > 1 && round%3 == 0 {
			if r.IntN(3) != 0 {
				oldOrder = oldOrder[:len(oldOrder)-1]
				m.Count("inherit_rounds_with_a_group_only_in_the_new_generation", 1)
			}
			if r.IntN(3) == 0 {
				newOrder = newOrder[:len(newOrder)-1]
				m.Count("inherit_rounds_with_a_group_only_in_the_old_generation", 1)
			}
		}
		// one round in three: some groups hold clones, independently per generation
		oldClones, newClones := make([]bool, ng), make([]bool, ng)
		cloning := 0
		if round%3 == 1 {
			for gi := 0; gi < ng; gi++ {
				switch rC.IntN(5) {
				case 0, 1:
					oldClones[gi], newClones[gi] = true, true
				case 2:
					oldClones[gi] = true
				case 3:
					newClones[gi] = true
				}
				if oldClones[gi] || newClones[gi] {
					cloning++
				}
			}
			if cloning > 0 {
				m.Count("inherit_rounds_with_cloning_groups", 1)
			}
		}
		old := build(nn, members, pol, oldOrder, oldClones)
		// last known state of the old generation, per OBJECT
		for _, d := range old.objs {
			mode := r.IntN(4) // 0: all alive, 1: all dead, 2/3: mixed
			for _, nt := range types {
				kill := mode == 1 || (mode >= 2 && r.IntN(2) == 0)
				if kill {
					d.ReportUnavailableForced(nt, errors.New("connection refused"))
				}
			}
		}
		// the escalation (three death transitions of one address) may have taken more types down: read back
		oldDead := make([][6]bool, len(old.objs))
		for o, d := range old.objs {
			for ti, nt := range types {
				oldDead[o][ti] = !d.MustGetAlive(nt)
			}
		}
		nw := build(nn, members, pol, newOrder, newClones)
		// dae hands a node's state over through a group defined in BOTH generations, by node name
		// within the group; an object that is only in groups without a counterpart starts fresh
		// (alive) - what the statement says about it is open, so it is counted, not judged
		inOld, inNew := make([]bool, ng), make([]bool, ng)
		for _, gi := range oldOrder {
			inOld[gi] = true
		}
		for _, gi := range newOrder {
			inNew[gi] = true
		}
		// per new object and type: the set of last known states its (group, name) pairs lead to
		const (
			stNone  = 0
			stAlive = 1
			stDead  = 2
			stMixed = 3
		)
		exp := make([][6]int, len(nw.objs))
		usedNew := make([]bool, len(nw.objs))
		for gi := range members {
			if !inNew[gi] {
				continue
			}
			for _, n := range members[gi] {
				no := nw.obj[[2]int{gi, n}]
				usedNew[no] = true
				if !inOld[gi] {
					continue
				}
				oo := old.obj[[2]int{gi, n}]
				for ti := range types {
					v := stAlive
					if oldDead[oo][ti] {
						v = stDead
					}
					switch {
					case exp[no][ti] == stNone:
						exp[no][ti] = v
					case exp[no][ti] != v:
						exp[no][ti] = stMixed
					}
				}
			}
		}
		// deadExp(o,t): the object is expected not alive (before floors); unknown -> ok=false
		deadExp := func(o, ti int) (dead bool, ok bool) {
			switch exp[o][ti] {
			case stNone:
				return false, true // fresh objects start alive
			case stAlive:
				return false, true
			case stDead:
				return true, true
			}
			return false, false
		}
		oldCP, newCP := &ControlPlane{}, &ControlPlane{}
		oldCP.outbounds, newCP.outbounds = old.groups, nw.groups
		m.Eval(1)
		var panicked any
		func() {
			defer func() { panicked = recover() }()
			newCP.InheritDialerHealthFrom(oldCP)
		}()
		witness := map[string]any{"nodes": nn, "groups": members, "policies": fmt.Sprint(pol), "old_group_order": oldOrder, "new_group_order": newOrder,
			"groups_holding_clones_old": fmt.Sprint(oldClones), "groups_holding_clones_new": fmt.Sprint(newClones),
			"old_objects(group,node)->object": fmt.Sprint(old.obj), "new_objects(group,node)->object": fmt.Sprint(nw.obj),
			"dead_before(old object,type)": fmt.Sprint(oldDead), "expected(new object,type) 0=fresh 1=alive 2=dead 3=sources disagree": fmt.Sprint(exp)}
		if panicked != nil {
			m.Violation("inherit-panic", fmt.Sprintf("InheritDialerHealthFrom panicked: %v", panicked), witness)
			old.close()
			nw.close()
			continue
		}
		emptyBefore := ""
		bad := false
		for pos, gi := range newOrder {
			grp := nw.groups[pos]
			if len(members[gi]) == 0 {
				m.Count("inherit_empty_groups", 1)
				continue
			}
			for ti, nt := range types {
				aliveBefore, unknown := 0, 0
				for _, n := range members[gi] {
					dd, ok := deadExp(nw.obj[[2]int{gi, n}], ti)
					if !ok {
						unknown++
					} else if !dd {
						aliveBefore++
					}
				}
				if aliveBefore == 0 && unknown == 0 {
					emptyBefore += fmt.Sprintf("g%d/%d,", pos, ti)
					m.Count("inherit_group_type_needed_floor", 1)
					if newClones[gi] {
						m.Count("inherit_cloning_group_type_needed_floor", 1)
					}
				}
				d, _, err := grp.Select(nt, false)
				m.Count("inherit_group_type_selectable_checked", 1)
				if (err != nil || d == nil) && !bad {
					bad = true
					w := map[string]any{"group": fmt.Sprintf("g%d", gi), "type": nt.String(), "select_error": fmt.Sprint(err), "members_alive_before_for_type": aliveBefore}
					for k, v := range witness {
						w[k] = v
					}
					m.Violation("reload-leaves-group-without-selectable-node/"+string(pol[gi]),
						fmt.Sprintf("after InheritDialerHealthFrom group g%d (%d member(s), policy %s) cannot select any node for %s", gi, len(members[gi]), pol[gi], nt.String()), w)
				}
			}
		}
		for no := 0; no < len(nw.objs) && !bad; no++ {
			if !usedNew[no] {
				continue
			}
			isClone := no >= nn
			name := nw.objs[no].Property().Name
			if exp[no][0] == stNone {
				m.Count("inherit_nodes_without_a_group_in_both_generations_not_judged", 1)
				continue
			}
			for ti, nt := range types {
				now := nw.objs[no].MustGetAlive(nt)
				dd, ok := deadExp(no, ti)
				if !ok {
					m.Count("inherit_object_type_with_disagreeing_sources_not_judged", 1)
					continue
				}
				m.Count("inherit_node_type_state_checked", 1)
				if isClone {
					m.Count("inherit_clone_type_state_checked", 1)
					if dd {
						m.Count("inherit_clone_type_expected_dead", 1)
					}
				}
				what := fmt.Sprintf("node %s (object %d%s)", name, no, map[bool]string{true: ", a group's own clone", false: ""}[isClone])
				switch {
				case !dd && !now:
					bad = true
					m.Violation("reload-lost-alive-state", fmt.Sprintf("%s was alive for %s in the old generation and is not alive in the new one", what, nt.String()), witness)
				case dd && now:
					// legitimate only as the floor of a group that had no alive member for the type
					floor := false
					for gi := range members {
						if !inNew[gi] {
							continue
						}
						has, aliveOthers := false, 0
						for _, mbr := range members[gi] {
							mo := nw.obj[[2]int{gi, mbr}]
							if mo == no {
								has = true
							}
							if md, mok := deadExp(mo, ti); !mok || !md {
								aliveOthers++
							}
						}
						// a member whose sources disagree may legitimately be dead: then this group needed a floor
						unknown := false
						for _, mbr := range members[gi] {
							if _, mok := deadExp(nw.obj[[2]int{gi, mbr}], ti); !mok {
								unknown = true
							}
						}
						if has && (aliveOthers == 0 || unknown) {
							floor = true
						}
					}
					if !floor {
						bad = true
						sig := "reload-revived-node-without-need"
						if isClone || cloning > 0 {
							sig += "/groups-with-clones"
						}
						m.Violation(sig, fmt.Sprintf("%s was not alive for %s in the old generation, is alive in the new one, and no group containing it was empty for that type", what, nt.String()), witness)
					} else {
						m.Count("inherit_floor_revivals", 1)
					}
				}
				if bad {
					break
				}
			}
		}
		m.Distinct(fmt.Sprintf("g%d|shared%d|clone%d|%v|%s", ng, sharedNodes, cloning, pol, vk.Hash(emptyBefore)))
		if sharedNodes > 0 {
			m.Count("inherit_rounds_with_shared_nodes", 1)
		}
		if m.WantSample() {
			m.Sample(witness)
		}
		old.close()
		nw.close()
	}
	m.Require("inherit_group_type_needed_floor", "inherit_floor_revivals", "inherit_rounds_with_shared_nodes", "inherit_rounds_with_a_group_only_in_the_new_generation", "inherit_rounds_with_a_group_only_in_the_old_generation",
		"inherit_rounds_with_cloning_groups", "inherit_clone_type_state_checked", "inherit_clone_type_expected_dead", "inherit_cloning_group_type_needed_floor")
	m.Done(t)
}
