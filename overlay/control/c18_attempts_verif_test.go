package control

// C18 sub-monitors at the entry point ControlPlane.routeDial, over SEQUENCES:
//
//   verifC18LiteralHistories  several connections that carry the same sniffed value, with
//       dae's own asynchronous real-domain probe given the chance to complete between the
//       first and the later ones. The sniffed values sweep the IP-literal FORMS
//       systematically (IPv4 dotted; IPv6 with every possible first hexadecimal character,
//       compressed / uncompressed / zero padded, '::' first, IPv4-mapped, with zone;
//       upper / lower case; bare, bracketed, with a port; raw and as handed over by the
//       production sniffer normaliser). EVERY connection of a history is judged with the
//       decision table of the statement: an IP literal is never "a name known to be
//       genuine", so dial_mode domain dials the original destination on the 1st, 2nd, 3rd...
//       connection alike.
//
//   verifC18DialAttempts  dial ATTEMPT sequences: the node dialers inside the production
//       DialerGroups are scripted, the first DialContext of a connection fails with one of
//       several realistic error classes (which makes routeDial try again for some of
//       them), and the address string of EVERY attempt is recorded. Every attempt (not only
//       the first) must carry the address the statement demands for the dial mode, the
//       outbound kind and the sniffed value, and must go to a group the flow may use.
//
// The oracle is verifC18Table / verifC18Judge (c18_dialtarget_verif_test.go), i.e. the
// statement; nothing here looks at how dae classifies a string.

import (
	"context"
	"errors"
	"fmt"
	"net"
	"net/netip"
	"os"
	"strconv"
	"strings"
	"sync"
	"sync/atomic"
	"syscall"
	"time"

	"github.com/bits-and-blooms/bloom/v3"
	"github.com/daeuniverse/dae/common/consts"
	ob "github.com/daeuniverse/dae/component/outbound"
	componentdialer "github.com/daeuniverse/dae/component/outbound/dialer"
	"github.com/daeuniverse/dae/component/sniffing"
	vk "github.com/daeuniverse/dae/verifkit"
	"github.com/daeuniverse/outbound/netproxy"
)

// ---- scripted node dialers ------------------------------------------------------------

type verifC18Attempt struct {
	Group   string `json:"group"`
	Node    int    `json:"node"`
	Network string `json:"network"`
	Addr    string `json:"addr"`
	Err     string `json:"err,omitempty"`
}

// verifC18Tape is shared by all node dialers of a rig: it numbers the DialContext calls
// of one connection, fails call i with script[i] (nil / beyond the script: success) and
// records each call.
type verifC18Tape struct {
	mu       sync.Mutex
	script   []error
	attempts []verifC18Attempt
	conns    []net.Conn
}

func (t *verifC18Tape) start(script []error) {
	t.mu.Lock()
	defer t.mu.Unlock()
	for _, c := range t.conns {
		_ = c.Close()
	}
	t.conns, t.attempts, t.script = nil, nil, script
}

func (t *verifC18Tape) take() []verifC18Attempt {
	t.mu.Lock()
	defer t.mu.Unlock()
	for _, c := range t.conns {
		_ = c.Close()
	}
	a := t.attempts
	t.conns, t.attempts, t.script = nil, nil, nil
	return a
}

type verifC18ScriptDialer struct {
	tape  *verifC18Tape
	group string
	node  int
}

func (d *verifC18ScriptDialer) DialContext(ctx context.Context, network, addr string) (netproxy.Conn, error) {
	t := d.tape
	t.mu.Lock()
	defer t.mu.Unlock()
	i := len(t.attempts)
	var err error
	if i < len(t.script) {
		err = t.script[i]
	}
	a := verifC18Attempt{Group: d.group, Node: d.node, Network: network, Addr: addr}
	if err != nil {
		a.Err = err.Error()
		t.attempts = append(t.attempts, a)
		return nil, err
	}
	t.attempts = append(t.attempts, a)
	c1, c2 := net.Pipe()
	t.conns = append(t.conns, c1, c2)
	return c1, nil
}

// ---- rig: a ControlPlane value with routing, production groups and scripted nodes ------

type verifC18Rig struct {
	cp      *ControlPlane
	cancel  context.CancelFunc
	prog    *vk.RProg
	name2id map[string]uint8
	tape    *verifC18Tape
	groups  []*ob.DialerGroup
	// twoNodes is the group that has two nodes and a non-fixed policy, so that a retry
	// after a forced "unavailable" report can land on another node
	twoNodes string
}

const verifC18HistSuffix = "hist.test"

// verifC18NewRig: with fresh=true the rig has a ControlPlane value of its own (empty
// real-domain caches); otherwise it drives env.cp, whose real-domain caches hold the
// verdicts of the probes run by verifC18Setup.
func verifC18NewRig(m *vk.Monitor, env *verifC18Env, mode consts.DialMode, fresh bool) *verifC18Rig {
	prog := &vk.RProg{
		Rules: []vk.RRule{
			{Conds: []vk.RCond{{Func: "domain", Params: []vk.RParam{{Key: "full", Val: verifC18Known}}}}, Out: vk.ROut{Name: verifGroups[1]}},
			{Conds: []vk.RCond{{Func: "domain", Params: []vk.RParam{{Key: "suffix", Val: verifC18Verified}}}}, Out: vk.ROut{Name: verifGroups[2]}},
			{Conds: []vk.RCond{{Func: "domain", Params: []vk.RParam{{Key: "keyword", Val: "unknown"}}}}, Out: vk.ROut{Name: "direct"}},
			{Conds: []vk.RCond{{Func: "domain", Params: []vk.RParam{{Key: "suffix", Val: "known-h.example"}}}}, Out: vk.ROut{Name: verifGroups[3]}},
			{Conds: []vk.RCond{{Func: "domain", Params: []vk.RParam{{Key: "suffix", Val: verifC18HistSuffix}}}}, Out: vk.ROut{Name: verifGroups[2]}},
		},
		Fallback: vk.ROut{Name: verifGroups[0]},
	}
	rules, fb, err := verifParseRouting(prog.Text())
	if err != nil {
		m.Inconclusive("attempt rig: routing text rejected: %v", err)
		return nil
	}
	built, err := verifBuildMatcher(rules, fb, verifProductionOptimizers()...)
	if err != nil {
		m.Inconclusive("attempt rig: routing matcher: %v", err)
		return nil
	}
	cp, cancel := env.cp, context.CancelFunc(func() {})
	if fresh {
		var ctx context.Context
		ctx, cancel = context.WithCancel(context.Background())
		cp = &ControlPlane{
			realDomainSet: bloom.NewWithEstimates(2048, 0.001), // as newControlPlane
			log:           verifQuietLog(),
			ctx:           ctx,
			cancel:        cancel,
		}
		cp.dnsController = env.ctrl
		cp.bootstrapResolvers = []netip.AddrPort{netip.MustParseAddrPort("192.0.2.1:53")}
	}
	cp.dialMode = mode
	cp.routingMatcher = built.matcher
	name2id, _ := verifOutboundTable()
	g := &verifC18Rig{cp: cp, cancel: cancel, prog: prog, name2id: name2id, tape: &verifC18Tape{}, twoNodes: verifGroups[1]}
	g.rebuildGroups()
	return g
}

func (g *verifC18Rig) closeGroups() {
	for _, grp := range g.groups {
		if grp == nil {
			continue
		}
		for _, d := range grp.Dialers {
			_ = d.Close()
		}
		_ = grp.Close()
	}
	g.groups = nil
}

func (g *verifC18Rig) close() {
	g.tape.take()
	g.closeGroups()
	g.cancel()
}

// rebuildGroups gives the rig fresh production DialerGroups (every node alive), so that a
// forced "unavailable" report of one connection does not shape the next one.
func (g *verifC18Rig) rebuildGroups() {
	g.closeGroups()
	n := 0
	for _, id := range g.name2id {
		if int(id)+1 > n {
			n = int(id) + 1
		}
	}
	log := verifQuietLog()
	groups := make([]*ob.DialerGroup, n)
	for name, id := range g.name2id {
		gopt := &componentdialer.GlobalOption{Log: log, CheckInterval: time.Hour}
		nodes := 1
		policy := ob.DialerSelectionPolicy{Policy: consts.DialerSelectionPolicy_Fixed, FixedIndex: 0}
		if name == g.twoNodes {
			nodes = 2
			policy = ob.DialerSelectionPolicy{Policy: consts.DialerSelectionPolicy_Random}
		}
		var ds []*componentdialer.Dialer
		var an []*componentdialer.Annotation
		for i := 0; i < nodes; i++ {
			ds = append(ds, componentdialer.NewDialer(&verifC18ScriptDialer{tape: g.tape, group: name, node: i}, gopt,
				componentdialer.InstanceOption{DisableCheck: true}, &componentdialer.Property{}))
			an = append(an, &componentdialer.Annotation{})
		}
		groups[id] = ob.NewDialerGroup(gopt, name, ds, an, policy, func(bool, *componentdialer.NetworkType, bool) {})
	}
	g.groups = groups
	g.cp.outbounds = groups
}

type verifC18ConnObs struct {
	Attempts []verifC18Attempt
	Res      *proxyDialResult
	Err      error
	Panic    string
}

// connect runs one connection through routeDial with the given fault script.
func (g *verifC18Rig) connect(o consts.OutboundIndex, src, dst netip.AddrPort, sniffed string, script []error) (obs verifC18ConnObs) {
	g.tape.start(script)
	func() {
		defer func() {
			if x := recover(); x != nil {
				obs.Panic = fmt.Sprint(x)
			}
		}()
		var conn netproxy.Conn
		conn, obs.Res, obs.Err = g.cp.routeDial(context.Background(), &proxyDialParam{Outbound: o, Domain: sniffed, Src: src, Dest: dst, Network: "tcp"})
		if conn != nil {
			_ = conn.Close()
		}
	}()
	obs.Attempts = g.tape.take()
	if len(script) > 0 {
		g.rebuildGroups()
	}
	return obs
}

// ---- judging one connection (all attempts) ------------------------------------------------

type verifC18ConnCase struct {
	Tag   string // "history" | "attempts"
	Mode  consts.DialMode
	OName string
	OIdx  consts.OutboundIndex
	Src   netip.AddrPort
	Dst   netip.AddrPort
	S     verifC18Sniff
	Fault string
	// Note is put into the witness (e.g. the connection number of a history)
	Note map[string]any
	// Relax is applied to the table entry of every attempt (e.g. to a class whose verdict
	// depends on a janitor window)
	Relax func(e *verifC18Expect)
}

// verifC18JudgeConn returns the shapes of the attempts ("dst", "name", "literal", ...) or
// ok=false after having reported a violation.
func verifC18JudgeConn(m *vk.Monitor, g *verifC18Rig, c verifC18ConnCase, obs verifC18ConnObs) (shapes []string, ok bool) {
	wit := map[string]any{"dial_mode": string(c.Mode), "outbound": c.OName, "dst": c.Dst.String(), "src": c.Src.String(), "sniffed": c.S.S, "class": c.S.Class, "kind": c.S.Kind,
		"first_dial_fault": c.Fault, "routing": g.prog.Text(), "dial_attempts": obs.Attempts}
	for k, v := range c.Note {
		wit[k] = v
	}
	pre := c.Tag + "-"
	if obs.Panic != "" {
		m.Violation(pre+"panic", "routeDial panicked: "+obs.Panic, wit)
		return nil, false
	}
	if obs.Res == nil || obs.Res.Outbound == nil {
		m.Violation(pre+"no-result", fmt.Sprintf("routeDial returned no outbound (err=%v)", obs.Err), wit)
		return nil, false
	}
	wit["result"] = map[string]any{"group": obs.Res.Outbound.Name, "dialTarget": obs.Res.DialTarget, "isDialIp": obs.Res.IsDialIp, "sniffedDomain": obs.Res.SniffedDomain, "err": fmt.Sprint(obs.Err)}
	if len(obs.Attempts) == 0 {
		m.Count(c.Tag+"_record_connection_without_dial_attempt", 1)
		return nil, true
	}
	first := verifC18Table(c.Mode, verifC18Outbound{Name: c.OName, Index: c.OIdx, Reserved: c.OIdx.IsReserved()}, c.Dst.Addr().Is4(), c.S)
	routedName := vk.RefRoute(g.prog, vk.RPkt{Src: c.Src, Dst: c.Dst, L4: "tcp", Domain: c.S.S}).Outbound
	routedNoName := vk.RefRoute(g.prog, vk.RPkt{Src: c.Src, Dst: c.Dst, L4: "tcp"}).Outbound
	var candidates []string
	switch {
	case first.Reroute == "yes":
		// domain++: "the flow is routed again using that name"
		candidates = []string{routedName}
	case c.OIdx == consts.OutboundControlPlaneRouting && c.Mode == consts.DialMode_DomainCao && c.S.S != "":
		candidates = []string{routedName}
	case c.OIdx == consts.OutboundControlPlaneRouting:
		candidates = []string{routedName, routedNoName}
	case first.Reroute == "no":
		candidates = []string{c.OName}
	default: // the statement does not fix whether (or how) this cell re-routes
		candidates = []string{c.OName, routedName, routedNoName}
	}
	wit["acceptable_groups"] = candidates
	for i, a := range obs.Attempts {
		which := "first"
		if i > 0 {
			which = "retry"
		}
		last := i == len(obs.Attempts)-1
		okGroup := false
		for _, cand := range candidates {
			if cand == a.Group {
				okGroup = true
			}
		}
		if !okGroup {
			m.Violation(fmt.Sprintf("%swrong-group/%s/%s", pre, which, c.Mode),
				fmt.Sprintf("dial attempt %d went to a node of group %s; acceptable after (re-)routing with the sniffed value: %v", i+1, a.Group, candidates), wit)
			return nil, false
		}
		gid := consts.OutboundIndex(g.name2id[a.Group])
		e := verifC18Table(c.Mode, verifC18Outbound{Name: a.Group, Index: gid, Reserved: gid.IsReserved()}, c.Dst.Addr().Is4(), c.S)
		if c.Relax != nil {
			c.Relax(&e)
		}
		e.Reroute = "free" // observed through the group above
		dialIp := true
		if last {
			dialIp = obs.Res.IsDialIp
		}
		sig, what, shape := verifC18Judge(e, c.S, c.Dst, a.Addr, false, dialIp)
		if sig != "" {
			wit["table_for_attempt"] = e
			m.Violation(fmt.Sprintf("%s%s/%s/%s/%s", pre, which, sig, c.Mode, c.S.Kind),
				fmt.Sprintf("dial attempt %d of %d (group %s, node %d): %s", i+1, len(obs.Attempts), a.Group, a.Node, what), wit)
			return nil, false
		}
		shapes = append(shapes, strings.SplitN(shape, "+", 2)[0])
	}
	lastA := obs.Attempts[len(obs.Attempts)-1]
	if obs.Res.DialTarget != lastA.Addr || obs.Res.Outbound.Name != lastA.Group {
		m.Violation(pre+"result-differs-from-last-attempt",
			fmt.Sprintf("routeDial reports target %q of group %s, the last dial attempt sent %q to a node of group %s", obs.Res.DialTarget, obs.Res.Outbound.Name, lastA.Addr, lastA.Group), wit)
		return nil, false
	}
	// the statement is about the address sent to the node; the bookkeeping field is recorded
	if obs.Res.SniffedDomain != c.S.S {
		m.Count(c.Tag+"_record_result_sniffed_domain_differs", 1)
	}
	return shapes, true
}

// ---- IP-literal forms ------------------------------------------------------------------------

// verifC18ClassifyLiteral is the oracle's own reading of a sniffed string (standard library
// only): an IP literal, bare or in one pair of brackets ("literal"), an IP literal followed
// by a numeric port ("literal-port"), or neither ("").
func verifC18ClassifyLiteral(s string) (kind, host, port string) {
	if strings.HasPrefix(s, "[") && strings.HasSuffix(s, "]") {
		in := s[1 : len(s)-1]
		if _, err := netip.ParseAddr(in); err == nil {
			return "literal", in, ""
		}
		return "", "", ""
	}
	if _, err := netip.ParseAddr(s); err == nil {
		return "literal", s, ""
	}
	if h, p, err := net.SplitHostPort(s); err == nil {
		if _, err := strconv.ParseUint(p, 10, 16); err == nil {
			if _, err := netip.ParseAddr(h); err == nil {
				return "literal-port", h, p
			}
		}
	}
	return "", "", ""
}

type verifC18Form struct {
	verifC18Sniff
	FirstChar  string // class of the first character of the delivered string
	ViaSniffer bool   // delivered through sniffing.NormalizeDomain from a written Host value
}

func verifC18FirstCharClass(s string) string {
	if s == "" {
		return "none"
	}
	c := s[0]
	switch {
	case c >= '0' && c <= '9':
		return "digit"
	case c >= 'a' && c <= 'f':
		return "hex-lower"
	case c >= 'A' && c <= 'F':
		return "hex-upper"
	case c == ':':
		return "colon"
	case c == '[':
		return "bracket"
	}
	return "other"
}

func verifC18LiteralForms() []verifC18Form {
	var out []verifC18Form
	seen := map[string]int{}
	add := func(s, class string, via bool) {
		if i, dup := seen[s]; dup {
			// the same string, (also) as the production sniffer hands it over
			out[i].ViaSniffer = out[i].ViaSniffer || via
			return
		}
		seen[s] = len(out)
		kind, host, port := verifC18ClassifyLiteral(s)
		if kind == "" {
			kind = "degenerate" // not an IP literal in the oracle's reading: recorded, never judged
		}
		out = append(out, verifC18Form{verifC18Sniff: verifC18Sniff{S: s, Class: class, Kind: kind, Host: host, Port: port}, FirstChar: verifC18FirstCharClass(s), ViaSniffer: via})
	}
	sniff := func(written, class string) {
		add(sniffing.NormalizeDomain(written), class+"(via sniffer)", true)
	}
	type b6 struct{ s, class string }
	var bases []b6
	for _, c := range "0123456789abcdef" {
		bases = append(bases,
			b6{string(c) + "d00::1", "v6-compressed"},
			b6{string(c) + "d00:0:0:0:0:0:0:1", "v6-uncompressed"},
			b6{string(c) + "d00:0000:0000:0000:0000:0000:0000:0001", "v6-zero-padded"},
			b6{string(c) + "::" + string(c), "v6-one-digit-group"})
	}
	for _, s := range []string{"::1", "::", "::ffff:1.2.3.4", "::ffff:102:304", "fe80::1", "ff02::1", "abcd:ef01::2", "2606:4700::1111", "64:ff9b::102:304", "e:0:0:0:0:0:0:e", "2001:db8::", "fec0::dead:beef"} {
		bases = append(bases, b6{s, "v6-special"})
	}
	for _, b := range bases {
		up := strings.ToUpper(b.s)
		add(b.s, b.class, false)
		add(up, b.class+"-upper", false)
		add("["+b.s+"]", "["+b.class+"]", false)
		add("["+up+"]", "["+b.class+"-upper]", false)
		add("["+b.s+"]:8443", "["+b.class+"]:port", false)
		add("["+up+"]:443", "["+b.class+"-upper]:port(443)", false)
		sniff("["+up+"]", "Host ["+b.class+"-upper]")
		sniff("["+b.s+"]:8443", "Host ["+b.class+"]:port")
		sniff(" "+up+" ", "Host "+b.class+"-upper-blanks")
	}
	for _, s := range []string{"fe80::1", "ff02::1", "fd00::1", "2001:db8::7", "::1"} {
		add(s+"%eth0", "v6-zone", false)
		add(strings.ToUpper(s)+"%eth0", "v6-zone-upper", false)
		add("["+s+"%eth0]", "[v6-zone]", false)
		sniff("["+s+"%eth0]", "Host [v6-zone]")
	}
	for _, s := range []string{"1.2.3.4", "93.184.216.34", "0.0.0.0", "255.255.255.255", "10.0.0.1", "127.0.0.1"} {
		add(s, "v4", false)
		add("["+s+"]", "[v4]", false)
		add(s+":8443", "v4:port", false)
		add(s+":443", "v4:port(443)", false)
		sniff(s+".", "Host v4-trailing-dot")
		sniff(s+":80", "Host v4:port")
	}
	// look-alikes outside the oracle's reading of "IP literal": recorded only
	for _, s := range []string{"1.2.3.4.", "fd00::1.", "1.2.3", "1.2.3.4.5", "g::1", "fd00:::1", "fd00::1::2", "[fd00::1", "fd00::1]", "[[fd00::1]]", "fd00::1%", "1.2.3.4:", "[fd00::1]:", "0x1.2.3.4"} {
		add(s, "look-alike", false)
	}
	return out
}

// host names that begin like hexadecimal groups: names, not literals
func verifC18HexLookingNames() []verifC18Sniff {
	var out []verifC18Sniff
	for _, s := range []string{"dead.beef", "fe80.example", "abcd", "face", "cafe.babe.example", "fd00.example", "ff02", "a.b.c.d", "DEAD.BEEF.example", "c0ffee.example", "1.2.3.example", "0.beef"} {
		out = append(out, verifC18Sniff{S: s, Class: "hex-looking-name", Kind: "name-notgenuine", Host: s})
	}
	return out
}

// ---- histories -----------------------------------------------------------------------------

func verifC18ProbeCount(env *verifC18Env, host string) int64 {
	if c, ok := env.probes.Load(host); ok {
		return c.(*atomic.Int64).Load()
	}
	return 0
}

func verifC18LiteralHistories(m *vk.Monitor, env *verifC18Env) {
	forms := verifC18LiteralForms()
	names := verifC18HexLookingNames()
	m.Set("history_literal_forms", len(forms))
	modes := []consts.DialMode{consts.DialMode_Domain, consts.DialMode_Ip, consts.DialMode_DomainPlus, consts.DialMode_DomainCao}
	src4, src6 := netip.MustParseAddrPort("192.0.2.10:40000"), netip.MustParseAddrPort("[2001:db8:2::10]:40000")
	dstA, dstB := netip.MustParseAddrPort("198.51.100.1:443"), netip.MustParseAddrPort("[2001:db8:1::1]:8080")
	conns := vk.Scale(4, 10)
	dstOf := func(fi, k int) (src, dst netip.AddrPort) {
		// every third connection of a history goes to an address of the other family
		a := fi%2 == 0
		if k%3 == 0 {
			a = !a
		}
		if a {
			return src4, dstA
		}
		return src6, dstB
	}
	type lout struct {
		name string
		idx  consts.OutboundIndex
	}
	name2id, _ := verifOutboundTable()
	outs := []lout{{verifGroups[1], consts.OutboundIndex(name2id[verifGroups[1]])}, {"direct", consts.OutboundDirect}}

	for _, mode := range modes {
		if m.Violations() >= 5 {
			return
		}
		g := verifC18NewRig(m, env, mode, true)
		if g == nil {
			return
		}
		cp := g.cp
		// all sniffed values of this mode: literal forms, hex-looking names, and control
		// names whose probe is scripted to verify them (v*) or to find no record (n*)
		type item struct {
			s     verifC18Sniff
			form  *verifC18Form
			ctrl  string // "" | "verified" | "norecord"
			fails bool
		}
		var items []*item
		for i := range forms {
			items = append(items, &item{s: forms[i].verifC18Sniff, form: &forms[i]})
		}
		for _, n := range names {
			items = append(items, &item{s: n})
		}
		for i := 0; i < 4; i++ {
			v := fmt.Sprintf("v%d-%s.%s", i, strings.ReplaceAll(string(mode), "+", "p"), verifC18HistSuffix)
			items = append(items, &item{s: verifC18Sniff{S: v, Class: "control-name(probe verifies)", Kind: "name-silent", Host: v}, ctrl: "verified"})
		}
		nrec := fmt.Sprintf("n0-%s.%s", strings.ReplaceAll(string(mode), "+", "p"), verifC18HistSuffix)
		items = append(items, &item{s: verifC18Sniff{S: nrec, Class: "control-name(probe finds no record)", Kind: "name-silent", Host: nrec}, ctrl: "norecord"})

		runConn := func(fi int, it *item, k int) {
			if it.fails {
				return
			}
			src, dst := dstOf(fi, k)
			which := "later"
			if k == 1 {
				which = "first"
			}
			for _, o := range outs {
				m.Eval(1)
				m.Distinct(fmt.Sprintf("H|%s|%s|%s|%s|%v", mode, o.name, it.s.S, which, dst.Addr().Is4()))
				note := map[string]any{"connection_number": k, "connections_with_this_sniffed_value_before": k - 1}
				// (a) the decision as chooseProxyDialer sees it, for the reroute flag
				e := verifC18Table(mode, verifC18Outbound{Name: o.name, Index: o.idx, Reserved: o.idx.IsReserved()}, dst.Addr().Is4(), it.s)
				var target, pan string
				var reroute, dialIp bool
				func() {
					defer func() {
						if x := recover(); x != nil {
							pan = fmt.Sprint(x)
						}
					}()
					target, reroute, dialIp = cp.ChooseDialTarget(o.idx, dst, it.s.S)
				}()
				wit := map[string]any{"dial_mode": string(mode), "outbound": o.name, "dst": dst.String(), "sniffed": it.s.S, "class": it.s.Class, "kind": it.s.Kind, "connection_number": k,
					"got": map[string]any{"dialTarget": target, "shouldReroute": reroute, "dialIp": dialIp}, "table": e}
				if pan != "" {
					m.Violation("history-panic", "ChooseDialTarget panicked: "+pan, wit)
					it.fails = true
					return
				}
				if sig, what, _ := verifC18Judge(e, it.s, dst, target, reroute, dialIp); sig != "" {
					m.Violation(fmt.Sprintf("history-%s/%s/%s/%s", which, sig, mode, it.s.Kind), fmt.Sprintf("connection %d with this sniffed value: %s", k, what), wit)
					it.fails = true
					return
				}
				// (b) the connection itself
				obs := g.connect(o.idx, src, dst, it.s.S, nil)
				shapes, ok := verifC18JudgeConn(m, g, verifC18ConnCase{Tag: "history-" + which, Mode: mode, OName: o.name, OIdx: o.idx, Src: src, Dst: dst, S: it.s, Fault: "none", Note: note}, obs)
				if !ok {
					it.fails = true
					return
				}
				m.Count("history_conn_"+which, 1)
				if it.form != nil && it.s.Kind != "degenerate" {
					m.Count("history_literal_conn_"+which, 1)
					m.Count("history_literal_firstchar_"+it.form.FirstChar, 1)
					if it.form.ViaSniffer {
						m.Count("history_literal_via_sniffer", 1)
					}
					if strings.Contains(it.s.S, "%") {
						m.Count("history_literal_with_zone", 1)
					}
				}
				if it.s.Kind == "degenerate" && len(shapes) > 0 {
					m.Count("history_record_look_alike_"+shapes[0], 1)
				}
				if it.ctrl == "verified" && k > 1 && mode == consts.DialMode_Domain && !o.idx.IsReserved() && len(shapes) > 0 && shapes[0] == "name" {
					m.Count("history_control_name_dialled_by_name_after_probe", 1)
				}
			}
		}

		// phase A: the first connection of every history
		for fi, it := range items {
			runConn(fi, it, 1)
		}
		// between the connections: let dae's own asynchronous probes finish. Barrier only;
		// the waiting decides what the later connections can expose, never a verdict.
		if mode == consts.DialMode_Domain {
			deadline := time.Now().Add(15 * time.Second)
			for _, it := range items {
				if it.ctrl == "" {
					continue
				}
				for {
					if known, _ := cp.lookupRealDomainCache(it.s.S); known {
						break
					}
					if time.Now().After(deadline) {
						m.Inconclusive("history: the real-domain probe of control name %s did not publish a verdict within 15 s", it.s.S)
						g.close()
						return
					}
					time.Sleep(time.Millisecond)
				}
				// from here on the control name has a verdict from dae's own probe
				if it.ctrl == "verified" {
					it.s.Kind = "name-genuine"
				} else {
					it.s.Kind = "name-notgenuine"
				}
			}
			total := func() (n int64) {
				for _, it := range items {
					if it.form != nil {
						n += verifC18ProbeCount(env, it.s.S)
					}
				}
				return
			}
			stable, lastN := 0, total()
			capT := time.Now().Add(5 * time.Second)
			for stable < 8 && time.Now().Before(capT) {
				time.Sleep(5 * time.Millisecond)
				if n := total(); n == lastN && env.inflight.Load() == 0 {
					stable++
				} else {
					stable, lastN = 0, n
				}
			}
			for _, it := range items {
				if it.form == nil || verifC18ProbeCount(env, it.s.S) == 0 {
					continue
				}
				if it.s.Kind == "degenerate" {
					m.Count("history_record_look_alikes_probed_as_names", 1)
				} else {
					m.Count("history_record_literals_probed_as_names", 1)
				}
				if _, err := netip.ParseAddr(it.s.S); err != nil {
					continue // the scripted resolver fails such a query: no verdict will be published
				}
				t1 := time.Now().Add(2 * time.Second)
				for time.Now().Before(t1) {
					if known, _ := cp.lookupRealDomainCache(it.s.S); known {
						break
					}
					time.Sleep(time.Millisecond)
				}
			}
		}
		// phase B: the later connections
		for k := 2; k <= conns; k++ {
			for fi, it := range items {
				runConn(fi, it, k)
			}
		}
		g.close()
	}
}

// ---- dial attempt sequences with injected faults -------------------------------------------------

type verifC18Fault struct {
	Name   string
	Script func() []error
}

func verifC18Faults() []verifC18Fault {
	unreach := func() error {
		return &net.OpError{Op: "dial", Net: "tcp", Err: os.NewSyscallError("connect", syscall.ENETUNREACH)}
	}
	return []verifC18Fault{
		{"none", func() []error { return nil }},
		{"ENETUNREACH", func() []error { return []error{unreach()} }},
		{"message-network-is-unreachable", func() []error {
			return []error{errors.New("dial tcp 203.0.113.200:8443: connect: network is unreachable")}
		}},
		{"message-no-suitable-address", func() []error {
			return []error{errors.New("dial tcp: lookup node.example: no suitable address found")}
		}},
		{"ENETUNREACH-twice", func() []error { return []error{unreach(), unreach()} }},
		{"ECONNREFUSED", func() []error {
			return []error{&net.OpError{Op: "dial", Net: "tcp", Err: os.NewSyscallError("connect", syscall.ECONNREFUSED)}}
		}},
		{"EHOSTUNREACH", func() []error {
			return []error{&net.OpError{Op: "dial", Net: "tcp", Err: os.NewSyscallError("connect", syscall.EHOSTUNREACH)}}
		}},
		{"timeout", func() []error {
			return []error{&net.OpError{Op: "dial", Net: "tcp", Err: context.DeadlineExceeded}}
		}},
	}
}

func verifC18DialAttempts(m *vk.Monitor, env *verifC18Env) {
	var classes []verifC18Sniff
	for _, s := range verifC18Classes() {
		if s.Kind != "degenerate" {
			classes = append(classes, s)
		}
	}
	for _, s := range []string{"fd00::1", "FE80::1", "[abcd:ef01::2]:8443", "fe80::1%eth0", "[1.2.3.4]"} {
		kind, host, port := verifC18ClassifyLiteral(s)
		classes = append(classes, verifC18Sniff{S: s, Class: "literal-form " + s, Kind: kind, Host: host, Port: port})
	}
	faults := verifC18Faults()
	modes := []consts.DialMode{consts.DialMode_Ip, consts.DialMode_Domain, consts.DialMode_DomainPlus, consts.DialMode_DomainCao}
	src4, src6 := netip.MustParseAddrPort("192.0.2.10:40000"), netip.MustParseAddrPort("[2001:db8:2::10]:40000")
	dsts := []netip.AddrPort{netip.MustParseAddrPort("198.51.100.1:443"), netip.MustParseAddrPort("[2001:db8:1::1]:443")}
	name2id, _ := verifOutboundTable()
	type lout struct {
		name string
		idx  consts.OutboundIndex
	}
	outs := []lout{{verifGroups[1], consts.OutboundIndex(name2id[verifGroups[1]])}, {verifGroups[0], consts.OutboundIndex(name2id[verifGroups[0]])}, {"direct", consts.OutboundDirect}, {"control-plane-routing", consts.OutboundControlPlaneRouting}}
	relax := func(mode consts.DialMode, s verifC18Sniff) func(e *verifC18Expect) {
		return func(e *verifC18Expect) {
			if s.S == verifC18Fixed0 && e.Target == "name" && mode == consts.DialMode_Domain && !env.fixedTtl0Fresh() {
				e.Target = "either"
			}
		}
	}
	for _, mode := range modes {
		g := verifC18NewRig(m, env, mode, false)
		if g == nil {
			return
		}
		for _, o := range outs {
			for di, dst := range dsts {
				src := src4
				if !dst.Addr().Is4() {
					src = src6
				}
				for _, s := range classes {
					for _, f := range faults {
						if m.Violations() >= 5 {
							g.close()
							return
						}
						obs := g.connect(o.idx, src, dst, s.S, f.Script())
						m.Eval(1)
						m.Distinct(fmt.Sprintf("A|%s|%s|%d|%s|%s", mode, o.name, di, s.Class, f.Name))
						shapes, ok := verifC18JudgeConn(m, g, verifC18ConnCase{Tag: "attempts", Mode: mode, OName: o.name, OIdx: o.idx, Src: src, Dst: dst, S: s, Fault: f.Name, Relax: relax(mode, s)}, obs)
						if !ok {
							continue
						}
						m.Count("attempts_connections", 1)
						m.Count(fmt.Sprintf("attempts_fault_%s_dials_%d", f.Name, len(obs.Attempts)), 1)
						if len(obs.Attempts) > 1 {
							m.Count("attempts_retry_judged", 1)
							m.Count("attempts_retry_sent_"+shapes[len(shapes)-1], 1)
							a0, a1 := obs.Attempts[0], obs.Attempts[len(obs.Attempts)-1]
							if a0.Group == a1.Group && a0.Node != a1.Node {
								m.Count("attempts_retry_on_another_node_of_the_group", 1)
							}
							if mode == consts.DialMode_DomainCao && a1.Group != o.name {
								m.Count("attempts_retry_in_rerouted_group", 1)
							}
						}
						if m.WantSample() && len(obs.Attempts) > 1 && shapes[len(shapes)-1] == "name" {
							m.Sample(map[string]any{"dial_mode": string(mode), "outbound": o.name, "dst": dst.String(), "sniffed": s.S, "first_dial_fault": f.Name, "dial_attempts": obs.Attempts})
						}
					}
				}
			}
		}
		g.close()
	}
}
