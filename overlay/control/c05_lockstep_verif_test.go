//go:build linux

package control

// C05 monitor, lock-step class.
//
// Request/response exchanges through the real relay: the two peers send
// messages of generated sizes (1 byte, 2 bytes, MSS +- 1, copy-buffer size
// +- 1, ...) strictly alternately; a peer sends NOTHING until it has received
// every byte of the other peer's previous message, and nobody closes before
// the script is over. So between two messages every copy loop is parked, and
// a message must get through on its own: without more data behind it and
// without an end of stream. All copy paths are driven by production code
// choosing them: both ends plain TCP (splice), dae's own prefix wrappers on
// the client side (gather write + continuation copy), and ends that cannot be
// unwrapped to a *net.TCPConn (buffered loop, as for every proxied outbound).
//
// Oracles:
//   * conservation, on the fly, by the self-describing streams of the main
//     class (c05Checker): loss / duplication / foreign bytes / extra bytes;
//   * progress in protocol steps: the receiver obtains message k although the
//     sender sends nothing more. "Never arrives" is decided by a STRUCTURAL
//     observation, the clock only triggers the inspection (generous watchdog):
//     the monitor's non-unwrappable conns count what dae's Read calls took
//     from the source and what dae's Write calls handed to the destination
//     (where an end is a raw socket the kernel's queue counters give the same
//     two numbers). Violation iff dae has consumed everything the sender has
//     written, has written less than that to the destination, no Write is in
//     progress, dae is parked in another Read on the source (where a monitor
//     conn is the source) - which cannot return, since the sender waits for
//     the reaction to the very bytes dae holds - and the state is unchanged a
//     second later. Anything else the watchdog sees is INCONCLUSIVE.
//   * every run first checks this proof machinery against a relay of the
//     monitor's own that withholds a lone byte (positive control).

import (
	"context"
	"encoding/json"
	"errors"
	"fmt"
	"math/rand/v2"
	"net"
	"net/netip"
	"os"
	"path/filepath"
	"strings"
	"sync"
	"sync/atomic"
	"time"

	"github.com/daeuniverse/dae/common/consts"
	vk "github.com/daeuniverse/dae/verifkit"
	"github.com/daeuniverse/outbound/netproxy"
	"golang.org/x/sys/unix"
)

// ---------------------------------------------------------------------------
// what dae did at its two conn boundaries, per relay direction

type c05Flow struct {
	mu         sync.Mutex
	srcTracked bool
	dstTracked bool
	inRead     int
	readCalls  int64
	readBytes  int64
	readErr    string
	inWrite    int64
	writeCalls int64
	writeBytes int64
	writeErr   string
}

type c05FlowSnap struct {
	SrcTracked bool   `json:"source_is_monitor_conn"`
	DstTracked bool   `json:"destination_is_monitor_conn"`
	InRead     int    `json:"dae_read_calls_in_progress_on_source"`
	ReadCalls  int64  `json:"dae_read_calls_on_source"`
	ReadBytes  int64  `json:"bytes_dae_read_from_source"`
	ReadErr    string `json:"last_source_read_error,omitempty"`
	InWrite    int64  `json:"bytes_of_write_in_progress_on_destination"`
	WriteCalls int64  `json:"dae_write_calls_on_destination"`
	WriteBytes int64  `json:"bytes_dae_wrote_to_destination"`
	WriteErr   string `json:"last_destination_write_error,omitempty"`
}

func (f *c05Flow) snap() c05FlowSnap {
	f.mu.Lock()
	defer f.mu.Unlock()
	return c05FlowSnap{f.srcTracked, f.dstTracked, f.inRead, f.readCalls, f.readBytes, f.readErr, f.inWrite, f.writeCalls, f.writeBytes, f.writeErr}
}

// c05TrackedConn: a conn that cannot be unwrapped to a *net.TCPConn (like
// the conn of any proxied outbound) and accounts dae's reads and writes.
type c05TrackedConn struct {
	c           *net.TCPConn
	rd          *c05Flow // direction this conn is the source of
	wr          *c05Flow // direction this conn is the destination of
	closeWrites atomic.Int32
}

func (t *c05TrackedConn) Read(b []byte) (int, error) {
	t.rd.mu.Lock()
	t.rd.inRead++
	t.rd.readCalls++
	t.rd.mu.Unlock()
	n, err := t.c.Read(b)
	t.rd.mu.Lock()
	t.rd.inRead--
	t.rd.readBytes += int64(n)
	if err != nil {
		t.rd.readErr = err.Error()
	}
	t.rd.mu.Unlock()
	return n, err
}

func (t *c05TrackedConn) Write(b []byte) (int, error) {
	t.wr.mu.Lock()
	t.wr.inWrite += int64(len(b))
	t.wr.writeCalls++
	t.wr.mu.Unlock()
	n, err := t.c.Write(b)
	t.wr.mu.Lock()
	t.wr.inWrite -= int64(len(b))
	t.wr.writeBytes += int64(n)
	if err != nil {
		t.wr.writeErr = err.Error()
	}
	t.wr.mu.Unlock()
	return n, err
}

func (t *c05TrackedConn) Close() error                       { return t.c.Close() }
func (t *c05TrackedConn) LocalAddr() net.Addr                { return t.c.LocalAddr() }
func (t *c05TrackedConn) RemoteAddr() net.Addr               { return t.c.RemoteAddr() }
func (t *c05TrackedConn) SetDeadline(d time.Time) error      { return t.c.SetDeadline(d) }
func (t *c05TrackedConn) SetReadDeadline(d time.Time) error  { return t.c.SetReadDeadline(d) }
func (t *c05TrackedConn) SetWriteDeadline(d time.Time) error { return t.c.SetWriteDeadline(d) }
func (t *c05TrackedConn) CloseWrite() error {
	t.closeWrites.Add(1)
	return t.c.CloseWrite()
}

// kernel queue counters of a socket the harness owns a handle of (-1: unknown)
func c05SockQueue(c *net.TCPConn, req uint) int64 {
	if c == nil {
		return -1
	}
	raw, err := c.SyscallConn()
	if err != nil {
		return -1
	}
	v, ierr := 0, error(nil)
	if err := raw.Control(func(fd uintptr) { v, ierr = unix.IoctlGetInt(int(fd), req) }); err != nil || ierr != nil {
		return -1
	}
	return int64(v)
}

// ---------------------------------------------------------------------------
// script

type c05LSMsg struct {
	From  string `json:"from"` // client | upstream
	Size  int    `json:"size"`
	Seg   string `json:"segmentation"`   // one | last-alone | first-alone | bytes | rand | halves
	Pause int    `json:"pause_ms"`       // between segments; 0 = until the earlier segments were delivered (at most 50 ms)
	Idle  int    `json:"idle_before_ms"` // think time of the sender after it got the previous message
	Class string `json:"size_class"`     // lone | tiny | boundary | random
	Lone  bool   `json:"ends_with_a_segment_of_one_byte"`
}

type c05LSCase struct {
	LConn   string     `json:"client_side_conn"` // tcp | tracked
	RConn   string     `json:"upstream_conn"`    // tcp | tracked
	Msgs    []c05LSMsg `json:"messages"`
	Closer  string     `json:"first_to_close_after_the_script"`
	Control string     `json:"positive_control,omitempty"`
}

var c05LSBoundary = []int{1447, 1448, 1449, 4095, 4096, 4097, 16383, 16384, 16385, 32767, 32768, 32769, 65482, 65483, 65484, 65535, 65536, 65537}

func c05GenLockStep(r *rand.Rand, id int) (*c05Case, *c05LSCase) {
	cs := &c05Case{ID: id, CaseSeed: r.Uint64(), Close: "after-lock-step-script", SegC: "lock-step", SegS: "lock-step", SrvStart: "lock-step", Gap: "none"}
	ls := &c05LSCase{}
	switch x := r.IntN(100); {
	case x < 40:
		cs.Stack = "plain"
		cs.Pre = c05Pick(r, "none", "none", "garbage", "http")
		cs.DstPort = c05Pick[uint16](r, 80, 443, 22, 8080)
	case x < 82:
		cs.Stack = "sniff"
		cs.Pre = c05Pick(r, "tls-small", "tls-large", "http", "http", "garbage", "none", "httpish-garbage")
		cs.DstPort = c05Pick[uint16](r, 80, 443, 8443, 5222)
	default:
		cs.Stack = "dns53"
		cs.Pre = c05Pick(r, "short-len", "bad-parse", "dns-response")
		cs.DstPort = 53
	}
	cs.WindowMs = c05Pick(r, 60, 150)
	ls.LConn = c05Pick(r, "tcp", "tcp", "tracked")
	ls.RConn = c05Pick(r, "tcp", "tracked")
	cs.RConn = ls.RConn
	from := "client"
	cs.Arrival = "before"
	if cs.Stack != "dns53" && r.IntN(7) == 0 {
		from, cs.Arrival = "upstream", "never" // server-first protocol
	}
	n := 8 + r.IntN(9)
	budget := 400 << 10
	for k := 0; k < n; k++ {
		msg := c05LSMsg{From: from, Seg: "one"}
		switch x := r.IntN(100); {
		case x < 42:
			msg.Size, msg.Class = 1, "lone"
		case x < 52:
			msg.Size, msg.Class = 2, "tiny"
		case x < 62:
			msg.Size, msg.Class = c05Pick(r, 3, 7, 15, 16, 17, 31, 100), "tiny"
		case x < 80:
			msg.Size, msg.Class = c05LSBoundary[r.IntN(len(c05LSBoundary))], "boundary"
		default:
			msg.Size, msg.Class = 1+r.IntN(1+r.IntN(100000)), "random"
		}
		if msg.Size > budget {
			msg.Size, msg.Class = 1+r.IntN(64), "tiny"
		}
		budget -= msg.Size
		if msg.Size >= 2 {
			msg.Seg = c05Pick(r, "one", "one", "last-alone", "last-alone", "first-alone", "bytes", "rand", "halves")
			if msg.Seg == "bytes" && msg.Size > 48 {
				msg.Seg = "rand"
			}
			msg.Pause = c05Pick(r, 0, 0, 2, 9, 25)
		}
		msg.Idle = c05Pick(r, 0, 0, 0, 1, 4)
		msg.Lone = msg.Size == 1 || msg.Seg == "last-alone" || msg.Seg == "bytes"
		ls.Msgs = append(ls.Msgs, msg)
		if from == "client" {
			from = "upstream"
		} else {
			from = "client"
		}
	}
	if cs.Arrival == "before" {
		// written before dae accepts the connection: one write that cannot block
		ls.Msgs[0].Seg, ls.Msgs[0].Pause = "one", 0
		if ls.Msgs[0].Size > 32<<10 {
			ls.Msgs[0].Size, ls.Msgs[0].Class = 1+r.IntN(3000), "random"
		}
		ls.Msgs[0].Lone = false
	}
	ls.Closer = c05Pick(r, "client", "upstream")
	return cs, ls
}

// ---------------------------------------------------------------------------
// one lock-step connection

type c05LSRun struct {
	*c05Run
	ls       *c05LSCase
	watchdog time.Duration
	resnap   time.Duration

	l2r, r2l *c05Flow
	lRaw     *net.TCPConn
	rRaw     atomic.Pointer[net.TCPConn]

	wired              chan struct{} // closed when the dae side is about to start the relay
	classL2R, classR2L string
	blocked            atomic.Bool // a harness write ran into its deadline
}

// c05WithholdingRelay is NOT dae code: the monitor's positive control, a relay
// that parks a lone byte until more data (or the end of the stream) arrives.
func c05WithholdingRelay(l, r netproxy.Conn) error {
	var wg sync.WaitGroup
	one := func(dst, src netproxy.Conn) {
		defer wg.Done()
		buf := make([]byte, 32<<10)
		first := true
		for {
			n, err := src.Read(buf)
			if n == 1 && err == nil && !first {
				var more int
				more, err = src.Read(buf[1:])
				n += more
			}
			first = false
			if n > 0 {
				if _, werr := dst.Write(buf[:n]); werr != nil {
					return
				}
			}
			if err != nil {
				if wc, ok := dst.(WriteCloser); ok {
					_ = wc.CloseWrite()
				}
				return
			}
		}
	}
	wg.Add(2)
	go one(r, l)
	go one(l, r)
	wg.Wait()
	return nil
}

func (y *c05LSRun) daeSide(upstream *net.TCPAddr, dst netip.AddrPort, rr *bpfRoutingResult) {
	x := y.c05Run
	defer close(x.relayDone)
	wired := false
	defer func() {
		if !wired {
			close(y.wired)
		}
	}()
	defer func() {
		if p := recover(); p != nil {
			x.panicVal.Store(fmt.Sprintf("%v", p))
			x.relayDoneAt.Store(x.now())
		}
	}()
	defer func() { _ = y.lRaw.Close() }()
	var lConn net.Conn = y.lRaw
	if y.ls.LConn == "tracked" {
		lConn = &c05TrackedConn{c: y.lRaw, rd: y.l2r, wr: y.r2l}
	}
	c0 := time.Now()
	signalled := false
	defer func() {
		if !signalled {
			close(x.composed)
		}
	}()
	var lRelay netproxy.Conn = lConn
	var err error
	if y.ls.Control == "" {
		lRelay, err = c05Compose(x.cp, lConn, dst, rr, &x.comp)
	} else {
		x.comp.outcome = "plain"
	}
	x.composeDur = time.Since(c0)
	if x.comp.sniffer != nil {
		defer func() { _ = x.comp.sniffer.Close() }()
	}
	if err != nil {
		x.composeErr = err.Error()
	}
	x.ev("dae: composition done outcome=%s err=%q sniffErr=%q domain=%q", x.comp.outcome, x.composeErr, x.comp.sniffErr, x.comp.domain)
	signalled = true
	close(x.composed)
	if lRelay == nil {
		x.relayDoneAt.Store(x.now())
		return
	}
	rRaw, err := net.DialTCP("tcp", nil, upstream)
	if err != nil {
		x.composeErr = "harness dial: " + err.Error()
		x.relayDoneAt.Store(x.now())
		return
	}
	y.rRaw.Store(rRaw)
	var rConn netproxy.Conn = rRaw
	if y.ls.RConn == "tracked" {
		rConn = &c05TrackedConn{c: rRaw, rd: y.r2l, wr: y.l2r}
	}
	defer func() { _ = rConn.Close() }()
	// which copy path production code will choose for later messages, by its own predicates
	class := func(d, s netproxy.Conn) string {
		if shouldUseRelayFastPath(d, s) {
			return "fast"
		}
		return "buffered"
	}
	y.classL2R, y.classR2L = class(rConn, lRelay), class(lRelay, rConn)
	if _, ok := lRelay.(relaySegmentSource); ok {
		y.classL2R = "gather-cont"
	} else if _, ok := lRelay.(relayPrefixSource); ok {
		y.classL2R = "gather-cont"
	}
	wired = true
	close(y.wired)
	var rerr error
	if y.ls.Control != "" {
		rerr = c05WithholdingRelay(lRelay, rConn)
	} else {
		rerr = RelayTCPContextWithRecords(context.Background(), lRelay, rConn, x.pathR2L.record, x.pathL2R.record)
	}
	if rerr != nil {
		x.relayErr.Store(rerr.Error())
	}
	x.relayDoneAt.Store(x.now())
	x.ev("dae: relay returned err=%v", rerr)
}

// write hands stream bytes [from,to) of p's outgoing stream to the socket in one Write.
func (y *c05LSRun) write(p *c05Peer, from, to int64) bool {
	if to <= from {
		return true
	}
	b := make([]byte, to-from)
	p.out.fill(b, from)
	_ = p.conn.SetWriteDeadline(time.Now().Add(y.watchdog + 5*time.Second))
	w, err := p.conn.Write(b)
	_ = p.conn.SetWriteDeadline(time.Time{})
	p.sent.Add(int64(w))
	if err != nil {
		var ne net.Error
		if errors.As(err, &ne) && ne.Timeout() {
			y.blocked.Store(true)
			y.ev("%s writer: write of %d bytes at offset %d blocked until its deadline (%d written)", p.name, to-from, from, w)
			return false
		}
		p.werr.Store(err.Error())
		p.werrA.Store(y.now())
		y.ev("%s writer: error at offset %d: %v", p.name, from+int64(w), err)
		return false
	}
	return true
}

// send writes message k (stream bytes [from, from+size)) with its segmentation.
// Pauses between segments only pace the sender; nothing is judged inside a message.
func (y *c05LSRun) send(p, q *c05Peer, msg *c05LSMsg, from int64, r *rand.Rand) bool {
	to := from + int64(msg.Size)
	pause := func(sofar int64) {
		if msg.Pause > 0 {
			time.Sleep(time.Duration(msg.Pause) * time.Millisecond)
			return
		}
		if q != nil {
			y.wait(func() bool { return q.recvd.Load() >= sofar }, 50*time.Millisecond)
			time.Sleep(time.Millisecond)
		}
	}
	var cuts []int64
	switch msg.Seg {
	case "last-alone":
		cuts = []int64{to - 1}
	case "first-alone":
		cuts = []int64{from + 1}
	case "halves":
		cuts = []int64{from + int64(msg.Size)/2}
	case "bytes":
		for o := from + 1; o < to; o++ {
			cuts = append(cuts, o)
		}
	case "rand":
		for o := from; ; {
			o += 1 + r.Int64N(3000)
			if o >= to {
				break
			}
			cuts = append(cuts, o)
		}
	}
	off := from
	for _, c := range cuts {
		if c <= off || c >= to {
			continue
		}
		if !y.write(p, off, c) {
			return false
		}
		off = c
		if msg.Seg != "rand" && msg.Seg != "bytes" || r.IntN(4) == 0 {
			pause(off)
		}
	}
	return y.write(p, off, to)
}

// c05LSObs: one consistent look at a stalled direction.
type c05LSObs struct {
	Flow        c05FlowSnap `json:"dae_io_at_monitor_conns"`
	SenderSent  int64       `json:"bytes_sender_has_written"`
	ReceiverGot int64       `json:"bytes_receiver_has_read"`
	SenderOutQ  int64       `json:"sender_socket_unacked_bytes"`
	DaeSrcInQ   int64       `json:"dae_source_socket_unread_bytes"`
	DaeDstOutQ  int64       `json:"dae_destination_socket_unacked_bytes"`
	ReceiverInQ int64       `json:"receiver_socket_unread_bytes"`
	RelayDone   bool        `json:"relay_returned"`
	Consumed    int64       `json:"bytes_dae_took_from_source"`
	Written     int64       `json:"bytes_dae_handed_to_destination"`
}

func (y *c05LSRun) observe(dir string) c05LSObs {
	sender, receiver, flow := y.cli, y.srv, y.l2r
	daeSrc, daeDst := y.lRaw, y.rRaw.Load()
	if dir == "r2l" {
		sender, receiver, flow = y.srv, y.cli, y.r2l
		daeSrc, daeDst = daeDst, daeSrc
	}
	o := c05LSObs{Flow: flow.snap(), SenderSent: sender.sent.Load(), ReceiverGot: receiver.recvd.Load()}
	o.SenderOutQ = c05SockQueue(sender.conn, unix.TIOCOUTQ)
	o.DaeSrcInQ = c05SockQueue(daeSrc, unix.TIOCINQ)
	o.DaeDstOutQ = c05SockQueue(daeDst, unix.TIOCOUTQ)
	o.ReceiverInQ = c05SockQueue(receiver.conn, unix.TIOCINQ)
	o.ReceiverGot = receiver.recvd.Load()
	select {
	case <-y.relayDone:
		o.RelayDone = true
	default:
	}
	o.Consumed, o.Written = -1, -1
	if o.Flow.SrcTracked {
		o.Consumed = o.Flow.ReadBytes
	} else if o.SenderOutQ >= 0 && o.DaeSrcInQ >= 0 {
		o.Consumed = o.SenderSent - o.SenderOutQ - o.DaeSrcInQ
	}
	if o.Flow.DstTracked {
		o.Written = o.Flow.WriteBytes + o.Flow.InWrite
	} else if o.ReceiverInQ >= 0 && o.DaeDstOutQ >= 0 {
		o.Written = o.ReceiverGot + o.ReceiverInQ + o.DaeDstOutQ
	}
	return o
}

type c05LSProof struct {
	Dir        string   `json:"direction"`
	Msg        int      `json:"message_index"`
	Target     int64    `json:"receiver_must_have_bytes"`
	First      c05LSObs `json:"observation"`
	Second     c05LSObs `json:"observation_repeated"`
	ConsumedBy string   `json:"consumed_known_from"`
	WrittenBy  string   `json:"written_known_from"`
	Held       int64    `json:"bytes_withheld_inside_dae"`
	Holds      bool     `json:"proves_withholding"`
	Lagged     bool     `json:"scheduler_lag_while_kernel_counters_were_read"`
	Unmet      []string `json:"unmet_conditions,omitempty"`
	Released   *bool    `json:"released_by_senders_end_of_stream,omitempty"`
}

// prove inspects a direction whose receiver has not obtained message k although
// the sender finished writing it a watchdog period ago and sends nothing more.
func (y *c05LSRun) prove(dir string, k int, target int64) *c05LSProof {
	p := &c05LSProof{Dir: dir, Msg: k, Target: target}
	obs0 := time.Now()
	p.First = y.observe(dir)
	time.Sleep(y.resnap)
	p.Second = y.observe(dir)
	o := p.Second
	p.ConsumedBy, p.WrittenBy = "kernel-queues", "kernel-queues"
	if o.Flow.SrcTracked {
		p.ConsumedBy = "monitor-conn"
	}
	if o.Flow.DstTracked {
		p.WrittenBy = "monitor-conn"
	}
	need := func(ok bool, what string) {
		if !ok {
			p.Unmet = append(p.Unmet, what)
		}
	}
	need(p.First == p.Second, "state unchanged between the two observations")
	need(!o.RelayDone, "relay still running")
	need(o.ReceiverGot < target, "receiver still short of the message")
	need(o.Consumed >= 0 && o.Written >= 0, "consumed/written counts available")
	need(o.Consumed == o.SenderSent, "dae has taken every byte the sender wrote (the source has nothing more to give)")
	need(o.Written < o.Consumed, "dae handed fewer bytes to the destination than it took from the source")
	need(o.Written == o.ReceiverGot, "everything dae wrote has reached the receiver (nothing in flight)")
	need(o.Flow.InWrite == 0, "no Write in progress on the destination")
	if o.Flow.SrcTracked {
		need(o.Flow.InRead > 0, "dae is parked in a Read on the source")
	}
	// kernel counters are only trusted when this process demonstrably kept being scheduled between
	// the two observations (dae's goroutines had every chance to move the bytes on)
	p.Lagged = (!o.Flow.SrcTracked || !o.Flow.DstTracked) && !y.calm(obs0)
	if w, _ := y.cut(); w != "" {
		need(false, "connection not terminated ("+w+")")
	}
	need(!y.blocked.Load(), "sender finished writing the message")
	p.Held = o.Consumed - o.Written
	p.Holds = len(p.Unmet) == 0
	return p
}

func (y *c05LSRun) lsExtra(more map[string]any) map[string]any {
	e := map[string]any{"lock_step": y.ls, "copy_class_l2r": y.classL2R, "copy_class_r2l": y.classR2L}
	for k, v := range more {
		e[k] = v
	}
	return e
}

func (y *c05LSRun) run() {
	x, cs, ls, m := y.c05Run, y.cs, y.ls, y.m
	r := x.r
	control := ls.Control != ""
	pre := c05Preamble(r, cs.Pre, cs.ID)
	cs.PreLen = len(pre)
	var cTot, sTot int64
	firstC := true
	for i := range ls.Msgs {
		if ls.Msgs[i].From == "client" {
			if firstC {
				ls.Msgs[i].Size += len(pre)
				firstC = false
			}
			cTot += int64(ls.Msgs[i].Size)
		} else {
			sTot += int64(ls.Msgs[i].Size)
		}
	}
	cs.C2S, cs.S2C = int(cTot)-len(pre), int(sTot)
	cOut := c05NewStream(x.seed, uint16(cs.ID), 'c', pre, cTot-int64(len(pre)))
	sOut := c05NewStream(x.seed, uint16(cs.ID), 's', nil, sTot)
	y.l2r = &c05Flow{srcTracked: ls.LConn == "tracked", dstTracked: ls.RConn == "tracked"}
	y.r2l = &c05Flow{srcTracked: ls.RConn == "tracked", dstTracked: ls.LConn == "tracked"}
	y.wired = make(chan struct{})

	lnA, err := c05ListenLoopback()
	if err != nil {
		m.Inconclusive("listen: %v", err)
		return
	}
	defer lnA.Close()
	lnB, err := c05ListenLoopback()
	if err != nil {
		m.Inconclusive("listen: %v", err)
		return
	}
	defer lnB.Close()
	cliConn, err := net.DialTCP("tcp", nil, lnA.Addr().(*net.TCPAddr))
	if err != nil {
		m.Inconclusive("dial: %v", err)
		return
	}
	defer cliConn.Close()
	x.t0 = time.Now()
	x.cli = &c05Peer{name: "client", conn: cliConn, out: cOut, chk: &c05Checker{s: sOut}, rdone: make(chan struct{})}
	sr := rand.New(rand.NewPCG(cs.CaseSeed, 3))
	sentFirst := false
	if cs.Arrival == "before" && ls.Msgs[0].From == "client" {
		y.send(x.cli, nil, &ls.Msgs[0], 0, sr)
		sentFirst = true
	}
	_ = lnA.SetDeadline(time.Now().Add(10 * time.Second))
	lConn, err := lnA.AcceptTCP()
	if err != nil {
		m.Inconclusive("accept: %v", err)
		return
	}
	y.lRaw = lConn
	if sentFirst {
		time.Sleep(2 * time.Millisecond)
	}
	x.t0 = time.Now()
	go x.cli.reader(x)
	outb := uint8(consts.OutboundControlPlaneRouting)
	if cs.Stack == "plain" && cs.DstPort != 22 {
		outb = uint8(consts.OutboundDirect)
	}
	rr := &bpfRoutingResult{Outbound: outb}
	dst := netip.AddrPortFrom(netip.AddrFrom4([4]byte{10, 6, byte(cs.ID >> 8), byte(cs.ID)}), cs.DstPort)
	x.composed = make(chan struct{})
	x.relayDone = make(chan struct{})
	go y.daeSide(lnB.Addr().(*net.TCPAddr), dst, rr)

	_ = lnB.SetDeadline(time.Now().Add(2*time.Duration(cs.WindowMs)*time.Millisecond + 17*time.Second))
	srvConn, aerr := lnB.AcceptTCP()
	if aerr != nil {
		<-x.composed
		x.wait(func() bool { return x.cli.eofAt.Load() != 0 || x.cli.errAt.Load() != 0 }, 3*time.Second)
		if control {
			m.Inconclusive("lock-step positive control %s: no upstream connection", ls.Control)
		} else if x.comp.handled {
			x.violate("nondns-handled-as-dns/"+cs.Pre, "bytes that are not a DNS query were consumed by the DNS fast path", y.lsExtra(nil))
		} else if !x.judgeCut() {
			m.Inconclusive("lock-step case %d: dae side never dialled upstream and no termination observed (compose err %q)", cs.ID, x.composeErr)
		}
		x.teardown(nil)
		return
	}
	defer srvConn.Close()
	x.srv = &c05Peer{name: "upstream", conn: srvConn, out: sOut, chk: &c05Checker{s: cOut}, rdone: make(chan struct{})}
	go x.srv.reader(x)
	select {
	case <-y.wired:
	case <-x.relayDone:
	}

	// the script
	var cOff, sOff int64
	delivered := map[string]int{}
	completed, failed := true, false
	for k := range ls.Msgs {
		msg := &ls.Msgs[k]
		p, q, dir, off, class := x.cli, x.srv, "l2r", &cOff, y.classL2R
		if msg.From == "upstream" {
			p, q, dir, off, class = x.srv, x.cli, "r2l", &sOff, y.classR2L
		}
		target := *off + int64(msg.Size)
		sentOK := true
		if !(k == 0 && sentFirst) {
			if msg.Idle > 0 {
				time.Sleep(time.Duration(msg.Idle) * time.Millisecond)
			}
			sentOK = y.send(p, q, msg, *off, sr)
		}
		x.ev("%s: message %d written (%d bytes, %s, stream offset %d..%d)", p.name, k, msg.Size, msg.Seg, *off, target)
		*off = target
		arrived := sentOK && x.wait(func() bool {
			if w, _ := x.cut(); w != "" {
				return true
			}
			return q.recvd.Load() >= target
		}, y.watchdog) && q.recvd.Load() >= target
		if w, _ := x.cut(); w != "" && !control {
			x.judgeCut()
			completed, failed = false, true
			break
		}
		if arrived {
			if control {
				continue
			}
			m.Count("lockstep_msgs_delivered", 1)
			m.Count("lockstep_seg_"+msg.Seg, 1)
			if msg.Class == "boundary" {
				m.Count("lockstep_boundary_size_msgs", 1)
			}
			if msg.Lone && delivered[dir] > 0 {
				m.Count("lockstep_lone_byte_after_burst_"+dir+"_"+class, 1)
			}
			delivered[dir]++
			continue
		}
		// the receiver is short of message k; the sender will not send anything else
		completed = false
		x.ev("harness: message %d not delivered after %.0f s (%s got %d of %d); inspecting", k, y.watchdog.Seconds(), q.name, q.recvd.Load(), target)
		pr := y.prove(dir, k, target)
		if control {
			if pr.Holds {
				m.Count("lockstep_proof_control_ok_"+pr.ConsumedBy+"_"+pr.WrittenBy, 1)
			} else {
				m.Inconclusive("lock-step positive control %s: a relay withholding a lone byte was not recognised: %s", ls.Control, strings.Join(pr.Unmet, "; "))
			}
			break
		}
		failed = true
		if q.recvd.Load() >= target {
			// delivered after all, without any further input: the statement sets no bound; recorded, not judged
			m.Count("lockstep_message_delivered_only_after_watchdog_unjudged", 1)
			break
		}
		if pr.Holds && pr.Lagged {
			pr.Unmet = append(pr.Unmet, "process kept being scheduled while the kernel counters were judged")
		} else if pr.Holds {
			// what releases the bytes? (observation for the witness only)
			p.closeWrite(x)
			rel := x.wait(func() bool { return q.recvd.Load() >= target }, 3*time.Second)
			pr.Released = &rel
			held := "n"
			if pr.Held == 1 {
				held = "1"
			}
			c05LSProven.Add(1)
			x.violate(fmt.Sprintf("lockstep-withheld/%s/%s/%s-to-%s/held-%s", dir, x.comp.outcome, map[bool]string{true: "monitor-conn", false: "tcp"}[pr.Second.Flow.SrcTracked],
				map[bool]string{true: "monitor-conn", false: "tcp"}[pr.Second.Flow.DstTracked], held),
				fmt.Sprintf("%s: message %d of a lock-step exchange (%d bytes, written as %q) does not get through: dae took all %d bytes the %s has written from the source (%s) but handed only %d to the destination (%s), "+
					"no write is in progress%s; the %s sends nothing until the %s reacts to these bytes, so %d byte(s) stay inside dae (state unchanged after a further %.1f s; released by the sender's end of stream: %v)",
					dir, k, msg.Size, msg.Seg, pr.Second.Consumed, p.name, pr.ConsumedBy, pr.Second.Written, pr.WrittenBy,
					map[bool]string{true: " and dae is parked in a new Read on the source", false: ""}[pr.Second.Flow.SrcTracked], p.name, q.name, pr.Held, y.resnap.Seconds(), rel),
				y.lsExtra(map[string]any{"proof": pr, "copy_class": class}))
			break
		}
		dump := filepath.Join(vk.BuildDir(), "replay", "C05", fmt.Sprintf("lockstep-stall-case%d.json", cs.ID))
		_ = os.MkdirAll(filepath.Dir(dump), 0o755)
		if b, err := json.MarshalIndent(x.witness(y.lsExtra(map[string]any{"proof": pr, "goroutines": c05Stacks()})), "", " "); err == nil {
			_ = os.WriteFile(dump, b, 0o644)
		}
		m.Count("lockstep_stall_unproven", 1)
		m.Inconclusive("lock-step case %d (%s, %s %s): message %d (%d bytes) not delivered within %.0f s and withholding could not be shown (%s); state in %s",
			cs.ID, x.comp.outcome, dir, class, k, msg.Size, y.watchdog.Seconds(), strings.Join(pr.Unmet, "; "), dump)
		break
	}
	if control {
		if completed {
			m.Inconclusive("lock-step positive control %s: the withholding relay delivered every message", ls.Control)
		}
		x.teardown(nil)
		return
	}

	// end of the exchange: both sides shut down, one after the other
	if completed {
		a, b, dirA := x.cli, x.srv, "l2r"
		if ls.Closer == "upstream" {
			a, b, dirA = x.srv, x.cli, "r2l"
		}
		dirB := map[string]string{"l2r": "r2l", "r2l": "l2r"}[dirA]
		a.closeWrite(x)
		x.wait(func() bool { return b.eofAt.Load() != 0 || b.errAt.Load() != 0 }, 5*time.Second)
		if !x.judgeCut() {
			if b.eofAt.Load() != 0 {
				m.Count("lockstep_eof_after_script", 1)
				if b.recvd.Load() != a.out.total {
					x.violate(fmt.Sprintf("stream-mismatch/%s/%s/short/at-eof", dirA, x.comp.outcome),
						fmt.Sprintf("EOF delivered after %d of %d bytes", b.recvd.Load(), a.out.total), y.lsExtra(nil))
				}
			} else {
				m.Count("lockstep_eof_missing_unjudged", 1) // e.g. a monitor conn under one of dae's client-side wrappers hides CloseWrite: not a production stack
			}
			b.closeWrite(x)
			if x.wait(func() bool { return a.eofAt.Load() != 0 || a.errAt.Load() != 0 }, 4*time.Second) && a.eofAt.Load() != 0 {
				if a.recvd.Load() != b.out.total {
					x.violate(fmt.Sprintf("stream-mismatch/%s/%s/short/at-eof", dirB, x.comp.outcome),
						fmt.Sprintf("EOF delivered after %d of %d bytes", a.recvd.Load(), b.out.total), y.lsExtra(nil))
				}
			}
		}
	}
	x.teardown(nil)
	x.judgeStreams()
	if !completed || failed {
		return
	}
	m.Count("lockstep_conns_completed", 1)
	m.Count("lockstep_outcome_"+x.comp.outcome, 1)
	m.Count("lockstep_class_l2r_"+y.classL2R, 1)
	m.Count("lockstep_class_r2l_"+y.classR2L, 1)
	switch {
	case ls.LConn == "tracked" && ls.RConn == "tracked":
		m.Count("lockstep_tracked_both_ends", 1)
	case ls.RConn == "tracked":
		m.Count("lockstep_tracked_upstream_only", 1)
	case ls.LConn == "tracked":
		m.Count("lockstep_tracked_client_side_only", 1)
	default:
		m.Count("lockstep_plain_tcp_both_ends", 1)
	}
	if cs.Arrival == "never" {
		m.Count("lockstep_server_first", 1)
	}
	pl, prr := x.pathL2R.String(), x.pathR2L.String()
	for _, p := range strings.Split(pl+"+"+prr, "+") {
		if p != "" {
			m.Count("lockstep_path_"+p, 1)
		}
	}
	m.Distinct(strings.Join([]string{"lockstep", x.comp.outcome, y.classL2R, y.classR2L, ls.LConn, ls.RConn, cs.Arrival, cs.Pre}, "|"))
	if m.WantSample() {
		m.Sample(map[string]any{"case": cs, "lock_step": ls, "composition": x.comp.outcome, "copy_class_l2r": y.classL2R, "copy_class_r2l": y.classR2L, "paths_l2r": pl, "paths_r2l": prr})
	}
}

// number of lock-step connections on which withholding was shown; once the verdict is beyond doubt the
// remaining connections are skipped (each stalled one costs its whole watchdog period)
var c05LSProven atomic.Int32

// c05LockStepBatch runs the positive controls and the generated lock-step connections.
func c05LockStepBatch(m *vk.Monitor, seed uint64) {
	r := vk.NewRand(0xC05105)
	n := vk.Scale(160, 3000)
	par := 12
	type job struct {
		cs *c05Case
		ls *c05LSCase
	}
	var jobs []job
	// positive controls: the monitor's own withholding relay, once with monitor conns at both ends
	// (proof by the conns' counters) and once on raw sockets (proof by the kernel's queue counters)
	for i, kind := range []string{"monitor-conns", "raw-sockets"} {
		cs := &c05Case{ID: 30000 + i, CaseSeed: r.Uint64(), Stack: "plain", Pre: "none", DstPort: 8080, WindowMs: 60, Arrival: "before", Close: "positive-control", Gap: "none"}
		ls := &c05LSCase{LConn: "tcp", RConn: "tcp", Control: kind, Closer: "client"}
		if kind == "monitor-conns" {
			ls.LConn, ls.RConn, cs.RConn = "tracked", "tracked", "tracked"
		}
		ls.Msgs = []c05LSMsg{{From: "client", Size: 100, Seg: "one"}, {From: "upstream", Size: 50, Seg: "one"}, {From: "client", Size: 2, Seg: "one"}}
		if i == 0 {
			ls.Msgs = append(ls.Msgs, c05LSMsg{From: "upstream", Size: 1, Seg: "one", Lone: true})
		} else {
			ls.Msgs = append(ls.Msgs, c05LSMsg{From: "upstream", Size: 3, Seg: "one"}, c05LSMsg{From: "client", Size: 1, Seg: "one", Lone: true})
		}
		jobs = append(jobs, job{cs, ls})
	}
	for i := 0; i < n; i++ {
		cs, ls := c05GenLockStep(r, 20000+i)
		jobs = append(jobs, job{cs, ls})
	}
	cps := map[int]*ControlPlane{}
	for _, w := range []int{60, 150} {
		cps[w] = &ControlPlane{sniffingTimeout: time.Duration(w) * time.Millisecond}
	}
	sem := make(chan struct{}, par)
	var wg sync.WaitGroup
	for _, j := range jobs {
		sem <- struct{}{}
		wg.Add(1)
		go func() {
			defer wg.Done()
			defer func() { <-sem }()
			x := &c05Run{cs: j.cs, m: m, seed: seed, cp: cps[j.cs.WindowMs], r: rand.New(rand.NewPCG(j.cs.CaseSeed, 0))}
			y := &c05LSRun{c05Run: x, ls: j.ls, watchdog: 20 * time.Second, resnap: time.Second}
			if j.ls.Control != "" {
				y.watchdog, y.resnap = 1500*time.Millisecond, 400*time.Millisecond
			}
			done := make(chan struct{})
			go func() {
				defer close(done)
				defer func() {
					if p := recover(); p != nil {
						m.Violation("harness-panic", fmt.Sprintf("panic while running lock-step case: %v", p), map[string]any{"case": j.cs, "lock_step": j.ls})
					}
				}()
				if j.ls.Control == "" && c05LSProven.Load() >= 6 {
					m.Count("lockstep_conns_skipped_after_6_proven_violations", 1)
					return
				}
				if j.ls.Control == "" {
					m.Eval(1)
					m.Count("lockstep_conns", 1)
				}
				y.run()
			}()
			select {
			case <-done:
			case <-time.After(120 * time.Second):
				x.abort.Store(true)
				m.Inconclusive("lock-step case %d watchdog (120 s)", j.cs.ID)
			}
		}()
	}
	wg.Wait()
}
