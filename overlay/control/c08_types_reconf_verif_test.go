package control

// C08 monitor, part 2: two further history kinds for TestVerifC08 (driver and
// oracle live in c08_dnscache_verif_test.go; these histories only generate
// workloads and feed the same token/bracket oracle).
//
//  - "types": the question-type alphabet covers the whole uint16 space by
//    classes. Every history asks, inserts and re-asks EVERY type 1..64 plus all
//    common types, the values around every conceivable table boundary, values
//    that alias small types modulo 2^8 / 2^15 and random others, all for ONE
//    name and ONE upstream scope, while all earlier answers are still cached
//    (TTL >= 60 s, histories last < 1 s: every probe is "fresh-far", no timing
//    involved). A second family uses names that end in digit labels together
//    with types whose decimal spelling could run into them. A third part does
//    the same through HandleWithResponseWriter_ with the stub upstream.
//    Oracle: the existing one - the token of a served answer names the insert
//    it came from; name, type and scope of that insert must equal the question's.
//
//  - "reconf": runtime updates (TryUpdateRuntime / ReuseForReload /
//    UpdateRuntime) interleaved with the timing and size histories, each knob
//    changed, accepted ones and refused ones (the return value of the update
//    decides which it was; the only validation the option struct has is
//    IpVersionPrefer in {0,4,6}). The reference model keeps the configuration
//    IN FORCE = the last accepted one; all verdicts of later lookups / janitor
//    runs are drawn against it with the usual brackets. After an accepted
//    update only what the statement says is judged (nothing served outside the
//    window now configured, LRU order / size limit now configured); entries
//    that existed across the change are exempt from "must be served" verdicts.

import (
	"fmt"
	"strings"
	"time"

	dnsmessage "github.com/miekg/dns"
)

// ---- question-type alphabet -----------------------------------------------------

var c08CommonTypes = []uint16{
	dnsmessage.TypeA, dnsmessage.TypeNS, dnsmessage.TypeCNAME, dnsmessage.TypeSOA, dnsmessage.TypePTR, dnsmessage.TypeHINFO,
	dnsmessage.TypeMX, dnsmessage.TypeTXT, dnsmessage.TypeRP, dnsmessage.TypeAAAA, dnsmessage.TypeLOC, dnsmessage.TypeSRV,
	dnsmessage.TypeNAPTR, dnsmessage.TypeDNAME, dnsmessage.TypeOPT, dnsmessage.TypeDS, dnsmessage.TypeSSHFP, dnsmessage.TypeRRSIG,
	dnsmessage.TypeNSEC, dnsmessage.TypeDNSKEY, dnsmessage.TypeNSEC3, dnsmessage.TypeTLSA, dnsmessage.TypeSVCB, dnsmessage.TypeHTTPS,
	dnsmessage.TypeSPF, dnsmessage.TypeANY, dnsmessage.TypeURI, dnsmessage.TypeCAA,
}

var c08BoundaryTypes = []uint16{0, 33, 34, 35, 63, 64, 65, 127, 128, 255, 256, 257, 32767, 32768, 65279, 65280, 65534, 65535}

// small types shifted by 2^8, 2^9, 2^10, 2^15: equal to a small type after a
// narrowing conversion or a masked table index
var c08AliasTypes = []uint16{256 + 6, 256 + 13, 256 + 28, 512 + 1, 512 + 16, 1024 + 28, 0x8000 + 1, 0x8000 + 6, 0xff00 + 16}

func c08TypeClass(t uint16) string {
	switch {
	case t == 0:
		return "0"
	case t <= 64:
		return "1-64"
	case t < 256:
		return "65-255"
	case t < 32768:
		return "256-32767"
	case t < 65280:
		return "32768-65279"
	}
	return "65280-65535"
}

// typeAlphabet: all of 1..64, the common, boundary and alias values and random
// others, without repetition, in random order.
func (h *c08Hist) typeAlphabet(nRandom int) []uint16 {
	seen := map[uint16]bool{}
	var out []uint16
	add := func(t uint16) {
		if !seen[t] {
			seen[t] = true
			out = append(out, t)
		}
	}
	for t := uint16(1); t <= 64; t++ {
		add(t)
	}
	for _, l := range [][]uint16{c08CommonTypes, c08BoundaryTypes, c08AliasTypes} {
		for _, t := range l {
			add(t)
		}
	}
	for i := 0; i < nRandom; i++ {
		add(uint16(h.r.IntN(65536)))
	}
	h.r.Shuffle(len(out), func(i, j int) { out[i], out[j] = out[j], out[i] })
	return out
}

func (h *c08Hist) pickScope() c08Scope {
	if h.r.IntN(4) == 0 {
		return c08Up(c08UpPool[h.r.IntN(len(c08UpPool))], 53)
	}
	return c08AsIs(c08AsIsPool[h.r.IntN(len(c08AsIsPool))])
}

// ask sends one client query through HandleWithResponseWriter_ and judges it.
func (h *c08Hist) ask(cc *c08Ctrl, lname string, q uint16, sc c08Scope, mixed, exclusive bool) {
	req := sc.req(h.r)
	qn := c08Case(h.r, lname, mixed)
	ks := h.keyString(cc, qn, q, sc, req)
	rep := h.client(cc, qn, q, sc, req)
	if rep.pan == nil && (rep.err != nil || rep.msg == nil) {
		h.env.m.Count(fmt.Sprintf("client_error_reply_qtype_%d", q), 1) // not cached, not served: evidence only
		h.tr("client query type %d: error %v", q, rep.err)
	}
	h.judgeClient(cc, c08Key{LName: lname, Qtype: q, Scope: sc.label}, ks, rep, exclusive)
}

// ---- history kind 6: question types -------------------------------------------------

func (h *c08Hist) runTypes(ord int) {
	defer h.closeAll()
	defer h.guard("types-history")
	r := h.r
	m := h.env.m
	h.name = fmt.Sprintf("q%d.c08.test.", h.id)
	sc := h.pickScope()
	var sc2 c08Scope
	for {
		sc2 = h.pickScope()
		if sc2.label != sc.label {
			break
		}
	}
	cc := h.newCtrl("insert")
	if cc == nil {
		return
	}
	ttl := uint32(60 + r.IntN(600)) // every probe of this history is far before any deadline
	mixed := r.IntN(2) == 0

	// (1) one name, one scope, every type: ask (never obtained), obtain, ask again
	types := h.typeAlphabet(24)
	var inserted []uint16
	var done [65]bool
	for i, t := range types {
		h.lookup(cc, h.name, t, sc, 1, mixed)
		if len(inserted) > 0 {
			m.Count("types_other_type_asked_while_earlier_answers_cached", 1)
		}
		if h.insert(cc, c08Case(r, h.name, mixed && r.IntN(3) == 0), t, sc, ttl) == nil {
			m.Count("types_insert_failed", 1)
			continue
		}
		h.lookup(cc, h.name, t, sc, 1, mixed)
		if i%6 == 5 && len(inserted) > 0 { // an earlier type keeps its own answer
			h.lookup(cc, h.name, inserted[r.IntN(len(inserted))], sc, 1, mixed)
		}
		inserted = append(inserted, t)
		m.Count("types_class_"+c08TypeClass(t), 1)
	}
	for _, t := range inserted { // all answers are cached now: each type gets its own
		h.lookup(cc, h.name, t, sc, 1, mixed)
		if t >= 1 && t <= 64 {
			done[t] = true
		}
		m.Count("types_final_pass_lookups", 1)
	}
	for i := 0; i < 8; i++ { // nothing was obtained from the other upstream
		h.lookup(cc, h.name, types[r.IntN(len(types))], sc2, 1, mixed)
	}
	full := true
	for t := 1; t <= 64; t++ {
		full = full && done[t]
	}
	if full {
		m.Count("types_sweep_1_64_complete", 1)
	}
	m.Distinct(fmt.Sprintf("%s|types|one-name-all-types|named-upstream=%v", h.cfg.cell(), sc.up != nil))

	// (2) names ending in digit labels x types whose decimal spelling continues them
	base := fmt.Sprintf("d%d.c08.test", h.id)
	names := []string{base + ".", base + ".1.", base + ".16.", base + "1.", base + "16.", base + ".1.6.", base + ".6.", base + ".61.", "1." + base + "."}
	dtypes := []uint16{1, 6, 16, 61, 116, 161, 11, 66, 28, 2, 8, 12, 128, 1161, 6116}
	type nt struct {
		n string
		t uint16
	}
	var combos []nt
	for _, n := range names {
		for _, t := range dtypes {
			combos = append(combos, nt{n, t})
		}
	}
	r.Shuffle(len(combos), func(i, j int) { combos[i], combos[j] = combos[j], combos[i] })
	var got []nt
	for _, c := range combos {
		h.lookup(cc, c.n, c.t, sc, 1, false)
		if h.insert(cc, c.n, c.t, sc, ttl) == nil {
			m.Count("types_insert_failed", 1)
			continue
		}
		got = append(got, c)
	}
	for _, c := range got {
		h.lookup(cc, c.n, c.t, sc, 1, false)
		m.Count("types_digit_tail_name_type_combos_checked", 1)
	}
	m.Distinct(h.cfg.cell() + "|types|digit-tail-names")
	if len(h.trace) > 40 {
		h.trace = append(h.trace[:20:20], h.trace[len(h.trace)-20:]...)
	}

	// (3) the same question through the client path: first type resolves upstream and is
	// cached, every other type of that name must resolve upstream on its own
	// (the routing of this monitor sends every client query "as is": as-is scopes only)
	cname := fmt.Sprintf("c%d.c08.test.", h.id)
	sc = c08AsIs(c08AsIsPool[r.IntN(len(c08AsIsPool))])
	sc2 = c08AsIs("203.0.113.7:53")
	h.plan = &c08Plan{line: h.id}
	h.plan.ttl.Store(ttl)
	c08Plans.Store(cname, h.plan)
	defer c08Plans.Delete(cname)
	a := uint16(1 + (2*ord)%64) // systematic: consecutive histories walk through 1..64 pairwise
	b := uint16(1 + (2*ord+1)%64)
	ctypes := []uint16{a, b}
	for len(ctypes) < 10 {
		t := types[r.IntN(len(types))]
		dup := false
		for _, u := range ctypes {
			dup = dup || u == t
		}
		if !dup {
			ctypes = append(ctypes, t)
		}
	}
	for i, t := range ctypes {
		h.ask(cc, cname, t, sc, mixed, true)
		if i > 0 {
			m.Count("types_client_other_type_asked_while_first_cached", 1)
		}
	}
	for _, i := range r.Perm(len(ctypes)) {
		h.ask(cc, cname, ctypes[i], sc, mixed, true)
	}
	h.ask(cc, cname, ctypes[0], sc2, mixed, true)
	m.Distinct(h.cfg.cell() + "|types|client-path")
	m.Count("types_histories_completed", 1)
	if m.WantSample() {
		m.Sample(map[string]any{"kind": h.kind, "config": h.cfg, "name": h.name, "types_in_order_head": types[:12], "n_types": len(types), "client_types": ctypes})
	}
}

// ---- history kind 7: runtime updates, accepted and refused ---------------------------

type c08Upd struct {
	Cand  c08Cfg         `json:"candidate"`
	Fixed map[string]int `json:"candidate_fixed_domain_ttl,omitempty"`
	Ipv   int            `json:"ipversion_prefer"`
	Via   string         `json:"via"`
	Knob  string         `json:"knob_changed"`
}

var c08BadIpv = []int{5, 1, -1, 3, 7, 46, 64, -4, 255, 1 << 20, 2, 8}
var c08GoodIpv = []int{0, 4, 6}

func c08Other(r interface{ IntN(int) int }, pool []int, cur int) int {
	for {
		if v := pool[r.IntN(len(pool))]; v != cur {
			return v
		}
	}
}

// genUpdate derives a candidate from the configuration in force. ord walks
// systematically through (knob changed) x (valid / invalid).
func (h *c08Hist) genUpdate(ord int, host string, maxPool []int) c08Upd {
	r := h.r
	cur := h.cfg
	u := c08Upd{Cand: c08Cfg{Opt: cur.Opt, Stale: cur.Stale, Max: cur.Max, Fixed: cur.Fixed}}
	valid := []bool{false, false, true, false, true}[(ord/6)%5]
	knob := ord % 6
	if valid && knob == 5 {
		knob = 3 // an accepted update keeps fixed_domain_ttl (what a changed map means for entries already cached is not stated)
	}
	stalePool := []int{0, 1, 2, 3, 3600}
	switch knob {
	case 0:
		u.Knob = "optimistic_cache"
		u.Cand.Opt = !cur.Opt
	case 1:
		u.Knob = "optimistic_cache_ttl"
		u.Cand.Stale = c08Other(r, stalePool, cur.Stale)
	case 2:
		u.Knob = "max_cache_size"
		u.Cand.Max = c08Other(r, maxPool, cur.Max)
	case 3:
		u.Knob = "all"
		u.Cand.Opt = !cur.Opt
		u.Cand.Stale = c08Other(r, stalePool, cur.Stale)
		u.Cand.Max = c08Other(r, maxPool, cur.Max)
	case 4:
		u.Knob = "optimistic_cache+ttl"
		u.Cand.Opt = !cur.Opt
		u.Cand.Stale = 3600
	case 5:
		u.Knob = "fixed_domain_ttl"
		u.Fixed = map[string]int{host: []int{0, 30, 3600}[r.IntN(3)]}
		if r.IntN(2) == 0 {
			u.Cand.Opt = !cur.Opt
		}
	}
	if !valid && r.IntN(4) == 0 { // a refused candidate may differ in everything
		u.Cand.Max = c08Other(r, maxPool, cur.Max)
	}
	if valid {
		u.Ipv = c08GoodIpv[r.IntN(len(c08GoodIpv))]
	} else {
		u.Ipv = c08BadIpv[r.IntN(len(c08BadIpv))]
	}
	u.Via = []string{"try", "try", "reuse", "reuse", "update"}[r.IntN(5)]
	return u
}

// applyUpdate hands the candidate to the running controller the way a reload
// does. Whether it was accepted is what the call itself reports.
func (h *c08Hist) applyUpdate(cc *c08Ctrl, u c08Upd) (now *c08Ctrl, accepted bool) {
	m := h.env.m
	fixed := h.fixed
	if u.Fixed != nil {
		fixed = u.Fixed
	}
	opt := h.env.option(u.Cand, fixed)
	opt.IpVersionPrefer = u.Ipv
	var err error
	var nc *DnsController
	func() {
		defer func() {
			if p := recover(); p != nil {
				err = fmt.Errorf("panic: %v", p) // UpdateRuntime documents panic-on-invalid-input
			}
		}()
		switch u.Via {
		case "try":
			err = cc.c.TryUpdateRuntime(opt, h.env.routing)
		case "reuse":
			nc, err = cc.c.ReuseForReload(opt, h.env.routing)
		default:
			cc.c.UpdateRuntime(opt, h.env.routing)
		}
	}()
	if err != nil {
		h.tr("update via=%s REFUSED (%v): candidate %s ipversion_prefer=%d fixed=%v; in force stays %s", u.Via, err, u.Cand.cell(), u.Ipv, u.Fixed, h.cfg.cell())
		h.sigCtx = "/after-refused-update"
		m.Count("reconf_updates_refused", 1)
		m.Count("reconf_refused_via_"+u.Via, 1)
		m.Count("reconf_refused_knob_"+u.Knob, 1)
		m.Distinct(h.cfg.cell() + "|reconf|refused|" + u.Knob + "|" + u.Via)
		return cc, false
	}
	h.tr("update via=%s ACCEPTED: %s -> %s ipversion_prefer=%d", u.Via, h.cfg.cell(), u.Cand.cell(), u.Ipv)
	h.sigCtx = "/after-accepted-update"
	m.Count("reconf_updates_accepted", 1)
	m.Count("reconf_accepted_via_"+u.Via, 1)
	m.Count("reconf_accepted_knob_"+u.Knob, 1)
	m.Distinct(h.cfg.cell() + "|reconf|accepted|" + u.Knob + "|" + u.Via)
	h.cfg = c08Cfg{Opt: u.Cand.Opt, Stale: u.Cand.Stale, Max: u.Cand.Max, Fixed: h.cfg.Fixed}
	for _, s := range cc.slots {
		// The entry lived under two configurations; the statement does not say that it must
		// survive the change. From here on only "must NOT be served" is judged for it.
		s.lru = true
	}
	if nc != nil { // the fresh facade of the next generation: same store, same entries
		ncc := &c08Ctrl{id: len(h.ctrls), c: nc, by: cc.by, slots: cc.slots}
		h.ctrls = append(h.ctrls, ncc)
		return ncc, true
	}
	return cc, true
}

// mustServe says what a configuration demands for a bracket: +1 serve, -1 do
// not serve, 0 no verdict (bracket straddles a boundary).
func (h *c08Hist) mustServe(cfg c08Cfg, g *c08Gen, t0, t1 time.Time) int {
	save := h.cfg
	h.cfg = cfg
	rel, _ := h.pos(g, t0, t1)
	h.cfg = save
	switch rel {
	case -1, 1:
		return 1
	case 3:
		return -1
	}
	return 0
}

func (h *c08Hist) runReconf(ord int) {
	defer h.closeAll()
	defer h.guard("reconf-history")
	r := h.r
	m := h.env.m
	h.name = fmt.Sprintf("u%d-%d.c08.test.", h.id, 10+r.IntN(90))
	host := strings.TrimSuffix(h.name, ".")
	sc := h.pickScope()
	q := c08Qtypes[r.IntN(len(c08Qtypes))]
	k := c08Key{LName: h.name, Qtype: q, Scope: sc.label}
	mixed := r.IntN(2) == 0
	cc := h.newCtrl("insert")
	if cc == nil {
		return
	}
	maxPool := []int{0, 1, 3, 8, 4096} // one key only: no size limit ever bites in this history
	nUpd := 1 + r.IntN(2)
	updAt := []int{r.IntN(6), 6 + r.IntN(8)}
	var lastRefused *c08Upd
	var prevCfg *c08Cfg
	step, applied := 0, 0
	for gen := 0; gen < 2; gen++ {
		ttl := uint32(1 + r.IntN(2))
		if gen == 1 {
			ttl = 1
			// whatever update is still due is applied before the second answer is obtained,
			// so that every update is followed by a full probe series of an entry inserted AFTER it
			for applied < nUpd {
				u := h.genUpdate(ord+applied*7, host, maxPool)
				applied++
				var ok bool
				before := h.cfg
				if cc, ok = h.applyUpdate(cc, u); ok {
					prevCfg, lastRefused = &before, nil
				} else {
					lastRefused = &u
				}
			}
		}
		g := h.insert(cc, c08Case(r, h.name, mixed && r.IntN(3) == 0), q, sc, ttl)
		if g == nil {
			return
		}
		h.lookup(cc, h.name, q, sc, 1, mixed)
		if !g.known || time.Until(g.D) > 10*time.Second {
			// the stored Deadline is nowhere near insert + TTL (already reported by the insert
			// check): probing relative to it would mean sleeping until then
			m.Count("reconf_history_abandoned_deadline_off", 1)
			return
		}
	replan:
		for _, off := range h.offsets(g) {
			at := g.D.Add(off)
			if time.Until(at) < -time.Millisecond {
				m.Count("probe_skipped_already_past", 1)
				continue
			}
			c08Sleep(at)
			step++
			if applied < nUpd && step > updAt[applied] {
				u := h.genUpdate(ord+applied*7, host, maxPool)
				applied++
				before := h.cfg
				ncc, ok := h.applyUpdate(cc, u)
				cc = ncc
				if ok {
					prevCfg, lastRefused = &before, nil
					goto replan // another window is in force now: plan the remaining probes of this entry against it
				}
				lastRefused = &u
			}
			if r.IntN(5) == 0 {
				h.janitor(cc)
			}
			n := 1
			if r.IntN(10) < 2 {
				n = 2 + r.IntN(5)
			}
			t0 := time.Now()
			h.lookup(cc, h.name, q, sc, n, mixed) // a needRefresh handed out stays in flight: nobody refreshes
			t1 := time.Now()
			if s := cc.slots[k]; s != nil && s.gen == g && g.known {
				want := h.mustServe(h.cfg, g, t0, t1)
				if lastRefused != nil {
					m.Count("reconf_probes_after_refused_update", 1)
					if o := h.mustServe(lastRefused.Cand, g, t0, t1); want != 0 && o != 0 && o != want {
						m.Count("reconf_probes_where_refused_candidate_would_differ", 1)
						if want < 0 {
							m.Count("reconf_probes_refused_candidate_would_serve_in_force_must_not", 1)
						}
					}
				} else if prevCfg != nil {
					m.Count("reconf_probes_after_accepted_update", 1)
					if o := h.mustServe(*prevCfg, g, t0, t1); want != 0 && o != 0 && o != want {
						m.Count("reconf_probes_where_previous_config_would_differ", 1)
					}
				}
			}
			if r.IntN(5) == 0 {
				h.janitor(cc)
			}
		}
	}
	m.Count("reconf_timing_histories_completed", 1)
	if m.WantSample() && len(h.trace) > 8 {
		m.Sample(map[string]any{"kind": h.kind, "config_at_start": h.cfg, "name": h.name, "trace_head": h.trace[:8]})
	}
}

// runReconfSize: the size limit in force across runtime updates. Fresh entries
// only (TTL 1 h), so time plays no role.
func (h *c08Hist) runReconfSize(ord int) {
	defer h.closeAll()
	defer h.guard("reconf-size-history")
	r := h.r
	m := h.env.m
	h.name = fmt.Sprintf("z%d.c08.test.", h.id)
	host := strings.TrimSuffix(h.name, ".")
	sc := c08AsIs(c08AsIsPool[r.IntN(len(c08AsIsPool))])
	cc := h.newCtrl("insert")
	if cc == nil {
		return
	}
	const ttl = 3600 // far beyond any starvation of the history
	var ents []*c08LruEnt
	touch := func(e *c08LruEnt) {
		t0 := time.Now()
		h.lookup(cc, e.name, dnsmessage.TypeA, sc, 1, false)
		e.a0, e.a1, e.used = t0, time.Now(), true
		time.Sleep(time.Duration(2500+r.IntN(2000)) * time.Microsecond)
	}
	present := func(e *c08LruEnt) bool { _, ok := cc.c.dnsCache.Load(e.ks); return ok }
	add := func(n int) {
		for i := 0; i < n; i++ {
			e := &c08LruEnt{name: fmt.Sprintf("e%d.z%d.c08.test.", len(ents), h.id)}
			e.k = c08Key{LName: e.name, Qtype: dnsmessage.TypeA, Scope: sc.label}
			e.ks = h.keyString(cc, e.name, dnsmessage.TypeA, sc, sc.req(r))
			if h.insert(cc, e.name, dnsmessage.TypeA, sc, ttl) == nil {
				continue
			}
			cc.slots[e.k].lru = h.cfg.Max > 0
			ents = append(ents, e)
			touch(e)
		}
	}
	round := func(tag string) {
		var before []*c08LruEnt
		for _, e := range ents {
			if present(e) {
				before = append(before, e)
			}
		}
		for i := 0; i < len(before); i++ {
			touch(before[r.IntN(len(before))])
		}
		h.janitor(cc)
		m.Eval(1)
		max := h.cfg.Max // the limit IN FORCE
		if max == 0 {
			// no limit in force: nothing may go for size; every answer is fresh and must still be served
			// (entries that lived across an accepted update are exempt, see applyUpdate)
			for _, e := range before {
				touch(e) // (a use like any other: keeps the last-use bracket of the entry current)
			}
			m.Count("reconf_size_unlimited_rounds", 1)
			h.tr("%s: unlimited in force, %d entries re-asked", tag, len(before))
			return
		}
		var surv, evic []*c08LruEnt
		for _, e := range before {
			if present(e) {
				surv = append(surv, e)
			} else {
				evic = append(evic, e)
				cc.slots[e.k].gone = true
			}
		}
		h.tr("%s: before=%d survivors=%d evicted=%d max_in_force=%d", tag, len(before), len(surv), len(evic), max)
		want := len(before)
		if want > max {
			want = max
		}
		switch {
		case len(surv) < want:
			h.violate("evicted-within-size-limit", fmt.Sprintf("janitor left %d live entries although max_cache_size=%d is in force and %d were present", len(surv), max, len(before)), nil)
		case len(surv) > max:
			h.violate("size-limit-in-force-not-applied", fmt.Sprintf("max_cache_size=%d is in force, %d fresh entries were present, and a janitor run on the otherwise idle controller evicted %d of them (%d left)", max, len(before), len(evic), len(surv)), nil)
		default:
			m.Count("reconf_size_limit_in_force_held", 1)
			m.Distinct(fmt.Sprintf("%s|reconf-size|n=%d|evict=%d%s", h.cfg.cell(), len(before), len(evic), h.sigCtx))
		}
		for _, s := range surv {
			for _, v := range evic {
				if !s.used || !v.used {
					continue
				}
				m.Count("reconf_size_lru_pairs_checked", 1)
				if s.a1.Add(time.Millisecond).Before(v.a0) {
					h.violate("lru-order", "a surviving entry was last used strictly before an evicted one",
						map[string]any{"survivor": s.name, "evicted": v.name,
							"survivor_last_use_ms": ms(s.a1.Sub(h.start)), "evicted_last_use_ms": ms(v.a0.Sub(h.start))})
					return
				}
			}
		}
	}
	maxPool := []int{0, 1, 2, 4, 100}
	add(5)
	for i := 0; i < 2; i++ {
		u := h.genUpdate(ord+i*7, host, maxPool)
		if u.Knob != "all" && u.Knob != "max_cache_size" { // this history is about the size knob
			u.Cand.Max = c08Other(r, maxPool, h.cfg.Max)
			u.Knob += "+max_cache_size"
		}
		ncc, ok := h.applyUpdate(cc, u)
		cc = ncc
		if ok {
			for _, s := range cc.slots {
				s.lru = true
			}
			m.Count("reconf_size_rounds_after_accepted_update", 1)
		} else {
			m.Count("reconf_size_rounds_after_refused_update", 1)
			n := 0
			for _, e := range ents {
				if present(e) {
					n++
				}
			}
			eff := func(max int) int {
				if max == 0 || max > n {
					return n
				}
				return max
			}
			if eff(u.Cand.Max) != eff(h.cfg.Max) {
				m.Count("reconf_size_rounds_where_refused_candidate_would_differ", 1)
			}
		}
		round(fmt.Sprintf("round%d", i+1))
		if i == 0 {
			add(1 + r.IntN(2))
		}
	}
	m.Count("reconf_size_histories_completed", 1)
}
