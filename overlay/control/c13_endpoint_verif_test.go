package control

// C13 monitor, part (b): UdpEndpointPool, and the endpoint side of part (c)
// (kernel flow tuples and drain tickets owned by endpoints, incl. adoptGeneration).
//
// Real code driven: NewUdpEndpointPool, GetOrCreate, UdpEndpoint.WriteTo/start/
// retire/Close, InvalidateDialerNetworkType, Reset, Close, the janitor,
// TrackUdpConnStateTuplePair, adoptGeneration, controlPlaneCore owner methods,
// controlPlaneDrainTracker. Faked: the network (netproxy dialer / packet conn).
//
// Oracle: a history checker over logical stamps taken from one atomic counter.
// An endpoint is "certainly alive" from the first return of a call that handed
// it out until the first stamp at which the test began anything that may kill
// it (failing write, injected read error, invalidation, reset, transport end,
// handler error) - natural expiry is excluded by a NAT timeout far above the
// round duration, or judged with a wall-clock bracket and 1 ms guard.

import (
	"context"
	"fmt"
	"io"
	"math/rand/v2"
	"net"
	"net/netip"
	"os"
	"sort"
	"strings"
	"sync"
	"sync/atomic"
	"syscall"
	"time"
	"unsafe"

	"github.com/cilium/ebpf"
	"github.com/cilium/ebpf/rlimit"
	"github.com/daeuniverse/dae/common/consts"
	ob "github.com/daeuniverse/dae/component/outbound"
	componentdialer "github.com/daeuniverse/dae/component/outbound/dialer"
	vk "github.com/daeuniverse/dae/verifkit"
	D "github.com/daeuniverse/outbound/dialer"
	"github.com/daeuniverse/outbound/netproxy"
	"github.com/sirupsen/logrus"
)

// ---- fakes -------------------------------------------------------------------------

type c13Read struct {
	data []byte
	from netip.AddrPort
	err  error
}

type c13Conn struct {
	ID         int    `json:"conn"`
	Dialer     int    `json:"dialer"`
	Family     int    `json:"family"` // 4 / 6: address family of the target this conn was really dialled to
	Key        int    `json:"key"`
	Target     string `json:"target"`
	Plain      bool   `json:"not_a_packet_conn,omitempty"`
	FailAt     int32  `json:"write_fails_at,omitempty"`
	Short      bool   `json:"short_write,omitempty"`
	DialSt     int64  `json:"dial_stamp"`
	h          *c13EP
	reads      chan c13Read
	closeCh    chan struct{}
	closes     atomic.Int32
	writes     atomic.Int32
	failNow    atomic.Bool
	eofOnClose bool

	closeStamp   atomic.Int64 // first Close()
	killBegin    atomic.Int64 // first stamp at which something that may kill the endpoint began
	firstTraffic atomic.Int64 // first WriteTo call / injected reply began
	sentDone     atomic.Int64 // first successful WriteTo returned
	deadSeen     atomic.Int64 // test observed ue.dead == true
	td           chan struct{}
	tdOnce       sync.Once
}

func c13MinStamp(a *atomic.Int64, v int64) {
	for {
		cur := a.Load()
		if cur != 0 && cur <= v {
			return
		}
		if a.CompareAndSwap(cur, v) {
			return
		}
	}
}

func (c *c13Conn) Read(_ []byte) (int, error)  { return 0, io.EOF }
func (c *c13Conn) Write(b []byte) (int, error) { return len(b), nil }
func (c *c13Conn) ReadFrom(p []byte) (int, netip.AddrPort, error) {
	select {
	case <-c.closeCh:
		if c.eofOnClose {
			return 0, netip.AddrPort{}, io.EOF
		}
		return 0, netip.AddrPort{}, net.ErrClosed
	case rd := <-c.reads:
		if rd.err != nil {
			return 0, netip.AddrPort{}, rd.err
		}
		copy(p, rd.data)
		return len(rd.data), rd.from, nil
	}
}
func (c *c13Conn) WriteTo(b []byte, _ string) (int, error) {
	select {
	case <-c.closeCh:
		return 0, net.ErrClosed
	default:
	}
	n := c.writes.Add(1)
	if c.failNow.Load() || (c.FailAt > 0 && n >= c.FailAt) {
		c13MinStamp(&c.killBegin, c.h.clock.Add(1))
		if c.Short {
			return len(b) - 1, nil
		}
		return 0, &net.OpError{Op: "write", Net: "udp", Err: os.NewSyscallError("sendto", syscall.ECONNREFUSED)}
	}
	return len(b), nil
}
func (c *c13Conn) Close() error {
	st := c.h.clock.Add(1)
	c13MinStamp(&c.killBegin, st)
	if c.closes.Add(1) == 1 {
		c.closeStamp.Store(st)
		close(c.closeCh)
	}
	return nil
}
func (c *c13Conn) SetDeadline(time.Time) error      { return nil }
func (c *c13Conn) SetReadDeadline(time.Time) error  { return nil }
func (c *c13Conn) SetWriteDeadline(time.Time) error { return nil }

// c13TransportConn additionally exposes netproxy.TransportLifecycle.
type c13TransportConn struct{ *c13Conn }

func (c c13TransportConn) TransportDone() <-chan struct{} { return c.td }

// c13PlainConn is a netproxy.Conn that is NOT a PacketConn.
type c13PlainConn struct{ c *c13Conn }

func (p *c13PlainConn) Read(_ []byte) (int, error)       { return 0, io.EOF }
func (p *c13PlainConn) Write(b []byte) (int, error)      { return len(b), nil }
func (p *c13PlainConn) Close() error                     { return p.c.Close() }
func (p *c13PlainConn) SetDeadline(time.Time) error      { return nil }
func (p *c13PlainConn) SetReadDeadline(time.Time) error  { return nil }
func (p *c13PlainConn) SetWriteDeadline(time.Time) error { return nil }

type c13TimeoutErr struct{}

func (c13TimeoutErr) Error() string   { return "i/o timeout" }
func (c13TimeoutErr) Timeout() bool   { return true }
func (c13TimeoutErr) Temporary() bool { return true }

const (
	c13DialOK = iota
	c13DialRefused
	c13DialUnreachable // forces the in-call retry path
	c13DialTimeout
	c13DialCanceled
	c13DialAddrInUse // transient local: not negatively cached
	c13DialEOF       // generic: negatively cached
	c13DialNotPacket
	c13DialKinds
)

// Further members of the "this address family cannot be used" class (the in-call
// retry path). Kept outside c13DialKinds so that the random scripts of the older
// workloads keep their distribution.
const (
	c13DialUnreachMsg = c13DialKinds + iota // flattened text, as proxy protocol libraries return it
	c13DialNoSuitable                       // net: "no suitable address found"
	c13DialNonIPv4                          // net: "non-IPv4 address"
)

var c13DialNames = []string{"ok", "refused", "unreachable", "timeout", "canceled", "addrinuse", "eof", "notpacket", "unreachable-text", "no-suitable-address", "non-ipv4-address"}

// c13Opt is one scripted routing selection (what GetDialOption returns).
type c13Opt struct {
	Dialer  int  `json:"dialer"`
	Fam     int  `json:"family"`
	NilType bool `json:"no_network_type,omitempty"` // selection carries no explicit network type: the client's family applies
}

type c13Outcome struct {
	Kind      int   `json:"kind"`
	FailAt    int32 `json:"write_fails_at,omitempty"`
	Short     bool  `json:"short,omitempty"`
	Transport bool  `json:"transport_lifecycle,omitempty"`
}

type c13Dialer struct {
	h   *c13EP
	idx int
}

func (d *c13Dialer) DialContext(ctx context.Context, _ string, addr string) (netproxy.Conn, error) {
	h := d.h
	st := h.clock.Add(1)
	h.dialsStarted.Add(1)
	if g := h.gate(); g != nil {
		select {
		case <-g:
		case <-ctx.Done():
			return nil, ctx.Err()
		}
	}
	k := h.keyOfTarget(addr)
	o := h.nextOutcome(k)
	fam := 4
	if ap, perr := netip.ParseAddrPort(addr); perr == nil && ap.Addr().Is6() {
		fam = 6
	}
	h.mu.Lock()
	h.dialLog = append(h.dialLog, fmt.Sprintf("s%d key%d dialer%d udp%d %s", st, k, d.idx, fam, c13DialNames[o.Kind]))
	switch o.Kind {
	case c13DialUnreachable, c13DialUnreachMsg, c13DialNoSuitable, c13DialNonIPv4:
		// the routing side learns that this family of this dialer is unusable and
		// falls back to the other family at the next selection
		h.famDown[[2]int{d.idx, fam}] = true
		h.famDown[[2]int{d.idx, 10 - fam}] = false
	}
	h.mu.Unlock()
	switch o.Kind {
	case c13DialUnreachMsg:
		return nil, fmt.Errorf("dial udp %s: connect: network is unreachable", addr)
	case c13DialNoSuitable:
		return nil, &net.OpError{Op: "dial", Net: "udp", Err: &net.AddrError{Err: "no suitable address found", Addr: addr}}
	case c13DialNonIPv4:
		return nil, &net.AddrError{Err: "non-IPv4 address", Addr: addr}
	case c13DialRefused:
		return nil, &net.OpError{Op: "dial", Net: "udp", Err: os.NewSyscallError("connect", syscall.ECONNREFUSED)}
	case c13DialUnreachable:
		return nil, &net.OpError{Op: "dial", Net: "udp", Err: os.NewSyscallError("connect", syscall.ENETUNREACH)}
	case c13DialTimeout:
		return nil, &net.OpError{Op: "dial", Net: "udp", Err: c13TimeoutErr{}}
	case c13DialCanceled:
		return nil, context.Canceled
	case c13DialAddrInUse:
		return nil, os.NewSyscallError("bind", syscall.EADDRINUSE)
	case c13DialEOF:
		return nil, io.EOF
	}
	c := &c13Conn{Dialer: d.idx, Family: fam, Key: k, Target: addr, h: h, DialSt: st,
		reads: make(chan c13Read, 16), closeCh: make(chan struct{}),
		FailAt: o.FailAt, Short: o.Short, eofOnClose: st%2 == 0}
	h.mu.Lock()
	c.ID = len(h.conns)
	h.conns = append(h.conns, c)
	h.mu.Unlock()
	if o.Kind == c13DialNotPacket {
		c.Plain = true
		return &c13PlainConn{c}, nil
	}
	if o.Transport {
		c.td = make(chan struct{})
		return c13TransportConn{c}, nil
	}
	return c, nil
}

// ---- harness -----------------------------------------------------------------------

type c13Call struct {
	Seq    int    `json:"n"`
	Who    string `json:"goroutine"`
	Key    int    `json:"key"`
	Gen    int    `json:"generation"`
	S0     int64  `json:"call_stamp"`
	S1     int64  `json:"ret_stamp"`
	Conn   int    `json:"returned_conn"` // -1: none
	IsNew  bool   `json:"is_new"`
	Err    string `json:"err,omitempty"`
	Marker bool   `json:"returned_failed_marker,omitempty"`
	t0, t1 time.Time
	ue     *UdpEndpoint
	conn   *c13Conn
}

type c13Inval struct {
	Dialer int   `json:"dialer"` // -1: pool-wide (Reset)
	Family int   `json:"family,omitempty"`
	S0     int64 `json:"call_stamp"`
	S1     int64 `json:"ret_stamp"`
	N      int   `json:"removed"`
	Reset  bool  `json:"reset,omitempty"`
}

type c13EP struct {
	pool    *UdpEndpointPool
	clock   atomic.Int64
	nat     time.Duration
	started time.Time

	mu      sync.Mutex
	conns   []*c13Conn
	calls   []*c13Call
	invs    []*c13Inval
	dialLog []string
	opLog   []string
	script  map[int][]c13Outcome // per key, consumed in order; default ok
	optFail map[int][]int        // per key GetDialOption outcomes: 0 ok, 1 generic error, 2 ErrNoAliveDialer
	gateCh  chan struct{}

	dialers   []*componentdialer.Dialer
	keys      []UdpEndpointKey
	keyDialer []int
	keyFixed  []bool
	fixedGrp  *ob.DialerGroup
	targets   []string
	targets6  []string
	prefFam   []int            // per key: family the routing side selects first (4 / 6)
	famDown   map[[2]int]bool  // (dialer, family) learnt unusable from a dial error
	optScript map[int][]c13Opt // per key scripted selections, consumed in order; then the chooser above applies
	gets      atomic.Int32

	dialsStarted  atomic.Int32
	handlerFail   atomic.Int64 // conn id + 1 whose next handler call fails; 0: none
	lateSurvivors []string
	resets        []*c13Inval

	// generations (part c)
	cores  [2]*controlPlaneCore
	dts    [2]*controlPlaneDrainTracker
	useGen bool
}

func (h *c13EP) gate() chan struct{} {
	h.mu.Lock()
	defer h.mu.Unlock()
	return h.gateCh
}

func (h *c13EP) keyOfTarget(addr string) int {
	for i, t := range h.targets {
		if t == addr || h.targets6[i] == addr {
			return i
		}
	}
	return 0
}

func (h *c13EP) nextOutcome(k int) c13Outcome {
	h.mu.Lock()
	defer h.mu.Unlock()
	l := h.script[k]
	if len(l) == 0 {
		return c13Outcome{}
	}
	o := l[0]
	h.script[k] = l[1:]
	return o
}

func c13QuietLogger() *logrus.Logger {
	l := logrus.New()
	l.SetOutput(io.Discard)
	return l
}

// c13NewEP builds a pool (production constructor, janitor running) with three
// dialers (two direct-like, one proxy-backed) and a small overlapping key pool.
func c13NewEP(nat time.Duration) *c13EP {
	h := &c13EP{pool: NewUdpEndpointPool(), nat: nat, started: time.Now(),
		script: map[int][]c13Outcome{}, optFail: map[int][]int{}, famDown: map[[2]int]bool{}, optScript: map[int][]c13Opt{}}
	lg := c13QuietLogger()
	mk := func(i int, prop *componentdialer.Property) *componentdialer.Dialer {
		return componentdialer.NewDialer(&c13Dialer{h: h, idx: i},
			&componentdialer.GlobalOption{Log: lg, CheckInterval: time.Second},
			componentdialer.InstanceOption{DisableCheck: true}, prop)
	}
	h.dialers = []*componentdialer.Dialer{
		mk(0, &componentdialer.Property{}),
		mk(1, &componentdialer.Property{}),
		mk(2, &componentdialer.Property{Property: D.Property{Name: "c13proxy", Address: "192.0.2.200:8443", Protocol: "vmess"}}),
	}
	s1 := netip.MustParseAddrPort("10.13.1.1:50001")
	s2 := netip.MustParseAddrPort("10.13.1.2:50002")
	d1 := netip.MustParseAddrPort("203.0.113.7:443")
	h.keys = []UdpEndpointKey{
		{Src: s1}, // full-cone
		{Src: s1, Dst: d1},
		{Src: s1, Dst: d1, RouteScope: udpEndpointRouteScope{Outbound: 2, Mark: 7}},
		{Src: s2},
		{Src: s2, Dst: d1},
	}
	h.keyDialer = []int{0, 0, 1, 2, 1}
	h.keyFixed = []bool{false, false, false, false, true}
	h.fixedGrp = newTestFixedOutboundGroup(h.dialers[1])
	for i := range h.keys {
		h.targets = append(h.targets, fmt.Sprintf("203.0.113.%d:443", 10+i))
		h.targets6 = append(h.targets6, fmt.Sprintf("[2001:db8:13::%x]:443", 10+i))
		h.prefFam = append(h.prefFam, 4)
	}
	return h
}

func (h *c13EP) opts(k, gen int) *UdpEndpointOptions {
	o := &UdpEndpointOptions{
		Handler: func(ue *UdpEndpoint, _ []byte, _ netip.AddrPort) error {
			if c := c13ConnOf(ue); c != nil && h.handlerFail.CompareAndSwap(int64(c.ID)+1, 0) {
				return io.ErrUnexpectedEOF
			}
			return nil
		},
		NatTimeout: h.nat,
		Log:        nil,
		GetDialOption: func(context.Context) (*DialOption, error) {
			h.mu.Lock()
			var f int
			if l := h.optFail[k]; len(l) > 0 {
				f = l[0]
				h.optFail[k] = l[1:]
			}
			sel := c13Opt{Dialer: h.keyDialer[k], Fam: h.prefFam[k]}
			if f == 0 {
				if l := h.optScript[k]; len(l) > 0 {
					sel = l[0]
					h.optScript[k] = l[1:]
				} else if h.famDown[[2]int{sel.Dialer, sel.Fam}] {
					sel.Fam = 10 - sel.Fam
				}
			}
			h.mu.Unlock()
			switch f {
			case 1:
				return nil, fmt.Errorf("c13: routing failed")
			case 2:
				return nil, fmt.Errorf("c13: %w", ob.ErrNoAliveDialer)
			}
			do := &DialOption{
				Dialer:  h.dialers[sel.Dialer],
				Network: "udp",
				Target:  h.targets[k],
				NetworkType: &componentdialer.NetworkType{
					L4Proto: consts.L4ProtoStr_UDP, IpVersion: consts.IpVersionStr_4, IsDns: false,
				},
			}
			switch {
			case sel.NilType:
				// no explicit network type: the client's own family (all client sources are IPv4) is what is dialled
				do.NetworkType = nil
			case sel.Fam == 6:
				do.Target = h.targets6[k]
				do.NetworkType.IpVersion = consts.IpVersionStr_6
			}
			if h.keyFixed[k] {
				do.Outbound = h.fixedGrp
			}
			return do, nil
		},
	}
	if h.useGen {
		o.ConnStateOwner = h.cores[gen]
		o.DrainTracker = h.dts[gen]
	}
	return o
}

func c13ConnOf(ue *UdpEndpoint) *c13Conn {
	if ue == nil {
		return nil
	}
	switch c := ue.conn.(type) {
	case *c13Conn:
		return c
	case c13TransportConn:
		return c.c13Conn
	}
	return nil
}

func (h *c13EP) logOp(f string, a ...any) {
	h.mu.Lock()
	if len(h.opLog) < 400 {
		h.opLog = append(h.opLog, fmt.Sprintf("s%d ", h.clock.Load())+fmt.Sprintf(f, a...))
	}
	h.mu.Unlock()
}

func (h *c13EP) goc(k, gen int, who string) *c13Call {
	c := &c13Call{Who: who, Key: k, Gen: gen, Conn: -1}
	c.S0, c.t0 = h.clock.Add(1), time.Now()
	ue, isNew, err := h.pool.GetOrCreate(h.keys[k], h.opts(k, gen))
	c.t1, c.S1 = time.Now(), h.clock.Add(1)
	c.ue, c.IsNew = ue, isNew
	if err != nil {
		c.Err = err.Error()
	}
	if ue != nil {
		c.conn = c13ConnOf(ue)
		if c.conn != nil {
			c.Conn = c.conn.ID
		}
		c.Marker = ue.failed.Load() || ue.conn == nil
	}
	h.mu.Lock()
	c.Seq = len(h.calls)
	h.calls = append(h.calls, c)
	h.mu.Unlock()
	return c
}

func (h *c13EP) write(c *c13Call) error {
	if c == nil || c.ue == nil || c.conn == nil {
		return nil
	}
	c13MinStamp(&c.conn.firstTraffic, h.clock.Add(1))
	_, err := c.ue.WriteTo([]byte("c13-payload"), c.conn.Target)
	if err == nil {
		c13MinStamp(&c.conn.sentDone, h.clock.Add(1))
	}
	h.logOp("write conn%d err=%v", c.conn.ID, err)
	return err
}

func (h *c13EP) observeDead(c *c13Call) {
	if c != nil && c.ue != nil && c.conn != nil && c.ue.IsDead() {
		c13MinStamp(&c.conn.deadSeen, h.clock.Add(1))
	}
}

func (h *c13EP) injectRead(conn *c13Conn, rd c13Read, kills bool) {
	if conn == nil {
		return
	}
	if kills {
		c13MinStamp(&conn.killBegin, h.clock.Add(1))
	}
	if rd.err == nil {
		// an accepted reply promotes the endpoint (hasReply): it has carried traffic
		c13MinStamp(&conn.firstTraffic, h.clock.Add(1))
	}
	select {
	case conn.reads <- rd:
	default:
	}
}

func (h *c13EP) invalidate(d int) { h.invalidateFam(d, 4) }

// invalidateFam: the health of (dialer d, UDP over IPv<fam>) went not-alive.
func (h *c13EP) invalidateFam(d, fam int) {
	iv := &c13Inval{Dialer: d, Family: fam}
	ipv := consts.IpVersionStr_4
	if fam == 6 {
		ipv = consts.IpVersionStr_6
	}
	iv.S0 = h.clock.Add(1)
	iv.N = h.pool.InvalidateDialerNetworkType(h.dialers[d], &componentdialer.NetworkType{
		L4Proto: consts.L4ProtoStr_UDP, IpVersion: ipv, IsDns: false})
	iv.S1 = h.clock.Add(1)
	h.mu.Lock()
	h.invs = append(h.invs, iv)
	h.mu.Unlock()
	h.logOp("invalidate dialer%d udp%d removed=%d", d, fam, iv.N)
}

// get is the read-only lookup (UdpEndpointPool.Get); an endpoint it returns has
// been handed out just like one returned by GetOrCreate.
func (h *c13EP) get(k int, who string) *c13Call {
	c := &c13Call{Who: who + "/Get", Key: k, Conn: -1}
	c.S0, c.t0 = h.clock.Add(1), time.Now()
	ue, ok := h.pool.Get(h.keys[k])
	c.t1, c.S1 = time.Now(), h.clock.Add(1)
	h.gets.Add(1)
	if ok && ue != nil {
		c.ue = ue
		c.conn = c13ConnOf(ue)
		if c.conn != nil {
			c.Conn = c.conn.ID
		}
		c.Marker = ue.failed.Load() || ue.conn == nil
	}
	h.mu.Lock()
	c.Seq = len(h.calls)
	h.calls = append(h.calls, c)
	h.mu.Unlock()
	return c
}

// remove is a packet handler's clean-up: UdpEndpointPool.Remove(key, the endpoint
// this handler was using), which may no longer be the pooled one.
func (h *c13EP) remove(k int, c *c13Call) {
	if c == nil || c.ue == nil || c.conn == nil {
		return
	}
	c13MinStamp(&c.conn.killBegin, h.clock.Add(1))
	err := h.pool.Remove(h.keys[k], c.ue)
	h.logOp("pool.Remove(key%d, conn%d) err=%v", k, c.conn.ID, err)
}

func (h *c13EP) stampAll() {
	st := h.clock.Add(1)
	h.mu.Lock()
	for _, c := range h.conns {
		c13MinStamp(&c.killBegin, st)
	}
	h.mu.Unlock()
}

func (h *c13EP) reset() {
	ev := &c13Inval{Dialer: -1, Reset: true}
	ev.S0 = h.clock.Add(1)
	h.pool.Reset()
	ev.S1 = h.clock.Add(1)
	h.mu.Lock()
	h.resets = append(h.resets, ev)
	h.mu.Unlock()
	h.logOp("reset")
}

// ---- history oracle ------------------------------------------------------------------

func (h *c13EP) witness(extra map[string]any) map[string]any {
	h.mu.Lock()
	defer h.mu.Unlock()
	w := map[string]any{"dial_log": h.dialLog, "ops": h.opLog, "nat_timeout": h.nat.String()}
	calls := h.calls
	if len(calls) > 120 {
		calls = calls[len(calls)-120:]
	}
	w["calls_tail"] = calls
	w["invalidations"] = h.invs
	for k, v := range extra {
		w[k] = v
	}
	return w
}

func c13ConnInfo(c *c13Conn) map[string]any {
	return map[string]any{"conn": c.ID, "key": c.Key, "dialer": c.Dialer, "family": c.Family, "dial_stamp": c.DialSt, "closes": c.closes.Load(),
		"close_stamp": c.closeStamp.Load(), "kill_begin_stamp": c.killBegin.Load(), "first_traffic_stamp": c.firstTraffic.Load(),
		"sent_done_stamp": c.sentDone.Load(), "dead_seen_stamp": c.deadSeen.Load(), "plain": c.Plain}
}

// checkHistory applies the history rules; identityOK says whether natural expiry
// can be excluded for this round.
func (h *c13EP) checkHistory(identityOK bool) []c13Verdict {
	var out []c13Verdict
	h.mu.Lock()
	calls := append([]*c13Call(nil), h.calls...)
	conns := append([]*c13Conn(nil), h.conns...)
	invs := append([]*c13Inval(nil), h.invs...)
	kills := append(append([]*c13Inval(nil), h.invs...), h.resets...)
	h.mu.Unlock()

	firstRet := map[*c13Conn]int64{}
	for _, c := range calls {
		if c.Marker {
			out = append(out, c13Verdict{"endpoint/failed-marker-handed-out", fmt.Sprintf("call %d on key %d returned the negative-cache marker as an endpoint", c.Seq, c.Key), map[string]any{"call": c}})
			continue
		}
		if c.conn == nil || c.Err != "" {
			continue
		}
		if v, ok := firstRet[c.conn]; !ok || c.S1 < v {
			firstRet[c.conn] = c.S1
		}
		if cs := c.conn.closeStamp.Load(); cs != 0 && cs < c.S0 {
			out = append(out, c13Verdict{"endpoint/closed-endpoint-handed-out", fmt.Sprintf("call %d (stamp %d) returned conn %d which was closed at stamp %d", c.Seq, c.S0, c.conn.ID, cs),
				map[string]any{"call": c, "endpoint": c13ConnInfo(c.conn)}})
		} else if ds := c.conn.deadSeen.Load(); ds != 0 && ds < c.S0 {
			out = append(out, c13Verdict{"endpoint/dead-endpoint-handed-out", fmt.Sprintf("call %d (stamp %d) returned conn %d whose endpoint was observed dead at stamp %d", c.Seq, c.S0, c.conn.ID, ds),
				map[string]any{"call": c, "endpoint": c13ConnInfo(c.conn)}})
		}
		// stale generation: invalidated before carrying traffic, existed before the invalidation
		if !h.keyFixed[c.Key] {
			for _, iv := range invs {
				if iv.Dialer != c.conn.Dialer || iv.Family != c.conn.Family || c.S0 <= iv.S1 {
					continue // only a health change of the (dialer, family) it was really dialled with invalidates it
				}
				fr, ok := firstRet[c.conn]
				if !ok || fr >= iv.S0 {
					continue
				}
				ft := c.conn.firstTraffic.Load()
				if ft != 0 && ft < iv.S1 {
					continue // may have carried traffic before the invalidation completed: survives by design
				}
				if ft != 0 && ft <= c.S1 {
					// Its first packet went out AFTER the invalidation but before this lookup
					// finished. dae evaluates "has carried traffic" at lookup time, so an
					// endpoint the sweep missed (published but not yet in the dialer index) is
					// forgiven once it has sent. Whether that is "invalidated before carrying
					// traffic" is a matter of reading: recorded, not judged.
					h.mu.Lock()
					h.lateSurvivors = append(h.lateSurvivors, fmt.Sprintf("conn %d (first handed out before stamp %d) invalidated at %d..%d, first packet at %d, handed out again by call %d (%d..%d)",
						c.conn.ID, iv.S0, iv.S0, iv.S1, ft, c.Seq, c.S0, c.S1))
					h.mu.Unlock()
					continue
				}
				out = append(out, c13Verdict{"endpoint/stale-generation-handed-out",
					fmt.Sprintf("call %d returned conn %d although its dialer was invalidated (stamps %d..%d) before it carried any traffic", c.Seq, c.conn.ID, iv.S0, iv.S1),
					map[string]any{"call": c, "endpoint": c13ConnInfo(c.conn), "invalidation": iv}})
			}
		}
	}
	if identityOK {
		byKey := map[int][]*c13Conn{}
		for c, _ := range firstRet {
			byKey[c.Key] = append(byKey[c.Key], c)
		}
		// end of the certainly-alive interval: the first stamp at which anything that may
		// kill the endpoint began. An invalidation / reset may hit every endpoint dialled
		// before it returned (except, for invalidations, one that certainly carried
		// traffic before it began: that one survives by design).
		end := func(c *c13Conn) int64 {
			e := int64(1 << 62)
			if k := c.killBegin.Load(); k != 0 {
				e = k
			}
			for _, ev := range kills {
				if (ev.Dialer != -1 && ev.Dialer != c.Dialer) || c.DialSt >= ev.S1 {
					continue
				}
				if sd := c.sentDone.Load(); !ev.Reset && sd != 0 && sd < ev.S0 {
					continue
				}
				if ev.S0 < e {
					e = ev.S0
				}
			}
			return e
		}
		for k, l := range byKey {
			sort.Slice(l, func(i, j int) bool { return l[i].ID < l[j].ID })
			for i := 0; i < len(l); i++ {
				for j := i + 1; j < len(l); j++ {
					a, b := l[i], l[j]
					lo := firstRet[a]
					if firstRet[b] > lo {
						lo = firstRet[b]
					}
					hi := end(a)
					if end(b) < hi {
						hi = end(b)
					}
					if lo < hi {
						out = append(out, c13Verdict{"endpoint/two-live-endpoints-one-key",
							fmt.Sprintf("key %d: conns %d and %d were both handed out while neither could have died (both alive during stamps %d..%d): duplicate dial / unstable identity", k, a.ID, b.ID, lo, hi),
							map[string]any{"a": c13ConnInfo(a), "b": c13ConnInfo(b)}})
					}
				}
			}
		}
		for _, c := range calls {
			if c.Err == "" {
				continue
			}
			for e, fr := range firstRet {
				if e.Key == c.Key && fr < c.S0 && end(e) > c.S1 {
					out = append(out, c13Verdict{"endpoint/live-endpoint-not-reused",
						fmt.Sprintf("call %d on key %d failed with %q while conn %d was alive for the whole call", c.Seq, c.Key, c.Err, e.ID),
						map[string]any{"call": c, "endpoint": c13ConnInfo(e)}})
				}
			}
		}
	}
	for _, c := range conns {
		if n := c.closes.Load(); n > 1 {
			out = append(out, c13Verdict{"endpoint/double-close", fmt.Sprintf("conn %d was closed %d times", c.ID, n), map[string]any{"endpoint": c13ConnInfo(c)}})
		}
	}
	return out
}

// finish closes the pool (stops the janitor, Reset) and checks that every
// dialled conn has been closed exactly once and all tickets/tuples are gone.
func (h *c13EP) finish() (out []c13Verdict, inconclusive string) {
	h.stampAll()
	h.pool.Close()
	defer func() {
		for _, d := range h.dialers {
			_ = d.Close() // releases the dialer's context/timers; not part of the property
		}
		// end every fake transport so that the pool's lifecycle watcher goroutines exit
		h.mu.Lock()
		for _, c := range h.conns {
			if c.td != nil {
				c.tdOnce.Do(func() { close(c.td) })
			}
		}
		h.mu.Unlock()
	}()
	settled := func() bool {
		h.mu.Lock()
		defer h.mu.Unlock()
		for _, c := range h.conns {
			if c.closes.Load() == 0 {
				return false
			}
		}
		if h.useGen {
			for _, dt := range h.dts {
				if dt.Count() != 0 {
					return false
				}
			}
		}
		return true
	}
	if !c13WaitFor(settled, 5*time.Second) {
		// positive evidence needed: nobody is in a closing path any more
		busy := c13GoroutinesIn("(*UdpEndpoint).retire", "(*UdpEndpoint).Close", "(*UdpEndpoint).selfRemoveFromPool",
			"(*UdpEndpointPool).InvalidateDialerNetworkType", "(*UdpEndpointPool).Reset", "(*UdpEndpointPool).createEndpointLocked")
		if busy > 0 {
			return nil, fmt.Sprintf("%d goroutine(s) still inside an endpoint closing path after 5s", busy)
		}
		h.mu.Lock()
		for _, c := range h.conns {
			if c.closes.Load() == 0 {
				out = append(out, c13Verdict{"endpoint/conn-leak", fmt.Sprintf("conn %d (key %d) was dialled but never closed: pool closed, its table empty (%d entries), no goroutine in a closing path", c.ID, c.Key, h.pool.Len()),
					map[string]any{"endpoint": c13ConnInfo(c)}})
				break
			}
		}
		h.mu.Unlock()
		if h.useGen {
			for g, dt := range h.dts {
				if n := dt.Count(); n != 0 {
					out = append(out, c13Verdict{"drain/ticket-leak", fmt.Sprintf("generation %d drain tracker still counts %d session(s) after every endpoint was closed", g, n), map[string]any{}})
				}
			}
		}
	}
	if h.useGen {
		for g, dt := range h.dts {
			select {
			case <-dt.IdleCh():
			default:
				if dt.Count() == 0 {
					out = append(out, c13Verdict{"drain/idle-not-signalled", fmt.Sprintf("generation %d: count is 0 but IdleCh is open", g), map[string]any{}})
				}
			}
		}
	}
	return out, ""
}

// ---- generations: real owners -----------------------------------------------------------

type c13Gens struct {
	shared  bool
	maps    [2]*ebpf.Map
	bpfs    [2]*bpfObjects
	cores   [2]*controlPlaneCore
	trk     [2]*udpConnStateTracker
	dts     [2]*controlPlaneDrainTracker
	haveMap bool
	// coreClosed: controlPlaneCore.Close() of that generation has run (reload retirement)
	coreClosed [2]bool

	mu        sync.Mutex
	ownedPuts map[uint64]string
}

var c13MemlockOnce sync.Once

func c13NewTupleMap() *ebpf.Map {
	c13MemlockOnce.Do(func() { _ = rlimit.RemoveMemlock() })
	var k bpfTuplesKey
	m, err := ebpf.NewMap(&ebpf.MapSpec{Name: "c13_conn_state", Type: ebpf.Hash,
		KeySize: uint32(unsafe.Sizeof(k)), ValueSize: 8, MaxEntries: 1024})
	if err != nil {
		return nil
	}
	return m
}

// c13NewGens builds two generations the way newControlPlaneCore does
// (bpf.Store + acquireSharedUdpConnStateTracker). shared: both generations use
// the same *bpfObjects (reload hand-over); otherwise each has its own.
func c13NewGens(shared bool) *c13Gens {
	g := &c13Gens{shared: shared, ownedPuts: map[uint64]string{}}
	lg := c13QuietLogger()
	m0 := c13NewTupleMap()
	g.haveMap = m0 != nil
	g.maps[0] = m0
	g.bpfs[0] = &bpfObjects{bpfMaps: bpfMaps{ConnStateMap: m0}}
	if shared {
		g.maps[1], g.bpfs[1] = g.maps[0], g.bpfs[0]
	} else {
		g.maps[1] = c13NewTupleMap()
		g.bpfs[1] = &bpfObjects{bpfMaps: bpfMaps{ConnStateMap: g.maps[1]}}
	}
	for i := 0; i < 2; i++ {
		c := &controlPlaneCore{log: lg}
		c.closed, c.close = context.WithCancel(context.Background()) // as newControlPlaneCore does
		c.bpf.Store(g.bpfs[i])
		g.trk[i] = acquireSharedUdpConnStateTracker(g.bpfs[i])
		c.udpConnStateTracker.Store(g.trk[i])
		g.cores[i] = c
		g.dts[i] = newControlPlaneDrainTracker()
	}
	return g
}

func (g *c13Gens) close() {
	for i := 0; i < 2; i++ {
		if !g.coreClosed[i] { // a closed core has handed its reference back itself
			releaseSharedUdpConnStateTracker(g.bpfs[i], g.trk[i])
		}
	}
	if g.maps[0] != nil {
		_ = g.maps[0].Close()
	}
	if !g.shared && g.maps[1] != nil {
		_ = g.maps[1].Close()
	}
}

func (g *c13Gens) kernelHas(gen int, k bpfTuplesKey) (bool, bool) {
	m := g.maps[gen]
	if m == nil {
		return false, false
	}
	var v uint64
	err := m.Lookup(&k, &v)
	return err == nil, true
}

func (g *c13Gens) kernelPut(gen int, k bpfTuplesKey) { g.kernelPutID(gen, k, 1) }

func (g *c13Gens) kernelPutID(gen int, k bpfTuplesKey, id uint64) {
	if m := g.maps[gen]; m != nil {
		_ = m.Update(&k, &id, ebpf.UpdateAny)
	}
}

func (g *c13Gens) trackerRefs(gen int, k bpfTuplesKey) (refs int, deleting bool) {
	t := g.trk[gen]
	t.mu.Lock()
	defer t.mu.Unlock()
	if e, ok := t.entries[k]; ok {
		return e.refs, e.deleting
	}
	return 0, false
}

func (g *c13Gens) trackerLen(gen int) int {
	t := g.trk[gen]
	t.mu.Lock()
	defer t.mu.Unlock()
	return len(t.entries)
}

// ---- workloads ------------------------------------------------------------------------------

func c13Report(m *vk.Monitor, reported map[string]bool, prefix string, vs []c13Verdict, h *c13EP, extra map[string]any) {
	for _, v := range vs {
		if reported[prefix+v.Sig] {
			m.Count("b_violations_suppressed", 1)
			continue
		}
		reported[prefix+v.Sig] = true
		w := h.witness(v.Witness)
		for k, x := range extra {
			w[k] = x
		}
		m.Violation(v.Sig, v.What, w)
	}
}

// c13EndpointHerd: concurrent first packets on one key behind a gated dial.
func c13EndpointHerd(m *vk.Monitor) {
	rng := vk.NewRand(0xC13C)
	reported := map[string]bool{}
	rounds := vk.Scale(80, 2500)
	for round := 0; round < rounds && m.Violations() < 5; round++ {
		h := c13NewEP(10 * time.Minute)
		k := rng.IntN(len(h.keys))
		n := []int{2, 4, 8, 16, 32}[rng.IntN(5)]
		// fault script: 0..2 failing attempts, then ok
		var script []c13Outcome
		for f := []int{0, 0, 0, 1, 1, 2}[rng.IntN(6)]; f > 0; f-- {
			script = append(script, c13Outcome{Kind: 1 + rng.IntN(c13DialKinds-1)})
		}
		script = append(script, c13Outcome{Kind: c13DialOK})
		var names []string
		for _, o := range script {
			names = append(names, c13DialNames[o.Kind])
		}
		h.script[k] = append([]c13Outcome(nil), script...)
		if rng.IntN(6) == 0 {
			h.optFail[k] = []int{1 + rng.IntN(2)}
			names = append([]string{fmt.Sprintf("getopt%d", h.optFail[k][0])}, names...)
		}
		gated := rng.IntN(4) != 0
		if gated {
			h.gateCh = make(chan struct{})
		}
		var started atomic.Int32
		var wg sync.WaitGroup
		for i := 0; i < n; i++ {
			wg.Add(1)
			go func(i int) {
				defer wg.Done()
				started.Add(1)
				c := h.goc(k, 0, fmt.Sprintf("H%d", i))
				if c.Err == "" && i%3 == 0 {
					_ = h.write(c)
				}
			}(i)
		}
		if gated {
			// hold the dial until every caller is inside GetOrCreate (or dialling)
			c13WaitFor(func() bool { return started.Load() == int32(n) && h.dialsStarted.Load() >= 1 }, 2*time.Second)
			prev := int32(-1)
			for i := 0; i < 20 && h.dialsStarted.Load() != prev; i++ {
				prev = h.dialsStarted.Load()
				time.Sleep(100 * time.Microsecond)
			}
			close(h.gateCh)
		}
		wg.Wait()
		// a later packet must go through the same endpoint
		last := h.goc(k, 0, "after")
		dur := time.Since(h.started)
		vs := h.checkHistory(dur < h.nat/2)
		fin, inc := h.finish()
		if inc != "" {
			c13Report(m, reported, "herd/", c13Dedup(vs), h, map[string]any{"round": round, "kind": "herd", "callers": n})
			m.Inconclusive("endpoint herd round %d: %s", round, inc)
			m.Count("b_watchdog", 1)
			break
		}
		vs = append(vs, fin...)
		vs = append(vs, h.checkHistory(false)...) // double close after finish
		ok, failed, negc := 0, 0, 0
		for _, c := range h.calls {
			switch {
			case c.Err == "":
				ok++
			case strings.Contains(c.Err, "negative cache"):
				negc++
			default:
				failed++
			}
		}
		m.Eval(len(h.calls))
		m.Count("b_herd_rounds", 1)
		m.Count("b_herd_calls", int64(len(h.calls)))
		m.Count("b_herd_dial_attempts", int64(h.dialsStarted.Load()))
		m.Count("b_herd_conns_dialled", int64(len(h.conns)))
		m.Count("b_calls_ok", int64(ok))
		m.Count("b_calls_dial_error", int64(failed))
		m.Count("b_calls_negative_cache", int64(negc))
		if last.Err == "" && !last.IsNew {
			m.Count("b_herd_later_packet_reused_endpoint", 1)
		}
		m.Distinct(fmt.Sprintf("b-herd|n%d|%s|gated%v|ok%v|neg%v|err%v", n, strings.Join(names, ","), gated, ok > 0, negc > 0, failed > 0))
		if m.WantSample() && round%37 == 0 {
			m.Sample(map[string]any{"part": "endpoint-herd", "key": k, "callers": n, "dial_script": names, "dial_log": h.dialLog, "ok": ok, "negative_cache": negc, "errors": failed})
		}
		c13Report(m, reported, "herd/", c13Dedup(vs), h, map[string]any{"round": round, "kind": "herd", "callers": n, "dial_script": names})
		if len(fin) > 0 {
			break // a leak costs a 5 s settle wait per round: one witness is enough
		}
	}
}

func c13Dedup(vs []c13Verdict) []c13Verdict {
	seen := map[string]bool{}
	var out []c13Verdict
	for _, v := range vs {
		if !seen[v.Sig+v.What] {
			seen[v.Sig+v.What] = true
			out = append(out, v)
		}
	}
	return out
}

const (
	c13OpGoc = iota
	c13OpGocWrite
	c13OpReadHard
	c13OpReadSoft
	c13OpReply
	c13OpInvalidate
	c13OpReset
	c13OpTransportDone
	c13OpHandlerErr
	c13OpFailWrite
	c13OpTrack
	c13OpKinds
)

var c13OpNames = []string{"goc", "goc+write", "read-hard-error", "read-soft-error", "reply", "invalidate", "reset", "transport-done", "handler-error", "failing-write", "track-tuple"}

type c13Op struct {
	Kind int `json:"op"`
	Key  int `json:"key"`
	Gen  int `json:"gen"`
	Arg  int `json:"arg"`
}

// c13EndpointMixed: concurrent random histories with faults.
func c13EndpointMixed(m *vk.Monitor) {
	rng := vk.NewRand(0xC13D)
	reported := map[string]bool{}
	rounds := vk.Scale(220, 8000)
	for round := 0; round < rounds && m.Violations() < 5; round++ {
		h := c13NewEP(10 * time.Minute)
		profile := rng.IntN(3) // 0: faults+invalidate, 1: faults+reset, 2: generations (adoption) + faults
		var gens *c13Gens
		if profile == 2 {
			gens = c13NewGens(rng.IntN(3) != 0)
			h.useGen, h.cores, h.dts = true, gens.cores, gens.dts
		}
		nkeys := 1 + rng.IntN(len(h.keys))
		// dial scripts
		for k := 0; k < nkeys; k++ {
			h.prefFam[k] = 4 + 2*((round+k)%2) // which family the routing side tries first
			for i := 0; i < 6; i++ {
				o := c13Outcome{Kind: c13DialOK}
				switch x := rng.IntN(10); {
				case x < 2:
					o.Kind = 1 + rng.IntN(c13DialKinds-1)
				case x < 4:
					o.FailAt = int32(1 + rng.IntN(3))
					o.Short = rng.IntN(3) == 0
				case x < 5:
					o.Transport = true
				}
				h.script[k] = append(h.script[k], o)
			}
			if rng.IntN(8) == 0 {
				h.optFail[k] = []int{0, 1 + rng.IntN(2)}
			}
		}
		g := []int{2, 4, 8, 16}[rng.IntN(4)]
		plans := make([][]c13Op, g)
		kinds := map[int]bool{}
		for p := range plans {
			for i, L := 0, 4+rng.IntN(14); i < L; i++ {
				op := c13Op{Key: rng.IntN(nkeys), Gen: rng.IntN(2), Arg: rng.IntN(3)}
				switch x := rng.IntN(100); {
				case x < 34:
					op.Kind = c13OpGoc
				case x < 58:
					op.Kind = c13OpGocWrite
				case x < 64:
					op.Kind = c13OpReadHard
				case x < 68:
					op.Kind = c13OpReadSoft
				case x < 76:
					op.Kind = c13OpReply
				case x < 82:
					if profile == 1 {
						op.Kind = c13OpReset
					} else {
						op.Kind = c13OpInvalidate
					}
				case x < 86:
					op.Kind = c13OpTransportDone
				case x < 89:
					op.Kind = c13OpHandlerErr
				case x < 94:
					op.Kind = c13OpFailWrite
				default:
					op.Kind = c13OpTrack
					if profile != 2 {
						op.Kind = c13OpGocWrite
					}
				}
				kinds[op.Kind] = true
				plans[p] = append(plans[p], op)
			}
		}
		tupleDst := []netip.AddrPort{netip.MustParseAddrPort("198.51.100.9:53"), netip.MustParseAddrPort("198.51.100.10:443")}
		var wg sync.WaitGroup
		for p := range plans {
			wg.Add(1)
			go func(p int) {
				defer wg.Done()
				who := fmt.Sprintf("G%d", p)
				last := map[int]*c13Call{}
				for _, op := range plans[p] {
					lc := last[op.Key]
					h.observeDead(lc)
					switch op.Kind {
					case c13OpGoc, c13OpGocWrite, c13OpFailWrite, c13OpTrack:
						if op.Kind == c13OpGoc && op.Arg == 2 {
							if gc := h.get(op.Key, who); gc.conn != nil {
								last[op.Key] = gc
							}
						}
						c := h.goc(op.Key, op.Gen, who)
						if c.Err != "" || c.conn == nil {
							continue
						}
						last[op.Key] = c
						switch op.Kind {
						case c13OpGocWrite:
							_ = h.write(c)
						case c13OpFailWrite:
							c.conn.failNow.Store(true)
							_ = h.write(c)
							// the packet handler's clean-up after a failed write; with arg 2 it is done with
							// the handle this goroutine held BEFORE (a late clean-up by a stale holder)
							switch {
							case op.Arg == 1 || (op.Arg == 2 && lc == nil):
								h.remove(op.Key, c)
								m.Count("b_mixed_remove_after_failed_write", 1)
							case op.Arg == 2:
								h.remove(op.Key, lc)
								m.Count("b_mixed_remove_with_earlier_handle", 1)
							}
						case c13OpTrack:
							src, dst := h.keys[op.Key].Src, tupleDst[op.Arg%len(tupleDst)]
							f := bpfTuplesKeyFromAddrPorts(src, dst, uint8(syscall.IPPROTO_UDP))
							r := bpfTuplesKeyFromAddrPorts(dst, src, uint8(syscall.IPPROTO_UDP))
							// the datapath creates the flow entries; each put carries a unique id so that
							// a leftover entry can be attributed to the put that wrote it last
							id := uint64(h.clock.Add(1))
							if gens != nil {
								gens.kernelPutID(c.Gen, f, id)
								gens.kernelPutID(c.Gen, r, id)
							}
							c.ue.TrackUdpConnStateTuplePair(src, dst)
							c.ue.udpConnStateMu.Lock()
							_, reg := c.ue.udpConnStateTuples[f]
							c.ue.udpConnStateMu.Unlock()
							if reg && gens != nil {
								gens.mu.Lock()
								gens.ownedPuts[id] = fmt.Sprintf("put %d by %s: Track(conn%d, %v->%v) registered", id, who, c.Conn, src, dst)
								gens.mu.Unlock()
							}
						}
					case c13OpReadHard:
						if lc != nil {
							h.injectRead(lc.conn, c13Read{err: io.ErrUnexpectedEOF}, true)
						}
					case c13OpReadSoft:
						if lc != nil {
							errs := []error{io.EOF, &net.OpError{Op: "read", Err: c13TimeoutErr{}}, &net.OpError{Op: "read", Err: os.NewSyscallError("recvfrom", syscall.ECONNREFUSED)}}
							h.injectRead(lc.conn, c13Read{err: errs[op.Arg%len(errs)]}, true)
						}
					case c13OpReply:
						if lc != nil {
							h.injectRead(lc.conn, c13Read{data: []byte("pong"), from: netip.MustParseAddrPort(lc.conn.Target)}, false)
						}
					case c13OpHandlerErr:
						if lc != nil {
							c13MinStamp(&lc.conn.killBegin, h.clock.Add(1))
							h.handlerFail.Store(int64(lc.conn.ID) + 1)
							h.injectRead(lc.conn, c13Read{data: []byte("pong"), from: netip.MustParseAddrPort(lc.conn.Target)}, true)
						}
					case c13OpTransportDone:
						if lc != nil && lc.conn.td != nil {
							c13MinStamp(&lc.conn.killBegin, h.clock.Add(1))
							lc.conn.tdOnce.Do(func() { close(lc.conn.td) })
						}
					case c13OpInvalidate:
						h.invalidateFam(op.Arg%len(h.dialers), 4+2*op.Gen)
					case c13OpReset:
						h.reset()
					}
				}
			}(p)
		}
		wg.Wait()
		dur := time.Since(h.started)
		vs := h.checkHistory(dur < h.nat/2)
		fin, inc := h.finish()
		if inc != "" {
			c13Report(m, reported, "mixed/", c13Dedup(vs), h, map[string]any{"round": round, "kind": "mixed", "profile": profile, "plans": plans})
			m.Inconclusive("endpoint mixed round %d: %s", round, inc)
			m.Count("b_watchdog", 1)
			break
		}
		vs = append(vs, fin...)
		vs = append(vs, h.checkHistory(false)...)
		if gens != nil {
			// every owner gone: no tracker reference and no kernel tuple may remain
			for gi := 0; gi < 2; gi++ {
				if n := gens.trackerLen(gi); n != 0 {
					vs = append(vs, c13Verdict{"tuple/tracker-reference-leak", fmt.Sprintf("generation %d tracker still holds %d tuple entr(ies) after every endpoint was closed", gi, n), map[string]any{"shared_tracker": gens.shared}})
				}
			}
			if gens.shared && gens.haveMap {
				left := 0
				var owned []string
				var k bpfTuplesKey
				var v uint64
				it := gens.maps[0].Iterate()
				for it.Next(&k, &v) {
					left++
					// only entries whose LAST writer was a put that an endpoint then registered are owned by dae
					if d, ok := gens.ownedPuts[v]; ok {
						owned = append(owned, d)
					}
				}
				if len(owned) != 0 {
					vs = append(vs, c13Verdict{"tuple/kernel-entry-leak", fmt.Sprintf("%d kernel flow entr(ies) registered by an endpoint remain after the last owner went away", len(owned)), map[string]any{"entries": owned}})
				}
				m.Count("c_mixed_kernel_entries_never_owned", int64(left-len(owned)))
				m.Count("c_mixed_kernel_map_checked", 1)
			}
			gens.close()
		}
		var kn []string
		for k := range kinds {
			kn = append(kn, c13OpNames[k])
		}
		sort.Strings(kn)
		outc := map[string]int{}
		for _, c := range h.calls {
			switch {
			case c.Err == "" && c.IsNew:
				outc["new"]++
			case c.Err == "":
				outc["reuse"]++
			case strings.Contains(c.Err, "negative cache"):
				outc["negcache"]++
			default:
				outc["error"]++
			}
		}
		m.Eval(len(h.calls))
		m.Count("b_mixed_rounds", 1)
		m.Count("b_mixed_calls", int64(len(h.calls)))
		m.Count("b_mixed_conns_dialled", int64(len(h.conns)))
		m.Count("b_mixed_invalidations", int64(len(h.invs)))
		m.Count("b_mixed_get_lookups", int64(h.gets.Load()))
		m.Count("b_calls_ok", int64(outc["new"]+outc["reuse"]))
		m.Count("b_calls_created", int64(outc["new"]))
		m.Count("b_calls_reused", int64(outc["reuse"]))
		m.Count("b_calls_dial_error", int64(outc["error"]))
		m.Count("b_calls_negative_cache", int64(outc["negcache"]))
		for _, c := range h.conns {
			if c.deadSeen.Load() != 0 {
				m.Count("b_dead_endpoints_observed", 1)
			}
			if c.Plain {
				m.Count("b_non_packet_conns", 1)
			}
			if c.Family != h.prefFam[c.Key] {
				m.Count("b_mixed_conns_dialled_over_fallback_family", 1)
			}
		}
		if profile == 2 {
			m.Count("c_mixed_generation_rounds", 1)
		}
		if n := len(h.lateSurvivors); n > 0 {
			m.Count("b_invalidated_unsent_endpoint_survived_by_later_first_packet", 1)
			m.Set("late_survivor_example", map[string]any{"round": round, "what": h.lateSurvivors[0], "dial_log": h.dialLog, "invalidations": h.invs})
		}
		m.Distinct(fmt.Sprintf("b-mixed|p%d|g%d|k%d|%s|n%v r%v e%v c%v", profile, g, nkeys, vk.Hash(kn), outc["new"] > 0, outc["reuse"] > 0, outc["error"] > 0, outc["negcache"] > 0))
		if m.WantSample() && round%53 == 0 {
			m.Sample(map[string]any{"part": "endpoint-mixed", "profile": profile, "goroutines": g, "keys": nkeys, "ops": kn, "outcomes": outc, "conns": len(h.conns)})
		}
		c13Report(m, reported, "mixed/", c13Dedup(vs), h, map[string]any{"round": round, "kind": "mixed", "profile": profile, "plans": plans})
		if len(fin) > 0 {
			break
		}
	}
}

// c13EndpointDeadWindow: controlled schedule on the uep1 hook. A retiring
// goroutine is parked after dead=true and before the endpoint leaves the table;
// GetOrCreate calls that start after the endpoint was observed dead must not
// return it, and the replacement must be stable afterwards.
func c13EndpointDeadWindow(m *vk.Monitor) {
	rng := vk.NewRand(0xC13E)
	reported := map[string]bool{}
	notReached := 0
	rounds := vk.Scale(60, 1500)
	for round := 0; round < rounds && m.Violations() < 5; round++ {
		h := c13NewEP(10 * time.Minute)
		k := rng.IntN(len(h.keys))
		how := rng.IntN(3) // 0 failing write, 1 hard read error, 2 invalidation before traffic
		if how == 2 && h.keyFixed[k] {
			k = rng.IntN(4) // a fixed-policy endpoint ignores dialer health: nothing would retire
		}
		callers := 1 + rng.IntN(4)
		var parked atomic.Int32
		release := make(chan struct{})
		var armed atomic.Bool
		armed.Store(true)
		hk := func(p string) {
			if p != "uep1" {
				return
			}
			m.Count("b_hook_uep1", 1)
			if armed.CompareAndSwap(true, false) {
				parked.Add(1)
				<-release
			}
		}
		VerifYieldHook.Store(&hk)
		c0 := h.goc(k, 0, "creator")
		if c0.Err != "" || c0.conn == nil {
			VerifYieldHook.Store(nil)
			h.finish()
			continue
		}
		if how == 0 || rng.IntN(2) == 0 {
			if how != 2 {
				_ = h.write(c0)
			}
		}
		done := make(chan struct{})
		go func() {
			defer close(done)
			switch how {
			case 0:
				c0.conn.failNow.Store(true)
				_ = h.write(c0)
			case 1:
				h.injectRead(c0.conn, c13Read{err: io.ErrUnexpectedEOF}, true)
			case 2:
				h.invalidateFam(c0.conn.Dialer, c0.conn.Family)
			}
		}()
		if how == 1 {
			<-done
		}
		reached := c13WaitFor(func() bool { return parked.Load() == 1 }, 3*time.Second)
		if !reached {
			// e.g. fixed-policy key is not touched by an invalidation: nothing retires
			armed.Store(false)
			select {
			case <-done:
			case <-time.After(c13Watchdog):
			}
			VerifYieldHook.Store(nil)
			m.Count("b_deadwindow_not_reached", 1)
			h.finish()
			if notReached++; notReached >= 3 && m.Counter("b_deadwindow_rounds") == 0 {
				break // the uep1 hook is evidently not compiled in: Require() reports it
			}
			continue
		}
		h.observeDead(c0) // dead flag is visible, endpoint still in the table
		inTable := false
		if sh := h.pool.shardFor(h.keys[k]); sh != nil {
			sh.mu.RLock()
			inTable = sh.pool[h.keys[k]] == c0.ue
			sh.mu.RUnlock()
		}
		var wg sync.WaitGroup
		for i := 0; i < callers; i++ {
			wg.Add(1)
			go func(i int) {
				defer wg.Done()
				c := h.goc(k, 0, fmt.Sprintf("W%d", i))
				if c.Err == "" {
					_ = h.write(c)
				}
			}(i)
		}
		wg.Wait()
		close(release)
		select {
		case <-done:
		case <-time.After(c13Watchdog):
			m.Inconclusive("dead-window round %d: retiring goroutine did not finish", round)
		}
		VerifYieldHook.Store(nil)
		after := h.goc(k, 0, "after")
		_ = after
		vs := h.checkHistory(time.Since(h.started) < h.nat/2)
		fin, inc := h.finish()
		if inc != "" {
			c13Report(m, reported, "deadwin/", c13Dedup(vs), h, map[string]any{"round": round, "kind": "dead-window"})
			m.Inconclusive("endpoint dead-window round %d: %s", round, inc)
			break
		}
		vs = append(vs, fin...)
		m.Eval(len(h.calls))
		m.Count("b_deadwindow_rounds", 1)
		if inTable {
			m.Count("b_deadwindow_dead_endpoint_still_in_table", 1)
		}
		m.Distinct(fmt.Sprintf("b-deadwin|how%d|callers%d|key%d|table%v", how, callers, k, inTable))
		c13Report(m, reported, "deadwin/", c13Dedup(vs), h, map[string]any{"round": round, "kind": "dead-window", "how": []string{"failing write", "hard read error", "invalidation"}[how]})
		if len(fin) > 0 {
			break
		}
	}
	VerifYieldHook.Store(nil)
}

// c13EndpointStaleCreate: controlled schedule on the uep2 hook. A creating call
// is parked after it sampled the dialer generation and before it publishes the
// endpoint; the dialer is invalidated meanwhile (the new endpoint is in no index
// yet, so the sweep cannot retire it). The creating call may return the endpoint
// once; unless it carried traffic, no later call may hand it out again.
func c13EndpointStaleCreate(m *vk.Monitor) {
	rng := vk.NewRand(0xC13EE)
	reported := map[string]bool{}
	rounds := vk.Scale(40, 1000)
	for round := 0; round < rounds && m.Violations() < 5; round++ {
		h := c13NewEP(10 * time.Minute)
		k := rng.IntN(4) // not the fixed-policy key: it ignores dialer health by design
		traffic := rng.IntN(3) == 0
		later := 1 + rng.IntN(3)
		// which family the routing side selects (and the health change names), and whether the
		// first later lookup is the read-only one; derived from the round number so that the
		// random stream of the older rounds is unchanged
		fam := 4 + 2*(round%2)
		getFirst := (round/2)%2 == 1
		h.prefFam[k] = fam
		var parked atomic.Int32
		release := make(chan struct{})
		var armed atomic.Bool
		armed.Store(true)
		hk := func(p string) {
			if p != "uep2" {
				return
			}
			m.Count("b_hook_uep2", 1)
			if armed.CompareAndSwap(true, false) {
				parked.Add(1)
				<-release
			}
		}
		VerifYieldHook.Store(&hk)
		var first *c13Call
		done := make(chan struct{})
		go func() {
			defer close(done)
			first = h.goc(k, 0, "creator")
			if traffic && first.Err == "" {
				_ = h.write(first)
			}
		}()
		if !c13WaitFor(func() bool { return parked.Load() == 1 }, c13Watchdog) {
			armed.Store(false)
			VerifYieldHook.Store(nil)
			m.Inconclusive("stale-create round %d: creator never reached uep2", round)
			return
		}
		h.invalidateFam(h.keyDialer[k], fam)
		close(release)
		<-done
		VerifYieldHook.Store(nil)
		var vs []c13Verdict
		if first.Err == "" && first.conn != nil {
			if first.conn.Family == 6 {
				m.Count("b_stalecreate_rounds_over_ipv6", 1)
			}
			if getFirst {
				// a read-only lookup hands an endpoint out just like GetOrCreate does
				b := h.get(k, "later")
				ft := first.conn.firstTraffic.Load()
				switch {
				case b.conn == first.conn && (ft == 0 || ft > b.S0):
					vs = append(vs, c13Verdict{"endpoint/stale-generation-handed-out",
						fmt.Sprintf("conn %d sampled its dialer generation before the invalidation (stamps %d..%d), was published after it, carried no traffic, and was handed out again by the read-only lookup %d", first.conn.ID, h.invs[0].S0, h.invs[0].S1, b.Seq),
						map[string]any{"call": b, "endpoint": c13ConnInfo(first.conn)}})
					later = 0
				case b.conn == first.conn:
					m.Count("b_stalecreate_get_returned_survivor_with_traffic", 1)
				default:
					m.Count("b_stalecreate_get_refused_stale_endpoint", 1)
				}
			}
			for i := 0; i < later; i++ {
				b := h.goc(k, 0, "later")
				ft := first.conn.firstTraffic.Load()
				if b.conn == first.conn && (ft == 0 || ft > b.S0) {
					vs = append(vs, c13Verdict{"endpoint/stale-generation-handed-out",
						fmt.Sprintf("conn %d sampled its dialer generation before the invalidation (stamps %d..%d), was published after it, carried no traffic, and was handed out again by call %d", first.conn.ID, h.invs[0].S0, h.invs[0].S1, b.Seq),
						map[string]any{"call": b, "endpoint": c13ConnInfo(first.conn)}})
					break
				}
				if b.conn == first.conn {
					m.Count("b_stalecreate_survived_with_traffic", 1)
				} else {
					m.Count("b_stalecreate_replaced", 1)
				}
			}
		}
		vs = append(vs, h.checkHistory(false)...)
		fin, inc := h.finish()
		if inc != "" {
			m.Inconclusive("endpoint stale-create round %d: %s", round, inc)
			break
		}
		vs = append(vs, fin...)
		m.Eval(len(h.calls))
		m.Count("b_stalecreate_rounds", 1)
		m.Distinct(fmt.Sprintf("b-stalecreate|key%d|traffic%v|later%d|udp%d|get%v", k, traffic, later, fam, getFirst))
		c13Report(m, reported, "stalecreate/", c13Dedup(vs), h, map[string]any{"round": round, "kind": "invalidate-while-creating", "traffic_after_create": traffic, "family": fam, "read_only_lookup_first": getFirst})
		if len(fin) > 0 {
			break
		}
	}
	VerifYieldHook.Store(nil)
}

// c13EndpointJanitor: small NAT timeout, real janitor. Idle endpoints must be
// closed exactly once; a hot endpoint keeps its identity, judged only when the
// wall-clock bracket excludes expiry by >= 1 ms.
func c13EndpointJanitor(m *vk.Monitor) {
	rng := vk.NewRand(0xC13F)
	n := vk.Scale(6, 40)
	var wg sync.WaitGroup
	var mu sync.Mutex
	reported := map[string]bool{}
	for i := 0; i < n; i++ {
		nat := time.Duration(120+rng.IntN(200)) * time.Millisecond
		touch := time.Duration(5+rng.IntN(20)) * time.Millisecond
		failKey := rng.IntN(2) == 0
		wg.Add(1)
		go func(i int) {
			defer wg.Done()
			h := c13NewEP(nat)
			hot, idleA, idleB, neg := 0, 1, 3, 4
			if failKey {
				h.script[neg] = []c13Outcome{{Kind: c13DialEOF}}
			}
			h.goc(idleA, 0, "idle")
			h.goc(idleB, 0, "idle")
			cneg := h.goc(neg, 0, "neg")
			first := h.goc(hot, 0, "hot")
			_ = h.write(first)
			prevStart := first.t0
			var vs []c13Verdict
			judged, ambiguous := 0, 0
			deadline := time.Now().Add(3*udpEndpointJanitorInterval + nat)
			for time.Now().Before(deadline) {
				time.Sleep(touch)
				c := h.goc(hot, 0, "hot")
				if c.t1.Before(prevStart.Add(nat - time.Millisecond)) {
					judged++
					if c.conn != first.conn || c.Err != "" {
						vs = append(vs, c13Verdict{"endpoint/identity-changed-before-expiry",
							fmt.Sprintf("hot key: call returned conn %d (err %q) %v after the previous touch although the NAT timeout is %v (first conn %d, no fault injected)", c.Conn, c.Err, c.t1.Sub(prevStart), nat, first.conn.ID),
							map[string]any{"call": c}})
						break
					}
				} else {
					ambiguous++
					if c.conn != first.conn {
						break
					}
				}
				prevStart = c.t0
			}
			// idle endpoints: dialled long ago, never touched; after >= 2 janitor ticks past expiry they must be closed (once)
			idleClosed := 0
			h.mu.Lock()
			for _, c := range h.conns {
				if c.Key == idleA || c.Key == idleB {
					if c.closes.Load() == 1 {
						idleClosed++
					}
				}
			}
			h.mu.Unlock()
			// negative cache: marker never handed out (checkHistory), and while certainly unexpired the key answers with the cached failure
			if failKey && cneg.Err != "" {
				c2 := h.goc(neg, 0, "neg")
				mu.Lock()
				switch {
				case c2.t1.Before(cneg.t0.Add(2*time.Second-time.Millisecond)) && c2.Err != "" && strings.Contains(c2.Err, "negative cache"):
					m.Count("b_negative_cache_hit_while_unexpired", 1)
				case c2.t1.Before(cneg.t0.Add(2*time.Second - time.Millisecond)):
					m.Count("b_negative_cache_miss_while_unexpired", 1)
				default:
					m.Count("b_negative_cache_probe_ambiguous", 1)
				}
				mu.Unlock()
			}
			vs = append(vs, h.checkHistory(false)...)
			fin, inc := h.finish()
			mu.Lock()
			defer mu.Unlock()
			if inc != "" {
				m.Inconclusive("endpoint janitor pool %d: %s", i, inc)
				return
			}
			vs = append(vs, fin...)
			vs = append(vs, h.checkHistory(false)...)
			m.Eval(len(h.calls))
			m.Count("b_janitor_pools", 1)
			m.Count("b_janitor_identity_judged", int64(judged))
			m.Count("b_janitor_identity_ambiguous", int64(ambiguous))
			m.Count("b_janitor_idle_endpoints_closed_by_janitor", int64(idleClosed))
			m.Distinct(fmt.Sprintf("b-janitor|nat%v|touch%v|neg%v", nat/(50*time.Millisecond), touch/(5*time.Millisecond), failKey))
			c13Report(m, reported, "janitor/", c13Dedup(vs), h, map[string]any{"kind": "janitor", "nat": nat.String(), "touch_every": touch.String()})
		}(i)
	}
	wg.Wait()
}

// ---- part (c): sequential generation histories -------------------------------------------

type c13ModelEP struct {
	call   *c13Call
	owner  int
	dt     int
	tuples map[bpfTuplesKey]bool
	closed bool
}

// c13GenerationsSequential drives create/adopt/track/close histories on one
// goroutine and compares tracker reference counts, kernel entries and drain
// ticket counts with a reference model after EVERY operation.
func c13GenerationsSequential(m *vk.Monitor) {
	rng := vk.NewRand(0xC13AA)
	reported := map[string]bool{}
	rounds := vk.Scale(150, 5000)
	for round := 0; round < rounds && m.Violations() < 5; round++ {
		shared := rng.IntN(3) != 0
		gens := c13NewGens(shared)
		h := c13NewEP(10 * time.Minute)
		h.useGen, h.cores, h.dts = true, gens.cores, gens.dts
		if gens.haveMap {
			m.Count("c_seq_kernel_map_rounds", 1)
		} else {
			m.Count("c_seq_no_kernel_map_rounds", 1)
		}
		nkeys := 2 + rng.IntN(3)
		dsts := []netip.AddrPort{netip.MustParseAddrPort("198.51.100.9:53"), netip.MustParseAddrPort("198.51.100.10:443")}
		model := map[*UdpEndpoint]*c13ModelEP{}
		evicted := map[bpfTuplesKey]bool{}     // entries the kernel side removed on its own: absence is not dae's doing
		undeletable := map[bpfTuplesKey]bool{} // entries whose delete the kernel refused (injected fault): presence is not dae's doing
		var closedMap *ebpf.Map
		var hist []string
		var vs []c13Verdict
		trackerOf := func(g int) *udpConnStateTracker { return gens.trk[g] }
		check := func(after string) bool {
			// tracker references
			want := map[*udpConnStateTracker]map[bpfTuplesKey]int{gens.trk[0]: {}, gens.trk[1]: {}}
			wantMap := map[*ebpf.Map]map[bpfTuplesKey]int{}
			live := [2]int{}
			all := map[bpfTuplesKey]bool{}
			for _, e := range model {
				for k := range e.tuples {
					all[k] = true
				}
				if e.closed {
					continue
				}
				live[e.dt]++
				for k := range e.tuples {
					want[trackerOf(e.owner)][k]++
					if mm := gens.maps[e.owner]; mm != nil {
						if wantMap[mm] == nil {
							wantMap[mm] = map[bpfTuplesKey]int{}
						}
						wantMap[mm][k]++
					}
				}
			}
			for gi := 0; gi < 2; gi++ {
				for k := range all {
					refs, del := gens.trackerRefs(gi, k)
					if w := want[gens.trk[gi]][k]; refs != w || del {
						vs = append(vs, c13Verdict{"tuple/tracker-refcount-mismatch",
							fmt.Sprintf("after %q: generation %d tracker holds %d reference(s) (deleting=%v) for a tuple that %d live endpoint(s) of that tracker retain", after, gi, refs, del, w),
							map[string]any{"history": hist, "shared_tracker": shared}})
						return false
					}
				}
				if n := gens.dts[gi].Count(); n != live[gi] {
					vs = append(vs, c13Verdict{"drain/ticket-count-mismatch",
						fmt.Sprintf("after %q: generation %d drain tracker counts %d session(s), %d live endpoint(s) belong to it", after, gi, n, live[gi]),
						map[string]any{"history": hist}})
					return false
				}
				idle := false
				select {
				case <-gens.dts[gi].IdleCh():
					idle = true
				default:
				}
				if idle != (live[gi] == 0) {
					vs = append(vs, c13Verdict{"drain/idle-signal-mismatch",
						fmt.Sprintf("after %q: generation %d IdleCh closed=%v with %d live endpoint(s)", after, gi, idle, live[gi]),
						map[string]any{"history": hist}})
					return false
				}
			}
			if gens.haveMap {
				for gi := 0; gi < 2; gi++ {
					if !shared || gi == 0 {
						mm := gens.maps[gi]
						for k := range all {
							has, _ := gens.kernelHas(gi, k)
							w := wantMap[mm][k]
							if w > 0 && !has && !evicted[k] {
								vs = append(vs, c13Verdict{"tuple/kernel-entry-removed-while-owned",
									fmt.Sprintf("after %q: kernel flow entry is gone although %d live endpoint(s) still own it", after, w),
									map[string]any{"history": hist, "shared_tracker": shared}})
								return false
							}
							if w == 0 && has && !undeletable[k] && (shared || c13EverOwnedOnlyBy(model, k, gi)) {
								vs = append(vs, c13Verdict{"tuple/kernel-entry-not-removed",
									fmt.Sprintf("after %q: kernel flow entry still present although its last owner went away", after),
									map[string]any{"history": hist, "shared_tracker": shared}})
								return false
							}
						}
					}
				}
			}
			return true
		}
		nops := 8 + rng.IntN(30)
		for i := 0; i < nops; i++ {
			k, g := rng.IntN(nkeys), rng.IntN(2)
			if gens.coreClosed[0] {
				g = 1 // the old generation is gone: new packets belong to the new one
			}
			var desc string
			x := rng.IntN(100)
			if shared && !gens.coreClosed[0] && i > 3 && rng.IntN(8) == 0 {
				x = 100
			}
			switch {
			case x == 100:
				// reload retirement: the old generation's core is closed while endpoints it created
				// (and that no packet of the new generation has adopted yet) live on in the pool and
				// still own their flow entries; they release them through the closed core later
				_ = gens.cores[0].Close()
				gens.coreClosed[0] = true
				desc = "old generation's controlPlaneCore.Close() (shared BPF objects)"
				m.Count("c_seq_old_core_closed_with_live_endpoints", 1)
			case x < 45: // create or adopt
				c := h.goc(k, g, "seq")
				desc = fmt.Sprintf("GetOrCreate(key%d, gen%d) -> conn%d new=%v err=%q", k, g, c.Conn, c.IsNew, c.Err)
				if c.Err == "" && c.ue != nil {
					e := model[c.ue]
					if e == nil {
						e = &c13ModelEP{call: c, owner: g, dt: g, tuples: map[bpfTuplesKey]bool{}}
						model[c.ue] = e
						m.Count("c_seq_created", 1)
					} else if !e.closed {
						if e.owner != g {
							m.Count("c_seq_adoptions", 1)
							// new generation's kernel map must know the entries it now owns
							for tk := range e.tuples {
								gens.kernelPut(g, tk)
							}
						}
						e.owner, e.dt = g, g
					}
				}
			case x < 70: // track
				var c *c13Call
				for _, e := range model {
					if !e.closed && e.call.Key == k {
						c = e.call
					}
				}
				if c == nil {
					continue
				}
				e := model[c.ue]
				dst := dsts[rng.IntN(len(dsts))]
				src := h.keys[k].Src
				f := bpfTuplesKeyFromAddrPorts(src, dst, uint8(syscall.IPPROTO_UDP))
				r := bpfTuplesKeyFromAddrPorts(dst, src, uint8(syscall.IPPROTO_UDP))
				gens.kernelPut(e.owner, f)
				gens.kernelPut(e.owner, r)
				delete(undeletable, f)
				delete(undeletable, r)
				c.ue.TrackUdpConnStateTuplePair(src, dst)
				e.tuples[f], e.tuples[r] = true, true
				desc = fmt.Sprintf("Track(conn%d, %v->%v)", c.Conn, src, dst)
				m.Count("c_seq_tracks", 1)
			case x < 76 && gens.haveMap: // the kernel side (datapath / conn-state janitor) drops ONE entry of a live flow early
				var victim *c13ModelEP
				for _, e := range model {
					if !e.closed && e.call.Key == k && len(e.tuples) > 0 {
						victim = e
					}
				}
				if victim == nil {
					continue
				}
				var keys []bpfTuplesKey
				for tk := range victim.tuples {
					keys = append(keys, tk)
				}
				sort.Slice(keys, func(i, j int) bool { return fmt.Sprint(keys[i]) < fmt.Sprint(keys[j]) })
				tk := keys[rng.IntN(len(keys))]
				_ = gens.maps[victim.owner].Delete(&tk)
				evicted[tk] = true
				desc = fmt.Sprintf("kernel-side eviction of one tuple entry of conn%d", victim.call.Conn)
				m.Count("c_seq_kernel_evictions", 1)
			case x < 90: // close one endpoint
				var c *c13Call
				for _, e := range model {
					if !e.closed && e.call.Key == k {
						c = e.call
					}
				}
				if c == nil {
					continue
				}
				// fault: the kernel refuses the delete of the flow entries (the generation's maps are
				// being closed by a reload or shutdown in flight): the entries cannot be removed, but
				// the ownership bookkeeping must still end the release (no tuple left half-released)
				faulty := gens.haveMap && rng.IntN(5) == 0
				if faulty {
					if closedMap == nil {
						if closedMap = c13NewTupleMap(); closedMap != nil {
							_ = closedMap.Close()
						}
					}
					if closedMap == nil {
						faulty = false
					}
				}
				if faulty {
					gens.bpfs[0].ConnStateMap = closedMap
					gens.bpfs[1].ConnStateMap = closedMap
					m.Count("c_seq_closes_with_failing_kernel_delete", 1)
				}
				switch rng.IntN(3) {
				case 0:
					c.conn.failNow.Store(true)
					_ = h.write(c)
					desc = fmt.Sprintf("failing WriteTo(conn%d)", c.Conn)
				case 1:
					_ = h.pool.Remove(h.keys[k], c.ue)
					desc = fmt.Sprintf("pool.Remove(conn%d)", c.Conn)
				default:
					h.invalidateFam(c.conn.Dialer, c.conn.Family)
					desc = fmt.Sprintf("Invalidate(dialer%d)", c.conn.Dialer)
					// closes every endpoint of that dialer that never carried traffic
				}
				if faulty {
					gens.bpfs[0].ConnStateMap = gens.maps[0]
					gens.bpfs[1].ConnStateMap = gens.maps[1]
					desc += " while the kernel map refuses deletes"
				}
				for ue, e := range model {
					if !e.closed && c13ConnOf(ue).closes.Load() > 0 {
						e.closed = true
						m.Count("c_seq_closed", 1)
						if faulty {
							for tk := range e.tuples {
								undeletable[tk] = true
							}
						}
					}
				}
			default:
				h.reset()
				desc = "pool.Reset()"
				for _, e := range model {
					if !e.closed {
						e.closed = true
						m.Count("c_seq_closed", 1)
					}
				}
			}
			hist = append(hist, desc)
			m.Eval(1)
			if !check(desc) {
				break
			}
		}
		fin, inc := h.finish()
		for _, e := range model {
			e.closed = true
		}
		if inc == "" {
			vs = append(vs, fin...)
			check("pool.Close()")
		}
		vs = append(vs, h.checkHistory(true)...)
		gens.close()
		m.Count("c_seq_rounds", 1)
		m.Distinct(fmt.Sprintf("c-seq|shared%v|k%d|%s", shared, nkeys, vk.Hash(c13Shape(hist))))
		if m.WantSample() && round%61 == 0 {
			m.Sample(map[string]any{"part": "generations-sequential", "shared_tracker": shared, "history": hist})
		}
		c13Report(m, reported, "seq/", c13Dedup(vs), h, map[string]any{"round": round, "kind": "generations-sequential", "shared_tracker": shared, "history": hist})
		if len(fin) > 0 {
			break
		}
	}
}

func c13Shape(hist []string) string {
	var b strings.Builder
	for _, s := range hist {
		if i := strings.IndexAny(s, "( "); i > 0 {
			b.WriteString(s[:i])
		}
		if strings.Contains(s, "new=true") {
			b.WriteString("+")
		}
		b.WriteString(";")
	}
	return b.String()
}

// c13EverOwnedOnlyBy: with separate kernel maps an entry the test also put into
// the other generation's map is only judged in the map of the generation that
// owned it last.
func c13EverOwnedOnlyBy(model map[*UdpEndpoint]*c13ModelEP, k bpfTuplesKey, gen int) bool {
	for _, e := range model {
		if e.tuples[k] && e.owner != gen {
			return false
		}
	}
	return true
}

// c13GenerationsConcurrent: the hand-over of a surviving endpoint to the next generation
// (GetOrCreate with the new generation's owner and drain tracker -> adoptGeneration) raced with
// other first packets of the new generation adopting the same endpoint, with the per-packet
// TrackUdpConnStateTuplePair and with the endpoint's close. Judged at quiescent points only:
// tracker reference counts of both generations, kernel entries and drain tickets must be what the
// set of live endpoints (and who owns them now) implies, and everything must be gone at the end.
func c13GenerationsConcurrent(m *vk.Monitor) {
	rng := vk.NewRand(0xC13AC)
	reported := map[string]bool{}
	rounds := vk.Scale(400, 8000)
	dsts := []netip.AddrPort{netip.MustParseAddrPort("198.51.100.9:53"), netip.MustParseAddrPort("198.51.100.10:443"),
		netip.MustParseAddrPort("198.51.100.11:4433"), netip.MustParseAddrPort("198.51.100.12:53")}
	for round := 0; round < rounds && m.Violations() < 5; round++ {
		shared := rng.IntN(4) == 0
		gens := c13NewGens(shared)
		h := c13NewEP(10 * time.Minute)
		h.useGen, h.cores, h.dts = true, gens.cores, gens.dts
		k := rng.IntN(len(h.keys))
		src := h.keys[k].Src
		var hist []string
		var vs []c13Verdict
		pair := func(d netip.AddrPort) (bpfTuplesKey, bpfTuplesKey) {
			return bpfTuplesKeyFromAddrPorts(src, d, uint8(syscall.IPPROTO_UDP)), bpfTuplesKeyFromAddrPorts(d, src, uint8(syscall.IPPROTO_UDP))
		}
		c0 := h.goc(k, 0, "gen0")
		if c0.Err != "" || c0.ue == nil {
			gens.close()
			continue
		}
		ue := c0.ue
		tuples := map[bpfTuplesKey]bool{}
		n0 := 1 + rng.IntN(2)
		for i := 0; i < n0; i++ {
			f, r := pair(dsts[i])
			gens.kernelPut(0, f)
			gens.kernelPut(0, r)
			ue.TrackUdpConnStateTuplePair(src, dsts[i])
			tuples[f], tuples[r] = true, true
		}
		hist = append(hist, fmt.Sprintf("gen0: GetOrCreate(key%d) -> conn%d, %d tracked pair(s)", k, c0.Conn, n0))
		adopters := 1 + rng.IntN(4)
		withTrack := rng.IntN(2) == 0
		closeHow := rng.IntN(4) // 0,1: none; 2: pool.Remove; 3: failing write
		// entries of pairs tracked during the race: the owner at that instant is either generation
		trackDst := dsts[2+rng.IntN(2)]
		if withTrack {
			f, r := pair(trackDst)
			for g := 0; g < 2; g++ {
				gens.kernelPut(g, f)
				gens.kernelPut(g, r)
			}
		}
		for t := range tuples {
			gens.kernelPut(1, t) // the new generation's datapath knows the flows it takes over
		}
		start := make(chan struct{})
		var wg sync.WaitGroup
		adopted := make([]*c13Call, adopters)
		for i := 0; i < adopters; i++ {
			wg.Add(1)
			go func(i int) {
				defer wg.Done()
				<-start
				adopted[i] = h.goc(k, 1, fmt.Sprintf("gen1-%d", i))
			}(i)
		}
		if withTrack {
			wg.Add(1)
			go func() {
				defer wg.Done()
				<-start
				if round%2 == 0 {
					time.Sleep(time.Microsecond)
				}
				ue.TrackUdpConnStateTuplePair(src, trackDst)
			}()
		}
		if closeHow >= 2 {
			wg.Add(1)
			go func() {
				defer wg.Done()
				<-start
				if closeHow == 2 {
					_ = h.pool.Remove(h.keys[k], ue)
				} else {
					c0.conn.failNow.Store(true)
					_ = h.write(c0)
				}
			}()
		}
		close(start)
		hist = append(hist, fmt.Sprintf("race: %d x GetOrCreate(key%d, gen1) || track=%v || close=%d", adopters, k, withTrack, closeHow))
		joined := make(chan struct{})
		go func() { wg.Wait(); close(joined) }()
		select {
		case <-joined:
		case <-time.After(c13Watchdog):
			// bounded progress, decided on the goroutine dump rather than on the time alone: owners
			// parked inside the tracker's Retain/Forget while nobody is between BeginRelease and
			// FinalizeRelease (no kernel delete in flight) can never be woken
			dump := c13AllStacks()
			parked := strings.Count(dump, "udpConnStateTracker).Retain(") + strings.Count(dump, "udpConnStateTracker).Forget(")
			inflight := strings.Count(dump, "ReleaseUdpConnStateTuples(") + strings.Count(dump, "udpConnStateTracker).FinalizeRelease(") + strings.Count(dump, "BpfMapBatchDelete(")
			if parked > 0 && inflight == 0 {
				m.Violation("tuple/retain-parked-after-deletion-finalised/handover",
					fmt.Sprintf("%d goroutine(s) of the hand-over race are parked inside udpConnStateTracker.Retain/Forget for >%v although no kernel delete is in flight: they can never be woken", parked, c13Watchdog),
					map[string]any{"round": round, "history": hist, "shared_tracker": shared})
			} else {
				m.Inconclusive("hand-over race round %d did not finish within %v (parked in Retain/Forget=%d, deletes in flight=%d)", round, c13Watchdog, parked, inflight)
			}
			return // the goroutines of this round are lost
		}
		m.Eval(1)
		m.Count("c_conc_rounds", 1)
		// ---- quiescent point 1
		closed := c13ConnOf(ue).closes.Load() > 0
		if closed {
			m.Count("c_conc_closed_during_handover", 1)
		}
		if withTrack {
			ue.udpConnStateMu.Lock()
			f, _ := pair(trackDst)
			_, tracked := ue.udpConnStateTuples[f]
			ue.udpConnStateMu.Unlock()
			if tracked || !closed {
				// Track before the close (or no close at all): the pair belongs to the endpoint
				if tracked {
					f, r := pair(trackDst)
					tuples[f], tuples[r] = true, true
					m.Count("c_conc_tracked_during_handover", 1)
				}
			}
		}
		owner := 0
		others := map[*UdpEndpoint]bool{}
		for _, c := range adopted {
			if c == nil || c.ue == nil || c.Err != "" {
				continue
			}
			if c.ue == ue {
				owner = 1
			} else {
				others[c.ue] = true // created afresh in gen1 after the close
			}
		}
		if owner == 1 && !closed {
			m.Count("c_conc_adopted_alive", 1)
		}
		check := func(after string, live bool, owner int) bool {
			for gi := 0; gi < 2; gi++ {
				for t := range tuples {
					refs, del := gens.trackerRefs(gi, t)
					want := 0
					if live && (gens.trk[gi] == gens.trk[owner]) {
						want = 1
					}
					if refs != want || del {
						vs = append(vs, c13Verdict{"tuple/tracker-refcount-mismatch",
							fmt.Sprintf("after %s: generation %d tracker holds %d reference(s) (deleting=%v) for a tuple that %d live endpoint(s) of that tracker retain", after, gi, refs, del, want),
							map[string]any{"history": hist, "shared_tracker": shared, "concurrent": true}})
						return false
					}
				}
			}
			liveDT := [2]int{}
			if live {
				liveDT[owner]++
			}
			for o := range others {
				if c13ConnOf(o).closes.Load() == 0 {
					liveDT[1]++
				}
			}
			for gi := 0; gi < 2; gi++ {
				if n := gens.dts[gi].Count(); n != liveDT[gi] {
					vs = append(vs, c13Verdict{"drain/ticket-count-mismatch",
						fmt.Sprintf("after %s: generation %d drain tracker counts %d session(s), %d live endpoint(s) belong to it", after, gi, n, liveDT[gi]),
						map[string]any{"history": hist, "concurrent": true}})
					return false
				}
			}
			if gens.haveMap {
				for t := range tuples {
					has, _ := gens.kernelHas(owner, t)
					if live && !has {
						vs = append(vs, c13Verdict{"tuple/kernel-entry-removed-while-owned",
							fmt.Sprintf("after %s: kernel flow entry is gone although a live endpoint still owns it", after),
							map[string]any{"history": hist, "shared_tracker": shared, "concurrent": true}})
						return false
					}
					if !live && has {
						vs = append(vs, c13Verdict{"tuple/kernel-entry-not-removed",
							fmt.Sprintf("after %s: kernel flow entry still present in the last owner's map although its last owner went away", after),
							map[string]any{"history": hist, "shared_tracker": shared, "concurrent": true}})
						return false
					}
				}
			}
			return true
		}
		okc := true
		if closed {
			// who owned it when it closed is not observable from outside: both trackers must be empty of it,
			// and the entries are judged in the map of the generation that is known to have owned them last
			lastOwner := owner
			okc = check("the hand-over race (endpoint closed in it)", false, lastOwner)
		} else {
			okc = check("the hand-over race", true, owner)
		}
		// ---- everything goes away
		fin, inc := h.finish()
		if inc == "" && okc {
			vs = append(vs, fin...)
			if !closed {
				check("pool.Close()", false, owner)
			}
			for gi := 0; gi < 2; gi++ {
				if n := gens.trackerLen(gi); n != 0 {
					vs = append(vs, c13Verdict{"tuple/tracker-entries-left-after-close",
						fmt.Sprintf("generation %d tracker still holds %d tuple entr(ies) after every endpoint was closed", gi, n),
						map[string]any{"history": hist, "shared_tracker": shared, "concurrent": true}})
					break
				}
			}
		}
		gens.close()
		m.Distinct(fmt.Sprintf("c-conc|shared%v|a%d|t%v|c%d|closed%v|owner%d|n%d", shared, adopters, withTrack, closeHow, closed, owner, len(tuples)))
		c13Report(m, reported, "conc/", c13Dedup(vs), h, map[string]any{"round": round, "kind": "generations-concurrent", "shared_tracker": shared, "history": hist})
	}
}

// c13EndpointNegativeCacheExpiry: a failed dial is remembered for a short while; when that while
// is over (the marker's own deadline has passed, the janitor has not swept it yet) the next packet
// of the key must get a fresh dial, never the marker. "Time passes" is modelled by moving the
// marker's deadline into the past, which is exactly what the fast path of GetOrCreate compares.
func c13EndpointNegativeCacheExpiry(m *vk.Monitor) {
	seedRng := vk.NewRand(0xC13E)
	reported := map[string]bool{}
	var repMu sync.Mutex
	rounds := vk.Scale(48, 1200)
	sem := make(chan struct{}, 12)
	var wg sync.WaitGroup
	for round := 0; round < rounds && m.Violations() < 5; round++ {
		rng := rand.New(rand.NewPCG(seedRng.Uint64(), uint64(round)))
		round := round
		sem <- struct{}{}
		wg.Add(1)
		go func() {
			defer wg.Done()
			defer func() { <-sem }()
			h := c13NewEP(10 * time.Minute)
			k := rng.IntN(len(h.keys))
			nfail := 1 + rng.IntN(2)
			for i := 0; i < nfail; i++ {
				h.script[k] = append(h.script[k], c13Outcome{Kind: c13DialEOF})
			}
			var vs []c13Verdict
			for i := 0; i < nfail; i++ {
				c := h.goc(k, 0, "first-packet")
				if c.Err == "" {
					m.Count("b_negexp_dial_did_not_fail", 1)
					break
				}
				// inside the remembered while: refused without a dial (judged by the history oracle)
				if rng.IntN(2) == 0 {
					h.goc(k, 0, "inside-negative-cache")
				}
				// the while is over
				shard := h.pool.shardFor(h.keys[k])
				shard.mu.Lock()
				mk := shard.pool[h.keys[k]]
				shard.mu.Unlock()
				if mk == nil || !mk.failed.Load() {
					m.Count("b_negexp_marker_already_swept", 1)
				} else {
					mk.expiresAtNano.Store(time.Now().Add(-time.Millisecond).UnixNano())
					m.Count("b_negexp_marker_expired_in_place", 1)
				}
				before := h.dialsStarted.Load()
				c2 := h.goc(k, 0, "after-negative-cache-expired")
				m.Eval(1)
				if c2.Marker || (c2.ue != nil && c2.ue.failed.Load()) {
					vs = append(vs, c13Verdict{"endpoint/failed-marker-handed-out", fmt.Sprintf("call %d on key %d returned the expired negative-cache marker as an endpoint", c2.Seq, c2.Key), map[string]any{"call": c2}})
					break
				}
				if h.dialsStarted.Load() == before && c2.Err == "" {
					vs = append(vs, c13Verdict{"endpoint/no-redial-after-negative-cache-expired", fmt.Sprintf("call %d on key %d succeeded without a new dial after the failed dial's remembered while was over", c2.Seq, c2.Key), map[string]any{"call": c2}})
					break
				}
				if c2.Err == "" {
					_ = h.write(c2)
					break
				}
			}
			fin, inc := h.finish()
			if inc == "" {
				vs = append(vs, fin...)
			}
			vs = append(vs, h.checkHistory(true)...)
			m.Count("b_negexp_rounds", 1)
			m.Distinct(fmt.Sprintf("negexp|key%d|fails%d", k, nfail))
			repMu.Lock()
			c13Report(m, reported, "negexp/", c13Dedup(vs), h, map[string]any{"round": round, "kind": "negative-cache-expiry"})
			repMu.Unlock()
		}()
	}
	wg.Wait()
}
