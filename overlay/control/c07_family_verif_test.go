package control

// C07 monitor, level 1f: response programs whose ip() prefixes are all WRITTEN in one address
// family, answered with records of the other one.
//
// "ip(prefix) hits when any A/AAAA answer address is in the prefix", IPv4 taken as IPv4-mapped
// IPv6: a prefix written in IPv6 form can contain IPv4 answers (::/0, ::ffff:0:0/96,
// ::ffff:10.0.0.0/104, ::ffff:10.1.2.3) and a prefix written in IPv4 form contains the AAAA
// records that carry the IPv4-mapped twin of an address inside it. The programs here have nothing
// but such prefixes (plus qtype/upstream conditions and negation around them), and every prefix is
// probed with A and AAAA answers at its first and last address, the neighbours just outside and
// their IPv4 / IPv4-mapped twins. Oracle: verifkit.RefDnsResponse (containment on 128 bits).

import (
	"fmt"
	"math/rand/v2"
	"net/netip"

	vk "github.com/daeuniverse/dae/verifkit"
)

var (
	verifC07FPool6 = []string{"::/0", "::/0", "::ffff:0:0/96", "::ffff:0:0/96", "::ffff:10.0.0.0/104", "::ffff:10.1.0.0/112", "::ffff:10.1.2.3", "::ffff:a01:204/128",
		"::ffff:128.0.0.0/97", "::ffff:192.168.0.0/120", "::/1", "::/96", "::ffff:0:0/95", "::ffff:255.255.255.255", "::ffff:0.0.0.0/128",
		"fd00::/8", "2001:db8::/32", "2001:db8::1", "8000::/1", "::", "::1"}
	verifC07FPool4 = []string{"0.0.0.0/0", "10.0.0.0/8", "10.1.0.0/16", "10.1.2.3", "10.1.2.2/31", "192.168.0.0/24", "128.0.0.0/1", "0.0.0.0/1", "255.255.255.255", "0.0.0.0"}
)

func verifC07FMapped(a netip.Addr) netip.Addr {
	return netip.AddrFrom16(a.As16())
}

// verifC07Family runs one level 1f program.
func verifC07Family(m *vk.Monitor, rr *rand.Rand, k int) {
	family := []string{"v6-written", "v6-written", "v6-written", "v4-written", "mixed"}[k%5]
	pick := func() string {
		switch family {
		case "v6-written":
			return verifC07FPool6[rr.IntN(len(verifC07FPool6))]
		case "v4-written":
			return verifC07FPool4[rr.IntN(len(verifC07FPool4))]
		}
		if rr.IntN(2) == 0 {
			return verifC07FPool6[rr.IntN(len(verifC07FPool6))]
		}
		return verifC07FPool4[rr.IntN(len(verifC07FPool4))]
	}
	p := &vk.DProg{ReqFallback: "asis"}
	nu := 1 + rr.IntN(3)
	tags := []string{"asis"}
	for i := 0; i < nu; i++ {
		tag := fmt.Sprintf("u%d", i)
		host := fmt.Sprintf("10.9.1.%d", i+1)
		p.Upstreams = append(p.Upstreams, vk.DUp{Tag: tag, Host: host, Link: "udp://" + host + ":53"})
		tags = append(tags, tag)
	}
	outs := append([]string{"accept", "reject", "reject"}, tags[1:]...)
	nr := 1 + rr.IntN(3)
	var prefixes []string
	for i := 0; i < nr; i++ {
		c := vk.RCond{Func: "ip", Not: rr.IntN(5) == 0}
		nv := 1
		if rr.IntN(3) == 0 {
			nv = 2 + rr.IntN(2)
		}
		for j := 0; j < nv; j++ {
			v := pick()
			c.Params = append(c.Params, vk.RParam{Val: v})
			prefixes = append(prefixes, v)
		}
		rl := vk.DRule{Conds: []vk.RCond{c}, Out: outs[rr.IntN(len(outs))]}
		switch rr.IntN(6) {
		case 0:
			rl.Conds = append(rl.Conds, vk.RCond{Func: "qtype", Params: []vk.RParam{{Val: []string{"a", "aaaa"}[rr.IntN(2)]}}})
		case 1:
			rl.Conds = append([]vk.RCond{{Func: "upstream", Not: rr.IntN(2) == 0, Params: []vk.RParam{{Val: tags[1+rr.IntN(nu)]}}}}, rl.Conds...)
		}
		p.Resp = append(p.Resp, rl)
	}
	// the fallback differs from every rule target often enough for a missed hit to show
	p.RespFallback = []string{"accept", "accept", "reject"}[rr.IntN(3)]
	b, err := verifC07Build(p)
	if err != nil {
		m.Violation("build-error/ip-family", "well-formed generated dns section rejected or crashed: "+err.Error(), map[string]any{"text": p.Text(), "error": err.Error()})
		return
	}
	m.Count("l1f_programs_"+family, 1)

	// probes
	type probe struct {
		rrs  []vk.DRR
		kind string // a | aaaa | aaaa-mapped
	}
	var probes []probe
	seen := map[netip.Addr]bool{}
	var addrs []netip.Addr
	add := func(a netip.Addr) {
		a = a.Unmap()
		if !seen[a] {
			seen[a] = true
			addrs = append(addrs, a)
		}
	}
	for _, pf := range prefixes {
		for _, a := range vk.AddrsAround(pf) {
			add(a)
		}
	}
	for _, s := range []string{"10.1.2.3", "198.51.100.7", "0.0.0.0", "255.255.255.255", "2001:db8::1", "::", "fd00::1"} {
		add(netip.MustParseAddr(s))
	}
	for _, a := range addrs {
		if a.Is4() {
			probes = append(probes, probe{[]vk.DRR{{Type: 1, Addr: a}}, "a"})
			probes = append(probes, probe{[]vk.DRR{{Type: 28, Addr: verifC07FMapped(a)}}, "aaaa-mapped"})
		} else {
			probes = append(probes, probe{[]vk.DRR{{Type: 28, Addr: a}}, "aaaa"})
		}
	}
	// a few two-record answers: a miss followed by a hit of the other family, and the reverse
	for i := 0; i < 4 && len(addrs) > 1; i++ {
		x, y := addrs[rr.IntN(len(addrs))], addrs[rr.IntN(len(addrs))]
		mk := func(a netip.Addr) vk.DRR {
			if a.Is4() {
				if rr.IntN(3) == 0 {
					return vk.DRR{Type: 28, Addr: verifC07FMapped(a)}
				}
				return vk.DRR{Type: 1, Addr: a}
			}
			return vk.DRR{Type: 28, Addr: a}
		}
		probes = append(probes, probe{[]vk.DRR{mk(x), mk(y)}, "mix"})
	}
	rr.Shuffle(len(probes), func(i, j int) { probes[i], probes[j] = probes[j], probes[i] })
	if len(probes) > 24 {
		probes = probes[:24]
	}
	for _, pb := range probes {
		q := vk.DQuestion{Name: "probe.example.com.", Qtype: pb.rrs[0].Type}
		from := tags[rr.IntN(len(tags))]
		ips := vk.AnswerIPs(pb.rrs)
		ref, ri := vk.RefDnsResponse(p, q, ips, from)
		got := verifC07RespSelect(b, p, q, pb.rrs, from)
		m.Eval(1)
		m.Count("l1f_probes_"+pb.kind, 1)
		// did an ip() value written in the other family than the answer contain it?
		cross := ""
		for _, pf := range prefixes {
			v6written := len(pf) > 0 && verifC07FHasColon(pf)
			for _, r := range pb.rrs {
				if ok, _ := vk.Contains128(pf, r.Addr); !ok {
					continue
				}
				switch {
				case v6written && r.Type == 1:
					cross = "a-answer-inside-v6-written-prefix"
				case v6written && r.Addr.Is4In6():
					if cross == "" {
						cross = "mapped-aaaa-answer-inside-v6-written-prefix"
					}
				case !v6written && r.Type == 28:
					if cross == "" {
						cross = "mapped-aaaa-answer-inside-v4-written-prefix"
					}
				}
			}
		}
		if cross != "" {
			m.Count("l1f_"+cross+"_"+family, 1)
		}
		sig, _ := verifC07DecidedSig(p.Resp, ri, ref)
		m.Distinct("L1F|" + family + "|" + pb.kind + "|" + cross + "|" + sig)
		if got == ref {
			continue
		}
		rrs, ff := pb.rrs, from
		min := verifC07Minimize(p, func(c *vk.DProg) bool {
			b2, e := verifC07Build(c)
			if e != nil {
				return false
			}
			r2, _ := vk.RefDnsResponse(c, q, vk.AnswerIPs(rrs), ff)
			return verifC07RespSelect(b2, c, q, rrs, ff) != r2
		})
		mref, _ := vk.RefDnsResponse(min, q, ips, from)
		mgot := "?"
		if b2, e := verifC07Build(min); e == nil {
			mgot = verifC07RespSelect(b2, min, q, rrs, from)
		}
		m.Violation("response-mismatch/ip-family/"+family+"/"+pb.kind+"/"+verifC07Shape(min.Resp),
			fmt.Sprintf("ResponseSelect != first-match reference for answers %v from %s (ip() prefixes of the program: %s): ref=%s got=%s", verifC07WantStrings(rrs), from, family, mref, mgot),
			map[string]any{"minimized_text": min.Text(), "qname": q.Name, "qtype": q.Qtype, "answers": verifC07WantStrings(rrs), "from_upstream": from,
				"reference": mref, "got": mgot, "original_text": p.Text(), "original_reference": ref, "original_got": got})
		return
	}
}

func verifC07FHasColon(s string) bool {
	for i := 0; i < len(s); i++ {
		if s[i] == ':' {
			return true
		}
	}
	return false
}

var verifC07FRequired = []string{
	"l1f_programs_v6-written", "l1f_programs_v4-written", "l1f_programs_mixed",
	"l1f_probes_a", "l1f_probes_aaaa", "l1f_probes_aaaa-mapped",
	"l1f_a-answer-inside-v6-written-prefix_v6-written", "l1f_mapped-aaaa-answer-inside-v6-written-prefix_v6-written",
	"l1f_mapped-aaaa-answer-inside-v4-written-prefix_v4-written", "l1f_a-answer-inside-v6-written-prefix_mixed",
}
