package control

// C19 monitor, class "fixed-width byte fields filled from a string": the 16-byte process name.
//
// match_set.pname (written by the control plane from a pname() rule) is compared by the kernel
// program, 16 bytes against 16 bytes, with pid_pname.pname, which get_pid_pname() fills from the
// command line of the process. Both sides cut a name to the same width, each in its own code. Names
// of every length around the width (width-2 .. width+2, much longer, up to the C side's argument
// buffer) are sent through both:
//   - C side: the bodies of get_real_comm_loop_cb / get_pid_pname are lifted verbatim out of the
//     tproxy.c of the tree under test, compiled natively behind helper shims and run on
//     "<dir>/<name> <args>" command lines (has_bpf_get_current_task = 1, the normal case);
//   - Go side: `pname(<name>) -> group` through the production front end and matcher builder; the
//     value bytes of the MatchType_ProcessName match_set are what the kernel will hold.
// The two 16-byte values must be identical, and route() in kernsim, given the C side's bytes as the
// process name of a WAN flow, must pick the rule's group.

import (
	"bytes"
	"encoding/binary"
	"encoding/hex"
	"fmt"
	"net/netip"
	"os"
	"os/exec"
	"path/filepath"
	"regexp"
	"strings"

	"github.com/daeuniverse/dae/common/consts"
	vk "github.com/daeuniverse/dae/verifkit"
)

// c19CBlock returns src[start of marker .. matching closing brace of the first '{' after it].
func c19CBlock(src, marker string) (string, bool) {
	i := strings.Index(src, marker)
	if i < 0 {
		return "", false
	}
	j := strings.Index(src[i:], "{")
	if j < 0 {
		return "", false
	}
	depth := 0
	for p := i + j; p < len(src); p++ {
		switch src[p] {
		case '{':
			depth++
		case '}':
			depth--
			if depth == 0 {
				return src[i : p+1], true
			}
		}
	}
	return "", false
}

const c19PnameShims = `
#include <string.h>
#include <stdio.h>
#include <stdlib.h>
typedef unsigned char u8; typedef unsigned char __u8; typedef unsigned short __u16; typedef unsigned int __u32; typedef unsigned long long __u64;
#define __noinline __attribute__((noinline))
#undef __always_inline
#define __always_inline inline __attribute__((always_inline))
#define unlikely(x) (x)
#define likely(x) (x)
#define bpf_printk(...) do {} while (0)
static struct { __u8 has_bpf_get_current_task; } PARAM = { 1 };
static const char *cur_args;
struct task_struct { int unused; };
static __u64 bpf_ktime_get_ns(void) { return 1; }
static __u64 bpf_get_current_pid_tgid(void) { return ((__u64)4242 << 32) | 4242; }
static long bpf_get_current_comm(void *buf, __u32 n) { memset(buf, 0, n); return 0; }
static __u64 bpf_get_current_task(void) { return 0; }
#define BPF_CORE_READ(task, a, b) ((void)(task), (unsigned long)cur_args)
/* bpf_probe_read_user_str: at most size-1 bytes and a terminator; returns the length including it */
static long bpf_core_read_user_str(void *dst, int size, const void *p)
{
	size_t n = strnlen((const char *)p, size - 1);
	memset(dst, 0x5a, size);
	memcpy(dst, p, n);
	((char *)dst)[n] = 0;
	return (long)n + 1;
}
static long bpf_loop(__u32 nr, int (*cb)(__u32, void *), void *ctx, __u64 flags)
{
	(void)flags;
	for (__u32 i = 0; i < nr; i++)
		if (cb(i, ctx))
			return i + 1;
	return nr;
}
`

const c19PnameMain = `
int main(int argc, char **argv)
{
	char line[4096];
	(void)argc; (void)argv;
	while (fgets(line, sizeof(line), stdin)) {
		size_t n = strlen(line);
		if (n && line[n - 1] == '\n') line[--n] = 0;
		struct pid_pname v;
		memset(&v, 0, sizeof(v)); /* as the caller: struct pid_pname val = { 0 } */
		cur_args = line;
		int rc = get_pid_pname(&v);
		printf("%d %zu ", rc, sizeof(v.pname));
		for (size_t i = 0; i < sizeof(v.pname); i++) printf("%02x", (unsigned char)v.pname[i]);
		printf("\n");
	}
	return 0;
}
`

// c19BuildKernelPname compiles the C side's name extraction out of the tree under test.
func c19BuildKernelPname(dir string) (bin string, err error) {
	srcB, err := os.ReadFile(filepath.Join(vk.RepoDir(), "control", "kern", "tproxy.c"))
	if err != nil {
		return "", err
	}
	src := string(srcB)
	var prog bytes.Buffer
	prog.WriteString(c19PnameShims)
	for _, d := range []string{"TASK_COMM_LEN", "MAX_ARG_LEN"} {
		mm := regexp.MustCompile(`(?m)^#define\s+` + d + `\s+(\S+)\s*$`).FindStringSubmatch(src)
		if mm == nil {
			return "", fmt.Errorf("#define %s not found in tproxy.c", d)
		}
		fmt.Fprintf(&prog, "#define %s %s\n", d, mm[1])
	}
	for _, marker := range []string{"struct pid_pname {", "struct get_real_comm_ctx {"} {
		blk, ok := c19CBlock(src, marker)
		if !ok {
			return "", fmt.Errorf("%q not found in tproxy.c", marker)
		}
		prog.WriteString(blk + ";\n")
	}
	for _, marker := range []string{"static int __noinline get_real_comm_loop_cb(", "static __always_inline int get_pid_pname("} {
		blk, ok := c19CBlock(src, marker)
		if !ok {
			return "", fmt.Errorf("%q not found in tproxy.c", marker)
		}
		prog.WriteString(blk + "\n")
	}
	prog.WriteString(c19PnameMain)
	cfile := filepath.Join(dir, "kern_pname.c")
	if err = os.WriteFile(cfile, prog.Bytes(), 0o644); err != nil {
		return "", err
	}
	bin = filepath.Join(dir, "kern_pname")
	if out, err := exec.Command("clang", "-O1", "-w", "-o", bin, cfile).CombinedOutput(); err != nil {
		return "", fmt.Errorf("clang: %v: %s", err, out)
	}
	return bin, nil
}

func c19PnameWidths(m *vk.Monitor, k *vk.KS, r c19Rng) {
	dir, err := os.MkdirTemp(filepath.Join(vk.BuildDir(), "run"), "c19pname")
	if err != nil {
		m.Inconclusive("pname: mkdtemp: %v", err)
		return
	}
	defer os.RemoveAll(dir)
	bin, err := c19BuildKernelPname(dir)
	if err != nil {
		m.Inconclusive("pname: cannot lift get_pid_pname out of tproxy.c: %v", err)
		return
	}
	width := int(consts.TaskCommLen)
	const alphabet = "abcdefghijklmnopqrstuvwxyzABCDEFGHIJKLMNOPQRSTUVWXYZ0123456789-_."
	type pcase struct {
		name, cmdline, class string
	}
	var cases []pcase
	seen := map[string]bool{}
	add := func(name, prefix, suffix string) {
		if seen[name] || len(prefix)+len(name) >= 127 { // the C side reads MAX_ARG_LEN-1 bytes of the command line
			return
		}
		seen[name] = true
		class := fmt.Sprintf("width%+d", len(name)-width)
		if len(name) > width+2 {
			class = "much-longer"
		} else if len(name) < width-2 {
			class = "shorter"
		}
		cases = append(cases, pcase{name, prefix + name + suffix, class})
	}
	for _, n := range []string{"curl", "NetworkManager", "qbittorrent-nox", "systemd-resolved", "systemd-timesyncd", "xdg-desktop-portal-gtk"} {
		add(n, "/usr/lib/systemd/", "")
	}
	lengths := []int{1, 2, 7, width - 2, width - 1, width, width + 1, width + 2, 2*width - 1, 2 * width, 2*width + 1, 64, 100}
	prefixes := []string{"", "/usr/bin/", "./", "/opt/x.y/bin/"}
	suffixes := []string{"", " --flag", " -c /etc/x.conf"}
	for rep := 0; rep < vk.Scale(6, 60); rep++ {
		for _, l := range lengths {
			b := make([]byte, l)
			for i := range b {
				b[i] = alphabet[r.IntN(len(alphabet))]
			}
			if b[0] == '-' || b[0] == '.' || b[0] == '_' || (b[0] >= '0' && b[0] <= '9') {
				b[0] = 'p'
			}
			add(string(b), prefixes[r.IntN(len(prefixes))], suffixes[r.IntN(len(suffixes))])
		}
	}
	var in bytes.Buffer
	for _, c := range cases {
		in.WriteString(c.cmdline + "\n")
	}
	cmd := exec.Command(bin)
	cmd.Stdin = &in
	out, err := cmd.Output()
	if err != nil {
		m.Inconclusive("pname: running the lifted get_pid_pname: %v", err)
		return
	}
	lines := strings.Split(strings.TrimSpace(string(out)), "\n")
	if len(lines) != len(cases) {
		m.Inconclusive("pname: %d command lines, %d results", len(cases), len(lines))
		return
	}
	name2id, id2name := verifOutboundTable()
	_ = name2id
	for i, c := range cases {
		var rc, csz int
		var hx string
		if _, err := fmt.Sscanf(lines[i], "%d %d %s", &rc, &csz, &hx); err != nil || rc != 0 {
			m.Count("pname_c_side_refused", 1)
			continue
		}
		kern, _ := hex.DecodeString(hx)
		m.Eval(1)
		if csz != width || len(kern) != width {
			m.Violation("pname/width", fmt.Sprintf("pid_pname.pname is %d bytes on the C side, consts.TaskCommLen is %d", csz, width), nil)
			return
		}
		p := &vk.RProg{Rules: []vk.RRule{
			{Conds: []vk.RCond{{Func: "pname", Params: []vk.RParam{{Val: c.name}}}}, Out: vk.ROut{Name: verifGroups[2]}},
		}, Fallback: vk.ROut{Name: verifGroups[1]}}
		rules, fb, err := verifParseRouting(p.Text())
		if err != nil {
			m.Count("pname_rule_not_accepted_by_front_end", 1)
			continue
		}
		b, err := verifBuildMatcher(rules, fb, verifProductionOptimizers()...)
		if err != nil {
			m.Count("pname_rule_not_accepted_by_builder", 1)
			continue
		}
		var goVal []byte
		for _, ms := range b.snap.rules {
			if ms.Type == uint8(consts.MatchType_ProcessName) {
				goVal = append([]byte(nil), ms.Value[:]...)
			}
		}
		if goVal == nil {
			m.Violation("pname/no-match-set", "no MatchType_ProcessName match_set emitted for pname("+c.name+")", nil)
			return
		}
		wit := map[string]any{"name": c.name, "name_length": len(c.name), "command_line": c.cmdline, "match_set_pname_go": fmt.Sprintf("%q", goVal), "pid_pname_kernel": fmt.Sprintf("%q", kern)}
		if !bytes.Equal(goVal, kern) {
			m.Violation("pname/bytes/"+c.class, fmt.Sprintf("pname(%s) [%d characters]: match_set.pname written by the control plane = %q, pid_pname.pname computed by the C side for a process of that name = %q: the 16-byte comparison can never be true",
				c.name, len(c.name), goVal, kern), wit)
			return
		}
		m.Count("pname_values_compared/"+c.class, 1)
		m.Distinct("pname|" + c.class + "|" + fmt.Sprint(strings.Contains(c.cmdline, " ")) + "|" + fmt.Sprint(strings.Contains(c.cmdline, "/")))
		// in action: route() with the C side's bytes as the flow's process name
		if i%4 == 0 || c.class != "shorter" {
			k.Reset()
			if _, err := verifLoadProgram(k, b.snap); err != nil {
				m.Violation("pname/load", err.Error(), wit)
				return
			}
			pk := vk.RPkt{L4: "tcp", Src: netip.MustParseAddrPort("10.9.9.5:999"), Dst: netip.MustParseAddrPort("203.0.114.9:443")}
			rq := verifRouteReq(pk, true)
			for j := 0; j < 4; j++ {
				rq.Flag[2+j] = binary.NativeEndian.Uint32(kern[j*4:])
			}
			k.QRoute(&rq)
			res := k.Sync()
			if k.Dead() != nil {
				m.Violation("pname/sanitizer", k.Dead().Error(), wit)
				return
			}
			got := id2name[uint8(res[len(res)-1].Route&0xff)]
			if got != verifGroups[2] {
				m.Violation("pname/route/"+c.class, fmt.Sprintf("route() for a WAN flow of process %q (kernel bytes %q) with rule pname(%s) picked %q, not the rule's group", c.name, kern, c.name, got), wit)
				return
			}
			m.Count("pname_rules_hit_in_route", 1)
		}
	}
}
