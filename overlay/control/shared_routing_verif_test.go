package control

// Shared helpers for the routing monitors (C01, C02, C03, C04, C12).

import (
	"fmt"
	"io"
	"net/netip"
	"sort"
	"strings"

	"github.com/daeuniverse/dae/common/consts"
	"github.com/daeuniverse/dae/component/routing"
	"github.com/daeuniverse/dae/config"
	"github.com/daeuniverse/dae/pkg/config_parser"
	vk "github.com/daeuniverse/dae/verifkit"
	"github.com/sirupsen/logrus"
)

func verifQuietLog() *logrus.Logger {
	l := logrus.New()
	l.SetOutput(io.Discard)
	l.SetLevel(logrus.PanicLevel)
	return l
}

// Group names are chosen so that the must_ shorthand cannot be stripped sloppily without being
// noticed: us_proxy / proxy differ by a prefix made of the letters of "must_", sm_t consists of
// such letters only.
var verifGroups = []string{"g0", "proxy", "us_proxy", "sm_t"}

// verifGroupIDs optionally overrides the outbound ids of verifGroups.
var verifGroupIDs []uint8

func verifOutboundTable() (name2id map[string]uint8, id2name map[uint8]string) {
	name2id = map[string]uint8{"direct": uint8(consts.OutboundDirect), "block": uint8(consts.OutboundBlock)}
	for i, g := range verifGroups {
		name2id[g] = uint8(consts.OutboundUserDefinedMin) + uint8(i)
		if i < len(verifGroupIDs) {
			name2id[g] = verifGroupIDs[i]
		}
	}
	id2name = map[uint8]string{}
	for k, v := range name2id {
		id2name[v] = k
	}
	return
}

// verifParseRouting sends the routing text through the production front end:
// config_parser.Parse -> config.New (incl. patchMustOutbound).
func verifParseRouting(routingText string) (rules []*config_parser.RoutingRule, fallback config.FunctionOrString, err error) {
	text := "global {}\n" + routingText
	sections, err := config_parser.Parse(text)
	if err != nil {
		return nil, nil, fmt.Errorf("Parse: %w", err)
	}
	conf, err := config.New(sections)
	if err != nil {
		return nil, nil, fmt.Errorf("config.New: %w", err)
	}
	return conf.Routing.Rules, conf.Routing.Fallback, nil
}

func verifProductionOptimizers() []routing.RulesOptimizer {
	log := verifQuietLog()
	// same list and order as newControlPlaneWithContextOptions (control_plane.go)
	return []routing.RulesOptimizer{
		&routing.AliasOptimizer{},
		&routing.DatReaderOptimizer{Logger: log},
		&routing.MergeAndSortRulesOptimizer{},
		&routing.DeduplicateParamsOptimizer{},
	}
}

type verifBuilt struct {
	cp      *ControlPlane
	matcher *RoutingMatcher
	snap    *routingKernspaceSnapshot
	nSets   int
}

func verifBuildMatcher(rules []*config_parser.RoutingRule, fallback config.FunctionOrString, opts ...routing.RulesOptimizer) (b *verifBuilt, err error) {
	defer func() {
		if r := recover(); r != nil {
			err = fmt.Errorf("PANIC while building: %v", r)
		}
	}()
	name2id, _ := verifOutboundTable()
	prog, err := routing.NewNormalizedProgram(rules, fallback, opts...)
	if err != nil {
		return nil, err
	}
	builder, err := NewRoutingMatcherBuilderFromProgram(verifQuietLog(), prog, name2id, nil)
	if err != nil {
		return nil, err
	}
	snap := builder.KernspaceSnapshot()
	n := len(builder.rules)
	m, err := builder.BuildUserspace()
	if err != nil {
		return nil, err
	}
	cp := &ControlPlane{}
	cp.routingMatcher = m
	return &verifBuilt{cp: cp, matcher: m, snap: snap, nSets: n}, nil
}

func verifL4(s string) consts.L4ProtoType {
	if s == "tcp" {
		return consts.L4ProtoType_TCP
	}
	return consts.L4ProtoType_UDP
}

func verifPname(s string) (p [16]uint8) {
	copy(p[:], s)
	return
}

// verifRoute runs ControlPlane.Route on a packet description.
func verifRoute(b *verifBuilt, k vk.RPkt) (d vk.RDecision, err error) {
	defer func() {
		if r := recover(); r != nil {
			err = fmt.Errorf("PANIC in Route: %v", r)
		}
	}()
	_, id2name := verifOutboundTable()
	rr := &bpfRoutingResult{Mac: k.Mac, Pname: verifPname(k.Pname), Dscp: k.Dscp}
	ob, mark, must, err := b.cp.Route(k.Src, k.Dst, k.Domain, verifL4(k.L4), rr)
	if err != nil {
		return d, err
	}
	name, ok := id2name[uint8(ob)]
	if !ok {
		name = ob.String()
	}
	return vk.RDecision{Outbound: name, Mark: mark, Must: must}, nil
}

func verifSameDecision(a, b vk.RDecision) bool {
	return a.Outbound == b.Outbound && a.Mark == b.Mark && a.Must == b.Must
}

func verifAddrIs6(a netip.Addr) bool { return a.Is6() && !a.Is4In6() }

func verifProgHas(p *vk.RProg, f func(c vk.RCond) bool) bool {
	for _, r := range p.Rules {
		for _, c := range r.Conds {
			if f(c) {
				return true
			}
		}
	}
	return false
}

func verifCondSig(c vk.RCond) string {
	s := c.Func
	if c.Not {
		s = "!" + s
	}
	ks := map[string]bool{}
	for _, p := range c.Params {
		ks[p.Key] = true
	}
	var l []string
	for k := range ks {
		l = append(l, k)
	}
	sort.Strings(l)
	return s + "[" + strings.Join(l, ",") + "]"
}

// verifMinimize greedily removes rules, conditions and values while bad(p) holds.
func verifMinimize(p *vk.RProg, bad func(*vk.RProg) bool) *vk.RProg {
	clone := func(p *vk.RProg) *vk.RProg {
		q := &vk.RProg{Fallback: p.Fallback}
		for _, r := range p.Rules {
			nr := vk.RRule{Out: r.Out}
			for _, c := range r.Conds {
				nc := vk.RCond{Func: c.Func, Not: c.Not, Params: append([]vk.RParam(nil), c.Params...)}
				nr.Conds = append(nr.Conds, nc)
			}
			q.Rules = append(q.Rules, nr)
		}
		return q
	}
	cur := clone(p)
	for changed := true; changed; {
		changed = false
		for i := 0; i < len(cur.Rules); i++ {
			q := clone(cur)
			q.Rules = append(q.Rules[:i], q.Rules[i+1:]...)
			if bad(q) {
				cur, changed = q, true
				i--
			}
		}
		for i := range cur.Rules {
			for j := 0; j < len(cur.Rules[i].Conds); j++ {
				if len(cur.Rules[i].Conds) == 1 {
					break
				}
				q := clone(cur)
				q.Rules[i].Conds = append(q.Rules[i].Conds[:j], q.Rules[i].Conds[j+1:]...)
				if bad(q) {
					cur, changed = q, true
					j--
				}
			}
			for j := range cur.Rules[i].Conds {
				for k := 0; k < len(cur.Rules[i].Conds[j].Params); k++ {
					if len(cur.Rules[i].Conds[j].Params) == 1 {
						break
					}
					q := clone(cur)
					ps := q.Rules[i].Conds[j].Params
					q.Rules[i].Conds[j].Params = append(ps[:k], ps[k+1:]...)
					if bad(q) {
						cur, changed = q, true
						k--
					}
				}
			}
		}
	}
	return cur
}

func verifProgShape(p *vk.RProg) string {
	var l []string
	for _, r := range p.Rules {
		l = append(l, r.ShapeSig())
	}
	return strings.Join(l, ";")
}

type verifPipeline struct {
	name string
	opts func() []routing.RulesOptimizer
}

func verifPipelines() []verifPipeline {
	return []verifPipeline{
		{"alias-only", func() []routing.RulesOptimizer { return []routing.RulesOptimizer{&routing.AliasOptimizer{}} }},
		{"production", verifProductionOptimizers},
	}
}

// verifCheckProgram compiles text through one pipeline and compares all packets.
// Returns the first mismatching packet (or build error).
func verifCheckProgram(p *vk.RProg, pl verifPipeline, pkts []vk.RPkt, onEval func(k vk.RPkt, ref vk.RDecision)) (bad *vk.RPkt, got vk.RDecision, err error) {
	rules, fb, err := verifParseRouting(p.Text())
	if err != nil {
		return nil, got, err
	}
	b, err := verifBuildMatcher(rules, fb, pl.opts()...)
	if err != nil {
		return nil, got, err
	}
	for i := range pkts {
		ref := vk.RefRoute(p, pkts[i])
		d, rerr := verifRoute(b, pkts[i])
		if onEval != nil {
			onEval(pkts[i], ref)
		}
		if rerr != nil {
			return &pkts[i], vk.RDecision{Outbound: "ERROR: " + rerr.Error()}, nil
		}
		if !verifSameDecision(ref, d) {
			return &pkts[i], d, nil
		}
	}
	return nil, got, nil
}

