package control

// C19 monitor, class "slots in action": tables that one side fills and the other side reads
// by a CONSTANT or ENUMERATED slot (counters, parameter slots, per-protocol / per-family
// tables). A slot number is a map key both sides compute for one logical entity ("the UDP
// overflow counter", "the TCP/IPv6 listener", "LPM set i of this generation"); a drift
// compiles on both sides and no layout table shows it. Every known consumer is therefore
// exercised END TO END: the real TC program runs in kernsim, the PRODUCTION Go writer /
// reader runs against a REAL kernel map of the type and sizes the C declaration gives, the
// map contents travel verbatim between the two, and what comes out is compared per logical
// entity with what the monitor itself caused - with values chosen so that the entities are
// told apart (distinct, non-zero).

import (
	"encoding/binary"
	"errors"
	"fmt"
	"go/ast"
	"go/constant"
	"go/parser"
	"go/token"
	"go/types"
	"net"
	"net/netip"
	"os"
	"path/filepath"
	"regexp"
	"sort"
	"strings"
	"syscall"
	"unicode"
	"unsafe"

	"github.com/cilium/ebpf"
	"github.com/cilium/ebpf/rlimit"
	"github.com/daeuniverse/dae/common/consts"
	vk "github.com/daeuniverse/dae/verifkit"
	"golang.org/x/sys/unix"
)

type c19Rng interface{ IntN(int) int }

// c19SlotConsumers: the by-slot consumers this monitor knows (the report lists them; each has a
// counter slot_consumer_exercised/<map> that must be > 0).
var c19SlotConsumers = []map[string]string{
	{"map": "bpf_stats_map", "direction": "C writes, Go reads", "c": "conn_state_map overflow paths, slot = enum bpf_stats_key", "go": "(*ControlPlane).readMapOverflowCounters -> readBpfStatsCounter (slots 0 / 1)", "exercised_by": "c19StatsSlots"},
	{"map": "listen_socket_map", "direction": "Go writes, C reads", "c": "assign_listener: zero_key / one_key / two_key by (l4proto, skb->protocol)", "go": "(*ControlPlane).publishListenerSockets (consts.ZeroKey / OneKey / TwoKey)", "exercised_by": "c19ListenSlots"},
	{"map": "lpm_array_map", "direction": "Go writes, C reads", "c": "route_match_lpm: slot = match_set.index", "go": "buildRoutingKernspace: slot = ring position of LPM set i, and the index rewritten into routing_map", "exercised_by": "c19RoutingSlots"},
	{"map": "routing_meta_map", "direction": "Go writes, C reads", "c": "route(): slot zero_key = number of active match sets", "go": "buildRoutingKernspace: Update(uint32(0), len(rules))", "exercised_by": "c19RoutingSlots"},
	{"map": "routing_map", "direction": "Go writes, C reads", "c": "route loop: slot = rule index", "go": "buildRoutingKernspace: BpfMapBatchUpdate(ARange(len))", "exercised_by": "c19RoutingSlots"},
	{"map": "outbound_connectivity_map", "direction": "Go writes, C reads", "c": "slot = outbound*6 + domain*2 + ipversion", "go": "outboundConnectivityMapKey", "exercised_by": "c19KeysInAction (2): connectivity_slots_probed"},
}

func c19MapInfo(k *vk.KS) (map[string]vk.MapInfo, map[string]int) {
	out, ids := map[string]vk.MapInfo{}, map[string]int{}
	for i, mi := range k.MapInfo() {
		out[mi.Name] = mi
		ids[mi.Name] = i
	}
	return out, ids
}

func c19UintOf(b []byte) uint64 {
	var v uint64
	for i := len(b) - 1; i >= 0; i-- { // native order of the machines this runs on (little endian, as kernsim's w32/w64)
		v = v<<8 | uint64(b[i])
	}
	if binary.NativeEndian.Uint16([]byte{1, 0}) != 1 {
		v = 0
		for i := 0; i < len(b); i++ {
			v = v<<8 | uint64(b[i])
		}
	}
	return v
}

func c19RandAddr(r c19Rng, v6 bool) netip.Addr {
	if v6 {
		var a [16]byte
		for j := range a {
			a[j] = byte(r.IntN(256))
		}
		a[0] = 0x20
		return netip.AddrFrom16(a)
	}
	return netip.AddrFrom4([4]byte{byte(1 + r.IntN(223)), byte(r.IntN(256)), byte(r.IntN(256)), byte(r.IntN(256))})
}

// c19LoadFallbackProgram: everything goes to the proxy group verifGroups[1], every network type alive.
func c19LoadFallbackProgram(m *vk.Monitor, k *vk.KS) bool {
	p := &vk.RProg{Fallback: vk.ROut{Name: verifGroups[1]}}
	rules, fb, err := verifParseRouting(p.Text())
	if err != nil {
		m.Inconclusive("slots: %v", err)
		return false
	}
	b, err := verifBuildMatcher(rules, fb, verifProductionOptimizers()...)
	if err != nil {
		m.Inconclusive("slots: %v", err)
		return false
	}
	k.Reset()
	var prm bpfDaeParam
	prm.Dae0Ifindex = 9
	prm.ControlPlanePid = 1
	k.SetParam(verifRaw(&prm))
	k.SetTime(7000e9)
	if _, err := verifLoadProgram(k, b.snap); err != nil {
		m.Inconclusive("slots: load: %v", err)
		return false
	}
	name2id, _ := verifOutboundTable()
	for _, udp := range []bool{false, true} {
		for _, v6 := range []bool{false, true} {
			k.QMapUpdate("outbound_connectivity_map", verifU32(outboundConnectivityMapKey(name2id[verifGroups[1]], c03NetworkType(udp, v6))), verifU32(1), 0)
		}
	}
	k.Sync()
	return k.Dead() == nil
}

// ---- (A) bpf_stats_map: the TC program counts, the control plane reads ---------------------

type c19StatFrame struct {
	Frame     string
	Hook      uint8
	Proto     uint8
	Increment uint64
}

func c19StatsSlots(m *vk.Monitor, k *vk.KS, r c19Rng, l *c19CLayout) {
	infos, _ := c19MapInfo(k)
	mi, ok := infos["bpf_stats_map"]
	cs, ok2 := infos["conn_state_map"]
	if !ok || !ok2 || mi.MaxEntries == 0 || mi.MaxEntries > 64 {
		m.Count("stats_map_not_declared_by_the_c_program", 1)
		return
	}
	_ = rlimit.RemoveMemlock()
	realMap, err := ebpf.NewMap(&ebpf.MapSpec{Name: "c19_bpf_stats", Type: ebpf.MapType(mi.Type), KeySize: mi.KeySize, ValueSize: mi.ValSize, MaxEntries: mi.MaxEntries})
	if err != nil {
		m.Count("slot_real_maps_unavailable", 1)
		m.Set("slot_real_map_error/bpf_stats_map", err.Error())
		return
	}
	defer realMap.Close()
	defer k.SetMax("conn_state_map", cs.MaxEntries)
	// the C enumerators that name the slots (evidence and witnesses only; the verdict is about behaviour)
	cEnum := map[string]int64{}
	for n, v := range l.consts {
		if strings.HasPrefix(n, "BPF_STATS_") {
			cEnum[n] = v
		}
	}
	readSlots := func() ([][]byte, uint64) {
		for i := uint32(0); i < mi.MaxEntries; i++ {
			k.QMapGet("bpf_stats_map", verifU32(i))
		}
		res := k.Sync()
		out := make([][]byte, 0, mi.MaxEntries)
		var sum uint64
		for _, q := range res[len(res)-int(mi.MaxEntries):] {
			v := q.Val
			if !q.Found || len(v) != int(mi.ValSize) {
				v = make([]byte, mi.ValSize)
			}
			out = append(out, v)
			sum += c19UintOf(v)
		}
		return out, sum
	}
	hooks := []uint8{vk.HookLanIngressL2, vk.HookWanIngressL2, vk.HookLanEgressL2}
	rounds := vk.Scale(8, 80)
	for round := 0; round < rounds; round++ {
		if !c19LoadFallbackProgram(m, k) {
			return
		}
		k.SetMax("conn_state_map", cs.MaxEntries)
		// some flows that own a slot before the table fills up
		mkFrame := func(proto uint8) (vk.Frame, uint8) {
			v6 := r.IntN(2) == 0
			f := vk.Frame{L2: true, Src: c19RandAddr(r, v6), Dst: c19RandAddr(r, v6), Sport: uint16(1024 + r.IntN(60000)), Dport: uint16(1024 + r.IntN(60000)), Payload: 8,
				SrcMac: [6]byte{2, 0, 0, 0, 7, byte(r.IntN(256))}, Proto: proto, Syn: proto == 6}
			return f, hooks[r.IntN(len(hooks))]
		}
		send := func(f vk.Frame, hook uint8) {
			data := f.Bytes()
			ifx := uint32(2)
			if hook != vk.HookLanIngressL2 {
				ifx = 3
			}
			k.QPkt(&vk.PktReq{Hook: hook, Protocol: f.SkbProtocol(), Ifindex: ifx, PullMode: vk.PullForceOK, HeadLen: uint32(len(data)), Data: data})
		}
		type owned struct {
			f    vk.Frame
			hook uint8
		}
		var owners []owned
		for i, n := 0, r.IntN(4); i < n; i++ {
			f, h := mkFrame([]uint8{6, 17}[r.IntN(2)])
			owners = append(owners, owned{f, h})
			send(f, h)
		}
		k.Sync()
		if k.Dead() != nil {
			m.Violation("keys/sanitizer", k.Dead().Error(), nil)
			return
		}
		k.SetMax("conn_state_map", uint32(len(k.MapDump("conn_state_map")))) // full: no further flow gets a slot
		// the monitor's choice: how many NEW flows of each protocol hit the full table
		nU, nT := 1+r.IntN(9), 1+r.IntN(9)
		for nU == nT {
			nT = 1 + r.IntN(9)
		}
		var seq []uint8
		for i := 0; i < nU; i++ {
			seq = append(seq, 17)
		}
		for i := 0; i < nT; i++ {
			seq = append(seq, 6)
		}
		for i := 0; i < len(owners); i++ {
			seq = append(seq, 0) // a frame of a flow that already owns a slot
		}
		for i := len(seq) - 1; i > 0; i-- {
			j := r.IntN(i + 1)
			seq[i], seq[j] = seq[j], seq[i]
		}
		var caused [256]uint64 // increments caused by frames of this IP protocol
		var hist []c19StatFrame
		_, prev := readSlots()
		ownerNext := 0
		for si, proto := range seq {
			var f vk.Frame
			var hook uint8
			if proto == 0 {
				o := owners[ownerNext]
				ownerNext++
				f, hook = o.f, o.hook
				f.Syn = false
				f.Ack = f.Proto == 6
			} else {
				f, hook = mkFrame(proto)
			}
			send(f, hook)
			slots, sum := readSlots()
			if k.Dead() != nil {
				m.Violation("keys/sanitizer", k.Dead().Error(), nil)
				return
			}
			inc := sum - prev
			prev = sum
			caused[f.Proto] += inc
			hist = append(hist, c19StatFrame{Frame: f.String(), Hook: hook, Proto: f.Proto, Increment: inc})
			if inc > 0 {
				m.Count(fmt.Sprintf("stats_overflows_caused/proto%d", f.Proto), int64(inc))
			} else if proto != 0 {
				m.Count("stats_new_flow_frames_without_overflow", 1)
			}
			if si != len(seq)-1 && r.IntN(4) != 0 {
				continue
			}
			// what the kernel map holds now, slot by slot, into a real map; then the production reader
			for i, v := range slots {
				if err := realMap.Update(uint32(i), v, ebpf.UpdateAny); err != nil {
					m.Count("slot_real_map_update_failed", 1)
					m.Set("slot_real_map_error/bpf_stats_map", err.Error())
					return
				}
			}
			m.Eval(1)
			gotU, gotT, perr := c19ReadOverflow(realMap)
			if perr != nil {
				m.Violation("slots/bpf-stats-reader-panic", "readMapOverflowCounters panicked: "+perr.Error(), nil)
				return
			}
			wantU, wantT := caused[17], caused[6]
			if wantU == wantT {
				m.Count("stats_reads_with_equal_counts(not judged)", 1)
				continue
			}
			m.Count("stats_reads_judged", 1)
			if wantU > 0 && wantT > 0 {
				m.Count("stats_reads_judged_distinct_nonzero", 1)
				m.Distinct(fmt.Sprintf("stats-slots|udp%s", map[bool]string{true: ">tcp", false: "<tcp"}[wantU > wantT]))
			} else {
				m.Distinct(fmt.Sprintf("stats-slots|one-protocol-only|udp=%v", wantU > 0))
			}
			if gotU != wantU || gotT != wantT {
				slotHex := []string{}
				for i, v := range slots {
					slotHex = append(slotHex, fmt.Sprintf("bpf_stats_map[%d]=%d", i, c19UintOf(v)))
				}
				what := "other values"
				if gotU == wantT && gotT == wantU {
					what = "each protocol's count under the other protocol"
				}
				m.Violation("slots/bpf-stats-reader", fmt.Sprintf("conn_state_map overflowed %d times for UDP flows and %d times for TCP flows (frames sent by the monitor, counted per frame in the TC program's bpf_stats_map); readMapOverflowCounters on the same map contents reports udpOverflow=%d tcpOverflow=%d: %s",
					wantU, wantT, gotU, gotT, what),
					map[string]any{"kernel_map": slotHex, "c_enum_bpf_stats_key": cEnum, "frames": hist, "reader": map[string]uint64{"udpOverflow": gotU, "tcpOverflow": gotT}})
				return
			}
			m.Count("slot_consumer_exercised/bpf_stats_map", 1)
		}
		if m.WantSample() {
			m.Sample(map[string]any{"class": "bpf_stats_map slots", "udp_overflows_caused": caused[17], "tcp_overflows_caused": caused[6], "c_enum_bpf_stats_key": cEnum})
		}
	}
}

func c19ReadOverflow(mp *ebpf.Map) (u, t uint64, err error) {
	defer func() {
		if p := recover(); p != nil {
			err = fmt.Errorf("%v", p)
		}
	}()
	cp := &ControlPlane{log: verifQuietLog()}
	u, t = cp.readMapOverflowCounters(mp)
	return
}

// ---- (B) listen_socket_map: the control plane publishes its listeners, the TC program picks one ----

func c19SockCookie(c syscall.Conn) (cookie uint64, typ, family int, err error) {
	rc, err := c.SyscallConn()
	if err != nil {
		return 0, 0, 0, err
	}
	var e1 error
	if err := rc.Control(func(fd uintptr) {
		if cookie, e1 = unix.GetsockoptUint64(int(fd), unix.SOL_SOCKET, unix.SO_COOKIE); e1 != nil {
			return
		}
		if typ, e1 = unix.GetsockoptInt(int(fd), unix.SOL_SOCKET, unix.SO_TYPE); e1 != nil {
			return
		}
		family, e1 = unix.GetsockoptInt(int(fd), unix.SOL_SOCKET, unix.SO_DOMAIN)
	}); err != nil {
		return 0, 0, 0, err
	}
	return cookie, typ, family, e1
}

func c19ListenSlots(m *vk.Monitor, k *vk.KS, r c19Rng, l *c19CLayout) {
	infos, ids := c19MapInfo(k)
	mi, ok := infos["listen_socket_map"]
	if !ok || mi.MaxEntries == 0 || mi.MaxEntries > 64 {
		m.Count("listen_socket_map_not_declared_by_the_c_program", 1)
		return
	}
	tproxyMark, okMark := l.consts["TPROXY_MARK"]
	if !okMark {
		m.Count("listen_slots_tproxy_mark_unknown", 1)
		return
	}
	_ = rlimit.RemoveMemlock()
	realMap, err := ebpf.NewMap(&ebpf.MapSpec{Name: "c19_listen_sock", Type: ebpf.MapType(mi.Type), KeySize: mi.KeySize, ValueSize: mi.ValSize, MaxEntries: mi.MaxEntries})
	if err != nil {
		m.Count("slot_real_maps_unavailable", 1)
		m.Set("slot_real_map_error/listen_socket_map", err.Error())
		return
	}
	defer realMap.Close()
	core := &controlPlaneCore{log: verifQuietLog()}
	core.bpf.Store(&bpfObjects{bpfMaps: bpfMaps{ListenSocketMap: realMap}})
	cp := &ControlPlane{log: verifQuietLog(), core: core, listenIp: "127.0.0.1"}
	defer func() { _ = cp.closePublishedListenerFiles() }()
	if !c19LoadFallbackProgram(m, k) {
		return
	}
	var prev *Listener
	defer func() {
		if prev != nil {
			_ = prev.Close()
		}
	}()
	gens := vk.Scale(3, 12)
	for gen := 0; gen < gens; gen++ {
		// the production constructor (tcp4 + tcp6 + dual-stack udp on one port); where the sandbox
		// lacks a family, whatever can be opened
		var ln *Listener
		for try := 0; try < 30 && ln == nil; try++ {
			if x, err := cp.Listen(uint16(20000 + r.IntN(40000))); err == nil {
				ln = x
			}
		}
		if ln == nil {
			ln = &Listener{}
			if x, err := net.Listen("tcp4", "127.0.0.1:0"); err == nil {
				ln.tcp4Listener = x
			}
			if x, err := net.Listen("tcp6", "[::1]:0"); err == nil {
				ln.tcp6Listener = x
			}
			if x, err := net.ListenPacket("udp", "127.0.0.1:0"); err == nil {
				ln.packetConn = x
			}
			m.Count("listen_generations_with_hand_made_listeners", 1)
		} else {
			m.Count("listen_generations_from_ControlPlane.Listen", 1)
		}
		if err := cp.publishListenerSockets(ln); err != nil {
			m.Count("listen_publish_failed", 1)
			m.Set("listen_publish_error", err.Error())
			_ = ln.Close()
			return
		}
		if prev != nil {
			_ = prev.Close() // the previous generation's listeners go away after the hand-over
		}
		prev = ln
		// logical entity -> the kernel's identity of the socket the Go side calls by that name
		type ent struct {
			name   string
			cookie uint64
			typ    int
			family int
		}
		ents := map[string]*ent{}
		add := func(name string, c any) {
			sc, ok := c.(syscall.Conn)
			if !ok || c == nil {
				return
			}
			if ck, ty, fam, err := c19SockCookie(sc); err == nil && ck != 0 {
				ents[name] = &ent{name, ck, ty, fam}
			}
		}
		if ln.tcp4Listener != nil {
			add("tcp4Listener", ln.tcp4Listener)
		}
		if ln.tcp6Listener != nil {
			add("tcp6Listener", ln.tcp6Listener)
		}
		if ln.packetConn != nil {
			add("packetConn", ln.packetConn)
		}
		// the table as the kernel holds it: slot -> socket cookie
		slotCookie := map[uint32]uint64{}
		for i := uint32(0); i < mi.MaxEntries; i++ {
			var ck uint64
			if err := realMap.Lookup(i, &ck); err == nil {
				slotCookie[i] = ck
			} else if !errors.Is(err, ebpf.ErrKeyNotExist) {
				m.Count("listen_real_map_lookup_failed", 1)
				m.Set("slot_real_map_error/listen_socket_map", err.Error())
				return
			}
		}
		describe := func() map[string]any {
			d := map[string]any{}
			for i, ck := range slotCookie {
				who := "?"
				for _, e := range ents {
					if e.cookie == ck {
						who = fmt.Sprintf("%s (SO_TYPE %d, SO_DOMAIN %d)", e.name, e.typ, e.family)
					}
				}
				d[fmt.Sprintf("listen_socket_map[%d]", i)] = who
			}
			return d
		}
		classes := []struct {
			proto uint8
			v6    bool
			want  string
		}{{6, false, "tcp4Listener"}, {6, true, "tcp6Listener"}, {17, false, "packetConn"}, {17, true, "packetConn"}}
		order := []int{0, 1, 2, 3, r.IntN(4), r.IntN(4), r.IntN(4), r.IntN(4)}
		for i := len(order) - 1; i > 0; i-- {
			j := r.IntN(i + 1)
			order[i], order[j] = order[j], order[i]
		}
		{
			for _, ci := range order {
				cl := classes[ci]
				f := vk.Frame{L2: true, Src: c19RandAddr(r, cl.v6), Dst: c19RandAddr(r, cl.v6), Sport: uint16(1024 + r.IntN(60000)), Dport: uint16(1024 + r.IntN(60000)), Payload: 8,
					SrcMac: [6]byte{2, 0, 0, 0, 9, byte(r.IntN(256))}, Proto: cl.proto, Syn: cl.proto == 6}
				data := f.Bytes()
				first := k.Pkt(&vk.PktReq{Hook: vk.HookLanIngressL2, Protocol: f.SkbProtocol(), Ifindex: 2, PullMode: vk.PullForceOK, HeadLen: uint32(len(data)), Data: data})
				if k.Dead() != nil {
					m.Violation("keys/sanitizer", k.Dead().Error(), nil)
					return
				}
				if first.Redirected == 0 || int64(first.Cb0) != tproxyMark {
					m.Count("listen_frames_not_handed_to_the_control_plane", 1)
					continue
				}
				// the frame as it arrives on dae0's peer, with the cb[] words the first program left
				second := k.Pkt(&vk.PktReq{Hook: vk.HookDae0PeerIngress, Protocol: f.SkbProtocol(), Ifindex: 9, Cb0: first.Cb0, Cb1: first.Cb1, PullMode: vk.PullForceOK, HeadLen: uint32(len(first.Out)), Data: first.Out})
				if k.Dead() != nil {
					m.Violation("keys/sanitizer", k.Dead().Error(), nil)
					return
				}
				var asked []uint32
				for _, e := range second.Events {
					if e.Kind == 4 && int(e.MapID) == ids["listen_socket_map"] && len(e.Key) == 4 {
						asked = append(asked, binary.NativeEndian.Uint32(e.Key))
					}
				}
				if len(asked) != 1 {
					m.Count("listen_frames_without_a_single_listener_lookup", 1)
					continue
				}
				want := ents[cl.want]
				if want == nil {
					m.Count("listen_classes_without_listener_in_this_sandbox", 1)
					continue
				}
				m.Eval(1)
				fam := map[bool]string{false: "IPv4", true: "IPv6"}[cl.v6]
				got, present := slotCookie[asked[0]]
				if !present || got != want.cookie {
					holds := "no socket"
					for _, e := range ents {
						if present && e.cookie == got {
							holds = "the socket the control plane calls " + e.name
						}
					}
					if present && holds == "no socket" {
						holds = "a socket of an earlier generation"
					}
					m.Violation("slots/listen-socket", fmt.Sprintf("a proto-%d/%s flow handed to the control plane: the TC program takes its listener from listen_socket_map[%d], where publishListenerSockets left %s; the listener for this flow is %s",
						cl.proto, fam, asked[0], holds, cl.want),
						map[string]any{"frame": f.String(), "slot_asked_by_tc_program": asked[0], "table_after_publishListenerSockets": describe(), "generation": gen})
					return
				}
				m.Count("listen_slot_lookups_agree", 1)
				m.Count("slot_consumer_exercised/listen_socket_map", 1)
				m.Distinct(fmt.Sprintf("listen-slot|proto%d|%s", cl.proto, fam))
			}
		}
		if gen == 0 {
			m.Sample(map[string]any{"class": "listen_socket_map slots", "table_after_publishListenerSockets": describe()})
		}
	}
}

// ---- (C) routing_map / routing_meta_map / lpm_array_map through the production installer ----

type c19RoutingMaps struct {
	routing, meta, lpmArray, lpmType *ebpf.Map
}

func (x *c19RoutingMaps) close() {
	for _, mp := range []*ebpf.Map{x.routing, x.meta, x.lpmArray, x.lpmType} {
		if mp != nil {
			_ = mp.Close()
		}
	}
}

func c19NewRoutingMaps(infos map[string]vk.MapInfo) (*c19RoutingMaps, error) {
	x := &c19RoutingMaps{}
	spec := func(name, as string) *ebpf.MapSpec {
		mi := infos[name]
		return &ebpf.MapSpec{Name: as, Type: ebpf.MapType(mi.Type), KeySize: mi.KeySize, ValueSize: mi.ValSize, MaxEntries: mi.MaxEntries}
	}
	lpm := spec("unused_lpm_type", "c19_lpm_type")
	lpm.Flags = 1 // BPF_F_NO_PREALLOC, mandatory for LPM tries
	arr := spec("lpm_array_map", "c19_lpm_array")
	arr.ValueSize = 4
	arr.InnerMap = lpm.Copy()
	var err error
	for _, it := range []struct {
		dst  **ebpf.Map
		spec *ebpf.MapSpec
	}{{&x.routing, spec("routing_map", "c19_routing")}, {&x.meta, spec("routing_meta_map", "c19_routing_meta")}, {&x.lpmType, lpm}, {&x.lpmArray, arr}} {
		if *it.dst, err = ebpf.NewMap(it.spec); err != nil {
			x.close()
			return nil, fmt.Errorf("%s: %w", it.spec.Name, err)
		}
	}
	return x, nil
}

// c19MirrorRouting copies the three kernel tables verbatim into kernsim's.
func c19MirrorRouting(k *vk.KS, x *c19RoutingMaps, infos map[string]vk.MapInfo) (desc []string, err error) {
	k.Reset()
	tries := map[uint32]bool{}
	var refs []string
	for i := uint32(0); i < x.lpmArray.MaxEntries(); i++ {
		var id uint32
		e := x.lpmArray.Lookup(i, &id)
		if errors.Is(e, ebpf.ErrKeyNotExist) {
			continue
		}
		if e != nil {
			return nil, fmt.Errorf("read lpm_array_map[%d]: %w", i, e)
		}
		inner, e := ebpf.NewMapFromID(ebpf.MapID(id))
		if e != nil {
			return nil, fmt.Errorf("open inner map of lpm_array_map[%d]: %w", i, e)
		}
		var ents []vk.LpmEnt
		key := make([]byte, inner.KeySize())
		var v uint32
		it := inner.Iterate()
		for it.Next(&key, &v) {
			if len(key) != 20 {
				_ = inner.Close()
				return nil, fmt.Errorf("inner trie key of %d bytes", len(key))
			}
			en := vk.LpmEnt{PrefixLen: binary.NativeEndian.Uint32(key[:4])}
			copy(en.Data[:], key[4:])
			ents = append(ents, en)
		}
		e = it.Err()
		_ = inner.Close()
		if e != nil {
			return nil, fmt.Errorf("iterate inner map of lpm_array_map[%d]: %w", i, e)
		}
		if rc, _ := k.LpmSet(i, ents); rc != 0 {
			return nil, fmt.Errorf("kernsim refuses the trie of lpm_array_map[%d]: rc=%d", i, rc)
		}
		desc = append(desc, fmt.Sprintf("lpm_array_map[%d]: trie with %d keys", i, len(ents)))
		tries[i] = true
	}
	meta := make([]byte, infos["routing_meta_map"].ValSize)
	if e := x.meta.Lookup(uint32(0), &meta); e != nil {
		return nil, fmt.Errorf("read routing_meta_map: %w", e)
	}
	n := x.routing.MaxEntries()
	for i := uint32(0); i < n; i++ {
		val := make([]byte, infos["routing_map"].ValSize)
		if e := x.routing.Lookup(i, &val); e != nil {
			return nil, fmt.Errorf("read routing_map[%d]: %w", i, e)
		}
		zero := true
		for _, b := range val {
			zero = zero && b == 0
		}
		if !zero {
			k.QMapUpdate("routing_map", verifU32(i), val, 0)
		}
		// for witnesses only: which slot of lpm_array_map this match set sends the kernel to
		if i < uint32(c19UintOf(meta)) && len(val) == int(unsafe.Sizeof(bpfMatchSet{})) {
			ms := (*bpfMatchSet)(unsafe.Pointer(&val[0]))
			switch consts.MatchType(ms.Type) {
			case consts.MatchType_IpSet, consts.MatchType_SourceIpSet, consts.MatchType_Mac:
				slot := binary.LittleEndian.Uint32(ms.Value[:4])
				if tries[slot] {
					refs = append(refs, fmt.Sprintf("routing_map[%d] (type %d) -> lpm_array_map[%d]: holds a trie", i, ms.Type, slot))
				} else {
					refs = append(refs, fmt.Sprintf("routing_map[%d] (type %d) -> lpm_array_map[%d]: NO TRIE THERE", i, ms.Type, slot))
				}
			}
		}
	}
	desc = append(desc, refs...)
	k.QMapUpdate("routing_meta_map", verifU32(0), meta, 0)
	for _, q := range k.Sync() {
		if q.Rc != 0 {
			return nil, fmt.Errorf("kernsim refuses a value read from the kernel's routing_map/routing_meta_map: rc=%d", q.Rc)
		}
	}
	desc = append(desc, fmt.Sprintf("routing_meta_map[0] = %d", c19UintOf(meta)))
	return desc, k.Dead()
}

func c19RoutingSlots(m *vk.Monitor, k *vk.KS, r c19Rng) {
	infos, _ := c19MapInfo(k)
	for _, n := range []string{"routing_map", "routing_meta_map", "lpm_array_map", "unused_lpm_type"} {
		if _, ok := infos[n]; !ok {
			m.Count("routing_tables_not_declared_by_the_c_program", 1)
			return
		}
	}
	_ = rlimit.RemoveMemlock()
	ring := uint32(infos["routing_map"].MaxEntries) // the ring of LPM slots has as many positions as there can be match sets
	saved := globalNextLpmIndex.Load()
	defer globalNextLpmIndex.Store(saved)
	_, id2name := verifOutboundTable()
	rounds := vk.Scale(6, 60)
	for round := 0; round < rounds; round++ {
		x, err := c19NewRoutingMaps(infos)
		if err != nil {
			m.Count("slot_real_maps_unavailable", 1)
			m.Set("slot_real_map_error/routing", err.Error())
			return
		}
		objs := &bpfObjects{bpfMaps: bpfMaps{RoutingMap: x.routing, RoutingMetaMap: x.meta, LpmArrayMap: x.lpmArray, UnusedLpmType: x.lpmType}}
		gens := 1 + r.IntN(2)
		for gen := 0; gen < gens; gen++ {
			// n address sets, neighbours with different outbounds so that every set keeps its own trie
			nsets := 2 + r.IntN(11)
			p := &vk.RProg{Fallback: vk.ROut{Name: verifGroups[0]}}
			base := byte(1 + r.IntN(100))
			for i := 0; i < nsets; i++ {
				fn := []string{"dip", "sip"}[r.IntN(2)]
				p.Rules = append(p.Rules, vk.RRule{Conds: []vk.RCond{{Func: fn, Params: []vk.RParam{{Val: fmt.Sprintf("10.%d.%d.0/24", base, i)}, {Val: fmt.Sprintf("2001:db8:%x:%x::/64", base, i)}}}},
					Out: vk.ROut{Name: verifGroups[1+i%3]}})
			}
			rules, fb, err := verifParseRouting(p.Text())
			if err != nil {
				m.Inconclusive("slots: %v", err)
				x.close()
				return
			}
			b, err := verifBuildMatcher(rules, fb, verifProductionOptimizers()...)
			if err != nil {
				m.Inconclusive("slots: %v", err)
				x.close()
				return
			}
			lpmCount := uint32(len(b.snap.simulatedLpmTries))
			// where earlier generations of this process left the ring: anywhere, or so that this block
			// crosses the end (the production allocator is what moves the cursor)
			target := uint32(r.IntN(int(ring)))
			wrapWanted := lpmCount >= 2 && (round == 0 && gen == 0 || r.IntN(2) == 0)
			if wrapWanted {
				target = ring - 1 - uint32(r.IntN(int(lpmCount-1)))
			}
			if adv := (target + ring - globalNextLpmIndex.Load()%ring) % ring; adv > 0 {
				if _, err := reserveLpmRingSlots(adv); err != nil {
					m.Inconclusive("slots: reserveLpmRingSlots(%d): %v", adv, err)
					x.close()
					return
				}
			}
			start := globalNextLpmIndex.Load()
			if _, err := b.snap.BuildKernspace(verifQuietLog(), objs); err != nil {
				m.Count("routing_install_failed", 1)
				m.Set("routing_install_error", err.Error())
				x.close()
				return
			}
			wrapped := start+lpmCount > ring
			if wrapped {
				m.Count("routing_installs_crossing_the_ring_end", 1)
			}
			if lpmCount >= 4 {
				m.Count("routing_installs_with_4_or_more_tries(parallel path)", 1)
			}
			desc, err := c19MirrorRouting(k, x, infos)
			if err != nil {
				m.Violation("slots/routing-tables-unreadable", "what BuildKernspace left in the kernel maps cannot be carried into the C program's maps: "+err.Error(), map[string]any{"rules": p.Text()})
				x.close()
				return
			}
			// one packet inside every set (both families) and one outside all of them
			var pkts []vk.RPkt
			for i := 0; i <= nsets; i++ {
				for _, v6 := range []bool{false, true} {
					in := netip.AddrFrom4([4]byte{10, base, byte(i), byte(1 + r.IntN(250))})
					out := netip.AddrFrom4([4]byte{172, 16, byte(r.IntN(256)), 9})
					if v6 {
						in = netip.AddrFrom16([16]byte{0x20, 0x01, 0x0d, 0xb8, 0, base, 0, byte(i), 15: byte(1 + r.IntN(250))})
						out = netip.AddrFrom16([16]byte{0xfd, 0, 15: 9})
					}
					if i == nsets {
						in = out
					}
					pkts = append(pkts, vk.RPkt{L4: "tcp", Src: netip.AddrPortFrom(out, 4000), Dst: netip.AddrPortFrom(in, 443)},
						vk.RPkt{L4: "udp", Src: netip.AddrPortFrom(in, 4000), Dst: netip.AddrPortFrom(out, 443)})
				}
			}
			for i := range pkts {
				rq := verifRouteReq(pkts[i], false)
				k.QRoute(&rq)
			}
			res := k.Sync()
			if k.Dead() != nil {
				m.Violation("keys/sanitizer", k.Dead().Error(), nil)
				x.close()
				return
			}
			outcomes := map[string]bool{}
			for i, q := range res {
				m.Eval(1)
				want := vk.RefRoute(p, pkts[i]).Outbound
				got := fmt.Sprintf("error %d", q.Route)
				if q.Route >= 0 {
					got = id2name[uint8(q.Route&0xff)]
				}
				if got != want {
					m.Violation("slots/routing-install", fmt.Sprintf("tables installed by BuildKernspace (ring position %d, %d LPM sets, crossing the ring end: %v), read back from the kernel and given to the TC program's route(): %s -> %s, the rules say %s",
						start, lpmCount, wrapped, pkts[i].String(), got, want),
						map[string]any{"rules": p.Text(), "ring_start": start, "lpm_sets": lpmCount, "kernel_tables": desc, "generation_in_these_maps": gen})
					x.close()
					return
				}
				outcomes[want] = true
			}
			if len(outcomes) < 2 {
				m.Count("routing_installs_with_a_single_outcome(not counted)", 1)
				continue
			}
			m.Count("slot_consumer_exercised/lpm_array_map", 1)
			m.Count("slot_consumer_exercised/routing_meta_map", 1)
			m.Count("slot_consumer_exercised/routing_map", 1)
			m.Distinct(fmt.Sprintf("routing-slots|wrapped=%v|parallel=%v|gen%d", wrapped, lpmCount >= 4, gen))
		}
		x.close()
	}
}

// ---- (E) enumerations kept in step by hand: pairing by NAME ---------------------------------

// c19Tokens splits an identifier into lower-case words (underscores, camel case, acronyms; digits stay with their word).
func c19Tokens(s string) []string {
	var out []string
	for _, part := range strings.FieldsFunc(s, func(c rune) bool { return c == '_' }) {
		rs := []rune(part)
		st := 0
		for i := 1; i < len(rs); i++ {
			lowerToUpper := unicode.IsUpper(rs[i]) && (unicode.IsLower(rs[i-1]) || unicode.IsDigit(rs[i-1]))
			acronymEnd := unicode.IsUpper(rs[i]) && unicode.IsUpper(rs[i-1]) && i+1 < len(rs) && unicode.IsLower(rs[i+1])
			if lowerToUpper || acronymEnd {
				out = append(out, strings.ToLower(string(rs[st:i])))
				st = i
			}
		}
		out = append(out, strings.ToLower(string(rs[st:])))
	}
	return out
}

// c19Member strips from the front of an enumerator's words those of the enumeration's own name
// (in order, any of them may be left out): BPF_STATS_UDP_CONN_OVERFLOW of bpf_stats_key and
// BpfStatsKey_UdpConnOverflow of BpfStatsKey both name the member "udp conn overflow".
func c19Member(name, typ []string) string {
	i := 0
	for _, tw := range typ {
		if i < len(name) && name[i] == tw {
			i++
		}
	}
	return strings.Join(name[i:], " ")
}

type c19GoConst struct {
	pkg, name, typ string
	val            int64
}

// c19GoConsts type-checks the non-test sources of a package directory (imports unresolved,
// errors ignored: integer constants built from literals, iota and each other still evaluate).
func c19GoConsts(dir string) []c19GoConst {
	fset := token.NewFileSet()
	ents, _ := os.ReadDir(dir)
	var files []*ast.File
	for _, e := range ents {
		n := e.Name()
		if e.IsDir() || !strings.HasSuffix(n, ".go") || strings.HasSuffix(n, "_test.go") || strings.HasPrefix(n, "zz_") {
			continue
		}
		f, err := parser.ParseFile(fset, filepath.Join(dir, n), nil, parser.SkipObjectResolution)
		if err != nil {
			continue
		}
		files = append(files, f)
	}
	conf := types.Config{Error: func(error) {}, Importer: c19NoImporter{}, DisableUnusedImportCheck: true}
	pkg, _ := conf.Check(filepath.Base(dir), fset, files, nil)
	if pkg == nil {
		return nil
	}
	var out []c19GoConst
	for _, n := range pkg.Scope().Names() {
		c, ok := pkg.Scope().Lookup(n).(*types.Const)
		if !ok || c.Val() == nil || c.Val().Kind() != constant.Int {
			continue
		}
		v, exact := constant.Int64Val(c.Val())
		if !exact {
			continue
		}
		gc := c19GoConst{pkg: filepath.Base(dir), name: n, val: v}
		if nt, ok := c.Type().(*types.Named); ok {
			gc.typ = nt.Obj().Name()
		}
		out = append(out, gc)
	}
	return out
}

type c19NoImporter struct{}

func (c19NoImporter) Import(path string) (*types.Package, error) {
	return nil, fmt.Errorf("imports are not resolved here")
}

var c19EnumRe = regexp.MustCompile(`\benum\s*(?:__attribute__\(\(\w+\)\))?\s*(\w*)\s*\{([^}]*)\}`)

// c19CEnums: enumerator -> tag of its enumeration, from the C sources (names only; the values are
// the ones the C compiler evaluated).
func c19CEnums() map[string]string {
	out := map[string]string{}
	for _, f := range []string{"tproxy.c", "ebpf_sync_defs.h"} {
		src, err := os.ReadFile(filepath.Join(vk.RepoDir(), "control", "kern", f))
		if err != nil {
			continue
		}
		code := regexp.MustCompile(`(?s)/\*.*?\*/`).ReplaceAllString(string(src), " ")
		code = regexp.MustCompile(`//[^\n]*`).ReplaceAllString(code, "")
		for _, em := range c19EnumRe.FindAllStringSubmatch(code, -1) {
			for _, ent := range strings.Split(em[2], ",") {
				nm := strings.TrimSpace(strings.SplitN(ent, "=", 2)[0])
				if nm != "" {
					out[nm] = em[1]
				}
			}
		}
	}
	return out
}

// c19CheckNamePairedConsts: a Go integer constant and a C constant that carry the same name
// (case and underscores aside), or that are the same member of enumerations carrying the same
// name, are one shared constant and must have one value - whichever file they were typed into.
func c19CheckNamePairedConsts(m *vk.Monitor, l *c19CLayout) {
	tags := c19CEnums()
	var goConsts []c19GoConst
	for _, d := range []string{"common/consts", "control"} {
		goConsts = append(goConsts, c19GoConsts(filepath.Join(vk.RepoDir(), d))...)
	}
	m.Count("go_integer_constants_scanned", int64(len(goConsts)))
	cnames := make([]string, 0, len(l.consts))
	for n := range l.consts {
		cnames = append(cnames, n)
	}
	sort.Strings(cnames)
	var pairs []string
	for _, g := range goConsts {
		for _, cn := range cnames {
			how := ""
			if c19Norm(g.name) == c19Norm(cn) {
				how = "same name"
			} else if tag := tags[cn]; tag != "" && g.typ != "" && c19Norm(tag) == c19Norm(g.typ) {
				tt := c19Tokens(tag)
				if mb := c19Member(c19Tokens(cn), tt); mb != "" && mb == c19Member(c19Tokens(g.name), c19Tokens(g.typ)) {
					how = "member \"" + mb + "\" of enumerations named alike (enum " + tag + " / " + g.typ + ")"
				}
			}
			if how == "" {
				continue
			}
			m.Eval(1)
			pairs = append(pairs, fmt.Sprintf("%s = %d (C)  <->  %s.%s = %d (Go)  [%s]", cn, l.consts[cn], g.pkg, g.name, g.val, how))
			m.Distinct("const-by-name|" + cn)
			if l.consts[cn] != g.val {
				m.Violation("const/name-paired/"+cn, fmt.Sprintf("%s = %d in the C program but %s.%s = %d on the Go side (%s)", cn, l.consts[cn], g.pkg, g.name, g.val, how), nil)
			}
		}
	}
	sort.Strings(pairs)
	m.Set("constants_paired_by_name", pairs)
	m.Count("constants_paired_by_name", int64(len(pairs)))
}

// c19ScanSlotCallSites lists, for the report, the places of package control that address a BPF
// map with a literal or named-constant key (evidence only).
func c19ScanSlotCallSites(m *vk.Monitor) {
	re := regexp.MustCompile(`(\w+)\.(Lookup|Update|Put|Delete)\(\s*&?((?:uint32\()?\d+\)?|consts\.\w+)\s*,`)
	reHelper := regexp.MustCompile(`(\w+)\((?:\w+),\s*((?:uint32\()?\d+\)?|consts\.\w+)\)`)
	ents, _ := os.ReadDir(filepath.Join(vk.RepoDir(), "control"))
	known := map[string]bool{"ListenSocketMap": true, "RoutingMetaMap": true, "LpmArrayMap": true}
	var sites []string
	for _, e := range ents {
		n := e.Name()
		if !strings.HasSuffix(n, ".go") || strings.HasSuffix(n, "_test.go") {
			continue
		}
		src, err := os.ReadFile(filepath.Join(vk.RepoDir(), "control", n))
		if err != nil {
			continue
		}
		for ln, line := range strings.Split(string(src), "\n") {
			if mm := re.FindStringSubmatch(line); mm != nil && strings.Contains(mm[1], "Map") {
				sites = append(sites, fmt.Sprintf("%s:%d %s.%s(%s)", n, ln+1, mm[1], mm[2], mm[3]))
				if !known[mm[1]] {
					m.Count("by_slot_call_sites_on_maps_unknown_to_the_monitor", 1)
				}
			} else if mm := reHelper.FindStringSubmatch(line); mm != nil && strings.Contains(strings.ToLower(mm[1]), "stats") {
				sites = append(sites, fmt.Sprintf("%s:%d %s(.., %s)", n, ln+1, mm[1], mm[2]))
			}
		}
	}
	m.Set("by_slot_call_sites_in_package_control", sites)
	m.Count("by_slot_call_sites_found", int64(len(sites)))
}

func c19SlotsInAction(m *vk.Monitor, k *vk.KS, r c19Rng, l *c19CLayout) {
	m.Set("by_slot_consumers", c19SlotConsumers)
	c19ScanSlotCallSites(m)
	c19StatsSlots(m, k, r, l)
	c19ListenSlots(m, k, r, l)
	c19RoutingSlots(m, k, r)
}
