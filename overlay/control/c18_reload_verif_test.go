package control

// C18 sub-monitor: "the sniffed name is known to be genuine (resolved through dae)" judged
// over HISTORIES that cross generation changes, on the real DnsController / ControlPlane.
//
//   (1) names are resolved the way a client resolves them: a DNS question goes through
//       DnsController.HandleWithResponseWriter_ (request routing -> scoped response-cache
//       key -> singleflight -> fake upstream -> NormalizeAndCacheDnsResp_). The upstream
//       scope comes from production dns routing built from config text (two upstreams and
//       as-is); the spelling of the question on the wire varies (lower / UPPER / mIxEd,
//       always fully qualified as on the wire). Several names per history, A and AAAA,
//       short and long TTLs, names never resolved, names answered NXDOMAIN, a name the
//       real-domain probe verifies.
//   (2) generation changes and maintenance at random points:
//         clone-restore  ControlPlane.CloneDnsCache of the old generation ->
//                        pendingDnsReloadCache -> replayDnsReloadCache of a new plane with a
//                        fresh NewDnsController (reload), old controller closed;
//         self-restore   the same two calls on ONE plane (the DNS part of
//                        RebuildReloadDatapath, the staged-reload rollback);
//         reuse          the staged cut-over: clone -> fresh controller -> replay, then
//                        controlPlaneDNSRuntime.reuseDNSControllerFrom (ReuseForReload, shared
//                        store, new facade, hand-off pointer published on the old plane);
//       each optionally with the next generation's dns routing sending the names to other
//       upstreams; janitor runs (evictExpiredDnsCache), cache-size eviction after other
//       names were resolved, waiting (TTLs run out), re-resolution (new address, new TTL).
//   (3) after EVERY step ChooseDialTarget is called for every name x {A, AAAA destination} x
//       {destination = an address of the name's answer, an unrelated address} in all four
//       dial modes; the name handed over is spelled lower / UPPER / mIxEd, with and without
//       a trailing dot.
//
// Oracle (from the statement, nothing of dae's knowledge table is read): the monitor keeps
// its own record "name n / type q was answered by dae to a client inside [lo,hi] with
// original TTL T and address a". In dial_mode domain
//   - the target must be the NAME if some record of (n,q) is certainly not over
//     (call returned before lo+T-guard) AND the current generation still HOLDS that very
//     answer in its DNS cache (the address a is found in a cached entry, before and after
//     the probe round). The second condition only restricts the demand: a generation that
//     dropped the answer (eviction, not carried over) is not asked to remember the name;
//   - the target must be the original DESTINATION if (n,q) and the other address type were
//     never answered, or every record of (n,q) is certainly over (call started after
//     hi+T+guard); every spelling of every name is negative-cached for the real-domain probe
//     in every generation (through probeAndUpdateRealDomain with the resolver seam), so DNS
//     resolution is the only thing that can vouch for it;
//   - the verified name is always dialled by name;
//   - anything else (near a deadline, answer not held, only the other type resolved) is
//     counted, not judged.
// Names are compared case-insensitively and modulo one trailing dot. ip / domain+ / domain++
// are judged after the same histories (they must not depend on any of this).

import (
	"context"
	"fmt"
	"math/rand/v2"
	"net"
	"net/netip"
	"sort"
	"strconv"
	"strings"
	"sync"
	"time"

	"github.com/bits-and-blooms/bloom/v3"
	"github.com/daeuniverse/dae/common/consts"
	"github.com/daeuniverse/dae/component/dns"
	"github.com/daeuniverse/dae/config"
	"github.com/daeuniverse/dae/pkg/config_parser"
	vk "github.com/daeuniverse/dae/verifkit"
	dnsmessage "github.com/miekg/dns"
)

// ---- scripted upstream answers (consulted by verifC18Forwarder) -------------------------

type verifC18FwdPlan struct {
	mu    sync.Mutex
	ttl   uint32
	addr  string
	nx    bool
	calls int
}

var verifC18FwdPlans sync.Map // lower-case fqdn + "/" + qtype -> *verifC18FwdPlan

func verifC18PlanKey(qname string, qtype uint16) string {
	return strings.ToLower(dnsmessage.Fqdn(qname)) + "/" + strconv.Itoa(int(qtype))
}

// verifC18PlannedReply answers a question that has a plan: the question is echoed exactly as
// it was received (spelling included), the answer carries the planned address and TTL.
func verifC18PlannedReply(req *dnsmessage.Msg) (*dnsmessage.Msg, bool) {
	if len(req.Question) == 0 {
		return nil, false
	}
	q := req.Question[0]
	v, ok := verifC18FwdPlans.Load(verifC18PlanKey(q.Name, q.Qtype))
	if !ok {
		return nil, false
	}
	p := v.(*verifC18FwdPlan)
	p.mu.Lock()
	defer p.mu.Unlock()
	p.calls++
	resp := new(dnsmessage.Msg)
	resp.SetReply(req)
	resp.RecursionAvailable = true
	if p.nx {
		resp.Rcode = dnsmessage.RcodeNameError
		return resp, true
	}
	h := dnsmessage.RR_Header{Name: q.Name, Rrtype: q.Qtype, Class: dnsmessage.ClassINET, Ttl: p.ttl}
	ip := net.ParseIP(p.addr)
	switch q.Qtype {
	case dnsmessage.TypeA:
		resp.Answer = append(resp.Answer, &dnsmessage.A{Hdr: h, A: ip.To4()})
	case dnsmessage.TypeAAAA:
		resp.Answer = append(resp.Answer, &dnsmessage.AAAA{Hdr: h, AAAA: ip})
	}
	return resp, true
}

type verifC18CaptureWriter struct{ msgs []*dnsmessage.Msg }

func (w *verifC18CaptureWriter) LocalAddr() net.Addr       { return nil }
func (w *verifC18CaptureWriter) RemoteAddr() net.Addr      { return nil }
func (w *verifC18CaptureWriter) TsigStatus() error         { return nil }
func (w *verifC18CaptureWriter) TsigTimersOnly(bool)       {}
func (w *verifC18CaptureWriter) Hijack()                   {}
func (w *verifC18CaptureWriter) Close() error              { return nil }
func (w *verifC18CaptureWriter) Write([]byte) (int, error) { return 0, nil }
func (w *verifC18CaptureWriter) WriteMsg(m *dnsmessage.Msg) error {
	w.msgs = append(w.msgs, m)
	return nil
}

// ---- environment shared by all histories ---------------------------------------------------

type verifC18ReloadEnv struct {
	routings []*dns.Dns // production dns routing, one per configuration variant
	texts    []string
	matcher  *RoutingMatcher
}

func verifC18ReloadDnsText(variant int) string {
	up, be := "alpha", "beta"
	if variant == 1 {
		up, be = "beta", "alpha"
	}
	return "dns {\n    upstream {\n        alpha: 'udp://192.0.2.61:53'\n        beta: 'udp://192.0.2.62:5353'\n    }\n    routing {\n        request {\n" +
		"            qname(suffix: up." + verifC18HistSuffix + ") -> " + up + "\n" +
		"            qname(suffix: be." + verifC18HistSuffix + ") -> " + be + "\n" +
		"            fallback: asis\n        }\n        response {\n            fallback: accept\n        }\n    }\n}\n"
}

func verifC18ReloadBuildDns(text string) (d *dns.Dns, err error) {
	defer func() {
		if r := recover(); r != nil {
			err = fmt.Errorf("PANIC while building dns routing: %v", r)
		}
	}()
	sections, err := config_parser.Parse("global {}\nrouting {\n    fallback: direct\n}\n" + text)
	if err != nil {
		return nil, fmt.Errorf("Parse: %w", err)
	}
	conf, err := config.New(sections)
	if err != nil {
		return nil, fmt.Errorf("config.New: %w", err)
	}
	d, err = dns.New(&conf.Dns, &dns.NewOption{Logger: verifQuietLog(), UpstreamReadyCallback: func(*dns.Upstream) error { return nil }})
	if err != nil {
		return nil, fmt.Errorf("dns.New: %w", err)
	}
	if err = d.CheckUpstreamsFormat(); err != nil {
		return nil, fmt.Errorf("CheckUpstreamsFormat: %w", err)
	}
	d.InitUpstreams(context.Background())
	return d, nil
}

func verifC18ReloadSetup(m *vk.Monitor) (*verifC18ReloadEnv, bool) {
	env := &verifC18ReloadEnv{}
	for v := 0; v < 2; v++ {
		text := verifC18ReloadDnsText(v)
		d, err := verifC18ReloadBuildDns(text)
		if err != nil {
			m.Inconclusive("reload histories: dns routing variant %d rejected: %v", v, err)
			return nil, false
		}
		env.routings = append(env.routings, d)
		env.texts = append(env.texts, text)
	}
	rules, fb, err := verifParseRouting("routing {\n    domain(suffix: " + verifC18HistSuffix + ") -> " + verifGroups[1] + "\n    fallback: " + verifGroups[0] + "\n}\n")
	if err != nil {
		m.Inconclusive("reload histories: routing text rejected: %v", err)
		return nil, false
	}
	built, err := verifBuildMatcher(rules, fb, verifProductionOptimizers()...)
	if err != nil {
		m.Inconclusive("reload histories: routing matcher: %v", err)
		return nil, false
	}
	env.matcher = built.matcher
	return env, true
}

// ---- one history ---------------------------------------------------------------------------

type verifC18RName struct {
	Name     string `json:"name"` // canonical: lower case, no trailing dot
	Kind     string `json:"kind"` // resolvable | never | nx | verified
	Mixed    string `json:"mixed_spelling"`
	Resolver string `json:"client_resolver"`
}

type verifC18RRecord struct {
	Name   string    `json:"name"`
	Qtype  string    `json:"qtype"`
	Lo     time.Time `json:"request_started"`
	Hi     time.Time `json:"request_returned"`
	TTL    uint32    `json:"original_ttl_s"`
	Addr   string    `json:"address"`
	QSpell string    `json:"query_spelling"`
	Gen    string    `json:"generation"`
	qtype  uint16
	epoch  int // number of hand-overs before the answer was given
}

type verifC18RGen struct {
	n      int
	how    string
	ri     int
	cp     *ControlPlane
	cancel context.CancelFunc
}

type verifC18RHist struct {
	m        *vk.Monitor
	env      *verifC18ReloadEnv
	id       int
	r        *rand.Rand
	names    []verifC18RName
	recs     map[string][]*verifC18RRecord // name/qtype -> records, oldest first
	byAddr   map[string]*verifC18RRecord
	gen      *verifC18RGen
	gens     []string
	log      []string
	addrN    int
	fillerN  int
	maxCache int
	epoch    int    // hand-overs so far
	lastHow  string // kind of the latest hand-over
	counts   map[string]int64
	distinct map[string]bool
	evals    int
	violated bool
	dead     bool
	toClose  []*DnsController
}

const verifC18RGuard = 30 * time.Millisecond

var (
	verifC18RQuerySpellings  = []string{"lower", "upper", "mixed"}
	verifC18RLookupSpellings = []string{"lower", "upper", "mixed", "lower.", "upper.", "mixed."}
	verifC18RModes           = []consts.DialMode{consts.DialMode_Ip, consts.DialMode_Domain, consts.DialMode_DomainPlus, consts.DialMode_DomainCao}
	verifC18RStepKinds       = []string{"resolve", "reresolve", "cache_hit", "nxdomain", "wait", "wait_ttl", "janitor", "size_eviction",
		"gen_clone_restore", "gen_clone_restore_rerouted", "gen_self_restore", "gen_reuse", "gen_reuse_rerouted"}
)

func (n verifC18RName) spell(class string) string {
	s := n.Name
	switch strings.TrimSuffix(class, ".") {
	case "upper":
		s = strings.ToUpper(n.Name)
	case "mixed":
		s = n.Mixed
	}
	if strings.HasSuffix(class, ".") {
		s += "."
	}
	return s
}

func verifC18MixCase(r *rand.Rand, s string) string {
	b := []byte(s)
	up, low := false, false
	for i := range b {
		if b[i] >= 'a' && b[i] <= 'z' {
			if r.IntN(2) == 0 {
				b[i] -= 'a' - 'A'
				up = true
			} else {
				low = true
			}
		}
	}
	if !up || !low { // force both cases
		for i := range b {
			if b[i] >= 'a' && b[i] <= 'z' && !up {
				b[i] -= 'a' - 'A'
				up = true
			} else if b[i] >= 'A' && b[i] <= 'Z' && !low && i > 0 {
				b[i] += 'a' - 'A'
				low = true
			}
		}
	}
	return string(b)
}

func verifC18QtypeName(q uint16) string {
	if q == dnsmessage.TypeA {
		return "A"
	}
	return "AAAA"
}

func (h *verifC18RHist) key(name string, qtype uint16) string {
	return name + "/" + verifC18QtypeName(qtype)
}

func (h *verifC18RHist) count(k string) { h.counts[k]++ }

func (h *verifC18RHist) logf(format string, a ...any) {
	h.log = append(h.log, fmt.Sprintf("[%s] ", h.gen.label())+fmt.Sprintf(format, a...))
}

func (g *verifC18RGen) label() string {
	if g == nil {
		return "-"
	}
	return fmt.Sprintf("gen%d", g.n)
}

// newPlane builds a generation's ControlPlane value by hand (newControlPlane needs a
// datapath): real-domain caches as newControlPlane makes them, the routing matcher, the
// generation's dns routing.
func (h *verifC18RHist) newPlane(ri int) (*ControlPlane, context.CancelFunc) {
	ctx, cancel := context.WithCancel(context.Background())
	cp := &ControlPlane{realDomainSet: bloom.NewWithEstimates(2048, 0.001), log: verifQuietLog(), ctx: ctx, cancel: cancel}
	cp.routingMatcher = h.env.matcher
	cp.bootstrapResolvers = []netip.AddrPort{netip.MustParseAddrPort("192.0.2.1:53")}
	cp.dialMode = consts.DialMode_Domain
	cp.dnsRouting = h.env.routings[ri]
	return cp, cancel
}

// option: the controller option the daemon builds (ControlPlane.dnsControllerOption), with
// the bpf side effects replaced by no-ops and a fixed dialer choice.
func (h *verifC18RHist) option(cp *ControlPlane) *DnsControllerOption {
	return &DnsControllerOption{
		Log:                 cp.log,
		LifecycleContext:    cp.ctx,
		CacheAccessCallback: func(*DnsCache) error { return nil },
		CacheRemoveCallback: func(*DnsCache) error { return nil },
		CacheDeleteCallback: func(string, *DnsCache) error { return nil },
		NewCache: func(fqdn string, answers, ns, extra []dnsmessage.RR, deadline time.Time, originalDeadline time.Time) (*DnsCache, error) {
			return &DnsCache{DomainBitmap: cp.routingMatcher.domainMatcher.MatchDomainBitmap(fqdn), NS: ns, Extra: extra, Answer: answers, Deadline: deadline, OriginalDeadline: originalDeadline}, nil
		},
		BestDialerChooser: func(ctx context.Context, req *udpRequest, upstream *dns.Upstream) (*dialArgument, error) {
			target := req.realDst
			if upstream != nil && upstream.Ip46 != nil && upstream.Ip4.IsValid() {
				target = netip.AddrPortFrom(upstream.Ip4, upstream.Port)
			}
			return &dialArgument{l4proto: consts.L4ProtoStr_UDP, ipversion: consts.IpVersionStr_4, bestTarget: target}, nil
		},
		MaxCacheSize: h.maxCache,
	}
}

// settleProbes makes the real-domain probe's verdict for every spelling of every name known
// in this generation (production probeAndUpdateRealDomain, resolver seam of verifC18Setup:
// names starting with 'v' exist, the others have no record).
func (h *verifC18RHist) settleProbes(cp *ControlPlane) {
	for _, n := range h.names {
		for _, ls := range verifC18RLookupSpellings {
			cp.probeAndUpdateRealDomain(n.spell(ls))
		}
	}
}

func (h *verifC18RHist) firstGen() bool {
	ri := h.r.IntN(2)
	cp, cancel := h.newPlane(ri)
	ctrl, err := NewDnsController(h.env.routings[ri], h.option(cp))
	if err != nil {
		h.m.Inconclusive("reload histories: NewDnsController: %v", err)
		cancel()
		return false
	}
	cp.dnsController = ctrl
	h.toClose = append(h.toClose, ctrl)
	h.settleProbes(cp)
	h.gen = &verifC18RGen{n: 0, how: "first", ri: ri, cp: cp, cancel: cancel}
	h.gens = append(h.gens, fmt.Sprintf("gen0: first, dns routing variant %d, max_cache_size %d", ri, h.maxCache))
	return true
}

// changeGeneration performs one of the production hand-overs and returns the step kind.
func (h *verifC18RHist) changeGeneration(how string, reroute bool) (kind string, ok bool) {
	prev := h.gen
	ri := prev.ri
	if reroute {
		ri = 1 - ri
	}
	switch how {
	case "self-restore":
		// RebuildReloadDatapath: cache := c.CloneDnsCache(); c.pendingDnsReloadCache = cache; c.replayDnsReloadCache()
		cache := prev.cp.CloneDnsCache()
		prev.cp.pendingDnsReloadCache = cache
		prev.cp.replayDnsReloadCache()
		h.epoch++
		h.lastHow = how
		h.logf("rollback: CloneDnsCache (%d entries) -> replayDnsReloadCache on the same plane", len(cache))
		return "gen_self_restore", true
	case "clone-restore", "reuse":
		cache := prev.cp.CloneDnsCache()
		cp, cancel := h.newPlane(ri)
		ctrl, err := NewDnsController(h.env.routings[ri], h.option(cp))
		if err != nil {
			h.m.Inconclusive("reload histories: NewDnsController: %v", err)
			cancel()
			return "", false
		}
		cp.dnsController = ctrl
		cp.pendingDnsReloadCache = cache
		cp.replayDnsReloadCache()
		kind = "gen_clone_restore"
		if how == "reuse" {
			kind = "gen_reuse"
			// staged cut-over: the new plane takes over the old generation's controller store
			// (ControlPlane.ReuseDNSControllerFrom with this plane's option)
			if !cp.reuseDNSControllerFrom(&prev.cp.controlPlaneDNSRuntime, h.option(cp), cp.dnsRouting, cp.log, prev.cp.SetDNSHandoffController) {
				h.m.Inconclusive("reload histories: reuseDNSControllerFrom refused a valid hand-over")
				cancel()
				return "", false
			}
			h.toClose = append(h.toClose, cp.dnsController)
			prev.cancel()
		} else {
			h.toClose = append(h.toClose, ctrl)
			// the old generation retires
			prev.cancel()
			if prev.cp.dnsController != nil {
				_ = prev.cp.dnsController.Close()
			}
		}
		if reroute {
			kind += "_rerouted"
		}
		h.settleProbes(cp)
		h.epoch++
		h.lastHow = how
		h.gen = &verifC18RGen{n: prev.n + 1, how: how, ri: ri, cp: cp, cancel: cancel}
		h.gens = append(h.gens, fmt.Sprintf("gen%d: %s from gen%d (%d entries cloned), dns routing variant %d", h.gen.n, how, prev.n, len(cache), ri))
		h.logf("generation change: %s, dns routing variant %d", how, ri)
		return kind, true
	}
	return "", false
}

func (h *verifC18RHist) nextAddr(qtype uint16) string {
	h.addrN++
	if qtype == dnsmessage.TypeA {
		return fmt.Sprintf("198.18.%d.%d", h.addrN>>8, h.addrN&0xff)
	}
	return fmt.Sprintf("2001:db8:18::%x", h.addrN)
}

// ask sends one question through the production request path, as a client would.
func (h *verifC18RHist) ask(name verifC18RName, qtype uint16, qspell string, ttl uint32) (kind string, ok bool) {
	fq := dnsmessage.Fqdn(name.spell(qspell))
	pk := verifC18PlanKey(name.Name, qtype)
	v, _ := verifC18FwdPlans.LoadOrStore(pk, &verifC18FwdPlan{})
	p := v.(*verifC18FwdPlan)
	addr := h.nextAddr(qtype)
	p.mu.Lock()
	p.ttl, p.addr, p.nx = ttl, addr, name.Kind == "nx"
	before := p.calls
	p.mu.Unlock()

	q := new(dnsmessage.Msg)
	q.SetQuestion(fq, qtype)
	req := &udpRequest{realSrc: netip.MustParseAddrPort("192.0.2.10:41000"), realDst: netip.MustParseAddrPort(name.Resolver), routingResult: &bpfRoutingResult{}}
	w := &verifC18CaptureWriter{}
	lo := time.Now()
	var err error
	var pan string
	func() {
		defer func() {
			if x := recover(); x != nil {
				pan = fmt.Sprint(x)
			}
		}()
		err = h.gen.cp.dnsController.HandleWithResponseWriter_(context.Background(), q, req, w)
	}()
	hi := time.Now()
	p.mu.Lock()
	calls := p.calls - before
	p.mu.Unlock()
	if pan != "" || err != nil {
		h.m.Inconclusive("reload histories: resolving %s %s through the DNS handler failed: %v %s", fq, verifC18QtypeName(qtype), err, pan)
		return "", false
	}
	if name.Kind == "nx" {
		h.logf("client asks %s %s -> NXDOMAIN from the upstream", fq, verifC18QtypeName(qtype))
		return "nxdomain", true
	}
	answered := len(w.msgs) > 0 && len(w.msgs[len(w.msgs)-1].Answer) > 0
	if !answered {
		h.m.Inconclusive("reload histories: the client got no answer for %s %s", fq, verifC18QtypeName(qtype))
		return "", false
	}
	k := h.key(name.Name, qtype)
	switch {
	case calls == 0:
		h.logf("client asks %s %s -> answered from the cache", fq, verifC18QtypeName(qtype))
		return "cache_hit", true
	case calls == 1:
		rec := &verifC18RRecord{Name: name.Name, Qtype: verifC18QtypeName(qtype), qtype: qtype, Lo: lo, Hi: hi, TTL: ttl, Addr: addr, QSpell: qspell, Gen: h.gen.label(), epoch: h.epoch}
		kind = "resolve"
		if len(h.recs[k]) > 0 {
			kind = "reresolve"
		}
		h.recs[k] = append(h.recs[k], rec)
		h.byAddr[addr] = rec
		h.logf("client asks %s %s -> upstream answers %s ttl=%ds (%s)", fq, verifC18QtypeName(qtype), addr, ttl, kind)
		return kind, true
	default:
		h.count("record_upstream_asked_more_than_once_for_one_question")
		h.logf("client asks %s %s -> upstream was asked %d times", fq, verifC18QtypeName(qtype), calls)
		// every one of them carried the same planned answer
		rec := &verifC18RRecord{Name: name.Name, Qtype: verifC18QtypeName(qtype), qtype: qtype, Lo: lo, Hi: hi, TTL: ttl, Addr: addr, QSpell: qspell, Gen: h.gen.label(), epoch: h.epoch}
		h.recs[k] = append(h.recs[k], rec)
		h.byAddr[addr] = rec
		return "resolve", true
	}
}

// held: the records whose answer the current generation's DNS cache holds (looked up by the
// unique address of the answer; cache keys are not interpreted).
func (h *verifC18RHist) held() map[*verifC18RRecord]bool {
	out := map[*verifC18RRecord]bool{}
	ctrl := h.gen.cp.dnsController
	if ctrl == nil || ctrl.dnsControllerStore == nil {
		return out
	}
	ctrl.dnsCache.Range(func(_, v any) bool {
		c, ok := v.(*DnsCache)
		if !ok || c == nil {
			return true
		}
		for _, rr := range c.Answer {
			var a netip.Addr
			switch x := rr.(type) {
			case *dnsmessage.A:
				a, _ = netip.AddrFromSlice(x.A.To4())
			case *dnsmessage.AAAA:
				a, _ = netip.AddrFromSlice(x.AAAA.To16())
			}
			if a.IsValid() {
				if rec := h.byAddr[a.String()]; rec != nil && strings.EqualFold(strings.TrimSuffix(rr.Header().Name, "."), rec.Name) {
					out[rec] = true
				}
			}
		}
		return true
	})
	return out
}

type verifC18RObs struct {
	name            verifC18RName
	qtype           uint16
	mode            consts.DialMode
	lspell, sniffed string
	dst             netip.AddrPort
	dstKind         string
	outbound        consts.OutboundIndex
	t0, t1          time.Time
	target          string
	reroute, dialIp bool
	panicked        string
}

func verifC18REqName(a, b string) bool {
	return strings.EqualFold(strings.TrimSuffix(a, "."), strings.TrimSuffix(b, "."))
}

// shape of a target: "dst" (the original destination), "name" (the sniffed name, compared
// case-insensitively and modulo one trailing dot, with the destination port), "other".
func verifC18RShape(o *verifC18RObs) string {
	if o.target == o.dst.String() {
		return "dst"
	}
	hst, p, err := net.SplitHostPort(o.target)
	if err == nil && hst != "" && p == strconv.Itoa(int(o.dst.Port())) && verifC18REqName(hst, o.sniffed) {
		return "name"
	}
	return "other"
}

func (h *verifC18RHist) callOnce(o *verifC18RObs) {
	h.gen.cp.dialMode = o.mode
	defer func() {
		if x := recover(); x != nil {
			o.panicked = fmt.Sprint(x)
		}
		o.t1 = time.Now()
	}()
	o.t0 = time.Now()
	o.target, o.reroute, o.dialIp = h.gen.cp.ChooseDialTarget(o.outbound, o.dst, o.sniffed)
}

func (h *verifC18RHist) witness(o *verifC18RObs, extra map[string]any) map[string]any {
	w := map[string]any{
		"history": h.log, "generations": h.gens, "names": h.names,
		"dial_mode": string(o.mode), "outbound_index": int(o.outbound), "sniffed": o.sniffed, "lookup_spelling": o.lspell,
		"name": o.name.Name, "name_kind": o.name.Kind, "destination": o.dst.String(), "destination_kind": o.dstKind,
		"got":                  map[string]any{"dialTarget": o.target, "shouldReroute": o.reroute, "dialIp": o.dialIp},
		"monitor_records":      h.recs[h.key(o.name.Name, o.qtype)],
		"dns_routing_variants": h.env.texts,
	}
	for k, v := range extra {
		w[k] = v
	}
	return w
}

// probeAll: the dial target of every name in every mode after a step of kind `kind`.
func (h *verifC18RHist) probeAll(kind string) {
	if h.violated || h.dead {
		return
	}
	heldBefore := h.held()
	var obs []*verifC18RObs
	user := []consts.OutboundIndex{consts.OutboundUserDefinedMin, consts.OutboundUserDefinedMin + 5}
	for _, n := range h.names {
		for _, qt := range []uint16{dnsmessage.TypeA, dnsmessage.TypeAAAA} {
			port := []uint16{443, 8443}[h.r.IntN(2)]
			other := netip.AddrPortFrom(netip.MustParseAddr("203.0.113.200"), port)
			if qt == dnsmessage.TypeAAAA {
				other = netip.AddrPortFrom(netip.MustParseAddr("2001:db8:ffff::200"), port)
			}
			type dk struct {
				ap   netip.AddrPort
				kind string
			}
			dsts := []dk{{other, "unrelated"}}
			if rs := h.recs[h.key(n.Name, qt)]; len(rs) > 0 {
				dsts = append(dsts, dk{netip.AddrPortFrom(netip.MustParseAddr(rs[len(rs)-1].Addr), port), "answer"})
			}
			for _, d := range dsts {
				for _, ls := range verifC18RLookupSpellings {
					obs = append(obs, &verifC18RObs{name: n, qtype: qt, mode: consts.DialMode_Domain, lspell: ls, sniffed: n.spell(ls), dst: d.ap, dstKind: d.kind, outbound: user[h.r.IntN(2)]})
				}
				for _, mode := range []consts.DialMode{consts.DialMode_Ip, consts.DialMode_DomainPlus, consts.DialMode_DomainCao} {
					ls := verifC18RLookupSpellings[h.r.IntN(len(verifC18RLookupSpellings))]
					obs = append(obs, &verifC18RObs{name: n, qtype: qt, mode: mode, lspell: ls, sniffed: n.spell(ls), dst: d.ap, dstKind: d.kind, outbound: user[h.r.IntN(2)]})
				}
			}
			// a built-in outbound never gets a name, whatever the history
			ls := verifC18RLookupSpellings[h.r.IntN(len(verifC18RLookupSpellings))]
			obs = append(obs, &verifC18RObs{name: n, qtype: qt, mode: verifC18RModes[h.r.IntN(4)], lspell: ls, sniffed: n.spell(ls), dst: other, dstKind: "unrelated", outbound: consts.OutboundDirect})
		}
	}
	for _, o := range obs {
		h.callOnce(o)
	}
	heldAfter := h.held()
	h.gen.cp.dialMode = consts.DialMode_Domain

	for _, o := range obs {
		if h.violated {
			return
		}
		h.evals++
		mode := string(o.mode)
		if o.panicked != "" {
			h.violated = true
			h.m.Violation("history/panic/"+mode, "ChooseDialTarget panicked: "+o.panicked, h.witness(o, map[string]any{"after_step": kind}))
			return
		}
		shape := verifC18RShape(o)
		bad := func(sig, what string, extra map[string]any) {
			h.violated = true
			if extra == nil {
				extra = map[string]any{}
			}
			extra["after_step"] = kind
			extra["target_shape"] = shape
			h.m.Violation(sig, what, h.witness(o, extra))
		}
		if o.outbound.IsReserved() {
			if shape != "dst" || !o.dialIp || o.reroute {
				bad("history/builtin-outbound-not-dst/"+mode, fmt.Sprintf("built-in outbound, dial_mode %s, after %s: target=%q reroute=%v dialIp=%v, want the original destination %s", mode, kind, o.target, o.reroute, o.dialIp, o.dst), nil)
				return
			}
			h.count("hist_" + kind + "_builtin_ok")
			continue
		}
		switch o.mode {
		case consts.DialMode_Ip:
			if shape != "dst" || !o.dialIp || o.reroute {
				bad("history/ip-mode-not-dst", fmt.Sprintf("dial_mode ip after %s: target=%q reroute=%v dialIp=%v, want the original destination %s", kind, o.target, o.reroute, o.dialIp, o.dst), nil)
				return
			}
			h.count("hist_" + kind + "_ip_ok")
		case consts.DialMode_DomainPlus, consts.DialMode_DomainCao:
			wantReroute := o.mode == consts.DialMode_DomainCao
			if shape != "name" || o.dialIp || o.reroute != wantReroute {
				bad("history/"+mode+"-not-name", fmt.Sprintf("dial_mode %s after %s: target=%q reroute=%v dialIp=%v, want the sniffed name %q with port %d, reroute=%v, dialIp=false", mode, kind, o.target, o.reroute, o.dialIp, o.sniffed, o.dst.Port(), wantReroute), nil)
				return
			}
			h.count("hist_" + kind + "_" + mode + "_ok")
		case consts.DialMode_Domain:
			h.judgeDomain(kind, o, shape, heldBefore, heldAfter, bad)
		}
		h.distinct[fmt.Sprintf("H|%s|%s|%s|%s|%s|%s|%s", kind, mode, o.name.Kind, verifC18QtypeName(o.qtype), o.dstKind, o.lspell, shape)] = true
	}
}

func (h *verifC18RHist) judgeDomain(kind string, o *verifC18RObs, shape string, heldBefore, heldAfter map[*verifC18RRecord]bool, bad func(sig, what string, extra map[string]any)) {
	pre := "hist_" + kind + "_domain_"
	if o.name.Kind == "verified" {
		if shape != "name" || o.dialIp {
			bad("history/verified-name-not-dialled/l="+o.lspell, fmt.Sprintf("dial_mode domain after %s: %q is verified by the real-domain probe of this generation: target=%q dialIp=%v, want the name", kind, o.sniffed, o.target, o.dialIp), nil)
			return
		}
		h.count(pre + "verified_name_judged")
		return
	}
	recs := h.recs[h.key(o.name.Name, o.qtype)]
	otherQ := uint16(dnsmessage.TypeA)
	if o.qtype == dnsmessage.TypeA {
		otherQ = dnsmessage.TypeAAAA
	}
	wantIP := func(why string) {
		if shape != "dst" || !o.dialIp || o.reroute {
			bad("history/not-genuine-name-dialled/"+why+"/l="+o.lspell,
				fmt.Sprintf("dial_mode domain after %s: %q (%s, %s; the real-domain probe of this generation is negative): target=%q reroute=%v dialIp=%v, want the original destination %s,false,true", kind, o.sniffed, verifC18QtypeName(o.qtype), why, o.target, o.reroute, o.dialIp, o.dst), nil)
			return
		}
		h.count(pre + "ip_judged")
		h.count(pre + "ip_judged_" + why)
	}
	if len(recs) == 0 {
		if len(h.recs[h.key(o.name.Name, otherQ)]) > 0 {
			h.count(pre + "record_only_other_address_type_resolved_" + shape)
			return
		}
		wantIP("never-answered")
		return
	}
	var lastEnd time.Time
	for _, rc := range recs {
		if e := rc.Hi.Add(time.Duration(rc.TTL) * time.Second); e.After(lastEnd) {
			lastEnd = e
		}
	}
	if o.t0.After(lastEnd.Add(verifC18RGuard)) {
		allZero := true
		for _, rc := range recs {
			if rc.TTL != 0 {
				allZero = false
			}
		}
		if allZero {
			// an answer with TTL 0 gives no knowledge that outlives the answer itself
			h.count("answered_only_with_original_ttl_0_ip_judged")
		}
		wantIP("every-original-ttl-over")
		return
	}
	anyHeld := false
	for i := len(recs) - 1; i >= 0; i-- {
		rc := recs[i]
		if !heldBefore[rc] || !heldAfter[rc] {
			continue
		}
		anyHeld = true
		if !o.t1.Before(rc.Lo.Add(time.Duration(rc.TTL)*time.Second - verifC18RGuard)) {
			continue
		}
		// answered to a client, original TTL running, answer still held by this generation
		if shape != "name" || o.dialIp {
			bad(fmt.Sprintf("history/genuine-name-dialled-by-ip/after=%s/q=%s/l=%s", kind, rc.QSpell, o.lspell),
				fmt.Sprintf("dial_mode domain after %s (generation %s, latest hand-over: %s): %q was answered by dae to a client (%s %s, asked as %s-case in %s, original TTL %d s, at most %.1f s ago) and this generation's cache still holds that answer: target=%q dialIp=%v, want the name with port %d",
					kind, h.gen.label(), h.lastHow, o.sniffed, rc.Qtype, rc.Addr, rc.QSpell, rc.Gen, rc.TTL, o.t1.Sub(rc.Lo).Seconds(), o.target, o.dialIp, o.dst.Port()),
				map[string]any{"judged_record": rc, "latest_hand_over": h.lastHow})
			return
		}
		h.count(pre + "name_judged")
		h.count("hist_spelling_q=" + rc.QSpell + "_l=" + o.lspell + "_name_judged")
		h.count("hist_dst_" + o.dstKind + "_name_judged")
		if rc.epoch != h.epoch {
			// the answer was given before the latest hand-over
			h.count("hist_name_judged_record_from_earlier_generation_via_" + h.lastHow)
		}
		if o.reroute {
			h.count("record_domain_mode_genuine_reroute_true")
		} else {
			h.count("record_domain_mode_genuine_reroute_false")
		}
		return
	}
	if !anyHeld {
		h.count(pre + "record_answer_not_held_by_generation_" + shape)
		return
	}
	h.count(pre + "ambiguous_near_deadline")
}

func verifC18ReloadHistory(m *vk.Monitor, env *verifC18ReloadEnv, id int) {
	r := rand.New(rand.NewPCG(vk.Seed(), 0xC18700000+uint64(id)))
	h := &verifC18RHist{m: m, env: env, id: id, r: r, recs: map[string][]*verifC18RRecord{}, byAddr: map[string]*verifC18RRecord{}, counts: map[string]int64{}, distinct: map[string]bool{}}
	if id%2 == 1 {
		h.maxCache = []int{5, 8, 12}[r.IntN(3)]
	}
	mk := func(prefix, kind string, i int) verifC18RName {
		scope := []string{"up", "be", "as"}[r.IntN(3)]
		name := fmt.Sprintf("%s%d-h%d.%s.%s", prefix, i, id, scope, verifC18HistSuffix)
		return verifC18RName{Name: name, Kind: kind, Mixed: verifC18MixCase(r, name), Resolver: []string{"192.0.2.53:53", "192.0.2.54:53"}[r.IntN(2)]}
	}
	nRes := 4 + r.IntN(2)
	for i := 0; i < nRes; i++ {
		h.names = append(h.names, mk("r", "resolvable", i))
	}
	h.names = append(h.names, mk("n", "never", 0), mk("x", "nx", 0), mk("v", "verified", 0))
	defer func() {
		for _, n := range h.names {
			verifC18FwdPlans.Delete(verifC18PlanKey(n.Name, dnsmessage.TypeA))
			verifC18FwdPlans.Delete(verifC18PlanKey(n.Name, dnsmessage.TypeAAAA))
		}
		if h.gen != nil {
			h.gen.cancel()
		}
		for _, c := range h.toClose {
			_ = c.Close()
		}
		for k, v := range h.counts {
			m.Count(k, v)
		}
		for d := range h.distinct {
			m.Distinct(d)
		}
		m.Eval(h.evals)
		m.Count("hist_histories", 1)
		if m.WantSample() && !h.violated {
			m.Sample(map[string]any{"reload_history": h.log, "generations": h.gens})
		}
	}()
	if !h.firstGen() {
		return
	}
	// per resolvable name: which address types its client asks for, long- or short-lived answers
	type plan struct {
		qtypes []uint16
		long   bool
	}
	plans := make([]plan, nRes)
	for i := range plans {
		plans[i].qtypes = [][]uint16{{dnsmessage.TypeA}, {dnsmessage.TypeAAAA}, {dnsmessage.TypeA, dnsmessage.TypeAAAA}, {dnsmessage.TypeA, dnsmessage.TypeAAAA}}[r.IntN(4)]
		plans[i].long = i == 0 || r.IntN(2) == 0
	}
	ttlFor := func(i int) uint32 {
		if plans[i].long {
			return []uint32{40, 90, 600}[r.IntN(3)]
		}
		return []uint32{1, 2, 2, 3, 0, 0}[r.IntN(6)]
	}
	resolveSome := func() (string, bool) {
		i := r.IntN(nRes)
		qt := plans[i].qtypes[r.IntN(len(plans[i].qtypes))]
		return h.ask(h.names[i], qt, verifC18RQuerySpellings[r.IntN(3)], ttlFor(i))
	}
	step := func(kind string, ok bool) bool {
		if !ok {
			h.dead = true
			return false
		}
		h.probeAll(kind)
		return !h.violated && m.Violations() < 5
	}
	// the clients resolve a few names first (names[nRes-1] may stay unresolved by chance)
	for i := 0; i < nRes-1; i++ {
		for _, qt := range plans[i].qtypes {
			kind, ok := h.ask(h.names[i], qt, verifC18RQuerySpellings[r.IntN(3)], ttlFor(i))
			if !step(kind, ok) {
				return
			}
		}
	}
	gensHow := []string{"clone-restore", "self-restore", "reuse"}
	nSteps := 9
	forced := map[int]bool{1 + r.IntN(2): true, 4 + r.IntN(2): true, 7: r.IntN(2) == 0}
	for s := 0; s < nSteps; s++ {
		op := r.IntN(20)
		if forced[s] {
			op = 100
		}
		switch {
		case op == 100 || op < 3:
			how := gensHow[(id+s+r.IntN(3))%3]
			kind, ok := h.changeGeneration(how, how != "self-restore" && r.IntN(3) == 0)
			if !step(kind, ok) {
				return
			}
		case op < 8:
			kind, ok := resolveSome()
			if !step(kind, ok) {
				return
			}
		case op < 9:
			nx := h.names[nRes+1]
			kind, ok := h.ask(nx, []uint16{dnsmessage.TypeA, dnsmessage.TypeAAAA}[r.IntN(2)], verifC18RQuerySpellings[r.IntN(3)], 60)
			if !step(kind, ok) {
				return
			}
		case op < 12:
			d := time.Duration(150+r.IntN(350)) * time.Millisecond
			time.Sleep(d)
			h.logf("wait %v", d)
			if !step("wait", true) {
				return
			}
		case op < 14:
			// wait until the next short-lived answer is over
			var next time.Time
			now := time.Now()
			for _, rs := range h.recs {
				for _, rc := range rs {
					e := rc.Hi.Add(time.Duration(rc.TTL) * time.Second)
					if rc.TTL <= 3 && e.After(now) && (next.IsZero() || e.Before(next)) {
						next = e
					}
				}
			}
			d := 300 * time.Millisecond
			if !next.IsZero() {
				d = time.Until(next) + 3*verifC18RGuard
			}
			if d > 2500*time.Millisecond {
				d = 2500 * time.Millisecond
			}
			if d > 0 {
				time.Sleep(d)
			}
			h.logf("wait %v (until a short-lived answer is over)", d)
			if !step("wait_ttl", true) {
				return
			}
		case op < 17 || h.maxCache == 0:
			h.gen.cp.dnsController.evictExpiredDnsCache(time.Now())
			h.logf("janitor run")
			if !step("janitor", true) {
				return
			}
		default:
			// other names are resolved until the cache is over its size limit, then the janitor
			// evicts the least recently used entries; some of the history's names may be asked
			// again first (a cache hit refreshes their access time)
			for i := 0; i < nRes; i++ {
				if r.IntN(2) == 0 {
					if _, ok := h.ask(h.names[i], plans[i].qtypes[0], verifC18RQuerySpellings[r.IntN(3)], ttlFor(i)); !ok {
						h.dead = true
						return
					}
				}
			}
			nf := 2 + r.IntN(h.maxCache)
			for f := 0; f < nf; f++ {
				h.fillerN++
				fn := verifC18RName{Name: fmt.Sprintf("f%d-h%d.as.%s", h.fillerN, id, verifC18HistSuffix), Kind: "filler", Resolver: "192.0.2.53:53"}
				fn.Mixed = fn.Name
				_, ok := h.ask(fn, dnsmessage.TypeA, "lower", 300)
				verifC18FwdPlans.Delete(verifC18PlanKey(fn.Name, dnsmessage.TypeA))
				delete(h.recs, h.key(fn.Name, dnsmessage.TypeA))
				if !ok {
					h.dead = true
					return
				}
			}
			h.gen.cp.dnsController.evictExpiredDnsCache(time.Now())
			h.logf("%d other names resolved, then a janitor run with max_cache_size %d", nf, h.maxCache)
			if !step("size_eviction", true) {
				return
			}
		}
	}
	// finally let every short-lived answer run out
	var last time.Time
	for _, rs := range h.recs {
		for _, rc := range rs {
			if e := rc.Hi.Add(time.Duration(rc.TTL) * time.Second); rc.TTL <= 3 && e.After(last) {
				last = e
			}
		}
	}
	if d := time.Until(last.Add(3 * verifC18RGuard)); !last.IsZero() && d > 0 {
		time.Sleep(d)
		h.logf("wait %v (past every short-lived answer)", d)
	}
	step("wait_ttl", true)
}

func verifC18ReloadHistories(m *vk.Monitor) {
	env, ok := verifC18ReloadSetup(m)
	if !ok {
		return
	}
	n := vk.Scale(64, 768)
	var wg sync.WaitGroup
	sem := make(chan struct{}, 64)
	for i := 0; i < n; i++ {
		if m.Violations() >= 5 {
			break
		}
		wg.Add(1)
		sem <- struct{}{}
		go func(id int) {
			defer wg.Done()
			defer func() { <-sem }()
			verifC18ReloadHistory(m, env, id)
		}(i)
	}
	wg.Wait()
	var req []string
	for _, k := range verifC18RStepKinds {
		req = append(req, "hist_"+k+"_domain_name_judged", "hist_"+k+"_domain_ip_judged", "hist_"+k+"_ip_ok", "hist_"+k+"_domain+_ok", "hist_"+k+"_domain++_ok", "hist_"+k+"_builtin_ok")
	}
	for _, qs := range verifC18RQuerySpellings {
		for _, ls := range verifC18RLookupSpellings {
			req = append(req, "hist_spelling_q="+qs+"_l="+ls+"_name_judged")
		}
	}
	for _, how := range []string{"clone-restore", "self-restore", "reuse"} {
		req = append(req, "hist_name_judged_record_from_earlier_generation_via_"+how)
	}
	req = append(req, "hist_dst_answer_name_judged", "hist_dst_unrelated_name_judged")
	sort.Strings(req)
	m.Require(req...)
	for _, k := range verifC18RStepKinds {
		m.Require("hist_" + k + "_domain_verified_name_judged")
	}
	m.Require("hist_wait_ttl_domain_ip_judged_every-original-ttl-over", "hist_gen_clone_restore_domain_ip_judged_never-answered", "answered_only_with_original_ttl_0_ip_judged")
}
