package control

// C18 monitor: the dial target follows dial_mode.
//   level 1  ControlPlane.ChooseDialTarget over the whole finite table
//            (4 modes x 6 outbound kinds x 2 families x 3 ports x sniffed-string
//            classes) + random host names, against a decision table written
//            from the property statement;
//   level 2  ControlPlane.routeDial (chooseProxyDialer + the node dialer) with
//            a compiled routing matcher and recording fake node dialers: which
//            outbound group is used after the re-route and which target string
//            the node dialer receives.
// "Genuine" names are produced by production paths only: answers cached through
// DnsController.NormalizeAndCacheDnsResp_ / HandleWithResponseWriter_ (resolved
// through dae) and the real-domain probe (verified / negative-cached) driven
// through ChooseDialTarget itself with the probe resolver seam replaced.

import (
	"context"
	"fmt"
	"io"
	"net"
	"net/netip"
	"strconv"
	"strings"
	"sync"
	"sync/atomic"
	"testing"
	"time"

	"github.com/bits-and-blooms/bloom/v3"
	"github.com/daeuniverse/dae/common/consts"
	"github.com/daeuniverse/dae/common/netutils"
	"github.com/daeuniverse/dae/component/dns"
	ob "github.com/daeuniverse/dae/component/outbound"
	componentdialer "github.com/daeuniverse/dae/component/outbound/dialer"
	"github.com/daeuniverse/dae/config"
	vk "github.com/daeuniverse/dae/verifkit"
	"github.com/daeuniverse/outbound/netproxy"
	dnsmessage "github.com/miekg/dns"
	"github.com/sirupsen/logrus"
)

// ---- sniffed-string classes ---------------------------------------------------

type verifC18Sniff struct {
	S     string
	Class string
	// Kind drives the oracle:
	//   empty | name-genuine | name-genuine-v4only | name-notgenuine | name-variant (of a genuine name: case / trailing dot)
	//   name-silent (statement silent whether genuine) | literal (bare / bracketed IP) | literal-port | name-port | degenerate
	Kind string
	Host string // expected host part for name / literal forms (brackets, port stripped)
	Port string // sniffed port, if the string carries one
}

const (
	verifC18Known    = "known.example"     // A+AAAA cached via NormalizeAndCacheDnsResp_
	verifC18KnownH   = "known-h.example"   // A+AAAA resolved through HandleWithResponseWriter_
	verifC18Fixed0   = "fixed0.example"    // fixed_domain_ttl 0: cache entry expires at once, original TTL 1h
	verifC18AOnly    = "a-only.example"    // only an A answer was resolved
	verifC18EmptyAns = "empty-ans.example" // resolved through dae, but the answer was empty
	verifC18Verified = "verified.example"  // real-domain probe found addresses
	verifC18Negative = "negative.example"  // real-domain probe found no record
	// probes of which one address family failed (timeout / no route) while the other one was answered
	verifC18HalfA4    = "half-a-fails.example"    // A lookup failed, AAAA answered: no record
	verifC18HalfA6    = "half-aaaa-fails.example" // AAAA lookup failed, A answered: no record
	verifC18HalfGood4 = "half-aaaa-fails-a-found.example"
	verifC18HalfGood6 = "half-a-fails-aaaa-found.example"
	verifC18Unknown   = "unknown.example" // probe fails (both families error)
	verifC18Lit4      = "93.184.216.34"
	verifC18Lit6      = "2606:4700::1111"
)

func verifC18Classes() []verifC18Sniff {
	return []verifC18Sniff{
		{S: "", Class: "empty", Kind: "empty"},
		{S: verifC18Known, Class: "known(dns-cache)", Kind: "name-genuine", Host: verifC18Known},
		{S: verifC18KnownH, Class: "known(dns-handler)", Kind: "name-genuine", Host: verifC18KnownH},
		{S: verifC18Fixed0, Class: "known(fixed-ttl-0)", Kind: "name-genuine", Host: verifC18Fixed0},
		{S: verifC18Verified, Class: "known(verified)", Kind: "name-genuine", Host: verifC18Verified},
		{S: verifC18AOnly, Class: "known(A-only)", Kind: "name-genuine-v4only", Host: verifC18AOnly},
		{S: verifC18EmptyAns, Class: "resolved-empty-answer", Kind: "name-silent", Host: verifC18EmptyAns},
		{S: verifC18Unknown, Class: "unknown", Kind: "name-notgenuine", Host: verifC18Unknown},
		{S: verifC18Negative, Class: "negative-cached", Kind: "name-notgenuine", Host: verifC18Negative},
		{S: verifC18HalfA4, Class: "probe-half-failed(A)-no-record", Kind: "name-notgenuine", Host: verifC18HalfA4},
		{S: verifC18HalfA6, Class: "probe-half-failed(AAAA)-no-record", Kind: "name-notgenuine", Host: verifC18HalfA6},
		{S: verifC18HalfGood4, Class: "known(verified,AAAA-lookup-failed)", Kind: "name-genuine", Host: verifC18HalfGood4},
		{S: verifC18HalfGood6, Class: "known(verified,A-lookup-failed)", Kind: "name-genuine", Host: verifC18HalfGood6},
		{S: strings.ToUpper(verifC18Known), Class: "upper-case-of-known", Kind: "name-variant", Host: strings.ToUpper(verifC18Known)},
		{S: strings.ToUpper(verifC18Verified), Class: "upper-case-of-verified", Kind: "name-variant", Host: strings.ToUpper(verifC18Verified)},
		{S: verifC18Known + ".", Class: "trailing-dot-of-known", Kind: "name-variant", Host: verifC18Known + "."},
		{S: verifC18Verified + ".", Class: "trailing-dot-of-verified", Kind: "name-variant", Host: verifC18Verified + "."},
		{S: strings.ToUpper(verifC18Unknown), Class: "upper-case-of-unknown", Kind: "name-notgenuine", Host: strings.ToUpper(verifC18Unknown)},
		{S: verifC18Known + ":8443", Class: "name:port(known,other-port)", Kind: "name-port", Host: verifC18Known, Port: "8443"},
		{S: verifC18Known + ":443", Class: "name:port(known,443)", Kind: "name-port", Host: verifC18Known, Port: "443"},
		{S: verifC18Unknown + ":8443", Class: "name:port(unknown)", Kind: "name-port", Host: verifC18Unknown, Port: "8443"},
		{S: verifC18Lit4, Class: "v4", Kind: "literal", Host: verifC18Lit4},
		{S: verifC18Lit6, Class: "v6", Kind: "literal", Host: verifC18Lit6},
		{S: "[" + verifC18Lit6 + "]", Class: "[v6]", Kind: "literal", Host: verifC18Lit6},
		{S: "2606:4700:0:0:0:0:0:1111", Class: "v6-uncompressed", Kind: "literal", Host: verifC18Lit6},
		{S: "::ffff:1.2.3.4", Class: "v6-mapped-v4", Kind: "literal", Host: "::ffff:1.2.3.4"},
		{S: "[" + verifC18Lit6 + "]:8443", Class: "[v6]:port", Kind: "literal-port", Host: verifC18Lit6, Port: "8443"},
		{S: verifC18Lit4 + ":8443", Class: "v4:port", Kind: "literal-port", Host: verifC18Lit4, Port: "8443"},
		{S: verifC18Lit4 + ":443", Class: "v4:port(443)", Kind: "literal-port", Host: verifC18Lit4, Port: "443"},
		// outside the classes the statement enumerates: recorded, never judged
		{S: verifC18Known + ":", Class: "degenerate name:", Kind: "degenerate"},
		{S: ":443", Class: "degenerate :port", Kind: "degenerate"},
		{S: "[::1", Class: "degenerate [v6", Kind: "degenerate"},
		{S: "a:b:c", Class: "degenerate a:b:c", Kind: "degenerate"},
		{S: verifC18Known + ":http", Class: "degenerate name:service", Kind: "degenerate"},
		{S: "[" + verifC18Known + "]", Class: "degenerate [name]", Kind: "degenerate"},
		{S: "[" + verifC18Lit6 + "]:", Class: "degenerate [v6]:", Kind: "degenerate"},
		{S: "fe80::1%eth0", Class: "degenerate v6-zone", Kind: "degenerate"},
		{S: "256.1.1.1", Class: "degenerate bad-v4", Kind: "degenerate"},
	}
}

type verifC18Outbound struct {
	Name     string
	Index    consts.OutboundIndex
	Reserved bool
}

func verifC18Outbounds() []verifC18Outbound {
	return []verifC18Outbound{
		{"direct", consts.OutboundDirect, true},
		{"block", consts.OutboundBlock, true},
		{"control-plane-routing", consts.OutboundControlPlaneRouting, true},
		{"must_rules", consts.OutboundMustRules, true},
		{"user2", consts.OutboundIndex(2), false},
		{"user7", consts.OutboundIndex(7), false},
	}
}

// ---- the decision table (from the statement) -------------------------------------

// verifC18Expect describes what the statement demands for one cell.
type verifC18Expect struct {
	// Target: "dst" = original destination ip:port; "name" = sniffed name (Host) and
	// dst port; "literal" = the IP literal normalised and dst port; "either" = "dst" or
	// "name" both satisfy the statement; "name-anyport"/"literal-anyport" = host fixed,
	// port either the sniffed or the destination one (statement silent);
	// "either-anyport"; "free" = only recorded.
	Target string
	// Reroute: "yes" | "no" | "free"
	Reroute string
	// DialIp: "yes" | "free"
	DialIp string
}

func verifC18Table(mode consts.DialMode, o verifC18Outbound, dstIs4 bool, s verifC18Sniff) verifC18Expect {
	// "the original destination IP and port when dial_mode is ip, when no name was
	// sniffed, or when the outbound is a built-in one"
	if mode == consts.DialMode_Ip || s.Kind == "empty" || o.Reserved {
		return verifC18Expect{Target: "dst", Reroute: "no", DialIp: "yes"}
	}
	if s.Kind == "degenerate" {
		return verifC18Expect{Target: "free", Reroute: "free", DialIp: "free"}
	}
	switch mode {
	case consts.DialMode_Domain:
		// "the sniffed name only if that name is known to be genuine (resolved through
		// dae or verified), otherwise the IP". Whether domain mode re-routes is not part
		// of the statement: recorded.
		switch s.Kind {
		case "name-genuine":
			return verifC18Expect{Target: "name", Reroute: "free", DialIp: "free"}
		case "name-genuine-v4only":
			if dstIs4 {
				return verifC18Expect{Target: "name", Reroute: "free", DialIp: "free"}
			}
			return verifC18Expect{Target: "either", Reroute: "free", DialIp: "free"}
		case "name-notgenuine":
			return verifC18Expect{Target: "dst", Reroute: "free", DialIp: "yes"}
		case "name-variant", "name-silent":
			return verifC18Expect{Target: "either", Reroute: "free", DialIp: "free"}
		case "name-port":
			return verifC18Expect{Target: "either-anyport", Reroute: "free", DialIp: "free"}
		case "literal", "literal-port":
			// an IP literal is not a name known to be genuine -> the IP
			return verifC18Expect{Target: "dst", Reroute: "free", DialIp: "yes"}
		}
	case consts.DialMode_DomainPlus, consts.DialMode_DomainCao:
		// "in domain+ it is the sniffed name unconditionally, and in domain++
		// additionally the flow is routed again using that name"
		rr := "no"
		if mode == consts.DialMode_DomainCao {
			rr = "yes"
		}
		switch s.Kind {
		case "name-genuine", "name-genuine-v4only", "name-notgenuine", "name-variant", "name-silent":
			return verifC18Expect{Target: "name", Reroute: rr, DialIp: "free"}
		case "name-port":
			return verifC18Expect{Target: "name-anyport", Reroute: rr, DialIp: "free"}
		case "literal":
			return verifC18Expect{Target: "literal", Reroute: rr, DialIp: "free"}
		case "literal-port":
			return verifC18Expect{Target: "literal-anyport", Reroute: rr, DialIp: "free"}
		}
	}
	return verifC18Expect{Target: "free", Reroute: "free", DialIp: "free"}
}

type verifC18Parsed struct {
	OK   bool
	Host string
	Port int
	Why  string
}

// verifC18Parse: every returned target must net.SplitHostPort with a non-empty
// host and a numeric port.
func verifC18Parse(target string) verifC18Parsed {
	h, p, err := net.SplitHostPort(target)
	if err != nil {
		return verifC18Parsed{Why: "SplitHostPort: " + err.Error()}
	}
	if h == "" {
		return verifC18Parsed{Why: "empty host"}
	}
	n, err := strconv.ParseUint(p, 10, 16)
	if err != nil {
		return verifC18Parsed{Why: "port not numeric: " + strconv.Quote(p)}
	}
	if strings.ContainsAny(h, "[] \t") {
		return verifC18Parsed{Why: "host contains brackets or blanks: " + strconv.Quote(h)}
	}
	return verifC18Parsed{OK: true, Host: h, Port: int(n)}
}

func verifC18IsDst(p verifC18Parsed, dst netip.AddrPort) bool {
	a, err := netip.ParseAddr(p.Host)
	return err == nil && a == dst.Addr() && p.Port == int(dst.Port())
}

func verifC18HostIsName(p verifC18Parsed, name string) bool {
	return strings.EqualFold(strings.TrimSuffix(p.Host, "."), strings.TrimSuffix(name, "."))
}

func verifC18HostIsLiteral(p verifC18Parsed, lit string) bool {
	a, err1 := netip.ParseAddr(p.Host)
	b, err2 := netip.ParseAddr(lit)
	return err1 == nil && err2 == nil && a == b
}

// verifC18Judge compares one observation with the table. Returns "" or a
// structural signature + description.
func verifC18Judge(e verifC18Expect, s verifC18Sniff, dst netip.AddrPort, target string, reroute, dialIp bool) (sig, what, shape string) {
	p := verifC18Parse(target)
	if e.Target == "free" {
		if p.OK {
			return "", "", "wellformed"
		}
		return "", "", "malformed"
	}
	if !p.OK {
		return "malformed-target", fmt.Sprintf("target %q is malformed (%s)", target, p.Why), "malformed"
	}
	portOK := func(any bool) bool {
		if p.Port == int(dst.Port()) {
			return true
		}
		return any && s.Port != "" && strconv.Itoa(p.Port) == s.Port
	}
	isDst := verifC18IsDst(p, dst)
	switch {
	case isDst:
		shape = "dst"
	case verifC18HostIsLiteral(p, s.Host):
		shape = "literal"
	case s.Host != "" && verifC18HostIsName(p, s.Host):
		shape = "name"
	default:
		shape = "other"
	}
	if s.Port != "" && shape != "dst" {
		if strconv.Itoa(p.Port) == s.Port && p.Port != int(dst.Port()) {
			shape += "+sniffed-port"
		} else {
			shape += "+dst-port"
		}
	}
	bad := func(want string) (string, string, string) {
		return "wrong-target/want-" + want, fmt.Sprintf("target %q, statement demands %s", target, want), shape
	}
	switch e.Target {
	case "dst":
		if !isDst {
			return bad("original-destination")
		}
	case "name":
		if !(verifC18HostIsName(p, s.Host) && portOK(false)) {
			return bad("sniffed-name")
		}
	case "literal":
		if !(verifC18HostIsLiteral(p, s.Host) && portOK(false)) {
			return bad("normalised-literal")
		}
	case "name-anyport":
		if !(verifC18HostIsName(p, s.Host) && portOK(true)) {
			return bad("sniffed-name")
		}
	case "literal-anyport":
		if !(verifC18HostIsLiteral(p, s.Host) && portOK(true)) {
			return bad("normalised-literal")
		}
	case "either":
		if !(isDst || verifC18HostIsName(p, s.Host) && portOK(false)) {
			return bad("name-or-destination")
		}
	case "either-anyport":
		if !(isDst || verifC18HostIsName(p, s.Host) && portOK(true)) {
			return bad("name-or-destination")
		}
	}
	switch e.Reroute {
	case "yes":
		if !reroute {
			return "reroute-missing", "domain++ must route the flow again using the sniffed name, shouldReroute=false", shape
		}
	case "no":
		if reroute {
			return "reroute-unexpected", "shouldReroute=true where the statement has no re-route", shape
		}
	}
	if e.DialIp == "yes" && !dialIp {
		return "dialip-false-for-ip-target", "dialIp=false although the target is the original destination IP", shape
	}
	return "", "", shape
}

// ---- environment -------------------------------------------------------------

type verifC18Env struct {
	cp       *ControlPlane
	ctrl     *DnsController
	inflight atomic.Int64
	probes   sync.Map  // host -> count
	t0       time.Time // fixtures complete
}

func verifC18ReplyMsg(name string, qtype uint16, addrs ...string) *dnsmessage.Msg {
	msg := new(dnsmessage.Msg)
	msg.SetQuestion(dnsmessage.Fqdn(name), qtype)
	msg.Response = true
	msg.RecursionAvailable = true
	for _, a := range addrs {
		h := dnsmessage.RR_Header{Name: dnsmessage.Fqdn(name), Rrtype: qtype, Class: dnsmessage.ClassINET, Ttl: 3600}
		if qtype == dnsmessage.TypeA {
			msg.Answer = append(msg.Answer, &dnsmessage.A{Hdr: h, A: net.ParseIP(a).To4()})
		} else {
			msg.Answer = append(msg.Answer, &dnsmessage.AAAA{Hdr: h, AAAA: net.ParseIP(a)})
		}
	}
	return msg
}

type verifC18Forwarder struct{}

func (verifC18Forwarder) Close() error { return nil }
func (verifC18Forwarder) ForwardDNS(ctx context.Context, data []byte) (*dnsmessage.Msg, error) {
	var req dnsmessage.Msg
	if err := req.Unpack(data); err != nil {
		return nil, err
	}
	if planned, ok := verifC18PlannedReply(&req); ok {
		// scripted answers of the reload histories (c18_reload_verif_test.go)
		return planned, nil
	}
	q := req.Question[0]
	var resp *dnsmessage.Msg
	if q.Qtype == dnsmessage.TypeA {
		resp = verifC18ReplyMsg(q.Name, q.Qtype, "203.0.113.7")
	} else {
		resp = verifC18ReplyMsg(q.Name, q.Qtype, "2001:db8::7")
	}
	resp.Id = req.Id
	return resp, nil
}

type verifC18Writer struct{ n int }

func (w *verifC18Writer) LocalAddr() net.Addr              { return nil }
func (w *verifC18Writer) RemoteAddr() net.Addr             { return nil }
func (w *verifC18Writer) TsigStatus() error                { return nil }
func (w *verifC18Writer) TsigTimersOnly(bool)              {}
func (w *verifC18Writer) Hijack()                          {}
func (w *verifC18Writer) Close() error                     { return nil }
func (w *verifC18Writer) Write([]byte) (int, error)        { return 0, nil }
func (w *verifC18Writer) WriteMsg(m *dnsmessage.Msg) error { w.n++; return nil }

// verifC18Dialer is the fake proxy node: it records what it is asked to dial.
type verifC18Dialer struct {
	group string
	mu    sync.Mutex
	got   []string
}

func (d *verifC18Dialer) DialContext(ctx context.Context, network, addr string) (netproxy.Conn, error) {
	d.mu.Lock()
	d.got = append(d.got, addr)
	d.mu.Unlock()
	return nil, io.EOF
}

func (d *verifC18Dialer) take() []string {
	d.mu.Lock()
	defer d.mu.Unlock()
	g := d.got
	d.got = nil
	return g
}

func verifC18Group(name string) (*ob.DialerGroup, *verifC18Dialer) {
	log := verifQuietLog()
	fd := &verifC18Dialer{group: name}
	gopt := &componentdialer.GlobalOption{Log: log, CheckInterval: time.Hour}
	d := componentdialer.NewDialer(fd, gopt, componentdialer.InstanceOption{DisableCheck: true}, &componentdialer.Property{})
	g := ob.NewDialerGroup(gopt, name, []*componentdialer.Dialer{d}, []*componentdialer.Annotation{{}},
		ob.DialerSelectionPolicy{Policy: consts.DialerSelectionPolicy_Fixed, FixedIndex: 0},
		func(bool, *componentdialer.NetworkType, bool) {})
	return g, fd
}

func verifC18Setup(m *vk.Monitor) (env *verifC18Env, cleanup func(), ok bool) {
	env = &verifC18Env{}
	log := verifQuietLog()

	// DNS controller as the daemon builds it (no bpf side effects).
	routing, err := dns.New(&config.Dns{Routing: config.DnsRouting{
		Request:  config.DnsRequestRouting{Fallback: "asis"},
		Response: config.DnsResponseRouting{Fallback: "accept"},
	}}, &dns.NewOption{Logger: log, UpstreamReadyCallback: func(*dns.Upstream) error { return nil }})
	if err != nil {
		m.Inconclusive("dns.New: %v", err)
		return nil, nil, false
	}
	ctrl, err := NewDnsController(routing, &DnsControllerOption{
		Log:              log,
		LifecycleContext: context.Background(),
		NewCache: func(fqdn string, answers, ns, extra []dnsmessage.RR, deadline time.Time, originalDeadline time.Time) (*DnsCache, error) {
			return &DnsCache{NS: ns, Extra: extra, Answer: answers, Deadline: deadline, OriginalDeadline: originalDeadline}, nil
		},
		BestDialerChooser: func(ctx context.Context, req *udpRequest, upstream *dns.Upstream) (*dialArgument, error) {
			return &dialArgument{l4proto: consts.L4ProtoStr_UDP, ipversion: consts.IpVersionStr_4, bestTarget: req.realDst}, nil
		},
		FixedDomainTtl: map[string]int{verifC18Fixed0: 0},
	})
	if err != nil {
		m.Inconclusive("NewDnsController: %v", err)
		return nil, nil, false
	}
	env.ctrl = ctrl

	ctx, cancel := context.WithCancel(context.Background())
	cp := &ControlPlane{
		realDomainSet: bloom.NewWithEstimates(2048, 0.001), // as newControlPlane
		log:           log,
		ctx:           ctx,
		cancel:        cancel,
	}
	cp.dnsController = ctrl
	cp.bootstrapResolvers = []netip.AddrPort{netip.MustParseAddrPort("192.0.2.1:53")}
	env.cp = cp

	oldTTL, oldResolver, oldFactory := realDomainNegativeCacheTTL, resolveIp46ForRealDomainProbe, dnsForwarderFactory
	realDomainNegativeCacheTTL = time.Hour // keep the negative-cached class negative for the whole run
	resolveIp46ForRealDomainProbe = func(ctx context.Context, d netproxy.Dialer, server netip.AddrPort, host string, network string, race bool) (*netutils.Ip46, error, error) {
		env.inflight.Add(1)
		defer env.inflight.Add(-1)
		n, _ := env.probes.LoadOrStore(host, new(atomic.Int64))
		n.(*atomic.Int64).Add(1)
		if _, perr := netip.ParseAddr(host); perr == nil {
			// a query for an IP-literal host: the production resolver answers it locally
			// with that very address and never touches the network
			return netutils.ResolveIp46(ctx, d, server, host, network, race)
		}
		if hn := strings.TrimSuffix(strings.ToLower(host), "."); strings.HasSuffix(hn, "."+verifC18HistSuffix) {
			// control names of the connection histories (c18_attempts_verif_test.go) and of the
			// reload histories (c18_reload_verif_test.go), in whatever spelling they are asked
			if strings.HasPrefix(hn, "v") {
				return &netutils.Ip46{Ip4: netip.MustParseAddr("203.0.113.77")}, nil, nil
			}
			return &netutils.Ip46{}, nil, nil
		}
		switch host {
		case verifC18Verified:
			return &netutils.Ip46{Ip4: netip.MustParseAddr("203.0.113.9")}, nil, nil
		case verifC18Negative:
			return &netutils.Ip46{}, nil, nil
		case verifC18HalfA4:
			return &netutils.Ip46{}, fmt.Errorf("fake bootstrap resolver: A lookup timed out"), nil
		case verifC18HalfA6:
			return &netutils.Ip46{}, nil, fmt.Errorf("fake bootstrap resolver: AAAA lookup timed out")
		case verifC18HalfGood4:
			return &netutils.Ip46{Ip4: netip.MustParseAddr("203.0.113.19")}, nil, fmt.Errorf("fake bootstrap resolver: AAAA lookup timed out")
		case verifC18HalfGood6:
			return &netutils.Ip46{Ip6: netip.MustParseAddr("2001:db8::19")}, fmt.Errorf("fake bootstrap resolver: A lookup timed out"), nil
		}
		e := fmt.Errorf("fake bootstrap resolver: no route")
		return &netutils.Ip46{}, e, e
	}
	dnsForwarderFactory = func(*dns.Upstream, dialArgument, *logrus.Logger) (DnsForwarder, error) {
		return verifC18Forwarder{}, nil
	}
	cleanup = func() {
		cancel()
		deadline := time.Now().Add(5 * time.Second)
		for env.inflight.Load() > 0 && time.Now().Before(deadline) {
			time.Sleep(time.Millisecond)
		}
		time.Sleep(20 * time.Millisecond) // let probe goroutines that already passed the resolver finish
		realDomainNegativeCacheTTL, resolveIp46ForRealDomainProbe, dnsForwarderFactory = oldTTL, oldResolver, oldFactory
		_ = ctrl.Close()
	}

	// ---- resolved through dae
	req := &udpRequest{realSrc: netip.MustParseAddrPort("192.0.2.10:41000"), realDst: netip.MustParseAddrPort("192.0.2.53:53"), routingResult: &bpfRoutingResult{}}
	store := func(name string, qtype uint16, addrs ...string) bool {
		key := ctrl.responseCacheKey(ctrl.cacheKey(dnsmessage.Fqdn(name), qtype), req, consts.DnsRequestOutboundIndex_AsIs, nil)
		if err := ctrl.NormalizeAndCacheDnsResp_(verifC18ReplyMsg(name, qtype, addrs...), key); err != nil {
			m.Inconclusive("NormalizeAndCacheDnsResp_(%s): %v", name, err)
			return false
		}
		return true
	}
	for _, n := range []string{verifC18Known, verifC18Fixed0} {
		if !store(n, dnsmessage.TypeA, "203.0.113.5") || !store(n, dnsmessage.TypeAAAA, "2001:db8::5") {
			return env, cleanup, false
		}
	}
	if !store(verifC18AOnly, dnsmessage.TypeA, "203.0.113.6") || !store(verifC18EmptyAns, dnsmessage.TypeA) || !store(verifC18EmptyAns, dnsmessage.TypeAAAA) {
		return env, cleanup, false
	}
	for _, qt := range []uint16{dnsmessage.TypeA, dnsmessage.TypeAAAA} {
		q := new(dnsmessage.Msg)
		q.SetQuestion(dnsmessage.Fqdn(verifC18KnownH), qt)
		w := &verifC18Writer{}
		if err := ctrl.HandleWithResponseWriter_(context.Background(), q, req, w); err != nil || w.n == 0 {
			m.Inconclusive("resolving %s through the DNS handler failed: %v", verifC18KnownH, err)
			return env, cleanup, false
		}
	}

	// ---- verified / negative-cached: let domain mode itself start the probe
	cp.dialMode = consts.DialMode_Domain
	dst := netip.MustParseAddrPort("198.51.100.1:443")
	for _, n := range []string{verifC18Verified, verifC18Negative, verifC18Unknown, verifC18HalfA4, verifC18HalfA6, verifC18HalfGood4, verifC18HalfGood6} {
		cp.ChooseDialTarget(consts.OutboundIndex(2), dst, n) // first hit: starts the asynchronous probe
		t0 := time.Now()
		for {
			if c, ok := env.probes.Load(n); ok && c.(*atomic.Int64).Load() > 0 && env.inflight.Load() == 0 {
				break
			}
			if time.Since(t0) > 10*time.Second {
				m.Inconclusive("real-domain probe for %s was not started within 10 s", n)
				return env, cleanup, false
			}
			time.Sleep(time.Millisecond)
		}
		// barrier: the same production function, synchronously. If the asynchronous
		// probe has already published its verdict this returns from the caches,
		// otherwise it probes once more; either way the verdict is settled afterwards.
		cp.probeAndUpdateRealDomain(n)
	}
	env.t0 = time.Now()
	return env, cleanup, true
}

// fixedTtl0Fresh: the fixed_domain_ttl 0 entry is expired from birth and the
// cache janitor (every dnsCacheJanitorInterval) may remove it together with
// its knowledge; the statement does not say for how long a resolved name stays
// known, so that class is judged only while no janitor pass can have happened.
func (env *verifC18Env) fixedTtl0Fresh() bool {
	return time.Since(env.t0) < dnsCacheJanitorInterval/2
}

func verifC18RandomName(r interface{ IntN(int) int }) string {
	const al = "abcdefghijklmnopqrstuvwxyz0123456789-"
	nl := 1 + r.IntN(4)
	var labels []string
	for i := 0; i < nl; i++ {
		l := 1 + r.IntN(10)
		b := make([]byte, l)
		for j := range b {
			b[j] = al[r.IntN(len(al))]
		}
		if b[0] == '-' {
			b[0] = 'x'
		}
		if b[l-1] == '-' {
			b[l-1] = 'y'
		}
		labels = append(labels, string(b))
	}
	s := strings.Join(labels, ".")
	switch r.IntN(8) {
	case 0:
		s = strings.ToUpper(s)
	case 1:
		s += "."
	case 2:
		s = labels[0] + ".rnd.test"
	}
	return s
}

// ---- the monitor ----------------------------------------------------------------

func TestVerifC18(t *testing.T) {
	m := vk.NewMonitor("C18", "", "exploration",
		"exhaustive table: 4 dial modes x 6 outbound kinds (direct, block, control-plane-routing, must_rules, user 2, user 7) x dst {v4,v6} x ports {53,443,65535} x sniffed-string classes, "+
			"plus random host names from the hostname alphabet, through ControlPlane.ChooseDialTarget; and the routeDial leg (re-route + node dialer) for the cells whose re-route decision the statement fixes; "+
			"connection histories (4 connections per sniffed value and outbound, dae's asynchronous real-domain probe completing between the 1st and the later ones, every connection judged) over a systematic sweep of IP-literal forms "+
			"(first character 0-9/a-f/A-F/':'/'[', compressed/uncompressed/zero-padded, IPv4-mapped, zone, bracketed, with port, raw and via sniffing.NormalizeDomain) and hex-looking host names; "+
			"dial attempt sequences at routeDial with the first node dial failing (8 fault classes), every attempt's address and group judged; "+
			"reload histories: names resolved through the DNS request path (scoped cache keys from production dns routing, question spelled lower/UPPER/mIxEd), then generation changes (clone+restore into a fresh controller, rollback self-restore, staged reuse of the shared store; optionally with other dns routing), janitor runs, size eviction, waiting, re-resolution, and after every step the dial target of every name x address type x destination x spelling (6) in all four modes; "+
			"distinct = one per table cell (mode, outbound, family, port, class) and per (mode, family, shape) of random names; every cell is non-trivial (it is compared with the decision table)")
	m.Assume("decision table verifC18Table is the property statement; where the statement is silent (re-route in domain mode, dialIp for name targets, which port survives for name:port / literal:port, case/trailing-dot variants of genuine names, names whose resolution returned an empty answer, A-only names asked for an IPv6 destination, degenerate strings) the outcome is recorded, not judged",
		"domain+ does not re-route ('in domain++ additionally the flow is routed again')",
		"genuine names are created by production code only: NormalizeAndCacheDnsResp_ / HandleWithResponseWriter_ (resolved through dae, TTL 3600 s so no deadline is near) and the real-domain probe started by ChooseDialTarget with the resolver seam resolveIp46ForRealDomainProbe replaced; realDomainNegativeCacheTTL is raised to 1 h for the run",
		"connection histories: the probe resolver seam answers a query for an IP-literal host through the production netutils.ResolveIp46 (answered locally, no network), control names *.hist.test are scripted; waiting between the connections is a barrier (what the later connections can expose), never a verdict; a zoned literal (fe80::1%eth0) counts as an IP literal",
		"dial attempts: node dialers inside production DialerGroups (one group with two nodes and the random policy) are scripted; whether routeDial tries again after a fault is recorded, not judged; each attempt that is made must carry the address the statement demands and go to a group the flow may use; the result's SniffedDomain field is recorded only",
		"reload histories: 'resolved through dae' is the monitor's own record of a fresh answer given to a client (request bracket, scripted original TTL, unique address); a name must be dialled in domain mode only while such a record is certainly not over AND the current generation's DNS cache still holds that very answer (found by its address; so the demand never exceeds what dae's own carried-over state implies), must not be dialled when no record exists or every record is certainly over (30 ms guard; the real-domain probe verdict of every spelling is settled negative in every generation), everything else is counted; names are compared case-insensitively and modulo one trailing dot; a generation's ControlPlane value is built by hand and the hand-over calls are the ones the daemon makes (CloneDnsCache, pendingDnsReloadCache + replayDnsReloadCache, reuseDNSControllerFrom with SetDNSHandoffController), bpf callbacks are no-ops",
		"level 2 builds the ControlPlane value by hand (outbound groups with recording fake node dialers, routing matcher compiled from text through the production optimiser pipeline); newControlPlane needs a datapath and is not executed")

	env, cleanup, ok := verifC18Setup(m)
	if cleanup != nil {
		defer cleanup()
	}
	if !ok {
		m.Done(t)
		return
	}
	cp := env.cp
	r := vk.NewRand(0xC18)

	modes := []consts.DialMode{consts.DialMode_Ip, consts.DialMode_Domain, consts.DialMode_DomainPlus, consts.DialMode_DomainCao}
	outs := verifC18Outbounds()
	dsts := []netip.Addr{netip.MustParseAddr("198.51.100.1"), netip.MustParseAddr("2001:db8:1::1")}
	ports := []uint16{53, 443, 65535}
	classes := verifC18Classes()

	call := func(o consts.OutboundIndex, dst netip.AddrPort, s string) (target string, reroute, dialIp bool, panicked string) {
		defer func() {
			if x := recover(); x != nil {
				panicked = fmt.Sprint(x)
			}
		}()
		target, reroute, dialIp = cp.ChooseDialTarget(o, dst, s)
		return
	}

	cells := 0
	degenerate := map[string]string{} // recorded only: malformed targets for strings outside the statement's classes
	for _, mode := range modes {
		cp.dialMode = mode
		for _, o := range outs {
			for _, da := range dsts {
				for _, port := range ports {
					dst := netip.AddrPortFrom(da, port)
					for _, s := range classes {
						cells++
						m.Eval(1)
						cell := fmt.Sprintf("%s|%s|%v|%d|%s", mode, o.Name, da.Is4(), port, s.Class)
						m.Distinct("T|" + cell)
						e := verifC18Table(mode, o, da.Is4(), s)
						if s.S == verifC18Fixed0 && e.Target == "name" && mode == consts.DialMode_Domain {
							if !env.fixedTtl0Fresh() {
								m.Count("ambiguous_fixed_ttl0_after_janitor_window", 1)
								e.Target = "either"
							} else {
								m.Count("judged_fixed_ttl0_known_until_original_ttl", 1)
							}
						}
						target, reroute, dialIp, pan := call(o.Index, dst, s.S)
						wit := map[string]any{"dial_mode": string(mode), "outbound": o.Name, "outbound_index": int(o.Index), "dst": dst.String(), "sniffed": s.S, "class": s.Class,
							"got": map[string]any{"dialTarget": target, "shouldReroute": reroute, "dialIp": dialIp}, "table": e}
						if pan != "" {
							m.Violation("panic", "ChooseDialTarget panicked: "+pan, wit)
							continue
						}
						sig, what, shape := verifC18Judge(e, s, dst, target, reroute, dialIp)
						m.Count("table_expect_"+e.Target, 1)
						if sig != "" {
							m.Violation(sig+"/"+string(mode)+"/"+s.Kind, what, wit)
							continue
						}
						// records where the statement is silent
						if e.Target == "free" {
							m.Count("record_degenerate_"+shape, 1)
							if shape == "malformed" {
								degenerate[string(mode)+" "+strconv.Quote(s.S)] = target
							}
						}
						if e.Target == "either" || e.Target == "either-anyport" || e.Target == "name-anyport" || e.Target == "literal-anyport" {
							m.Count(fmt.Sprintf("record_%s_%s_%s", mode, strings.NewReplacer(" ", "", "(", "_", ")", "", ",", "_", ":", "-", "[", "", "]", "").Replace(s.Class), shape), 1)
						}
						if e.Reroute == "free" && e.Target != "free" && reroute {
							m.Count("record_domain_mode_reroute_true_"+shape, 1)
						}
						if e.DialIp == "free" && e.Target != "free" {
							m.Count(fmt.Sprintf("record_dialip_%v_for_%s", dialIp, strings.SplitN(shape, "+", 2)[0]), 1)
						}
						if m.WantSample() && mode == consts.DialMode_DomainCao && !o.Reserved && s.Kind == "literal" {
							m.Sample(wit)
						}
					}
				}
			}
		}
	}
	m.Set("exhaustive", true)
	m.Set("recorded_malformed_targets_for_degenerate_sniffed_strings", degenerate)
	m.Set("table_cells", cells)
	m.SetFloor(cells)

	// ---- random host names -------------------------------------------------------
	nrand := vk.Scale(5000, 200000)
	for i := 0; i < nrand && m.Violations() < 5; i++ {
		name := verifC18RandomName(r)
		mode := modes[r.IntN(len(modes))]
		o := outs[r.IntN(len(outs))]
		dst := netip.AddrPortFrom(dsts[r.IntN(2)], ports[r.IntN(3)])
		s := verifC18Sniff{S: name, Class: "random", Kind: "name-notgenuine", Host: name}
		if _, err := netip.ParseAddr(name); err == nil {
			s.Kind = "literal"
		}
		cp.dialMode = mode
		e := verifC18Table(mode, o, dst.Addr().Is4(), s)
		target, reroute, dialIp, pan := call(o.Index, dst, name)
		m.Eval(1)
		wit := map[string]any{"dial_mode": string(mode), "outbound": o.Name, "dst": dst.String(), "sniffed": name, "class": "random",
			"got": map[string]any{"dialTarget": target, "shouldReroute": reroute, "dialIp": dialIp}, "table": e}
		if pan != "" {
			m.Violation("panic", "ChooseDialTarget panicked: "+pan, wit)
			continue
		}
		sig, what, shape := verifC18Judge(e, s, dst, target, reroute, dialIp)
		if sig != "" {
			m.Violation(sig+"/"+string(mode)+"/random-"+s.Kind, what, wit)
			continue
		}
		m.Count("random_names_"+shape, 1)
		m.Distinct(fmt.Sprintf("R|%s|%v|%v|%s|%d", mode, o.Reserved, dst.Addr().Is4(), shape, strings.Count(name, ".")))
	}

	// ---- level 2: re-route and node dialer ------------------------------------------
	verifC18Level2(m, env, classes, dsts, ports)

	tH := time.Now()
	verifC18LiteralHistories(m, env)
	tA := time.Now()
	verifC18DialAttempts(m, env)
	m.Set("info_wall_ms_histories_attempts", []int64{tA.Sub(tH).Milliseconds(), time.Since(tA).Milliseconds()})
	m.Require("history_conn_first", "history_conn_later", "history_literal_conn_first", "history_literal_conn_later",
		"history_literal_firstchar_digit", "history_literal_firstchar_hex-lower", "history_literal_firstchar_hex-upper", "history_literal_firstchar_colon", "history_literal_firstchar_bracket",
		"history_literal_via_sniffer", "history_literal_with_zone", "history_control_name_dialled_by_name_after_probe",
		"attempts_connections", "attempts_retry_judged", "attempts_retry_sent_name", "attempts_retry_sent_dst", "attempts_retry_sent_literal",
		"attempts_fault_ENETUNREACH_dials_2", "attempts_fault_message-network-is-unreachable_dials_2", "attempts_fault_message-no-suitable-address_dials_2")

	verifC18ViaSniffer(m, cp)
	// both history families mostly wait for TTLs to run out: run them side by side
	tK := time.Now()
	var hwg sync.WaitGroup
	hwg.Add(1)
	go func() {
		defer hwg.Done()
		verifC18ReloadHistories(m)
	}()
	verifC18KnowledgeHistories(m)
	hwg.Wait()
	m.Set("info_wall_ms_knowledge_and_reload_histories", time.Since(tK).Milliseconds())
	m.Require("knowledge_probe_inside_original_ttl", "knowledge_probe_after_every_original_ttl", "knowledge_sibling_removed")
	m.Require("table_expect_dst", "table_expect_name", "table_expect_literal", "table_expect_either", "table_expect_name-anyport", "table_expect_literal-anyport",
		"random_names_dst", "random_names_name", "judged_fixed_ttl0_known_until_original_ttl", "l2_rerouted_to_other_group", "l2_rerouted_to_builtin_dials_dst", "l2_dialer_received_name", "l2_dialer_received_dst")
	m.Done(t)
}

func verifC18Level2(m *vk.Monitor, env *verifC18Env, classes []verifC18Sniff, dsts []netip.Addr, ports []uint16) {
	cp := env.cp
	prog := &vk.RProg{
		Rules: []vk.RRule{
			{Conds: []vk.RCond{{Func: "domain", Params: []vk.RParam{{Key: "full", Val: verifC18Known}}}}, Out: vk.ROut{Name: verifGroups[1]}},
			{Conds: []vk.RCond{{Func: "domain", Params: []vk.RParam{{Key: "suffix", Val: verifC18Verified}}}}, Out: vk.ROut{Name: verifGroups[2]}},
			{Conds: []vk.RCond{{Func: "domain", Params: []vk.RParam{{Key: "keyword", Val: "unknown"}}}}, Out: vk.ROut{Name: "direct"}},
			{Conds: []vk.RCond{{Func: "domain", Params: []vk.RParam{{Key: "suffix", Val: "known-h.example"}}}}, Out: vk.ROut{Name: verifGroups[3]}},
		},
		Fallback: vk.ROut{Name: verifGroups[0]},
	}
	rules, fb, err := verifParseRouting(prog.Text())
	if err != nil {
		m.Inconclusive("level 2 routing text rejected: %v", err)
		return
	}
	built, err := verifBuildMatcher(rules, fb, verifProductionOptimizers()...)
	if err != nil {
		m.Inconclusive("level 2 routing matcher: %v", err)
		return
	}
	cp.routingMatcher = built.matcher
	name2id, _ := verifOutboundTable()
	n := 0
	for _, id := range name2id {
		if int(id)+1 > n {
			n = int(id) + 1
		}
	}
	groups := make([]*ob.DialerGroup, n)
	fakes := make([]*verifC18Dialer, n)
	names := make([]string, n)
	for name, id := range name2id {
		groups[id], fakes[id] = verifC18Group(name)
		names[id] = name
	}
	cp.outbounds = groups

	src4, src6 := netip.MustParseAddrPort("192.0.2.10:40000"), netip.MustParseAddrPort("[2001:db8:2::10]:40000")
	modes := []consts.DialMode{consts.DialMode_Ip, consts.DialMode_Domain, consts.DialMode_DomainPlus, consts.DialMode_DomainCao}
	type l2out struct {
		name string
		idx  consts.OutboundIndex
	}
	outs := []l2out{{verifGroups[1], consts.OutboundIndex(name2id[verifGroups[1]])}, {verifGroups[0], consts.OutboundIndex(name2id[verifGroups[0]])}, {"direct", consts.OutboundDirect}, {"control-plane-routing", consts.OutboundControlPlaneRouting}}
	for _, mode := range modes {
		cp.dialMode = mode
		for _, o := range outs {
			for _, da := range dsts {
				for _, port := range ports[:2] {
					dst := netip.AddrPortFrom(da, port)
					src := src4
					if !da.Is4() {
						src = src6
					}
					for _, s := range classes {
						if s.Kind == "degenerate" {
							continue
						}
						first := verifC18Table(mode, verifC18Outbound{Name: o.name, Index: o.idx, Reserved: o.idx.IsReserved()}, da.Is4(), s)
						routedName := vk.RefRoute(prog, vk.RPkt{Src: src, Dst: dst, L4: "tcp", Domain: s.S}).Outbound
						routedNoName := vk.RefRoute(prog, vk.RPkt{Src: src, Dst: dst, L4: "tcp"}).Outbound
						var candidates []string
						switch {
						case first.Reroute == "yes":
							// domain++: "the flow is routed again using that name"
							candidates = []string{routedName}
						case o.idx == consts.OutboundControlPlaneRouting && mode == consts.DialMode_DomainCao && s.S != "":
							candidates = []string{routedName}
						case o.idx == consts.OutboundControlPlaneRouting:
							// routed in user space for the first time; whether the name takes part
							// outside domain++ is not part of the statement
							candidates = []string{routedName, routedNoName}
						case first.Reroute == "no":
							candidates = []string{o.name}
						default: // statement does not fix whether (or how) this cell re-routes
							candidates = []string{o.name, routedName, routedNoName}
						}
						for _, f := range fakes {
							f.take()
						}
						var res *proxyDialResult
						var derr error
						var pan string
						func() {
							defer func() {
								if x := recover(); x != nil {
									pan = fmt.Sprint(x)
								}
							}()
							_, res, derr = cp.routeDial(context.Background(), &proxyDialParam{Outbound: o.idx, Domain: s.S, Src: src, Dest: dst, Network: "tcp"})
						}()
						m.Eval(1)
						cell := fmt.Sprintf("%s|%s|%v|%d|%s", mode, o.name, da.Is4(), port, s.Class)
						m.Distinct("L2|" + cell)
						wit := map[string]any{"dial_mode": string(mode), "outbound": o.name, "dst": dst.String(), "src": src.String(), "sniffed": s.S, "class": s.Class,
							"routing": prog.Text(), "acceptable_groups": candidates}
						if pan != "" {
							m.Violation("l2-panic", "routeDial panicked: "+pan, wit)
							continue
						}
						if res == nil || res.Outbound == nil {
							m.Violation("l2-no-result", fmt.Sprintf("routeDial returned no outbound (err=%v)", derr), wit)
							continue
						}
						var recv []string
						recvGroup := ""
						for i, f := range fakes {
							if g := f.take(); len(g) > 0 {
								recv = append(recv, g...)
								recvGroup = names[i]
							}
						}
						wit["got"] = map[string]any{"group": res.Outbound.Name, "dialTarget": res.DialTarget, "isDialIp": res.IsDialIp, "node_dialer_received": recv, "node_dialer_group": recvGroup, "err": fmt.Sprint(derr)}
						finalName := ""
						for _, c := range candidates {
							if c == res.Outbound.Name {
								finalName = c
							}
						}
						if finalName == "" {
							m.Violation("l2-wrong-group/"+string(mode), fmt.Sprintf("flow used group %s, acceptable after (re-)routing with the sniffed name: %v", res.Outbound.Name, candidates), wit)
							continue
						}
						finalIdx := consts.OutboundIndex(name2id[finalName])
						routed := finalName == routedName && (o.idx == consts.OutboundControlPlaneRouting || first.Reroute != "no")
						e := verifC18Table(mode, verifC18Outbound{Name: finalName, Index: finalIdx, Reserved: finalIdx.IsReserved()}, da.Is4(), s)
						if s.S == verifC18Fixed0 && e.Target == "name" && mode == consts.DialMode_Domain && !env.fixedTtl0Fresh() {
							e.Target = "either"
						}
						wit["table_after_routing"] = e
						if len(recv) != 1 || recv[0] != res.DialTarget || recvGroup != finalName {
							m.Violation("l2-node-dialer-target-differs", fmt.Sprintf("node dialer of %q received %v, chosen target %q of group %s", recvGroup, recv, res.DialTarget, finalName), wit)
							continue
						}
						sig, what, shape := verifC18Judge(verifC18Expect{Target: e.Target, Reroute: "free", DialIp: e.DialIp}, s, dst, recv[0], false, res.IsDialIp)
						if sig != "" {
							m.Violation("l2-"+sig+"/"+string(mode)+"/"+s.Kind, what, wit)
							continue
						}
						if routed && finalName != o.name {
							m.Count("l2_rerouted_to_other_group", 1)
						}
						if routed && finalIdx.IsReserved() {
							m.Count("l2_rerouted_to_builtin_dials_dst", 1)
						}
						m.Count("l2_dialer_received_"+strings.SplitN(shape, "+", 2)[0], 1)
					}
				}
			}
		}
	}
}
